(* Python slice objects with unit step and [slice.indices] normalisation. *)
From Coq Require Import ZArith List Lia Bool.
Import ListNotations.
Open Scope Z_scope.

Record pslice := mk_slice { sstart : Z; sstop : Z }.
Definition slen (s : pslice) : Z := Z.max 0 (sstop s - sstart s).

(* slice(start, stop) with optional bounds, step None/1 *)
Record oslice := mk_oslice { ostart : option Z; ostop : option Z }.

(* CPython PySlice_AdjustIndices for step = 1 *)
Definition adj (v : option Z) (n dflt : Z) : Z :=
  match v with
  | None => dflt
  | Some x => if x <? 0 then Z.max 0 (x + n) else Z.min x n
  end.
Definition indices (s : oslice) (n : Z) : pslice := mk_slice (adj (ostart s) n 0) (adj (ostop s) n n).

Lemma indices_bounds s n : 0 <= n -> 0 <= sstart (indices s n) <= n /\ 0 <= sstop (indices s n) <= n.
Proof.
  intros Hn. unfold indices, adj; cbn.
  destruct (ostart s) as [a|]; destruct (ostop s) as [b|];
    repeat match goal with |- context [?x <? 0] => destruct (Z.ltb_spec x 0) end; lia.
Qed.

(* apply a normalised slice to a list *)
Definition take_slice {A} (s : pslice) (l : list A) : list A :=
  firstn (Z.to_nat (sstop s - sstart s)) (skipn (Z.to_nat (sstart s)) l).
