(* real-number instance: the one the theorems are about. *)
From Coq Require Import Reals ZArith Bool Lra.
From Flocq Require Import Zaux Raux Generic_fmt Round_NE.
From PR Require Import Base.Num.
Open Scope R_scope.

Definition Rltb (a b : R) : bool := if Rlt_dec a b then true else false.
Definition Rleb (a b : R) : bool := if Rle_dec a b then true else false.
Definition Reqb (a b : R) : bool := if Req_EM_T a b then true else false.

Definition RO : ops R := {|
  add := Rplus; sub := Rminus; mul := Rmult; div := Rdiv;
  neg := Ropp; absf := Rabs; sqrtf := sqrt;
  ofZ := IZR; lit := fun m e => IZR m * bpow radix2 e;
  floorZ := Zfloor; ceilZ := Zceil; truncZ := Ztrunc; rintZ := ZnearestE;
  ltb := Rltb; leb := Rleb; eqb := Reqb;
  isnan := fun _ => false; isfinite := fun _ => true; nan := 0
|}.

Lemma Rltb_true a b : Rltb a b = true <-> a < b.
Proof. unfold Rltb; destruct (Rlt_dec a b); split; intros; try easy; lra. Qed.
Lemma Rltb_false a b : Rltb a b = false <-> b <= a.
Proof. unfold Rltb; destruct (Rlt_dec a b); split; intros; try easy; lra. Qed.
Lemma Rleb_true a b : Rleb a b = true <-> a <= b.
Proof. unfold Rleb; destruct (Rle_dec a b); split; intros; try easy; lra. Qed.
Lemma Rleb_false a b : Rleb a b = false <-> b < a.
Proof. unfold Rleb; destruct (Rle_dec a b); split; intros; try easy; lra. Qed.
Lemma Reqb_true a b : Reqb a b = true <-> a = b.
Proof. unfold Reqb; destruct (Req_EM_T a b); split; intros; try easy. Qed.
