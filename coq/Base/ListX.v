From Coq Require Import List Lia Arith.
Import ListNotations.

Lemma NoDup_app_intro {A} (l1 l2 : list A) :
  NoDup l1 -> NoDup l2 -> (forall x, In x l1 -> In x l2 -> False) -> NoDup (l1 ++ l2).
Proof.
  induction l1 as [|a l1 IH]; cbn; intros H1 H2 Hd; [exact H2|].
  inversion H1 as [|? ? Hna Hn1]; subst. constructor.
  - rewrite in_app_iff. intros [H|H]; [contradiction|]. apply (Hd a); auto.
  - apply IH; auto. intros x Hx1 Hx2. apply (Hd x); auto.
Qed.

Lemma firstn_app_exact {A} (l1 l2 : list A) n : n = length l1 -> firstn n (l1 ++ l2) = l1.
Proof. intros ->. rewrite firstn_app, Nat.sub_diag, firstn_all. cbn. apply app_nil_r. Qed.

(* correspondence helper: indices of the cases on which a check fails *)
From Coq Require Import ZArith.
Fixpoint bad_from {A} (f : A -> bool) (i : Z) (l : list A) : list Z :=
  match l with
  | [] => []
  | x :: r => if f x then bad_from f (i + 1)%Z r else i :: bad_from f (i + 1)%Z r
  end.
Definition bad {A} (f : A -> bool) (l : list A) : list Z := bad_from f 0%Z l.
Fixpoint list_eqb {A B} (eq : A -> B -> bool) (a : list A) (b : list B) : bool :=
  match a, b with
  | [], [] => true
  | x :: a', y :: b' => eq x y && list_eqb eq a' b'
  | _, _ => false
  end.
