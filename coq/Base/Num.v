(* One record of arithmetic operations; models are written once over it. *)
From Coq Require Import ZArith Bool.
Open Scope Z_scope.

Record ops (T : Type) := mkOps {
  add : T -> T -> T; sub : T -> T -> T; mul : T -> T -> T; div : T -> T -> T;
  neg : T -> T; absf : T -> T; sqrtf : T -> T;
  ofZ : Z -> T;
  lit : Z -> Z -> T;                 (* lit m e = m * 2^e, exactly *)
  floorZ : T -> Z; ceilZ : T -> Z; truncZ : T -> Z; rintZ : T -> Z;  (* rint = round half even *)
  ltb : T -> T -> bool; leb : T -> T -> bool; eqb : T -> T -> bool;
  isnan : T -> bool; isfinite : T -> bool;
  nan : T
}.
Arguments add {T} _. Arguments sub {T} _. Arguments mul {T} _. Arguments div {T} _.
Arguments neg {T} _. Arguments absf {T} _. Arguments sqrtf {T} _. Arguments ofZ {T} _. Arguments lit {T} _.
Arguments floorZ {T} _. Arguments ceilZ {T} _. Arguments truncZ {T} _. Arguments rintZ {T} _.
Arguments ltb {T} _. Arguments leb {T} _. Arguments eqb {T} _. Arguments isnan {T} _. Arguments isfinite {T} _.
Arguments nan {T} _.

Definition fmax {T} (O : ops T) (a b : T) : T := if ltb O a b then b else a.
Definition fmin {T} (O : ops T) (a b : T) : T := if ltb O b a then b else a.
