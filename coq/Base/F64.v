(* binary64 instance: the kernel's primitive floats. *)
From Coq Require Import ZArith Bool List PrimFloat Uint63 SpecFloat FloatOps.
From PR Require Import Base.Num.
Open Scope Z_scope.

Definition f2ZE (x : float) : option (Z * Z) :=          (* x = m * 2^e *)
  match Prim2SF x with
  | S754_zero _ => Some (0, 0)
  | S754_finite s m e => Some ((if s then Z.neg m else Z.pos m), e)
  | _ => None
  end.

Definition floorZo (x : float) : option Z :=
  match f2ZE x with
  | Some (m, e) => Some (if 0 <=? e then m * 2 ^ e else m / 2 ^ (- e))
  | None => None end.
Definition ceilZo (x : float) : option Z :=
  match f2ZE x with
  | Some (m, e) => Some (if 0 <=? e then m * 2 ^ e else - ((- m) / 2 ^ (- e)))
  | None => None end.
Definition truncZo (x : float) : option Z :=
  match f2ZE x with
  | Some (m, e) => Some (if 0 <=? e then m * 2 ^ e else Z.quot m (2 ^ (- e)))
  | None => None end.
(* round half to even *)
Definition rintZo (x : float) : option Z :=
  match f2ZE x with
  | Some (m, e) =>
      Some (if 0 <=? e then m * 2 ^ e else
              let d := 2 ^ (- e) in
              let q := m / d in let r := m mod d in
              if 2 * r <? d then q else if d <? 2 * r then q + 1 else if Z.even q then q else q + 1)
  | None => None end.

Definition dflt (o : option Z) : Z := match o with Some z => z | None => 0 end.

(* exact for |z| < 2^53; correctly rounded conversion of larger values is not needed by the models *)
Definition Z2F (z : Z) : float :=
  match z with
  | Z0 => 0%float
  | Zpos _ => SF2Prim (binary_normalize prec emax z 0 false)
  | Zneg p => SF2Prim (binary_normalize prec emax z 0 true)
  end.
Definition litF (m e : Z) : float := SF2Prim (binary_normalize prec emax m e (m <? 0)).

Definition f_isnan (x : float) : bool := negb (PrimFloat.eqb x x).
Definition f_isfinite (x : float) : bool := match Prim2SF x with S754_zero _ | S754_finite _ _ _ => true | _ => false end.

Definition F64 : ops float := {|
  add := PrimFloat.add; sub := PrimFloat.sub; mul := PrimFloat.mul; div := PrimFloat.div;
  neg := PrimFloat.opp; absf := PrimFloat.abs; sqrtf := PrimFloat.sqrt;
  ofZ := Z2F; lit := litF;
  floorZ := fun x => dflt (floorZo x); ceilZ := fun x => dflt (ceilZo x);
  truncZ := fun x => dflt (truncZo x); rintZ := fun x => dflt (rintZo x);
  ltb := PrimFloat.ltb; leb := PrimFloat.leb; eqb := PrimFloat.eqb;
  isnan := f_isnan; isfinite := f_isfinite; nan := PrimFloat.nan
|}.

(* bit-level comparison used by the correspondence: NaN equals NaN, -0 differs from +0 *)
Definition same_bits (a b : float) : bool :=
  match Prim2SF a, Prim2SF b with
  | S754_nan, S754_nan => true
  | S754_zero s, S754_zero t => Bool.eqb s t
  | S754_infinity s, S754_infinity t => Bool.eqb s t
  | S754_finite s m e, S754_finite t n f => Bool.eqb s t && Pos.eqb m n && Z.eqb e f
  | _, _ => false
  end.
