(* Shallow embedding of the imperative Python subset translated by tools/py2coq_imp.py:
   statements are state transformers that may yield values (generators), return, raise, or run out of fuel.
   Definitions and the generic loop lemmas only; no property statements here. *)
From Coq Require Import ZArith List Bool Lia.
From PR Require Import Base.Slice.
Import ListNotations.
Open Scope Z_scope.

Section Imp.
  Context {St Y R : Type}.

  (* outcome of running a statement from a state *)
  Inductive res :=
  | Fuel                                   (* the explicit fuel ran out: never the answer of a theorem *)
  | Raised                                 (* a Python exception escaped *)
  | Fall (ys : list Y) (s : St)            (* control fell through, having yielded ys *)
  | Ret (ys : list Y) (s : St) (r : R).    (* a return statement was executed *)

  Definition M := St -> res.

  Definition prepend (ys : list Y) (r : res) : res :=
    match r with
    | Fuel => Fuel
    | Raised => Raised
    | Fall ys' s => Fall (ys ++ ys') s
    | Ret ys' s v => Ret (ys ++ ys') s v
    end.

  Definition skip : M := fun s => Fall [] s.
  Definition andthen (a b : M) : M := fun s =>
    match a s with
    | Fall ys s' => prepend ys (b s')
    | r => r
    end.
  Definition assign (f : St -> St) : M := fun s => Fall [] (f s).
  Definition yield_ (f : St -> Y) : M := fun s => Fall [f s] s.
  Definition ite (c : St -> bool) (a b : M) : M := fun s => if c s then a s else b s.
  Definition ret (f : St -> R) : M := fun s => Ret [] s (f s).
  Definition raise_ : M := fun _ => Raised.
  (* side condition of the expressions of the next statement (index in range, key present, divisor non-zero):
     Python raises where it fails *)
  Definition check (c : St -> bool) : M := fun s => if c s then Fall [] s else Raised.

  Fixpoint while_ (fuel : nat) (c : St -> bool) (body : M) : M := fun s =>
    match fuel with
    | O => Fuel
    | S f => if c s then andthen body (while_ f c body) s else Fall [] s
    end.

  (* for x in <list evaluated once>: body *)
  Fixpoint for_list {A} (l : list A) (bind : A -> St -> St) (body : M) : M := fun s =>
    match l with
    | [] => Fall [] s
    | x :: r => andthen (fun s0 => body (bind x s0)) (for_list r bind body) s
    end.
  Definition for_ {A} (items : St -> list A) (bind : A -> St -> St) (body : M) : M :=
    fun s => for_list (items s) bind body s.

  (* v = f(args) where f is itself a translated (fuelled / raising) function: [call] gives its outcome as an option
     (None = it raised), [Fuel] is propagated by [callf] *)
  Inductive cres (V : Type) := CFuel | CRaised | COk (v : V).
  Arguments CFuel {V}. Arguments CRaised {V}. Arguments COk {V} v.
  Definition call_ {V} (f : St -> cres V) (bind : V -> St -> St) : M := fun s =>
    match f s with
    | CFuel => Fuel
    | CRaised => Raised
    | COk v => Fall [] (bind v s)
    end.
End Imp.
Arguments res : clear implicits.
Arguments M : clear implicits.
Arguments cres : clear implicits.
Arguments CFuel {V}. Arguments CRaised {V}. Arguments COk {V} v.

(* what a caller sees of a finished run *)
Definition yields_of {St Y R} (r : res St Y R) : option (list Y) :=
  match r with Fall ys _ => Some ys | Ret ys _ _ => Some ys | _ => None end.
Definition value_of {St Y R} (r : res St Y R) : cres R :=
  match r with Fuel => CFuel | Raised => CRaised | Fall _ _ => CRaised | Ret _ _ v => COk v end.
(* a procedure (falls off the end = returns None): its final state *)
Definition state_of {St Y R} (r : res St Y R) : cres St :=
  match r with Fuel => CFuel | Raised => CRaised | Fall _ s => COk s | Ret _ s _ => COk s end.

(* ---- Python list / dict primitives used by the generated code ---- *)
Definition zlen {A} (l : list A) : Z := Z.of_nat (length l).
(* l[i] with Python's negative indices; [idx_ok] is the side condition (IndexError otherwise) *)
Definition idx_ok {A} (l : list A) (i : Z) : bool := (- zlen l <=? i) && (i <? zlen l).
Definition idx {A} (d : A) (l : list A) (i : Z) : A :=
  nth (Z.to_nat (if i <? 0 then i + zlen l else i)) l d.
Definition zsum (l : list Z) : Z := fold_left Z.add l 0.
Definition zrange (n : Z) : list Z := map Z.of_nat (List.seq 0 (Z.to_nat n)).

(* numpy `l[sl] = b` on the first axis (sl already normalised by slice.indices): shapes must agree, or b has one row
   that is broadcast; anything else raises ValueError *)
Definition np_set_slice_ok {A} (sl : pslice) (b : list A) : bool := (zlen b =? slen sl) || (zlen b =? 1).
Definition np_set_slice {A} (l : list A) (sl : pslice) (b : list A) : list A :=
  firstn (Z.to_nat (sstart sl)) l
  ++ (if zlen b =? slen sl then b else match b with x :: _ => repeat x (Z.to_nat (slen sl)) | [] => [] end)
  ++ skipn (Z.to_nat (sstart sl + slen sl)) l.

(* itertools.combinations(l, 2) *)
Fixpoint combs2 {A} (l : list A) : list (A * A) :=
  match l with
  | [] => []
  | x :: r => map (pair x) r ++ combs2 r
  end.
(* np.ndindex(dims): C order *)
Fixpoint ndindex (dims : list Z) : list (list Z) :=
  match dims with
  | [] => [[]]
  | d :: r => flat_map (fun i => map (cons i) (ndindex r)) (zrange d)
  end.

(* insertion-ordered dict as an association list with unique keys *)
Section Dict.
  Context {K V : Type} (keqb : K -> K -> bool).
  Definition dict := list (K * V).
  Definition d_has (d : dict) (k : K) : bool := existsb (fun e => keqb (fst e) k) d.
  Definition d_del (d : dict) (k : K) : dict := filter (fun e => negb (keqb (fst e) k)) d.
  Fixpoint d_set (d : dict) (k : K) (v : V) : dict :=
    match d with
    | [] => [(k, v)]
    | e :: r => if keqb (fst e) k then (fst e, v) :: r else e :: d_set r k v
    end.
  Definition d_keys (d : dict) : list K := map fst d.
  Definition d_values (d : dict) : list V := map snd d.
End Dict.

(* ---- generic facts ---- *)
Section Facts.
  Context {St Y R : Type}.
  Notation M := (M St Y R).
  Notation res := (res St Y R).

  Lemma prepend_nil (r : res) : prepend [] r = r.
  Proof. destruct r; reflexivity. Qed.
  Lemma prepend_app ys ys' (r : res) : prepend ys (prepend ys' r) = prepend (ys ++ ys') r.
  Proof. destruct r; cbn; try reflexivity; now rewrite app_assoc. Qed.

  Lemma seq_assoc (a b c : M) s : andthen (andthen a b) c s = andthen a (andthen b c) s.
  Proof.
    unfold andthen. destruct (a s) as [| |ys s'|ys s' v]; cbn; try reflexivity.
    destruct (b s') as [| |ys2 s2|ys2 s2 v2]; cbn; try reflexivity.
    now rewrite prepend_app.
  Qed.

  Lemma andthen_assign f (b : M) s : andthen (assign f) b s = b (f s).
  Proof. unfold andthen, assign. apply prepend_nil. Qed.
  Lemma andthen_check c (b : M) s : andthen (check c) b s = if c s then b s else Raised.
  Proof. unfold andthen, check. destruct (c s); [apply prepend_nil|reflexivity]. Qed.
  Lemma andthen_skip (b : M) s : andthen skip b s = b s.
  Proof. unfold andthen, skip. apply prepend_nil. Qed.
  Lemma andthen_ite c (a b k : M) s : andthen (ite c a b) k s = if c s then andthen a k s else andthen b k s.
  Proof. unfold andthen, ite. destruct (c s); reflexivity. Qed.
  Lemma andthen_raise (k : M) s : andthen raise_ k s = Raised.
  Proof. reflexivity. Qed.
  Lemma andthen_ret f (k : M) s : andthen (ret f) k s = Ret [] s (f s).
  Proof. reflexivity. Qed.
  Lemma andthen_yield f (k : M) s : andthen (yield_ f) k s = prepend [f s] (k s).
  Proof. reflexivity. Qed.
  Lemma andthen_fall (a k : M) s ys s' : a s = Fall ys s' -> andthen a k s = prepend ys (k s').
  Proof. unfold andthen. now intros ->. Qed.
  Lemma ite_eval c (a b : M) s : ite c a b s = if c s then a s else b s.
  Proof. reflexivity. Qed.
  Lemma assign_eval f s : assign f s = (Fall [] (f s) : res).
  Proof. reflexivity. Qed.
  Lemma check_eval c s : check c s = (if c s then Fall [] s else Raised : res).
  Proof. reflexivity. Qed.

  (* loop rule for loops whose body always falls through: the loop is a fold of the body's state function *)
  Lemma while_unfold fuel c (body : M) s :
    while_ (S fuel) c body s = if c s then andthen body (while_ fuel c body) s else Fall [] s.
  Proof. reflexivity. Qed.

  (* more fuel never changes a finished run *)
  Lemma while_fuel_mono c (body : M) : forall f1 f2 s, (f1 <= f2)%nat ->
    while_ f1 c body s <> Fuel -> while_ f2 c body s = while_ f1 c body s.
  Proof.
    induction f1 as [|f1 IH]; intros f2 s Hle Hne; [cbn in Hne; congruence|].
    destruct f2 as [|f2]; [lia|]. cbn [while_] in *.
    destruct (c s); [|reflexivity].
    unfold andthen in *. destruct (body s) as [| |ys s'|ys s' v]; try reflexivity.
    rewrite IH; [reflexivity|lia|].
    intros E. rewrite E in Hne. cbn in Hne. congruence.
  Qed.
End Facts.

(* a loop whose body always falls through is the iteration of a pure step function *)
Section LoopSpec.
  Context {St Y R : Type} (c : St -> bool) (step : St -> St) (out : St -> list Y).
  Fixpoint iter_spec (n : nat) (s : St) : list Y * St :=
    match n with
    | O => ([], s)
    | S k => if c s then let r := iter_spec k (step s) in (out s ++ fst r, snd r) else ([], s)
    end.
  Lemma while_iter (body : M St Y R) :
    (forall s, c s = true -> body s = Fall (out s) (step s)) ->
    forall n fuel s, (n < fuel)%nat -> c (snd (iter_spec n s)) = false ->
    while_ fuel c body s = Fall (fst (iter_spec n s)) (snd (iter_spec n s)).
  Proof.
    intros Hb. induction n as [|k IH]; intros fuel s Hlt Hend.
    - cbn in *. destruct fuel as [|f]; [lia|]. cbn [while_]. now rewrite Hend.
    - destruct fuel as [|f]; [lia|]. cbn [while_ iter_spec] in *.
      destruct (c s) eqn:Hc; [|reflexivity].
      unfold andthen. rewrite (Hb s Hc). cbn [fst snd] in *.
      rewrite (IH f (step s)); [reflexivity|lia|exact Hend].
  Qed.
End LoopSpec.

(* a for loop whose body always falls through is a fold *)
Section ForSpec.
  Context {St Y R A : Type} (bind : A -> St -> St) (step : St -> St) (out : St -> list Y).
  Fixpoint for_spec (l : list A) (s : St) : list Y * St :=
    match l with
    | [] => ([], s)
    | x :: r => let s1 := bind x s in let q := for_spec r (step s1) in (out s1 ++ fst q, snd q)
    end.
  Lemma for_list_fold (body : M St Y R) :
    (forall s, body s = Fall (out s) (step s)) ->
    forall l s, for_list l bind body s = Fall (fst (for_spec l s)) (snd (for_spec l s)).
  Proof.
    intros Hb. induction l as [|x r IH]; intros s; [reflexivity|].
    cbn [for_list for_spec]. unfold andthen. rewrite Hb. rewrite IH. reflexivity.
  Qed.
End ForSpec.

(* a for loop whose body returns at the first element satisfying p and otherwise falls through without yielding *)
Section ForFirst.
  Context {St Y R A : Type} (bind : A -> St -> St) (p : A -> bool) (r : A -> R).
  Lemma for_list_first (body : M St Y R) :
    (forall x s, body (bind x s) = if p x then Ret [] (bind x s) (r x) else Fall [] (bind x s)) ->
    forall l s, match find p l with
                | Some x => exists s', for_list l bind body s = Ret [] s' (r x)
                | None => exists s', for_list l bind body s = Fall [] s'
                end.
  Proof.
    intros Hb. induction l as [|x l IH]; intros s; cbn [find for_list].
    - eexists; reflexivity.
    - unfold andthen. rewrite Hb. destruct (p x).
      + eexists; reflexivity.
      + specialize (IH (bind x s)). destruct (find p l) as [y|]; destruct IH as [s' E]; rewrite E; eexists; reflexivity.
  Qed.
End ForFirst.

Section DictFacts.
  Context {K V : Type} (keqb : K -> K -> bool).
  Lemma d_set_absent (d : list (K * V)) k v :
    (forall e, In e d -> keqb (fst e) k = false) -> d_set keqb d k v = d ++ [(k, v)].
  Proof.
    induction d as [|e d IH]; intros H; [reflexivity|].
    cbn [d_set]. rewrite (H e (or_introl eq_refl)). cbn [app]. f_equal. apply IH. intros e' He'. apply H. now right.
  Qed.
  Lemma d_has_in (d : list (K * V)) k : (forall a, keqb a a = true) -> forall e, In e d -> fst e = k -> d_has keqb d k = true.
  Proof.
    intros Hr e He <-. unfold d_has. apply existsb_exists. exists e. split; [exact He|apply Hr].
  Qed.
End DictFacts.

(* a for loop whose body, on the elements of the list, falls through having yielded (g x) *)
Section ForYield.
  Context {St Y R A : Type} (bind : A -> St -> St) (g : A -> list Y) (P : St -> Prop).
  Lemma for_list_yields (body : M St Y R) (l : list A) :
    (forall x s, In x l -> P s -> exists s', body (bind x s) = Fall (g x) s' /\ P s') ->
    forall s, P s -> exists s', for_list l bind body s = Fall (flat_map g l) s' /\ P s'.
  Proof.
    induction l as [|x l IH]; intros Hb s Hs; cbn [for_list flat_map].
    - exists s. split; [reflexivity|exact Hs].
    - unfold andthen. destruct (Hb x s (or_introl eq_refl) Hs) as (s1 & E1 & P1). rewrite E1.
      destruct (IH (fun y t Hy => Hb y t (or_intror Hy)) s1 P1) as (s2 & E2 & P2). rewrite E2.
      exists s2. split; [reflexivity|exact P2].
  Qed.
End ForYield.
