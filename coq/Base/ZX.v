(* Integer helper lemmas shared by the models. *)
From Coq Require Import ZArith List Lia Bool.
Import ListNotations.
Open Scope Z_scope.

Lemma mod_add_compl (L f : Z) : 0 < f -> (L + (f - L mod f)) mod f = 0.
Proof.
  intros Hf. rewrite Z.add_sub_assoc.
  replace (L + f - L mod f) with (f * (L / f) + L mod f + f - L mod f) by (rewrite <- Z.div_mod; lia).
  replace (f * (L / f) + L mod f + f - L mod f) with ((L / f + 1) * f) by ring.
  apply Z.mod_mul. lia.
Qed.

Lemma mod_sub_rem (L f : Z) : 0 < f -> (L - L mod f) mod f = 0.
Proof.
  intros Hf. rewrite (Z.div_mod L f) at 1 by lia.
  replace (f * (L / f) + L mod f - L mod f) with ((L / f) * f) by ring.
  apply Z.mod_mul. lia.
Qed.

Lemma mod_small_pos (a f : Z) : 0 < f -> 0 <= a mod f < f.
Proof. intros; apply Z.mod_pos_bound; lia. Qed.

(* ceil division for positive divisor *)
Definition cdiv (a b : Z) : Z := (a + b - 1) / b.

Lemma cdiv_spec a b : 0 < b -> 0 <= a -> (cdiv a b - 1) * b < a <= cdiv a b * b \/ (a = 0 /\ cdiv a b = 0).
Proof.
  intros Hb Ha. unfold cdiv.
  destruct (Z.eq_dec a 0) as [->|Hn].
  - right. split; [reflexivity|]. apply Z.div_small. lia.
  - left. pose proof (Z.div_mod (a + b - 1) b ltac:(lia)) as H.
    pose proof (Z.mod_pos_bound (a + b - 1) b Hb) as Hm. nia.
Qed.

Fixpoint sumZ (l : list Z) : Z := match l with [] => 0 | x :: r => x + sumZ r end.
Lemma sumZ_app a b : sumZ (a ++ b) = sumZ a + sumZ b.
Proof. induction a as [|x a IH]; cbn; lia. Qed.
