(* C09: lazy results are pure: in a merged dask graph every array reads its own blocks iff the names differ. *)
From Coq Require Import ZArith List Bool Lia.
From PR Require Import Base.Num Base.Slice Model.Blockwise Model.Gradient.
Import ListNotations.
Open Scope Z_scope.

Lemma gkey_eqb_name a b : gkey_eqb a b = true -> fst a = fst b.
Proof. unfold gkey_eqb. rewrite !andb_true_iff, !Z.eqb_eq. tauto. Qed.

Lemma glookup_other_name {V} n (blocks : list ((Z * Z) * V)) k : fst k <> n -> glookup (graph_of n blocks) k = None.
Proof.
  intros Hk. induction blocks as [|[p v] r IH]; cbn; [reflexivity|].
  destruct (gkey_eqb (n, p) k) eqn:E; [|exact IH]. apply gkey_eqb_name in E. cbn in E. congruence.
Qed.

Lemma glookup_app {V} (g1 g2 : list (gkey * V)) k :
  glookup (g1 ++ g2) k = match glookup g1 k with Some v => Some v | None => glookup g2 k end.
Proof. induction g1 as [|[k' v] r IH]; cbn; [reflexivity|]. destruct (gkey_eqb k' k); [reflexivity|exact IH]. Qed.

(* two lazy results with DIFFERENT names, computed together: each reads exactly what it reads alone *)
Theorem joint_graph_pure {V} n1 n2 (b1 b2 : list ((Z * Z) * V)) ps : n1 <> n2 ->
  read_array (graph_of n1 b1 ++ graph_of n2 b2) n1 ps = read_array (graph_of n1 b1) n1 ps /\
  read_array (graph_of n1 b1 ++ graph_of n2 b2) n2 ps = read_array (graph_of n2 b2) n2 ps.
Proof.
  intros Hn. unfold read_array. split; apply map_ext; intros p; rewrite glookup_app.
  - destruct (glookup (graph_of n1 b1) (n1, p)); [reflexivity|]. apply glookup_other_name. cbn. congruence.
  - rewrite glookup_other_name by (cbn; congruence). reflexivity.
Qed.

(* any number of lazy results with pairwise different names (induction over the list of graphs) *)
Fixpoint merge_graphs {V} (gs : list (Z * list ((Z * Z) * V))) : list (gkey * V) :=
  match gs with [] => [] | (n, b) :: r => graph_of n b ++ merge_graphs r end.
Lemma glookup_absent_name {V} (r : list (Z * list ((Z * Z) * V))) n p : ~ In n (map fst r) -> glookup (merge_graphs r) (n, p) = None.
Proof.
  induction r as [|[n' b'] r IH]; intros Hni; cbn; [reflexivity|]. rewrite glookup_app.
  rewrite glookup_other_name; [apply IH; intros H; apply Hni; right; exact H|]. cbn. intros ->. apply Hni. left. reflexivity.
Qed.
Lemma merged_lookup {V} (gs : list (Z * list ((Z * Z) * V))) : NoDup (map fst gs) ->
  forall n b p, In (n, b) gs -> glookup (merge_graphs gs) (n, p) = glookup (graph_of n b) (n, p).
Proof.
  induction gs as [|[n0 b0] r IH]; intros Hnd n b p Hin; [contradiction|].
  cbn [map fst] in Hnd. inversion Hnd as [|? ? Hni Hnd']; subst. cbn [merge_graphs]. rewrite glookup_app.
  destruct Hin as [E|Hin].
  - inversion E; subst. destruct (glookup (graph_of n b) (n, p)); [reflexivity|]. apply glookup_absent_name. exact Hni.
  - assert (n <> n0). { intros ->. apply Hni. apply (in_map fst) in Hin. exact Hin. }
    rewrite glookup_other_name by (cbn; congruence). apply IH; assumption.
Qed.
Theorem merged_graph_pure {V} (gs : list (Z * list ((Z * Z) * V))) : NoDup (map fst gs) ->
  forall n b ps, In (n, b) gs -> read_array (merge_graphs gs) n ps = read_array (graph_of n b) n ps.
Proof. intros Hnd n b ps Hin. unfold read_array. apply map_ext. intros p. apply merged_lookup; assumption. Qed.
