(* C05: query_no_distance / blockwise assembly / _my_index collapse to pointwise maps, for every chunking;
   the gathered result equals the numpy pipeline's result. *)
From Coq Require Import ZArith List Lia Bool.
From PR Require Import Base.ZX Base.ListX Base.Slice Model.Partition Model.Blockwise Proofs.C05_assemble.
Import ListNotations.
Open Scope Z_scope.

(* ---------- reshape ---------- *)
Lemma unravel_concat {A} (rows : list (list A)) nc :
  Forall (fun r => length r = nc) rows -> unravel (length rows) nc (concat rows) = rows.
Proof.
  induction rows as [|r rows IH]; intros H; cbn; [reflexivity|].
  inversion H as [|? ? Hr Hrest]; subst. f_equal.
  - apply firstn_app_exact. reflexivity.
  - rewrite skipn_app, Nat.sub_diag, skipn_all. cbn. apply IH. exact Hrest.
Qed.

Lemma map_tab {A B} (g : A -> B) (f : Z -> Z -> A) r0 nr c0 nc :
  map (map g) (tab f r0 nr c0 nc) = tab (fun i j => g (f i j)) r0 nr c0 nc.
Proof. unfold tab. rewrite map_map. apply map_ext. intros i. apply map_map. Qed.

Lemma tab_ext {A} (f g : Z -> Z -> A) r0 nr c0 nc :
  (forall i j, r0 <= i < r0 + nr -> c0 <= j < c0 + nc -> f i j = g i j) -> tab f r0 nr c0 nc = tab g r0 nr c0 nc.
Proof.
  intros H. unfold tab. apply map_ext_in. intros i Hi. apply map_ext_in. intros j Hj.
  apply zrange_In in Hi. apply zrange_In in Hj. apply H; assumption.
Qed.

(* reshaping the raveled, elementwise-processed block back to the block shape *)
Lemma unravel_map_tab {A} (g : Z * Z -> A) r0 nr c0 nc :
  unravel (Z.to_nat nr) (Z.to_nat nc) (map g (concat (tab pair r0 nr c0 nc))) = tab (fun i j => g (i, j)) r0 nr c0 nc.
Proof.
  rewrite concat_map, map_tab.
  rewrite <- (tab_length (fun i j => g (i, j)) r0 nr c0 nc) at 1.
  apply unravel_concat. apply tab_rows_length.
Qed.

(* ---------- query_no_distance on one block = pointwise ---------- *)
Lemma qnd_flat_char n voi q pix :
  qnd_flat n voi q pix = map (fun p => index_pointwise n voi q (fst p) (snd p)) pix.
Proof.
  unfold qnd_flat, index_pointwise. induction pix as [|p pix IH]; [reflexivity|].
  cbn [map compress]. destruct (voi (fst p) (snd p)) eqn:E.
  - cbn [map compress scatter andb]. destruct (q (fst p) (snd p) <? n) eqn:G; cbn [compress scatter]; f_equal; exact IH.
  - cbn [scatter andb]. f_equal. exact IH.
Qed.

Theorem qnd_block_char n voi q r0 nr c0 nc :
  qnd_block n voi q r0 nr c0 nc = tab (index_pointwise n voi q) r0 nr c0 nc.
Proof. unfold qnd_block. rewrite qnd_flat_char. apply unravel_map_tab. Qed.

(* ---------- for every pair of chunk lists the assembled index array is the pointwise one ---------- *)
Theorem index_array_chunked_char n voi q rows cols :
  Forall (fun x => 0 <= x) rows -> Forall (fun x => 0 <= x) cols ->
  index_array_chunked n voi q rows cols = tab (index_pointwise n voi q) 0 (sumZ rows) 0 (sumZ cols).
Proof.
  intros Hr Hc. unfold index_array_chunked. apply assemble_blocks_eq; try assumption.
  intros rs cs _ _. apply qnd_block_char.
Qed.

Theorem chunk_invariant n voi q rows cols rows' cols' :
  Forall (fun x => 0 <= x) rows -> Forall (fun x => 0 <= x) cols ->
  Forall (fun x => 0 <= x) rows' -> Forall (fun x => 0 <= x) cols' ->
  sumZ rows = sumZ rows' -> sumZ cols = sumZ cols' ->
  index_array_chunked n voi q rows cols = index_array_chunked n voi q rows' cols'.
Proof. intros. rewrite !index_array_chunked_char by assumption. congruence. Qed.

(* purity: the index array is a function of the validity of the target pixels and of the kd-tree's answers for
   THESE pixels only (which in turn are determined by source validity + mask, target, radius) -- nothing else,
   in particular no earlier call on the same resampler and no other array evaluated in the same dask.compute *)
Theorem depends_only_on_inputs n voi voi' q q' rows cols :
  Forall (fun x => 0 <= x) rows -> Forall (fun x => 0 <= x) cols ->
  (forall i j, 0 <= i < sumZ rows -> 0 <= j < sumZ cols -> voi i j = voi' i j /\ q i j = q' i j) ->
  index_array_chunked n voi q rows cols = index_array_chunked n voi' q' rows cols.
Proof.
  intros Hr Hc H. rewrite !index_array_chunked_char by assumption. apply tab_ext. intros i j Hi Hj.
  destruct (H i j ltac:(lia) ltac:(lia)) as [Hv Hq]. unfold index_pointwise. rewrite Hv, Hq. reflexivity.
Qed.

(* the unchunked run is the one-block chunking *)
Lemma unchunked_is_one_block n voi q H W : 0 <= H -> 0 <= W ->
  qnd_block n voi q 0 H 0 W = index_array_chunked n voi q [H] [W].
Proof.
  intros HH HW. rewrite index_array_chunked_char by (repeat constructor; assumption).
  rewrite qnd_block_char. cbn [sumZ]. rewrite !Z.add_0_r. reflexivity.
Qed.

(* ---------- _my_index on one block = pointwise ---------- *)
Lemma map2_map_same {A B C} (h : A -> B -> C) (g : A -> B) l : map2 h l (map g l) = map (fun i => h i (g i)) l.
Proof. unfold map2. induction l as [|x l IH]; cbn; [reflexivity|]. f_equal. exact IH. Qed.

Lemma map2_map2_same {A B C} (h : A -> B -> C) (g : A -> B) (ll : list (list A)) :
  map2 (map2 h) ll (map (map g) ll) = map (map (fun i => h i (g i))) ll.
Proof.
  rewrite map2_map_same. apply map_ext. intros l. apply map2_map_same.
Qed.

Lemma my_index_plane_char {V} (fill : V) (ia : list (list Z)) vii plane :
  my_index_plane fill ia vii plane = map (map (cell_pointwise fill vii plane)) ia.
Proof. unfold my_index_plane, cell_pointwise. apply map2_map2_same. Qed.

Theorem gather_chunked_char {V} (fill : V) n voi q rows cols vii plane :
  Forall (fun x => 0 <= x) rows -> Forall (fun x => 0 <= x) cols ->
  gather_chunked fill rows cols (fun rs cs => qnd_block n voi q (sstart rs) (slen rs) (sstart cs) (slen cs)) vii plane
  = tab (fun i j => cell_pointwise fill vii plane (index_pointwise n voi q i j)) 0 (sumZ rows) 0 (sumZ cols).
Proof.
  intros Hr Hc. unfold gather_chunked. apply assemble_blocks_eq; try assumption.
  intros rs cs _ _. rewrite my_index_plane_char, qnd_block_char. apply map_tab.
Qed.

(* ---------- the numpy pipeline = pointwise ---------- *)
Lemma count_true_zero m : count_true m = 0 -> forall b, In b m -> b = false.
Proof.
  unfold count_true. intros H b Hb. destruct b; [|reflexivity].
  assert (Hin : In true (filter (fun b => b) m)) by (apply filter_In; auto).
  destruct (filter (fun b => b) m); [contradiction|cbn in H; lia].
Qed.

Lemma scatter_compress_map {A B} (voi : A -> bool) (r : A -> B) (fill : B) pix :
  scatter (map voi pix) (map r (compress (map voi pix) pix)) fill = map (fun p => if voi p then r p else fill) pix.
Proof.
  induction pix as [|p pix IH]; [reflexivity|]. cbn [map compress]. destruct (voi p) eqn:E; cbn [map scatter]; f_equal; exact IH.
Qed.

Lemma map2_map_fst_same {A B C} (h : B -> A -> C) (g : A -> B) l : map2 h (map g l) l = map (fun i => h (g i) i) l.
Proof. unfold map2. induction l as [|x l IH]; cbn; [reflexivity|]. f_equal. exact IH. Qed.
Lemma map2_map_both {A B B' C} (h : B -> B' -> C) (g : A -> B) (k : A -> B') l :
  map2 h (map g l) (map k l) = map (fun i => h (g i) (k i)) l.
Proof. unfold map2. induction l as [|x l IH]; cbn; [reflexivity|]. f_equal. exact IH. Qed.

Definition np_cell {V} (fill : V) (n : Z) (sel : list V) (k : Z) : V := if k =? n then fill else nth (Z.to_nat k) sel fill.

Theorem np_sample_char {V} (fill : V) vii (voi : Z * Z -> bool) (q : Z -> Z -> Z) pix data :
  0 < count_true vii ->
  np_sample fill vii (map voi pix) (np_index_array q (map voi pix) pix) data
  = map (fun p => if voi p then np_cell fill (count_true vii) (compress vii data) (q (fst p) (snd p)) else fill) pix.
Proof.
  intros Hn. unfold np_sample.
  destruct (count_true vii =? 0) eqn:E0; [apply Z.eqb_eq in E0; lia|]. cbn [orb].
  destruct (count_true (map voi pix) =? 0) eqn:E1.
  - apply Z.eqb_eq in E1. rewrite map_map. apply map_ext_in. intros p Hp.
    rewrite (count_true_zero _ E1 (voi p)); [reflexivity|]. apply in_map. exact Hp.
  - unfold np_index_array. set (n := count_true vii). set (sel := compress vii data).
    cbv zeta. rewrite map2_map_fst_same. rewrite !map_map. rewrite map2_map_both.
    rewrite <- (scatter_compress_map voi (fun p => np_cell fill n sel (q (fst p) (snd p))) fill pix).
    f_equal. apply map_ext. intros p. unfold np_cell. destruct (q (fst p) (snd p) =? n); reflexivity.
Qed.

(* ---------- xarray result = numpy result ---------- *)
Lemma cell_agree {V} (fill : V) n vii plane (v : bool) k : 0 <= k <= n ->
  cell_pointwise fill vii plane (if v && (k <? n) then k else -1)
  = if v then np_cell fill n (compress vii plane) k else fill.
Proof.
  intros Hk. unfold cell_pointwise, np_cell, pyget. destruct v; cbn [andb]; [|reflexivity].
  destruct (Z.ltb_spec k n) as [Hlt|Hge].
  - destruct (Z.eqb_spec k (-1)); [lia|]. destruct (Z.ltb_spec k 0); [lia|].
    destruct (Z.eqb_spec k n); [lia|reflexivity].
  - destruct (Z.eqb_spec k n); [|lia]. reflexivity.
Qed.

Lemma count_true_nonneg m : 0 <= count_true m.
Proof. unfold count_true. lia. Qed.

Theorem equals_numpy {V} (fill : V) voi q rows cols vii plane :
  let n := count_true vii in
  let H := sumZ rows in
  let W := sumZ cols in
  let pix := concat (tab pair 0 H 0 W) in
  let voil := map (fun p => voi (fst p) (snd p)) pix in
  Forall (fun x => 0 <= x) rows -> Forall (fun x => 0 <= x) cols ->
  (forall i j, 0 <= i < H -> 0 <= j < W -> 0 <= q i j <= n) ->
  gather_chunked fill rows cols (fun rs cs => qnd_block n voi q (sstart rs) (slen rs) (sstart cs) (slen cs)) vii plane
  = unravel (Z.to_nat H) (Z.to_nat W) (np_sample fill vii voil (np_index_array q voil pix) plane).
Proof.
  intros n H W pix voil Hr Hc Hq.
  rewrite gather_chunked_char by assumption.
  destruct (Z.eq_dec n 0) as [Hz|Hnz].
  - (* no valid source pixel: numpy takes the _get_empty_sample shortcut, the blockwise path finds nothing *)
    unfold np_sample. fold n. rewrite Hz. cbn [Z.eqb orb]. unfold voil. rewrite map_map.
    unfold pix. rewrite (unravel_map_tab (fun _ => fill)).
    apply tab_ext. intros i j Hi Hj. unfold index_pointwise.
    specialize (Hq i j ltac:(lia) ltac:(lia)).
    destruct (Z.ltb_spec (q i j) 0); [lia|]. rewrite andb_false_r. reflexivity.
  - pose proof (count_true_nonneg vii). assert (Hn : 0 < n) by (unfold n in *; lia).
    unfold voil. rewrite (np_sample_char fill vii (fun p => voi (fst p) (snd p)) q pix plane Hn).
    unfold pix. rewrite unravel_map_tab. cbn [fst snd].
    apply tab_ext. intros i j Hi Hj. unfold index_pointwise. apply cell_agree. apply Hq; lia.
Qed.

(* numpy's pipeline is channel-wise: it commutes with any projection of the per-pixel value vectors *)
Lemma compress_map {A B} (g : A -> B) m l : compress m (map g l) = map g (compress m l).
Proof. revert l. induction m as [|b m IH]; intros [|x l]; cbn; try reflexivity. destruct b; cbn; [f_equal|]; apply IH. Qed.
Lemma scatter_map {A B} (g : A -> B) m vals d : scatter m (map g vals) (g d) = map g (scatter m vals d).
Proof.
  revert vals. induction m as [|b m IH]; intros vals; cbn [scatter]; [reflexivity|].
  destruct b.
  - destruct vals as [|v vs]; cbn [map scatter]; f_equal; [apply (IH [])|apply IH].
  - cbn [map]. f_equal. apply IH.
Qed.
Lemma map2_map_r {A B C D} (g : C -> D) (h : A -> B -> C) a b : map g (map2 h a b) = map2 (fun x y => g (h x y)) a b.
Proof. unfold map2. rewrite map_map. reflexivity. Qed.
Lemma map2_map_snd {A B B' C} (h : A -> B' -> C) (g : B -> B') a b : map2 h a (map g b) = map2 (fun x y => h x (g y)) a b.
Proof. unfold map2. revert b. induction a as [|x a IH]; intros [|y b]; cbn; try reflexivity. f_equal. apply IH. Qed.

Theorem np_sample_channelwise {V V'} (g : V -> V') (fill : V) vii voi ia data :
  map g (np_sample fill vii voi ia data) = np_sample (g fill) vii voi ia (map g data).
Proof.
  unfold np_sample. destruct ((count_true vii =? 0) || (count_true voi =? 0)).
  - rewrite map_map. reflexivity.
  - rewrite <- scatter_map. f_equal. rewrite map2_map_r. rewrite compress_map.
    rewrite !map2_map_snd. unfold map2 at 1 3. apply map_ext. intros [m v]; cbn [fst snd].
    destruct m; [reflexivity|]. symmetry. apply map_nth.
Qed.
