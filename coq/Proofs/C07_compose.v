(* C07: compositions with other properties' theorems, and the remaining helper of the module. *)
From Coq Require Import Reals ZArith Bool List Lia Lra.
From Flocq Require Import Zaux Raux Generic_fmt Round_NE.
From PR Require Import Base.Num Base.RNum Model.Grid Model.CellIndex Model.Bucket Gen.GenC07 Proofs.Grid_real.
From PR Require Proofs.C18_real Proofs.C18_sample.
Open Scope R_scope.

(* C18 proves that grid.get_linesample, GridFilter.get_valid_index and the bucket index computation return the same cell
   off the border lines.  The cell whose count / sum / statistics a point enters (this file's bk_cell_of) is C18's bucket cell,
   hence it is the cell those modules assign as well. *)
Lemma counted_cell_is_common_cell (a : area R) x y :
  wf_area a -> C18_real.fits_int32 a -> C18_real.off_border a x y ->
  bk_cell_of RO a (x, y) = grid_cell RO a x y /\ bk_cell_of RO a (x, y) = gf_cell RO a x y.
Proof.
  intros Hw Hf Ho. destruct (C18_sample.c07_bucket_same RO a x y) as [E _].
  destruct (C18_real.all_agree a x y Hw Hf Ho) as (A & B & _). rewrite E. split; congruence.
Qed.

(* round_to_resolution (regenerated from /repo): an integer multiple of the resolution, at most half a resolution away *)
Lemma round_to_resolution_nearest arr res : res <> 0 ->
  exists k : Z, gen_round_to_resolution RO arr res = res * IZR k /\ Rabs (gen_round_to_resolution RO arr res - arr) <= Rabs res / 2.
Proof.
  intros Hr. unfold gen_round_to_resolution. cbn [mul ofZ rintZ div RO].
  exists (ZnearestE (arr / res)). split; [reflexivity|].
  pose proof (Znearest_half (fun x => negb (Z.even x)) (arr / res)) as H. fold ZnearestE in H.
  replace (res * IZR (ZnearestE (arr / res)) - arr) with (- (res * (arr / res - IZR (ZnearestE (arr / res))))) by (field; exact Hr).
  rewrite Rabs_Ropp, Rabs_mult. pose proof (Rabs_pos res). nra.
Qed.
