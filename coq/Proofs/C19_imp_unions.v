(* C19: the definitions regenerated from spherical_utils._find_union_pair / _merge_unions (tools/py2coq_imp.py)
   are the hand model's find_pair / merge_loop *)
From Coq Require Import ZArith List Lia Bool Permutation.
From PR Require Import Base.ZX Base.Slice Base.Imp Model.Unions Gen.GenC19 Proofs.C19_unions_spec Proofs.C19_unions.
Import ListNotations.

Section ImpUnions.
  Context {G : Type} (overlaps : G -> G -> bool) (union : G -> G -> G) (g0 : G).
  Notation entry := (@entry G).

  Ltac fu_proj := cbn [imp_find_union_pair_geoms imp_find_union_pair_id_ imp_find_union_pair_komb_pair
                       imp_find_union_pair_set_id_ imp_find_union_pair_set_komb_pair fst snd].

  (* itertools.combinations over keys and values, zipped, is combinations over the items *)
  Lemma combine_map_pair {A B} (a : A) (b : B) (la : list A) (lb : list B) :
    combine (map (pair a) la) (map (pair b) lb) = map (fun q => ((a, fst q), (b, snd q))) (combine la lb).
  Proof.
    revert lb. induction la as [|x la IH]; intros [|y lb]; cbn; try reflexivity. f_equal. apply IH.
  Qed.
  Lemma combs2_length {A} (l : list A) : forall B (f : A -> B), length (combs2 (map f l)) = length (combs2 l).
  Proof.
    induction l as [|x l IH]; intros B f; [reflexivity|].
    cbn [map combs2]. rewrite !app_length, !map_length, IH. reflexivity.
  Qed.
  Lemma combine_app {A B} (a1 a2 : list A) (b1 b2 : list B) :
    length a1 = length b1 -> combine (a1 ++ a2) (b1 ++ b2) = combine a1 b1 ++ combine a2 b2.
  Proof.
    revert b1. induction a1 as [|x a1 IH]; intros [|y b1] H; cbn in *; try discriminate; [reflexivity|].
    f_equal. apply IH. lia.
  Qed.
  Lemma combs2_items (l : list entry) :
    combine (combs2 (map fst l)) (combs2 (map snd l))
    = map (fun q => ((fst (fst q), fst (snd q)), (snd (fst q), snd (snd q)))) (combs2 l).
  Proof.
    induction l as [|x l IH]; [reflexivity|].
    cbn [map combs2]. rewrite combine_app by (rewrite !map_length; reflexivity).
    rewrite map_app, IH. f_equal.
    rewrite combine_map_pair. rewrite map_map.
    clear IH. induction l as [|y l IH]; [reflexivity|]. cbn. f_equal. apply IH.
  Qed.

  Definition ovq (q : entry * entry) : bool := overlaps (snd (fst q)) (snd (snd q)).
  Lemma find_map_pair (x : entry) l :
    find ovq (map (pair x) l) = option_map (pair x) (find_with overlaps x l).
  Proof.
    induction l as [|y l IH]; [reflexivity|].
    cbn [map find find_with]. unfold ovq at 1. cbn [fst snd].
    destruct (overlaps (snd x) (snd y)); [reflexivity|exact IH].
  Qed.
  Lemma find_app {A} (p : A -> bool) l1 l2 :
    find p (l1 ++ l2) = match find p l1 with Some x => Some x | None => find p l2 end.
  Proof. induction l1 as [|x l1 IH]; [reflexivity|]. cbn. destruct (p x); [reflexivity|exact IH]. Qed.
  Lemma find_combs2 (l : list entry) : find ovq (combs2 l) = find_pair overlaps l.
  Proof.
    induction l as [|x l IH]; [reflexivity|].
    cbn [combs2 find_pair]. rewrite find_app, find_map_pair.
    destruct (find_with overlaps x l); [reflexivity|exact IH].
  Qed.
  Lemma find_map {A B} (f : A -> B) (p : B -> bool) l : find p (map f l) = option_map f (find (fun a => p (f a)) l).
  Proof. induction l as [|x l IH]; [reflexivity|]. cbn. destruct (p (f x)); [reflexivity|exact IH]. Qed.

  Definition pair_result (q : entry * entry) : (key * key) * G :=
    ((fst (fst q), fst (snd q)), union (snd (fst q)) (snd (snd q))).

  (* _find_union_pair: the first overlapping pair in combinations order, with the pair of keys and the union *)
  Lemma imp_find_union_pair_model (l : list entry) :
    value_of (imp_find_union_pair overlaps union g0 l) = COk (option_map pair_result (find_pair overlaps l)).
  Proof.
    unfold imp_find_union_pair.
    rewrite andthen_ite. cbv beta. fu_proj.
    match goal with |- context [if ?c then _ else _] => destruct c eqn:E1 end.
    - (* one geometry *)
      rewrite andthen_ret. cbn [value_of].
      rewrite find_pair_short; [reflexivity|]. apply Z.eqb_eq in E1. assert (H1 : Z.of_nat (@length entry l) = 1%Z) by exact E1. lia.
    - rewrite andthen_skip.
      match goal with
      | |- value_of (andthen (for_ ?items ?bind ?body) ?k ?s) = _ => set (s0 := s); set (b := body); set (bd := bind)
      end.
      unfold andthen, for_. cbv beta. unfold s0 at 2. fu_proj. rewrite combs2_items.
      set (f := fun q : entry * entry => ((fst (fst q), fst (snd q)), (snd (fst q), snd (snd q)))).
      assert (Hb : forall x s, b (bd x s) =
                 if (fun x => overlaps (fst (snd x)) (snd (snd x))) x
                 then Ret [] (bd x s) ((fun x => Some (fst x, union (fst (snd x)) (snd (snd x)))) x)
                 else Fall [] (bd x s)).
      { intros x s. unfold b, bd, ite, ret, skip. fu_proj. destruct (overlaps (fst (snd x)) (snd (snd x))); reflexivity. }
      pose proof (for_list_first bd _ _ b Hb (map f (combs2 l)) s0) as H.
      rewrite find_map in H. change (fun a => overlaps (fst (snd (f a))) (snd (snd (f a)))) with ovq in H.
      rewrite find_combs2 in H.
      destruct (find_pair overlaps l) as [q|]; cbn [option_map] in H; destruct H as [s' H];
        (match type of H with ?L = _ =>
           match goal with |- context [for_list ?a0 ?b0 ?c0 ?d0] => change (for_list a0 b0 c0 d0) with L end end); rewrite H.
      + reflexivity.
      + cbn [prepend]. unfold ret. reflexivity.
  Qed.

  (* ---- _merge_unions ---- *)
  Ltac zclosed := repeat match goal with
    | |- context [Z.eqb ?a ?b] => let v := eval vm_compute in (Z.eqb a b) in
        (match v with true => idtac | false => idtac end); change (Z.eqb a b) with v
    | |- context [Z.leb ?a ?b] => let v := eval vm_compute in (Z.leb a b) in
        (match v with true => idtac | false => idtac end); change (Z.leb a b) with v
    | |- context [Z.ltb ?a ?b] => let v := eval vm_compute in (Z.ltb a b) in
        (match v with true => idtac | false => idtac end); change (Z.ltb a b) with v
    end; cbn [andb orb].
  Ltac mu_proj := cbn [imp_merge_unions_geoms imp_merge_unions_retv imp_merge_unions_cc_poly imp_merge_unions_idx imp_merge_unions__ret
                       imp_merge_unions_set_retv imp_merge_unions_set_cc_poly imp_merge_unions_set_idx imp_merge_unions_set__ret fst snd].

  Lemma merge_loop_fix n (l : list entry) : merge_step overlaps union l = None -> merge_loop overlaps union n l = l.
  Proof. intros H. destruct n; cbn; [reflexivity|now rewrite H]. Qed.

  Lemma flat_len_pos k : (0 < length (flat k))%nat.
  Proof. destruct (flat_nonempty k) as [i Hi]. destruct (flat k); [contradiction|cbn; lia]. Qed.
  Lemma key_pair_neq a b : KPair a b <> a.
  Proof.
    intros E. assert (H : length (flat (KPair a b)) = length (flat a)) by now rewrite E.
    cbn in H. rewrite app_length in H. pose proof (flat_len_pos b). lia.
  Qed.

  Lemma imp_merge_unions_model : forall n fuel (l : list entry),
    NoDup (concat (map members l)) -> (n < fuel)%nat ->
    merge_step overlaps union (merge_loop overlaps union n l) = None ->
    value_of (imp_merge_unions overlaps union g0 fuel l) = COk (merge_loop overlaps union n l).
  Proof.
    induction n as [|n IH]; intros fuel l Hnd Hf Hfix; (destruct fuel as [|fuel]; [lia|]); cbn [imp_merge_unions].
    all: unfold andthen at 1; unfold call_ at 1; cbv beta; mu_proj; rewrite imp_find_union_pair_model.
    all: destruct (find_pair overlaps l) as [[x y]|] eqn:Hfp; cbn [option_map prepend app]; unfold pair_result; cbn [fst snd].
    - (* n = 0 but a pair overlaps: the fixpoint hypothesis is violated *)
      cbn [merge_loop] in Hfix. unfold merge_step in Hfix. rewrite Hfp in Hfix. discriminate.
    - rewrite andthen_ite. cbv beta. mu_proj. rewrite andthen_ret. reflexivity.
    - (* one round, then the recursive call *)
      rewrite andthen_ite. cbv beta. mu_proj. cbv iota. rewrite andthen_skip. rewrite andthen_assign. mu_proj.
      destruct (find_pair_some _ _ _ _ Hfp) as (l1 & l2 & Hl & Hy & Hov).
      assert (Hx : In x l) by (rewrite Hl; apply in_or_app; right; left; reflexivity).
      assert (Hyl : In y l) by (rewrite Hl; apply in_or_app; right; right; exact Hy).
      assert (Hxy : fst y <> fst x).
      { intro E. destruct (flat_nonempty (fst x)) as [i Hi].
        rewrite Hl in Hnd. rewrite map_app, concat_app in Hnd. apply NoDup_app_r in Hnd. cbn in Hnd.
        eapply NoDup_app_disj; [exact Hnd|exact Hi|].
        eapply in_members_concat; [exact Hy|]. unfold members. rewrite E. exact Hi. }
      pose proof (remove_key_perm l x Hnd Hx) as P1.
      assert (Hnd1 : NoDup (concat (map members (remove_key (fst x) l)))).
      { apply perm_concat_members in P1. eapply Permutation_NoDup in P1; [|exact Hnd]. cbn in P1. eapply NoDup_app_r; exact P1. }
      assert (Hy1 : In y (remove_key (fst x) l)) by (apply remove_key_keep; assumption).
      pose proof (remove_key_perm _ y Hnd1 Hy1) as P2.
      set (rest := remove_key (fst y) (remove_key (fst x) l)) in *.
      set (l' := rest ++ [(KPair (fst x) (fst y), union (snd x) (snd y))]).
      assert (Hnd' : NoDup (concat (map members l'))).
      { unfold l'. rewrite map_app, concat_app. cbn [map concat]. rewrite app_nil_r. rewrite members_pair.
        eapply Permutation_NoDup; [|exact Hnd].
        eapply perm_trans; [apply perm_concat_members; exact P1|]. cbn [map concat].
        eapply perm_trans; [apply Permutation_app_head; apply perm_concat_members; exact P2|]. cbn [map concat].
        rewrite app_assoc. apply Permutation_app_comm. }
      (* the for loop over [0; 1] deletes the two keys *)
      unfold andthen at 1. unfold for_ at 1. cbv beta. cbn [for_list]. unfold andthen at 1. cbv beta.
      rewrite andthen_check. cbv beta. mu_proj. zclosed.
      rewrite (d_has_in key_eqb l (fst x) key_eqb_refl x Hx eq_refl). rewrite assign_eval. mu_proj.
      cbn [prepend app]. unfold andthen at 1. cbv beta.
      rewrite andthen_check. cbv beta. mu_proj. zclosed.
      change (d_del key_eqb l (fst x)) with (remove_key (fst x) l).
      rewrite (d_has_in key_eqb _ (fst y) key_eqb_refl y Hy1 eq_refl). rewrite assign_eval. mu_proj. zclosed.
      change (d_del key_eqb (remove_key (fst x) l) (fst y)) with rest.
      cbn [prepend app]. rewrite !prepend_nil.
      (* cc_poly[(k1, k2)] = union: the key is new, so it is appended *)
      rewrite seq_assoc. rewrite andthen_check. cbv beta. mu_proj. cbn [andb]. rewrite andthen_assign. mu_proj.
      cbn [fst snd pair_result].
      rewrite d_set_absent.
      2:{ intros e He. destruct (key_eqb (fst e) (KPair (fst x) (fst y))) eqn:E; [|reflexivity]. exfalso.
          apply key_eqb_true in E.
          assert (Hel : In e l) by (apply (remove_key_In (fst x)), (remove_key_In (fst y)); exact He).
          destruct (flat_nonempty (fst x)) as [i Hi].
          assert (e = x).
          { eapply (entry_unique l e x i Hnd Hel Hx); [|exact Hi]. unfold members. rewrite E. cbn. apply in_or_app. now left. }
          subst e. exact (key_pair_neq _ _ (eq_sym E)). }
      fold l'.
      (* return self._merge_unions(cc_poly) *)
      unfold andthen at 1. unfold call_ at 1. cbv beta. mu_proj.
      assert (Hstep : merge_step overlaps union l = Some l') by (unfold merge_step; rewrite Hfp; reflexivity).
      cbn [merge_loop] in Hfix |- *. rewrite Hstep in Hfix |- *.
      change (rest ++ [(KPair (fst x) (fst y), union (snd x) (snd y))]) with l'.
      rewrite (IH fuel l' Hnd' ltac:(lia) Hfix). cbn [prepend app]. unfold ret. mu_proj. reflexivity.
    - rewrite andthen_ite. cbv beta. mu_proj. rewrite andthen_ret. cbn [value_of].
      rewrite merge_loop_fix; [reflexivity|]. unfold merge_step. now rewrite Hfp.
  Qed.

  (* from the dict the class builds (dict(enumerate(geometries))) the recursion reaches its fixpoint within len(gs) rounds *)
  Lemma imp_merge_unions_init (gs : list G) fuel :
    geom_ok overlaps union -> (length gs < fuel)%nat ->
    value_of (imp_merge_unions overlaps union g0 fuel (init_entries gs))
    = COk (merge_loop overlaps union (length gs) (init_entries gs)).
  Proof.
    intros Hg Hf.
    pose proof (Inv_init overlaps gs) as HI.
    apply imp_merge_unions_model; [eapply Inv_NoDup; exact HI|exact Hf|].
    pose proof (merge_loop_done overlaps union gs Hg (length gs) (init_entries gs) HI) as Hd.
    unfold merge_step. rewrite Hd; [reflexivity|].
    assert (E : length (init_entries gs) = length gs).
    { change (length (init_entries gs)) with (length (combine (map KInt (seq 0 (length gs))) gs)).
      rewrite combine_length. rewrite map_length, seq_length. lia. }
    rewrite E. lia.
  Qed.
End ImpUnions.
