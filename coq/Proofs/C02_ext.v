(* C02 beyond segments=1 / nprocs=1 / epsilon=0, by composition with C03's organisation theorems (read-only):
   the neighbour info of Model/KDTree.v is what get_neighbour_info returns for EVERY segments argument and every
   hand-out of target slices to worker processes. *)
From Coq Require Import ZArith Bool List Lia Arith Permutation.
From PR Require Import Base.Num Base.Slice Model.Partition Model.KDTree Model.Organise Proofs.C02_lists Proofs.C03_org.
Import ListNotations.
Local Close Scope Z_scope.
Local Open Scope nat_scope.

Lemma map_nth_seq (m : list bool) st : map (fun t => nth (t - st) m false) (seq st (length m)) = m.
Proof.
  revert st; induction m as [|b m IH]; intros st; [reflexivity|].
  cbn [length seq map]. rewrite Nat.sub_diag. cbn [nth]. f_equal.
  rewrite <- (IH (S st)) at 2. apply map_ext_in. intros t Ht. apply in_seq in Ht.
  replace (t - st) with (S (t - S st)) by lia. reflexivity.
Qed.

Lemma filter_nth_seq (m : list bool) st :
  filter (fun t => nth (t - st) m false) (seq st (length m)) = select m (seq st (length m)).
Proof.
  revert st; induction m as [|b m IH]; intros st; [reflexivity|].
  cbn [length seq filter select]. rewrite Nat.sub_diag. change (nth 0 (b :: m) false) with b.
  assert (E : filter (fun t => nth (t - st) (b :: m) false) (seq (S st) (length m)) = select m (seq (S st) (length m))).
  { rewrite <- IH. apply filter_ext_in. intros t Ht. apply in_seq in Ht.
    replace (t - st) with (S (t - S st)) by lia. reflexivity. }
  rewrite E. destruct b; reflexivity.
Qed.

Section Ext.
  Variable knn : list nat -> nat -> nat.
  Variables vin vout : list bool.
  Let q := knn (KDTree.compact vin).
  Let valid := fun t => nth t vout false.

  Lemma query_batch_is_info : KDTree.compact vin <> [] ->
    query_batch q valid (seq 0 (length vout)) =
    (snd (fst (KDTree.neighbour_info knn vin vout)), snd (KDTree.neighbour_info knn vin vout)).
  Proof.
    intros Hne. unfold KDTree.neighbour_info. destruct (KDTree.compact vin) as [|c0 cs] eqn:Ec; [contradiction|].
    unfold query_batch, valid, q. cbn [fst snd]. try rewrite Ec.
    pose proof (map_nth_seq vout 0) as H1. pose proof (filter_nth_seq vout 0) as H2.
    rewrite (map_ext _ (fun t => nth t vout false)) in H1 by (intros; rewrite Nat.sub_0_r; reflexivity).
    rewrite (filter_ext _ (fun t => nth t vout false)) in H2 by (intros; rewrite Nat.sub_0_r; reflexivity).
    rewrite H1, H2. reflexivity.
  Qed.

  (* any segments argument (None, <= 1, 2 .. rows, more than rows), any capacity of the appendable arrays *)
  Lemma any_segments (segments : option Z) (g : list (list nat)) (capacity : Z) :
    concat g = seq 0 (length vout) -> KDTree.compact vin <> [] ->
    Organise.neighbour_info q valid (segments_of segments (Z.of_nat (length (concat g)))) g capacity =
    (map Some (snd (fst (KDTree.neighbour_info knn vin vout))), map Some (snd (KDTree.neighbour_info knn vin vout))).
  Proof.
    intros Hg Hne. rewrite segments_invariant. unfold info_plain. rewrite Hg.
    rewrite (query_batch_is_info Hne). reflexivity.
  Qed.

  (* any hand-out of the valid targets to worker processes (slices tiling them, any order, any initial content) *)
  Lemma any_nprocs (handed tiling : list pslice) (init : list nat) :
    KDTree.compact vin <> [] ->
    tiles 0 tiling (Z.of_nat (length (KDTree.compact vout))) -> Permutation handed tiling ->
    length init = length (KDTree.compact vout) ->
    run_workers q (KDTree.compact vout) handed init = snd (KDTree.neighbour_info knn vin vout).
  Proof.
    intros Hne Ht Hp Hl. rewrite (nprocs_invariant q (KDTree.compact vout) handed tiling init Ht Hp Hl).
    unfold KDTree.neighbour_info, q. destruct (KDTree.compact vin); [contradiction|reflexivity].
  Qed.
End Ext.
