(* List lemmas for the kd-tree pipeline: boolean indexing (select/compact), scatter, map2, repeat. *)
From Coq Require Import ZArith Bool List Lia Arith.
From PR Require Import Base.Num Model.KDTree.
Import ListNotations.
Open Scope nat_scope.

Lemma count_true_cons b m : count_true (b :: m) = if b then S (count_true m) else count_true m.
Proof. unfold count_true; cbn; destruct b; reflexivity. Qed.

Lemma count_true_le m : count_true m <= length m.
Proof. induction m as [|b m IH]; [cbn; lia|]. rewrite count_true_cons; destruct b; cbn; lia. Qed.

Lemma length_select_seq m st : length (select m (seq st (length m))) = count_true m.
Proof.
  revert st; induction m as [|b m IH]; intros st; [reflexivity|].
  cbn [length seq select]. rewrite count_true_cons. destruct b; cbn [length]; rewrite IH; reflexivity.
Qed.

Lemma length_compact m : length (compact m) = count_true m.
Proof. apply length_select_seq. Qed.

Lemma length_select {A} m (l : list A) : length l = length m -> length (select m l) = count_true m.
Proof.
  revert l; induction m as [|b m IH]; intros [|x l] H; try discriminate; [reflexivity|].
  cbn [select]. rewrite count_true_cons. injection H as H. destruct b; cbn [length]; rewrite (IH _ H); reflexivity.
Qed.

Lemma in_select_seq m st s :
  In s (select m (seq st (length m))) <-> (st <= s < st + length m /\ nth (s - st) m false = true).
Proof.
  revert st; induction m as [|b m IH]; intros st.
  - cbn. split; [tauto|]. intros [H _]; lia.
  - cbn [length seq select]. destruct b.
    + cbn [In]. rewrite IH. split.
      * intros [->|[H1 H2]].
        -- split; [lia|]. rewrite Nat.sub_diag. reflexivity.
        -- split; [lia|]. replace (s - st) with (S (s - S st)) by lia. exact H2.
      * intros [H1 H2]. destruct (Nat.eq_dec s st) as [->|Hne]; [left; reflexivity|right].
        split; [lia|]. replace (s - st) with (S (s - S st)) in H2 by lia. exact H2.
    + rewrite IH. split.
      * intros [H1 H2]. split; [lia|]. replace (s - st) with (S (s - S st)) by lia. exact H2.
      * intros [H1 H2]. destruct (Nat.eq_dec s st) as [->|Hne].
        -- rewrite Nat.sub_diag in H2. discriminate.
        -- split; [lia|]. replace (s - st) with (S (s - S st)) in H2 by lia. exact H2.
Qed.

(* a flat index is kept by the compaction exactly when it is in range and flagged valid *)
Lemma in_compact m s : In s (compact m) <-> (s < length m /\ nth s m false = true).
Proof.
  unfold compact. rewrite in_select_seq. rewrite Nat.sub_0_r. split; intros [H1 H2]; split; auto; lia.
Qed.

Lemma compact_nil_count m : compact m = [] -> count_true m = 0.
Proof. intros H. rewrite <- length_compact, H. reflexivity. Qed.

(* new_data[i] = data[cands[i]] *)
Lemma nth_select_seq {A} (m : list bool) (l : list A) dflt st i :
  length l = length m -> i < count_true m ->
  nth i (select m l) dflt = nth (nth i (select m (seq st (length m))) 0 - st) l dflt.
Proof.
  revert l st i; induction m as [|b m IH]; intros l st i Hl Hi.
  - cbn in Hi. lia.
  - destruct l as [|x l]; [discriminate|]. injection Hl as Hl.
    cbn [length seq select]. rewrite count_true_cons in Hi.
    assert (Hge : forall j, j < count_true m -> S st <= nth j (select m (seq (S st) (length m))) 0).
    { intros j Hj. assert (Hin : In (nth j (select m (seq (S st) (length m))) 0) (select m (seq (S st) (length m)))).
      { apply nth_In. rewrite length_select_seq. exact Hj. }
      apply in_select_seq in Hin. lia. }
    destruct b.
    + destruct i as [|i].
      * cbn [nth]. rewrite Nat.sub_diag. reflexivity.
      * cbn [nth]. rewrite (IH l (S st) i Hl) by lia.
        specialize (Hge i ltac:(lia)).
        replace (nth i (select m (seq (S st) (length m))) 0 - st)
          with (S (nth i (select m (seq (S st) (length m))) 0 - S st)) by lia.
        reflexivity.
    + rewrite (IH l (S st) i Hl Hi). specialize (Hge i Hi).
      replace (nth i (select m (seq (S st) (length m))) 0 - st)
        with (S (nth i (select m (seq (S st) (length m))) 0 - S st)) by lia.
      reflexivity.
Qed.

Lemma nth_select_compact {A} (m : list bool) (l : list A) dflt i :
  length l = length m -> i < count_true m -> nth i (select m l) dflt = nth (nth i (compact m) 0) l dflt.
Proof. intros Hl Hi. rewrite (nth_select_seq m l dflt 0 i Hl Hi). rewrite Nat.sub_0_r. reflexivity. Qed.

(* what is selected only depends on the entries at flagged positions *)
Lemma select_ext {A} (m : list bool) (l l' : list A) d :
  length l = length m -> length l' = length m ->
  (forall s, s < length m -> nth s m false = true -> nth s l d = nth s l' d) -> select m l = select m l'.
Proof.
  revert l l'; induction m as [|b m IH]; intros [|x l] [|y l'] H1 H2 H; try discriminate; [reflexivity|].
  injection H1 as H1. injection H2 as H2. cbn [select].
  assert (E : select m l = select m l').
  { apply IH; auto. intros s Hs Hm. apply (H (S s)); cbn; auto; lia. }
  destruct b; [|exact E]. rewrite E. f_equal. apply (H 0); cbn; auto; lia.
Qed.

Lemma length_scatter {A} m (res : list A) dflt : length (scatter m res dflt) = length m.
Proof.
  revert res; induction m as [|b m IH]; intros res; [reflexivity|].
  destruct b; [destruct res|]; cbn; rewrite IH; reflexivity.
Qed.

(* full[valid] = [f t for t in compact valid]  reads back as  full[t] = f t on valid t, default elsewhere *)
Lemma scatter_select_seq {A} (f : nat -> A) (m : list bool) dflt st t : t < length m ->
  nth t (scatter m (map f (select m (seq st (length m)))) dflt) dflt = if nth t m false then f (st + t) else dflt.
Proof.
  revert st t; induction m as [|b m IH]; intros st t Ht; [cbn in Ht; lia|].
  cbn [length seq select]. destruct b.
  - cbn [map scatter]. destruct t as [|t].
    + cbn. rewrite Nat.add_0_r. reflexivity.
    + cbn [nth]. cbn [length] in Ht. rewrite (IH (S st) t) by lia.
      replace (S st + t) with (st + S t) by lia. reflexivity.
  - cbn [scatter]. destruct t as [|t]; [reflexivity|].
    cbn [nth]. cbn [length] in Ht. rewrite (IH (S st) t) by lia.
    replace (S st + t) with (st + S t) by lia. reflexivity.
Qed.

Lemma scatter_compact {A} (f : nat -> A) (m : list bool) dflt t : t < length m ->
  nth t (scatter m (map f (compact m)) dflt) dflt = if nth t m false then f t else dflt.
Proof. intros Ht. unfold compact. rewrite scatter_select_seq by exact Ht. reflexivity. Qed.

(* ---- map2 / repeat ---- *)
Lemma length_map2 {A B C} (f : A -> B -> C) l1 l2 : length (map2 f l1 l2) = Nat.min (length l1) (length l2).
Proof. revert l2; induction l1 as [|x l1 IH]; intros [|y l2]; cbn; auto. Qed.

Lemma nth_map2 {A B C} (f : A -> B -> C) l1 l2 i da db dc :
  i < length l1 -> i < length l2 -> nth i (map2 f l1 l2) dc = f (nth i l1 da) (nth i l2 db).
Proof.
  revert l2 i; induction l1 as [|x l1 IH]; intros [|y l2] i H1 H2; cbn in *; try lia.
  destruct i; [reflexivity|]. apply IH; lia.
Qed.

Lemma map_repeat' {A B} (f : A -> B) x n : map f (repeat x n) = repeat (f x) n.
Proof. induction n; cbn; congruence. Qed.

Lemma map2_repeat {A B C} (f : A -> B -> C) x y n : map2 f (repeat x n) (repeat y n) = repeat (f x y) n.
Proof. induction n; cbn; congruence. Qed.

Lemma map2_orb_false_r {A} (g : A -> bool) (m : list bool) (l : list A) :
  length m = length l -> (forall v, In v l -> g v = false) -> map2 orb m (map g l) = m.
Proof.
  revert l; induction m as [|b m IH]; intros [|x l] H Hg; try discriminate; [reflexivity|].
  cbn. rewrite (Hg x) by (left; reflexivity). rewrite orb_false_r. f_equal.
  apply IH; [cbn in H; lia|]. intros v Hv; apply Hg; right; exact Hv.
Qed.

Lemma firstn_repeat {A} (x : A) n k : firstn n (repeat x (n + k)) = repeat x n.
Proof. induction n; cbn; congruence. Qed.
Lemma skipn_repeat {A} (x : A) n k : skipn n (repeat x (n + k)) = repeat x k.
Proof. induction n; cbn; congruence. Qed.

Lemma existsb_id_false (l : list bool) : existsb (fun x => x) l = false -> l = repeat false (length l).
Proof.
  induction l as [|b l IH]; [reflexivity|]. cbn. destruct b; [discriminate|]. intros H. f_equal. exact (IH H).
Qed.

Lemma existsb_false_in {A} (f : A -> bool) l x : existsb f l = false -> In x l -> f x = false.
Proof.
  induction l as [|y l IH]; [contradiction|]. cbn. intros H [->|Hin].
  - destruct (f x); [discriminate|reflexivity].
  - apply IH; auto. destruct (f y); [discriminate|exact H].
Qed.

Lemma concat_length_const {A} (ls : list (list A)) n :
  (forall l, In l ls -> length l = n) -> length (concat ls) = length ls * n.
Proof.
  induction ls as [|l ls IH]; intros H; [reflexivity|].
  cbn. rewrite app_length, (H l) by (left; reflexivity). rewrite IH; [lia|]. intros l' Hl'. apply H. right; exact Hl'.
Qed.
