(* C03: the snapshot's reduction window (Model/ReduceMask.legacy_win, tied to data_reduce._get_valid_index bit for
   bit by the correspondence) is refuted over the reals: a source within the radius of a target pixel is rejected. *)
From Coq Require Import Reals ZArith List Bool Lra Lia.
From Flocq Require Import Zaux Raux Generic_fmt Round_NE.
From Interval Require Import Tactic.
From PR Require Import Base.Num Base.RNum Model.ReduceMask.
Import ListNotations.
Open Scope R_scope.

Definition pymodR (a b : R) : R := a - b * IZR (Zfloor (a / b)).
Definition W : sides (T := R) :=
  mk_sides [12.5; 17.5] [17.5; 17.5] [17.5; 12.5] [12.5; 12.5]
           [83.75; 83.75] [83.75; 81.25] [81.25; 81.25] [81.25; 83.75].

Ltac rb :=
  repeat match goal with
  | |- context [Rltb ?a ?b] =>
      first [rewrite (proj2 (Rltb_true a b)) by (cbn; lra) | rewrite (proj2 (Rltb_false a b)) by (cbn; lra)]
  | |- context [Rleb ?a ?b] =>
      first [rewrite (proj2 (Rleb_true a b)) by (cbn; lra) | rewrite (proj2 (Rleb_false a b)) by (cbn; lra)]
  end.

Lemma illegal_W : illegal RO W = false.
Proof.
  unfold illegal, outside, W, cz. cbn [lo1 lo2 lo3 lo4 la1 la2 la3 la4 existsb ltb ofZ RO]. rb. reflexivity.
Qed.

Lemma Reqb_false a b : a <> b -> Reqb a b = false.
Proof. intros H. unfold Reqb. destruct (Req_EM_T a b); [contradiction|reflexivity]. Qed.

Ltac rabs :=
  repeat match goal with
  | |- context [Rabs ?x] => first [rewrite (Rabs_pos_eq x) by lra | rewrite (Rabs_left x) by lra]
  end.

Lemma angle_W : exists mn mx, angle_loop RO (truthy RO) W = (0 + (17.5 - 12.5) + (17.5 - 17.5) + (12.5 - 17.5) + (12.5 - 12.5), mn, mx).
Proof.
  unfold angle_loop, W. cbn [lo1 lo2 lo3 lo4 fold_left side_loop].
  unfold truthy, wrap_delta, cz. cbn [eqb ofZ RO ltb sub absf add negb].
  rewrite !Reqb_false by lra. cbn [negb].
  rabs. rb.
  eexists. eexists. reflexivity.
Qed.

Lemma rint0 x : x = 0 -> ZnearestE x = 0%Z.
Proof. intros ->. apply Znearest_imp. rewrite Rminus_0_r, Rabs_R0. lra. Qed.

Definition lonbuf (r lat : R) : R := degrees RO (r / (sin (radians RO lat) * REarth RO)).
Definition latbuf (r : R) : R := degrees RO (r / REarth RO).

(* the snapshot's window for the 2 x 2 longlat grid W, any radius *)
Lemma legacy_win_W r :
  legacy_win RO sin W r = mk_win 2 (81.25 - latbuf r) (83.75 + latbuf r) 0 (12.5 - lonbuf r 83.75) (17.5 + lonbuf r 83.75).
Proof.
  unfold legacy_win. rewrite illegal_W. destruct angle_W as (mn & mx & ->).
  unfold classify. cbn [rintZ RO]. rewrite rint0 by lra. cbn [Z.eqb].
  unfold lat_min_of, lat_max_of, np_max, np_min, np_max2, np_min2, py_max, py_min, fmax, fmin, W.
  cbn [lo1 lo2 lo3 lo4 la1 la2 la3 la4 fold_left isnan RO orb ltb absf].
  rb. cbn [orb]. rabs. rb.
  reflexivity.
Qed.

Definition xyzR (p : R * R) : R * R * R :=
  let lon := fst p * PI / 180 in let lat := snd p * PI / 180 in
  (6370997 * cos lat * cos lon, 6370997 * cos lat * sin lon, 6370997 * sin lat).
Definition chord (p q : R * R) : R :=
  let '(x1, y1, z1) := xyzR p in let '(x2, y2, z2) := xyzR q in
  sqrt ((x1 - x2) ^ 2 + (y1 - y2) ^ 2 + (z1 - z2) ^ 2).

Lemma rad2deg_val : rad2deg RO = 8063664102031864 / 140737488355328.
Proof. unfold rad2deg. cbn. lra. Qed.
Lemma deg2rad_val : deg2rad RO = 5030569068109113 / 288230376151711744.
Proof. unfold deg2rad. cbn. lra. Qed.

Lemma lonbuf_small : lonbuf 50000 83.75 < 1.
Proof.
  unfold lonbuf, degrees, radians, REarth. cbn [mul div ofZ RO]. rewrite rad2deg_val, deg2rad_val.
  interval with (i_prec 60).
Qed.
Lemma latbuf_large : latbuf 2500000 < 22.5.
Proof.
  unfold latbuf, degrees, REarth. cbn [mul div ofZ RO]. rewrite rad2deg_val. lra.
Qed.

Lemma chord_witness_lon : chord (11, 83.75) (12.5, 83.75) < 50000.
Proof. unfold chord, xyzR. cbn [fst snd]. interval with (i_prec 60). Qed.
Lemma chord_witness_lat : chord (12.5, 58.7) (12.5, 81.25) < 2500000.
Proof. unfold chord, xyzR. cbn [fst snd]. interval with (i_prec 60). Qed.

(* H_red fails for the snapshot's mask: (1) through the longitude window at 83.75N with a 50 km radius,
   (2) through the latitude window with a 2500 km radius (arc r/R instead of the angle of the chord) *)
Theorem snapshot_reduce_refuted :
  exists (Wt : sides (T := R)),
    (exists (r : R) (t s : R * R), In (fst t) (lo1 Wt) /\ In (snd t) (la1 Wt) /\ chord s t < r /\
        in_lon RO pymodR (legacy_win RO sin Wt r) (fst s) = false /\ in_lat RO (legacy_win RO sin Wt r) (snd s) = true /\
        keep RO pymodR (legacy_win RO sin Wt r) s = false)
    /\ (exists (r : R) (t s : R * R), In (fst t) (lo4 Wt) /\ In (snd t) (la3 Wt) /\ chord s t < r /\
        in_lat RO (legacy_win RO sin Wt r) (snd s) = false /\
        keep RO pymodR (legacy_win RO sin Wt r) s = false).
Proof.
  exists W. split.
  - exists 50000, (12.5, 83.75), (11, 83.75).
    split; [left; reflexivity|]. split; [left; reflexivity|]. split; [exact chord_witness_lon|].
    rewrite legacy_win_W. unfold keep, in_lon, in_lat. cbn [cls lonmode wa wb latlo lathi fst snd leb RO].
    pose proof lonbuf_small as H1.
    assert (H2 : 0 <= latbuf 50000).
    { unfold latbuf, degrees, REarth. cbn [mul div ofZ RO]. rewrite rad2deg_val. lra. }
    rewrite (proj2 (Rleb_false (12.5 - lonbuf 50000 83.75) 11)) by lra.
    rewrite (proj2 (Rleb_true (81.25 - latbuf 50000) 83.75)) by lra.
    rewrite (proj2 (Rleb_true 83.75 (83.75 + latbuf 50000))) by lra.
    repeat split; reflexivity.
  - exists 2500000, (12.5, 81.25), (12.5, 58.7).
    split; [left; reflexivity|]. split; [left; reflexivity|]. split; [exact chord_witness_lat|].
    rewrite legacy_win_W. unfold keep, in_lat. cbn [cls latlo lathi fst snd leb RO].
    pose proof latbuf_large as H1.
    rewrite (proj2 (Rleb_false (81.25 - latbuf 2500000) 58.7)) by lra.
    split; reflexivity.
Qed.
