(* C10 -- the regenerated concatenation / stacking kernels equal the hand-written models, for EVERY arithmetic
   instance (so also bit for bit in binary64). *)
From Coq Require Import ZArith List Bool.
From PR Require Import Base.Num Base.Slice Model.Grid Model.SliceArea Model.Stack.
From PR Require Import Gen.GenC10.
Import ListNotations.
Open Scope Z_scope.
Section G.
  Context {T : Type} (OP : ops T).
  Lemma gen_combine_eq a1 a2 :
    gen_combine_area_extents_vertical OP a1 a2 = combine_area_extents_vertical OP (g_area a1) (g_area a2).
  Proof.
    unfold gen_combine_area_extents_vertical, combine_area_extents_vertical, garea_extent, area_extent.
    destruct (g_area a1) as [x0 y0 x1 y1 w h], (g_area a2) as [x0' y0' x1' y1' w' h']; cbn.
    destruct (eqb OP x0 x0' && eqb OP x1 x1'); [|reflexivity].
    destruct (isclose OP y0 y1'); [reflexivity|]. destruct (isclose OP y1 y0'); reflexivity.
  Qed.
  Lemma gen_concat_eq g1 g2 : gen_concatenate_area_defs OP g1 g2 0 = concatenate_area_defs OP g1 g2.
  Proof.
    unfold gen_concatenate_area_defs, concatenate_area_defs. rewrite gen_combine_eq. cbn [Z.eqb].
    destruct (g_crs g1 =? g_crs g2), (gwidth g1 =? gwidth g2); cbn; try reflexivity.
  Qed.
  Lemma gen_local_row_slice_eq rs off (d : garea T) : okey (gen_local_row_slice rs off d) = local_row_slice rs off (gheight d).
  Proof. reflexivity. Qed.
  Lemma gen_stack_offset_step_eq off (d : garea T) : gen_stack_offset_step off d = off + gheight d.
  Proof. reflexivity. Qed.
End G.
