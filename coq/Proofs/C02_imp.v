(* C02, wave 3: the control skeleton of kd_tree.get_sample_from_neighbour_info and its helpers, translated from the
   current source by tools/py2coq_imp.py (Gen/GenC02imp.v), computes exactly the closed forms of Model/NdArr.v
   ("code is model"): the generated definition returns the model's array where the model is defined and raises exactly
   where it is not.  Straight-line code with branches: symbolic execution, one case split per test. *)
From Coq Require Import ZArith Bool List Lia.
From PR Require Import Base.ListX Base.Imp Model.KDTree Model.NdArr Gen.GenC02imp.
Import ListNotations.
Open Scope Z_scope.

Definition to_cres {A} (o : option A) : cres A := match o with Some v => COk v | None => CRaised end.

Ltac imp_unfold := cbv [andthen check assign ite ret raise_ skip call_ value_of prepend to_cres].
Ltac imp_run :=
  repeat (cbn; match goal with
               | |- context [if ?c then _ else _] => destruct c eqn:?
               | |- context [match ?c with Some _ => _ | None => _ end] => destruct c eqn:?
               end);
  cbn; try reflexivity; try congruence.

Section CodeIsModel.
  Context {V : Type} (veqb : V -> V -> bool) (vzero vone : V) (sentinel_of : Z -> V).

  Arguments nd_last_from : simpl never. Arguments nd_last_to : simpl never. Arguments nd_ne0 : simpl never.
  Arguments nd_with_mask : simpl never. Arguments nd_reshape : simpl never. Arguments nd_last : simpl never.
  Arguments nd_dim_ok : simpl never. Arguments nd_dim : simpl never. Arguments nd_ndim : simpl never.
  Arguments nd_reshape_ok : simpl never. Arguments nd_masked_equal : simpl never. Arguments nd_astype : simpl never.
  Arguments nd_zeros_masked : simpl never. Arguments nd_full : simpl never. Arguments nd_take : simpl never.
  Arguments nd_take_ok : simpl never. Arguments nd_fill_where : simpl never. Arguments nd_fill_where_ok : simpl never.
  Arguments nd_put_where : simpl never. Arguments nd_put_where_ok : simpl never. Arguments nd_boolsel : simpl never.
  Arguments nd_boolsel_ok : simpl never. Arguments nd_is_masked : simpl never. Arguments nd_stack_mask : simpl never.
  Arguments nd_ravel : simpl never. Arguments nd_remask : simpl never. Arguments count_true : simpl never.
  Arguments Z.div : simpl never. Arguments Z.eqb : simpl never. Arguments Z.mul : simpl never. Arguments Z.ltb : simpl never.
  Arguments Z.leb : simpl never. Arguments Z.gtb : simpl never. Arguments Z.of_nat : simpl never. Arguments zlen : simpl never.
  Arguments imp_extract_resample_result : simpl never. Arguments imp_get_empty_sample : simpl never.
  Arguments imp_prepare_result : simpl never.
  Arguments idx : simpl never. Arguments map : simpl never. Arguments map2 : simpl never. Arguments app : simpl never.

  Lemma dim_ok_last_to (d m : nda V) k : nd_dim_ok (nd_with_mask veqb vzero (nd_last_to d k) m) (-1) = true.
  Proof.
    unfold nd_dim_ok, nd_with_mask, nd_last_to, idx_ok, zlen. cbn [a_shape]. rewrite app_length. cbn [length].
    apply andb_true_iff. split; [apply Z.leb_le|apply Z.ltb_lt]; lia.
  Qed.
  Lemma dim_ok_last_to' (d : nda V) k : nd_dim_ok (nd_last_to d k) (-1) = true.
  Proof.
    unfold nd_dim_ok, nd_last_to, idx_ok, zlen. cbn [a_shape]. rewrite app_length. cbn [length].
    apply andb_true_iff. split; [apply Z.leb_le|apply Z.ltb_lt]; lia.
  Qed.

  (* _remask_data(data) [is_to_be_masked = True, the default] *)
  Lemma imp_remask_data_code_is_model d :
    value_of (imp_remask_data veqb vzero vone d true) = if nd_dim_ok d (-1) then COk (nd_remask veqb vzero vone d) else CRaised.
  Proof.
    unfold imp_remask_data, nd_remask. imp_unfold. imp_run.
    all: match goal with H : nd_dim_ok (nd_with_mask _ _ _ _) _ = false |- _ => rewrite dim_ok_last_to in H; discriminate end.
  Qed.

  (* _prepare_result; the call _remask_data(result) is read as nd_remask (previous lemma) *)
  Lemma imp_prepare_result_code_is_model result oshape is_masked use_mf fillv dt :
    value_of (imp_prepare_result veqb vzero vone result oshape is_masked use_mf fillv dt)
    = to_cres (nd_prepare veqb vzero vone result oshape is_masked use_mf fillv dt).
  Proof.
    unfold imp_prepare_result, nd_prepare. imp_unfold. destruct is_masked, use_mf, dt; imp_run.
  Qed.

  (* _get_empty_sample *)
  Lemma imp_get_empty_sample_code_is_model data oshape multi fill :
    value_of (imp_get_empty_sample vzero data oshape multi fill) = to_cres (nd_empty vzero data oshape multi fill).
  Proof.
    unfold imp_get_empty_sample, nd_empty. imp_unfold. destruct multi, fill; imp_run.
  Qed.

  (* _extract_resample_result for resample_type 'nn' (weight_funcs None, with_uncert False) *)
  Lemma imp_extract_code_is_model neighbours new_data index_array n voi fill oshape is_masked multi dt :
    value_of (imp_extract_resample_result veqb vzero vone sentinel_of tt neighbours new_data index_array tt n voi tt false fill
                                          oshape is_masked multi dt)
    = to_cres (nd_extract veqb vzero vone sentinel_of new_data index_array n voi fill oshape is_masked dt).
  Proof.
    unfold imp_extract_resample_result, nd_extract.
    cbv [andthen check assign ite ret raise_ skip call_ prepend].
    destruct fill as [f|]; cbn.
    - repeat (match goal with |- context [if negb ?c then _ else _] => destruct c eqn:?; cbn end); try reflexivity.
      rewrite imp_prepare_result_code_is_model. unfold to_cres, value_of.
      destruct (nd_prepare _ _ _ _ _ _ _ _ _); reflexivity.
    - repeat (match goal with |- context [if negb ?c then _ else _] => destruct c eqn:?; cbn end); try reflexivity.
      rewrite imp_prepare_result_code_is_model. unfold to_cres, value_of.
      destruct (nd_prepare _ _ _ _ _ _ _ _ _); reflexivity.
  Qed.

  (* get_sample_from_neighbour_info('nn', output_shape, data, vii, voi, index_array, fill_value=fill):
     the layout ladder, the size check, the empty-result early return, the neighbour count, the masked stacking *)
  Lemma imp_get_sample_code_is_model oshape data vii voi index_array fill :
    value_of (imp_get_sample veqb vzero vone sentinel_of tt oshape data vii voi index_array tt tt fill false)
    = to_cres (nd_get_sample veqb vzero vone sentinel_of oshape data vii voi index_array fill).
  Proof.
    unfold imp_get_sample, nd_get_sample, nd_normalise, nd_sample_of.
    cbv [andthen check assign ite ret raise_ skip call_ prepend].
    repeat (cbn; first
      [ rewrite imp_get_empty_sample_code_is_model; destruct (nd_empty _ _ _ _ _); cbn [to_cres]
      | rewrite imp_extract_code_is_model; destruct (nd_extract _ _ _ _ _ _ _ _ _ _ _ _); cbn [to_cres]
      | match goal with
        | |- context [if ?c then _ else _] =>
            lazymatch c with
            | context [imp_get_empty_sample] => fail
            | context [imp_extract_resample_result] => fail
            | _ => destruct c eqn:?
            end
        end ]); cbn; try reflexivity; try congruence.
  Qed.
End CodeIsModel.
