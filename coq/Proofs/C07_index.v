(* C07: the index computation of BucketResampler._get_indices over the reals. *)
From Coq Require Import Reals ZArith Lra Lia Bool List.
From Flocq Require Import Zaux Raux.
From PR Require Import Base.Num Base.RNum Model.Grid Proofs.Grid_real Model.Bucket.
Import ListNotations.
Open Scope R_scope.

(* ---- floor and the half-open cell, both signs of the cell size *)
Lemma floor_cell_neg (x x0 d : R) (c : Z) : d < 0 ->
  (Zfloor ((x - x0) / d) = c <-> x0 + (IZR c + 1) * d < x <= x0 + IZR c * d).
Proof.
  intros Hd.
  replace ((x - x0) / d) with ((- x - - x0) / (- d)) by (field; lra).
  rewrite (floor_cell (- x) (- x0) (- d) c) by lra. split; intros [H1 H2]; split; lra.
Qed.

Lemma floor_range (t : R) (n : Z) : (0 <= Zfloor t < n)%Z <-> 0 <= t < IZR n.
Proof.
  pose proof (Zfloor_lb t) as Hl. pose proof (Zfloor_ub t) as Hu. split.
  - intros [H1 H2]. apply IZR_le in H1. assert (H3 : (Zfloor t + 1 <= n)%Z) by lia.
    apply IZR_le in H3. rewrite plus_IZR in H3. lra.
  - intros [H1 H2]. split.
    + rewrite <- (Zfloor_IZR 0). apply Zfloor_le. exact H1.
    + apply lt_IZR. lra.
Qed.

(* ---- astype(int64) is harmless for indices that pass the mask *)
Lemma bk_floor_i64_R v : bk_floor_i64 RO v = if bk_int64_ok (Zfloor v) then Zfloor v else bk_int64_min.
Proof. reflexivity. Qed.

Lemma int64_min_neg : (bk_int64_min < 0)%Z. Proof. reflexivity. Qed.

Lemma bk_floor_i64_in (v : R) (n c : Z) : (n < 2 ^ 63)%Z -> (0 <= c < n)%Z ->
  (bk_floor_i64 RO v = c <-> Zfloor v = c).
Proof.
  intros Hn Hc. rewrite bk_floor_i64_R. unfold bk_int64_ok.
  pose proof int64_min_neg.
  destruct (Z.leb_spec bk_int64_min (Zfloor v)); destruct (Z.ltb_spec (Zfloor v) (2 ^ 63)); cbn; split; intros; try lia.
Qed.

Lemma bk_floor_i64_range (v : R) (n : Z) : (n < 2 ^ 63)%Z ->
  ((0 <= bk_floor_i64 RO v < n)%Z <-> (0 <= Zfloor v < n)%Z).
Proof.
  intros Hn. rewrite bk_floor_i64_R. unfold bk_int64_ok. pose proof int64_min_neg.
  destruct (Z.leb_spec bk_int64_min (Zfloor v)); destruct (Z.ltb_spec (Zfloor v) (2 ^ 63)); cbn; split; intros; try lia.
Qed.

(* ---- areas *)
Definition bk_wf (a : area R) : Prop :=
  (1 <= width a < 2 ^ 63)%Z /\ (1 <= height a < 2 ^ 63)%Z /\ xmin a <> xmax a /\ ymin a <> ymax a.
Definition bk_north_up (a : area R) : Prop := xmin a < xmax a /\ ymin a < ymax a.

Lemma bk_wf_wf a : bk_wf a -> wf_area a.
Proof. intros (Hw & Hh & Hx & Hy). repeat split; try lia; assumption. Qed.

Lemma dx_pos a : bk_wf a -> xmin a < xmax a -> 0 < dxR a.
Proof.
  intros (Hw & _) H. unfold dxR. apply Rdiv_lt_0_compat; [lra|]. apply IZR_pos_of. lia.
Qed.
Lemma dx_neg a : bk_wf a -> xmax a < xmin a -> dxR a < 0.
Proof.
  intros (Hw & _) H. unfold dxR. assert (0 < IZR (width a)) by (apply IZR_pos_of; lia).
  unfold Rdiv. assert (0 < / IZR (width a)) by (apply Rinv_0_lt_compat; lra). nra.
Qed.
Lemma dy_pos a : bk_wf a -> ymin a < ymax a -> 0 < dyR a.
Proof.
  intros (_ & Hh & _) H. unfold dyR. apply Rdiv_lt_0_compat; [lra|]. apply IZR_pos_of. lia.
Qed.
Lemma dy_neg a : bk_wf a -> ymax a < ymin a -> dyR a < 0.
Proof.
  intros (_ & Hh & _) H. unfold dyR. assert (0 < IZR (height a)) by (apply IZR_pos_of; lia).
  unfold Rdiv. assert (0 < / IZR (height a)) by (apply Rinv_0_lt_compat; lra). nra.
Qed.
Lemma w_dx a : bk_wf a -> IZR (width a) * dxR a = xmax a - xmin a.
Proof. intros (Hw & _). unfold dxR. field. apply Rgt_not_eq. apply IZR_pos_of. lia. Qed.
Lemma h_dy a : bk_wf a -> IZR (height a) * dyR a = ymax a - ymin a.
Proof. intros (_ & Hh & _). unfold dyR. field. apply Rgt_not_eq. apply IZR_pos_of. lia. Qed.

Lemma bk_x_raw_R a x : bk_x_raw RO a x = bk_floor_i64 RO ((x - xmin a) / dxR a).
Proof. reflexivity. Qed.
Lemma bk_y_raw_R a y : bk_y_raw RO a y = bk_floor_i64 RO ((ymax a - y) / dyR a).
Proof. reflexivity. Qed.

Lemma y_flip a y : dyR a <> 0 -> (ymax a - y) / dyR a = (y - ymax a) / (- dyR a).
Proof. intros H. field. lra. Qed.

(* column c, 0 <= c < width *)
Lemma bk_col_iff a x c : bk_wf a -> (0 <= c < width a)%Z ->
  (bk_x_raw RO a x = c <->
   (0 < dxR a -> xmin a + IZR c * dxR a <= x < xmin a + (IZR c + 1) * dxR a) /\
   (dxR a < 0 -> xmin a + (IZR c + 1) * dxR a < x <= xmin a + IZR c * dxR a)).
Proof.
  intros Hwf Hc. pose proof (dx_nonzero a (bk_wf_wf a Hwf)) as Hnz.
  rewrite bk_x_raw_R, (bk_floor_i64_in _ (width a) c) by (destruct Hwf as ((?&?)&_); lia || assumption).
  destruct (Rlt_dec 0 (dxR a)) as [Hp|Hp].
  - rewrite (floor_cell x (xmin a) (dxR a) c Hp). split; [intros H; split; [auto | lra] | intros [H _]; auto].
  - assert (Hn : dxR a < 0) by lra.
    rewrite (floor_cell_neg x (xmin a) (dxR a) c Hn). split; [intros H; split; [lra | auto] | intros [_ H]; auto].
Qed.

(* row r, 0 <= r < height: rows count downwards from ymax *)
Lemma bk_row_iff a y r : bk_wf a -> (0 <= r < height a)%Z ->
  (bk_y_raw RO a y = r <->
   (0 < dyR a -> ymax a - (IZR r + 1) * dyR a < y <= ymax a - IZR r * dyR a) /\
   (dyR a < 0 -> ymax a - IZR r * dyR a <= y < ymax a - (IZR r + 1) * dyR a)).
Proof.
  intros Hwf Hr. pose proof (dy_nonzero a (bk_wf_wf a Hwf)) as Hnz.
  rewrite bk_y_raw_R, (bk_floor_i64_in _ (height a) r) by (destruct Hwf as (_&(?&?)&_); lia || assumption).
  rewrite y_flip by assumption.
  destruct (Rlt_dec 0 (dyR a)) as [Hp|Hp].
  - assert (Hn : - dyR a < 0) by lra.
    rewrite (floor_cell_neg y (ymax a) (- dyR a) r Hn).
    split; [intros H; split; [intros _; lra | lra] | intros [H _]; specialize (H Hp); lra].
  - assert (Hn : 0 < - dyR a) by lra.
    rewrite (floor_cell y (ymax a) (- dyR a) r Hn).
    split; [intros H; split; [lra | intros _; lra] | intros [_ H]; assert (Hd : dyR a < 0) by lra; specialize (H Hd); lra].
Qed.

Lemma bk_mask_true {T} (a : area T) xi yi :
  bk_mask a xi yi = true <-> (0 <= xi < width a)%Z /\ (0 <= yi < height a)%Z.
Proof.
  unfold bk_mask. rewrite !andb_true_iff, !Z.leb_le, !Z.ltb_lt. lia.
Qed.

Lemma bk_cell_of_some a x y r c :
  bk_cell_of RO a (x, y) = Some (r, c) <->
  (0 <= c < width a)%Z /\ (0 <= r < height a)%Z /\ bk_x_raw RO a x = c /\ bk_y_raw RO a y = r.
Proof.
  unfold bk_cell_of; cbn [fst snd].
  destruct (bk_mask a (bk_x_raw RO a x) (bk_y_raw RO a y)) eqn:E.
  - apply bk_mask_true in E. split.
    + intros H. inversion H; subst. tauto.
    + intros (_ & _ & <- & <-). reflexivity.
  - split; [discriminate|]. intros (Hc & Hr & Hx & Hy). subst.
    assert (bk_mask a (bk_x_raw RO a x) (bk_y_raw RO a y) = true) by (apply bk_mask_true; tauto). congruence.
Qed.

(* general orientation *)
Lemma cell_iff_extent_general a x y r c : bk_wf a ->
  (bk_cell_of RO a (x, y) = Some (r, c) <->
   (0 <= c < width a)%Z /\ (0 <= r < height a)%Z /\
   ((0 < dxR a -> xmin a + IZR c * dxR a <= x < xmin a + (IZR c + 1) * dxR a) /\
    (dxR a < 0 -> xmin a + (IZR c + 1) * dxR a < x <= xmin a + IZR c * dxR a)) /\
   ((0 < dyR a -> ymax a - (IZR r + 1) * dyR a < y <= ymax a - IZR r * dyR a) /\
    (dyR a < 0 -> ymax a - IZR r * dyR a <= y < ymax a - (IZR r + 1) * dyR a))).
Proof.
  intros Hwf. rewrite bk_cell_of_some. split.
  - intros (Hc & Hr & Hx & Hy). split; [assumption|]. split; [assumption|].
    split; [apply (bk_col_iff a x c Hwf Hc); assumption | apply (bk_row_iff a y r Hwf Hr); assumption].
  - intros (Hc & Hr & Hx & Hy). split; [assumption|]. split; [assumption|].
    split; [apply (bk_col_iff a x c Hwf Hc); assumption | apply (bk_row_iff a y r Hwf Hr); assumption].
Qed.

(* north-up areas: left and top edges belong to the cell, right and bottom edges do not *)
Lemma cell_iff_extent a x y r c : bk_wf a -> bk_north_up a ->
  (bk_cell_of RO a (x, y) = Some (r, c) <->
   (0 <= c < width a)%Z /\ (0 <= r < height a)%Z /\
   xmin a + IZR c * dxR a <= x < xmin a + (IZR c + 1) * dxR a /\
   ymax a - (IZR r + 1) * dyR a < y <= ymax a - IZR r * dyR a).
Proof.
  intros Hwf [Hx Hy]. pose proof (dx_pos a Hwf Hx). pose proof (dy_pos a Hwf Hy).
  rewrite (cell_iff_extent_general a x y r c Hwf). split.
  - intros (Hc & Hr & [H1 _] & [H2 _]). auto.
  - intros (Hc & Hr & H1 & H2). repeat split; intros; try lra; tauto.
Qed.

Lemma mask_iff_area a x y : bk_wf a -> bk_north_up a ->
  (bk_mask a (bk_x_raw RO a x) (bk_y_raw RO a y) = true <->
   xmin a <= x < xmax a /\ ymin a < y <= ymax a).
Proof.
  intros Hwf [Hx Hy]. pose proof (dx_pos a Hwf Hx) as Hdx. pose proof (dy_pos a Hwf Hy) as Hdy.
  pose proof (w_dx a Hwf) as Ew. pose proof (h_dy a Hwf) as Eh.
  destruct Hwf as ((Hw1 & Hw2) & (Hh1 & Hh2) & _).
  rewrite bk_mask_true, bk_x_raw_R, bk_y_raw_R.
  rewrite (bk_floor_i64_range _ (width a) Hw2), (bk_floor_i64_range _ (height a) Hh2), !floor_range.
  assert (Ex : (x - xmin a) / dxR a * dxR a = x - xmin a) by (field; lra).
  assert (Ey : (ymax a - y) / dyR a * dyR a = ymax a - y) by (field; lra).
  set (tx := (x - xmin a) / dxR a) in *. set (ty := (ymax a - y) / dyR a) in *.
  split.
  - intros [[H1 H2] [H3 H4]]. split; split; nra.
  - intros [[H1 H2] [H3 H4]].
    assert (0 <= tx) by (apply Rmult_le_reg_r with (dxR a); [lra|]; lra).
    assert (tx < IZR (width a)) by (apply Rmult_lt_reg_r with (dxR a); [lra|]; lra).
    assert (0 <= ty) by (apply Rmult_le_reg_r with (dyR a); [lra|]; lra).
    assert (ty < IZR (height a)) by (apply Rmult_lt_reg_r with (dyR a); [lra|]; lra).
    tauto.
Qed.

Lemma cell_none_iff_outside a x y : bk_wf a -> bk_north_up a ->
  (bk_cell_of RO a (x, y) = None <-> ~ (xmin a <= x < xmax a /\ ymin a < y <= ymax a)).
Proof.
  intros Hwf Hn. rewrite <- (mask_iff_area a x y Hwf Hn).
  unfold bk_cell_of; cbn [fst snd]. destruct (bk_mask a _ _); split; intros; try discriminate; try congruence.
Qed.

(* ---- (x_idxs, y_idxs, idxs) versus the cell *)
Lemma bk_xy_idx_cell {T} (OP : ops T) (a : area T) p :
  bk_xy_idx OP a p = match bk_cell_of OP a p with Some (r, c) => (c, r) | None => (-1, -1)%Z end.
Proof. unfold bk_xy_idx, bk_cell_of. destruct (bk_mask _ _ _); reflexivity. Qed.

Lemma bk_idx_cell {T} (OP : ops T) (a : area T) p :
  bk_idx OP a p = match bk_cell_of OP a p with Some (r, c) => (r * width a + c)%Z | None => (- width a - 1)%Z end.
Proof.
  unfold bk_idx. rewrite bk_xy_idx_cell. destruct (bk_cell_of OP a p) as [[r c]|]; [reflexivity|]. lia.
Qed.

Lemma bk_cell_of_bounds {T} (OP : ops T) (a : area T) p r c :
  bk_cell_of OP a p = Some (r, c) -> (0 <= c < width a)%Z /\ (0 <= r < height a)%Z.
Proof.
  unfold bk_cell_of. destruct (bk_mask _ _ _) eqn:E; [|discriminate].
  intros H; inversion H; subst. apply bk_mask_true in E. tauto.
Qed.

(* the raveled index identifies the cell: idx = r*w + c for an inside point, negative otherwise *)
Lemma bk_idx_iff_cell {T} (OP : ops T) (a : area T) p r c : (1 <= width a)%Z ->
  (0 <= c < width a)%Z -> (0 <= r < height a)%Z ->
  (bk_idx OP a p = (r * width a + c)%Z <-> bk_cell_of OP a p = Some (r, c)).
Proof.
  intros Hw Hc Hr. rewrite bk_idx_cell. destruct (bk_cell_of OP a p) as [[r' c']|] eqn:E.
  - apply bk_cell_of_bounds in E. split.
    + intros H. assert (r' = r) by nia. subst. assert (c' = c) by lia. subst. reflexivity.
    + intros H; inversion H; reflexivity.
  - split; [intros; nia | discriminate].
Qed.

Lemma bk_idx_range {T} (OP : ops T) (a : area T) p : (1 <= width a)%Z -> (0 <= height a)%Z ->
  ((0 <= bk_idx OP a p < bk_size a)%Z <-> bk_cell_of OP a p <> None) /\ (bk_idx OP a p < bk_size a)%Z.
Proof.
  intros Hw Hh. rewrite bk_idx_cell. unfold bk_size. destruct (bk_cell_of OP a p) as [[r c]|] eqn:E.
  - apply bk_cell_of_bounds in E.
    assert (r * width a + width a <= height a * width a)%Z
      by (replace (r * width a + width a)%Z with ((r + 1) * width a)%Z by ring; apply Z.mul_le_mono_nonneg_r; lia).
    assert (0 <= r * width a)%Z by (apply Z.mul_nonneg_nonneg; lia).
    split; [split; [discriminate | intros _; lia] | lia].
  - assert (0 <= height a * width a)%Z by (apply Z.mul_nonneg_nonneg; lia).
    split; [split; [lia | congruence] | lia].
Qed.

(* per-chunk processing of the coordinates is the same as processing them all at once *)
Lemma bk_idxs_chunk_invariant {T} (OP : ops T) (a : area T) chunks :
  bk_idxs_chunked OP a chunks = bk_idxs OP a (concat chunks).
Proof. unfold bk_idxs_chunked, bk_idxs. symmetry. apply concat_map. Qed.
