(* C09: what the kernels deliver at the exact position: index pair, containing pixel, standard bilinear value. *)
From Coq Require Import Reals ZArith Lra Lia Bool List Psatz.
From Flocq Require Import Zaux Raux Generic_fmt Round_NE.
From PR Require Import Base.Num Base.RNum Base.Slice Model.Blockwise Model.Gradient Proofs.C09_newton Proofs.C09_scan.
Import ListNotations.
Open Scope R_scope.

Lemma half_R : half RO = / 2.
Proof. unfold half. cbn. lra. Qed.

(* ---------------- specifications ---------------- *)
(* pixel n (centre at index n, cell [n - 1/2, n + 1/2]) of an axis with pixels 0..lmax contains the point L *)
Definition contains (lmax : Z) (L : R) (n : Z) : Prop := (0 <= n <= lmax)%Z /\ Rabs (IZR n - L) <= / 2.
(* the centres k and k+1 enclose L *)
Definition encloses (k : Z) (L : R) : Prop := IZR k <= L <= IZR k + 1.
(* linear interpolation between the centres k and k+1 *)
Definition lin (g : Z -> R) (k : Z) (L : R) : R := (1 - (L - IZR k)) * g k + (L - IZR k) * g (k + 1)%Z.
(* standard bilinear interpolation of the four centres (kl,kp) (kl,kp+1) (kl+1,kp) (kl+1,kp+1) *)
Definition bilin4 (D : Z -> Z -> R) (kl kp : Z) (L P : R) : R :=
  let u := L - IZR kl in let v := P - IZR kp in
  (1 - u) * (1 - v) * D kl kp + (1 - u) * v * D kl (kp + 1)%Z + u * (1 - v) * D (kl + 1)%Z kp + u * v * D (kl + 1)%Z (kp + 1)%Z.
(* L is not half way between two centres *)
Definition no_tie (L : R) : Prop := L - IZR (Zfloor L) <> / 2.

Lemma floor_encloses L : encloses (Zfloor L) L.
Proof. unfold encloses. pose proof (Zfloor_lb L). pose proof (Zfloor_ub L). lra. Qed.

Lemma encloses_near k k' L : encloses k L -> encloses k' L -> (k' = k \/ (k' = k + 1 /\ L = IZR k') \/ (k = k' + 1 /\ L = IZR k))%Z.
Proof.
  unfold encloses. intros [A1 A2] [B1 B2].
  assert (H1 : (k' < k + 2)%Z) by (apply lt_IZR; rewrite plus_IZR; lra).
  assert (H2 : (k < k' + 2)%Z) by (apply lt_IZR; rewrite plus_IZR; lra).
  assert (C : (k' = k \/ k' = k + 1 \/ k = k' + 1)%Z) by lia.
  destruct C as [C|[C|C]]; [left; exact C | right; left | right; right]; split; try exact C; subst.
  - rewrite plus_IZR in *. lra.
  - rewrite plus_IZR in *. lra.
Qed.

Lemma lin_indep g k k' L : encloses k L -> encloses k' L -> lin g k L = lin g k' L.
Proof.
  intros Hk Hk'. destruct (encloses_near k k' L Hk Hk') as [->|[[-> E]|[-> E]]]; [reflexivity| |]; unfold lin.
  - rewrite E. rewrite plus_IZR. replace (IZR k + 1 - IZR k) with 1 by ring.
    replace (IZR k + 1 - (IZR k + 1)) with 0 by ring. ring.
  - rewrite E. rewrite plus_IZR. replace (IZR k' + 1 - IZR k') with 1 by ring.
    replace (IZR k' + 1 - (IZR k' + 1)) with 0 by ring. ring.
Qed.

(* what one axis of a bilinear kernel computes: lower index, upper index, weight *)
Definition axis_good (ls le : Z) (w L : R) : Prop := IZR ls + w = L /\ 0 <= w <= 1 /\ (le = (ls + 1)%Z \/ w = 0).

Lemma axis_lin g ls le w k L : axis_good ls le w L -> encloses k L -> (1 - w) * g ls + w * g le = lin g k L.
Proof.
  intros (E & Hw & [->| ->]) Hk.
  - rewrite (lin_indep g k ls L Hk); [|unfold encloses; lra]. unfold lin. replace (L - IZR ls) with w by lra. reflexivity.
  - rewrite (lin_indep g k ls L Hk); [|unfold encloses; lra]. unfold lin. replace (L - IZR ls) with 0 by lra. ring.
Qed.

Lemma bilin4_lin D kl kp L P : bilin4 D kl kp L P = lin (fun l => lin (D l) kp P) kl L.
Proof. unfold bilin4, lin. ring. Qed.

Lemma bil_sum_axes D la lb wl pa pb wp kl kp L P :
  axis_good la lb wl L -> axis_good pa pb wp P -> encloses kl L -> encloses kp P ->
  bil_sum RO wl wp (D la pa) (D la pb) (D lb pa) (D lb pb) = bilin4 D kl kp L P.
Proof.
  intros Al Ap El Ep. rewrite bilin4_lin. unfold bil_sum, oneT. cbn [add sub mul ofZ RO].
  rewrite <- (axis_lin (fun l => lin (D l) kp P) la lb wl kl L Al El).
  rewrite <- (axis_lin (D la) pa pb wp kp P Ap Ep), <- (axis_lin (D lb) pa pb wp kp P Ap Ep). ring.
Qed.

(* any two enclosing cells give the same bilinear value *)
Lemma bilin4_indep D kl kp kl' kp' L P : encloses kl L -> encloses kp P -> encloses kl' L -> encloses kp' P ->
  bilin4 D kl kp L P = bilin4 D kl' kp' L P.
Proof.
  intros. rewrite !bilin4_lin. rewrite (lin_indep _ kl kl' L) by assumption.
  unfold lin at 1 3. rewrite !(lin_indep _ kp kp' P) by assumption. reflexivity.
Qed.

(* ---------------- the Cython kernels ---------------- *)
Section Kernels.
  Variables lmax : Z.
  Variables (l1 : Z) (dl : R).
  Hypothesis Hin : (0 <= l1 <= lmax)%Z.
  Hypothesis Hdl : Rabs dl < 1.
  Hypothesis Hrange : 0 <= IZR l1 + dl <= IZR lmax.

  Lemma nn_axis_contains : contains lmax (IZR l1 + dl) (nn_axis RO l1 dl lmax).
  Proof.
    unfold nn_axis. cbn [ltb neg RO]. rewrite half_R. apply Rabs_def2 in Hdl.
    destruct (Rltb dl (- / 2)) eqn:A.
    - apply Rltb_true in A. destruct (Z.ltb_spec 0 l1) as [B|B]; cbn [andb].
      + split; [lia|]. rewrite minus_IZR. apply Rabs_le. lra.
      + assert (l1 = 0%Z) by lia. subst. lra.
    - apply Rltb_false in A. cbn [andb]. destruct (Rltb (/ 2) dl) eqn:B.
      + apply Rltb_true in B. destruct (Z.ltb_spec l1 lmax) as [C|C]; cbn [andb].
        * split; [lia|]. rewrite plus_IZR. apply Rabs_le. lra.
        * assert (l1 = lmax) by lia. subst. lra.
      + apply Rltb_false in B. cbn [andb]. split; [lia|]. apply Rabs_le. lra.
  Qed.

  Lemma bil_axis_good :
    let '(la, lb, w) := bil_axis RO l1 dl lmax in axis_good la lb w (IZR l1 + dl) /\ (0 <= la <= lmax)%Z /\ (0 <= lb <= lmax)%Z.
  Proof.
    unfold bil_axis, zeroT, oneT. cbn [ltb add ofZ RO]. apply Rabs_def2 in Hdl.
    destruct (Rltb dl 0) eqn:A.
    - apply Rltb_true in A.
      assert (1 <= l1)%Z. { destruct (Z.eq_dec l1 0) as [->|]; [lra|lia]. }
      replace (Z.max 0 (l1 - 1)) with (l1 - 1)%Z by lia.
      split; [|lia]. unfold axis_good. rewrite minus_IZR. repeat split; try lra. left. lia.
    - apply Rltb_false in A. split; [|lia]. unfold axis_good. repeat split; try lra.
      destruct (Z.eq_dec l1 lmax) as [->|]; [right; lra | left; lia].
  Qed.
End Kernels.

(* ---------------- the resample_blocks interpolators (indices relative to the cropped block) ---------------- *)
Lemma Zfloor_shift x n : Zfloor (x - IZR n) = (Zfloor x - n)%Z.
Proof.
  apply Zfloor_imp. rewrite plus_IZR, minus_IZR. pose proof (Zfloor_lb x). pose proof (Zfloor_ub x). lra.
Qed.

Lemma tie_cases L n : Rabs (L - IZR n) <= / 2 -> no_tie L -> Rabs (L - IZR n) < / 2.
Proof.
  intros H NT. destruct (Rle_lt_or_eq_dec _ _ H) as [|E]; [assumption|]. exfalso. apply NT.
  unfold Rabs in E. destruct (Rcase_abs (L - IZR n)).
  - assert (F : Zfloor L = (n - 1)%Z) by (apply Zfloor_imp; rewrite plus_IZR, minus_IZR; lra).
    rewrite F, minus_IZR. lra.
  - assert (F : Zfloor L = n) by (apply Zfloor_imp; rewrite plus_IZR; lra). rewrite F. lra.
Qed.

Lemma ZnearestE_shift L n : no_tie L -> ZnearestE (L - IZR n) = (ZnearestE L - n)%Z.
Proof.
  intros NT. apply Znearest_imp. rewrite minus_IZR.
  replace (L - IZR n - (IZR (ZnearestE L) - IZR n)) with (L - IZR (ZnearestE L)) by ring.
  apply tie_cases; [apply Znearest_half | exact NT].
Qed.

Lemma ZnearestE_range y n : 0 <= y <= IZR n -> (0 <= ZnearestE y <= n)%Z.
Proof.
  intros [H0 H1]. pose proof (Znearest_ge_floor (fun t => negb (Z.even t)) y).
  pose proof (Znearest_le_ceil (fun t => negb (Z.even t)) y).
  assert (0 <= Zfloor y)%Z by (apply Zfloor_lub; exact H0).
  assert (Zceil y <= n)%Z by (apply Zceil_glb; exact H1). lia.
Qed.

Section BlockCores.
  Variable D : Z -> Z -> R.
  Variables oy ox ny nx : Z.
  Hypothesis Hny : (1 <= ny)%Z.
  Hypothesis Hnx : (1 <= nx)%Z.
  Variables L P : R.
  Hypothesis HL : 0 <= L - IZR oy <= IZR (ny - 1).
  Hypothesis HP : 0 <= P - IZR ox <= IZR (nx - 1).

  Lemma block_bil_axis_good n y : (1 <= n)%Z -> 0 <= y <= IZR (n - 1) ->
    let '(ls, le, w) := block_bil_axis RO n y in axis_good ls le w y /\ (0 <= ls <= n - 1)%Z /\ (0 <= le <= n - 1)%Z.
  Proof.
    intros Hn [H0 H1]. unfold block_bil_axis, clipT, fmin, fmax, zeroT. cbn [ltb sub ofZ truncZ RO].
    assert (E1 : Rltb y 0 = false) by (apply Rltb_false; lra). rewrite E1.
    assert (E2 : Rltb (IZR (n - 1)) y = false) by (apply Rltb_false; lra). rewrite E2.
    rewrite Ztrunc_floor by exact H0.
    pose proof (Zfloor_lb y). pose proof (Zfloor_ub y).
    assert (F0 : (0 <= Zfloor y)%Z) by (apply Zfloor_lub; exact H0).
    assert (F1 : (Zfloor y <= n - 1)%Z) by (apply le_IZR; lra).
    unfold clipZ. split; [|lia]. unfold axis_good. repeat split; try lra.
    destruct (Z.eq_dec (Zfloor y) (n - 1)) as [E|NE].
    - right. rewrite E in *. lra.
    - left. lia.
  Qed.

  Lemma axis_good_shift ls le w y o : axis_good ls le w (y - IZR o) -> axis_good (ls + o) (le + o) w y.
  Proof. intros (E & Hw & C). unfold axis_good. rewrite plus_IZR. repeat split; try lra. destruct C; [left; lia|right; assumption]. Qed.

  (* block_bilinear_interpolator on the cropped data at the block-relative index = standard bilinear value *)
  Lemma block_bil_spec kl kp : encloses kl L -> encloses kp P ->
    block_bil RO (shift2 D oy ox) ny nx (P - IZR ox) (L - IZR oy) = bilin4 D kl kp L P.
  Proof.
    intros El Ep. unfold block_bil.
    pose proof (block_bil_axis_good ny (L - IZR oy) Hny HL) as Gl.
    pose proof (block_bil_axis_good nx (P - IZR ox) Hnx HP) as Gp.
    destruct (block_bil_axis RO ny (L - IZR oy)) as [[ls le] wl].
    destruct (block_bil_axis RO nx (P - IZR ox)) as [[ps pe] wp].
    destruct Gl as (Gl & _). destruct Gp as (Gp & _). unfold shift2.
    apply (bil_sum_axes D (ls + oy) (le + oy) wl (ps + ox) (pe + ox) wp kl kp L P);
      try assumption; apply axis_good_shift; assumption.
  Qed.

  (* block_nn_interpolator: the value of the source pixel nearest to the point *)
  Lemma block_nn_spec : no_tie L -> no_tie P ->
    block_nn RO (shift2 D oy ox) ny nx (P - IZR ox) (L - IZR oy) = D (ZnearestE L) (ZnearestE P).
  Proof.
    intros TL TP. unfold block_nn, shift2. cbn [rintZ RO].
    pose proof (ZnearestE_range (L - IZR oy) (ny - 1) HL). pose proof (ZnearestE_range (P - IZR ox) (nx - 1) HP).
    unfold clipZ. rewrite !Z.max_l by lia. rewrite !Z.min_l by lia.
    rewrite (ZnearestE_shift L oy TL), (ZnearestE_shift P ox TP). f_equal; lia.
  Qed.
  (* without the tie exclusion: some pixel containing the point *)
  Lemma block_nn_contains : exists n m, block_nn RO (shift2 D oy ox) ny nx (P - IZR ox) (L - IZR oy) = D n m /\
    (oy <= n <= oy + ny - 1)%Z /\ (ox <= m <= ox + nx - 1)%Z /\ Rabs (IZR n - L) <= / 2 /\ Rabs (IZR m - P) <= / 2.
  Proof.
    unfold block_nn, shift2. cbn [rintZ RO].
    pose proof (ZnearestE_range (L - IZR oy) (ny - 1) HL). pose proof (ZnearestE_range (P - IZR ox) (nx - 1) HP).
    unfold clipZ. rewrite !Z.max_l by lia. rewrite !Z.min_l by lia.
    do 2 eexists. split; [reflexivity|]. split; [lia|]. split; [lia|].
    pose proof (Znearest_half (fun t => negb (Z.even t)) (L - IZR oy)) as A.
    pose proof (Znearest_half (fun t => negb (Z.even t)) (P - IZR ox)) as B.
    rewrite !plus_IZR. rewrite Rabs_minus_sym in A, B. split.
    - replace (IZR (ZnearestE (L - IZR oy)) + IZR oy - L) with (IZR (ZnearestE (L - IZR oy)) - (L - IZR oy)) by ring. exact A.
    - replace (IZR (ZnearestE (P - IZR ox)) + IZR ox - P) with (IZR (ZnearestE (P - IZR ox)) - (P - IZR ox)) by ring. exact B.
  Qed.
End BlockCores.
