(* C05: code-is-model for the data-dimension checks translated from /repo (Gen/GenC05imp.v):
   XArrayResamplerNN._get_valid_dims and KDTreeNearestXarrayResampler._verify_data_geo_dims ARE geo_dims_ok. *)
From Coq Require Import ZArith List Lia Bool.
From PR Require Import Base.ZX Base.ListX Base.Slice Base.Imp Model.BlockwiseValid Gen.GenC05imp Proofs.C05_dimsok.
From PR Require Model.Blockwise.
Import ListNotations.
Open Scope Z_scope.

(* dims[i : i + n] for an index inside the tuple is firstn n (skipn i dims) *)
Lemma take_slice_firstn_skipn {A} (l : list A) (i n : nat) : (i <= length l)%nat ->
  take_slice (indices (mk_oslice (Some (Z.of_nat i)) (Some (Z.of_nat i + Z.of_nat n))) (zlen l)) l
  = firstn n (skipn i l).
Proof.
  intros Hi. unfold take_slice, indices, adj, zlen; cbn [ostart ostop sstart sstop].
  destruct (Z.ltb_spec (Z.of_nat i) 0); [lia|]. destruct (Z.ltb_spec (Z.of_nat i + Z.of_nat n) 0); [lia|].
  replace (Z.to_nat (Z.min (Z.of_nat i) (Z.of_nat (length l)))) with i by lia.
  destruct (Nat.le_gt_cases (i + n) (length l)) as [Hle|Hgt].
  - replace (Z.to_nat (Z.min (Z.of_nat i + Z.of_nat n) (Z.of_nat (length l)) - Z.min (Z.of_nat i) (Z.of_nat (length l)))) with n by lia.
    reflexivity.
  - replace (Z.to_nat (Z.min (Z.of_nat i + Z.of_nat n) (Z.of_nat (length l)) - Z.min (Z.of_nat i) (Z.of_nat (length l))))
      with (length l - i)%nat by lia.
    rewrite !firstn_all2; [reflexivity|rewrite skipn_length; lia|rewrite skipn_length; lia].
Qed.

Lemma zindex_le d l : (zindex d l <= length l)%nat.
Proof. induction l as [|x l IH]; cbn; [lia|]. destruct (Z.eqb x d); lia. Qed.

Lemma idx0_hd (l : list Z) : idx 0 l 0 = hd 0 l.
Proof. unfold idx. cbn. destruct l; reflexivity. Qed.

Lemma idx_ok_0 {A} (l : list A) : l <> [] -> idx_ok l 0 = true.
Proof. intros H. unfold idx_ok, zlen. destruct l; [congruence|]. cbn [length]. apply andb_true_intro. split; [apply Z.leb_le|apply Z.ltb_lt]; lia. Qed.

(* once the first test passed, the first geometry dim occurs in the data dims: tuple.index cannot raise *)
Lemma hd_in_dims dims geo : geo <> [] -> filter (fun d => Blockwise.memb d geo) dims = geo ->
  zindex_ok (hd 0 geo) dims = true.
Proof.
  intros Hne Hf. unfold zindex_ok, Blockwise.memb. apply existsb_exists. exists (hd 0 geo). split; [|apply Z.eqb_refl].
  destruct geo as [|g geo]; [congruence|]. cbn [hd].
  assert (Hin : In g (filter (fun d => Blockwise.memb d (g :: geo)) dims)) by (rewrite Hf; left; reflexivity).
  apply filter_In in Hin. apply Hin.
Qed.

Lemma list_eqb_Z_refl a : list_eqb Z.eqb a a = true.
Proof. induction a as [|x a IH]; cbn; [reflexivity|]. rewrite Z.eqb_refl. exact IH. Qed.
Lemma list_eqb_Z_iff a b : list_eqb Z.eqb a b = true <-> a = b.
Proof. split; [apply list_eqb_Z|intros ->; apply list_eqb_Z_refl]. Qed.

(* the straight-line part shared by both functions, as a boolean *)
Lemma geo_dims_ok_unfold dims geo :
  geo_dims_ok dims geo =
  list_eqb Z.eqb (filter (fun d => Blockwise.memb d geo) dims) geo
  && list_eqb Z.eqb (firstn (length geo) (skipn (zindex (hd 0 geo) dims) dims)) (filter (fun d => Blockwise.memb d geo) dims).
Proof. reflexivity. Qed.

Theorem get_valid_dims_code_is_model (data : darr) (is_swath : bool) (swath_dims : list Z) (y x : Z) :
  let geo := if is_swath then swath_dims else [y; x] in
  geo <> [] ->
  value_of (imp_get_valid_dims data is_swath swath_dims y x)
  = if geo_dims_ok (dd_dims data) geo then COk (geo, [y; x]) else CRaised.
Proof.
  intros geo Hne. rewrite geo_dims_ok_unfold.
  unfold imp_get_valid_dims.
  rewrite andthen_ite.
  assert (E : forall (k : M imp_get_valid_dims_st Empty_set (list Z * list Z)) s0,
            imp_get_valid_dims_is_swath s0 = is_swath -> imp_get_valid_dims_swath_dims s0 = swath_dims ->
            imp_get_valid_dims_ydim s0 = y -> imp_get_valid_dims_xdim s0 = x ->
            (if imp_get_valid_dims_is_swath s0
             then andthen (assign (fun s => imp_get_valid_dims_set_src_geo_dims (imp_get_valid_dims_swath_dims s) s)) k s0
             else andthen (assign (fun s => imp_get_valid_dims_set_src_geo_dims [imp_get_valid_dims_ydim s; imp_get_valid_dims_xdim s] s)) k s0)
            = k (imp_get_valid_dims_set_src_geo_dims geo s0)).
  { intros k s0 H1 H2 H3 H4. unfold geo. rewrite H1. destruct is_swath; rewrite andthen_assign; [rewrite H2|rewrite H3, H4]; reflexivity. }
  rewrite E by reflexivity. clear E.
  rewrite andthen_assign, andthen_assign, andthen_ite.
  cbv beta. cbn [imp_get_valid_dims_set_src_geo_dims imp_get_valid_dims_set_dst_geo_dims imp_get_valid_dims_set_data_geo_dims
                 imp_get_valid_dims_data imp_get_valid_dims_src_geo_dims imp_get_valid_dims_data_geo_dims imp_get_valid_dims_dst_geo_dims
                 imp_get_valid_dims_ydim imp_get_valid_dims_xdim imp_get_valid_dims_first_dim_idx imp_get_valid_dims_num_dims].
  change (fun d_ : Z => existsb (Z.eqb d_) geo) with (fun d => Blockwise.memb d geo).
  set (dg := filter (fun d => Blockwise.memb d geo) (dd_dims data)).
  destruct (list_eqb Z.eqb dg geo) eqn:E1; cbn [negb andb]; [|rewrite andthen_raise; reflexivity].
  rewrite andthen_skip, seq_assoc, andthen_check.
  cbv beta. cbn [imp_get_valid_dims_set_src_geo_dims imp_get_valid_dims_set_dst_geo_dims imp_get_valid_dims_set_data_geo_dims
                 imp_get_valid_dims_data imp_get_valid_dims_src_geo_dims imp_get_valid_dims_data_geo_dims].
  apply list_eqb_Z in E1.
  rewrite idx0_hd, (idx_ok_0 geo Hne), (hd_in_dims (dd_dims data) geo Hne E1). cbn [andb].
  rewrite andthen_assign, andthen_assign, andthen_ite.
  cbv beta.
  unfold imp_get_valid_dims_set_src_geo_dims, imp_get_valid_dims_set_dst_geo_dims, imp_get_valid_dims_set_data_geo_dims,
         imp_get_valid_dims_set_first_dim_idx, imp_get_valid_dims_set_num_dims.
  cbn [imp_get_valid_dims_data imp_get_valid_dims_is_swath imp_get_valid_dims_swath_dims
       imp_get_valid_dims_src_geo_dims imp_get_valid_dims_data_geo_dims imp_get_valid_dims_dst_geo_dims
       imp_get_valid_dims_ydim imp_get_valid_dims_xdim imp_get_valid_dims_first_dim_idx imp_get_valid_dims_num_dims].
  rewrite idx0_hd.
  change (zlen geo) with (Z.of_nat (length geo)). cbv zeta.
  rewrite (take_slice_firstn_skipn (dd_dims data) (zindex (hd 0 geo) (dd_dims data)) (length geo) (zindex_le _ _)).
  destruct (list_eqb Z.eqb (firstn (length geo) (skipn (zindex (hd 0 geo) (dd_dims data)) (dd_dims data))) dg) eqn:E2; cbn [negb].
  - rewrite andthen_skip. reflexivity.
  - rewrite andthen_raise. reflexivity.
Qed.

(* ---------- KDTreeNearestXarrayResampler._verify_data_geo_dims (with the size loop) ---------- *)
Section ForAll.
  Context {St Y R A : Type} (bind : A -> St -> St) (ok : A -> bool) (Inv : St -> Prop).
  (* a for loop whose body raises unless a test on the element passes, and otherwise falls through keeping Inv *)
  Lemma for_list_all (body : M St Y R) :
    (forall x s, Inv s -> if ok x then exists s', body (bind x s) = Fall [] s' /\ Inv s' else body (bind x s) = Raised) ->
    forall l s, Inv s ->
      if forallb ok l then exists s', for_list l bind body s = Fall [] s' /\ Inv s' else for_list l bind body s = Raised.
  Proof.
    intros Hb. induction l as [|x l IH]; intros s Hs; cbn [forallb for_list].
    - exists s. split; [reflexivity|exact Hs].
    - unfold andthen. specialize (Hb x s Hs). destruct (ok x); cbn [andb].
      + destruct Hb as (s1 & E & H1). rewrite E. specialize (IH s1 H1). destruct (forallb ok l).
        * destruct IH as (s2 & E2 & H2). rewrite E2. exists s2. split; [reflexivity|exact H2].
        * rewrite IH. reflexivity.
      + rewrite Hb. reflexivity.
  Qed.
End ForAll.

Lemma forallb_combine_fst {A B} (f : A -> bool) (ks : list A) : forall (l : list B), length ks = length l ->
  forallb (fun x => f (fst x)) (combine ks l) = forallb f ks.
Proof. induction ks as [|k ks IH]; intros [|b l] H; cbn in *; try lia; try reflexivity. f_equal. apply IH. lia. Qed.

Lemma zrange_length n : length (zrange n) = Z.to_nat n.
Proof. unfold zrange. rewrite map_length, seq_length. reflexivity. Qed.

Ltac simp_st :=
  cbv beta;
  unfold imp_verify_data_geo_dims_set_dim_name, imp_verify_data_geo_dims_set_dim_offset,
         imp_verify_data_geo_dims_set_geom_size, imp_verify_data_geo_dims_set_data_size;
  cbn [imp_verify_data_geo_dims_data imp_verify_data_geo_dims_src_geo_dims imp_verify_data_geo_dims_src_shape
       imp_verify_data_geo_dims_data_geo_dims imp_verify_data_geo_dims_first_dim_idx imp_verify_data_geo_dims_num_dims
       imp_verify_data_geo_dims_dim_offset imp_verify_data_geo_dims_dim_name imp_verify_data_geo_dims_geom_size
       imp_verify_data_geo_dims_data_size].

Theorem verify_data_geo_dims_code_is_model (data : darr) (geo src_shape : list Z) :
  geo <> [] ->
  let first := Z.of_nat (zindex (hd 0 geo) (dd_dims data)) in
  let accepted := geo_dims_ok (dd_dims data) geo && geo_sizes_ok (dd_shape data) src_shape first (zlen geo) in
  if accepted then exists s, state_of (imp_verify_data_geo_dims data geo src_shape) = COk s
  else state_of (imp_verify_data_geo_dims data geo src_shape) = CRaised.
Proof.
  intros Hne first accepted. unfold accepted, first. clear accepted first. rewrite geo_dims_ok_unfold.
  unfold imp_verify_data_geo_dims.
  rewrite andthen_assign, andthen_ite.
  cbv beta. unfold imp_verify_data_geo_dims_set_data_geo_dims.
  cbn [imp_verify_data_geo_dims_data imp_verify_data_geo_dims_src_geo_dims imp_verify_data_geo_dims_data_geo_dims].
  change (fun d_ : Z => existsb (Z.eqb d_) geo) with (fun d => Blockwise.memb d geo).
  set (dg := filter (fun d => Blockwise.memb d geo) (dd_dims data)).
  destruct (list_eqb Z.eqb dg geo) eqn:E1; cbn [negb andb]; [|rewrite andthen_raise; reflexivity].
  rewrite andthen_skip, seq_assoc, andthen_check.
  cbv beta. cbn [imp_verify_data_geo_dims_data imp_verify_data_geo_dims_src_geo_dims imp_verify_data_geo_dims_data_geo_dims].
  apply list_eqb_Z in E1.
  rewrite idx0_hd, (idx_ok_0 geo Hne), (hd_in_dims (dd_dims data) geo Hne E1). cbn [andb].
  rewrite andthen_assign, andthen_assign, andthen_ite.
  cbv beta. unfold imp_verify_data_geo_dims_set_first_dim_idx, imp_verify_data_geo_dims_set_num_dims.
  cbn [imp_verify_data_geo_dims_data imp_verify_data_geo_dims_src_geo_dims imp_verify_data_geo_dims_src_shape
       imp_verify_data_geo_dims_data_geo_dims imp_verify_data_geo_dims_first_dim_idx imp_verify_data_geo_dims_num_dims].
  rewrite idx0_hd. cbv zeta.
  change (Z.of_nat (zindex (hd 0 geo) (dd_dims data)) + zlen geo)
    with (Z.of_nat (zindex (hd 0 geo) (dd_dims data)) + Z.of_nat (length geo)).
  rewrite (take_slice_firstn_skipn (dd_dims data) (zindex (hd 0 geo) (dd_dims data)) (length geo) (zindex_le _ _)).
  destruct (list_eqb Z.eqb (firstn (length geo) (skipn (zindex (hd 0 geo) (dd_dims data)) (dd_dims data))) dg) eqn:E2;
    cbn [negb andb]; [|rewrite andthen_raise; reflexivity].
  rewrite andthen_skip. unfold for_.
  cbn [imp_verify_data_geo_dims_data_geo_dims].
  set (first := Z.of_nat (zindex (hd 0 geo) (dd_dims data))).
  set (s0 := mk_imp_verify_data_geo_dims_st _ _ _ _ _ _ _ _ _ _).
  set (okk := fun k => idx_ok src_shape k && idx_ok (dd_shape data) (first + k)
                       && (idx 0 src_shape k =? idx 0 (dd_shape data) (first + k))).
  pose (Inv := fun s : imp_verify_data_geo_dims_st =>
                 imp_verify_data_geo_dims_data s = data /\ imp_verify_data_geo_dims_src_shape s = src_shape
                 /\ imp_verify_data_geo_dims_first_dim_idx s = first).
  match goal with |- context [for_list ?l ?b ?body s0] =>
    pose proof (for_list_all b (fun x : Z * Z => okk (fst x)) Inv body) as HL; specialize (HL) end.
  assert (Hbody : True) by exact I.
  match type of HL with ?P -> _ => assert (HP : P) end.
  { intros [k nm] s (Hd & Hs & Hf). destruct s as [d1 g1 ss1 dg1 f1 n1 o1 nm1 gs1 ds1].
    cbn [imp_verify_data_geo_dims_data imp_verify_data_geo_dims_src_shape imp_verify_data_geo_dims_first_dim_idx] in Hd, Hs, Hf.
    subst d1 ss1 f1. cbn [fst snd]. unfold okk.
    rewrite seq_assoc, andthen_check. simp_st.
    destruct (idx_ok src_shape k); cbn [andb]; [|reflexivity].
    rewrite andthen_assign, seq_assoc, andthen_check. simp_st.
    destruct (idx_ok (dd_shape data) (first + k)); cbn [andb]; [|reflexivity].
    rewrite andthen_assign, ite_eval. simp_st.
    destruct (idx 0 src_shape k =? idx 0 (dd_shape data) (first + k)); cbn [negb].
    - eexists. split; [reflexivity|]. repeat split.
    - reflexivity. }
  specialize (HL HP (combine (zrange (zlen dg)) dg) s0).
  assert (Hi : Inv s0) by (repeat split; reflexivity). specialize (HL Hi).
  rewrite forallb_combine_fst in HL by (rewrite zrange_length; unfold zlen; lia).
  unfold geo_sizes_ok. replace (zlen geo) with (zlen dg) by (rewrite E1; reflexivity). fold okk.
  destruct (forallb okk (zrange (zlen dg))).
  - destruct HL as (s' & E & _). rewrite E. exists s'. reflexivity.
  - rewrite HL. reflexivity.
Qed.
