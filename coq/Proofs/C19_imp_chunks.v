(* C19: the definition regenerated from slicer._enumerate_chunk_slices (tools/py2coq_imp.py) is the hand model *)
From Coq Require Import ZArith List Lia Bool.
From PR Require Import Base.ZX Base.Slice Base.Imp Model.Partition Gen.GenC19.
Import ListNotations.
Open Scope Z_scope.

Ltac ec_proj := cbn [imp_enumerate_chunk_slices_chunks imp_enumerate_chunk_slices_position imp_enumerate_chunk_slices_slices
                     imp_enumerate_chunk_slices_pos imp_enumerate_chunk_slices_chunk imp_enumerate_chunk_slices_chunk_size
                     imp_enumerate_chunk_slices_offset
                     imp_enumerate_chunk_slices_set_position imp_enumerate_chunk_slices_set_slices imp_enumerate_chunk_slices_set_pos
                     imp_enumerate_chunk_slices_set_chunk imp_enumerate_chunk_slices_set_chunk_size imp_enumerate_chunk_slices_set_offset
                     fst snd].

(* ---- list facts ---- *)
Lemma fold_add_acc (l : list Z) : forall a, fold_left Z.add l a = a + fold_left Z.add l 0.
Proof. induction l as [|x l IH]; intros a; cbn; [lia|]. rewrite (IH (a + x)), (IH x). lia. Qed.
Lemma zsum_cons x l : zsum (x :: l) = x + zsum l.
Proof. unfold zsum. cbn. apply fold_add_acc. Qed.

(* the slice of chunk number i of an axis with chunk sizes c *)
Definition sl_at (c : list Z) (i : nat) : pslice :=
  mk_slice (zsum (firstn i c)) (zsum (firstn i c) + nth i c 0).

Lemma offsets_sl_at c : forall pos off,
  offsets pos off c
  = map (fun i => ((pos + i)%nat, mk_slice (off + sstart (sl_at c i)) (off + sstop (sl_at c i)))) (seq 0 (length c)).
Proof.
  induction c as [|x c IH]; intros pos off; [reflexivity|].
  cbn [offsets length seq map]. f_equal.
  - unfold sl_at. cbn [firstn nth sstart sstop]. unfold zsum. cbn [fold_left]. rewrite Nat.add_0_r, Z.add_0_r, Z.add_0_l. reflexivity.
  - rewrite IH. rewrite <- seq_shift, map_map. apply map_ext. intros i.
    unfold sl_at. cbn [firstn nth sstart sstop]. rewrite zsum_cons. f_equal; [lia|]. f_equal; lia.
Qed.
Lemma offsets_0 c : offsets 0 0 c = map (fun i => (i, sl_at c i)) (seq 0 (length c)).
Proof.
  rewrite offsets_sl_at. apply map_ext. intros i. unfold sl_at. cbn [sstart sstop]. reflexivity.
Qed.

Lemma zrange_zlen {A} (c : list A) : zrange (zlen c) = map Z.of_nat (seq 0 (length c)).
Proof. unfold zrange, zlen. now rewrite Nat2Z.id. Qed.

Lemma flat_map_map {A B C} (f : B -> list C) (g : A -> B) l : flat_map f (map g l) = flat_map (fun x => f (g x)) l.
Proof. induction l as [|x l IH]; cbn; [reflexivity|now rewrite IH]. Qed.
Lemma map_flat_map {A B C} (h : B -> C) (f : A -> list B) l : map h (flat_map f l) = flat_map (fun x => map h (f x)) l.
Proof. induction l as [|x l IH]; cbn; [reflexivity|now rewrite map_app, IH]. Qed.
Lemma flat_map_ext_in {A B} (f g : A -> list B) l : (forall x, In x l -> f x = g x) -> flat_map f l = flat_map g l.
Proof.
  induction l as [|x l IH]; intros H; cbn; [reflexivity|].
  rewrite (H x (or_introl eq_refl)), IH; [reflexivity|]. intros y Hy. apply H. now right.
Qed.

(* what the code pairs with a position: the slices of the chosen chunk of every axis *)
Definition blk_slices (pcs : list (Z * list Z)) : list pslice := map (fun pc => sl_at (snd pc) (Z.to_nat (fst pc))) pcs.
Definition blk_view (blk : list (nat * pslice)) : list Z * list pslice := (map (fun e => Z.of_nat (fst e)) blk, map snd blk).
Definition pos_view (chunks : list (list Z)) (position : list Z) : list Z * list pslice :=
  (position, blk_slices (combine position chunks)).

Lemma model_as_ndindex chunks :
  map blk_view (enumerate_chunk_slices chunks) = map (pos_view chunks) (ndindex (map zlen chunks)).
Proof.
  unfold enumerate_chunk_slices.
  induction chunks as [|c r IH]; [reflexivity|].
  cbn [map product ndindex]. rewrite zrange_zlen, offsets_0.
  rewrite !flat_map_map, !map_flat_map. apply flat_map_ext_in. intros i _.
  rewrite !map_map.
  transitivity (map (fun q : list Z * list pslice => (Z.of_nat i :: fst q, sl_at c i :: snd q)) (map blk_view (product (map (offsets 0 0) r)))).
  - rewrite map_map. apply map_ext. intros blk. reflexivity.
  - rewrite IH, map_map. apply map_ext. intros p. unfold pos_view, blk_slices. cbn [combine map fst snd].
    now rewrite Nat2Z.id.
Qed.

Lemma ndindex_bounds dims : forall p, In p (ndindex dims) -> Forall2 (fun i d => 0 <= i < d) p dims.
Proof.
  induction dims as [|d r IH]; intros p Hp; cbn [ndindex] in Hp.
  - destruct Hp as [<-|[]]. constructor.
  - apply in_flat_map in Hp. destruct Hp as (i & Hi & Hp). apply in_map_iff in Hp. destruct Hp as (q & <- & Hq).
    constructor; [|apply IH; exact Hq].
    unfold zrange in Hi. apply in_map_iff in Hi. destruct Hi as (k & <- & Hk). apply in_seq in Hk. lia.
Qed.

Lemma take_prefix (l : list Z) pos : 0 <= pos <= zlen l ->
  (let l_ := l in take_slice (indices (mk_oslice None (Some pos)) (zlen l_)) l_) = firstn (Z.to_nat pos) l.
Proof.
  intros H. cbv zeta. unfold take_slice, indices, adj. cbn [ostart ostop sstart sstop].
  destruct (Z.ltb_spec pos 0); [lia|]. rewrite Z.min_l by lia. cbn [Z.to_nat skipn]. f_equal. lia.
Qed.

(* the inner loop: one slice per axis, appended in order *)
Lemma inner_loop (body : M imp_enumerate_chunk_slices_st (list Z * list pslice) unit) :
  body = (andthen (andthen (check (fun s => idx_ok (imp_enumerate_chunk_slices_chunk s) (imp_enumerate_chunk_slices_pos s)))
                    (assign (fun s => imp_enumerate_chunk_slices_set_chunk_size
                                        (idx 0 (imp_enumerate_chunk_slices_chunk s) (imp_enumerate_chunk_slices_pos s)) s)))
           (andthen (assign (fun s => imp_enumerate_chunk_slices_set_offset
                                        (zsum (let l_ := imp_enumerate_chunk_slices_chunk s in
                                               take_slice (indices (mk_oslice None (Some (imp_enumerate_chunk_slices_pos s))) (zlen l_)) l_)) s))
              (assign (fun s => imp_enumerate_chunk_slices_set_slices
                                  (imp_enumerate_chunk_slices_slices s ++
                                   [mk_slice (imp_enumerate_chunk_slices_offset s)
                                             (imp_enumerate_chunk_slices_offset s + imp_enumerate_chunk_slices_chunk_size s)]) s)))) ->
  forall bind, bind = (fun (x_ : Z * list Z) s => imp_enumerate_chunk_slices_set_chunk (snd x_) (imp_enumerate_chunk_slices_set_pos (fst x_) s)) ->
  forall pcs, Forall (fun pc => 0 <= fst pc < zlen (snd pc)) pcs ->
  forall s, exists s', for_list pcs bind body s = Fall [] s' /\
                       imp_enumerate_chunk_slices_slices s' = imp_enumerate_chunk_slices_slices s ++ blk_slices pcs /\
                       imp_enumerate_chunk_slices_chunks s' = imp_enumerate_chunk_slices_chunks s /\
                       imp_enumerate_chunk_slices_position s' = imp_enumerate_chunk_slices_position s.
Proof.
  intros -> bind ->. induction pcs as [|[pos c] pcs IH]; intros HF s.
  - exists s. cbn. rewrite app_nil_r. repeat split.
  - inversion HF as [|? ? Hpc HF']; subst. cbn [fst snd] in Hpc.
    cbn [for_list]. unfold andthen at 1. cbv beta.
    rewrite seq_assoc, andthen_check. cbv beta. ec_proj.
    assert (Hok : idx_ok c pos = true) by (unfold idx_ok; apply andb_true_intro; split; [apply Z.leb_le|apply Z.ltb_lt]; lia).
    rewrite Hok. rewrite andthen_assign, andthen_assign, assign_eval. ec_proj.
    rewrite take_prefix by lia.
    match goal with |- context [for_list pcs _ _ ?st] => destruct (IH HF' st) as (s' & E & H1 & H2 & H3) end.
    (match type of E with ?L = _ =>
       match goal with |- context [for_list pcs ?a0 ?b0 ?c0] => change (for_list pcs a0 b0 c0) with L end end).
    rewrite E. cbn [prepend app]. exists s'. split; [reflexivity|].
    rewrite H1, H2, H3. ec_proj. repeat split.
    rewrite <- app_assoc. f_equal. cbn [blk_slices map app fst snd]. f_equal.
    unfold sl_at, idx. destruct (Z.ltb_spec pos 0); [lia|]. reflexivity.
Qed.

Lemma combine_bounds p (chunks : list (list Z)) :
  Forall2 (fun i d => 0 <= i < d) p (map zlen chunks) -> Forall (fun pc => 0 <= fst pc < zlen (snd pc)) (combine p chunks).
Proof.
  revert p. induction chunks as [|c r IH]; intros p H; inversion H; subst; cbn [combine]; constructor; [assumption|].
  apply IH. assumption.
Qed.

(* the generated definition yields, in order, exactly the model's blocks *)
Lemma imp_enumerate_chunk_slices_yields chunks :
  yields_of (imp_enumerate_chunk_slices chunks) = Some (map blk_view (enumerate_chunk_slices chunks)).
Proof.
  rewrite model_as_ndindex. unfold imp_enumerate_chunk_slices. unfold for_ at 1. cbv beta. ec_proj.
  match goal with |- yields_of (for_list ?l ?bd ?b ?s) = _ => set (s0 := s); set (body := b); set (bind := bd) end.
  destruct (for_list_yields bind (fun p => [pos_view chunks p]) (fun s => imp_enumerate_chunk_slices_chunks s = chunks)
              body (ndindex (map zlen chunks))) with (s := s0) as (s' & E & _).
  - intros p s Hp Hs. unfold body, bind.
    rewrite andthen_assign. ec_proj. unfold andthen at 1, for_ at 1. cbv beta. ec_proj. rewrite Hs.
    match goal with |- context [for_list _ ?bd ?b ?st] =>
      destruct (inner_loop b eq_refl bd eq_refl (combine p chunks) (combine_bounds _ _ (ndindex_bounds _ _ Hp)) st)
        as (s1 & E1 & H1 & H2 & H3) end.
    rewrite E1. cbn [prepend app]. unfold yield_. exists s1. split; [|rewrite H2; ec_proj; exact Hs].
    unfold pos_view. rewrite H1, H3. ec_proj. reflexivity.
  - reflexivity.
  - rewrite E. cbn [yields_of]. f_equal.
    all: clear; induction (ndindex (map zlen chunks)) as [|p l IH]; cbn; [reflexivity|now rewrite IH].
Qed.
