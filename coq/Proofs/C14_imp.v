(* C14, wave 3: the object-level methods of DynamicAreaDefinition translated from /repo by tools/py2coq_imp.py
   (Gen/GenC14imp.v) ARE the object-level model of Model/DynImp.v, in every arithmetic and for every world (= every
   behaviour of pyproj / PROJ / the geometry objects); none of them writes to self, so every freeze in a history of calls
   on one object returns what a fresh object returns. *)
From Coq Require Import ZArith Bool List Lia.
From PR Require Import Base.Num Base.Imp Model.Grid Model.DynBase Gen.GenC14 Model.Dynamic Model.DynImp Gen.GenC14imp Proofs.C14_lists.
From Coq Require Import Reals.
From PR Require Import Base.RNum Proofs.Grid_real Proofs.C14_domain Proofs.C14_freeze.
Import ListNotations.
Open Scope Z_scope.

Lemma andthen_call {St Y R V} (f : St -> cres V) (bind : V -> St -> St) (k : M St Y R) s :
  andthen (call_ f bind) k s = match f s with CFuel => Fuel | CRaised => Raised | COk v => k (bind v s) end.
Proof. unfold andthen, call_. destruct (f s); try reflexivity. apply prepend_nil. Qed.

Section CodeIsModel.
  Context {T : Type} (OP : ops T) (W : world T) (wrap360 : T -> T).

  (* ---------------------------------------------------------------- _extract_lons_lats *)
  Lemma extract_code l : value_of (imp_extract_lons_lats W l) = COk (extract_model W l).
  Proof.
    destruct l as [a b|g]; [reflexivity|].
    unfold imp_extract_lons_lats, extract_model, try_, andthen, check, assign, ret, prepend, value_of, ll_has_bbox, ll_bbox, ll_get, ll_is_obj, ll_is_pair.
    cbn. destruct (w_bbox W g) as [[a b]|] eqn:E; cbn; rewrite ?E; cbn; [reflexivity|].
    destruct (w_get_lonlats W g); reflexivity.
  Qed.

  (* ---------------------------------------------------------------- _get_proj_dict: a new dict, self untouched *)
  Lemma get_proj_dict_code o :
    exists st, imp_get_proj_dict W o = Ret [] st (get_pd W o) /\ imp_get_proj_dict_self W st = o.
  Proof.
    unfold imp_get_proj_dict, get_pd, try_, andthen, check, assign, ret, prepend. cbn.
    destruct (w_parse W (o_projection W o)) eqn:E; cbn; rewrite ?E; cbn; eexists; split; reflexivity.
  Qed.
  Lemma get_proj_dict_value o : value_of (imp_get_proj_dict W o) = COk (get_pd W o).
  Proof. destruct (get_proj_dict_code o) as (st & E & _). rewrite E. reflexivity. Qed.

  (* ---------------------------------------------------------------- _compute_bound_centers *)
  Lemma unzip_clean (pts : list (T * T)) :
    map (clean OP) (fst (unzip pts)) = map fst (map (clean_xy OP) pts) /\
    map (clean OP) (snd (unzip pts)) = map snd (map (clean_xy OP) pts).
  Proof. unfold unzip; cbn [fst snd]. rewrite !map_map. split; apply map_ext; intros p; reflexivity. Qed.

  Local Arguments andthen : simpl never.
  Local Arguments assign : simpl never.
  Local Arguments ite : simpl never.
  Local Arguments ret : simpl never.
  Local Arguments skip : simpl never.
  Local Arguments check : simpl never.
  Local Arguments call_ : simpl never.
  Local Arguments value_of : simpl never.
  Local Arguments bound_centers : simpl never.
  Local Arguments new_x_corners : simpl never.
  Local Arguments nanmin : simpl never.
  Local Arguments nanmax : simpl never.
  Local Arguments passes_antimeridian : simpl never.
  Local Arguments y_is_pole : simpl never.
  Local Arguments compute_domain : simpl never.
  Local Arguments clean : simpl never.

  Ltac istep := rewrite ?seq_assoc;
    first [rewrite andthen_assign | rewrite andthen_skip | rewrite andthen_call | rewrite andthen_check | rewrite andthen_ite];
    cbv beta; cbn.

  Lemma ret_value {St Y R} (f : St -> R) (s : St) : value_of (ret f s : res St Y R) = COk (f s).
  Proof. reflexivity. Qed.
  Lemma andthen_ret_value {St Y R} (f : St -> R) (k : M St Y R) (s : St) : value_of (andthen (ret f) k s) = COk (f s).
  Proof. reflexivity. Qed.

  Lemma bound_centers_value o d l mode :
    value_of (imp_bound_centers OP W wrap360 o d l mode) = bc_model OP W wrap360 d l mode.
  Proof.
    unfold imp_bound_centers, bc_model. istep. rewrite extract_code.
    destruct (extract_model W l) as [lons lats]. cbn.
    istep. destruct (w_parse_pd W d) as [c|] eqn:EP; cbn; [|reflexivity].
    do 10 istep. rewrite ?EP. cbn. unfold bound_centers. rewrite gen_am_test_char.
    destruct (map_clean_xy OP (w_project W c lons lats)) as [E1 E2].
    destruct (unzip_clean (w_project W c lons lats)) as [U1 U2]. cbn [unzip fst snd] in U1, U2.
    rewrite ?U1, ?U2, ?E1, ?E2. clear U1 U2 E1 E2.
    set (xs := map (fun p => clean OP (fst p)) (w_project W c lons lats)).
    set (ys := map (fun p => clean OP (snd p)) (w_project W c lons lats)).
    do 2 istep. rewrite ?seq_assoc, andthen_ite. cbn.
    destruct (w_is_geographic W c && passes_antimeridian OP (nanmin OP xs) (nanmax OP xs) && negb (y_is_pole OP (nanmin OP ys) (nanmax OP ys))) eqn:C.
    - istep. unfold nxc_opt. rewrite new_x_corners_char.
      destruct mode; cbn; rewrite ?seq_assoc, ?andthen_ite; cbn; repeat istep; reflexivity.
    - istep. reflexivity.
  Qed.

  (* ---------------------------------------------------------------- freeze *)
  Local Arguments shape_or_none : simpl never.
  Local Arguments must_compute : simpl never.
  Local Arguments cd_imp : simpl never.
  Local Arguments cd_val : simpl never.
  Local Arguments explicit_area : simpl never.
  Local Arguments get_pd : simpl never.
  Local Arguments bc_model : simpl never.
  Local Arguments ll_optimal : simpl never.
  Local Arguments ll_optimal_ok : simpl never.
  Local Arguments res_or : simpl never.

  (* `not area_extent or not width or not height` is False exactly when the model keeps the explicit extent and size *)
  Lemma must_compute_explicit (o : dyn_obj W) fshape :
    let '(h, w) := eff_hw (dyn_of W o) fshape in
    if must_compute (o_extent W o) w h then explicit_area (dyn_of W o) fshape = None
    else exists a, explicit_area (dyn_of W o) fshape = Some a /\ w = Some (width a) /\ h = Some (height a) /\
                   o_extent W o = Some (xmin a, ymin a, xmax a, ymax a).
  Proof.
    unfold explicit_area, must_compute. destruct (eff_hw (dyn_of W o) fshape) as [h w]. cbn [dyn_of d_extent].
    destruct (o_extent W o) as [[[[x0 y0] x1] y1]|]; cbn [is_some andb negb]; [|reflexivity].
    destruct w as [w|], h as [h|]; cbn; try reflexivity;
      repeat (match goal with |- context [(?x =? 0)] => destruct (x =? 0) end; cbn); try reflexivity;
      eexists; repeat split; reflexivity.
  Qed.

  (* the outcome of the generated freeze: the model's value, and self as it was *)
  Definition freeze_outcome (o : dyn_obj W) (r : res (imp_freeze_st W) Empty_set (fz_out W)) (m : cres (fz_out W)) : Prop :=
    match r with
    | Ret _ st v => m = COk v /\ imp_freeze_self W st = o
    | Raised => m = CRaised
    | _ => False
    end.

  Lemma bc_model_nofuel d l mode : bc_model OP W wrap360 d l mode <> CFuel.
  Proof.
    unfold bc_model. destruct (w_parse_pd W d); [|discriminate]. destruct (extract_model W l).
    destruct (bound_centers OP wrap360 _ mode _) as [[[pm xc] y0] y1]. discriminate.
  Qed.

  Lemma freeze_code o ll fres fshape pinfo mode :
    freeze_outcome o (imp_freeze OP W wrap360 o ll fres fshape pinfo mode) (freeze_obj OP W wrap360 o ll fres fshape pinfo mode).
  Proof.
    unfold imp_freeze, freeze_obj, freeze_outcome. istep. rewrite get_proj_dict_value. cbv beta. cbn. istep.
    pose proof (must_compute_explicit o fshape) as MC.
    destruct pinfo as [info|]; cbn; repeat istep;
      (destruct (o_optimize W o) eqn:EO;
       [ destruct (ll_optimal_ok W ll _ _) eqn:EOK; [rewrite andthen_ret; split; reflexivity | reflexivity] | ]);
      unfold res_or; destruct (is_rnone fres) eqn:ER; destruct fshape as [[oh ow]|];
      cbn [eff_hw dyn_of d_height d_width d_extent o_shape fst snd] in MC |- *;
      (match type of MC with context [must_compute ?e ?w ?h] => destruct (must_compute e w h) eqn:EMC end;
       [ rewrite MC; destruct ll as [l|]; [|reflexivity]; rewrite bound_centers_value;
         match goal with |- context [bc_model OP W wrap360 ?d l mode] => pose proof (bc_model_nofuel d l mode) as NF';
                         destruct (bc_model OP W wrap360 d l mode) as [| |[p1 c]] eqn:EB end;
         [contradiction | reflexivity | ];
         repeat istep; destruct (w_parse W p1) as [c1|] eqn:EPp; cbn; [|reflexivity];
         repeat istep; unfold o_shape;
         match goal with |- context [cd_imp OP W ?a ?b ?c ?d] => destruct (cd_imp OP W a b c d) as [[[e w] h]|] eqn:ECD end;
         cbn; [|reflexivity]; unfold cd_val; rewrite ?ECD; cbn; repeat istep; cbn; split; reflexivity
       | destruct MC as (a & -> & Ew & Eh & Ee); cbn; rewrite ?Ew, ?Eh, ?Ee; cbn; repeat istep; cbn; split; reflexivity ]).
  Qed.

  (* ---------------------------------------------------------------- histories of freezes on ONE object *)
  Record fcall := mk_fcall { c_ll : option (lonslats_in W); c_res : resarg T; c_shape : option (option Z * option Z);
                             c_info : option (pdict W); c_mode : amode }.
  (* run the GENERATED method call after call, handing each call the self the previous one left behind (after a call that
     raised the object is taken as it was: the generated body contains no store to self at all) *)
  Fixpoint imp_history (o : dyn_obj W) (calls : list fcall) : option (list (cres (fz_out W))) :=
    match calls with
    | [] => Some []
    | c :: r =>
        match imp_freeze OP W wrap360 o (c_ll c) (c_res c) (c_shape c) (c_info c) (c_mode c) with
        | Ret _ st v => option_map (cons (COk v)) (imp_history (imp_freeze_self W st) r)
        | Raised => option_map (cons CRaised) (imp_history o r)
        | _ => None
        end
    end.
  Definition fresh_freeze (o : dyn_obj W) (c : fcall) : cres (fz_out W) :=
    freeze_obj OP W wrap360 o (c_ll c) (c_res c) (c_shape c) (c_info c) (c_mode c).

  Theorem history_independent o calls : imp_history o calls = Some (map (fresh_freeze o) calls).
  Proof.
    induction calls as [|c calls IH]; [reflexivity|]. cbn [imp_history map].
    pose proof (freeze_code o (c_ll c) (c_res c) (c_shape c) (c_info c) (c_mode c)) as H. unfold freeze_outcome in H.
    destruct (imp_freeze OP W wrap360 o (c_ll c) (c_res c) (c_shape c) (c_info c) (c_mode c)) as [| |ys st|ys st v]; try contradiction.
    - rewrite IH. unfold fresh_freeze at 2. rewrite H. reflexivity.
    - destruct H as [Hv Hs]. rewrite Hs, IH. unfold fresh_freeze at 2. rewrite Hv. reflexivity.
  Qed.

  (* ---------------------------------------------------------------- the object-level model is the hand model of Model/Dynamic.v *)
  Lemma res_or_eff (o : dyn_obj W) fres : init_res (o_resolution W o) = o_resolution W o ->
    res_or fres (o_resolution W o) = eff_res (dyn_of W o) fres.
  Proof. intros E. unfold res_or, eff_res. cbn [dyn_of d_res]. rewrite E. destruct fres; reflexivity. Qed.
  Lemma shape_zz_eff (o : dyn_obj W) fshape :
    shape_zz (shape_or_none (Some (eff_hw (dyn_of W o) fshape))) = eff_shape (dyn_of W o) fshape.
  Proof. unfold eff_shape. destruct (eff_hw (dyn_of W o) fshape) as [[h|] [w|]]; reflexivity. Qed.

  Theorem freeze_obj_is_freeze o l fres fshape pinfo mode p w h x0 y0 x1 y1 :
    o_optimize W o = false -> init_res (o_resolution W o) = o_resolution W o ->
    freeze_obj OP W wrap360 o (Some l) fres fshape pinfo mode = COk (FzArea W p w h (x0, y0, x1, y1)) ->
    let d := match pinfo with Some i => w_update W (get_pd W o) i | None => get_pd W o end in
    match explicit_area (dyn_of W o) fshape with
    | Some a => a = mk_area x0 y0 x1 y1 w h
    | None => exists c pm, w_parse_pd W d = Some c /\
        freeze OP wrap360 (dyn_of W o) fres fshape (w_is_geographic W c) mode (w_aou W p)
               (w_project W c (fst (extract_model W l)) (snd (extract_model W l)))
          = Some (mk_frozen (mk_area x0 y0 x1 y1 w h) pm)
    end.
  Proof.
    intros EO ER. unfold freeze_obj, freeze. rewrite EO.
    destruct (explicit_area (dyn_of W o) fshape) as [a|] eqn:EX.
    - intros I; inversion I; subst. destruct a; reflexivity.
    - cbv zeta. unfold bc_model.
      destruct (w_parse_pd W _) as [c|] eqn:EP; [|discriminate].
      destruct (extract_model W l) as [lons lats]. cbn [fst snd].
      destruct (bound_centers OP wrap360 (w_is_geographic W c) mode (w_project W c lons lats)) as [[[pm xc] yy0] yy1] eqn:EB.
      destruct (w_parse W _) as [c1|]; [|discriminate].
      unfold cd_imp. rewrite res_or_eff, shape_zz_eff by assumption.
      assert (corners_xc (match xc with Some (a, _) => Some a | None => None end, yy0,
                          match xc with Some (_, b) => Some b | None => None end, yy1) = xc) as -> by (destruct xc as [[a b]|]; reflexivity).
      destruct (compute_domain OP xc yy0 yy1 _ _ _) as [[[[[[e0 e1] e2] e3] w'] h']|] eqn:ECD; [|discriminate].
      intros I; inversion I; subst. exists c, pm. split; [reflexivity|]. rewrite EB, ECD. reflexivity.
  Qed.
End CodeIsModel.

(* ------------------------------------------------------------------ over the reals: what the generated freeze returns
   contains every valid projected position (composition with C14_freeze_contains_points) *)
Section ObjectContains.
  Context (W : world R).
  Open Scope R_scope.

  Theorem object_freeze_contains (o : dyn_obj W) l fres fshape pinfo mode p w h x0 y0 x1 y1 :
    o_optimize W o = false -> init_res (o_resolution W o) = o_resolution W o ->
    explicit_area (dyn_of W o) fshape = None ->
    freeze_obj RO W wrapR o (Some l) fres fshape pinfo mode = COk (FzArea W p w h (x0, y0, x1, y1)) ->
    let d := match pinfo with Some i => w_update W (get_pd W o) i | None => get_pd W o end in
    exists c, w_parse_pd W d = Some c /\
      let pts := w_project W c (fst (extract_model W l)) (snd (extract_model W l)) in
      let geo := w_is_geographic W c in
      let a := mk_area x0 y0 x1 y1 w h in
      (valid_pts pts -> res_pos (eff_res (dyn_of W o) fres) -> shape_pos (eff_shape (dyn_of W o) fshape) ->
       aou_west (w_aou W p) < aou_east (w_aou W p) ->
       (geo = true -> mode = MGlobal -> Forall (fun q => aou_west (w_aou W p) <= fst q <= aou_east (w_aou W p)) pts) ->
       pos_area a /\
       forall q, In q pts -> inside a (frozen_x geo mode pts (fst q)) (snd q) /\
                             (~ (geo = true /\ mode = MGlobal) -> strictly_inside a (frozen_x geo mode pts (fst q)) (snd q))).
  Proof.
    intros EO ER EX E. pose proof (freeze_obj_is_freeze RO W wrapR o l fres fshape pinfo mode p w h x0 y0 x1 y1 EO ER E) as H.
    cbv zeta in H. rewrite EX in H. destruct H as (c & pm & EP & F). exists c. split; [exact EP|].
    intros pts geo a Hv Hr Hs HA HG.
    destruct (freeze_contains_points (dyn_of W o) fres fshape geo mode (w_aou W p) pts _ EX Hv Hr Hs HA HG F) as (Ha & _ & HP).
    split; [exact Ha|]. intros q Hq. destruct (HP q Hq) as (x' & k & _ & _ & Hin & Hst & ->). split; assumption.
  Qed.
End ObjectContains.
