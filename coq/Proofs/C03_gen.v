(* C03: the body of the boundary loop of data_reduce._get_valid_index, regenerated from /repo on every run
   (Gen/GenC03.v), is the step of the model's winding-sum loop (Model/ReduceMask.side_loop with the `if prev:` test). *)
From Coq Require Import ZArith List Bool.
From PR Require Import Base.Num Model.ReduceMask Gen.GenC03.
Import ListNotations.
Open Scope Z_scope.

Section Gen.
  Context {T : Type} (OP : ops T).

  Lemma gen_boundary_step_char prev lon angle_sum side_sum :
    gen_boundary_step OP prev lon angle_sum side_sum
    = ((if truthy OP prev then add OP angle_sum (wrap_delta OP lon prev) else angle_sum),
       (if truthy OP prev then add OP side_sum (wrap_delta OP lon prev) else side_sum), lon).
  Proof.
    unfold gen_boundary_step, truthy, wrap_delta, cz.
    destruct (eqb OP prev (ofZ OP 0)); cbn [negb]; [reflexivity|].
    destruct (ltb OP (ofZ OP 180) (absf OP (sub OP lon prev))); reflexivity.
  Qed.

  (* the regenerated `covers no poles` branch, for one point, is the model's window test in class 2 with the
     snapshot's two longitude modes (0: plain interval, 1: date-line union), selected by lons_side2.min() > lons_side4.max() *)
  Lemma gen_no_pole_mask_char (pymod : T -> T -> T) lon lat lo hi a b s2min s4max :
    gen_no_pole_mask OP lon lat lo hi a b s2min s4max
    = keep OP pymod (mk_win 2 lo hi (if ltb OP s4max s2min then 0 else 1) a b) (lon, lat).
  Proof.
    unfold gen_no_pole_mask, keep, in_lat, in_lon, cz. cbn [cls lonmode latlo lathi wa wb fst snd].
    destruct (ltb OP s4max s2min); reflexivity.
  Qed.

  (* the loop of the model, with the generated body substituted for its step, computes the same angle sum *)
  Fixpoint gen_side_sum (side : list T) (prev : option T) (s : T) : T :=
    match side with
    | [] => s
    | lon :: r =>
        match prev with
        | Some p => let '(s', _, p') := gen_boundary_step OP p lon s s in gen_side_sum r (Some p') s'
        | None => gen_side_sum r (Some lon) s
        end
    end.

  Lemma side_loop_generated side : forall prev s mn mx,
    fst (fst (side_loop OP (truthy OP) side prev (s, mn, mx))) = gen_side_sum side prev s.
  Proof.
    induction side as [|lon r IH]; intros prev s mn mx; [reflexivity|].
    cbn [side_loop gen_side_sum]. destruct prev as [p|]; [|apply IH].
    rewrite gen_boundary_step_char. destruct (truthy OP p); apply IH.
  Qed.

  Lemma side_loop_fst side prev st :
    fst (fst (side_loop OP (truthy OP) side prev st)) = gen_side_sum side prev (fst (fst st)).
  Proof. destruct st as [[s mn] mx]. apply side_loop_generated. Qed.

  (* the winding sum of the snapshot's function = the generated body folded over the four sides *)
  Lemma angle_sum_generated (s : sides) :
    fst (fst (angle_loop OP (truthy OP) s))
    = gen_side_sum (lo4 s) None (gen_side_sum (lo3 s) None (gen_side_sum (lo2 s) None (gen_side_sum (lo1 s) None (cz OP 0)))).
  Proof. unfold angle_loop. cbn [fold_left]. rewrite !side_loop_fst. reflexivity. Qed.
End Gen.
