(* C16 - the index tables np.linspace(0, n-1, m, dtype=int) / np.linspace(n-1, 0, m, dtype=int):
   the real-arithmetic instance of the model is integer division; range, end points, monotonicity,
   strictness iff m <= n; the binary64 instance equals the integer table for all n, m <= 30. *)
From Coq Require Import Reals ZArith List Lia Lra Bool Arith.
From Flocq Require Import Raux.
From PR Require Import Base.Num Base.RNum Base.F64 Base.ListX Model.Boundary.
Import ListNotations.
Open Scope Z_scope.

(* ------------------------------------------------------------------ real instance = integer division *)
Lemma IZR_sub0 z : (IZR z - IZR 0 = IZR z)%R.
Proof. simpl. lra. Qed.

Lemma lin_val_RO_asc (n : Z) (m i : nat) : 1 <= n -> (2 <= m)%nat -> (i < m)%nat ->
  lin_val RO 0 (n - 1) m i = idx n m i.
Proof.
  intros Hn Hm Hi. unfold lin_val, idx. cbn -[Z.of_nat Z.sub Z.mul Z.div Z.ltb Z.eqb].
  assert (Hd : 0 < Z.of_nat m - 1) by lia.
  destruct (Z.ltb_spec 1 (Z.of_nat m)); [|lia]. cbn [andb].
  destruct (Z.eqb_spec (Z.of_nat i) (Z.of_nat m - 1)) as [E|E].
  - rewrite E. rewrite Z.mul_comm, Z.div_mul by lia. reflexivity.
  - destruct (Z.ltb_spec 0 (Z.of_nat m - 1)); [|lia].
    assert (Hdr : IZR (Z.of_nat m - 1) <> 0%R) by (apply not_0_IZR; lia).
    unfold Reqb. destruct (Req_EM_T _ _) as [Hz|Hz].
    + (* step = 0: n = 1 *)
      assert (Hn1 : n - 1 = 0).
      { apply eq_IZR. unfold Rdiv in Hz. simpl in Hz.
        apply Rmult_integral in Hz. destruct Hz as [Hz|Hz].
        - simpl. lra.
        - exfalso. apply (Rinv_neq_0_compat _ Hdr). exact Hz. }
      rewrite Hn1. rewrite Z.mul_0_r, Z.div_0_l by lia.
      replace (IZR (Z.of_nat i) / IZR (Z.of_nat m - 1) * (IZR 0 - IZR 0) + IZR 0)%R with (IZR 0) by (simpl; field; exact Hdr).
      apply Zfloor_IZR.
    + replace (IZR (Z.of_nat i) * ((IZR (n - 1) - IZR 0) / IZR (Z.of_nat m - 1)) + IZR 0)%R
        with (IZR (Z.of_nat i * (n - 1)) / IZR (Z.of_nat m - 1))%R
        by (rewrite mult_IZR; simpl; field; exact Hdr).
      apply Zfloor_div. lia.
Qed.

Lemma lin_val_RO_desc (n : Z) (m i : nat) : 1 <= n -> (2 <= m)%nat -> (i < m)%nat ->
  lin_val RO (n - 1) 0 m i = idx n m (m - 1 - i).
Proof.
  intros Hn Hm Hi. unfold lin_val, idx. cbn -[Z.of_nat Z.sub Z.mul Z.div Z.ltb Z.eqb Nat.sub].
  assert (Hd : 0 < Z.of_nat m - 1) by lia.
  destruct (Z.ltb_spec 1 (Z.of_nat m)); [|lia]. cbn [andb].
  destruct (Z.eqb_spec (Z.of_nat i) (Z.of_nat m - 1)) as [E|E].
  - replace (m - 1 - i)%nat with 0%nat by lia. rewrite Z.mul_0_l, Z.div_0_l by lia. reflexivity.
  - destruct (Z.ltb_spec 0 (Z.of_nat m - 1)); [|lia].
    assert (Hdr : IZR (Z.of_nat m - 1) <> 0%R) by (apply not_0_IZR; lia).
    assert (Hk : Z.of_nat (m - 1 - i) = Z.of_nat m - 1 - Z.of_nat i) by lia.
    unfold Reqb. destruct (Req_EM_T _ _) as [Hz|Hz].
    + assert (Hn1 : n - 1 = 0).
      { apply eq_IZR. unfold Rdiv in Hz. simpl in Hz.
        apply Rmult_integral in Hz. destruct Hz as [Hz|Hz].
        - simpl. lra.
        - exfalso. apply (Rinv_neq_0_compat _ Hdr). exact Hz. }
      rewrite Hn1. rewrite Z.mul_0_r, Z.div_0_l by lia.
      replace (IZR (Z.of_nat i) / IZR (Z.of_nat m - 1) * (IZR 0 - IZR 0) + IZR 0)%R with (IZR 0) by (simpl; field; exact Hdr).
      apply Zfloor_IZR.
    + rewrite Hk.
      replace (IZR (Z.of_nat i) * ((IZR 0 - IZR (n - 1)) / IZR (Z.of_nat m - 1)) + IZR (n - 1))%R
        with (IZR ((Z.of_nat m - 1 - Z.of_nat i) * (n - 1)) / IZR (Z.of_nat m - 1))%R.
      * apply Zfloor_div. lia.
      * rewrite mult_IZR, !minus_IZR. simpl. field. rewrite minus_IZR in Hdr. simpl in Hdr. exact Hdr.
Qed.

Lemma map_ext_seq {A} (f g : nat -> A) (s m : nat) :
  (forall i, (s <= i < s + m)%nat -> f i = g i) -> map f (seq s m) = map g (seq s m).
Proof.
  intros H. apply map_ext_in. intros i Hi. apply in_seq in Hi. apply H. lia.
Qed.

Lemma linspace_idx_RO n m : 1 <= n -> (2 <= m)%nat -> linspace_idx RO n m = idx_list n m.
Proof.
  intros Hn Hm. unfold linspace_idx, linspace_int, idx_list. apply map_ext_seq.
  intros i Hi. apply lin_val_RO_asc; lia.
Qed.

Lemma linspace_idx_desc_RO n m : 1 <= n -> (2 <= m)%nat -> linspace_idx_desc RO n m = idx_list_desc n m.
Proof.
  intros Hn Hm. unfold linspace_idx_desc, linspace_int, idx_list_desc. apply map_ext_seq.
  intros i Hi. apply lin_val_RO_desc; lia.
Qed.

(* ------------------------------------------------------------------ the descending table is the reversed ascending one *)
Lemma rev_seq_map {A} (f : nat -> A) (m : nat) :
  rev (map f (seq 0 m)) = map (fun i => f (m - 1 - i)%nat) (seq 0 m).
Proof.
  induction m as [|m IH].
  - reflexivity.
  - rewrite seq_S at 1. rewrite map_app, rev_app_distr. cbn [map rev app plus].
    rewrite IH. cbn [seq map]. f_equal.
    + f_equal. lia.
    + rewrite <- seq_shift, map_map. apply map_ext_seq. intros i Hi. f_equal. lia.
Qed.

Lemma idx_list_desc_rev n m : idx_list_desc n m = rev (idx_list n m).
Proof. unfold idx_list_desc, idx_list. symmetry. apply rev_seq_map. Qed.

(* ------------------------------------------------------------------ the specification of the table *)
Lemma idx_list_length n m : length (idx_list n m) = m.
Proof. unfold idx_list. rewrite map_length, seq_length. reflexivity. Qed.

Lemma idx_list_nth n m i : (i < m)%nat -> nth i (idx_list n m) 0 = idx n m i.
Proof.
  intros Hi. unfold idx_list.
  rewrite (nth_indep _ 0 (idx n m 0)) by (rewrite map_length, seq_length; exact Hi).
  rewrite map_nth, seq_nth by exact Hi. reflexivity.
Qed.

Lemma idx_range n m i : 1 <= n -> (2 <= m)%nat -> (i < m)%nat -> 0 <= idx n m i <= n - 1.
Proof.
  intros Hn Hm Hi. unfold idx. split.
  - apply Z.div_pos; nia.
  - apply Z.div_le_upper_bound; [lia|]. nia.
Qed.

Lemma idx_first n m : (2 <= m)%nat -> idx n m 0 = 0.
Proof. intros. unfold idx. change (Z.of_nat 0) with 0. rewrite Z.mul_0_l. apply Z.div_0_l. lia. Qed.

Lemma idx_last n m : (2 <= m)%nat -> idx n m (m - 1) = n - 1.
Proof.
  intros. unfold idx. replace (Z.of_nat (m - 1)) with (Z.of_nat m - 1) by lia.
  rewrite Z.mul_comm. apply Z.div_mul. lia.
Qed.

Lemma idx_mono n m i j : 1 <= n -> (2 <= m)%nat -> (i <= j)%nat -> idx n m i <= idx n m j.
Proof. intros Hn Hm Hij. unfold idx. apply Z.div_le_mono; nia. Qed.

(* consecutive entries differ by at least one when m <= n ... *)
Lemma idx_step_strict n m i : (2 <= m)%nat -> Z.of_nat m <= n -> idx n m i < idx n m (S i).
Proof.
  intros Hm Hmn. unfold idx.
  replace (Z.of_nat (S i) * (n - 1)) with (Z.of_nat i * (n - 1) + (n - 1)) by lia.
  set (d := Z.of_nat m - 1). set (a := Z.of_nat i * (n - 1)).
  assert (Hd : 0 < d) by (unfold d; lia).
  assert (a / d + 1 <= (a + (n - 1)) / d); [|lia].
  replace (a / d + 1) with ((a + 1 * d) / d) by (rewrite Z.div_add by lia; reflexivity).
  apply Z.div_le_mono; unfold d; lia.
Qed.

Lemma idx_strict n m i j : (2 <= m)%nat -> Z.of_nat m <= n -> (i < j)%nat -> idx n m i < idx n m j.
Proof.
  intros Hm Hmn Hij. induction Hij as [|j Hij IH].
  - apply idx_step_strict; assumption.
  - pose proof (idx_step_strict n m j Hm Hmn). lia.
Qed.

(* ... and m entries in 0..n-1 with m > n cannot be pairwise distinct along a monotone table *)
Lemma bounded_search (P : nat -> Prop) (dec : forall i, {P i} + {~ P i}) (m : nat) :
  (exists i, (S i < m)%nat /\ P i) \/ (forall i, (S i < m)%nat -> ~ P i).
Proof.
  induction m as [|m IH].
  - right. intros i Hi. lia.
  - destruct IH as [[i [Hi HP]]|IH].
    + left. exists i. split; [lia|exact HP].
    + destruct m as [|m']; [right; intros i Hi; lia|].
      destruct (dec m') as [HP|HP].
      * left. exists m'. split; [lia|exact HP].
      * right. intros i Hi. destruct (Nat.eq_dec i m') as [->|Hne]; [exact HP|apply IH; lia].
Qed.

Lemma idx_repeat n m : 1 <= n -> (2 <= m)%nat -> n < Z.of_nat m ->
  exists i, (S i < m)%nat /\ idx n m i = idx n m (S i).
Proof.
  intros Hn Hm Hnm.
  (* otherwise idx i >= i for every i by induction, so idx (m-1) >= m-1 > n-1 *)
  destruct (bounded_search (fun i => idx n m i = idx n m (S i)) (fun i => Z.eq_dec _ _) m) as [H|H]; [exact H|].
  exfalso.
  assert (Hge : forall i, (i < m)%nat -> Z.of_nat i <= idx n m i).
  { induction i as [|i IH]; intros Hi.
    - rewrite idx_first by lia. lia.
    - pose proof (IH ltac:(lia)) as IH'.
      pose proof (idx_mono n m i (S i) Hn Hm ltac:(lia)).
      assert (idx n m i <> idx n m (S i)) by (apply H; lia). lia. }
  pose proof (Hge (m - 1)%nat ltac:(lia)) as Hl. rewrite idx_last in Hl by lia. lia.
Qed.

(* ------------------------------------------------------------------ the whole specification at once *)
Definition strictly_increasing (l : list Z) : Prop := forall i j, (i < j < length l)%nat -> nth i l 0 < nth j l 0.
Definition non_decreasing (l : list Z) : Prop := forall i j, (i <= j < length l)%nat -> nth i l 0 <= nth j l 0.

Lemma idx_list_spec n m : 1 <= n -> (2 <= m)%nat ->
  length (idx_list n m) = m
  /\ (forall i, (i < m)%nat -> 0 <= nth i (idx_list n m) 0 <= n - 1)
  /\ nth 0 (idx_list n m) 0 = 0 /\ nth (m - 1) (idx_list n m) 0 = n - 1
  /\ non_decreasing (idx_list n m)
  /\ (strictly_increasing (idx_list n m) <-> Z.of_nat m <= n).
Proof.
  intros Hn Hm. split; [apply idx_list_length|]. split; [|split; [|split; [|split]]].
  - intros i Hi. rewrite idx_list_nth by exact Hi. apply idx_range; assumption.
  - rewrite idx_list_nth by lia. apply idx_first. exact Hm.
  - rewrite idx_list_nth by lia. apply idx_last. exact Hm.
  - intros i j Hij. rewrite idx_list_length in Hij. rewrite !idx_list_nth by lia. apply idx_mono; try assumption. lia.
  - split.
    + intros Hs. destruct (Z_le_gt_dec (Z.of_nat m) n) as [H|H]; [exact H|exfalso].
      destruct (idx_repeat n m Hn Hm ltac:(lia)) as [i [Hi He]].
      specialize (Hs i (S i)). rewrite idx_list_length in Hs. specialize (Hs ltac:(lia)).
      rewrite !idx_list_nth in Hs by lia. lia.
    + intros Hmn i j Hij. rewrite idx_list_length in Hij. rewrite !idx_list_nth by lia.
      apply idx_strict; try assumption. lia.
Qed.
