(* C17 — the translated source (coq/Gen/GenC17.v, regenerated from /repo on every run) IS the model:
   one entry of alpha, the final reduction, and Arc._convert_to_angle; arctan2 over the reals has range (-pi, pi]. *)
From Coq Require Import Reals ZArith List Bool Lra Lia.
From PR Require Import Base.Num Base.RNum Model.SphPoly Model.SphTrigR Gen.GenC17 Proofs.C17_area.
Import ListNotations.
Open Scope R_scope.

Section Char.
  Context {T : Type} (OP : ops T).
  Variables (sin cos : T -> T) (arctan2 : T -> T -> T) (pi : T).
  Let az := az_lonlat OP sin cos arctan2.

  (* the body of SphPolygon.area, seen for the window (a, p, b), is the model's alpha with az := the arctan2 expression *)
  Lemma gen_area_alpha_is_alpha a p b :
    gen_area_alpha OP sin cos arctan2 pi (snd a) (snd p) (snd b) (fst a) (fst p) (fst b) = alpha OP (T * T) az pi a p b.
  Proof. reflexivity. Qed.

  (* the return statement, with sum(alpha) and len(self.lon) of the model, is the model's area *)
  Lemma gen_area_total_is_area (vs : list (T * T)) (r la lp lb oa op ob : T) :
    gen_area_total OP sin cos arctan2 pi la lp lb oa op ob (fsum OP (alphas OP (T * T) az pi vs)) (Z.of_nat (length vs)) r
    = area OP (T * T) az pi vs r.
  Proof. reflexivity. Qed.
End Char.

(* ---------- arctan2 over the reals *)
Lemma atan_nonpos x : x <= 0 -> atan x <= 0.
Proof. intros [H| ->]; [left; rewrite <- atan_0; now apply atan_increasing | rewrite atan_0; lra]. Qed.
Lemma atan_pos x : 0 < x -> 0 < atan x.
Proof. intros H. rewrite <- atan_0. now apply atan_increasing. Qed.

Lemma atan2R_range y x : - PI < atan2R y x <= PI.
Proof.
  pose proof PI_RGT_0 as P. unfold atan2R.
  destruct (Rlt_dec 0 x) as [Hx|Hx].
  - pose proof (atan_bound (y / x)). lra.
  - destruct (Rlt_dec x 0) as [Hn|Hn].
    + pose proof (atan_bound (y / x)) as B. pose proof (Rinv_lt_0_compat x Hn) as I.
      destruct (Rle_dec 0 y) as [Hy|Hy].
      * assert (y / x <= 0) by (unfold Rdiv; nra). pose proof (atan_nonpos _ H). lra.
      * assert (0 < y / x) by (unfold Rdiv; nra). pose proof (atan_pos _ H). lra.
    + destruct (Rlt_dec 0 y); [lra|]. destruct (Rlt_dec y 0); lra.
Qed.

Lemma az_real_range : az_range (R * R) az_real.
Proof. intros x p. unfold az_real, az_lonlat, az_formula. apply atan2R_range. Qed.

(* ---------- Arc._convert_to_angle *)
Definition eps7 : R := 1 / 10000000.

Lemma convert_unsnapped val : -1 < val < 1 ->
  gen_convert_to_angle RO acos PI eps7 val false = acos val /\ 0 < acos val < PI.
Proof.
  intros H. split; [|now apply acos_bound_lt].
  unfold gen_convert_to_angle. cbn [ltb leb sub add neg ofZ absf RO].
  replace (IZR 0) with 0 by reflexivity. replace (IZR 1) with 1 by reflexivity.
  assert (E1 : Rleb 0 (val - 1) = false) by (apply Rleb_false; lra).
  assert (E2 : Rleb (val + 1) 0 = false) by (apply Rleb_false; lra).
  rewrite E1, E2, andb_false_r. reflexivity.
Qed.

Lemma convert_snapped_loses_sign : exists val, -1 < val < 1 /\ acos val <> 0 /\
  gen_convert_to_angle RO acos PI eps7 val true = 0.
Proof.
  exists (1 - eps7 / 2). unfold eps7. split; [lra|]. split.
  - assert (H : -1 < 1 - 1 / 10000000 / 2 < 1) by lra. pose proof (acos_bound_lt _ H). lra.
  - unfold gen_convert_to_angle. cbn [ltb leb sub add neg ofZ absf RO].
    replace (IZR 0) with 0 by reflexivity. replace (IZR 1) with 1 by reflexivity.
    assert (E : Rltb (Rabs (1 - 1 / 10000000 / 2 - 1)) (1 / 10000000) = true).
    { apply Rltb_true. rewrite Rabs_left; lra. }
    rewrite E. reflexivity.
Qed.
