(* C12 -- the memoised hash: invariant over every history of hash() / == / append / slice / copy calls. *)
From Coq Require Import ZArith Bool List Lia.
From PR Require Import Model.HashEq.
Import ListNotations.

Section MemoProofs.
  Variables (C D S : Type).
  Variable dig : C -> D.
  Variable app : C -> C -> C.
  Variable slc : C -> S -> C.
  Variable cpy : C -> C.

  Notation step := (step C D S dig app slc cpy).
  Notation run := (run C D S dig app slc cpy).
  Notation step_legacy := (step_legacy C D S dig app slc cpy).
  Notation memo_ok := (memo_ok C D dig).
  Notation hash_of := (hash_of C D dig).
  Notation do_hash := (do_hash C D dig).

  Lemma new_ok c : memo_ok (new_obj c).
  Proof. left. reflexivity. Qed.

  Lemma step_ok o p : memo_ok o -> memo_ok (step o p).
  Proof.
    intros Ho. destruct p; cbn; try (left; reflexivity); try exact Ho.
    unfold do_hash. destruct (memo o) eqn:E.
    - exact Ho.
    - right. reflexivity.
  Qed.

  (* after ANY sequence of calls the memo is empty or holds the digest of the CURRENT coordinates *)
  Theorem memo_invariant ops o : memo_ok o -> memo_ok (run ops o).
  Proof.
    unfold HashEq.run. revert o. induction ops as [|p ops IH]; intros o Ho; cbn; [exact Ho|].
    apply IH. apply step_ok. exact Ho.
  Qed.

  (* hence hash(obj) is the hash of a freshly built object with the current coordinates *)
  Lemma hash_of_ok o : memo_ok o -> hash_of o = dig (coords o).
  Proof. unfold HashEq.hash_of. intros [-> | ->]; reflexivity. Qed.

  Theorem hash_is_fresh ops c : hash_of (run ops (new_obj c)) = hash_of (new_obj (coords (run ops (new_obj c)))).
  Proof. rewrite hash_of_ok by (apply memo_invariant, new_ok). reflexivity. Qed.

  (* hash() and == calls can be inserted or removed anywhere in a history without changing the
     coordinates, hence without changing any later hash *)
  Definition mutating (p : op C S) : bool := match p with OHash | OEq _ => false | _ => true end.

  Lemma coords_step_pure o p : mutating p = false -> coords (step o p) = coords o.
  Proof. destruct p; cbn; try discriminate; intros _; [|reflexivity]. unfold HashEq.do_hash. destruct (memo o); reflexivity. Qed.

  Lemma coords_step_congr o o' p : coords o = coords o' -> coords (step o p) = coords (step o' p).
  Proof.
    intros E. destruct p; cbn; try (rewrite E; reflexivity); try exact E.
    unfold HashEq.do_hash. destruct (memo o), (memo o'); cbn; exact E.
  Qed.

  Lemma coords_run_filter ops o o' : coords o = coords o' -> coords (run ops o) = coords (run (filter mutating ops) o').
  Proof.
    unfold HashEq.run. revert o o'. induction ops as [|p ops IH]; intros o o' E; cbn; [exact E|].
    destruct (mutating p) eqn:Hm; cbn.
    - apply IH. apply coords_step_congr. exact E.
    - apply IH. rewrite coords_step_pure by exact Hm. exact E.
  Qed.

  Theorem hash_history_independent ops c :
    hash_of (run ops (new_obj c)) = dig (coords (run (filter mutating ops) (new_obj c))).
  Proof.
    rewrite hash_of_ok by (apply memo_invariant, new_ok). f_equal. apply coords_run_filter. reflexivity.
  Qed.

  (* the repair matters: with the append that kept the memo, hash(); append(); hash() returns the digest of
     the OLD coordinates whenever appending changes the digest *)
  Lemma legacy_append_stale c c' :
    dig (app c c') <> dig c ->
    let o := fold_left step_legacy [OHash; OAppend c'] (new_obj c) in
    hash_of o <> dig (coords o) /\ ~ memo_ok o.
  Proof.
    intros Hd. cbn. unfold HashEq.hash_of, HashEq.memo_ok. cbn. split.
    - intros E. apply Hd. symmetry. exact E.
    - intros [E | E]; [discriminate|]. injection E as E. apply Hd. symmetry. exact E.
  Qed.
End MemoProofs.
