(* C06 — corner choice, the parallelogram case, and one output pixel end to end. *)
From Coq Require Import Reals ZArith Bool Lra Lia Psatz List.
From PR Require Import Base.Num Base.RNum Model.Bilinear Model.BilinearRN Proofs.C06_real Proofs.C06_rn Proofs.C06_branches.
Import ListNotations.
Open Scope R_scope.

(* ---------- np.argmax over a boolean row: the first valid neighbour *)
Lemma first_valid_spec {T} (f : @nb T -> bool) l n : first_valid f l = Some n ->
  f n = true /\ exists l1 l2, l = l1 ++ n :: l2 /\ forall m, In m l1 -> f m = false.
Proof.
  induction l as [|a l IH]; cbn; [discriminate|]. destruct (f a) eqn:Ea.
  - intros H. injection H as <-. split; [exact Ea|]. exists [], l. split; [reflexivity|]. intros m [].
  - intros H. destruct (IH H) as (Hf & l1 & l2 & -> & Hl1). split; [exact Hf|].
    exists (a :: l1), l2. split; [reflexivity|]. intros m [<-|Hm]; [exact Ea|apply Hl1, Hm].
Qed.
Lemma first_valid_None {T} (f : @nb T -> bool) l : first_valid f l = None -> forall m, In m l -> f m = false.
Proof.
  induction l as [|a l IH]; cbn; [intros _ m []|]. destruct (f a) eqn:Ea; [discriminate|].
  intros H m [<-|Hm]; [exact Ea|apply IH; assumption].
Qed.

(* the quadrant tests over the reals *)
Lemma in_quadrant_RO q ox oy (n : R * R * Z) :
  in_quadrant RO q ox oy n = true <->
  match q with
  | UL => nb_x n < ox /\ oy < nb_y n
  | UR => ox < nb_x n /\ oy < nb_y n
  | LL => nb_x n < ox /\ nb_y n < oy
  | LR => ox < nb_x n /\ nb_y n < oy
  end.
Proof.
  destruct n as [[x y] i]. unfold in_quadrant. cbn [nb_x nb_y sub ltb ofZ RO].
  destruct q; rewrite andb_true_iff, !Rltb_true; lra.
Qed.

Definition nb_xy (n : R * R * Z) : R * R := (nb_x n, nb_y n).

Theorem found_corners_surround ox oy l c1 c2 c3 c4 : found_corners RO ox oy l = Some (c1, c2, c3, c4) ->
  surrounds (nb_xy c1) (nb_xy c2) (nb_xy c3) (nb_xy c4) ox oy /\
  (forall q c, In (q, c) [(UL, c1); (UR, c2); (LL, c3); (LR, c4)] ->
     exists l1 l2, l = l1 ++ c :: l2 /\ forall m, In m l1 -> in_quadrant RO q ox oy m = false).
Proof.
  unfold found_corners.
  destruct (first_valid (in_quadrant RO UL ox oy) l) as [a|] eqn:E1; [|discriminate].
  destruct (first_valid (in_quadrant RO UR ox oy) l) as [b|] eqn:E2; [|discriminate].
  destruct (first_valid (in_quadrant RO LL ox oy) l) as [c|] eqn:E3; [|discriminate].
  destruct (first_valid (in_quadrant RO LR ox oy) l) as [d|] eqn:E4; [|discriminate].
  intros H. injection H as <- <- <- <-.
  destruct (first_valid_spec _ _ _ E1) as (F1 & S1). destruct (first_valid_spec _ _ _ E2) as (F2 & S2).
  destruct (first_valid_spec _ _ _ E3) as (F3 & S3). destruct (first_valid_spec _ _ _ E4) as (F4 & S4).
  apply in_quadrant_RO in F1, F2, F3, F4. split.
  - unfold surrounds, nb_xy. cbn [fst snd]. tauto.
  - intros q c0 Hin. cbn in Hin.
    destruct Hin as [H|[H|[H|[H|[]]]]]; injection H as <- <-; assumption.
Qed.

(* ---------- the same choice seen through RN *)
Lemma in_quadrant_lift q ox oy n : in_quadrant RN q (Some ox) (Some oy) (lift_nb n) = in_quadrant RO q ox oy n.
Proof. destruct n as [[x y] i], q; reflexivity. Qed.
Lemma first_valid_lift q ox oy l :
  first_valid (in_quadrant RN q (Some ox) (Some oy)) (map lift_nb l) = option_map lift_nb (first_valid (in_quadrant RO q ox oy) l).
Proof.
  induction l as [|a l IH]; cbn [map first_valid]; [reflexivity|]. rewrite in_quadrant_lift.
  destruct (in_quadrant RO q ox oy a); [reflexivity|exact IH].
Qed.
Lemma four_corners_lift ox oy l c1 c2 c3 c4 : found_corners RO ox oy l = Some (c1, c2, c3, c4) ->
  four_corners RN (Some ox) (Some oy) (map lift_nb l) = (lift_nb c1, lift_nb c2, lift_nb c3, lift_nb c4).
Proof.
  unfold found_corners, four_corners, corner. rewrite !first_valid_lift.
  destruct (first_valid (in_quadrant RO UL ox oy) l); [|discriminate].
  destruct (first_valid (in_quadrant RO UR ox oy) l); [|discriminate].
  destruct (first_valid (in_quadrant RO LL ox oy) l); [|discriminate].
  destruct (first_valid (in_quadrant RO LR ox oy) l); [|discriminate].
  intros H. injection H as <- <- <- <-. reflexivity.
Qed.

(* ---------- _resample over RN *)
Lemma resample_RN d1 d2 d3 d4 s t :
  resample RN (Some d1) (Some d2) (Some d3) (Some d4) (Some s) (Some t) = Some (bilerp d1 d2 d3 d4 s t).
Proof. reflexivity. Qed.
Lemma resample_RN_inv d1 d2 d3 d4 s t v : resample RN d1 d2 d3 d4 s t = Some v ->
  exists e1 e2 e3 e4 s' t', d1 = Some e1 /\ d2 = Some e2 /\ d3 = Some e3 /\ d4 = Some e4 /\ s = Some s' /\ t = Some t'
    /\ v = bilerp e1 e2 e3 e4 s' t'.
Proof.
  destruct d1 as [e1|], d2 as [e2|], d3 as [e3|], d4 as [e4|], s as [s'|], t as [t'|]; cbn; try discriminate.
  intros H. injection H as <-. exists e1, e2, e3, e4, s', t'. repeat split; reflexivity.
Qed.

(* ---------- one output pixel *)
(* whatever the neighbours (NaN coordinates, missing corners, any branch): a produced value is a convex
   combination (weights from s, t in [0,1]) of the data at the four chosen corner indices *)
Theorem pixel_convex data l ox oy v : pixel RN data l ox oy = Some v ->
  let '(c1, c2, c3, c4) := four_corners RN ox oy l in
  exists d1 d2 d3 d4 s t,
    data (nb_i c1) = Some d1 /\ data (nb_i c2) = Some d2 /\ data (nb_i c3) = Some d3 /\ data (nb_i c4) = Some d4 /\
    in01 s /\ in01 t /\ v = bilerp d1 d2 d3 d4 s t.
Proof.
  unfold pixel. destruct (four_corners RN ox oy l) as [[[c1 c2] c3] c4].
  destruct (fractional_distances RN _ _ _ _ ox oy) as [t s] eqn:E. intros H.
  destruct (resample_RN_inv _ _ _ _ _ _ _ H) as (e1 & e2 & e3 & e4 & s' & t' & H1 & H2 & H3 & H4 & -> & -> & Hv).
  destruct (fractional_distances_RN_range _ _ _ _ _ _ _ _ E) as [Ht Hs].
  exists e1, e2, e3, e4, s', t'. tauto.
Qed.

(* with a neighbour in each quadrant ("k large enough to surround the target") and data that are an affine function
   of the target's projection coordinates, a value IS produced and it is the function at the output location *)
Theorem pixel_affine_exact l ox oy data c0 cx cy c1 c2 c3 c4 :
  found_corners RO ox oy l = Some (c1, c2, c3, c4) ->
  (forall n, In n l -> data (nb_i n) = c0 + cx * nb_x n + cy * nb_y n) ->
  pixel RN (fun i => Some (data i)) (map lift_nb l) (Some ox) (Some oy) = Some (c0 + cx * ox + cy * oy).
Proof.
  intros Hf Hd. destruct (found_corners_surround _ _ _ _ _ _ _ Hf) as [Hs Hin].
  assert (In1 : In c1 l) by (destruct (Hin UL c1) as (l1 & l2 & -> & _); [cbn; tauto|apply in_elt]).
  assert (In2 : In c2 l) by (destruct (Hin UR c2) as (l1 & l2 & -> & _); [cbn; tauto|apply in_elt]).
  assert (In3 : In c3 l) by (destruct (Hin LL c3) as (l1 & l2 & -> & _); [cbn; tauto|apply in_elt]).
  assert (In4 : In c4 l) by (destruct (Hin LR c4) as (l1 & l2 & -> & _); [cbn; tauto|apply in_elt]).
  unfold pixel. rewrite (four_corners_lift _ _ _ _ _ _ _ Hf).
  destruct (fractional_distances_RN_correct _ _ _ _ _ _ Hs) as (t & s & E & Ht & Hs' & Hx & Hy).
  pose proof (Hd _ In1) as D1. pose proof (Hd _ In2) as D2. pose proof (Hd _ In3) as D3. pose proof (Hd _ In4) as D4.
  destruct c1 as [[x1 y1] i1], c2 as [[x2 y2] i2], c3 as [[x3 y3] i3], c4 as [[x4 y4] i4].
  unfold lift_pt, nb_xy in *. cbn [lift_nb nb_x nb_y nb_i fst snd] in *. rewrite E.
  rewrite D1, D2, D3, D4.
  rewrite resample_RN, bilerp_affine, <- Hx, <- Hy. reflexivity.
Qed.

(* ---------- the parallelogram case (three corners) *)
Lemma px_lift p : px (lift_pt p) = Some (fst p). Proof. destruct p; reflexivity. Qed.
Lemma py_lift p : py (lift_pt p) = Some (snd p). Proof. destruct p; reflexivity. Qed.

Lemma frac_parallelogram_RN_inv p1 p2 p3 ox oy t s :
  frac_parallelogram RN (lift_pt p1) (lift_pt p2) (lift_pt p3) (Some oy) (Some ox) = (Some t, Some s) ->
  let x21 := fst p2 - fst p1 in let x31 := fst p3 - fst p1 in
  let y21 := snd p2 - snd p1 in let y31 := snd p3 - snd p1 in
  x21 * y31 - y21 * x31 <> 0 /\ x21 <> 0 /\ in01 t /\ in01 s /\
  t = (x21 * (oy - snd p1) - y21 * (ox - fst p1)) / (x21 * y31 - y21 * x31) /\
  s = (ox - fst p1 + x31 * t) / x21.
Proof.
  unfold frac_parallelogram. rewrite !px_lift, !py_lift. autorewrite with rn. cbv zeta.
  set (x21 := fst p2 - fst p1). set (x31 := fst p3 - fst p1). set (y21 := snd p2 - snd p1). set (y31 := snd p3 - snd p1).
  destruct (Req_EM_T (x21 * y31 - y21 * x31) 0) as [E|E].
  - rewrite (div_RN_zero _ _ E). rewrite outside_RN_None. cbn [where_]. autorewrite with rn. rewrite outside_RN_None. cbn. discriminate.
  - rewrite (div_RN _ _ E). set (q := (x21 * (oy - snd p1) - y21 * (ox - fst p1)) / (x21 * y31 - y21 * x31)).
    destruct (inr_dec (Some q)) as [Hq|Hq].
    + rewrite (final_where _ Hq). autorewrite with rn.
      destruct (Req_EM_T x21 0) as [E2|E2].
      * rewrite (div_RN_zero _ _ E2). rewrite outside_RN_None. cbn. discriminate.
      * rewrite (div_RN _ _ E2). set (r := (ox - fst p1 + x31 * q) / x21).
        destruct (inr_dec (Some r)) as [Hr|Hr].
        -- rewrite (final_where _ Hr). intros H. injection H as <- <-. cbn in Hq, Hr. tauto.
        -- rewrite (final_where_bad _ Hr). discriminate.
    + rewrite (final_where_bad _ Hq). discriminate.
Qed.

(* correct when the three corners span a parallelogram whose uprights are vertical in the target projection (x3 = x1) *)
Theorem frac_parallelogram_RN_inverse_if_upright p1 p2 p3 ox oy t s :
  frac_parallelogram RN (lift_pt p1) (lift_pt p2) (lift_pt p3) (Some oy) (Some ox) = (Some t, Some s) ->
  fst p3 = fst p1 ->
  let p4 := (fst p2 + fst p3 - fst p1, snd p2 + snd p3 - snd p1) in
  in01 t /\ in01 s /\
  ox = bilerp (fst p1) (fst p2) (fst p3) (fst p4) s t /\ oy = bilerp (snd p1) (snd p2) (snd p3) (snd p4) s t.
Proof.
  intros H Hup. destruct (frac_parallelogram_RN_inv _ _ _ _ _ _ _ H) as (Hd & Hx21 & Ht & Hs & Et & Es).
  cbv zeta in *. destruct p1 as [x1 y1], p2 as [x2 y2], p3 as [x3 y3]. cbn [fst snd] in *. subst x3.
  split; [exact Ht|]. split; [exact Hs|]. unfold bilerp.
  replace (x1 - x1) with 0 in * by ring.
  assert (Ex : s * (x2 - x1) = ox - x1) by (rewrite Es; field; exact Hx21).
  assert (Hy31 : y3 - y1 <> 0) by (intros Hz; apply Hd; rewrite Hz; ring).
  assert (Ey : t * (y3 - y1) = oy - y1 - s * (y2 - y1)).
  { assert (HtD : t * ((x2 - x1) * (y3 - y1) - (y2 - y1) * 0) = (x2 - x1) * (oy - y1) - (y2 - y1) * (ox - x1))
      by (rewrite Et; field; split; assumption).
    apply (Rmult_eq_reg_l (x2 - x1)); [|exact Hx21].
    replace ((x2 - x1) * (oy - y1 - s * (y2 - y1))) with ((x2 - x1) * (oy - y1) - (y2 - y1) * (s * (x2 - x1))) by ring.
    rewrite Ex, <- HtD. ring. }
  split; nra.
Qed.

(* ... and wrong for slanted uprights: the code adds x_31 * t where the inverse needs it subtracted *)
Theorem frac_parallelogram_slanted_refuted :
  exists p1 p2 p3 ox oy t s,
    let p4 := (fst p2 + fst p3 - fst p1, snd p2 + snd p3 - snd p1) in
    surrounds p1 p2 p3 p4 ox oy /\
    frac_parallelogram RN (lift_pt p1) (lift_pt p2) (lift_pt p3) (Some oy) (Some ox) = (Some t, Some s) /\
    ox <> bilerp (fst p1) (fst p2) (fst p3) (fst p4) s t.
Proof.
  exists (0, 2), (4, 2), (1, 0), 2, 1, (1 / 2), (5 / 8). cbv zeta. cbn [fst snd]. split; [|split].
  - unfold surrounds. cbn [fst snd]. lra.
  - unfold frac_parallelogram. rewrite !px_lift, !py_lift. cbn [fst snd]. autorewrite with rn.
    rewrite div_RN by lra.
    rewrite final_where by (cbn; unfold in01; lra). autorewrite with rn. rewrite div_RN by lra.
    rewrite final_where by (cbn; unfold in01; lra). f_equal; f_equal; lra.
  - unfold bilerp. lra.
Qed.
