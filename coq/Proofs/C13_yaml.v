(* C13: dump followed by load, at the level of the parsed dictionaries, is the identity on
   id, description, shape and extent (up to the unit rewrite), for one area and for files of many areas. *)
From Coq Require Import Reals ZArith Bool List Lra Lia.
From PR Require Import Base.Num Base.RNum Model.AreaConfig Model.AreaYaml Proofs.C13_base Proofs.C13_sets.
Import ListNotations.
Open Scope R_scope.

Section YamlProofs.
  Variable crs_facts : pentry -> bool * cu * (cu -> R * R).
  Notation arearec := (area_rec (T:=R)).

  Definition scale4 (k : R) (e : R * R * R * R) : R * R * R * R :=
    let '(a, b, c, d) := e in (a * k, b * k, c * k, d * k).
  (* PROJ's (at most two) unitconvert steps from kilometres to the reparsed CRS's metres *)
  Definition km_factor (fac : cu -> R * R) : R := fst (fac Ckm) * snd (fac Ckm).
  (* the units written next to the extent are metres (any spelling) or kilometres *)
  Definition metre_tok (u : utok) : Prop := u = UTm \/ u = UTmeters \/ u = UTmetres.
  (* what pyproj has to say about the CRS parsed back from the dumped projection entry *)
  Definition area_ok (a : arearec) : Prop :=
    let '(geo, cunits, fac) := crs_facts (proj_entry a) in
    (1 <= fst (r_shape a))%Z /\ (1 <= snd (r_shape a))%Z /\
    (let '(e0, e1, e2, e3) := r_ext a in e0 < e2 /\ e1 < e3) /\
    (geo = true <-> cunits = Cdeg) /\
    match dumped_units a with
    | None => True
    | Some u => geo = false /\ cunits = Cm /\ (metre_tok u \/ (u = UTkm /\ 0 < fst (fac Ckm) /\ 0 < snd (fac Ckm)))   (* the dict was written without its units: metres *)
    end.
  Definition loaded_extent (a : arearec) : R * R * R * R :=
    match dumped_units a with
    | Some UTkm => let '(_, _, fac) := crs_facts (proj_entry a) in scale4 (km_factor fac) (r_ext a)
    | _ => r_ext a
    end.
  Definition loaded_of (a : arearec) : loaded (T:=R) :=
    {| l_id := r_id a; l_desc := r_desc a; l_projid := None; l_proj := proj_entry a; l_out := Area (loaded_extent a) (r_shape a) |}.

  Lemma conv_extent_default pf pi fac geo cunits x y :
    (geo = true <-> cunits = Cdeg) ->
    convert_units RO pf pi fac geo cunits (Some ((x, y), None)) Nextent (default_units cunits) None = Ok (Some (x, y)).
  Proof.
    intros Hwf. unfold convert_units. destruct cunits; cbn [default_units extract_units].
    - assert (geo = true) as -> by (apply Hwf; reflexivity). reflexivity.
    - assert (geo = false) as -> by (destruct geo; [destruct Hwf as [H _]; discriminate (H eq_refl)|reflexivity]). reflexivity.
    - assert (geo = false) as -> by (destruct geo; [destruct Hwf as [H _]; discriminate (H eq_refl)|reflexivity]). reflexivity.
    - assert (geo = false) as -> by (destruct geo; [destruct Hwf as [H _]; discriminate (H eq_refl)|reflexivity]). reflexivity.
  Qed.
  Lemma conv_extent_metre pf pi fac u x y units :
    metre_tok u ->
    convert_units RO pf pi fac false Cm (Some ((x, y), Some u)) Nextent units None = Ok (Some (x, y)).
  Proof. intros [-> | [-> | ->]]; reflexivity. Qed.
  Lemma conv_extent_km pf pi fac x y units :
    convert_units RO pf pi fac false Cm (Some ((x, y), Some UTkm)) Nextent units None = Ok (Some (x * fst (fac Ckm) * snd (fac Ckm), y * fst (fac Ckm) * snd (fac Ckm))).
  Proof. reflexivity. Qed.

  Lemma nz_shape (h w : Z) (e : R * R * R * R) : (1 <= h)%Z -> (1 <= w)%Z ->
    (if (h =? 0)%Z || (w =? 0)%Z then @Raised R else Area e (h, w)) = Area e (h, w).
  Proof. intros. destruct (Z.eqb_spec h 0); [lia|]. destruct (Z.eqb_spec w 0); [lia|]. reflexivity. Qed.

  Theorem dump_load_one (a : arearec) : area_ok a -> load_one RO crs_facts (dump_dict a) = Ok (loaded_of a).
  Proof.
    destruct a as [id desc crs epsg units [h w] [[[e0 e1] e2] e3]].
    unfold area_ok, loaded_of, loaded_extent, dump_dict, proj_entry, dumped_units.
    cbn [r_id r_desc r_crs r_epsg r_units r_shape r_ext fst snd].
    set (pe := match epsg with Some n => PEpsg n | None => PDict crs end).
    destruct (crs_facts pe) as [[geo cunits] fac] eqn:Hf.
    intros (Hh & Hw & (Hx & Hy) & Hwf & Hu).
    assert (Hcreate : forall du ext',
      match du with None => True | Some u => geo = false /\ cunits = Cm /\ (metre_tok u \/ (u = UTkm /\ 0 < fst (fac Ckm) /\ 0 < snd (fac Ckm))) end ->
      ext' = match du with Some UTkm => scale4 (km_factor fac) (e0, e1, e2, e3) | _ => (e0, e1, e2, e3) end ->
      create_area_def RO (fun _ => None) (fun _ => None) fac geo cunits
        {| a_width := None; a_height := None; a_extent := Some (e0, e1, e2, e3, du); a_shape := Some (IZR h, IZR w);
           a_ul := None; a_center := None; a_resolution := None; a_radius := None; a_units := None |} = Area ext' (h, w)).
    { intros du ext' Hdu ->. unfold create_area_def.
      cbn [a_width a_height a_extent a_shape a_ul a_center a_resolution a_radius a_units bind].
      rewrite round_shape_R. cbn [fst snd bind]. rewrite !round_dim_exact.
      destruct du as [u|].
      - destruct Hdu as (-> & -> & [Hm | [-> [Hk1 Hk2]]]).
        + rewrite !(conv_extent_metre _ _ _ u) by assumption. cbn [bind convert_units fst snd strip].
          rewrite make_area_ok by assumption. destruct Hm as [-> | [-> | ->]]; reflexivity.
        + rewrite !conv_extent_km. cbn [bind convert_units fst snd strip scale4]. unfold km_factor.
          assert (0 < fst (fac Ckm) * snd (fac Ckm)) by (apply Rmult_lt_0_compat; assumption).
          replace (e0 * (fst (fac Ckm) * snd (fac Ckm))) with (e0 * fst (fac Ckm) * snd (fac Ckm)) by ring.
          replace (e1 * (fst (fac Ckm) * snd (fac Ckm))) with (e1 * fst (fac Ckm) * snd (fac Ckm)) by ring.
          replace (e2 * (fst (fac Ckm) * snd (fac Ckm))) with (e2 * fst (fac Ckm) * snd (fac Ckm)) by ring.
          replace (e3 * (fst (fac Ckm) * snd (fac Ckm))) with (e3 * fst (fac Ckm) * snd (fac Ckm)) by ring.
          rewrite make_area_ok; [reflexivity|assumption|assumption| |].
          * rewrite !Rmult_assoc. apply Rmult_lt_compat_r; assumption.
          * rewrite !Rmult_assoc. apply Rmult_lt_compat_r; assumption.
      - rewrite !conv_extent_default by assumption. cbn [bind convert_units fst snd strip]. now rewrite make_area_ok by assumption. }
    destruct epsg as [n|]; [|destruct units as [u|]]; subst pe.
    - cbv [load_one capture_subarguments dget dpop validate_sub_arg_list mem key_eqb existsb forallb map filter fst snd negb
           andb orb app fold_left bind as_pair as_quad num]. cbn [ofZ RO]. rewrite Hf. do 2 f_equal. exact (Hcreate None _ I eq_refl).
    - cbv [load_one capture_subarguments dget dpop validate_sub_arg_list mem key_eqb existsb forallb map filter fst snd negb
           andb orb app fold_left bind as_pair as_quad num]. cbn [ofZ RO]. rewrite Hf. do 2 f_equal. exact (Hcreate (Some u) _ Hu eq_refl).
    - cbv [load_one capture_subarguments dget dpop validate_sub_arg_list mem key_eqb existsb forallb map filter fst snd negb
           andb orb app fold_left bind as_pair as_quad num]. cbn [ofZ RO]. rewrite Hf. do 2 f_equal. exact (Hcreate None _ I eq_refl).
  Qed.

  (* ---- many areas per file *)
  Lemma fst_dump (a : arearec) : fst (dump_dict a) = r_id a.
  Proof. unfold dump_dict. destruct (r_ext a) as [[[? ?] ?] ?]. reflexivity. Qed.

  Lemma fget_none (areas : list arearec) name :
    ~ In name (map r_id areas) -> fget (map dump_dict areas) name = None.
  Proof.
    induction areas as [|b rest IH]; cbn [map fget]; intros H; [reflexivity|].
    rewrite IH by (intros H'; apply H; right; exact H'). rewrite fst_dump.
    destruct (Z.eqb_spec (r_id b) name) as [E|E]; [|reflexivity]. exfalso. apply H. left. exact E.
  Qed.
  Lemma fget_dump (areas : list arearec) a :
    NoDup (map r_id areas) -> In a areas -> fget (map dump_dict areas) (r_id a) = Some (dump_dict a).
  Proof.
    induction areas as [|b rest IH]; cbn [map fget]; intros Hnd Hin; [contradiction|].
    inversion Hnd as [|? ? Hnotin Hnd']; subst. destruct Hin as [-> | Hin].
    - rewrite fget_none by assumption. rewrite fst_dump, Z.eqb_refl. reflexivity.
    - rewrite (IH Hnd' Hin). reflexivity.
  Qed.

  Lemma load_selected (areas sel : list arearec) :
    Forall area_ok areas -> NoDup (map r_id areas) -> incl sel areas ->
    seq_res (map (fun name => match fget (map dump_dict areas) name with
                              | Some e => load_one RO crs_facts e
                              | None => Err end) (map r_id sel)) = Ok (map loaded_of sel).
  Proof.
    intros Hok Hnd. induction sel as [|a sel IH]; intros Hincl; [reflexivity|].
    cbn [map seq_res]. assert (Ha : In a areas) by (apply Hincl; left; reflexivity).
    rewrite (fget_dump areas a Hnd Ha). rewrite dump_load_one by (rewrite Forall_forall in Hok; apply Hok; exact Ha).
    rewrite IH by (intros x Hx; apply Hincl; right; exact Hx). reflexivity.
  Qed.

  (* all areas of the file, in file order *)
  Theorem dump_load_file (areas : list arearec) :
    Forall area_ok areas -> NoDup (map r_id areas) ->
    load_file RO crs_facts (map dump_dict areas) [] = Ok (map loaded_of areas).
  Proof.
    intros Hok Hnd. unfold load_file.
    replace (map fst (map dump_dict areas)) with (map r_id areas).
    - apply load_selected; auto. apply incl_refl.
    - rewrite map_map. apply map_ext. intros a. symmetry. apply fst_dump.
  Qed.
  (* a selection of regions, in the order asked for *)
  Theorem dump_load_regions (areas sel : list arearec) :
    Forall area_ok areas -> NoDup (map r_id areas) -> incl sel areas -> sel <> [] ->
    load_file RO crs_facts (map dump_dict areas) (map r_id sel) = Ok (map loaded_of sel).
  Proof.
    intros Hok Hnd Hincl Hne. unfold load_file. destruct sel as [|a sel]; [congruence|].
    cbn [map]. apply (load_selected areas (a :: sel)); assumption.
  Qed.
  Lemma seq_res_err {A} (l : list (res A)) : In Err l -> seq_res l = Err.
  Proof.
    induction l as [|x l IH]; [contradiction|]. intros [-> | H]; [reflexivity|].
    cbn [seq_res]. destruct x; [rewrite (IH H)|]; reflexivity.
  Qed.
  Theorem load_missing_region (areas : list arearec) regions r :
    In r regions -> ~ In r (map r_id areas) -> load_file RO crs_facts (map dump_dict areas) regions = Err.
  Proof.
    intros Hin Hnot. unfold load_file. destruct regions as [|r0 rs]; [contradiction|].
    apply seq_res_err. apply in_map_iff. exists r. split; [|exact Hin]. now rewrite fget_none.
  Qed.

  (* AreaDefinition.__eq__ on the round trip: equal whenever pyproj finds the reparsed CRS equal and no unit was rewritten *)
  Theorem dump_load_equal (a : arearec) :
    dumped_units a <> Some UTkm -> area_eq RO true a (loaded_of a) = true.
  Proof.
    intros Hu. unfold area_eq, loaded_of, loaded_extent. cbn [l_out].
    destruct (dumped_units a) as [[]|]; try congruence; now rewrite allclose4_refl, !Z.eqb_refl.
  Qed.
  Theorem dump_load_crs_differs (a : arearec) : area_eq RO false a (loaded_of a) = false.
  Proof. unfold area_eq, loaded_of. cbn [l_out]. now rewrite andb_false_r. Qed.
End YamlProofs.
