(* C11: same-CRS path of get_area_slices (translated _get_slice_starts_stops): cover and tightness, over the reals. *)
From Coq Require Import Reals ZArith Lra Lia Bool List.
From Flocq Require Import Zaux Raux Generic_fmt Round_NE.
From Coq Require Import PrimFloat.
From PR Require Import Base.Num Base.RNum Base.F64 Base.Slice Model.Grid Model.CropBase Model.Crop Gen.GenC11
     Proofs.Grid_real Proofs.C11_crop.
Import ListNotations.
Open Scope R_scope.

(* fractional index range of the target extent in the source grid, per axis *)
Definition lo_x (s t : area R) : R := Rmin (arr_of_proj_x RO s (xmin t)) (arr_of_proj_x RO s (xmax t)).
Definition hi_x (s t : area R) : R := Rmax (arr_of_proj_x RO s (xmin t)) (arr_of_proj_x RO s (xmax t)).
Definition lo_y (s t : area R) : R := Rmin (arr_of_proj_y RO s (ymin t)) (arr_of_proj_y RO s (ymax t)).
Definition hi_y (s t : area R) : R := Rmax (arr_of_proj_y RO s (ymin t)) (arr_of_proj_y RO s (ymax t)).

(* the orientation xor picks the smaller index for the start, whatever the orientation of either area *)
Lemma pick (k q a b : R) (fs ft : bool) :
  k <> 0 -> (fs = true <-> k < 0) -> (ft = true <-> b < a) ->
  (if xorb fs ft then (k * b + q, k * a + q) else (k * a + q, k * b + q))
  = (Rmin (k * a + q) (k * b + q), Rmax (k * a + q) (k * b + q)).
Proof.
  intros Hk Hs Ht.
  assert (Cs : fs = true \/ fs = false) by (destruct fs; auto).
  assert (Ct : ft = true \/ ft = false) by (destruct ft; auto).
  destruct Cs as [Es|Es], Ct as [Et|Et]; rewrite Es, Et; cbn.
  - assert (k < 0) by (apply Hs; exact Es). assert (b < a) by (apply Ht; exact Et).
    assert (0 < (- k) * (a - b)) by (apply Rmult_lt_0_compat; lra).
    rewrite Rmin_left, Rmax_right by lra. reflexivity.
  - assert (k < 0) by (apply Hs; exact Es).
    assert (a <= b). { destruct (Rle_dec a b); [assumption|]. assert (ft = true) by (apply Ht; lra). congruence. }
    assert (0 <= (- k) * (b - a)) by (apply Rmult_le_pos; lra).
    rewrite Rmin_right, Rmax_left by lra. reflexivity.
  - assert (0 < k). { destruct (Rlt_dec k 0) as [N|N]; [apply Hs in N; congruence|lra]. }
    assert (b < a) by (apply Ht; exact Et).
    assert (0 < k * (a - b)) by (apply Rmult_lt_0_compat; lra).
    rewrite Rmin_right, Rmax_left by lra. reflexivity.
  - assert (0 < k). { destruct (Rlt_dec k 0) as [N|N]; [apply Hs in N; congruence|lra]. }
    assert (a <= b). { destruct (Rle_dec a b); [assumption|]. assert (ft = true) by (apply Ht; lra). congruence. }
    assert (0 <= k * (b - a)) by (apply Rmult_le_pos; lra).
    rewrite Rmin_left, Rmax_right by lra. reflexivity.
Qed.

Lemma dx_sign a : wf_area a -> (xmax a < xmin a <-> / dxR a < 0).
Proof.
  intros H. pose proof (dx_nonzero a H) as Hn. destruct H as (Hw & _ & _ & _).
  pose proof (IZR_pos_of _ Hw) as Hp.
  assert (E : dxR a * IZR (width a) = xmax a - xmin a) by (unfold dxR; field; lra).
  split; intros L.
  - apply Rinv_lt_0_compat. nra.
  - assert (dxR a < 0). { destruct (Rlt_dec (dxR a) 0); [assumption|]. assert (0 < / dxR a) by (apply Rinv_0_lt_compat; lra). lra. }
    nra.
Qed.
Lemma dy_sign a : wf_area a -> (ymax a < ymin a <-> 0 < - / dyR a).
Proof.
  intros H. pose proof (dy_nonzero a H) as Hn. destruct H as (_ & Hh & _ & _).
  pose proof (IZR_pos_of _ Hh) as Hp.
  assert (E : dyR a * IZR (height a) = ymax a - ymin a) by (unfold dyR; field; lra).
  split; intros L.
  - assert (/ dyR a < 0) by (apply Rinv_lt_0_compat; nra). lra.
  - assert (dyR a < 0). { destruct (Rlt_dec (dyR a) 0); [assumption|]. assert (0 < / dyR a) by (apply Rinv_0_lt_compat; lra). lra. }
    nra.
Qed.

Lemma Rltb_iff a b : Rltb a b = true <-> a < b. Proof. apply Rltb_true. Qed.

(* characterisation of the regenerated definition *)
Lemma starts_stops_char s t : wf_area s ->
  gen_get_slice_starts_stops RO s t =
    (Z.max 0 (ZnearestE (lo_x s t)), Z.min (width s) (ZnearestE (hi_x s t) + 1),
     Z.max 0 (ZnearestE (lo_y s t)), Z.min (height s) (ZnearestE (hi_y s t) + 1))%Z.
Proof.
  intros H.
  unfold gen_get_slice_starts_stops, aext, acoords2, lo_x, hi_x, lo_y, hi_y.
  cbn [fst snd ltb rintZ RO].
  rewrite !(arr_x_affine s _ H), !(arr_y_affine s _ H).
  (* x axis *)
  pose proof (pick (/ dxR s) (- xmin s / dxR s - /2) (xmin t) (xmax t)
                   (Rltb (xmax s) (xmin s)) (Rltb (xmax t) (xmin t))) as Px.
  assert (Kx : / dxR s <> 0) by (apply Rinv_neq_0_compat, dx_nonzero; exact H).
  specialize (Px Kx).
  assert (Sx : Rltb (xmax s) (xmin s) = true <-> / dxR s < 0) by (rewrite Rltb_iff; apply dx_sign; exact H).
  specialize (Px Sx (Rltb_iff _ _)).
  (* y axis: the row index decreases with y, the code's branches are swapped accordingly *)
  pose proof (pick (- / dyR s) (ymax s / dyR s - /2) (ymin t) (ymax t)
                   (negb (Rltb (ymax s) (ymin s))) (Rltb (ymax t) (ymin t))) as Py.
  assert (Ky : - / dyR s <> 0) by (apply Ropp_neq_0_compat, Rinv_neq_0_compat, dy_nonzero; exact H).
  specialize (Py Ky).
  assert (Sy : negb (Rltb (ymax s) (ymin s)) = true <-> - / dyR s < 0).
  { pose proof (dy_sign s H) as D. rewrite <- Rltb_iff in D.
    destruct (Rltb (ymax s) (ymin s)); cbn [negb]; split; intros A.
    - discriminate.
    - exfalso. assert (0 < - / dyR s) by (apply D; reflexivity). lra.
    - destruct (Rlt_dec (- / dyR s) 0) as [L|L]; [exact L|]. exfalso.
      assert (P : 0 < - / dyR s) by lra. apply D in P. discriminate.
    - reflexivity. }
  specialize (Py Sy (Rltb_iff _ _)).
  destruct (xorb (Rltb (xmax s) (xmin s)) (Rltb (xmax t) (xmin t))) eqn:Ex;
    inversion Px as [[Px1 Px2]]; rewrite <- ?Px1, <- ?Px2;
    (destruct (Rltb (ymax s) (ymin s)) eqn:Es; cbn [negb xorb] in Py;
     destruct (Rltb (ymax t) (ymin t)) eqn:Et; cbn [negb xorb] in Py |- *;
     inversion Py as [[Py1 Py2]]; rewrite <- ?Py1, <- ?Py2; reflexivity).
Qed.

(* one axis: the rounded slice versus the exact cover *)
Definition first_px (lo : R) : Z := Zfloor (lo + /2).      (* pixel containing the lower edge *)
Definition last_px (hi : R) : Z := Zceil (hi - /2).        (* pixel containing the upper edge *)

Lemma first_px_spec lo : IZR (first_px lo) - /2 <= lo < IZR (first_px lo) + /2.
Proof. unfold first_px. pose proof (Zfloor_lb (lo + /2)). pose proof (Zfloor_ub (lo + /2)). lra. Qed.
Lemma last_px_spec hi : IZR (last_px hi) - /2 < hi <= IZR (last_px hi) + /2.
Proof. unfold last_px. pose proof (Zceil_ub (hi - /2)). pose proof (Zceil_lb (hi - /2)). lra. Qed.

Lemma nearest_vs_first lo : (first_px lo - 1 <= ZnearestE lo <= first_px lo)%Z.
Proof.
  pose proof (Znearest_half (fun x => negb (Z.even x)) lo) as Hh. apply Rabs_le_inv in Hh.
  pose proof (first_px_spec lo). split.
  - apply le_IZR. rewrite minus_IZR. simpl. lra.
  - unfold first_px. apply Zfloor_lub. lra.
Qed.
Lemma nearest_vs_last hi : (last_px hi <= ZnearestE hi <= last_px hi + 1)%Z.
Proof.
  pose proof (Znearest_half (fun x => negb (Z.even x)) hi) as Hh. apply Rabs_le_inv in Hh.
  pose proof (last_px_spec hi). split.
  - unfold last_px. apply Zceil_glb. lra.
  - apply le_IZR. rewrite plus_IZR. simpl. lra.
Qed.

Definition axis_cover_tight (n : Z) (lo hi : R) (s e : Z) : Prop :=
  (* covers the part of the extent that lies on the grid *)
  IZR s - /2 <= Rmax lo (- /2) /\ Rmin hi (IZR n - /2) <= IZR e - /2 /\
  (* exceeds the exact cover [first, last] (clipped to the grid) by at most one pixel per side *)
  (Z.max 0 (first_px lo) - 1 <= s <= Z.max 0 (first_px lo))%Z /\
  (Z.min (n - 1) (last_px hi) <= e - 1 <= Z.min (n - 1) (last_px hi) + 1)%Z.

Lemma axis_ok n lo hi : axis_cover_tight n lo hi (Z.max 0 (ZnearestE lo)) (Z.min n (ZnearestE hi + 1)).
Proof.
  pose proof (nearest_vs_first lo) as F. pose proof (nearest_vs_last hi) as L.
  pose proof (Znearest_half (fun x => negb (Z.even x)) lo) as Hl. apply Rabs_le_inv in Hl.
  pose proof (Znearest_half (fun x => negb (Z.even x)) hi) as Hh. apply Rabs_le_inv in Hh.
  unfold axis_cover_tight. repeat split; try lia.
  - destruct (Z.max_spec 0 (ZnearestE lo)) as [[A ->]|[A ->]].
    + apply Rle_trans with lo; [lra|apply Rmax_l].
    + apply Rle_trans with (- /2); [simpl; lra|apply Rmax_r].
  - destruct (Z.min_spec n (ZnearestE hi + 1)) as [[A ->]|[A ->]].
    + apply Rle_trans with (IZR n - /2); [apply Rmin_r|lra].
    + apply Rle_trans with hi; [apply Rmin_l|]. rewrite plus_IZR. simpl. lra.
Qed.

Lemma same_crs_cover_tight s t : wf_area s ->
  let '(xs, xe, ys, ye) := gen_get_slice_starts_stops RO s t in
  axis_cover_tight (width s) (lo_x s t) (hi_x s t) xs xe /\
  axis_cover_tight (height s) (lo_y s t) (hi_y s t) ys ye.
Proof.
  intros H. rewrite (starts_stops_char s t H). split; apply axis_ok.
Qed.

(* the extent range really is the image of the target extent: every projection x between the target's
   xmin and xmax (either order) has its index between lo_x and hi_x *)
Lemma extent_index_range_x s t x : wf_area s -> Rmin (xmin t) (xmax t) <= x <= Rmax (xmin t) (xmax t) ->
  lo_x s t <= arr_of_proj_x RO s x <= hi_x s t.
Proof.
  intros H Hx. unfold lo_x, hi_x.
  destruct (Rle_dec (xmin t) (xmax t)) as [L|L].
  - rewrite Rmin_left, Rmax_right in Hx by lra. apply arr_x_between; assumption.
  - rewrite Rmin_right, Rmax_left in Hx by lra. rewrite Rmin_comm, Rmax_comm. apply arr_x_between; assumption.
Qed.
Lemma extent_index_range_y s t y : wf_area s -> Rmin (ymin t) (ymax t) <= y <= Rmax (ymin t) (ymax t) ->
  lo_y s t <= arr_of_proj_y RO s y <= hi_y s t.
Proof.
  intros H Hy. unfold lo_y, hi_y.
  destruct (Rle_dec (ymin t) (ymax t)) as [L|L].
  - rewrite Rmin_left, Rmax_right in Hy by lra. apply arr_y_between; assumption.
  - rewrite Rmin_right, Rmax_left in Hy by lra. rewrite Rmin_comm, Rmax_comm. apply arr_y_between; assumption.
Qed.

(* orientation check and integer conversion keep the bounds (int inputs) *)
Lemma orientation_keeps a b : let '(a', b', st) := ensure_integer_Z (check_orientation a b) in
  a' = a /\ b' = b /\ (st = None <-> (a <= b)%Z).
Proof.
  unfold ensure_integer_Z, check_orientation.
  destruct (Z.gtb_spec a b); (split; [reflexivity|split; [reflexivity|split; intros A; try lia; try discriminate; try reflexivity]]).
Qed.
Lemma same_crs_extent_range s t x y : wf_area s ->
  (Rmin (xmin t) (xmax t) <= x <= Rmax (xmin t) (xmax t) -> lo_x s t <= arr_of_proj_x RO s x <= hi_x s t) /\
  (Rmin (ymin t) (ymax t) <= y <= Rmax (ymin t) (ymax t) -> lo_y s t <= arr_of_proj_y RO s y <= hi_y s t) /\
  (forall lo, IZR (first_px lo) - /2 <= lo < IZR (first_px lo) + /2) /\
  (forall hi, IZR (last_px hi) - /2 < hi <= IZR (last_px hi) + /2).
Proof.
  intros H. split; [apply extent_index_range_x; exact H|]. split; [apply extent_index_range_y; exact H|].
  split; [exact first_px_spec | exact last_px_spec].
Qed.
Lemma same_crs_example :
  gen_get_slice_starts_stops F64 (mk_area 0 0 8192 8192 8 8)%float (mk_area 1024 2048 3072 4096 2 2)%float = (0, 3, 4, 7)%Z.
Proof. vm_compute. reflexivity. Qed.
