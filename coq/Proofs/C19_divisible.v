From Coq Require Import ZArith List Lia Bool.
From PR Require Import Base.ZX Base.Slice Model.Partition Gen.GenSubset.
Import ListNotations.
Open Scope Z_scope.

(* the property's clause about _make_slice_divisible, proved of the definition regenerated from /repo *)
Lemma make_divisible_spec (s : pslice) (max_size factor : Z) :
  0 <= sstart s -> sstart s < sstop s -> sstop s <= max_size -> 0 < factor ->
  divisible_good s (gen_make_slice_divisible s max_size factor) max_size factor.
Proof.
  intros H0 Hne Hmx Hf. unfold gen_make_slice_divisible, divisible_good. cbv zeta.
  set (L := sstop s - sstart s).
  pose proof (Z.mod_pos_bound L factor Hf) as Hrem.
  pose proof (Z.div_mod L factor ltac:(lia)) as Hdm.
  assert (Hcd : L mod factor <> 0 -> cdiv L factor * factor = L + (factor - L mod factor)).
  { intros Hnz. unfold cdiv.
    replace (L + factor - 1) with ((L / factor + 1) * factor + (L mod factor - 1)) by lia.
    rewrite Z.div_add_l by lia. rewrite (Z.div_small (L mod factor - 1)) by lia. lia. }
  assert (Hcd0 : L mod factor = 0 -> cdiv L factor * factor = L).
  { intros Hz. unfold cdiv.
    replace (L + factor - 1) with ((L / factor) * factor + (factor - 1)) by lia.
    rewrite Z.div_add_l by lia. rewrite (Z.div_small (factor - 1)) by lia. lia. }
  destruct (Z.eqb_spec (L mod factor) 0) as [Hz|Hnz]; cbn [negb].
  - (* already divisible *) rewrite Hcd0 by exact Hz. repeat split; try lia. intros _. exact Hz.
  - pose proof (mod_add_compl L factor Hf) as Hgrow.
    pose proof (mod_sub_rem L factor Hf) as Hshrink.
    specialize (Hcd Hnz).
    destruct (Z.leb_spec (sstop s + (factor - L mod factor)) max_size) as [Ha|Ha]; cbn [sstart sstop].
    + repeat split; try lia.
      intros _. replace (sstop s + (factor - L mod factor) - sstart s) with (L + (factor - L mod factor)) by lia. exact Hgrow.
    + destruct (Z.geb_spec (sstart s - (factor - L mod factor)) 0) as [Hb|Hb]; cbn [sstart sstop].
      * repeat split; try lia.
        intros _. replace (sstop s - (sstart s - (factor - L mod factor))) with (L + (factor - L mod factor)) by lia. exact Hgrow.
      * destruct (Z.leb_spec (L + (factor - L mod factor)) max_size) as [Hc|Hc]; cbn [sstart sstop].
        -- repeat split; try lia.
           intros _. replace (max_size - (sstart s - (factor - L mod factor - (max_size - sstop s)))) with (L + (factor - L mod factor)) by lia. exact Hgrow.
        -- destruct (Z.gtb_spec L (L mod factor)) as [Hd|Hd]; cbn [sstart sstop].
           ++ repeat split; try lia.
              intros _. replace (sstop s - L mod factor - sstart s) with (L - L mod factor) by lia. exact Hshrink.
           ++ (* axis shorter than one factor: unchanged *)
              assert (L < factor) by (rewrite Hdm in Hd at 1; nia).
              repeat split; try lia.
Qed.
