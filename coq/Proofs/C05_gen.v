(* C05: characterisation of the definitions regenerated from /repo (Gen/GenC05.v): the six lon/lat validity
   expressions of the numpy, legacy-xarray and future-xarray pipelines are ONE predicate, and the index tests of
   query_no_distance / _extract_resample_result are the ones the models use. *)
From Coq Require Import ZArith List Lia Bool Reals Lra.
From PR Require Import Base.Num Base.RNum Model.Blockwise Model.BlockwiseValid Gen.GenC05.
From PR Require Model.KDTree Proofs.C02_main.
Import ListNotations.
Open Scope Z_scope.

Section GenValid.
  Context {T : Type} (OP : ops T).
  Lemma gen_valid_input_legacy_char lon lat : gen_valid_input_legacy OP lon lat = valid_lonlat OP lon lat.
  Proof. reflexivity. Qed.
  Lemma gen_valid_output_legacy_char lon lat : gen_valid_output_legacy OP lon lat = valid_lonlat OP lon lat.
  Proof. reflexivity. Qed.
  Lemma gen_valid_input_future_char lon lat : gen_valid_input_future OP lon lat = valid_lonlat OP lon lat.
  Proof. reflexivity. Qed.
  Lemma gen_valid_output_future_char lon lat : gen_valid_output_future OP lon lat = valid_lonlat OP lon lat.
  Proof. reflexivity. Qed.
  Lemma gen_valid_input_numpy_char lon lat : gen_valid_input_numpy OP lon lat = valid_lonlat OP lon lat.
  Proof. reflexivity. Qed.
  Lemma gen_valid_output_numpy_char lon lat : gen_valid_output_numpy OP lon lat = valid_lonlat OP lon lat.
  Proof. reflexivity. Qed.
  (* ... and it is the validity test of the C02 model (whose theorems therefore apply to the same masks) *)
  Lemma valid_lonlat_is_C02 lon lat :
    valid_lonlat OP lon lat = KDTree.valid_in OP lon lat /\ valid_lonlat OP lon lat = KDTree.valid_out OP lon lat.
  Proof. split; reflexivity. Qed.
End GenValid.

Theorem same_validity_test {T} (OP : ops T) lon lat :
  gen_valid_input_legacy OP lon lat = gen_valid_input_numpy OP lon lat /\
  gen_valid_input_future OP lon lat = gen_valid_input_numpy OP lon lat /\
  gen_valid_output_legacy OP lon lat = gen_valid_output_numpy OP lon lat /\
  gen_valid_output_future OP lon lat = gen_valid_output_numpy OP lon lat /\
  gen_valid_input_numpy OP lon lat = valid_lonlat OP lon lat /\
  gen_valid_output_numpy OP lon lat = valid_lonlat OP lon lat.
Proof. repeat split; reflexivity. Qed.

Lemma valid_lonlat_R (lon lat : R) : valid_lonlat RO lon lat = true <-> (-180 <= lon <= 180 /\ -90 <= lat <= 90)%R.
Proof. exact (C02_main.valid_in_R lon lat). Qed.

(* index tests *)
Lemma gen_good_pixels_char i n : gen_good_pixels i n = (i <? n).
Proof. reflexivity. Qed.
Lemma gen_np_index_mask_char i n : gen_np_index_mask i n = (i =? n).
Proof. reflexivity. Qed.
Lemma gen_np_new_index_char (m : bool) i : gen_np_new_index m i = if m then 0 else i.
Proof. reflexivity. Qed.

(* the models are the pipelines with the regenerated tests plugged in *)
Theorem qnd_flat_uses_gen n voi q pix :
  qnd_flat n voi q pix =
  let voir := map (fun p => voi (fst p) (snd p)) pix in
  let index_array := map (fun p => q (fst p) (snd p)) (compress voir pix) in
  let good_pixels := map (fun i => gen_good_pixels i n) index_array in
  scatter (scatter voir good_pixels false) (compress good_pixels index_array) (-1).
Proof. reflexivity. Qed.

Theorem np_sample_uses_gen {V} (fill : V) vii voi ia data :
  np_sample fill vii voi ia data =
  let n := count_true vii in
  if (n =? 0) || (count_true voi =? 0) then map (fun _ => fill) voi
  else
    let new_data := compress vii data in
    let index_mask := map (fun i => gen_np_index_mask i n) ia in
    let new_index_array := map2 gen_np_new_index index_mask ia in
    let result := map (fun i => nth (Z.to_nat i) new_data fill) new_index_array in
    scatter voi (map2 (fun (m : bool) v => if m then fill else v) index_mask result) fill.
Proof. reflexivity. Qed.
