(* C05 x C02: the brute-force reference of C02 (proved to meet the kd-tree contract there) meets C05's masked-query
   spec, so the mask theorems hold outright for it -- the kd-tree hypothesis is discharged by C02's contract. *)
From Coq Require Import ZArith List Lia Bool Reals Lra.
From PR Require Import Base.ZX Base.ListX Base.Slice Model.Partition Model.Blockwise Model.BlockwiseSpec Model.BlockwiseBF
     Proofs.C05_assemble Proofs.C05_pipeline Proofs.C05_mask.
From PR Require Model.KDTree Proofs.C02_query.
Import ListNotations.
Open Scope Z_scope.

Section BF.
  Variable vii mask : list bool.
  Variable d2 : Z -> Z -> nat -> Z.
  Variable r2 : Z.

  Lemma nvalid_nat : Z.of_nat (Z.to_nat (nvalid vii)) = nvalid vii.
  Proof. unfold nvalid, count_true. lia. Qed.

  Lemma in_cands k : In k (cands_c vii mask) <-> candidate vii mask (Z.of_nat k).
  Proof.
    unfold cands_c, candidate. rewrite filter_In, in_seq, negb_true_iff, Nat2Z.id.
    pose proof nvalid_nat. split; intros [H1 H2]; (split; [lia|exact H2]).
  Qed.

  Theorem bf_meets_spec i j :
    knn_masked_spec vii mask (fun i j s => IZR (d2 i j s)) (IZR r2) i j (bf_query vii mask d2 r2 i j).
  Proof.
    unfold bf_query. set (dC := fun k : nat => d2 i j (src_of vii (Z.of_nat k))).
    pose proof (C02_query.nearest_spec r2 dC (cands_c vii mask)) as [Hin Hout].
    pose proof (C02_query.nearest_found_iff r2 dC (cands_c vii mask)) as Hfound.
    set (p := KDTree.nearest r2 dC (cands_c vii mask)) in *.
    destruct (Nat.ltb_spec p (length (cands_c vii mask))) as [Hlt|Hge].
    - right. destruct (Hin Hlt) as [Hmin _]. destruct (proj1 Hfound Hlt) as (s & Hs & Hds).
      assert (Hp : In (nth p (cands_c vii mask) 0%nat) (cands_c vii mask)) by (apply nth_In; exact Hlt).
      split; [apply in_cands; exact Hp|]. split.
      + apply IZR_lt. specialize (Hmin s Hs). unfold dC in *. lia.
      + intros k Hk. apply IZR_le. destruct Hk as [[Hk0 Hk1] Hk2].
        assert (Hin' : In (Z.to_nat k) (cands_c vii mask)).
        { apply in_cands. rewrite Z2Nat.id by lia. split; [lia|exact Hk2]. }
        specialize (Hmin _ Hin'). unfold dC in Hmin. rewrite Z2Nat.id in Hmin by lia. lia.
    - left. destruct (Hout Hge) as [_ Hall]. split; [reflexivity|].
      intros k [[Hk0 Hk1] Hk2]. apply IZR_le.
      assert (Hin' : In (Z.to_nat k) (cands_c vii mask)).
      { apply in_cands. rewrite Z2Nat.id by lia. split; [lia|exact Hk2]. }
      specialize (Hall _ Hin'). unfold dC in Hall. rewrite Z2Nat.id in Hall by lia. lia.
  Qed.
End BF.
