(* C14: real-number facts about the list part of _compute_bound_centers (NaN/1e30 filter, nanmin/nanmax,
   x % 360, the antimeridian decision). *)
From Coq Require Import Reals ZArith Lra Lia List Bool.
From Flocq Require Import Zaux Raux.
From PR Require Import Base.Num Base.RNum Model.Grid Model.DynBase Gen.GenC14 Model.Dynamic.
Import ListNotations.
Open Scope R_scope.

(* numpy's x % 360 over the reals *)
Definition wrapR (x : R) : R := x - 360 * IZR (Zfloor (x / 360)).

Lemma wrapR_range x : 0 <= wrapR x < 360.
Proof.
  unfold wrapR. pose proof (Zfloor_lb (x / 360)). pose proof (Zfloor_ub (x / 360)).
  assert (x = x / 360 * 360) by (field). lra.
Qed.
Lemma wrapR_shift x : exists k : Z, wrapR x = x + 360 * IZR k.
Proof. exists (- Zfloor (x / 360))%Z. unfold wrapR. rewrite opp_IZR. lra. Qed.

Definition bigR : R := big RO.
Lemma bigR_pos : 0 < bigR.
Proof. unfold bigR, big; cbn. rewrite Rmult_1_r. apply IZR_lt. lia. Qed.

Lemma clean_id v : v <= bigR -> clean RO v = v.
Proof.
  intros H. unfold clean. change (ltb RO (big RO) v) with (Rltb bigR v).
  destruct (Rltb bigR v) eqn:E; [apply Rltb_true in E; lra | reflexivity].
Qed.

Lemma clean_xy_char {T} (OP : ops T) p : clean_xy OP p = (clean OP (fst p), clean OP (snd p)).
Proof. reflexivity. Qed.
Lemma map_clean_xy {T} (OP : ops T) (pts : list (T * T)) :
  map fst (map (clean_xy OP) pts) = map (fun p => clean OP (fst p)) pts /\
  map snd (map (clean_xy OP) pts) = map (fun p => clean OP (snd p)) pts.
Proof. split; rewrite map_map; apply map_ext; intros p; reflexivity. Qed.

Lemma map_clean_id {A} (f : A -> R) l : Forall (fun p => f p <= bigR) l -> map (fun p => clean RO (f p)) l = map f l.
Proof. induction 1; cbn; [reflexivity|]. rewrite clean_id by assumption. f_equal. assumption. Qed.

(* nanmin / nanmax over the reals: the minimum / maximum of a non-empty list *)
Lemma nanmin_o_spec l : l <> [] -> exists m, nanmin_o RO l = Some m /\ In m l /\ forall x, In x l -> m <= x.
Proof.
  induction l as [|a l IH]; [congruence|]. intros _. cbn [nanmin_o]. cbn [isnan RO].
  destruct l as [|b l'].
  - cbn. exists a. repeat split; auto. intros x [->|[]]; lra.
  - destruct IH as (m & -> & Hin & Hle); [congruence|].
    cbn [ltb RO]. destruct (Rltb m a) eqn:E.
    + apply Rltb_true in E. exists m. split; [reflexivity|]. split; [right; exact Hin|].
      intros x [->|Hx]; [lra | apply Hle, Hx].
    + apply Rltb_false in E. exists a. split; [reflexivity|]. split; [left; reflexivity|].
      intros x [->|Hx]; [lra | specialize (Hle x Hx); lra].
Qed.
Lemma nanmax_o_spec l : l <> [] -> exists m, nanmax_o RO l = Some m /\ In m l /\ forall x, In x l -> x <= m.
Proof.
  induction l as [|a l IH]; [congruence|]. intros _. cbn [nanmax_o]. cbn [isnan RO].
  destruct l as [|b l'].
  - cbn. exists a. repeat split; auto. intros x [->|[]]; lra.
  - destruct IH as (m & -> & Hin & Hle); [congruence|].
    cbn [ltb RO]. destruct (Rltb a m) eqn:E.
    + apply Rltb_true in E. exists m. split; [reflexivity|]. split; [right; exact Hin|].
      intros x [->|Hx]; [lra | apply Hle, Hx].
    + apply Rltb_false in E. exists a. split; [reflexivity|]. split; [left; reflexivity|].
      intros x [->|Hx]; [lra | specialize (Hle x Hx); lra].
Qed.
Lemma nanmin_spec l : l <> [] -> In (nanmin RO l) l /\ forall x, In x l -> nanmin RO l <= x.
Proof. intros H. destruct (nanmin_o_spec l H) as (m & E & ?). unfold nanmin. rewrite E. assumption. Qed.
Lemma nanmax_spec l : l <> [] -> In (nanmax RO l) l /\ forall x, In x l -> x <= nanmax RO l.
Proof. intros H. destruct (nanmax_o_spec l H) as (m & E & ?). unfold nanmax. rewrite E. assumption. Qed.
Lemma nanmin_le_nanmax l : l <> [] -> nanmin RO l <= nanmax RO l.
Proof. intros H. destruct (nanmin_spec l H) as [Hi _]. destruct (nanmax_spec l H) as [_ Hm]. apply Hm, Hi. Qed.

Lemma map_nonempty {A B} (f : A -> B) l : l <> [] -> map f l <> [].
Proof. destruct l; cbn; congruence. Qed.

(* characterisation of the REGENERATED pieces of _compute_bound_centers / _compute_new_x_corners_for_antimeridian,
   in every arithmetic *)
Lemma gen_am_test_char {T} (OP : ops T) xmin xmax ymin ymax geo :
  gen_am_test OP xmin xmax ymin ymax (mk_crs geo) =
    geo && passes_antimeridian OP xmin xmax && negb (y_is_pole OP ymin ymax).
Proof. reflexivity. Qed.
Lemma new_x_corners_char {T} (OP : ops T) (wrap360 : T -> T) mode xs :
  new_x_corners OP wrap360 mode xs =
    match mode with
    | MGlobal => None
    | MCrs => Some (sub OP (nanmin OP (map wrap360 xs)) (ofZ OP 180), sub OP (nanmax OP (map wrap360 xs)) (ofZ OP 180))
    | _ => Some (nanmin OP (map wrap360 xs), nanmax OP (map wrap360 xs))
    end.
Proof. destruct mode; reflexivity. Qed.

(* _compute_new_x_corners_for_antimeridian: every x, taken modulo 360 (and shifted by the new prime meridian for
   modify_crs), lies between the new corners; global_extents returns None *)
Definition pm_of (mode : amode) : R := match mode with MCrs => 180 | _ => 0 end.
Lemma new_x_corners_spec mode xs : xs <> [] ->
  match new_x_corners RO wrapR mode xs with
  | None => mode = MGlobal
  | Some (a, b) => mode <> MGlobal /\ a <= b /\
                   forall x, In x xs -> a <= wrapR x - pm_of mode <= b
  end.
Proof.
  intros Hne. pose proof (map_nonempty wrapR xs Hne) as Hw.
  pose proof (nanmin_spec _ Hw) as [_ Hmin]. pose proof (nanmax_spec _ Hw) as [_ Hmax].
  pose proof (nanmin_le_nanmax _ Hw) as Hle.
  assert (Hin : forall x, In x xs -> nanmin RO (map wrapR xs) <= wrapR x <= nanmax RO (map wrapR xs)).
  { intros x Hx. split; [apply Hmin | apply Hmax]; apply in_map, Hx. }
  rewrite new_x_corners_char. destruct mode; cbn [pm_of]; try reflexivity;
    (split; [discriminate|]); cbn [sub ofZ RO]; (split; [lra|]); intros x Hx; specialize (Hin x Hx); lra.
Qed.

(* _compute_bound_centers over the reals, for a non-empty list of valid (<= 9e29) projected points *)
Definition valid_pts (pts : list (R * R)) : Prop := pts <> [] /\ Forall (fun p => fst p <= bigR) pts /\ Forall (fun p => snd p <= bigR) pts.

(* when the antimeridian branch is taken (geographic CRS, x span > 355, not at a pole) *)
Definition antimeridian_branch (geo : bool) (pts : list (R * R)) : bool :=
  let xs := map fst pts in let ys := map snd pts in
  geo && passes_antimeridian RO (nanmin RO xs) (nanmax RO xs) && negb (y_is_pole RO (nanmin RO ys) (nanmax RO ys)).
(* the x coordinate, in the frozen CRS, of a point whose projected x is [x]: x % 360 in the wrapped modes, minus 180 when
   the prime meridian is moved (reading of PROJ's +pm=180: H_pm, validated on the implementation by the harness) *)
Definition frozen_x (geo : bool) (mode : amode) (pts : list (R * R)) (x : R) : R :=
  if antimeridian_branch geo pts then match mode with MGlobal => x | MCrs => wrapR x - 180 | _ => wrapR x end else x.

Lemma bound_centers_spec geo mode pts pm xc y0 y1 : valid_pts pts ->
  bound_centers RO wrapR geo mode pts = (pm, xc, y0, y1) ->
  y0 <= y1 /\ (forall p, In p pts -> y0 <= snd p <= y1) /\
  match xc with
  | Some (a, b) => a <= b /\ forall p, In p pts -> exists x' (k : Z),
        x' = fst p - (if pm then 180 else 0) + 360 * IZR k /\ a <= x' <= b /\ (geo = false -> x' = fst p) /\
        x' = frozen_x geo mode pts (fst p)
  | None => geo = true /\ mode = MGlobal /\ pm = false
  end /\ (geo = false -> pm = false) /\ pm = (antimeridian_branch geo pts && match mode with MCrs => true | _ => false end).
Proof.
  intros (Hne & Hx & Hy). unfold bound_centers. rewrite gen_am_test_char.
  destruct (map_clean_xy RO pts) as [-> ->].
  rewrite (map_clean_id fst pts Hx), (map_clean_id snd pts Hy).
  pose proof (map_nonempty fst pts Hne) as Hnx. pose proof (map_nonempty snd pts Hne) as Hny.
  pose proof (nanmin_spec _ Hny) as [_ Hymin]. pose proof (nanmax_spec _ Hny) as [_ Hymax].
  pose proof (nanmin_spec _ Hnx) as [_ Hxmin]. pose proof (nanmax_spec _ Hnx) as [_ Hxmax].
  assert (HY : forall p, In p pts -> nanmin RO (map snd pts) <= snd p <= nanmax RO (map snd pts)).
  { intros p Hp. split; [apply Hymin | apply Hymax]; apply in_map, Hp. }
  unfold frozen_x. fold (antimeridian_branch geo pts). destruct (antimeridian_branch geo pts) eqn:C; unfold antimeridian_branch in C.
  - intros E; inversion E; subst; clear E.
    apply andb_prop in C as [C _]. apply andb_prop in C as [Hg _].
    split; [apply nanmin_le_nanmax, Hny|]. split; [exact HY|]. split; [|split; [intros G; rewrite G in Hg; discriminate | reflexivity]].
    pose proof (new_x_corners_spec mode (map fst pts) Hnx) as S.
    destruct (new_x_corners RO wrapR mode (map fst pts)) as [[a b]|].
    + destruct S as (Hm & Hab & Hin). split; [exact Hab|]. intros p Hp.
      destruct (wrapR_shift (fst p)) as [k Hk].
      exists (wrapR (fst p) - pm_of mode), k. specialize (Hin (fst p) (in_map fst _ _ Hp)).
      split; [|split; [exact Hin | split; [intros G; rewrite G in Hg; discriminate | destruct mode; cbn [pm_of]; try lra; contradiction]]].
      rewrite Hk. destruct mode; cbn [pm_of]; lra.
    + subst mode. auto.
  - intros E; inversion E; subst; clear E.
    split; [apply nanmin_le_nanmax, Hny|]. split; [exact HY|]. split; [|split; reflexivity].
    split; [apply nanmin_le_nanmax, Hnx|]. intros p Hp. exists (fst p), 0%Z.
    split; [lra|]. split; [|split; reflexivity]. split; [apply Hxmin | apply Hxmax]; apply in_map, Hp.
Qed.
