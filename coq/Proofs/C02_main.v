(* C02: final forms of the statements (valid sources spelled out, exact-contract corollary),
   validity over the reals, and the two refutation witnesses of the unfixed clauses. *)
From Coq Require Import ZArith Bool List Lia Arith Reals Lra.
From PR Require Import Base.Num Base.RNum Model.KDTree Proofs.C02_lists Proofs.C02_query Proofs.C02_pipeline.
Import ListNotations.
Open Scope nat_scope.

(* ---- validity masks over the reals: exactly the in-range coordinates ---- *)
Lemma valid_in_R (lon lat : R) : valid_in RO lon lat = true <-> (-180 <= lon <= 180 /\ -90 <= lat <= 90)%R.
Proof.
  unfold valid_in. cbn [leb ofZ RO]. rewrite !andb_true_iff, !Rleb_true. lra.
Qed.
Lemma valid_out_R (lon lat : R) : valid_out RO lon lat = true <-> (-180 <= lon <= 180 /\ -90 <= lat <= 90)%R.
Proof.
  unfold valid_out. cbn [leb ofZ RO]. rewrite !andb_true_iff, !Rleb_true. lra.
Qed.

Lemma nth_map2_dflt {A B C} (f : A -> B -> C) l1 l2 i da db dc :
  length l1 = length l2 -> i < length l1 -> nth i (map2 f l1 l2) dc = f (nth i l1 da) (nth i l2 db).
Proof. intros H Hi. apply nth_map2; lia. Qed.

Lemma valid_input_index_R (lons lats : list R) s : length lons = length lats -> s < length lons ->
  (nth s (valid_input_index RO lons lats) false = true <->
   (-180 <= nth s lons 0 <= 180 /\ -90 <= nth s lats 0 <= 90)%R).
Proof.
  intros Hl Hs. unfold valid_input_index. rewrite (nth_map2_dflt _ _ _ s 0%R 0%R false Hl Hs). apply valid_in_R.
Qed.
Lemma valid_output_index_R (lons lats : list R) t : length lons = length lats -> t < length lons ->
  (nth t (valid_output_index RO lons lats) false = true <->
   (-180 <= nth t lons 0 <= 180 /\ -90 <= nth t lats 0 <= 90)%R).
Proof.
  intros Hl Ht. unfold valid_output_index. rewrite (nth_map2_dflt _ _ _ t 0%R 0%R false Hl Ht). apply valid_out_R.
Qed.

(* ---- main statement with valid sources spelled out ---- *)
Definition valid_at (m : list bool) (s : nat) : Prop := s < length m /\ nth s m false = true.

Section Main.
  Context {V D : Type}.
  Variable veqb : V -> V -> bool.
  Variables vzero vone : V.
  Hypothesis Hzero : veqb vzero vzero = true.
  Hypothesis Hone : veqb vone vzero = false.
  Variables (a b ca r2 : Z) (d2 : nat -> nat -> Z).
  Variables (tshape : list Z) (dtype : D) (multi : bool) (k : nat).
  Variables (rows : list (list V)) (mrows : option (list (list bool))).
  Variables (vin vout : list bool) (fill : option V) (sentinel : V).
  Hypothesis Hwf : wf_input multi k rows mrows vin.
  Hypothesis Hsent : veqb sentinel sentinel = true.
  Hypothesis Hnosent : fill = None ->
    forall s, valid_at vin s -> forall v, In v (nth s rows []) -> veqb v sentinel = false.
  Variable knn : list nat -> nat -> nat.
  Hypothesis Hknn : forall t, valid_at vout t ->
    knn_spec_tol a b ca r2 (d2 t) (compact vin) (knn (compact vin) t).

  Let o := resample_nn veqb vzero vone knn tshape dtype multi k rows mrows vin vout fill sentinel.
  Let kk := if multi then k else 1.

  Lemma main_tol t : t < length vout ->
    let cell := nth t (o_cells o) ([], []) in
    (exists s, valid_at vout t /\ valid_at vin s /\
        (forall s', valid_at vin s' -> (b * d2 t s <= a * d2 t s' + ca)%Z) /\ (b * d2 t s <= a * r2 + ca)%Z /\
        fst cell = nth s rows [] /\
        snd cell = match mrows with Some mm => nth s mm [] | None => repeat false kk end)
    \/
    ((~ valid_at vout t \/ forall s', valid_at vin s' -> (b * r2 <= a * d2 t s' + ca)%Z) /\
     (forall f, fill = Some f -> fst cell = repeat f kk) /\
     (fill = None -> snd cell = repeat true kk)).
  Proof.
    intros Ht cell.
    assert (Hnos' : fill = None -> forall s, In s (compact vin) -> forall v, In v (src_vals rows s) -> veqb v sentinel = false).
    { intros Hf s Hs v Hv. apply (Hnosent Hf s); [apply in_compact; exact Hs|exact Hv]. }
    assert (Hknn' : forall t, In t (compact vout) -> knn_spec_tol a b ca r2 (d2 t) (compact vin) (knn (compact vin) t)).
    { intros t' Ht'. apply Hknn. apply in_compact; exact Ht'. }
    destruct (nn_is_nearest_or_fill veqb vzero vone Hzero Hone a b ca r2 d2 tshape dtype multi k rows mrows vin vout fill
                sentinel Hwf Hsent Hnos' knn Hknn' t Ht) as [(s & Hv & Hs & Hmin & Hr & Hf & Hm)|(Hc & Hf & Hm)].
    - left. exists s. split; [split; assumption|]. split; [apply in_compact; exact Hs|].
      split; [intros s' Hs'; apply Hmin; apply in_compact; exact Hs'|]. split; [exact Hr|]. split; [exact Hf|exact Hm].
    - right. split; [|split; [exact Hf|exact Hm]].
      destruct Hc as [Hc|Hc]; [left; intros [_ Hv]; congruence|right; intros s' Hs'; apply Hc; apply in_compact; exact Hs'].
  Qed.
End Main.

(* exact contract (a = b = 1): plain inequalities on the squared distances *)
Section Exact.
  Context {V D : Type}.
  Variable veqb : V -> V -> bool.
  Variables vzero vone : V.
  Hypothesis Hzero : veqb vzero vzero = true.
  Hypothesis Hone : veqb vone vzero = false.
  Variables (r2 : Z) (d2 : nat -> nat -> Z).
  Variables (tshape : list Z) (dtype : D) (multi : bool) (k : nat).
  Variables (rows : list (list V)) (mrows : option (list (list bool))).
  Variables (vin vout : list bool) (fill : option V) (sentinel : V).
  Hypothesis Hwf : wf_input multi k rows mrows vin.
  Hypothesis Hsent : veqb sentinel sentinel = true.
  Hypothesis Hnosent : fill = None ->
    forall s, valid_at vin s -> forall v, In v (nth s rows []) -> veqb v sentinel = false.
  Variable knn : list nat -> nat -> nat.
  Hypothesis Hknn : forall t, valid_at vout t -> knn_spec r2 (d2 t) (compact vin) (knn (compact vin) t).

  Let o := resample_nn veqb vzero vone knn tshape dtype multi k rows mrows vin vout fill sentinel.
  Let kk := if multi then k else 1.

  Lemma main_exact t : t < length vout ->
    let cell := nth t (o_cells o) ([], []) in
    (exists s, valid_at vout t /\ valid_at vin s /\
        (forall s', valid_at vin s' -> (d2 t s <= d2 t s')%Z) /\ (d2 t s <= r2)%Z /\
        fst cell = nth s rows [] /\
        snd cell = match mrows with Some mm => nth s mm [] | None => repeat false kk end)
    \/
    ((~ valid_at vout t \/ forall s', valid_at vin s' -> (r2 <= d2 t s')%Z) /\
     (forall f, fill = Some f -> fst cell = repeat f kk) /\
     (fill = None -> snd cell = repeat true kk)).
  Proof.
    intros Ht cell.
    destruct (main_tol veqb vzero vone Hzero Hone 1 1 0 r2 d2 tshape dtype multi k rows mrows vin vout fill sentinel
                Hwf Hsent Hnosent knn Hknn t Ht) as [(s & Hv & Hs & Hmin & Hr & Hf & Hm)|(Hc & Hf & Hm)].
    - left. exists s. repeat split; try assumption; try (destruct Hv; assumption); try (destruct Hs; assumption).
      + intros s' Hs'. specialize (Hmin s' Hs'). lia.
      + lia.
    - right. split; [|split; assumption]. destruct Hc as [Hc|Hc]; [left; exact Hc|right].
      intros s' Hs'. specialize (Hc s' Hs'). lia.
  Qed.

  (* decisive cases *)
  Lemma value_if_strictly_inside t : valid_at vout t -> (exists s, valid_at vin s /\ (d2 t s < r2)%Z) ->
    let cell := nth t (o_cells o) ([], []) in
    exists s, valid_at vin s /\ (forall s', valid_at vin s' -> (d2 t s <= d2 t s')%Z) /\ (d2 t s < r2)%Z /\
      fst cell = nth s rows [] /\ snd cell = match mrows with Some mm => nth s mm [] | None => repeat false kk end.
  Proof.
    intros Hv (s0 & Hs0 & Hd0) cell. destruct Hv as [Ht Hvt].
    destruct (main_exact t Ht) as [(s & _ & Hs & Hmin & Hr & Hf & Hm)|(Hc & _)].
    - exists s. split; [exact Hs|]. split; [exact Hmin|]. split; [specialize (Hmin s0 Hs0); lia|]. split; assumption.
    - exfalso. destruct Hc as [Hc|Hc]; [apply Hc; split; assumption|]. specialize (Hc s0 Hs0). lia.
  Qed.

  Lemma fill_if_all_outside t : t < length vout -> (forall s, valid_at vin s -> (r2 < d2 t s)%Z) ->
    let cell := nth t (o_cells o) ([], []) in
    (forall f, fill = Some f -> fst cell = repeat f kk) /\ (fill = None -> snd cell = repeat true kk).
  Proof.
    intros Ht Hall cell. destruct (main_exact t Ht) as [(s & _ & Hs & _ & Hr & _)|(_ & Hf & Hm)].
    - specialize (Hall s Hs). lia.
    - split; assumption.
  Qed.

  Lemma invalid_target_fill t : t < length vout -> nth t vout false = false ->
    let cell := nth t (o_cells o) ([], []) in
    (forall f, fill = Some f -> fst cell = repeat f kk) /\ (fill = None -> snd cell = repeat true kk).
  Proof.
    intros Ht Hv cell. destruct (main_exact t Ht) as [(s & [_ Hv'] & _)|(_ & Hf & Hm)]; [congruence|split; assumption].
  Qed.
End Exact.

(* ---- the brute-force reference instantiates the oracle: the hypotheses are satisfiable ---- *)
Lemma brute_force_is_an_oracle (r2 : Z) (d2 : nat -> nat -> Z) (vin vout : list bool) :
  forall t, valid_at vout t -> knn_spec r2 (d2 t) (compact vin) ((fun cands t => nearest r2 (d2 t) cands) (compact vin) t).
Proof. intros t _. apply nearest_spec. Qed.

(* ---- refutation witnesses on the unchanged tree (known findings) ---- *)
(* uint8-like data [255; 7], fill_value None (sentinel 255): the target's nearest valid source holds 255
   unmasked, the output element is masked *)
Definition wit_sentinel : sample (V := Z) (D := Z) :=
  resample_nn Z.eqb 0%Z 1%Z (fun cands t => nearest 100 (fun s => Z.of_nat s + 1)%Z cands)
              [1%Z] 3%Z false 1 [[255%Z]; [7%Z]] None [true; true] [true] None 255%Z.
Lemma sentinel_refuted : o_cells wit_sentinel = [([255%Z], [true])].
Proof. vm_compute. reflexivity. Qed.

(* masked (n,1) input: the channel dimension is dropped; unmasked (n,1) input keeps it *)
Definition wit_shape (mrows : option (list (list bool))) : sample (V := Z) (D := Z) :=
  resample_nn Z.eqb 0%Z 1%Z (fun cands t => nearest 100 (fun s => Z.of_nat s + 1)%Z cands)
              [2%Z; 2%Z] 0%Z true 1 [[5%Z]; [7%Z]] mrows [true; true] [true; true; true; true] (Some 0%Z) 255%Z.
Lemma shape_masked_single_channel_refuted :
  o_shape (wit_shape (Some [[false]; [true]])) = [2%Z; 2%Z] /\ o_shape (wit_shape None) = [2%Z; 2%Z; 1%Z].
Proof. vm_compute. split; reflexivity. Qed.
