(* C12 -- the tolerance-based comparisons over the reals: reflexive, symmetric and consistent with the
   digest on identical parameters; false beyond the tolerance. *)
From Coq Require Import Reals ZArith Bool List Lra Lia.
From Flocq Require Import Zaux Raux.
From PR Require Import Base.Num Base.RNum Base.Slice Base.ListX Model.HashEq Proofs.C12_image.
Import ListNotations.
Open Scope R_scope.

Lemma list_eqb_refl {A} (f : A -> A -> bool) (l : list A) : (forall x, f x x = true) -> list_eqb f l l = true.
Proof. intros Hf. induction l as [|x l IH]; cbn; [reflexivity|]. rewrite Hf, IH. reflexivity. Qed.

Lemma list_eqb_in_false {A B} (f : A -> B -> bool) l1 l2 x y :
  In (x, y) (combine l1 l2) -> f x y = false -> list_eqb f l1 l2 = false.
Proof.
  revert l2. induction l1 as [|a l1 IH]; intros [|b l2] Hin Hf; cbn in *; try contradiction.
  destruct Hin as [E | Hin].
  - injection E as -> ->. rewrite Hf. reflexivity.
  - rewrite (IH l2 Hin Hf). apply andb_false_r.
Qed.

Lemma lit_pos m e : (0 < m)%Z -> 0 < lit RO m e.
Proof. intros Hm. cbn. apply Rmult_lt_0_compat; [apply IZR_lt; exact Hm | apply bpow_gt_0]. Qed.

Lemma rtol_area_pos : 0 < rtol_area RO. Proof. apply lit_pos. reflexivity. Qed.
Lemma atol_area_pos : 0 < atol_area RO. Proof. apply lit_pos. reflexivity. Qed.
Lemma rtol_swath_pos : 0 < rtol_swath RO. Proof. apply lit_pos. reflexivity. Qed.
Lemma atol_swath_pos : 0 < atol_swath RO. Proof. apply lit_pos. reflexivity. Qed.

(* ---------- isclose *)
Lemma isclose_refl rtol atol a : isclose RO rtol atol a a = true.
Proof. unfold isclose. cbn. replace (Reqb a a) with true; [apply orb_true_r|]. symmetry. apply Reqb_true. reflexivity. Qed.

Lemma isclose_true_iff rtol atol a b : isclose RO rtol atol a b = true <-> Rabs (a - b) <= atol + rtol * Rabs b \/ a = b.
Proof.
  unfold isclose. cbn. rewrite orb_true_iff, andb_true_r, Rleb_true, Reqb_true. reflexivity.
Qed.

Lemma isclose_far rtol atol a b :
  0 <= rtol -> 0 <= atol -> atol + rtol * Rabs b < Rabs (a - b) -> isclose RO rtol atol a b = false.
Proof.
  intros Hr Ha Hfar. apply not_true_is_false. rewrite isclose_true_iff. intros [Hc | ->]; [lra|].
  replace (b - b) with 0 in Hfar by ring. rewrite Rabs_R0 in Hfar.
  pose proof (Rabs_pos b). nra.
Qed.

Lemma isclose_nan_R rtol atol a b : isclose_nan RO rtol atol a b = isclose RO rtol atol a b.
Proof. unfold isclose_nan. cbn. apply orb_false_r. Qed.

Lemma canon_R x : canon RO x = x.
Proof. unfold canon. cbn. ring. Qed.

Lemma map_canon_R l : map (canon RO) l = l.
Proof. induction l as [|x l IH]; [reflexivity|]. cbn [map]. rewrite canon_R, IH. reflexivity. Qed.

(* ---------- AreaDefinition.__eq__ *)
Section AreaEq.
  Variable crs_eq : Z -> Z -> bool.
  Hypothesis crs_eq_refl : forall t, crs_eq t t = true.          (* pyproj: a CRS equals itself *)

  Lemma area_eq_same_values (a b : harea R) :
    h_crs a = h_crs b -> h_h a = h_h b -> h_w a = h_w b -> h_ext a = h_ext b ->
    area_eq RO crs_eq a b = true /\ area_eq RO crs_eq b a = true.
  Proof.
    intros E1 E2 E3 E4. unfold area_eq. rewrite E1, E2, E3, E4, crs_eq_refl, !Z.eqb_refl.
    rewrite list_eqb_refl by (intros; apply isclose_refl). auto.
  Qed.

  Lemma area_eq_refl (a : harea R) : area_eq RO crs_eq a a = true.
  Proof. apply area_eq_same_values; reflexivity. Qed.

  (* equal byte images (hence equal digests under an injective H) imply == *)
  Lemma area_eq_of_same_image (a b : harea R) :
    area_image RO a = area_image RO b -> area_eq RO crs_eq a b = true /\ area_eq RO crs_eq b a = true.
  Proof.
    intros E. apply area_image_eq_iff in E. destruct E as (E1 & E2 & E3 & E4).
    unfold cvals in E4. rewrite !map_canon_R in E4.
    unfold area_eq. rewrite E1, E2, E3, E4, crs_eq_refl, !Z.eqb_refl.
    rewrite list_eqb_refl by (intros; apply isclose_refl). auto.
  Qed.

  (* one extent value differs beyond the tolerance (in either role: np.isclose is not symmetric) *)
  Lemma area_eq_far (a b : harea R) x y :
    In (x, y) (combine (ext_list (h_ext a)) (ext_list (h_ext b))) ->
    atol_area RO + rtol_area RO * Rabs y < Rabs (x - y) ->
    area_eq RO crs_eq a b = false.
  Proof.
    intros Hin Hfar. unfold area_eq.
    rewrite (list_eqb_in_false _ _ _ x y Hin); [reflexivity|].
    apply isclose_far; try exact Hfar; apply Rlt_le; [apply rtol_area_pos | apply atol_area_pos].
  Qed.

  Lemma area_eq_crs (a b : harea R) : crs_eq (h_crs a) (h_crs b) = false -> area_eq RO crs_eq a b = false.
  Proof. intros E. unfold area_eq. rewrite E. rewrite andb_false_r. reflexivity. Qed.

  Lemma area_eq_shape (a b : harea R) : (h_h a, h_w a) <> (h_h b, h_w b) -> area_eq RO crs_eq a b = false.
  Proof.
    intros Hs. unfold area_eq.
    destruct (Z.eqb_spec (h_h a) (h_h b)) as [E1|]; destruct (Z.eqb_spec (h_w a) (h_w b)) as [E2|];
      cbn; rewrite ?andb_false_r; try reflexivity.
    exfalso. apply Hs. rewrite E1, E2. reflexivity.
  Qed.

  (* a far value also changes the canonical value, hence the image *)
  Lemma far_distinct x y : atol_area RO + rtol_area RO * Rabs y < Rabs (x - y) -> x <> y.
  Proof.
    intros Hfar ->. replace (y - y) with 0 in Hfar by ring. rewrite Rabs_R0 in Hfar.
    pose proof (Rabs_pos y). pose proof rtol_area_pos. pose proof atol_area_pos. nra.
  Qed.
End AreaEq.

Lemma combine_neq {A} (l1 l2 : list A) x y : In (x, y) (combine l1 l2) -> x <> y -> l1 <> l2.
Proof.
  revert l2. induction l1 as [|a l1 IH]; intros [|b l2] Hin Hne E; cbn in *; try contradiction.
  injection E as -> ->. destruct Hin as [E | Hin]; [injection E as -> ->; apply Hne; reflexivity|].
  exact (IH l2 Hin Hne eq_refl).
Qed.

(* ---------- BaseDefinition.__eq__ on swaths *)
Lemma rows_shape_refl {T} (l : list (list T)) : rows_shape_eqb l l = true.
Proof. unfold rows_shape_eqb. apply list_eqb_refl. intros. apply Nat.eqb_refl. Qed.

Lemma allclose_rows_refl (l : list (list R)) : allclose_rows RO l l = true.
Proof. unfold allclose_rows. apply list_eqb_refl. intros. rewrite isclose_nan_R. apply isclose_refl. Qed.

Lemma swath_eq_refl (s : swath R) : swath_eq RO s s = true.
Proof.
  unfold swath_eq. destruct ((s_kind s =? 2)%Z && (s_kind s =? 2)%Z).
  - rewrite !Z.eqb_refl. reflexivity.
  - unfold same_shape. rewrite Z.eqb_refl, !rows_shape_refl, !allclose_rows_refl. reflexivity.
Qed.

(* the same coordinates in another container (list / numpy / xarray over numpy): equal both ways *)
Lemma swath_eq_container k1 k2 nd (lon lat : list (list R)) n1 n2 n3 n4 :
  (k1 <> 2)%Z -> (k2 <> 2)%Z ->
  swath_eq RO (mk_swath k1 nd lon lat n1 n2) (mk_swath k2 nd lon lat n3 n4) = true /\
  swath_eq RO (mk_swath k2 nd lon lat n3 n4) (mk_swath k1 nd lon lat n1 n2) = true.
Proof.
  intros H1 H2. unfold swath_eq, same_shape.
  cbn [s_kind s_ndim s_lon s_lat s_nlon s_nlat].
  destruct (Z.eqb_spec k1 2); [contradiction|]. destruct (Z.eqb_spec k2 2); [contradiction|].
  cbn [andb]. rewrite Z.eqb_refl, !rows_shape_refl, !allclose_rows_refl. auto.
Qed.

Lemma swath_eq_far_lon (a b : swath R) x y :
  ((s_kind a =? 2) && (s_kind b =? 2))%Z = false ->
  In (x, y) (combine (concat (s_lon a)) (concat (s_lon b))) ->
  atol_swath RO + rtol_swath RO * Rabs y < Rabs (x - y) ->
  swath_eq RO a b = false.
Proof.
  intros Hk Hin Hfar. unfold swath_eq. rewrite Hk.
  assert (E : allclose_rows RO (s_lon a) (s_lon b) = false).
  { unfold allclose_rows. apply (list_eqb_in_false _ _ _ x y Hin). rewrite isclose_nan_R.
    apply isclose_far; try exact Hfar; apply Rlt_le; [apply rtol_swath_pos | apply atol_swath_pos]. }
  rewrite E. rewrite andb_false_r. reflexivity.
Qed.

Lemma swath_eq_far_lat (a b : swath R) x y :
  ((s_kind a =? 2) && (s_kind b =? 2))%Z = false ->
  In (x, y) (combine (concat (s_lat a)) (concat (s_lat b))) ->
  atol_swath RO + rtol_swath RO * Rabs y < Rabs (x - y) ->
  swath_eq RO a b = false.
Proof.
  intros Hk Hin Hfar. unfold swath_eq. rewrite Hk.
  assert (E : allclose_rows RO (s_lat a) (s_lat b) = false).
  { unfold allclose_rows. apply (list_eqb_in_false _ _ _ x y Hin). rewrite isclose_nan_R.
    apply isclose_far; try exact Hfar; apply Rlt_le; [apply rtol_swath_pos | apply atol_swath_pos]. }
  rewrite E. apply andb_false_r.
Qed.

(* different shapes never compare equal (numpy / xarray-over-numpy swaths) *)
Lemma swath_eq_shape (a b : swath R) :
  ((s_kind a =? 2) && (s_kind b =? 2))%Z = false -> same_shape a b = false -> swath_eq RO a b = false.
Proof. intros Hk Hs. unfold swath_eq. rewrite Hk, Hs. reflexivity. Qed.

Lemma swath_far_distinct x y : atol_swath RO + rtol_swath RO * Rabs y < Rabs (x - y) -> x <> y.
Proof.
  intros Hfar ->. replace (y - y) with 0 in Hfar by ring. rewrite Rabs_R0 in Hfar.
  pose proof (Rabs_pos y). pose proof rtol_swath_pos. pose proof atol_swath_pos. nra.
Qed.

(* xarray-over-dask swaths: == is exactly "same dask names", i.e. exactly "same byte image", in every arithmetic *)
Lemma dask_swath_eq_iff_image {T} (OP : ops T) (a b : swath T) :
  s_kind a = 2%Z -> s_kind b = 2%Z -> (swath_eq OP a b = true <-> swath_image a = swath_image b).
Proof.
  intros Ha Hb. unfold swath_eq, swath_image. rewrite Ha, Hb. cbn. rewrite andb_true_iff, !Z.eqb_eq. split.
  - intros [-> ->]. reflexivity.
  - intros E. injection E as -> ->. auto.
Qed.
