(* C19: the definitions regenerated from RowAppendableArray.append_row / to_array (tools/py2coq_imp.py) are the hand model *)
From Coq Require Import ZArith List Lia Bool.
From PR Require Import Base.ZX Base.Slice Base.Imp Model.Partition Gen.GenC19.
Import ListNotations.
Open Scope Z_scope.

Section ImpRaa.
  Context {A : Type}.
  Notation raa := (@raa A).

  Ltac ar_proj := cbn [imp_append_row_self imp_append_row_next_array imp_append_row_ndim imp_append_row_cursor_end imp_append_row_remaining
                       imp_append_row_set_self imp_append_row_set_cursor_end imp_append_row_set_remaining
                       r_cap r_data r_cursor fst snd].

  (* the states the class can be in: no buffer yet and nothing written, or a cursor inside the buffer *)
  Definition raa_wf (s : raa) : Prop :=
    match r_data s with
    | None => r_cursor s = 0 /\ 0 <= r_cap s
    | Some d => 0 <= r_cursor s <= zlen d
    end.

  Lemma take_from (l : list (option A)) lo : 0 <= lo <= zlen l ->
    (let l_ := l in take_slice (indices (mk_oslice (Some lo) None) (zlen l_)) l_) = skipn (Z.to_nat lo) l.
  Proof.
    intros H. cbv zeta. unfold take_slice, indices, adj. cbn [ostart ostop sstart sstop].
    destruct (Z.ltb_spec lo 0); [lia|]. rewrite Z.min_l by lia.
    rewrite firstn_all2; [reflexivity|]. rewrite skipn_length. unfold zlen in *. lia.
  Qed.
  Lemma take_to (l : list (option A)) hi : 0 <= hi <= zlen l ->
    (let l_ := l in take_slice (indices (mk_oslice None (Some hi)) (zlen l_)) l_) = firstn (Z.to_nat hi) l.
  Proof.
    intros H. cbv zeta. unfold take_slice, indices, adj. cbn [ostart ostop sstart sstop].
    destruct (Z.ltb_spec hi 0); [lia|]. rewrite Z.min_l by lia. cbn [Z.to_nat skipn]. f_equal. lia.
  Qed.

  Lemma set_tail (d b : list (option A)) cur : 0 <= cur <= zlen d -> zlen b = zlen d - cur ->
    np_set_slice_ok (indices (mk_oslice (Some cur) None) (zlen d)) b = true /\
    np_set_slice d (indices (mk_oslice (Some cur) None) (zlen d)) b = firstn (Z.to_nat cur) d ++ b.
  Proof.
    intros Hc Hb. unfold np_set_slice_ok, np_set_slice, indices, adj, slen. cbn [ostart ostop sstart sstop].
    destruct (Z.ltb_spec cur 0); [lia|]. rewrite Z.min_l by lia. rewrite Z.max_r by lia.
    rewrite Hb, Z.eqb_refl. split; [reflexivity|].
    rewrite skipn_all2; [now rewrite app_nil_r|]. unfold zlen in *. lia.
  Qed.
  Lemma set_mid (d b : list (option A)) cur : 0 <= cur -> cur + zlen b <= zlen d ->
    np_set_slice_ok (indices (mk_oslice (Some cur) (Some (cur + zlen b))) (zlen d)) b = true /\
    np_set_slice d (indices (mk_oslice (Some cur) (Some (cur + zlen b))) (zlen d)) b
    = firstn (Z.to_nat cur) d ++ b ++ skipn (Z.to_nat (cur + zlen b)) d.
  Proof.
    intros Hc Hb. assert (0 <= zlen b) by (unfold zlen; lia).
    unfold np_set_slice_ok, np_set_slice, indices, adj, slen. cbn [ostart ostop sstart sstop].
    destruct (Z.ltb_spec cur 0); [lia|]. destruct (Z.ltb_spec (cur + zlen b) 0); [lia|].
    rewrite !Z.min_l by lia. rewrite Z.max_r by lia.
    replace (cur + zlen b - cur) with (zlen b) by lia. rewrite Z.eqb_refl. split; reflexivity.
  Qed.

  Lemma zlen_map {B C} (f : B -> C) l : zlen (map f l) = zlen l.
  Proof. unfold zlen. now rewrite map_length. Qed.

  Ltac istep := repeat (first [rewrite seq_assoc | rewrite andthen_assign | rewrite andthen_skip | rewrite andthen_ite
                              | rewrite andthen_raise]; cbv beta; ar_proj).

  Lemma imp_append_row_model (s : raa) (rows : list A) (ndim : Z) :
    raa_wf s ->
    exists st', imp_append_row s (map Some rows) ndim = Fall [] st' /\ imp_append_row_self st' = raa_append s rows.
  Proof.
    intros Hwf. unfold imp_append_row.
    (* the buffer is allocated on first use: both cases continue from a state whose buffer exists *)
    set (data := match r_data s with Some d => d | None => repeat None (Z.to_nat (r_cap s)) end).
    assert (Hcur : 0 <= r_cursor s <= zlen data).
    { unfold raa_wf in Hwf. unfold data. destruct (r_data s) as [d|]; [exact Hwf|].
      destruct Hwf as [-> Hcap]. unfold zlen. rewrite repeat_length. lia. }
    rewrite andthen_ite. cbv beta. ar_proj.
    assert (Hstart : forall k : M imp_append_row_st Empty_set unit,
              (if match r_data s with None => true | Some _ => false end
               then andthen (andthen (check (fun s0 => 0 <=? r_cap (imp_append_row_self s0)))
                               (assign (fun s0 => imp_append_row_set_self
                                          (mk_raa (r_cap (imp_append_row_self s0))
                                                  (Some (repeat None (Z.to_nat (r_cap (imp_append_row_self s0)))))
                                                  (r_cursor (imp_append_row_self s0))) s0))) k
                      (mk_imp_append_row_st s (map Some rows) ndim 0 0)
               else andthen skip k (mk_imp_append_row_st s (map Some rows) ndim 0 0))
              = k (mk_imp_append_row_st (mk_raa (r_cap s) (Some data) (r_cursor s)) (map Some rows) ndim 0 0)).
    { intros k. unfold data, raa_wf in *. destruct s as [cap [d|] cur]; cbn [r_data r_cap r_cursor] in *.
      - now rewrite andthen_skip.
      - rewrite seq_assoc, andthen_check. cbv beta. ar_proj.
        destruct Hwf as [_ Hcap]. apply Z.leb_le in Hcap. rewrite Hcap. rewrite andthen_assign. ar_proj. reflexivity. }
    rewrite Hstart. clear Hstart.
    rewrite andthen_assign. ar_proj. rewrite seq_assoc, andthen_check. cbv beta. ar_proj.
    rewrite andthen_ite. cbv beta. ar_proj. rewrite zlen_map.
    unfold raa_append. fold data. cbv zeta.
    change (Z.of_nat (length data)) with (zlen data). change (Z.of_nat (length rows)) with (zlen rows).
    rewrite Z.gtb_ltb.
    destruct (Z.ltb_spec (zlen data) (r_cursor s + zlen rows)) as [Hov|Hfit].
    - (* beyond the buffer *)
      istep. rewrite andthen_check. cbv beta. ar_proj. istep.
      rewrite andthen_check. cbv beta. ar_proj.
      assert (Hrem : 0 <= zlen data - r_cursor s <= zlen (map Some rows)) by (rewrite zlen_map; lia).
      pose proof (take_to (map Some rows) _ Hrem) as Hto. cbv zeta in Hto. rewrite Hto.
      assert (Hb : zlen (firstn (Z.to_nat (zlen data - r_cursor s)) (map (@Some A) rows)) = zlen data - r_cursor s).
      { unfold zlen. rewrite firstn_length, map_length. unfold zlen in *. lia. }
      destruct (set_tail data _ (r_cursor s) Hcur Hb) as [Hok Hset]. rewrite Hok. cbn [andb].
      istep. rewrite Hto, Hset.
      pose proof (take_from (map Some rows) _ Hrem) as Hfrom. cbv zeta in Hfrom.
      assert (Hn : zlen data <? r_cursor s + zlen rows = true) by (apply Z.ltb_lt; lia).
      destruct (ndim =? 1); rewrite andthen_check; cbv beta; ar_proj; cbv iota; istep; rewrite assign_eval; ar_proj;
        rewrite Hfrom; (eexists; split; [reflexivity|]); ar_proj;
        rewrite firstn_map, skipn_map, <- app_assoc; reflexivity.
    - (* within the buffer *)
      istep. rewrite andthen_check. cbv beta. ar_proj.
      assert (Hfit' : r_cursor s + zlen (map (@Some A) rows) <= zlen data) by (rewrite zlen_map; lia).
      destruct (set_mid data (map Some rows) (r_cursor s) ltac:(lia) Hfit') as [Hok Hset].
      rewrite zlen_map in Hok, Hset. rewrite Hok. cbn [andb]. istep. rewrite assign_eval. ar_proj. rewrite Hset.
      eexists; split; [reflexivity|]. ar_proj. reflexivity.
  Qed.

  (* to_array: the rows written so far; before the first append Python raises (None is not subscriptable) *)
  Lemma imp_to_array_model (s : raa) d :
    r_data s = Some d -> 0 <= r_cursor s <= zlen d ->
    value_of (imp_to_array s) = COk (raa_to_array s).
  Proof.
    intros Hd Hc. unfold imp_to_array, raa_to_array.
    rewrite andthen_check. cbv beta. cbn [imp_to_array_self]. rewrite Hd.
    unfold ret. cbn [value_of imp_to_array_self]. rewrite Hd.
    pose proof (take_to d _ Hc) as H. cbv zeta in H |- *. now rewrite H.
  Qed.
  Lemma imp_to_array_unallocated (s : raa) : r_data s = None -> imp_to_array s = Raised.
  Proof. intros Hd. unfold imp_to_array. rewrite andthen_check. cbv beta. cbn [imp_to_array_self]. now rewrite Hd. Qed.

  (* the invariant is kept, so the lemmas chain over any sequence of appends *)
  Lemma raa_append_wf (s : raa) rows : raa_wf s -> raa_wf (raa_append s rows).
  Proof.
    unfold raa_wf, raa_append. intros H.
    set (data := match r_data s with Some d => d | None => repeat None (Z.to_nat (r_cap s)) end).
    assert (Hcur : 0 <= r_cursor s <= zlen data).
    { unfold data. destruct (r_data s) as [d|]; [exact H|]. destruct H as [-> Hcap]. unfold zlen. rewrite repeat_length. lia. }
    cbv zeta. change (Z.of_nat (length data)) with (zlen data).
    destruct (Z.ltb_spec (zlen data) (r_cursor s + Z.of_nat (length rows))) as [Hov|Hfit]; cbn [r_data r_cursor].
    - unfold zlen in *. rewrite !app_length, !map_length, firstn_length, firstn_length, skipn_length. lia.
    - unfold zlen in *. rewrite !app_length, !map_length, firstn_length, skipn_length. lia.
  Qed.

  (* a whole history through the generated code: appends (any row lengths, any ndim) then to_array *)
  Fixpoint imp_appends (s : raa) (appends : list (list A)) (ndim : Z) : option raa :=
    match appends with
    | [] => Some s
    | r :: rest => match state_of (imp_append_row s (map Some r) ndim) with
                   | COk st => imp_appends (imp_append_row_self st) rest ndim
                   | _ => None
                   end
    end.
  Lemma imp_appends_model appends ndim : forall s, raa_wf s ->
    imp_appends s appends ndim = Some (fold_left raa_append appends s).
  Proof.
    induction appends as [|r rest IH]; intros s Hwf; [reflexivity|].
    cbn [imp_appends fold_left]. destruct (imp_append_row_model s r ndim Hwf) as (st & E & Hs).
    rewrite E. cbn [state_of]. rewrite Hs. apply IH. apply raa_append_wf. exact Hwf.
  Qed.
  Lemma raa_append_allocated (s : raa) rows : exists d, (r_data (raa_append s rows)) = (Some d).
  Proof. unfold raa_append. cbv zeta. match goal with |- context [if ?c then _ else _] => destruct c end; cbn [r_data]; eexists; reflexivity. Qed.
  Lemma fold_append_allocated appends : forall s : raa, appends <> [] -> exists d, r_data (fold_left raa_append appends s) = Some d.
  Proof.
    induction appends as [|r rest IH]; intros s Hne; [congruence|]. cbn [fold_left].
    destruct rest as [|r2 rest]; [apply raa_append_allocated|]. apply IH. discriminate.
  Qed.
  Lemma fold_append_wf appends : forall s : raa, raa_wf s -> raa_wf (fold_left raa_append appends s).
  Proof. induction appends as [|r rest IH]; intros s H; [exact H|]. cbn [fold_left]. apply IH, raa_append_wf, H. Qed.

  Lemma imp_history_model cap appends ndim : 0 <= cap -> appends <> [] ->
    exists s', imp_appends (raa_init cap) appends ndim = Some s' /\ value_of (imp_to_array s') = COk (raa_to_array s') /\ s' = fold_left raa_append appends (raa_init cap).
  Proof.
    intros Hcap Hne. assert (Hwf : raa_wf (@raa_init A cap)) by (unfold raa_wf, raa_init; cbn; lia).
    exists (fold_left raa_append appends (raa_init cap)). split; [apply imp_appends_model, Hwf|]. split; [|reflexivity].
    destruct (fold_append_allocated appends (raa_init cap) Hne) as [d Hd].
    pose proof (fold_append_wf appends _ Hwf) as Hw. unfold raa_wf in Hw. rewrite Hd in Hw.
    eapply imp_to_array_model; eauto.
  Qed.
End ImpRaa.
