(* C03: spherical bounds behind H_red (pure geometry over the reals): a point within chord distance r of another differs
   in latitude by less than the angle of the chord, and, unless a pole is within reach, in longitude by less than
   asin(sin a / cos lat).  These are the bounds of the repaired reference window (ReduceMask.fixed_win). *)
From Coq Require Import Reals Lra Lia Psatz.
Open Scope R_scope.

(* unit-sphere scalar product of two points given by longitude / latitude (radians) *)
Definition cosang (ls ps lt pt : R) : R := sin ps * sin pt + cos ps * cos pt * cos (ls - lt).
(* squared chord length on a sphere of radius Re *)
Definition chord2 (Re ls ps lt pt : R) : R :=
  (Re * cos ps * cos ls - Re * cos pt * cos lt) ^ 2 + (Re * cos ps * sin ls - Re * cos pt * sin lt) ^ 2
  + (Re * sin ps - Re * sin pt) ^ 2.

Lemma sc2 x : sin x * sin x + cos x * cos x = 1.
Proof. pose proof (sin2_cos2 x) as H. unfold Rsqr in H. exact H. Qed.

Lemma chord2_cosang Re ls ps lt pt : chord2 Re ls ps lt pt = 2 * Re * Re * (1 - cosang ls ps lt pt).
Proof.
  unfold chord2, cosang. rewrite cos_minus.
  pose proof (sc2 ls). pose proof (sc2 lt). pose proof (sc2 ps). pose proof (sc2 pt).
  set (a := sin ls) in *. set (b := cos ls) in *. set (c := sin lt) in *. set (d := cos lt) in *.
  set (e := sin ps) in *. set (f := cos ps) in *. set (g := sin pt) in *. set (h := cos pt) in *.
  replace (2 * Re * Re * (1 - (e * g + f * h * (b * d + a * c))))
    with (Re * Re * ((e * e + f * f * (a * a + b * b)) + (g * g + h * h * (c * c + d * d)) - 2 * (e * g + f * h * (b * d + a * c)))).
  - ring.
  - replace (a * a + b * b) with 1 by lra. replace (c * c + d * d) with 1 by lra.
    replace (e * e + f * f * 1) with 1 by lra. replace (g * g + h * h * 1) with 1 by lra. ring.
Qed.

(* with a := 2 asin (r / 2Re): chord < r  <->  the cosine of the angle exceeds cos a *)
Lemma half_angle r Re : 0 < Re -> 0 <= r <= 2 * Re ->
  let a := 2 * asin (r / (2 * Re)) in 0 <= a <= PI /\ 1 - cos a = r * r / (2 * Re * Re).
Proof.
  intros HR Hr a. assert (Hx : 0 <= r / (2 * Re) <= 1).
  { split; [apply Rmult_le_pos; [lra|left; apply Rinv_0_lt_compat; lra]|].
    apply (Rmult_le_reg_r (2 * Re)); [lra|]. unfold Rdiv. rewrite Rmult_assoc, Rinv_l by lra. lra. }
  pose proof (asin_bound (r / (2 * Re))) as Hb.
  assert (H0 : 0 <= asin (r / (2 * Re))).
  { destruct (Rle_lt_dec 0 (asin (r / (2 * Re)))) as [H|H]; [exact H|].
    exfalso. assert (Hs : sin (asin (r / (2 * Re))) < sin 0).
    { apply sin_increasing_1; try lra; pose proof PI_RGT_0; lra. }
    rewrite sin_asin, sin_0 in Hs by lra. lra. }
  split; [unfold a; lra|]. unfold a. rewrite cos_2a_sin, sin_asin by lra. field. lra.
Qed.

Lemma chord_lt_cosang Re r ls ps lt pt : 0 < Re -> 0 <= r <= 2 * Re ->
  chord2 Re ls ps lt pt < r * r -> cos (2 * asin (r / (2 * Re))) < cosang ls ps lt pt.
Proof.
  intros HR Hr H. rewrite chord2_cosang in H. destruct (half_angle r Re HR Hr) as [_ Ha]. cbv zeta in Ha.
  assert (H2 : 1 - cosang ls ps lt pt < r * r / (2 * Re * Re)).
  { apply (Rmult_lt_reg_l (2 * Re * Re)); [nra|]. replace (2 * Re * Re * (r * r / (2 * Re * Re))) with (r * r) by (field; lra). exact H. }
  lra.
Qed.

(* ---- latitude: two points less than r apart (chord) differ in latitude by less than 2 asin(r / 2R) *)
Theorem latitude_bound Re r ls ps lt pt : 0 < Re -> 0 <= r <= 2 * Re ->
  - (PI / 2) <= ps <= PI / 2 -> - (PI / 2) <= pt <= PI / 2 ->
  chord2 Re ls ps lt pt < r * r -> Rabs (ps - pt) < 2 * asin (r / (2 * Re)).
Proof.
  intros HR Hr Hps Hpt H. apply chord_lt_cosang in H; try assumption.
  destruct (half_angle r Re HR Hr) as [Ha _]. cbv zeta in Ha. set (a := 2 * asin (r / (2 * Re))) in *.
  assert (Hc : cosang ls ps lt pt <= cos (ps - pt)).
  { unfold cosang. rewrite (cos_minus ps pt). pose proof (COS_bound (ls - lt)) as [_ Hb].
    assert (0 <= cos ps) by (apply cos_ge_0; lra). assert (0 <= cos pt) by (apply cos_ge_0; lra).
    assert (cos ps * cos pt * cos (ls - lt) <= cos ps * cos pt * 1).
    { apply Rmult_le_compat_l; [apply Rmult_le_pos; assumption|exact Hb]. }
    lra. }
  assert (Hlt : cos a < cos (Rabs (ps - pt))).
  { unfold Rabs. destruct (Rcase_abs (ps - pt)); [rewrite cos_neg|]; lra. }
  pose proof (Rabs_pos (ps - pt)).
  assert (Hle : Rabs (ps - pt) <= PI) by (unfold Rabs; destruct (Rcase_abs (ps - pt)); lra).
  apply cos_decreasing_0; lra.
Qed.

(* ---- longitude: if no pole is within reach of the target (|pt| + a < pi/2), the source lies strictly within a quarter
   turn of the target's meridian and cos(pt) |sin dlon| < sin a, i.e. |dlon| < asin (sin a / cos pt) *)
Theorem longitude_bound Re r ls ps lt pt : 0 < Re -> 0 <= r <= 2 * Re ->
  - (PI / 2) <= ps <= PI / 2 -> - (PI / 2) <= pt <= PI / 2 ->
  let a := 2 * asin (r / (2 * Re)) in
  Rabs pt + a < PI / 2 ->
  chord2 Re ls ps lt pt < r * r ->
  0 < cos (ls - lt) /\ cos pt * Rabs (sin (ls - lt)) < sin a.
Proof.
  intros HR Hr Hps Hpt a Hreach H. apply chord_lt_cosang in H; try assumption. fold a in H.
  destruct (half_angle r Re HR Hr) as [Ha _]. cbv zeta in Ha. fold a in Ha.
  pose proof (Rabs_pos pt) as Hp0.
  assert (Ha2 : a < PI / 2) by lra.
  assert (Hca : 0 < cos a) by (apply cos_gt_0; lra).
  assert (Hsa : 0 <= sin a) by (apply sin_ge_0; lra).
  assert (Hcs : 0 <= cos ps) by (apply cos_ge_0; lra).
  assert (Hct : 0 <= cos pt) by (apply cos_ge_0; lra).
  set (c := cosang ls ps lt pt) in *.
  split.
  - (* otherwise c <= sin ps sin pt <= |sin pt| = cos (pi/2 - |pt|) < cos a *)
    destruct (Rlt_le_dec 0 (cos (ls - lt))) as [Hpos|Hneg]; [exact Hpos|exfalso].
    assert (Hc1 : c <= sin ps * sin pt).
    { unfold c, cosang. assert (cos ps * cos pt * cos (ls - lt) <= 0); [|lra].
      replace 0 with (cos ps * cos pt * 0) by ring. apply Rmult_le_compat_l; [apply Rmult_le_pos; assumption|exact Hneg]. }
    assert (Hc2 : sin ps * sin pt <= sin (Rabs pt)).
    { pose proof (SIN_bound ps) as [Hs1 Hs2].
      unfold Rabs. destruct (Rcase_abs pt) as [Hn|Hn].
      - rewrite sin_neg. assert (sin pt <= 0). { rewrite <- sin_0. apply sin_incr_1; lra. } nra.
      - assert (0 <= sin pt). { rewrite <- sin_0. apply sin_incr_1; lra. } nra. }
    assert (Hc3 : sin (Rabs pt) < cos a).
    { rewrite <- (cos_shift (Rabs pt)). apply cos_decreasing_1; lra. }
    lra.
  - (* (cos pt sin dlon)^2 <= 1 - c^2 < 1 - cos^2 a = sin^2 a *)
    assert (Hsq : (cos pt * sin (ls - lt)) * (cos pt * sin (ls - lt)) <= 1 - c * c).
    { unfold c, cosang. pose proof (sc2 ps) as E1. pose proof (sc2 pt) as E2. pose proof (sc2 (ls - lt)) as E3.
      set (A := sin ps) in *. set (B := cos ps) in *. set (C := sin pt) in *. set (D := cos pt) in *.
      set (s := sin (ls - lt)) in *. set (k := cos (ls - lt)) in *.
      assert (Hs2 : s * s = 1 - k * k) by lra.
      assert (e1 : A * A + B * B - 1 = 0) by lra. assert (e2 : C * C + D * D - 1 = 0) by lra.
      assert (E0 : (B * C - A * D * k) * (B * C - A * D * k) - (1 - (A * C + B * D * k) * (A * C + B * D * k) - D * D * (1 - k * k))
                   = C * C * (A * A + B * B - 1) + (C * C + D * D - 1) + k * k * D * D * (A * A + B * B - 1)) by ring.
      rewrite e1, e2 in E0.
      replace (D * s * (D * s)) with (D * D * (s * s)) by ring. rewrite Hs2.
      pose proof (Rle_0_sqr (B * C - A * D * k)) as Hq. unfold Rsqr in Hq. lra. }
    assert (Hc1 : c <= 1).
    { unfold c, cosang. pose proof (sc2 ps). pose proof (sc2 pt). pose proof (COS_bound (ls - lt)) as [_ Hb].
      assert (cos ps * cos pt * cos (ls - lt) <= cos ps * cos pt * 1) by (apply Rmult_le_compat_l; [apply Rmult_le_pos; assumption|exact Hb]).
      assert (sin ps * sin pt + cos ps * cos pt <= 1).
      { assert (Hq : 0 <= (sin ps - sin pt) * (sin ps - sin pt) + (cos ps - cos pt) * (cos ps - cos pt)).
        { pose proof (Rle_0_sqr (sin ps - sin pt)) as Q1. pose proof (Rle_0_sqr (cos ps - cos pt)) as Q2. unfold Rsqr in Q1, Q2. lra. }
        replace ((sin ps - sin pt) * (sin ps - sin pt) + (cos ps - cos pt) * (cos ps - cos pt))
          with ((sin ps * sin ps + cos ps * cos ps) + (sin pt * sin pt + cos pt * cos pt) - 2 * (sin ps * sin pt + cos ps * cos pt)) in Hq by ring.
        lra. }
      lra. }
    assert (Hlt : (cos pt * Rabs (sin (ls - lt))) * (cos pt * Rabs (sin (ls - lt))) < sin a * sin a).
    { replace (cos pt * Rabs (sin (ls - lt)) * (cos pt * Rabs (sin (ls - lt))))
        with (cos pt * sin (ls - lt) * (cos pt * sin (ls - lt))).
      - pose proof (sc2 a). nra.
      - unfold Rabs. destruct (Rcase_abs (sin (ls - lt))); ring. }
    assert (Hnn : 0 <= cos pt * Rabs (sin (ls - lt))) by (apply Rmult_le_pos; [assumption|apply Rabs_pos]).
    nra.
Qed.

Lemma asin_lt_of_sin x b : -1 <= x <= 1 -> - (PI / 2) <= b <= PI / 2 -> x < sin b -> asin x < b.
Proof.
  intros Hx Hb H. pose proof (asin_bound x). apply sin_increasing_0; try lra. rewrite sin_asin by lra. exact H.
Qed.
