(* C06 — the three ways of computing (t, s) and their composition, over RN, for real corner points. *)
From Coq Require Import Reals ZArith Bool Lra Lia Psatz List.
From PR Require Import Base.Num Base.RNum Model.Bilinear Model.BilinearRN Proofs.C06_real Proofs.C06_rn.
Import ListNotations.
Open Scope R_scope.

Lemma calc_abc_RN p1 p2 p3 p4 oy ox :
  calc_abc RN (lift_pt p1) (lift_pt p2) (lift_pt p3) (lift_pt p4) (Some oy) (Some ox)
  = let '(a, b, c) := calc_abc RO p1 p2 p3 p4 oy ox in (Some a, Some b, Some c).
Proof. destruct p1, p2, p3, p4. reflexivity. Qed.

Lemma bilerp_swap v1 v2 v3 v4 s t : bilerp v1 v3 v2 v4 t s = bilerp v1 v2 v3 v4 s t.
Proof. unfold bilerp. ring. Qed.

(* ---------- general case: t from the quadratic, s from t *)
Lemma frac_irregular_RN_form p1 p2 p3 p4 ox oy : surrounds p1 p2 p3 p4 ox oy ->
  exists t, frac_irregular RN (lift_pt p1) (lift_pt p2) (lift_pt p3) (lift_pt p4) (Some oy) (Some ox)
            = (Some t, solve_other RN (Some t) (Some (snd p1)) (Some (snd p3)) (Some (snd p2)) (Some (snd p4)) (Some oy))
         /\ in01 t
         /\ (let ax := fst p1 + t * (fst p3 - fst p1) in let ay := snd p1 + t * (snd p3 - snd p1) in
             let bx := fst p2 + t * (fst p4 - fst p2) in let by_ := snd p2 + t * (snd p4 - snd p2) in
             (bx - ax) * (oy - ay) - (by_ - ay) * (ox - ax) = 0).
Proof.
  intros Hs. unfold frac_irregular. rewrite calc_abc_RN.
  pose proof (calc_abc_RO_ends p1 p2 p3 p4 ox oy Hs) as He.
  destruct (calc_abc RO p1 p2 p3 p4 oy ox) as [[a b] c] eqn:E.
  destruct He as [Hc H1].
  destruct (solve_quadratic_RN_root a b c) as (t & Ht & Hr & Hroot); [nra|].
  exists t. rewrite Ht. split; [destruct p1, p2, p3, p4; reflexivity|]. split; [exact Hr|].
  pose proof (calc_abc_RO_collinear p1 p2 p3 p4 oy ox t) as Hcol. rewrite E in Hcol. cbv zeta in *. rewrite <- Hcol. exact Hroot.
Qed.

Lemma frac_irregular_RN_inverse p1 p2 p3 p4 ox oy t s : surrounds p1 p2 p3 p4 ox oy ->
  frac_irregular RN (lift_pt p1) (lift_pt p2) (lift_pt p3) (lift_pt p4) (Some oy) (Some ox) = (Some t, Some s) ->
  in01 t /\ in01 s /\ ox = bilerp (fst p1) (fst p2) (fst p3) (fst p4) s t /\ oy = bilerp (snd p1) (snd p2) (snd p3) (snd p4) s t.
Proof.
  intros Hs H. destruct (frac_irregular_RN_form p1 p2 p3 p4 ox oy Hs) as (t0 & E & Hr & Hcol).
  rewrite E in H. injection H as Ht Hso. subst t0.
  destruct (solve_other_RN_inv _ _ _ _ _ _ _ Hso) as (Hden & Hg & Hrs).
  split; [exact Hr|]. split; [exact Hrs|].
  apply (inverse_from_root (fst p1) (snd p1) (fst p2) (snd p2) (fst p3) (snd p3) (fst p4) (snd p4) ox oy t s).
  - exact Hcol.
  - unfold so_den in Hden. intros Hz. apply Hden. lra.
  - unfold so_den, so_num in *. rewrite Hg. field_simplify_eq; [ring|]. exact Hden.
Qed.

(* ---------- uprights-parallel case: s from the quadratic with pt_2 and pt_3 exchanged, t from s *)
Lemma frac_uprights_RN_form p1 p2 p3 p4 ox oy : surrounds p1 p2 p3 p4 ox oy ->
  exists s, frac_uprights RN (lift_pt p1) (lift_pt p2) (lift_pt p3) (lift_pt p4) (Some oy) (Some ox)
            = (solve_other RN (Some s) (Some (snd p1)) (Some (snd p2)) (Some (snd p3)) (Some (snd p4)) (Some oy), Some s)
         /\ in01 s
         /\ (let ax := fst p1 + s * (fst p2 - fst p1) in let ay := snd p1 + s * (snd p2 - snd p1) in
             let bx := fst p3 + s * (fst p4 - fst p3) in let by_ := snd p3 + s * (snd p4 - snd p3) in
             (bx - ax) * (oy - ay) - (by_ - ay) * (ox - ax) = 0).
Proof.
  intros Hs. unfold frac_uprights. rewrite calc_abc_RN.
  pose proof (calc_abc_RO_ends_swapped p1 p2 p3 p4 ox oy Hs) as He.
  destruct (calc_abc RO p1 p3 p2 p4 oy ox) as [[a b] c] eqn:E.
  destruct He as [Hc H1].
  destruct (solve_quadratic_RN_root a b c) as (s & Hq & Hr & Hroot).
  { assert (0 < c * (- (a + b + c))) by (apply Rmult_lt_0_compat; lra). lra. }
  exists s. rewrite Hq. split; [destruct p1, p2, p3, p4; reflexivity|]. split; [exact Hr|].
  pose proof (calc_abc_RO_collinear p1 p3 p2 p4 oy ox s) as Hcol. rewrite E in Hcol. cbv zeta in *. rewrite <- Hcol. exact Hroot.
Qed.

Lemma convex_above o u v s : 0 <= s <= 1 -> o < u -> o < v -> o < u + s * (v - u).
Proof.
  intros Hs Hu Hv. replace (u + s * (v - u)) with (o + ((1 - s) * (u - o) + s * (v - o))) by ring.
  assert (0 <= (1 - s) * (u - o)) by (apply Rmult_le_pos; lra).
  assert (0 <= s * (v - o)) by (apply Rmult_le_pos; lra).
  destruct (Rle_dec s (1 / 2)).
  - assert ((u - o) / 2 <= (1 - s) * (u - o)) by nra. lra.
  - assert ((v - o) / 2 <= s * (v - o)) by nra. lra.
Qed.
Lemma convex_below o u v s : 0 <= s <= 1 -> u < o -> v < o -> u + s * (v - u) < o.
Proof.
  intros Hs Hu Hv. pose proof (convex_above (- o) (- u) (- v) s Hs) as H.
  assert (- o < - u + s * (- v - - u)) by (apply H; lra). lra.
Qed.

(* this order always succeeds when the corners surround the target: the point on the upper edge is above,
   the point on the lower edge below the target, so t is a genuine fraction *)
Lemma frac_uprights_RN_complete p1 p2 p3 p4 ox oy : surrounds p1 p2 p3 p4 ox oy ->
  exists t s, frac_uprights RN (lift_pt p1) (lift_pt p2) (lift_pt p3) (lift_pt p4) (Some oy) (Some ox) = (Some t, Some s)
    /\ in01 t /\ in01 s
    /\ ox = bilerp (fst p1) (fst p2) (fst p3) (fst p4) s t /\ oy = bilerp (snd p1) (snd p2) (snd p3) (snd p4) s t.
Proof.
  intros Hs. destruct (frac_uprights_RN_form p1 p2 p3 p4 ox oy Hs) as (s & E & Hr & Hcol).
  destruct p1 as [x1 y1], p2 as [x2 y2], p3 as [x3 y3], p4 as [x4 y4].
  unfold surrounds in Hs. cbn [fst snd] in *. destruct Hs as (H1 & H2 & H3 & H4 & H5 & H6 & H7 & H8).
  unfold in01 in Hr.
  assert (Hay : oy < y1 + s * (y2 - y1)) by (apply convex_above; lra).
  assert (Hby : y3 + s * (y4 - y3) < oy) by (apply convex_below; lra).
  assert (Hden : so_den s y1 y2 y3 y4 <> 0) by (unfold so_den; lra).
  assert (Hnd : so_den s y1 y2 y3 y4 < 0) by (unfold so_den; lra).
  assert (Hnn : so_num s y1 y2 oy < 0) by (unfold so_num; lra).
  assert (Hnd2 : so_den s y1 y2 y3 y4 < so_num s y1 y2 oy) by (unfold so_den, so_num; lra).
  set (t := so_num s y1 y2 oy / so_den s y1 y2 y3 y4).
  assert (Ht : in01 t).
  { unfold in01, t. split.
    - apply Rlt_le. replace (so_num s y1 y2 oy / so_den s y1 y2 y3 y4) with ((- so_num s y1 y2 oy) / (- so_den s y1 y2 y3 y4)) by (field; exact Hden).
      apply Rdiv_lt_0_compat; lra.
    - apply Rlt_le. replace (so_num s y1 y2 oy / so_den s y1 y2 y3 y4) with ((- so_num s y1 y2 oy) / (- so_den s y1 y2 y3 y4)) by (field; exact Hden).
      apply (Rmult_lt_reg_r (- so_den s y1 y2 y3 y4)); [lra|]. unfold Rdiv. rewrite Rmult_assoc, Rinv_l by lra. lra. }
  exists t, s. rewrite E. rewrite (solve_other_RN_Some s y1 y2 y3 y4 oy Hden Ht). fold t.
  split; [reflexivity|]. split; [exact Ht|]. split; [exact Hr|].
  rewrite <- (bilerp_swap x1 x2 x3 x4 s t), <- (bilerp_swap y1 y2 y3 y4 s t).
  apply (inverse_from_root x1 y1 x3 y3 x2 y2 x4 y4 ox oy s t).
  - exact Hcol.
  - unfold so_den in Hden. intros Hz. apply Hden. lra.
  - unfold t, so_num, so_den in *. field_simplify_eq; [ring|]. exact Hden.
Qed.

(* ---------- _invalid_s_and_t_to_nan and _update_fractional_distances *)
Lemma invalid_to_nan_RN_keep t s : in01 t -> in01 s -> invalid_to_nan RN (Some t, Some s) = (Some t, Some s).
Proof.
  intros Ht Hs. unfold invalid_to_nan. autorewrite with rn.
  rewrite (proj2 (outside_RN_Some t) Ht), (proj2 (outside_RN_Some s) Hs). reflexivity.
Qed.
Lemma invalid_to_nan_RN_keep_None t : in01 t -> invalid_to_nan RN (Some t, None) = (Some t, None).
Proof.
  intros Ht. unfold invalid_to_nan. autorewrite with rn.
  rewrite (proj2 (outside_RN_Some t) Ht), outside_RN_None. reflexivity.
Qed.
(* whatever goes in: a non-NaN pair that comes out is in [0,1]^2 *)
Lemma invalid_to_nan_RN_range ts t s : invalid_to_nan RN ts = (Some t, Some s) -> in01 t /\ in01 s.
Proof.
  destruct ts as [t0 s0]. unfold invalid_to_nan. autorewrite with rn.
  destruct (outside RN t0 (Some 0) (Some 1)) eqn:Et; cbn; [discriminate|].
  destruct (outside RN s0 (Some 0) (Some 1)) eqn:Es; cbn; [discriminate|].
  intros H. injection H as -> ->. split; apply outside_RN_Some; assumption.
Qed.
Lemma update_frac_RN_keep new t s : update_frac RN new (Some t, Some s) = (Some t, Some s).
Proof. reflexivity. Qed.
Lemma update_frac_RN_None_s new t : update_frac RN new (t, None) = invalid_to_nan RN new.
Proof. unfold update_frac. autorewrite with rn. rewrite orb_true_r. reflexivity. Qed.
Lemma update_frac_RN_range new ts t s :
  (forall t' s', ts = (Some t', Some s') -> in01 t' /\ in01 s') ->
  update_frac RN new ts = (Some t, Some s) -> in01 t /\ in01 s.
Proof.
  intros Hts. unfold update_frac. destruct ts as [t0 s0]. destruct (orb (isnan RN t0) (isnan RN s0)).
  - apply invalid_to_nan_RN_range.
  - intros H. apply Hts. exact H.
Qed.

(* every non-NaN (t, s) produced by _get_fractional_distances is in [0,1]^2, for ANY input (NaN corners included) *)
Theorem fractional_distances_RN_range p1 p2 p3 p4 ox oy t s :
  fractional_distances RN p1 p2 p3 p4 ox oy = (Some t, Some s) -> in01 t /\ in01 s.
Proof.
  unfold fractional_distances. apply update_frac_RN_range. intros t' s'. apply update_frac_RN_range.
  intros t'' s''. apply invalid_to_nan_RN_range.
Qed.

(* ---------- the composition: with surrounding corners a value is always produced and it solves the inverse *)
Theorem fractional_distances_RN_correct p1 p2 p3 p4 ox oy : surrounds p1 p2 p3 p4 ox oy ->
  exists t s, fractional_distances RN (lift_pt p1) (lift_pt p2) (lift_pt p3) (lift_pt p4) (Some ox) (Some oy) = (Some t, Some s)
    /\ in01 t /\ in01 s
    /\ ox = bilerp (fst p1) (fst p2) (fst p3) (fst p4) s t /\ oy = bilerp (snd p1) (snd p2) (snd p3) (snd p4) s t.
Proof.
  intros Hs. unfold fractional_distances.
  destruct (frac_irregular_RN_form p1 p2 p3 p4 ox oy Hs) as (t1 & E1 & Hr1 & _).
  destruct (solve_other RN (Some t1) (Some (snd p1)) (Some (snd p3)) (Some (snd p2)) (Some (snd p4)) (Some oy)) as [s1|] eqn:Eso.
  - (* the general case succeeded *)
    destruct (frac_irregular_RN_inverse p1 p2 p3 p4 ox oy t1 s1 Hs E1) as (Ht & Hs1 & Hx & Hy).
    exists t1, s1. rewrite E1, invalid_to_nan_RN_keep by assumption. rewrite !update_frac_RN_keep. tauto.
  - (* s was NaN: the other order *)
    destruct (frac_uprights_RN_complete p1 p2 p3 p4 ox oy Hs) as (t2 & s2 & E2 & Ht2 & Hs2 & Hx & Hy).
    exists t2, s2. rewrite E1, invalid_to_nan_RN_keep_None by assumption. rewrite update_frac_RN_None_s, E2.
    rewrite invalid_to_nan_RN_keep by assumption. rewrite update_frac_RN_keep. tauto.
Qed.
