(* C07: any history of calls on one BucketResampler object returns what a fresh object would return. *)
From Coq Require Import ZArith Bool List Lia.
From PR Require Import Base.Num Base.ZX Model.Grid Model.Bucket Proofs.C07_index Proofs.C07_hist.
Import ListNotations.
Open Scope Z_scope.

Lemma concat_split {A} lens (l : list A) : concat (bk_split_chunks lens l) = l.
Proof.
  revert l. induction lens as [|n lens IH]; intros l; cbn [bk_split_chunks].
  - destruct l; [reflexivity|]. cbn [concat]. apply app_nil_r.
  - cbn [concat]. rewrite IH. apply firstn_skipn.
Qed.

Lemma concat_map_filter {A B} (f : A -> B) (g : A -> bool) (cs : list (list A)) :
  concat (map (fun ch => map f (filter g ch)) cs) = map f (filter g (concat cs)).
Proof.
  induction cs as [|c cs IH]; [reflexivity|]. cbn [map concat]. rewrite IH, filter_app, map_app. reflexivity.
Qed.

Lemma missing_flat fill (idxs : list Z) (data : list dat) :
  map (fun p : Z * dat => (fst p, 1)) (filter (fun p => bk_invalid fill (snd p)) (combine idxs data))
  = map (fun i => (i, 1)) (bk_missing_idxs fill idxs data).
Proof. unfold bk_missing_idxs. rewrite map_map. reflexivity. Qed.

(* chunked get_sum = get_sum, for every chunk layout *)
Lemma get_sum_chunked_flat size lens idxs data fill skipna ebv k :
  bk_get_sum_chunked size lens idxs data fill skipna ebv k = bk_get_sum size idxs data fill skipna ebv k.
Proof.
  unfold bk_get_sum_chunked, bk_get_sum, bk_count.
  assert (Es : forall j, bk_hist_chunked oadd (Some 0) size (bk_split_chunks lens (combine idxs (bk_weights fill data))) j
               = bk_hist oadd (Some 0) size (combine idxs (bk_weights fill data)) j).
  { intros j. rewrite (hist_chunk_invariant oadd (Some 0) oadd_assoc oadd_0_l oadd_0_r), concat_split. reflexivity. }
  assert (Em : forall j, bk_hist_chunked Z.add 0 size
                 (map (fun ch => map (fun p : Z * dat => (fst p, 1)) (filter (fun p => bk_invalid fill (snd p)) ch))
                      (bk_split_chunks lens (combine idxs data))) j
               = bk_hist Z.add 0 size (map (fun i => (i, 1)) (bk_missing_idxs fill idxs data)) j).
  { intros j. rewrite (hist_chunk_invariant Z.add 0) by (intros; lia).
    rewrite concat_map_filter, concat_split, missing_flat. reflexivity. }
  destruct (dat_eqb ebv (Some 0)); destruct skipna; rewrite ?Es, ?Em; reflexivity.
Qed.

Lemma count_chunked_flat size (chunks : list (list Z)) k :
  bk_hist_chunked Z.add 0 size (map (map (fun i => (i, 1))) chunks) k = bk_count size (concat chunks) k.
Proof.
  unfold bk_count. rewrite (hist_chunk_invariant Z.add 0) by (intros; lia). rewrite concat_map. reflexivity.
Qed.

(* invariant of the object: same indices whatever the layout; the memo, if filled, holds the true counts *)
Definition obj_ok (size : Z) (idxs : list Z) (o : bk_obj) : Prop :=
  o_size o = size /\ concat (o_chunks o) = idxs /\
  (o_counts o = None \/ o_counts o = Some (bk_cells size (bk_count size idxs))).

Lemma rechunk_ok size idxs lens o : obj_ok size idxs o -> obj_ok size idxs (bk_rechunk lens o).
Proof.
  intros (Hs & Hc & Hm). unfold obj_ok, bk_rechunk. cbn [o_size o_chunks o_counts].
  split; [exact Hs|]. split; [rewrite concat_split; exact Hc | exact Hm].
Qed.

(* get_count on an object satisfying the invariant: the true counts, and the invariant is kept *)
Lemma count_step_ok size idxs o : obj_ok size idxs o ->
  obj_ok size idxs (fst (bk_count_step o)) /\ snd (bk_count_step o) = bk_cells size (bk_count size idxs).
Proof.
  intros Ho. pose proof Ho as (Hs & Hc & Hm). unfold bk_count_step.
  destruct Hm as [Hm|Hm]; rewrite Hm; cbn [fst snd].
  - assert (E : bk_cells (o_size o) (bk_hist_chunked Z.add 0 (o_size o) (map (map (fun i => (i, 1))) (o_chunks o)))
                = bk_cells size (bk_count size idxs)).
    { rewrite Hs. unfold bk_cells. apply map_ext. intros k. rewrite count_chunked_flat, Hc. reflexivity. }
    rewrite E. split; [|reflexivity]. unfold obj_ok. cbn [o_size o_chunks o_counts]. auto.
  - split; [exact Ho | reflexivity].
Qed.

Lemma combine_map_self {A B} (f : A -> B) (l : list A) : combine l (map f l) = map (fun k => (k, f k)) l.
Proof. induction l as [|x l IH]; [reflexivity|]. cbn [map combine]. rewrite IH. reflexivity. Qed.

Section History.
  Context {T : Type} (OP : ops T).

  Lemma step_ok size idxs o c : obj_ok size idxs o ->
    obj_ok size idxs (fst (bk_step OP o c)) /\ snd (bk_step OP o c) = bk_fresh OP size idxs c.
  Proof.
    intros Ho. pose proof Ho as (Hs & Hc & Hm).
    destruct c as [|lens data fill skipna ebv|lens data|lens data|lens data fill skipna|lens data cat fill]; cbn [bk_step bk_fresh].
    - destruct (count_step_ok size idxs o Ho) as [Ho1 E1]. destruct (bk_count_step o) as [o1 cs]. cbn [fst snd] in *.
      rewrite E1. split; [exact Ho1 | reflexivity].
    - cbn [fst snd]. pose proof (rechunk_ok size idxs lens o Ho) as Ho'. split; [exact Ho'|].
      destruct Ho' as (_ & Hc' & _). rewrite Hc', Hs. f_equal. unfold bk_cells. apply map_ext. intros k. apply get_sum_chunked_flat.
    - cbn [fst snd]. pose proof (rechunk_ok size idxs lens o Ho) as Ho'. split; [exact Ho'|].
      destruct Ho' as (_ & Hc' & _). rewrite Hc', Hs. reflexivity.
    - cbn [fst snd]. pose proof (rechunk_ok size idxs lens o Ho) as Ho'. split; [exact Ho'|].
      destruct Ho' as (_ & Hc' & _). rewrite Hc', Hs. reflexivity.
    - cbn [fst snd]. pose proof (rechunk_ok size idxs lens o Ho) as Ho'. split; [exact Ho'|].
      destruct Ho' as (_ & Hc' & _). rewrite Hc', Hs. reflexivity.
    - destruct (count_step_ok size idxs o Ho) as [Ho1 E1]. destruct (bk_count_step o) as [o1 cs]. cbn [fst snd] in *.
      pose proof (rechunk_ok size idxs lens o1 Ho1) as Ho'. split; [exact Ho'|].
      destruct Ho' as (_ & Hc' & _). rewrite Hc', Hs, E1. f_equal. unfold bk_cells.
      rewrite combine_map_self, map_map. apply map_ext. intros k. cbn [fst snd]. reflexivity.
  Qed.

  Lemma run_fresh size idxs calls : forall o, obj_ok size idxs o -> bk_run OP o calls = map (bk_fresh OP size idxs) calls.
  Proof.
    induction calls as [|c calls IH]; intros o Ho; [reflexivity|]. cbn [bk_run map].
    destruct (step_ok size idxs o c Ho) as [Ho' Er]. destruct (bk_step OP o c) as [o' res]. cbn [fst snd] in *.
    rewrite Er, (IH o' Ho'). reflexivity.
  Qed.

  Lemma history_independent size (chunks0 : list (list Z)) calls :
    bk_run OP (mk_obj size chunks0 None) calls = map (bk_fresh OP size (concat chunks0)) calls.
  Proof. apply run_fresh. repeat split; cbn; auto. Qed.
End History.
