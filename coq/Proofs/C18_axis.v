(* C18, one axis at a time: what each index recipe does to the fractional grid coordinate t
   (t = distance from the first cell border in pixels, or t - 1/2 for the centre-based recipes). *)
From Coq Require Import Reals ZArith Lra Lia Bool.
From Flocq Require Import Zaux Raux Generic_fmt Round_NE.
From PR Require Import Base.Num Base.RNum Model.Grid Model.CellIndex.
Open Scope R_scope.

(* ---------------------------------------------------------------- integer casts *)
Lemma int_min_neg bits : (1 <= bits)%Z -> (int_min bits < 0)%Z.
Proof.
  intros H. unfold int_min. assert (0 < 2 ^ (bits - 1))%Z by (apply Z.pow_pos_nonneg; lia). lia.
Qed.

Lemma wrap_int_nonneg bits z c : (1 <= bits)%Z -> wrap_int bits z = c -> (0 <= c)%Z -> z = c.
Proof.
  intros Hb E Hc. unfold wrap_int in E. pose proof (int_min_neg bits Hb).
  destruct ((int_min bits <=? z)%Z && (z <? 2 ^ (bits - 1))%Z); lia.
Qed.

Lemma wrap_int_id bits z : (1 <= bits)%Z -> (0 <= z < 2 ^ (bits - 1))%Z -> wrap_int bits z = z.
Proof.
  intros Hb Hz. unfold wrap_int. pose proof (int_min_neg bits Hb).
  destruct (Z.leb_spec (int_min bits) z); destruct (Z.ltb_spec z (2 ^ (bits - 1))); cbn; lia.
Qed.

Lemma wrap_int_out bits z n : (1 <= bits)%Z -> (z < 0 \/ n <= z)%Z -> in_range n (wrap_int bits z) = false.
Proof.
  intros Hb Hz. unfold wrap_int, in_range. pose proof (int_min_neg bits Hb).
  destruct ((int_min bits <=? z)%Z && (z <? 2 ^ (bits - 1))%Z).
  - destruct (Z.leb_spec 0 z); destruct (Z.ltb_spec z n); cbn; try reflexivity; lia.
  - destruct (Z.leb_spec 0 (int_min bits)); cbn; [lia | reflexivity].
Qed.

Lemma in_range_true n i : in_range n i = true <-> (0 <= i < n)%Z.
Proof.
  unfold in_range. destruct (Z.leb_spec 0 i); destruct (Z.ltb_spec i n); cbn; split; intros; try lia; try discriminate; reflexivity.
Qed.

Lemma to_int_R bits toZ v : to_int RO bits toZ v = wrap_int bits (toZ v).
Proof. reflexivity. Qed.

(* ---------------------------------------------------------------- floor recipes (grid, GridFilter, bucket) *)
Lemma floor_axis_sound bits t c : (1 <= bits)%Z ->
  wrap_int bits (Zfloor t) = c -> (0 <= c)%Z -> IZR c <= t < IZR c + 1.
Proof.
  intros Hb E Hc. apply wrap_int_nonneg in E; auto. subst c.
  split; [apply Zfloor_lb | apply Zfloor_ub].
Qed.

Lemma floor_axis_complete bits t c n : (1 <= bits)%Z -> (n <= 2 ^ (bits - 1))%Z -> (0 <= c < n)%Z ->
  IZR c <= t < IZR c + 1 -> wrap_int bits (Zfloor t) = c.
Proof.
  intros Hb Hn Hc [H1 H2]. assert (E : Zfloor t = c).
  { apply Zfloor_imp. rewrite plus_IZR. lra. }
  rewrite E. apply wrap_int_id; auto. lia.
Qed.

Lemma floor_axis_outside bits t n : (1 <= bits)%Z -> (t < 0 \/ IZR n <= t) ->
  in_range n (wrap_int bits (Zfloor t)) = false.
Proof.
  intros Hb H. apply wrap_int_out; auto. destruct H as [H | H].
  - left. apply lt_IZR. apply Rle_lt_trans with t; [apply Zfloor_lb | exact H].
  - right. apply Zfloor_lub. exact H.
Qed.

(* truncation towards zero is not a cell index: the whole pixel before the first border lands in cell 0 *)
Lemma trunc_axis_wrong t : -1 < t < 0 -> Ztrunc t = 0%Z.
Proof.
  intros [H1 H2]. rewrite Ztrunc_ceil by lra. apply Zceil_imp. cbn. lra.
Qed.

(* ---------------------------------------------------------------- masked_ints (round half even + eps band) *)
Lemma eps_R : eps_mi RO = 5764607523034235 / 288230376151711744.
Proof. unfold eps_mi. cbn. unfold Rdiv. f_equal. Qed.

Lemma eps_bounds : 0 < eps_mi RO /\ eps_mi RO < 2 / 100 + / 1000000000000000.
Proof. rewrite eps_R. lra. Qed.

Lemma half_R : half RO = / 2.
Proof. unfold half. cbn. lra. Qed.

Lemma clipf_cases t lo hi : lo <= hi ->
  (t <= lo /\ clipf RO t lo hi = lo) \/ (hi <= t /\ clipf RO t lo hi = hi) \/ (lo <= t <= hi /\ clipf RO t lo hi = t).
Proof.
  intros H. unfold clipf, fmin, fmax. cbn. unfold Rltb.
  destruct (Rlt_dec t lo) as [A | A].
  - destruct (Rlt_dec hi lo); [lra |]. left. split; [lra | reflexivity].
  - destruct (Rlt_dec hi t) as [B | B].
    + right. left. split; [lra | reflexivity].
    + right. right. split; [lra | reflexivity].
Qed.

Lemma mi_mask_false n t : mi_mask RO n t = false <-> - / 2 - eps_mi RO <= t <= IZR n - / 2 + eps_mi RO.
Proof.
  unfold mi_mask. rewrite half_R. generalize (eps_mi RO). intros e. cbn. rewrite orb_false_r. unfold Rltb.
  destruct (Rlt_dec t (- / 2 - e)); destruct (Rlt_dec (IZR n - / 2 + e) t); cbn; split; intros H;
    try discriminate H; try reflexivity; lra.
Qed.

Lemma mi_mask_true n t : mi_mask RO n t = true <-> t < - / 2 - eps_mi RO \/ IZR n - / 2 + eps_mi RO < t.
Proof.
  pose proof (mi_mask_false n t). destruct (mi_mask RO n t); split; intros; try reflexivity; try discriminate.
  - destruct (Rlt_dec t (- / 2 - eps_mi RO)); [auto |]. destruct (Rlt_dec (IZR n - / 2 + eps_mi RO) t); [auto |].
    assert (true = false) by (apply H; lra). discriminate.
  - assert (- / 2 - eps_mi RO <= t <= IZR n - / 2 + eps_mi RO) by (apply H; reflexivity). lra.
Qed.

Lemma mi_index_R n t : mi_index RO n t = wrap_int 64 (ZnearestE (clipf RO t 0 (IZR (n - 1)))).
Proof. reflexivity. Qed.

Lemma near_int (c : Z) t : IZR c - / 2 < t < IZR c + / 2 -> ZnearestE t = c.
Proof. intros H. apply Znearest_imp. apply Rabs_def1; lra. Qed.

Lemma near_IZR (k : Z) : ZnearestE (IZR k) = k.
Proof. apply Znearest_imp. replace (IZR k - IZR k) with 0 by ring. rewrite Rabs_R0. lra. Qed.

Lemma near_bounds t (lo hi : Z) : IZR lo <= t <= IZR hi -> (lo <= ZnearestE t <= hi)%Z.
Proof.
  intros [H1 H2]. split.
  - apply Z.le_trans with (Zfloor t); [apply Zfloor_lub; exact H1 | apply Znearest_ge_floor].
  - apply Z.le_trans with (Zceil t); [apply Znearest_le_ceil | apply Zceil_glb; exact H2].
Qed.

Lemma near_within t : IZR (ZnearestE t) - / 2 <= t <= IZR (ZnearestE t) + / 2.
Proof.
  pose proof (Znearest_half (fun x => negb (Z.even x)) t) as H. apply Rabs_le_inv in H. lra.
Qed.

(* an unmasked index c: t is within half a pixel of centre c, or c is an edge cell and t lies in the eps band outside it *)
Lemma mi_sound n t c : (1 <= n <= 2 ^ 63)%Z -> mi_mask RO n t = false -> mi_index RO n t = c ->
  (0 <= c < n)%Z /\
  (IZR c - / 2 <= t <= IZR c + / 2
   \/ (c = 0%Z /\ - / 2 - eps_mi RO <= t < 0)
   \/ (c = (n - 1)%Z /\ IZR n - 1 < t <= IZR n - / 2 + eps_mi RO)).
Proof.
  intros Hn Hm Hi. apply mi_mask_false in Hm. rewrite mi_index_R in Hi.
  assert (Hlo : 0 <= IZR (n - 1)) by (apply IZR_le; lia).
  destruct (clipf_cases t 0 (IZR (n - 1)) Hlo) as [[H E] | [[H E] | [H E]]]; rewrite E in Hi.
  - change 0 with (IZR 0) in Hi. rewrite near_IZR in Hi. rewrite wrap_int_id in Hi by lia. subst c.
    split; [lia |]. destruct (Rle_lt_dec (- / 2) t); [left; cbn; lra | right; left; split; [reflexivity | lra]].
  - rewrite near_IZR in Hi. rewrite wrap_int_id in Hi by lia. subst c. split; [lia |].
    rewrite minus_IZR in *. destruct (Rle_lt_dec t (IZR n - 1 + / 2)); [left; lra | right; right; split; [reflexivity | lra]].
  - pose proof (near_within t) as W.
    assert (Hk : (0 <= ZnearestE t <= n - 1)%Z) by (apply near_bounds; cbn; lra).
    rewrite wrap_int_id in Hi by lia. subst c. split; [lia | left; lra].
Qed.

Lemma mi_complete n t c : (1 <= n <= 2 ^ 63)%Z -> (0 <= c < n)%Z -> IZR c - / 2 < t < IZR c + / 2 ->
  mi_mask RO n t = false /\ mi_index RO n t = c.
Proof.
  intros Hn Hc Ht. pose proof eps_bounds as [He _].
  assert (Hc1 : 0 <= IZR c) by (apply IZR_le; lia).
  assert (Hc2 : IZR c <= IZR n - 1) by (rewrite <- minus_IZR; apply IZR_le; lia).
  split.
  - apply mi_mask_false. lra.
  - rewrite mi_index_R.
    assert (Hlo : 0 <= IZR (n - 1)) by (apply IZR_le; lia).
    rewrite minus_IZR in *.
    destruct (clipf_cases t 0 (IZR n - 1) Hlo) as [[H E] | [[H E] | [H E]]]; rewrite E.
    + assert (c = 0%Z) by (apply eq_IZR; apply Rle_antisym; [| lra];
        destruct (Z.eq_dec c 0) as [-> | N]; [cbn; lra |]; assert (1 <= IZR c) by (apply IZR_le; lia); lra).
      subst c. change 0 with (IZR 0). rewrite near_IZR. apply wrap_int_id; lia.
    + assert (c = (n - 1)%Z).
      { apply eq_IZR. rewrite minus_IZR. apply Rle_antisym; [lra |].
        destruct (Z.eq_dec c (n - 1)) as [-> | N]; [rewrite minus_IZR; lra |].
        assert (IZR c <= IZR (n - 2)) by (apply IZR_le; lia). rewrite minus_IZR in *. lra. }
      subst c. rewrite <- minus_IZR. rewrite near_IZR. apply wrap_int_id; lia.
    + rewrite (near_int c t Ht). apply wrap_int_id; lia.
Qed.
