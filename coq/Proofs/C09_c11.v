(* C09 composed with C11: for an AREA source the coordinate field is the affine grid map of Model/Grid.v, the exact
   position is the area's own fractional index, and the crop resample_blocks uses is AreaSlicer's arithmetic
   (Model/Crop.v crop_slices, property C11).  H_crop of C09_chunk_invariant_if is DERIVED from C11's soundness theorem
   under C11's named hypothesis H_poly (per target block) and shapely's two bits. *)
From Coq Require Import Reals ZArith Lra Lia Bool List Psatz.
From Flocq Require Import Zaux Raux Generic_fmt Round_NE.
From PR Require Import Base.ZX Base.Num Base.RNum Base.Slice Model.Grid Model.CropBase Model.Partition Model.Crop Gen.GenSubset
     Proofs.Grid_real Proofs.C11_crop.
From PR Require Import Model.Blockwise Model.Gradient Proofs.C05_assemble Proofs.C09_newton Proofs.C09_scan Proofs.C09_kernels
     Proofs.C09_blocks Proofs.C09_main.
Import ListNotations.
Open Scope R_scope.

(* ---------------- AreaSlicer's slices are always a non-empty range starting inside the grid ---------------- *)
Lemma expand_raw_ok (p : R * R) (n : Z) : (1 <= n)%Z -> ~ outside_axis n p ->
  let s := gen_expand_slice (raw_slice RO p) in (0 <= sstart s < sstop s)%Z /\ (sstart s < n)%Z.
Proof.
  intros Hn Ho. rewrite raw_slice_R, expand_eq. cbn [sstart sstop].
  set (m := Rmin (fst p) (snd p)). set (M := Rmax (fst p) (snd p)).
  assert (HmM : m <= M) by (unfold m, M, Rmin, Rmax; destruct (Rle_dec (fst p) (snd p)); lra).
  assert (HM0 : 0 <= M).
  { destruct (Rle_dec 0 M); [assumption|]. exfalso. apply Ho. left.
    unfold M, Rmax in *. destruct (Rle_dec (fst p) (snd p)); lra. }
  assert (Hmn : m < IZR n).
  { destruct (Rlt_dec m (IZR n)); [assumption|]. exfalso. apply Ho. right.
    unfold m, Rmin in *. destruct (Rle_dec (fst p) (snd p)); lra. }
  assert (Hlo : Rmax m 0 <= M) by (apply Rmax_lub; assumption).
  assert (Hlon : Rmax m 0 < IZR n).
  { apply Rmax_lub_lt; [assumption|]. apply (IZR_lt 0). lia. }
  assert (F1 : (Zfloor (Rmax m 0) <= Zceil M)%Z).
  { apply le_IZR. pose proof (Zfloor_lb (Rmax m 0)). pose proof (Zceil_ub M). lra. }
  assert (F2 : (Zfloor (Rmax m 0) < n)%Z) by (apply Zfloor_lt_of; exact Hlon).
  assert (F3 : (0 <= Zceil M)%Z) by (apply Zceil_ge0; lra).
  lia.
Qed.

Lemma slices_ok a b sx sy : wf_area a -> crop_slices RO true true a b = Slices sx sy ->
  ((0 <= sstart sx < sstop sx)%Z /\ (sstart sx < width a)%Z) /\ ((0 <= sstart sy < sstop sy)%Z /\ (sstart sy < height a)%Z).
Proof.
  intros Hwf E. destruct b as [[[minx miny] maxx] maxy].
  rewrite crop_slices_cases, bounds_to_arr_R in E. cbn [negb fst snd] in E.
  destruct (all_outside RO a _ _) eqn:AO; [discriminate|]. inversion E; subst; clear E.
  assert (NO : ~ (outside_axis (width a) (arr_of_proj_x RO a minx, arr_of_proj_x RO a maxx) \/
                  outside_axis (height a) (arr_of_proj_y RO a miny, arr_of_proj_y RO a maxy))).
  { intros H. apply all_outside_R in H. congruence. }
  destruct Hwf as (Hw & Hh & _).
  split; apply expand_raw_ok; try assumption; intros H; apply NO; [left|right]; exact H.
Qed.

(* ---------------- the area's own grid map as the affine field of the search ---------------- *)
Section AreaSource.
  Variable a : area R.
  Hypothesis Hwf : wf_area a.

  Definition ax0 : R := xmin a + dxR a / 2.
  Definition ay0 : R := ymax a - dyR a / 2.
  (* sx(l,p) = ax0 + 0*l + dx*p ; sy(l,p) = ay0 + (-dy)*l + 0*p *)
  Definition area_fields : fields R := affF ax0 ay0 0 (dxR a) (- dyR a) 0.

  Lemma area_fields_are_proj_coords l p :
    f_sx area_fields l p = proj_x RO a p /\ f_sy area_fields l p = proj_y RO a l.
  Proof.
    unfold area_fields, affF, ax0, ay0. cbn [f_sx f_sy]. rewrite proj_x_canonical, proj_y_canonical. split; lra.
  Qed.
  Lemma area_det : - dyR a * dxR a - 0 * 0 <> 0.
  Proof. pose proof (dx_nonzero a Hwf). pose proof (dy_nonzero a Hwf). nra. Qed.
  Lemma exact_is_array_index tx ty :
    exactP ax0 ay0 0 (dxR a) (- dyR a) 0 tx ty = arr_of_proj_x RO a tx /\
    exactL ax0 ay0 0 (dxR a) (- dyR a) 0 tx ty = arr_of_proj_y RO a ty.
  Proof.
    pose proof (dx_nonzero a Hwf). pose proof (dy_nonzero a Hwf).
    rewrite arr_of_proj_x_canonical, arr_of_proj_y_canonical by exact Hwf.
    unfold exactP, exactL, ax0, ay0. split; field; nra.
  Qed.

  (* ---------------- crop_source_area through AreaSlicer ---------------- *)
  Variable valid inter : pslice -> pslice -> bool.               (* shapely: polygon validity, intersects(area to crop) *)
  Variable bbox : pslice -> pslice -> R * R * R * R.             (* shapely: bounds of the buffered polygon of the block *)
  Variable dst : Z -> Z -> R * R.

  (* source_geo_def[y_slice, x_slice]: numpy clamps the stop at the size *)
  Definition norm_slice (n : Z) (s : pslice) : pslice := mk_slice (sstart s) (Z.min (sstop s) n).
  Definition c11_crop (rs cs : pslice) : option (pslice * pslice) :=
    match crop_slices RO (valid rs cs) (inter rs cs) a (bbox rs cs) with
    | Slices sx sy => Some (norm_slice (height a) sy, norm_slice (width a) sx)
    | NoOverlap _ => None
    end.

  Definition in_block (rs cs : pslice) (i j : Z) : Prop :=
    (sstart rs <= i < sstart rs + slen rs)%Z /\ (sstart cs <= j < sstart cs + slen cs)%Z.
  (* C11's H_poly for the block: the bbox contains the source-CRS image of every pixel centre of the block *)
  Definition H_poly_block (rs cs : pslice) : Prop := forall i j, in_block rs cs i j -> in_bbox (bbox rs cs) (dst i j).
  (* shapely's bits (taken as true in C11): true for a block that has a pixel on the grid of centres *)
  Definition H_bits_block (rs cs : pslice) : Prop :=
    forall i j, in_block rs cs i j -> on_grid a (dst i j) -> valid rs cs = true /\ inter rs cs = true.

  Notation pLa := (pL ax0 ay0 0 (dxR a) (- dyR a) 0 dst).
  Notation pPa := (pP ax0 ay0 0 (dxR a) (- dyR a) 0 dst).

  Lemma inside_on_grid i j : inside (height a - 1) (width a - 1) (pLa i j) (pPa i j) = true -> on_grid a (dst i j).
  Proof.
    intros I. apply inside_true in I. unfold pL, pP in I.
    destruct (exact_is_array_index (fst (dst i j)) (snd (dst i j))) as [EP EL]. rewrite EP, EL in I.
    rewrite !minus_IZR in I. unfold on_grid. lra.
  Qed.

  Theorem H_crop_from_C11 rs cs : H_poly_block rs cs -> H_bits_block rs cs ->
    H_crop_block ax0 ay0 0 (dxR a) (- dyR a) 0 (height a) (width a) dst c11_crop rs cs.
  Proof.
    intros HP HB. split.
    - intros ys xs E. unfold c11_crop in E.
      destruct (crop_slices RO (valid rs cs) (inter rs cs) a (bbox rs cs)) as [sx sy|] eqn:C; [|discriminate].
      inversion E; subst; clear E.
      assert (C' : crop_slices RO true true a (bbox rs cs) = Slices sx sy).
      { destruct (valid rs cs), (inter rs cs); try exact C; rewrite crop_slices_cases in C; cbn in C; discriminate. }
      destruct (slices_ok a _ sx sy Hwf C') as [[X0 X1] [Y0 Y1]].
      unfold crop_ok, norm_slice. cbn [sstart sstop]. lia.
    - intros i j Hi Hj I. pose proof (inside_on_grid i j I) as OG.
      unfold c11_crop. destruct (HB i j (conj Hi Hj) OG) as [-> ->].
      pose proof (HP i j (conj Hi Hj)) as IB.
      destruct (bbox rs cs) as [[[minx miny] maxx] maxy] eqn:BB. cbn in IB. destruct IB as [Bx By].
      destruct OG as [Gx Gy].
      destruct (bounds_to_slices_sound a minx miny maxx maxy (fst (dst i j)) (snd (dst i j)) Hwf Bx By Gx Gy)
        as (sx & sy & C & Kx & Ky & _).
      rewrite C. do 2 eexists. split; [reflexivity|].
      destruct (slices_ok a _ sx sy Hwf C) as [[X0 X1] [Y0 Y1]].
      apply inside_true in I. unfold pL, pP in *.
      destruct (exact_is_array_index (fst (dst i j)) (snd (dst i j))) as [EP EL]. rewrite EP, EL in *.
      set (P := arr_of_proj_x RO a (fst (dst i j))) in *. set (L := arr_of_proj_y RO a (snd (dst i j))) in *.
      rewrite !minus_IZR in I. destruct I as [[L0 L1] [P0 P1]].
      assert (FL : (0 <= Zfloor L)%Z) by (apply Zfloor_lub; exact L0).
      assert (FP : (0 <= Zfloor P)%Z) by (apply Zfloor_lub; exact P0).
      assert (CL : (Zceil L <= height a - 1)%Z) by (apply Zceil_glb; rewrite minus_IZR; exact L1).
      assert (CP : (Zceil P <= width a - 1)%Z) by (apply Zceil_glb; rewrite minus_IZR; exact P1).
      pose proof (Zfloor_lb L). pose proof (Zceil_ub L). pose proof (Zfloor_lb P). pose proof (Zceil_ub P).
      assert (FCL : (Zfloor L <= Zceil L)%Z) by (apply le_IZR; lra).
      assert (FCP : (Zfloor P <= Zceil P)%Z) by (apply le_IZR; lra).
      pose proof (Ky (Zfloor L) ltac:(lia)) as A1. pose proof (Ky (Zceil L) ltac:(lia)) as A2.
      pose proof (Kx (Zfloor P) ltac:(lia)) as B1. pose proof (Kx (Zceil P) ltac:(lia)) as B2.
      unfold in_slice, clip in A1, A2, B1, B2.
      rewrite Z.min_l, Z.max_r in A1, A2, B1, B2 by lia.
      unfold in_crop, norm_slice, slen. cbn [sstart sstop]. apply inside_true.
      rewrite !Z.max_r by lia. rewrite !minus_IZR.
      assert (IZR (sstart sy) <= IZR (Zfloor L)) by (apply IZR_le; lia).
      assert (IZR (sstart sx) <= IZR (Zfloor P)) by (apply IZR_le; lia).
      assert (IZR (Zceil L) <= IZR (Z.min (sstop sy) (height a)) - 1) by (rewrite <- minus_IZR; apply IZR_le; lia).
      assert (IZR (Zceil P) <= IZR (Z.min (sstop sx) (width a)) - 1) by (rewrite <- minus_IZR; apply IZR_le; lia).
      simpl (IZR 1). lra.
  Qed.

  (* for a decomposition *)
  Definition H_poly_blocks (rows cols : list Z) : Prop :=
    forall rs cs, In rs (axis_slices rows) -> In cs (axis_slices cols) -> H_poly_block rs cs /\ H_bits_block rs cs.

  Lemma H_crop_of_H_poly rows cols : H_poly_blocks rows cols ->
    H_crop ax0 ay0 0 (dxR a) (- dyR a) 0 (height a) (width a) dst c11_crop rows cols.
  Proof. intros H rs cs Irs Ics. destruct (H rs cs Irs Ics). apply H_crop_from_C11; assumption. Qed.
End AreaSource.

Section ChunksFromC11.
  Variable a : area R.
  Hypothesis Hwf : wf_area a.
  Hypothesis Hh : (height a <= 2 ^ 31)%Z.
  Hypothesis Hw : (width a <= 2 ^ 31)%Z.
  Variable D : Z -> Z -> R.
  Variable dst : Z -> Z -> R * R.
  Variable valid inter : pslice -> pslice -> bool.
  Variable bbox : pslice -> pslice -> R * R * R * R.

  Let Fc := fun ys xs : pslice => shift_fields (area_fields a) (sstart ys) (sstart xs).
  Let crop := c11_crop a valid inter bbox.
  Let bspec := fun i j : Z =>
    let L := arr_of_proj_y RO a (snd (dst i j)) in let P := arr_of_proj_x RO a (fst (dst i j)) in
    if inside (height a - 1) (width a - 1) L P then Some (bilin4 D (Zfloor L) (Zfloor P) L P) else None.

  Lemma spec_rewrite i j :
    point_spec (ax0 a) (ay0 a) 0 (dxR a) (- dyR a) 0 (height a) (width a) dst (bil_value D) i j = bspec i j.
  Proof.
    unfold point_spec, bspec, pL, pP, bil_value.
    destruct (exact_is_array_index a Hwf (fst (dst i j)) (snd (dst i j))) as [-> ->]. reflexivity.
  Qed.

  Lemma bil_from_C11 rows cols :
    Forall (fun x => (0 <= x)%Z) rows -> Forall (fun x => (0 <= x)%Z) cols ->
    H_poly_blocks a valid inter bbox dst rows cols ->
    resample RO Fc crop dst D (block_bil RO) rows cols = tab bspec 0 (sumZ rows) 0 (sumZ cols).
  Proof.
    intros Hr Hc HP. destruct Hwf as (W1 & H1 & _).
    unfold Fc, crop, area_fields.
    rewrite (bil_any_chunking (ax0 a) (ay0 a) 0 (dxR a) (- dyR a) 0 (area_det a Hwf) (height a) (width a)
               ltac:(lia) ltac:(lia) D dst (c11_crop a valid inter bbox) rows cols Hr Hc (H_crop_of_H_poly a Hwf valid inter bbox dst rows cols HP)).
    apply tab_ext_in. intros i j _ _. apply spec_rewrite.
  Qed.

  Theorem chunk_invariant_from_C11 rows cols rows' cols' :
    Forall (fun x => (0 <= x)%Z) rows -> Forall (fun x => (0 <= x)%Z) cols ->
    Forall (fun x => (0 <= x)%Z) rows' -> Forall (fun x => (0 <= x)%Z) cols' ->
    sumZ rows = sumZ rows' -> sumZ cols = sumZ cols' ->
    H_poly_blocks a valid inter bbox dst rows cols -> H_poly_blocks a valid inter bbox dst rows' cols' ->
    resample RO Fc crop dst D (block_bil RO) rows cols = tab bspec 0 (sumZ rows) 0 (sumZ cols)
    /\ resample RO Fc crop dst D (block_bil RO) rows cols = resample RO Fc crop dst D (block_bil RO) rows' cols'.
  Proof.
    intros Hr Hc Hr' Hc' Sr Sc HP HP'. split; [apply bil_from_C11; assumption|].
    rewrite (bil_from_C11 rows cols Hr Hc HP), (bil_from_C11 rows' cols' Hr' Hc' HP'), Sr, Sc. reflexivity.
  Qed.

  Theorem chunk_invariant_nn_from_C11 rows cols rows' cols' :
    Forall (fun x => (0 <= x)%Z) rows -> Forall (fun x => (0 <= x)%Z) cols ->
    Forall (fun x => (0 <= x)%Z) rows' -> Forall (fun x => (0 <= x)%Z) cols' ->
    sumZ rows = sumZ rows' -> sumZ cols = sumZ cols' ->
    H_poly_blocks a valid inter bbox dst rows cols -> H_poly_blocks a valid inter bbox dst rows' cols' ->
    H_notie (ax0 a) (ay0 a) 0 (dxR a) (- dyR a) 0 (height a) (width a) dst rows cols ->
    H_notie (ax0 a) (ay0 a) 0 (dxR a) (- dyR a) 0 (height a) (width a) dst rows' cols' ->
    resample RO Fc crop dst D (block_nn RO) rows cols = resample RO Fc crop dst D (block_nn RO) rows' cols'.
  Proof.
    intros Hr Hc Hr' Hc' Sr Sc HP HP' HT HT'. destruct Hwf as (W1 & H1 & _). unfold Fc, crop, area_fields.
    rewrite (nn_any_chunking (ax0 a) (ay0 a) 0 (dxR a) (- dyR a) 0 (area_det a Hwf) (height a) (width a)
               ltac:(lia) ltac:(lia) D dst (c11_crop a valid inter bbox) rows cols Hr Hc (H_crop_of_H_poly a Hwf valid inter bbox dst rows cols HP) HT).
    rewrite (nn_any_chunking (ax0 a) (ay0 a) 0 (dxR a) (- dyR a) 0 (area_det a Hwf) (height a) (width a)
               ltac:(lia) ltac:(lia) D dst (c11_crop a valid inter bbox) rows' cols' Hr' Hc' (H_crop_of_H_poly a Hwf valid inter bbox dst rows' cols' HP') HT').
    rewrite Sr, Sc. reflexivity.
  Qed.
End ChunksFromC11.

Lemma H_poly_blocks_example rows cols :
  H_poly_blocks unit4 (fun _ _ => true) (fun _ _ => true) (fun _ _ => (0, 0, 4, 4))
                (fun i j => (IZR (Z.max 0 (Z.min 3 j)) + / 2, 4 - IZR (Z.max 0 (Z.min 3 i)) - / 2)) rows cols.
Proof.
  intros rs cs _ _. split.
  - intros i j _. unfold in_bbox. cbn [fst snd].
    assert (0 <= IZR (Z.max 0 (Z.min 3 j)) <= 3) by (split; [apply (IZR_le 0) | apply (IZR_le _ 3)]; lia).
    assert (0 <= IZR (Z.max 0 (Z.min 3 i)) <= 3) by (split; [apply (IZR_le 0) | apply (IZR_le _ 3)]; lia).
    lra.
  - intros i j _ _. split; reflexivity.
Qed.
