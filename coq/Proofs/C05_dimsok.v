(* C05: data dims the resamplers accept carry the geometry's dims consecutively and IN THE GEOMETRY'S ORDER. *)
From Coq Require Import ZArith List Lia Bool.
From PR Require Import Base.ListX Model.Blockwise Model.BlockwiseValid.
Import ListNotations.
Open Scope Z_scope.

Lemma list_eqb_Z a : forall b, list_eqb Z.eqb a b = true -> a = b.
Proof.
  induction a as [|x a IH]; intros [|y b] H; cbn in H; try discriminate; [reflexivity|].
  apply andb_prop in H. destruct H as [H1 H2]. apply Z.eqb_eq in H1. subst. f_equal. apply IH. exact H2.
Qed.

Lemma memb_self geo d : In d geo -> memb d geo = true.
Proof. intros H. unfold memb. apply existsb_exists. exists d. split; [exact H|apply Z.eqb_refl]. Qed.

Lemma filter_all {A} (p : A -> bool) l : (forall x, In x l -> p x = true) -> filter p l = l.
Proof. induction l as [|x l IH]; intros H; cbn; [reflexivity|]. rewrite H by (left; reflexivity). f_equal. apply IH. intros; apply H; right; assumption. Qed.

Lemma filter_nil_forall {A} (p : A -> bool) l : filter p l = [] -> Forall (fun x => p x = false) l.
Proof.
  induction l as [|x l IH]; cbn; intros H; [constructor|]. destruct (p x) eqn:E; [discriminate|]. constructor; [exact E|apply IH; exact H].
Qed.

Theorem geo_dims_ok_spec dims geo : geo_dims_ok dims geo = true ->
  exists lead trail, dims = lead ++ geo ++ trail /\
    Forall (fun d => memb d geo = false) lead /\ Forall (fun d => memb d geo = false) trail.
Proof.
  unfold geo_dims_ok. intros H. apply andb_prop in H. destruct H as [H1 H2].
  apply list_eqb_Z in H1. apply list_eqb_Z in H2. rewrite H1 in H2.
  set (i := zindex (hd 0 geo) dims) in *.
  exists (firstn i dims), (skipn (length geo) (skipn i dims)).
  assert (Hd : dims = firstn i dims ++ geo ++ skipn (length geo) (skipn i dims)).
  { rewrite <- H2 at 1. rewrite firstn_skipn. symmetry. apply firstn_skipn. }
  split; [exact Hd|].
  rewrite Hd in H1. rewrite !filter_app in H1.
  rewrite (filter_all _ geo) in H1 by (intros x Hx; apply memb_self; exact Hx).
  assert (Hl : (length (filter (fun d => memb d geo) (firstn i dims)) + length geo
                + length (filter (fun d => memb d geo) (skipn (length geo) (skipn i dims))) = length geo)%nat).
  { rewrite <- H1 at 3. rewrite !app_length. lia. }
  split; apply filter_nil_forall; apply length_zero_iff_nil; lia.
Qed.
