(* C15: the definitions regenerated from pyresample/_multi_proc.py on every run (Gen/GenC15.v) agree with the
   model the theorems are about (Model/Sched.v). *)
From Coq Require Import ZArith List Lia Bool Arith.
From PR Require Import Model.Sched Model.SchedGen Model.C15_run Gen.GenC15 Proofs.C15_inv.
Import ListNotations.
Open Scope Z_scope.

(* ---------- Scheduler.__init__ ---------- *)
(* the generated specialisation that applies to a configuration *)
Definition gen_init (c : cfg) : Z * Z * Z * Z :=
  match knd c, chunk c with
  | Guided, None => gen_init_guided_none (n c) (nprocs c) tt tt
  | Guided, Some x => gen_init_guided_int (n c) (nprocs c) x tt
  | Dynamic, None => gen_init_dynamic_none (n c) (nprocs c) tt tt
  | Dynamic, Some x => gen_init_dynamic_int (n c) (nprocs c) x tt
  | Static, None => gen_init_static_none (n c) (nprocs c) tt tt
  | Static, Some x => gen_init_static_int (n c) (nprocs c) x tt
  end.

(* __init__ as written: 64-bit stores of ndata and 0 into the shared counters, and the chunk rule of the model *)
Lemma gen_init_spec c : bits c = 64 ->
  gen_init c = (ndata (init c), start (init c), nprocs c, init_chunk c).
Proof.
  intros Hb. unfold gen_init, init, init_chunk, truthy; cbn [ndata start]. rewrite Hb.
  destruct (knd c); destruct (chunk c) as [x|]; cbv beta delta [gen_init_guided_none gen_init_guided_int
    gen_init_dynamic_none gen_init_dynamic_int gen_init_static_none gen_init_static_int]; cbv zeta;
    try reflexivity; destruct (x =? 0); reflexivity.
Qed.

(* ---------- Scheduler.__iter__ ---------- *)
Definition gen_iter (c : cfg) (nd st : Z) : Z * Z * trace :=
  match knd c with
  | Guided => gen_iter_guided (bits c) (init_chunk c) (nprocs c) tt nd st []
  | Dynamic => gen_iter_dynamic (bits c) (init_chunk c) (nprocs c) tt nd st []
  | Static => gen_iter_static (bits c) (init_chunk c) (nprocs c) tt nd st []
  end.

(* one critical section of the model, run without interruption from the top of the loop *)
Lemma cs_steps_spec c s w : pcs s w = PIdle -> lock s = None ->
  let nd := ndata s in let st := start s in let ch := chunk_of c nd in
  let s' := cs_steps 6 c s w in
  lock s' = None /\ wdone s' = wdone s /\
  if nd =? 0 then ndata s' = nd /\ start s' = st /\ pcs s' w = PDone /\ out s' = out s
  else if nd <? ch then
    ndata s' = wrap (bits c) 0 /\ start s' = st /\ pcs s' w = PWork st (st + nd) /\ out s' = out s ++ [(w, (st, st + nd))]
  else
    ndata s' = wrap (bits c) (nd - ch) /\ start s' = wrap (bits c) (st + ch) /\
    pcs s' w = PWork st (st + ch) /\ out s' = out s ++ [(w, (st, st + ch))].
Proof.
  intros Hpc Hl. cbv zeta.
  (* acquire *)
  cbn [cs_steps]. unfold step at 1. rewrite Hpc, Hl. cbn [pcs]. rewrite upd_same.
  (* read ndata *)
  unfold step at 1. cbn [pcs set_pc]. rewrite upd_same. cbn [pcs ndata start lock out wdone]. rewrite upd_same.
  (* read start *)
  unfold step at 1. cbn [pcs set_pc ndata start lock out wdone]. rewrite upd_same. cbn [pcs]. rewrite upd_same.
  (* branch *)
  unfold step at 1. cbn [pcs ndata start lock out wdone]. rewrite upd_same.
  destruct (ndata s =? 0) eqn:E0.
  - cbn [pcs ndata start lock out wdone]. rewrite upd_same. repeat split; reflexivity.
  - destruct (ndata s <? chunk_of c (ndata s)) eqn:E1.
    + cbn [pcs ndata start lock out wdone]. rewrite upd_same.
      unfold step at 1. cbn [pcs ndata start lock out wdone]. rewrite upd_same. cbn [pcs]. rewrite upd_same.
      repeat split; reflexivity.
    + cbn [pcs ndata start lock out wdone]. rewrite upd_same.
      unfold step at 1. cbn [pcs ndata start lock out wdone]. rewrite upd_same. cbn [pcs]. rewrite upd_same.
      unfold step at 1. cbn [pcs ndata start lock out wdone]. rewrite upd_same. cbn [pcs]. rewrite upd_same.
      repeat split; reflexivity.
Qed.

(* __iter__ as written: the trace of one loop iteration respects the lock discipline (acquire; only counter
   reads/writes; release; then yield or return) and its net effect - new counters, yielded slice or return - is
   that of the model's critical section, for every value of the counters *)
Lemma gen_iter_spec c s w : pcs s w = PIdle -> lock s = None ->
  let '(nd', st', tr) := gen_iter c (ndata s) (start s) in
  let s' := cs_steps 6 c s w in
  ndata s' = nd' /\ start s' = st' /\ lock s' = None /\ wdone s' = wdone s /\
  match cs_outcome tr with
  | Some (Some (a, b)) => pcs s' w = PWork a b /\ out s' = out s ++ [(w, (a, b))]
  | Some None => pcs s' w = PDone /\ out s' = out s
  | None => False
  end.
Proof.
  intros Hpc Hl. pose proof (cs_steps_spec c s w Hpc Hl) as H. cbv zeta in H.
  destruct H as (Hlk & Hwd & H).
  unfold gen_iter, chunk_of in *.
  destruct (knd c);
    cbv beta delta [gen_iter_guided gen_iter_dynamic gen_iter_static ev_acquire ev_read_ndata ev_read_start
                    ev_write_ndata ev_write_start ev_release ev_yield ev_return]; cbv zeta;
    rewrite ?Z.gtb_ltb;
    destruct (ndata s =? 0); cbn [negb];
    try (destruct H as (H1 & H2 & H3 & H4); cbn; repeat split; assumption);
    match goal with |- context [?a <? ?b] => destruct (a <? b) end;
    destruct H as (H1 & H2 & H3 & H4); cbn; repeat split; assumption.
Qed.

(* the lock discipline alone, as a boolean fact about the generated trace *)
Lemma gen_iter_disciplined c nd st : cs_outcome (snd (gen_iter c nd st)) <> None.
Proof.
  unfold gen_iter.
  destruct (knd c);
    cbv beta delta [gen_iter_guided gen_iter_dynamic gen_iter_static ev_acquire ev_read_ndata ev_read_start
                    ev_write_ndata ev_write_start ev_release ev_yield ev_return]; cbv zeta;
    destruct (nd =? 0); cbn [negb]; try (cbn; discriminate);
    match goal with |- context [?a >? ?b] => destruct (a >? b) end; cbn; discriminate.
Qed.
