(* C15: the definitions regenerated from pyresample/_multi_proc.py on every run (Gen/GenC15.v) agree with the
   model the theorems are about (Model/Sched.v). *)
From Coq Require Import ZArith List Lia Bool Arith.
From PR Require Import Model.Sched Model.SchedGen Model.C15_run Gen.GenC15 Proofs.C15_inv.
Import ListNotations.
Open Scope Z_scope.

(* ---------- Scheduler.__init__ ---------- *)
(* the generated specialisation that applies to a configuration *)
Definition gen_init (c : cfg) : Z * Z * Z * Z :=
  match knd c, chunk c with
  | Guided, None => gen_init_guided_none (n c) (nprocs c) tt tt
  | Guided, Some x => gen_init_guided_int (n c) (nprocs c) x tt
  | Dynamic, None => gen_init_dynamic_none (n c) (nprocs c) tt tt
  | Dynamic, Some x => gen_init_dynamic_int (n c) (nprocs c) x tt
  | Static, None => gen_init_static_none (n c) (nprocs c) tt tt
  | Static, Some x => gen_init_static_int (n c) (nprocs c) x tt
  end.

(* __init__ as written: 64-bit stores of ndata and 0 into the shared counters, and the chunk rule of the model *)
Lemma gen_init_spec c : bits c = 64 ->
  gen_init c = (ndata (init c), start (init c), nprocs c, init_chunk c).
Proof.
  intros Hb. unfold gen_init, init, init_chunk, truthy; cbn [ndata start]. rewrite Hb.
  (* equal as integer expressions (not only syntactically): robust against e.g. max(1, x) for max(x, 1) *)
  destruct (knd c); destruct (chunk c) as [x|]; cbv beta delta [gen_init_guided_none gen_init_guided_int
    gen_init_dynamic_none gen_init_dynamic_int gen_init_static_none gen_init_static_int]; cbv zeta;
    try (destruct (Z.eqb_spec x 0)); cbn [negb];
    repeat match goal with |- (_, _) = (_, _) => apply f_equal2 end; try reflexivity;
    repeat match goal with |- context [?a / ?b] => generalize (a / b); intro end; lia.
Qed.

(* ---------- Scheduler.__iter__ ---------- *)
(* evaluate lists, tuples and the comparisons of action codes, leave the integer expressions of the source alone *)
Ltac ev := cbn -[Z.add Z.sub Z.div Z.max Z.mul wrap init_chunk Z.ltb Z.gtb].

Definition gen_iter (c : cfg) (nd st : Z) : Z * Z * trace :=
  match knd c with
  | Guided => gen_iter_guided (bits c) (init_chunk c) (nprocs c) tt nd st []
  | Dynamic => gen_iter_dynamic (bits c) (init_chunk c) (nprocs c) tt nd st []
  | Static => gen_iter_static (bits c) (init_chunk c) (nprocs c) tt nd st []
  end.

(* one critical section of the model, run without interruption from the top of the loop *)
Lemma cs_unfold f c s w :
  cs_steps (S f) c s w =
  match pcs (step c s w) w with PWork _ _ | PDone => step c s w | _ => cs_steps f c (step c s w) w end.
Proof. reflexivity. Qed.

Lemma step_at c s w p : pcs s w = p ->
  step c s w =
  match p with
  | PIdle => match lock s with
             | None => mk_state (ndata s) (start s) (Some w) (upd (pcs s) w PLocked) (out s) (wdone s)
             | Some _ => s end
  | PLocked => set_pc s w (PReadN (ndata s))
  | PReadN nd => set_pc s w (PReadS nd (start s))
  | PReadS nd st =>
      let ch := chunk_of c nd in
      if nd =? 0 then mk_state (ndata s) (start s) None (upd (pcs s) w PDone) (out s) (wdone s)
      else if nd <? ch then
        mk_state (wrap (bits c) 0) (start s) (lock s) (upd (pcs s) w (PRelease st (st + nd))) (out s) (wdone s)
      else mk_state (wrap (bits c) (nd - ch)) (start s) (lock s) (upd (pcs s) w (PWroteN nd st ch)) (out s) (wdone s)
  | PWroteN nd st ch =>
      mk_state (ndata s) (wrap (bits c) (st + ch)) (lock s) (upd (pcs s) w (PRelease st (st + ch))) (out s) (wdone s)
  | PRelease s0 s1 =>
      mk_state (ndata s) (start s) None (upd (pcs s) w (PWork s0 s1)) (out s ++ [(w, (s0, s1))]) (wdone s)
  | PWork s0 s1 => mk_state (ndata s) (start s) (lock s) (upd (pcs s) w PIdle) (out s) (wdone s ++ [(s0, s1)])
  | PDone => s
  end.
Proof. intros <-. reflexivity. Qed.

Lemma cs_steps_spec c s w : pcs s w = PIdle -> lock s = None ->
  let nd := ndata s in let st := start s in let ch := chunk_of c nd in
  let s' := cs_steps 6 c s w in
  lock s' = None /\ wdone s' = wdone s /\
  if nd =? 0 then ndata s' = nd /\ start s' = st /\ pcs s' w = PDone /\ out s' = out s
  else if nd <? ch then
    ndata s' = wrap (bits c) 0 /\ start s' = st /\ pcs s' w = PWork st (st + nd) /\ out s' = out s ++ [(w, (st, st + nd))]
  else
    ndata s' = wrap (bits c) (nd - ch) /\ start s' = wrap (bits c) (st + ch) /\
    pcs s' w = PWork st (st + ch) /\ out s' = out s ++ [(w, (st, st + ch))].
Proof.
  intros Hpc Hl. cbv zeta.
  (* acquire *)
  rewrite cs_unfold. rewrite (step_at c s w PIdle Hpc), Hl.
  set (s1 := mk_state (ndata s) (start s) (Some w) (upd (pcs s) w PLocked) (out s) (wdone s)).
  assert (H1 : pcs s1 w = PLocked) by apply upd_same. rewrite H1.
  (* read ndata *)
  rewrite cs_unfold. rewrite (step_at c s1 w PLocked H1).
  set (s2 := set_pc s1 w (PReadN (ndata s1))).
  assert (H2 : pcs s2 w = PReadN (ndata s)) by apply upd_same. rewrite H2.
  (* read start *)
  rewrite cs_unfold. rewrite (step_at c s2 w _ H2).
  set (s3 := set_pc s2 w (PReadS (ndata s) (start s2))).
  assert (H3 : pcs s3 w = PReadS (ndata s) (start s)) by apply upd_same. rewrite H3.
  (* branch *)
  rewrite cs_unfold. rewrite (step_at c s3 w _ H3). cbv zeta.
  destruct (ndata s =? 0) eqn:E0.
  - set (s4 := mk_state _ _ _ _ _ _). assert (H4 : pcs s4 w = PDone) by apply upd_same. rewrite H4.
    repeat split; assumption || reflexivity.
  - destruct (ndata s <? chunk_of c (ndata s)) eqn:E1.
    + set (s4 := mk_state _ _ _ _ _ _).
      assert (H4 : pcs s4 w = PRelease (start s) (start s + ndata s)) by apply upd_same. rewrite H4.
      rewrite cs_unfold. rewrite (step_at c s4 w _ H4).
      set (s5 := mk_state _ _ _ _ _ _).
      assert (H5 : pcs s5 w = PWork (start s) (start s + ndata s)) by apply upd_same. rewrite H5.
      repeat split; assumption || reflexivity.
    + set (s4 := mk_state _ _ _ _ _ _).
      assert (H4 : pcs s4 w = PWroteN (ndata s) (start s) (chunk_of c (ndata s))) by apply upd_same. rewrite H4.
      rewrite cs_unfold. rewrite (step_at c s4 w _ H4).
      set (s5 := mk_state _ _ _ _ _ _).
      assert (H5 : pcs s5 w = PRelease (start s) (start s + chunk_of c (ndata s))) by apply upd_same. rewrite H5.
      rewrite cs_unfold. rewrite (step_at c s5 w _ H5).
      set (s6 := mk_state _ _ _ _ _ _).
      assert (H6 : pcs s6 w = PWork (start s) (start s + chunk_of c (ndata s))) by apply upd_same. rewrite H6.
      repeat split; assumption || reflexivity.
Qed.

(* __iter__ as written: the trace of one loop iteration respects the lock discipline (acquire; only counter
   reads/writes; release; then yield or return) and its net effect - new counters, yielded slice or return - is
   that of the model's critical section, for every value of the counters *)
Lemma gen_iter_spec c s w : pcs s w = PIdle -> lock s = None ->
  let '(nd', st', tr) := gen_iter c (ndata s) (start s) in
  let s' := cs_steps 6 c s w in
  ndata s' = nd' /\ start s' = st' /\ lock s' = None /\ wdone s' = wdone s /\
  match cs_outcome tr with
  | Some (Some (a, b)) => pcs s' w = PWork a b /\ out s' = out s ++ [(w, (a, b))]
  | Some None => pcs s' w = PDone /\ out s' = out s
  | None => False
  end.
Proof.
  intros Hpc Hl. pose proof (cs_steps_spec c s w Hpc Hl) as H. cbv zeta in H.
  destruct H as (Hlk & Hwd & H).
  set (s' := cs_steps 6 c s w) in *. clearbody s'.
  unfold gen_iter, chunk_of in *.
  destruct (knd c);
    cbv beta delta [gen_iter_guided gen_iter_dynamic gen_iter_static ev_acquire ev_read_ndata ev_read_start
                    ev_write_ndata ev_write_start ev_release ev_yield ev_return]; cbv zeta;
    rewrite ?Z.gtb_ltb;
    destruct (ndata s =? 0); cbn [negb];
    try (destruct H as (H1 & H2 & H3 & H4); ev; repeat split; assumption);
    match goal with |- context [?a <? ?b] => destruct (a <? b) end;
    destruct H as (H1 & H2 & H3 & H4); ev; repeat split; assumption.
Qed.

(* the lock discipline alone, as a boolean fact about the generated trace *)
Lemma gen_iter_disciplined c nd st : cs_outcome (snd (gen_iter c nd st)) <> None.
Proof.
  unfold gen_iter.
  destruct (knd c);
    cbv beta delta [gen_iter_guided gen_iter_dynamic gen_iter_static ev_acquire ev_read_ndata ev_read_start
                    ev_write_ndata ev_write_start ev_release ev_yield ev_return]; cbv zeta;
    destruct (nd =? 0); cbn [negb]; try (ev; discriminate);
    match goal with |- context [?a >? ?b] => destruct (a >? b) end; ev; discriminate.
Qed.
