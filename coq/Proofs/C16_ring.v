(* C16 - the ring of pixel indices: on the outer rows/columns, closed, free of repetitions exactly when the
   number of vertices per side does not exceed the side, and reversal = mirror traversal. *)
From Coq Require Import ZArith List Lia Bool Arith.
From PR Require Import Base.ListX Model.Boundary Proofs.C16_idx.
Import ListNotations.
Open Scope Z_scope.

Definition c_sides_num := sides_num idx_list idx_list_desc.
Definition c_sides := bbox_sides idx_list idx_list_desc.
Definition c_sides_unclipped := bbox_sides_unclipped idx_list idx_list_desc.

Definition vps_ok (vps : option Z) : Prop := match vps with None => True | Some v => 2 <= v end.
Definition on_edge (h w : Z) (p : pix) : Prop :=
  0 <= fst p < h /\ 0 <= snd p < w /\ (fst p = 0 \/ fst p = h - 1 \/ snd p = 0 \/ snd p = w - 1).

Lemma num_of_ge2 vps n : 2 <= n -> vps_ok vps -> (2 <= num_of vps n)%nat.
Proof. intros Hn Hv. destruct vps as [v|]; cbn in *; lia. Qed.

Lemma num_of_le vps n : 2 <= n -> Z.of_nat (num_of vps n) <= n.
Proof. intros Hn. destruct vps as [v|]; cbn; lia. Qed.

(* ------------------------------------------------------------------ membership in the tables *)
Lemma in_idx_list n m x : In x (idx_list n m) -> exists i, (i < m)%nat /\ x = idx n m i.
Proof.
  unfold idx_list. intros H. apply in_map_iff in H. destruct H as [i [<- Hi]].
  apply in_seq in Hi. exists i. split; [lia|reflexivity].
Qed.

Lemma in_idx_list_desc n m x : In x (idx_list_desc n m) -> exists i, (i < m)%nat /\ x = idx n m i.
Proof.
  rewrite idx_list_desc_rev. intros H. apply in_rev in H. apply in_idx_list. exact H.
Qed.

Lemma on_edge_sides_num h w rn cn : 2 <= h -> 2 <= w -> (2 <= rn)%nat -> (2 <= cn)%nat ->
  Forall (Forall (on_edge h w)) (c_sides_num h w rn cn).
Proof.
  intros Hh Hw Hr Hc. unfold c_sides_num, sides_num.
  repeat constructor; apply Forall_forall; intros p Hp; apply in_map_iff in Hp; destruct Hp as [x [<- Hx]].
  - apply in_idx_list in Hx. destruct Hx as [i [Hi ->]].
    pose proof (idx_range w cn i ltac:(lia) Hc Hi). unfold on_edge; cbn. lia.
  - apply in_idx_list in Hx. destruct Hx as [i [Hi ->]].
    pose proof (idx_range h rn i ltac:(lia) Hr Hi). unfold on_edge; cbn. lia.
  - apply in_idx_list_desc in Hx. destruct Hx as [i [Hi ->]].
    pose proof (idx_range w cn i ltac:(lia) Hc Hi). unfold on_edge; cbn. lia.
  - apply in_idx_list_desc in Hx. destruct Hx as [i [Hi ->]].
    pose proof (idx_range h rn i ltac:(lia) Hr Hi). unfold on_edge; cbn. lia.
Qed.

Theorem ring_on_edge_pixels h w vps : 2 <= h -> 2 <= w -> vps_ok vps ->
  Forall (Forall (on_edge h w)) (c_sides h w vps).
Proof.
  intros Hh Hw Hv. apply on_edge_sides_num; try assumption; apply num_of_ge2; assumption.
Qed.

(* ------------------------------------------------------------------ closure *)
Lemma last_opt_app1 {A} (l : list A) x : last_opt (l ++ [x]) = Some x.
Proof. unfold last_opt. rewrite rev_app_distr. reflexivity. Qed.

Lemma last_opt_map {A B} (f : A -> B) l : last_opt (map f l) = option_map f (last_opt l).
Proof. unfold last_opt. rewrite <- map_rev. destruct (rev l); reflexivity. Qed.

Lemma hd_error_map {A B} (f : A -> B) l : hd_error (map f l) = option_map f (hd_error l).
Proof. destruct l; reflexivity. Qed.

Lemma idx_list_hd n m : (2 <= m)%nat -> hd_error (idx_list n m) = Some 0.
Proof.
  intros Hm. unfold idx_list. destruct m as [|m]; [lia|]. cbn [seq map hd_error].
  rewrite idx_first by exact Hm. reflexivity.
Qed.

Lemma idx_list_last n m : (2 <= m)%nat -> last_opt (idx_list n m) = Some (n - 1).
Proof.
  intros Hm. unfold idx_list. destruct m as [|m]; [lia|].
  rewrite seq_S, map_app. cbn [map plus]. rewrite last_opt_app1. f_equal.
  replace m with (S m - 1)%nat at 2 by lia. apply idx_last. exact Hm.
Qed.

Lemma last_opt_rev {A} (l : list A) : last_opt (rev l) = hd_error l.
Proof. unfold last_opt. rewrite rev_involutive. destruct l; reflexivity. Qed.

Lemma hd_error_rev {A} (l : list A) : hd_error (rev l) = last_opt l.
Proof. unfold last_opt. destruct (rev l); reflexivity. Qed.

Lemma idx_list_desc_hd n m : (2 <= m)%nat -> hd_error (idx_list_desc n m) = Some (n - 1).
Proof. intros. rewrite idx_list_desc_rev, hd_error_rev. apply idx_list_last. assumption. Qed.

Lemma idx_list_desc_last n m : (2 <= m)%nat -> last_opt (idx_list_desc n m) = Some 0.
Proof. intros. rewrite idx_list_desc_rev, last_opt_rev. apply idx_list_hd. assumption. Qed.

Lemma map_neq_nil {A B} (f : A -> B) l : l <> [] -> map f l <> [].
Proof. destruct l; [congruence|discriminate]. Qed.

Lemma idx_list_neq_nil n m : (2 <= m)%nat -> idx_list n m <> [].
Proof. intros Hm H. apply (f_equal (@length Z)) in H. rewrite idx_list_length in H. cbn in H. lia. Qed.

Lemma idx_list_desc_neq_nil n m : (2 <= m)%nat -> idx_list_desc n m <> [].
Proof.
  intros Hm H. apply (f_equal (@length Z)) in H. rewrite idx_list_desc_rev, rev_length, idx_list_length in H.
  cbn in H. lia.
Qed.

Lemma closed_sides_num h w rn cn : (2 <= rn)%nat -> (2 <= cn)%nat -> closed4 (c_sides_num h w rn cn).
Proof.
  intros Hr Hc. unfold c_sides_num, sides_num, closed4.
  rewrite !last_opt_map, !hd_error_map.
  rewrite !idx_list_hd, !idx_list_last, !idx_list_desc_hd, !idx_list_desc_last by assumption.
  cbn [option_map].
  repeat split; try reflexivity; apply map_neq_nil;
    (apply idx_list_neq_nil || apply idx_list_desc_neq_nil); assumption.
Qed.

Lemma rev_neq_nil {A} (l : list A) : l <> [] -> rev l <> [].
Proof. intros H E. apply H. rewrite <- (rev_involutive l), E. reflexivity. Qed.

Lemma closed4_reverse {A} (S : list (list A)) : closed4 S -> closed4 (reverse_boundaries S).
Proof.
  destruct S as [|a [|b [|c [|d [|e r]]]]]; cbn; try tauto.
  intros (H1 & H2 & H3 & H4 & Ha & Hb & Hc & Hd).
  rewrite !last_opt_rev, !hd_error_rev.
  repeat split; try (symmetry; assumption); apply rev_neq_nil; assumption.
Qed.

Theorem ring_closed h w vps : 2 <= h -> 2 <= w -> vps_ok vps ->
  closed4 (c_sides h w vps) /\ closed4 (reverse_boundaries (c_sides h w vps)).
Proof.
  intros Hh Hw Hv.
  assert (closed4 (c_sides h w vps)) by (apply closed_sides_num; apply num_of_ge2; assumption).
  split; [assumption|apply closed4_reverse; assumption].
Qed.

(* ------------------------------------------------------------------ the contour, piece by piece *)
Lemma removelast_map {A B} (f : A -> B) l : removelast (map f l) = map f (removelast l).
Proof.
  induction l as [|x l IH]; [reflexivity|].
  destruct l as [|y l]; [reflexivity|]. cbn [map removelast] in *. rewrite IH. reflexivity.
Qed.

Lemma removelast_seq s m : removelast (seq s m) = seq s (m - 1).
Proof.
  destruct m as [|m]; [reflexivity|]. rewrite seq_S, removelast_last. f_equal. lia.
Qed.

Definition top' (w : Z) (cn : nat) : list pix := map (fun i => (0, idx w cn i)) (seq 0 (cn - 1)).
Definition right' (h w : Z) (rn : nat) : list pix := map (fun i => (idx h rn i, w - 1)) (seq 0 (rn - 1)).
Definition bottom' (h w : Z) (cn : nat) : list pix := map (fun i => (h - 1, idx w cn (cn - 1 - i))) (seq 0 (cn - 1)).
Definition left' (h : Z) (rn : nat) : list pix := map (fun i => (idx h rn (rn - 1 - i), 0)) (seq 0 (rn - 1)).

Lemma contour_sides_num h w rn cn :
  contour (c_sides_num h w rn cn) = top' w cn ++ right' h w rn ++ bottom' h w cn ++ left' h rn.
Proof.
  unfold contour, c_sides_num, sides_num, idx_list, idx_list_desc, top', right', bottom', left'.
  cbn [map concat]. rewrite !removelast_map, !removelast_seq, !map_map, app_nil_r. reflexivity.
Qed.

Lemma NoDup_map_seq {B} (f : nat -> B) k :
  (forall i j, (i < k)%nat -> (j < k)%nat -> f i = f j -> i = j) -> NoDup (map f (seq 0 k)).
Proof.
  intros Hinj. apply (proj2 (NoDup_nth (map f (seq 0 k)) (f 0%nat))).
  rewrite map_length, seq_length. intros i j Hi Hj.
  rewrite !map_nth, !seq_nth by assumption. cbn. apply Hinj; assumption.
Qed.

Lemma NoDup_map_seq_inv {B} (f : nat -> B) k i j :
  NoDup (map f (seq 0 k)) -> (i < k)%nat -> (j < k)%nat -> f i = f j -> i = j.
Proof.
  intros Hn Hi Hj Hf.
  apply (proj1 (NoDup_nth (map f (seq 0 k)) (f 0%nat)) Hn i j); rewrite ?map_length, ?seq_length; try assumption.
  rewrite !map_nth, !seq_nth by assumption. exact Hf.
Qed.

Lemma idx_inj n m i j : (2 <= m)%nat -> Z.of_nat m <= n -> idx n m i = idx n m j -> i = j.
Proof.
  intros Hm Hmn He.
  destruct (Nat.lt_trichotomy i j) as [H|[H|H]]; [|exact H|].
  - pose proof (idx_strict n m i j Hm Hmn H). lia.
  - pose proof (idx_strict n m j i Hm Hmn H). lia.
Qed.

Lemma no_repeat_if h w rn cn : 2 <= h -> 2 <= w -> (2 <= rn)%nat -> (2 <= cn)%nat ->
  Z.of_nat cn <= w -> Z.of_nat rn <= h -> NoDup (contour (c_sides_num h w rn cn)).
Proof.
  intros Hh Hw Hr Hc Hcw Hrh. rewrite contour_sides_num.
  assert (Hlt_c : forall i, (i < cn - 1)%nat -> idx w cn i < w - 1).
  { intros i Hi. rewrite <- (idx_last w cn Hc). apply idx_strict; assumption. }
  assert (Hlt_r : forall i, (i < rn - 1)%nat -> idx h rn i < h - 1).
  { intros i Hi. rewrite <- (idx_last h rn Hr). apply idx_strict; assumption. }
  assert (Hgt_c : forall i, (0 < i)%nat -> 0 < idx w cn i).
  { intros i Hi. rewrite <- (idx_first w cn Hc). apply idx_strict; assumption. }
  assert (Hgt_r : forall i, (0 < i)%nat -> 0 < idx h rn i).
  { intros i Hi. rewrite <- (idx_first h rn Hr). apply idx_strict; assumption. }
  unfold top', right', bottom', left'.
  repeat apply NoDup_app_intro.
  - apply NoDup_map_seq. intros i j Hi Hj E. inversion E as [E']. exact (idx_inj w cn i j Hc Hcw E').
  - apply NoDup_map_seq. intros i j Hi Hj E. inversion E as [E']. exact (idx_inj h rn i j Hr Hrh E').
  - apply NoDup_map_seq. intros i j Hi Hj E. inversion E as [E'].
    apply idx_inj in E'; try assumption. lia.
  - apply NoDup_map_seq. intros i j Hi Hj E. inversion E as [E'].
    apply idx_inj in E'; try assumption. lia.
  - (* bottom / left *)
    intros p Hb Hl. apply in_map_iff in Hb. destruct Hb as [i [<- Hi]]. apply in_seq in Hi.
    apply in_map_iff in Hl. destruct Hl as [j [E Hj]]. apply in_seq in Hj. inversion E as [[E1 E2]].
    pose proof (Hgt_c (cn - 1 - i)%nat ltac:(lia)). lia.
  - (* right / (bottom ++ left) *)
    intros p Hrt Hbl. apply in_map_iff in Hrt. destruct Hrt as [i [<- Hi]]. apply in_seq in Hi.
    apply in_app_or in Hbl. destruct Hbl as [Hb|Hl].
    + apply in_map_iff in Hb. destruct Hb as [j [E Hj]]. inversion E as [[E1 E2]].
      pose proof (Hlt_r i ltac:(lia)). lia.
    + apply in_map_iff in Hl. destruct Hl as [j [E Hj]]. inversion E as [[E1 E2]]. lia.
  - (* top / rest *)
    intros p Ht Hrest. apply in_map_iff in Ht. destruct Ht as [i [<- Hi]]. apply in_seq in Hi.
    apply in_app_or in Hrest. destruct Hrest as [Hrt|Hrest].
    + apply in_map_iff in Hrt. destruct Hrt as [j [E Hj]]. inversion E as [[E1 E2]].
      pose proof (Hlt_c i ltac:(lia)). lia.
    + apply in_app_or in Hrest. destruct Hrest as [Hb|Hl].
      * apply in_map_iff in Hb. destruct Hb as [j [E Hj]]. inversion E as [[E1 E2]]. lia.
      * apply in_map_iff in Hl. destruct Hl as [j [E Hj]]. apply in_seq in Hj. inversion E as [[E1 E2]].
        pose proof (Hgt_r (rn - 1 - j)%nat ltac:(lia)). lia.
Qed.

Lemma NoDup_app_remove_l {A} (l l' : list A) : NoDup (l ++ l') -> NoDup l'.
Proof. induction l as [|x l IH]; cbn; intros H; [exact H|]. inversion H; subst. apply IH. assumption. Qed.

Lemma NoDup_app_remove_r {A} (l l' : list A) : NoDup (l ++ l') -> NoDup l.
Proof.
  induction l as [|x l IH]; cbn; intros H; [constructor|]. inversion H as [|? ? Hx Hl]; subst.
  constructor; [|apply IH; exact Hl]. intros Hin. apply Hx. apply in_or_app. left. exact Hin.
Qed.

(* a repeated consecutive index shows up in the top row or in the bottom row of the contour *)
Lemma repeat_breaks_row (f g : nat -> pix) (n : Z) (m : nat) :
  (forall i, f i = f (S i) <-> idx n m i = idx n m (S i)) ->
  (forall i, (S i <= m - 1)%nat -> g (m - 1 - S i)%nat = g (m - 1 - i)%nat <-> idx n m i = idx n m (S i)) ->
  2 <= n -> (2 <= m)%nat -> n < Z.of_nat m ->
  NoDup (map f (seq 0 (m - 1))) -> NoDup (map g (seq 0 (m - 1))) -> False.
Proof.
  intros Hf Hg Hn Hm Hnm Ht Hb.
  destruct (idx_repeat n m ltac:(lia) Hm Hnm) as [i [Hi He]].
  destruct (Nat.eq_dec (S i) (m - 1)) as [Hlast|Hnl].
  - (* positions m-2 and m-1: both in the bottom row (as positions 1 and 0 of the descending table) *)
    assert (H := NoDup_map_seq_inv g (m - 1) (m - 1 - S i) (m - 1 - i) Hb).
    assert ((m - 1 - S i)%nat = (m - 1 - i)%nat); [|lia].
    apply H; try lia. apply (proj2 (Hg i ltac:(lia))). exact He.
  - assert (H := NoDup_map_seq_inv f (m - 1) i (S i) Ht).
    assert (i = S i); [|lia]. apply H; try lia. apply (proj2 (Hf i)). exact He.
Qed.

Lemma no_repeat_only_if h w rn cn : 2 <= h -> 2 <= w -> (2 <= rn)%nat -> (2 <= cn)%nat ->
  NoDup (contour (c_sides_num h w rn cn)) -> Z.of_nat cn <= w /\ Z.of_nat rn <= h.
Proof.
  intros Hh Hw Hr Hc Hn. rewrite contour_sides_num in Hn.
  pose proof (NoDup_app_remove_r _ _ Hn) as Htop.
  pose proof (NoDup_app_remove_l _ _ Hn) as H1.
  pose proof (NoDup_app_remove_r _ _ H1) as Hright.
  pose proof (NoDup_app_remove_l _ _ H1) as H2.
  pose proof (NoDup_app_remove_r _ _ H2) as Hbottom.
  pose proof (NoDup_app_remove_l _ _ H2) as Hleft.
  split.
  - destruct (Z_le_gt_dec (Z.of_nat cn) w) as [H|H]; [exact H|exfalso].
    apply (repeat_breaks_row (fun i => (0, idx w cn i)) (fun i => (h - 1, idx w cn (cn - 1 - i))) w cn); try assumption; try lia.
    + intros i. split; intros E; [apply (f_equal snd) in E; cbn in E; congruence|congruence].
    + intros i Hi. replace (cn - 1 - (cn - 1 - S i))%nat with (S i) by lia.
      replace (cn - 1 - (cn - 1 - i))%nat with i by lia.
      split; intros E; [apply (f_equal snd) in E; cbn in E; congruence|congruence].
  - destruct (Z_le_gt_dec (Z.of_nat rn) h) as [H|H]; [exact H|exfalso].
    apply (repeat_breaks_row (fun i => (idx h rn i, w - 1)) (fun i => (idx h rn (rn - 1 - i), 0)) h rn); try assumption; try lia.
    + intros i. split; intros E; [apply (f_equal fst) in E; cbn in E; congruence|congruence].
    + intros i Hi. replace (rn - 1 - (rn - 1 - S i))%nat with (S i) by lia.
      replace (rn - 1 - (rn - 1 - i))%nat with i by lia.
      split; intros E; [apply (f_equal fst) in E; cbn in E; congruence|congruence].
Qed.

Theorem ring_no_repeat_iff h w rn cn : 2 <= h -> 2 <= w -> (2 <= rn)%nat -> (2 <= cn)%nat ->
  NoDup (contour (c_sides_num h w rn cn)) <-> (Z.of_nat cn <= w /\ Z.of_nat rn <= h).
Proof.
  intros. split.
  - apply no_repeat_only_if; assumption.
  - intros [? ?]. apply no_repeat_if; assumption.
Qed.

(* the code as it is: the number of vertices of a side is clipped to the side *)
Theorem ring_no_repeat h w vps : 2 <= h -> 2 <= w -> vps_ok vps -> NoDup (contour (c_sides h w vps)).
Proof.
  intros Hh Hw Hv. unfold c_sides, bbox_sides. apply no_repeat_if; try assumption;
    try (apply num_of_ge2; assumption); apply num_of_le; assumption.
Qed.

(* with injective coordinates the ring of coordinates has no repeated vertex either *)
Theorem ring_no_repeat_coords {C} (coord : pix -> C) h w vps : 2 <= h -> 2 <= w -> vps_ok vps ->
  (forall p q, on_edge h w p -> on_edge h w q -> coord p = coord q -> p = q) ->
  NoDup (map coord (contour (c_sides h w vps))).
Proof.
  intros Hh Hw Hv Hinj.
  pose proof (ring_no_repeat h w vps Hh Hw Hv) as Hn.
  pose proof (ring_on_edge_pixels h w vps Hh Hw Hv) as He.
  assert (Hin : forall p, In p (contour (c_sides h w vps)) -> on_edge h w p).
  { intros p Hp. unfold contour in Hp. apply in_concat in Hp. destruct Hp as [s [Hs Hp]].
    apply in_map_iff in Hs. destruct Hs as [s0 [<- Hs0]].
    rewrite Forall_forall in He. specialize (He s0 Hs0). rewrite Forall_forall in He. apply He.
    clear - Hp. induction s0 as [|x s0 IH]; [contradiction|].
    destruct s0 as [|y s0]; [contradiction|]. cbn [removelast] in Hp. destruct Hp as [->|Hp]; [left; reflexivity|right; apply IH; exact Hp]. }
  revert Hn Hin. generalize (contour (c_sides h w vps)). intros l Hn Hin.
  induction l as [|x l IH]; [constructor|].
  inversion Hn as [|? ? Hx Hl]; subst. cbn [map]. constructor.
  - intros Hc. apply in_map_iff in Hc. destruct Hc as [y [Hy Hyl]].
    assert (y = x) by (apply Hinj; [apply Hin; right; exact Hyl|apply Hin; left; reflexivity|exact Hy]).
    subst. contradiction.
  - apply IH; [exact Hl|]. intros p Hp. apply Hin. right. exact Hp.
Qed.

(* before the repair: repeated vertices as soon as vertices_per_side exceeds a side *)
Theorem ring_repeats_unclipped h w v : 2 <= h -> 2 <= w -> 2 <= v ->
  NoDup (contour (c_sides_unclipped h w (Some v))) <-> (v <= w /\ v <= h).
Proof.
  intros Hh Hw Hv. unfold c_sides_unclipped, bbox_sides_unclipped, num_of_unclipped.
  rewrite (ring_no_repeat_iff h w (Z.to_nat v) (Z.to_nat v)) by lia. lia.
Qed.

(* ------------------------------------------------------------------ reversal = mirror traversal *)
Lemma two_ends {A} (l : list A) : (2 <= length l)%nat ->
  exists x m y, l = x :: m ++ [y].
Proof.
  intros H. destruct l as [|x l]; [cbn in H; lia|].
  destruct (exists_last (l := l)) as [m [y ->]]; [intros ->; cbn in H; lia|].
  exists x, m, y. reflexivity.
Qed.

Lemma last_opt_cons_app {A} (x : A) m y : last_opt (x :: m ++ [y]) = Some y.
Proof. change (x :: m ++ [y]) with ((x :: m) ++ [y]). apply last_opt_app1. Qed.

Lemma removelast_ends {A} (x : A) m y : removelast (x :: m ++ [y]) = x :: m.
Proof. change (x :: m ++ [y]) with ((x :: m) ++ [y]). apply removelast_last. Qed.

Lemma rev_ends {A} (x : A) m y : rev (x :: m ++ [y]) = y :: rev m ++ [x].
Proof. cbn [rev]. rewrite rev_app_distr. reflexivity. Qed.

Definition rotl1 {A} (l : list A) : list A := match l with [] => [] | x :: t => t ++ [x] end.

Theorem reverse_is_mirror {A} (S : list (list A)) :
  closed4 S -> Forall (fun s => (2 <= length s)%nat) S ->
  contour (reverse_boundaries S) = rev (rotl1 (contour S)).
Proof.
  destruct S as [|a [|b [|c [|d [|e r]]]]]; cbn [closed4]; try tauto.
  intros (H1 & H2 & H3 & H4 & _) HF.
  inversion HF as [|? ? La HF1]; subst. inversion HF1 as [|? ? Lb HF2]; subst.
  inversion HF2 as [|? ? Lc HF3]; subst. inversion HF3 as [|? ? Ld _]; subst.
  destruct (two_ends a La) as (xa & ma & ya & ->). destruct (two_ends b Lb) as (xb & mb & yb & ->).
  destruct (two_ends c Lc) as (xc & mc & yc & ->). destruct (two_ends d Ld) as (xd & md & yd & ->).
  rewrite !last_opt_cons_app in *. cbn [hd_error] in *.
  inversion H1; inversion H2; inversion H3; inversion H4; subst.
  unfold contour, reverse_boundaries. cbn [rev map app concat].
  rewrite !removelast_last, !removelast_ends. cbn [app rotl1].
  rewrite !app_nil_r.
  repeat (rewrite rev_app_distr; cbn [rev app]).
  repeat rewrite <- app_assoc. cbn [app]. reflexivity.
Qed.

(* the signed (shoelace) area of the ring of pixel indices changes sign *)
Lemma cross2_swap p q : cross2 q p = - cross2 p q.
Proof. unfold cross2. lia. Qed.

Lemma path_area2_cons2 a b r : path_area2 (a :: b :: r) = cross2 a b + path_area2 (b :: r).
Proof. reflexivity. Qed.

Lemma path_area2_app l1 p l2 : path_area2 (l1 ++ p :: l2) = path_area2 (l1 ++ [p]) + path_area2 (p :: l2).
Proof.
  induction l1 as [|a l1 IH].
  - cbn [app]. change (path_area2 [p]) with 0. lia.
  - destruct l1 as [|b l1].
    + cbn [app]. rewrite !path_area2_cons2. change (path_area2 [p]) with 0. lia.
    + cbn [app] in *. rewrite !path_area2_cons2. rewrite IH. lia.
Qed.

Lemma path_area2_rev l : path_area2 (rev l) = - path_area2 l.
Proof.
  induction l as [|p l IH]; [reflexivity|].
  destruct l as [|q l]; [reflexivity|].
  change (rev (p :: q :: l)) with ((rev l ++ [q]) ++ [p]). change (rev (q :: l)) with (rev l ++ [q]) in IH.
  rewrite <- app_assoc. cbn [app].
  rewrite path_area2_app. rewrite IH.
  rewrite !path_area2_cons2. change (path_area2 [p]) with 0. rewrite (cross2_swap p q). lia.
Qed.

Theorem reverse_flips_area (S : list (list pix)) :
  closed4 S -> Forall (fun s => (2 <= length s)%nat) S ->
  ring_area2 (contour (reverse_boundaries S)) = - ring_area2 (contour S).
Proof.
  intros Hc Hl. rewrite (reverse_is_mirror S Hc Hl).
  destruct (contour S) as [|a t]; [reflexivity|].
  cbn [rotl1]. rewrite rev_app_distr. cbn [rev app].
  unfold ring_area2.
  replace ((a :: rev t) ++ [a]) with (rev ((a :: t) ++ [a])) by (cbn [app rev]; rewrite rev_app_distr; reflexivity).
  apply path_area2_rev.
Qed.

(* the sides of the model have at least two vertices each *)
Lemma sides_len2 h w vps : 2 <= h -> 2 <= w -> vps_ok vps ->
  Forall (fun s => (2 <= length s)%nat) (c_sides h w vps).
Proof.
  intros Hh Hw Hv. pose proof (num_of_ge2 vps h Hh Hv). pose proof (num_of_ge2 vps w Hw Hv).
  unfold c_sides, bbox_sides, sides_num.
  repeat constructor; rewrite map_length; rewrite ?idx_list_length, ?idx_list_desc_rev, ?rev_length, ?idx_list_length; assumption.
Qed.

(* ------------------------------------------------------------------ the ring of pixel indices encloses the whole grid *)
Lemma ring_area2_sides (S : list (list pix)) :
  closed4 S -> Forall (fun s => (2 <= length s)%nat) S ->
  ring_area2 (contour S) = fold_right (fun s acc => path_area2 s + acc) 0 S.
Proof.
  destruct S as [|a [|b [|c [|d [|e r]]]]]; cbn [closed4]; try tauto.
  intros (H1 & H2 & H3 & H4 & _) HF.
  inversion HF as [|? ? La HF1]; subst. inversion HF1 as [|? ? Lb HF2]; subst.
  inversion HF2 as [|? ? Lc HF3]; subst. inversion HF3 as [|? ? Ld _]; subst.
  destruct (two_ends a La) as (xa & ma & ya & ->). destruct (two_ends b Lb) as (xb & mb & yb & ->).
  destruct (two_ends c Lc) as (xc & mc & yc & ->). destruct (two_ends d Ld) as (xd & md & yd & ->).
  rewrite !last_opt_cons_app in *. cbn [hd_error] in *.
  inversion H1; inversion H2; inversion H3; inversion H4; subst.
  unfold contour. cbn [map concat fold_right]. rewrite !removelast_ends, app_nil_r.
  unfold ring_area2. cbn [app].
  change (xa :: (ma ++ xb :: mb ++ xc :: mc ++ xd :: md) ++ [xa])
    with ((xa :: ma ++ xb :: mb ++ xc :: mc ++ xd :: md) ++ [xa]).
  replace ((xa :: ma ++ xb :: mb ++ xc :: mc ++ xd :: md) ++ [xa])
    with ((xa :: ma) ++ xb :: (mb ++ xc :: (mc ++ xd :: (md ++ [xa])))).
  2:{ cbn [app]. f_equal. repeat (rewrite <- app_assoc; cbn [app]). reflexivity. }
  rewrite path_area2_app. cbn [app].
  change (xb :: mb ++ xc :: mc ++ xd :: md ++ [xa]) with ((xb :: mb) ++ xc :: (mc ++ xd :: (md ++ [xa]))).
  rewrite path_area2_app. cbn [app].
  change (xc :: mc ++ xd :: md ++ [xa]) with ((xc :: mc) ++ xd :: (md ++ [xa])).
  rewrite path_area2_app. cbn [app]. lia.
Qed.

Lemma path_row k a m b : path_area2 (map (fun c => (k, c)) (a :: m ++ [b])) = k * (b - a).
Proof.
  revert a. induction m as [|x m IH]; intros a.
  - cbn. unfold cross2. cbn. lia.
  - cbn [app map]. rewrite path_area2_cons2. cbn [app map] in IH. rewrite IH. unfold cross2. cbn. lia.
Qed.

Lemma path_col k a m b : path_area2 (map (fun r => (r, k)) (a :: m ++ [b])) = - k * (b - a).
Proof.
  revert a. induction m as [|x m IH]; intros a.
  - cbn. unfold cross2. cbn. lia.
  - cbn [app map]. rewrite path_area2_cons2. cbn [app map] in IH. rewrite IH. unfold cross2. cbn. lia.
Qed.

Lemma ends_of {A} (l : list A) a b : (2 <= length l)%nat -> hd_error l = Some a -> last_opt l = Some b ->
  exists m, l = a :: m ++ [b].
Proof.
  intros Hl Hh Hb. destruct (two_ends l Hl) as (x & m & y & ->).
  rewrite last_opt_cons_app in Hb. cbn in Hh. inversion Hh; inversion Hb; subst. exists m. reflexivity.
Qed.

Lemma idx_list_desc_length n m : length (idx_list_desc n m) = m.
Proof. rewrite idx_list_desc_rev, rev_length. apply idx_list_length. Qed.

Theorem ring_encloses_grid h w vps : 2 <= h -> 2 <= w -> vps_ok vps ->
  ring_area2 (contour (c_sides h w vps)) = - 2 * (h - 1) * (w - 1).
Proof.
  intros Hh Hw Hv.
  pose proof (ring_closed h w vps Hh Hw Hv) as [Hc _].
  pose proof (sides_len2 h w vps Hh Hw Hv) as Hl.
  rewrite (ring_area2_sides _ Hc Hl).
  pose proof (num_of_ge2 vps h Hh Hv) as Hrn. pose proof (num_of_ge2 vps w Hw Hv) as Hcn.
  unfold c_sides, bbox_sides, sides_num. cbn [fold_right].
  destruct (ends_of (idx_list w (num_of vps w)) 0 (w - 1)) as [m1 E1];
    [rewrite idx_list_length; exact Hcn|apply idx_list_hd; exact Hcn|apply idx_list_last; exact Hcn|].
  destruct (ends_of (idx_list h (num_of vps h)) 0 (h - 1)) as [m2 E2];
    [rewrite idx_list_length; exact Hrn|apply idx_list_hd; exact Hrn|apply idx_list_last; exact Hrn|].
  destruct (ends_of (idx_list_desc w (num_of vps w)) (w - 1) 0) as [m3 E3];
    [rewrite idx_list_desc_length; exact Hcn|apply idx_list_desc_hd; exact Hcn|apply idx_list_desc_last; exact Hcn|].
  destruct (ends_of (idx_list_desc h (num_of vps h)) (h - 1) 0) as [m4 E4];
    [rewrite idx_list_desc_length; exact Hrn|apply idx_list_desc_hd; exact Hrn|apply idx_list_desc_last; exact Hrn|].
  rewrite E1, E2, E3, E4. rewrite !path_row, !path_col. lia.
Qed.
