(* C06 — the kernels over RN (= option R, None is NaN): what they return for real inputs. *)
From Coq Require Import Reals ZArith Bool Lra Lia Psatz List.
From PR Require Import Base.Num Base.RNum Model.Bilinear Model.BilinearRN Proofs.C06_real.
Import ListNotations.
Open Scope R_scope.

(* ---------- computing with RN on numbers *)
Lemma add_RN x y : add RN (Some x) (Some y) = Some (x + y). Proof. reflexivity. Qed.
Lemma sub_RN x y : sub RN (Some x) (Some y) = Some (x - y). Proof. reflexivity. Qed.
Lemma mul_RN x y : mul RN (Some x) (Some y) = Some (x * y). Proof. reflexivity. Qed.
Lemma neg_RN x : neg RN (Some x) = Some (- x). Proof. reflexivity. Qed.
Lemma ofZ_RN z : ofZ RN z = Some (IZR z). Proof. reflexivity. Qed.
Lemma nan_RN : nan RN = None. Proof. reflexivity. Qed.
Lemma isnan_RN_Some x : isnan RN (Some x) = false. Proof. reflexivity. Qed.
Lemma isnan_RN_None : isnan RN None = true. Proof. reflexivity. Qed.
Lemma div_RN x y : y <> 0 -> div RN (Some x) (Some y) = Some (x / y).
Proof. intros H. cbn. unfold odiv. destruct (Req_EM_T y 0); [contradiction|reflexivity]. Qed.
Lemma div_RN_zero a y : y = 0 -> div RN a (Some y) = None.
Proof. intros ->. cbn. unfold odiv. destruct a; [|reflexivity]. destruct (Req_EM_T 0 0); [reflexivity|contradiction]. Qed.
Lemma div_RN_None_l b : div RN None b = None. Proof. reflexivity. Qed.
Lemma sqrt_RN x : 0 <= x -> sqrtf RN (Some x) = Some (sqrt x).
Proof. intros H. cbn. destruct (Rlt_dec x 0); [lra|reflexivity]. Qed.
Lemma add_RN_None_r a : add RN a None = None. Proof. destruct a; reflexivity. Qed.
Lemma sub_RN_None_r a : sub RN a None = None. Proof. destruct a; reflexivity. Qed.
Lemma mul_RN_None_r a : mul RN a None = None. Proof. destruct a; reflexivity. Qed.
Lemma f0_RN : f0 RN = Some 0. Proof. unfold f0. cbn. f_equal. ring. Qed.
Lemma f1_RN : f1 RN = Some 1. Proof. unfold f1. cbn. f_equal. ring. Qed.
#[export] Hint Rewrite add_RN sub_RN mul_RN neg_RN ofZ_RN nan_RN isnan_RN_Some isnan_RN_None f0_RN f1_RN
  add_RN_None_r sub_RN_None_r mul_RN_None_r div_RN_None_l : rn.

(* in range [0,1] and not NaN *)
Definition inr (x : option R) : Prop := match x with Some r => in01 r | None => False end.

Lemma outside_RN_Some r : outside RN (Some r) (Some 0) (Some 1) = false <-> in01 r.
Proof.
  unfold outside, in01. cbn. unfold Rltb.
  destruct (Rlt_dec r 0), (Rlt_dec 1 r); cbn; split; intros; try discriminate; try lra; reflexivity.
Qed.
Lemma outside_RN_None lo hi : outside RN None lo hi = false.
Proof. unfold outside. cbn. destruct hi; reflexivity. Qed.
Lemma outside_RN_Some_true r : outside RN (Some r) (Some 0) (Some 1) = true <-> ~ in01 r.
Proof. rewrite <- outside_RN_Some. destruct (outside RN (Some r) (Some 0) (Some 1)); split; intros; try easy. Qed.

Lemma bad_iff x : orb (outside RN x (Some 0) (Some 1)) (isnan RN x) = false <-> inr x.
Proof.
  destruct x as [r|]; cbn [inr].
  - rewrite isnan_RN_Some, orb_false_r. apply outside_RN_Some.
  - rewrite isnan_RN_None, orb_true_r. split; [discriminate|contradiction].
Qed.
Lemma bad_true x : ~ inr x -> orb (outside RN x (Some 0) (Some 1)) (isnan RN x) = true.
Proof. intros H. destruct (orb (outside RN x (Some 0) (Some 1)) (isnan RN x)) eqn:E; [reflexivity|]. apply bad_iff in E. contradiction. Qed.
Lemma inr_dec x : {inr x} + {~ inr x}.
Proof. destruct x as [r|]; cbn; [|right; tauto]. unfold in01. destruct (Rle_dec 0 r), (Rle_dec r 1); (left; lra) || (right; lra). Qed.

(* ---------- the where-chain of _solve_quadratic *)
Definition chain (x1 x2 x3 : option R) : option R :=
  let x := where_ (orb (outside RN x1 (Some 0) (Some 1)) (isnan RN x1)) x2 x1 in
  let x := where_ (orb (outside RN x (Some 0) (Some 1)) (isnan RN x)) x3 x in
  where_ (outside RN x (Some 0) (Some 1)) (nan RN) x.

Lemma solve_quadratic_chain a b c :
  solve_quadratic RN a b c (f0 RN) (f1 RN) = chain (quad_x1 RN a b c) (quad_x2 RN a b c) (quad_x3 RN b c).
Proof. rewrite f0_RN, f1_RN. reflexivity. Qed.

Lemma final_where x : inr x -> where_ (outside RN x (Some 0) (Some 1)) None x = x.
Proof. destruct x as [r|]; cbn [inr]; [|contradiction]. intros H. apply outside_RN_Some in H. rewrite H. reflexivity. Qed.
Lemma final_where_bad x : ~ inr x -> where_ (outside RN x (Some 0) (Some 1)) None x = None.
Proof.
  destruct x as [r|]; cbn [inr]; intros H.
  - apply outside_RN_Some_true in H. rewrite H. reflexivity.
  - rewrite outside_RN_None. reflexivity.
Qed.

Lemma chain_1 x1 x2 x3 : inr x1 -> chain x1 x2 x3 = x1.
Proof. intros H. unfold chain. pose proof (proj2 (bad_iff x1) H) as E. rewrite E. cbn [where_]. rewrite E. cbn [where_]. apply final_where, H. Qed.
Lemma chain_2 x1 x2 x3 : ~ inr x1 -> inr x2 -> chain x1 x2 x3 = x2.
Proof.
  intros H1 H2. unfold chain.
  pose proof (bad_true x1 H1) as E1.
  rewrite E1. cbn [where_]. rewrite (proj2 (bad_iff x2) H2). cbn [where_]. apply final_where, H2.
Qed.
Lemma chain_3 x1 x2 x3 : ~ inr x1 -> ~ inr x2 -> chain x1 x2 x3 = where_ (outside RN x3 (Some 0) (Some 1)) None x3.
Proof.
  intros H1 H2. unfold chain.
  pose proof (bad_true x1 H1) as E1.
  pose proof (bad_true x2 H2) as E2.
  rewrite E1. cbn [where_]. rewrite E2. cbn [where_]. reflexivity.
Qed.
(* whatever the candidates: the result is NaN or one of them, in [0,1] *)
Lemma chain_inv x1 x2 x3 t : chain x1 x2 x3 = Some t -> in01 t /\ (x1 = Some t \/ x2 = Some t \/ x3 = Some t).
Proof.
  intros H. destruct (inr_dec x1) as [H1|H1].
  - rewrite chain_1 in H by exact H1. subst x1. cbn in H1. tauto.
  - destruct (inr_dec x2) as [H2|H2].
    + rewrite chain_2 in H by assumption. subst x2. cbn in H2. tauto.
    + rewrite chain_3 in H by assumption. destruct (inr_dec x3) as [H3|H3].
      * rewrite final_where in H by exact H3. subst x3. cbn in H3. tauto.
      * rewrite final_where_bad in H by exact H3. discriminate.
Qed.

(* ---------- candidates of the quadratic for real coefficients *)
Lemma qx1_RN a b c : a <> 0 -> 0 <= b * b - 4 * a * c ->
  quad_x1 RN (Some a) (Some b) (Some c) = Some ((- b + sqrt (b * b - 4 * a * c)) / (2 * a)).
Proof. intros Ha HD. unfold quad_x1. autorewrite with rn. rewrite sqrt_RN by exact HD. autorewrite with rn. apply div_RN. lra. Qed.
Lemma qx2_RN a b c : a <> 0 -> 0 <= b * b - 4 * a * c ->
  quad_x2 RN (Some a) (Some b) (Some c) = Some ((- b - sqrt (b * b - 4 * a * c)) / (2 * a)).
Proof. intros Ha HD. unfold quad_x2. autorewrite with rn. rewrite sqrt_RN by exact HD. autorewrite with rn. apply div_RN. lra. Qed.
Lemma qx1_RN_a0 b c : quad_x1 RN (Some 0) (Some b) (Some c) = None.
Proof. unfold quad_x1. autorewrite with rn. apply div_RN_zero. ring. Qed.
Lemma qx2_RN_a0 b c : quad_x2 RN (Some 0) (Some b) (Some c) = None.
Proof. unfold quad_x2. autorewrite with rn. apply div_RN_zero. ring. Qed.
Lemma qx3_RN b c : b <> 0 -> quad_x3 RN (Some b) (Some c) = Some (- c / b).
Proof. intros Hb. unfold quad_x3. autorewrite with rn. apply div_RN. exact Hb. Qed.

(* _solve_quadratic on a quadratic whose values at 0 and 1 have opposite signs: it returns a root in [0,1]
   (in particular the linear fall-back -c/b is only ever used when a = 0, where it is the root) *)
Lemma solve_quadratic_RN_root a b c : c * (a + b + c) < 0 ->
  exists t, solve_quadratic RN (Some a) (Some b) (Some c) (f0 RN) (f1 RN) = Some t /\ in01 t /\ a * t * t + b * t + c = 0.
Proof.
  intros H. rewrite solve_quadratic_chain. destruct (Req_EM_T a 0) as [->|Ha].
  - rewrite qx1_RN_a0, qx2_RN_a0. replace (0 + b + c) with (b + c) in H by ring.
    destruct (linear_root_inside b c H) as [Hb Hr]. rewrite qx3_RN by exact Hb.
    rewrite chain_3 by (cbn; tauto). exists (- c / b). unfold in01. split; [|split; [lra|field; exact Hb]].
    apply final_where. cbn. unfold in01. lra.
  - pose proof (disc_pos a b c H) as HD. rewrite qx1_RN, qx2_RN by lra.
    set (r1 := (- b + sqrt (b * b - 4 * a * c)) / (2 * a)). set (r2 := (- b - sqrt (b * b - 4 * a * c)) / (2 * a)).
    destruct (inr_dec (Some r1)) as [H1|H1].
    + rewrite chain_1 by exact H1. exists r1. split; [reflexivity|]. split; [exact H1|].
      apply (quad_root_plus a b c Ha). lra.
    + pose proof (quad_other_root_inside a b c Ha H H1) as H2. fold r2 in H2.
      rewrite chain_2; [|exact H1|cbn; unfold in01; lra]. exists r2. split; [reflexivity|]. split; [unfold in01; lra|].
      apply (quad_root_minus a b c Ha). lra.
Qed.

(* ---------- _solve_another_fractional_distance *)
Definition so_num (f y1 y2 oy : R) : R := oy - y1 - (y2 - y1) * f.
Definition so_den (f y1 y2 y3 y4 : R) : R := y3 + (y4 - y3) * f - y1 - (y2 - y1) * f.

Lemma solve_other_RN_inv f y1 y2 y3 y4 oy g :
  solve_other RN (Some f) (Some y1) (Some y2) (Some y3) (Some y4) (Some oy) = Some g ->
  so_den f y1 y2 y3 y4 <> 0 /\ g = so_num f y1 y2 oy / so_den f y1 y2 y3 y4 /\ in01 g.
Proof.
  unfold solve_other, so_num, so_den. autorewrite with rn.
  destruct (Req_EM_T (y3 + (y4 - y3) * f - y1 - (y2 - y1) * f) 0) as [E|E].
  - rewrite (div_RN_zero _ _ E). rewrite outside_RN_None. cbn. discriminate.
  - rewrite (div_RN _ _ E). intros H.
    destruct (inr_dec (Some ((oy - y1 - (y2 - y1) * f) / (y3 + (y4 - y3) * f - y1 - (y2 - y1) * f)))) as [Hi|Hi].
    + rewrite final_where in H by exact Hi. injection H as <-. cbn in Hi. tauto.
    + rewrite final_where_bad in H by exact Hi. discriminate.
Qed.
Lemma solve_other_RN_Some f y1 y2 y3 y4 oy :
  so_den f y1 y2 y3 y4 <> 0 -> in01 (so_num f y1 y2 oy / so_den f y1 y2 y3 y4) ->
  solve_other RN (Some f) (Some y1) (Some y2) (Some y3) (Some y4) (Some oy) = Some (so_num f y1 y2 oy / so_den f y1 y2 y3 y4).
Proof.
  unfold solve_other, so_num, so_den. intros E Hi. autorewrite with rn. rewrite (div_RN _ _ E).
  apply final_where. exact Hi.
Qed.
(* whatever comes out of it is NaN or in [0,1] *)
Lemma solve_other_RN_range f y1 y2 y3 y4 oy g : solve_other RN f y1 y2 y3 y4 oy = Some g -> in01 g.
Proof.
  unfold solve_other. set (q := div RN _ _). autorewrite with rn. intros H.
  destruct (inr_dec q) as [Hi|Hi].
  - rewrite final_where in H by exact Hi. rewrite H in Hi. exact Hi.
  - rewrite final_where_bad in H by exact Hi. discriminate.
Qed.
