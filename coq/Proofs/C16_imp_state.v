(* C16 - the AreaBoundary object as state: the regenerated contour_poly (memoising property) and decimate (in-place change
   of the sides + reset of the memo), and the law for every history of calls on one object. *)
From Coq Require Import ZArith List Bool Lia.
From PR Require Import Base.Num Base.Imp Model.Boundary Model.ImpBoundary Gen.GenC16imp.
Import ListNotations.

Section NoRet.
  Context {St Y R : Type}.
  Definition no_ret (m : M St Y R) : Prop := forall s ys s' v, m s <> Ret ys s' v.
  Lemma no_ret_assign f : no_ret (assign f).
  Proof. intros s ys s' v. discriminate. Qed.
  Lemma no_ret_check c : no_ret (check c).
  Proof. intros s ys s' v. unfold check. destruct (c s); discriminate. Qed.
  Lemma no_ret_skip : no_ret (@skip St Y R).
  Proof. intros s ys s' v. discriminate. Qed.
  Lemma no_ret_andthen (a b : M St Y R) : no_ret a -> no_ret b -> no_ret (andthen a b).
  Proof.
    intros Ha Hb s ys s' v. unfold andthen. destruct (a s) as [| |ys1 s1|ys1 s1 v1] eqn:E; try discriminate.
    - destruct (b s1) as [| |ys2 s2|ys2 s2 v2] eqn:E2; cbn; try discriminate. exfalso. exact (Hb _ _ _ _ E2).
    - exfalso. exact (Ha _ _ _ _ E).
  Qed.
  Lemma no_ret_ite c (a b : M St Y R) : no_ret a -> no_ret b -> no_ret (ite c a b).
  Proof. intros Ha Hb s ys s' v. unfold ite. destruct (c s); [apply Ha|apply Hb]. Qed.
  Lemma no_ret_for_list {A} (l : list A) bind (body : M St Y R) : no_ret body -> no_ret (for_list l bind body).
  Proof.
    intros Hb. induction l as [|x l IH]; [intros s ys s' v; discriminate|].
    cbn [for_list]. apply no_ret_andthen; [|exact IH]. intros s ys s' v. apply Hb.
  Qed.
End NoRet.

Section ImpState.
  Context {T : Type} (OP : ops T).
  Context {P : Type} (poly_of : list T * list T -> P) (p0 : P).
  Notation ab := (@area_boundary T P).

  (* contour_poly: returns the memoised polygon if there is one, otherwise builds it from contour() and memoises it;
     the sides are untouched *)
  Theorem imp_contour_poly_code_is_model (b : ab) :
    exists s', imp_contour_poly poly_of p0 b
               = Ret [] s' (match ab_poly b with Some p => p | None => poly_of (ab_contour b) end)
      /\ imp_contour_poly_self s'
         = mk_ab (ab_lons b) (ab_lats b) (Some (match ab_poly b with Some p => p | None => poly_of (ab_contour b) end)).
  Proof.
    unfold imp_contour_poly. rewrite andthen_ite. cbv beta. cbn [imp_contour_poly_self].
    destruct b as [lo la [p|]]; cbn [ab_poly].
    - rewrite andthen_skip, andthen_check. cbn. eexists. split; reflexivity.
    - rewrite andthen_assign, andthen_check. cbn. eexists. split; reflexivity.
  Qed.

  (* decimate: whenever it completes (no exception), the memoised polygon has been dropped *)
  Theorem imp_decimate_resets_memo (b : ab) (ratio : Z) s' :
    state_of (imp_decimate OP b ratio) = COk s' -> ab_poly (imp_decimate_self s') = None.
  Proof.
    unfold imp_decimate.
    match goal with |- state_of (andthen ?loop ?fin ?s0) = _ -> _ => set (L := loop); set (s0' := s0) end.
    assert (NR : no_ret L).
    { unfold L, for_. intros s. apply no_ret_for_list.
      repeat first [apply no_ret_check | apply no_ret_assign | apply no_ret_skip | apply no_ret_andthen | apply no_ret_ite]. }
    unfold andthen. destruct (L s0') as [| |ys s1|ys s1 v] eqn:E; cbn; try discriminate.
    - intros H. inversion H; subst. reflexivity.
    - exfalso. exact (NR _ _ _ _ E).
  Qed.

  (* ---------------------------------------------------------------- histories of calls on one object *)
  Inductive op := Decimate (ratio : Z) | ContourPoly.
  (* one call on the object: new object and what the caller observes (Some p for contour_poly); None = the call raised *)
  Definition run_op (o : op) (b : ab) : option (ab * option P) :=
    match o with
    | Decimate r => match state_of (imp_decimate OP b r) with COk s' => Some (imp_decimate_self s', None) | _ => None end
    | ContourPoly => match imp_contour_poly poly_of p0 b with Ret _ s' p => Some (imp_contour_poly_self s', Some p) | _ => None end
    end.
  Fixpoint run_ops (h : list op) (b : ab) : option (ab * list (option P)) :=
    match h with
    | [] => Some (b, [])
    | o :: r => match run_op o b with
                | Some (b1, obs) => match run_ops r b1 with Some (b2, l) => Some (b2, obs :: l) | None => None end
                | None => None
                end
    end.
  (* the memo, when present, is the polygon of the CURRENT sides *)
  Definition memo_ok (b : ab) : Prop := match ab_poly b with Some p => p = poly_of (ab_contour b) | None => True end.

  Lemma run_op_keeps_memo_ok o b b1 obs : memo_ok b -> run_op o b = Some (b1, obs) ->
    memo_ok b1 /\ match o with ContourPoly => obs = Some (poly_of (ab_contour b)) /\ ab_contour b1 = ab_contour b | Decimate _ => obs = None end.
  Proof.
    intros Hm H. destruct o as [r|]; cbn [run_op] in H.
    - destruct (state_of (imp_decimate OP b r)) as [| |s'] eqn:E; try discriminate. inversion H; subst.
      split; [|reflexivity]. unfold memo_ok. rewrite (imp_decimate_resets_memo b r s' E). exact I.
    - destruct (imp_contour_poly_code_is_model b) as (s' & E & Es). rewrite E in H. inversion H; subst. rewrite Es.
      unfold memo_ok in *. destruct (ab_poly b) as [p|]; cbn [ab_poly ab_contour ab_lons ab_lats].
      + subst p. repeat split.
      + repeat split.
  Qed.

  (* for every history of decimate / contour_poly calls on an object whose memo (if any) is valid - e.g. a fresh object -
     every contour_poly observation is the polygon of the sides the object has AT THAT MOMENT *)
  Fixpoint expected (h : list op) (b : ab) : list (option (list T * list T)) :=
    match h with
    | [] => []
    | Decimate r :: t => match state_of (imp_decimate OP b r) with COk s' => None :: expected t (imp_decimate_self s') | _ => [] end
    | ContourPoly :: t => Some (ab_contour b) ::
        expected t (mk_ab (ab_lons b) (ab_lats b) (Some (match ab_poly b with Some p => p | None => poly_of (ab_contour b) end)))
    end.
  Theorem history_contour_poly_is_current (h : list op) : forall b b' obs, memo_ok b -> run_ops h b = Some (b', obs) ->
    memo_ok b' /\ obs = map (option_map poly_of) (expected h b).
  Proof.
    induction h as [|o h IH]; intros b b' obs Hm H.
    - cbn in H. inversion H; subst. split; [exact Hm|reflexivity].
    - cbn [run_ops] in H. destruct (run_op o b) as [[b1 o1]|] eqn:E1; [|discriminate].
      destruct (run_ops h b1) as [[b2 l]|] eqn:E2; [|discriminate]. inversion H; subst.
      destruct (run_op_keeps_memo_ok o b b1 o1 Hm E1) as (Hm1 & Ho).
      destruct (IH b1 b' l Hm1 E2) as (Hm2 & Hl). split; [exact Hm2|].
      destruct o as [r|]; cbn [expected run_op] in *.
      + destruct (state_of (imp_decimate OP b r)) as [| |s'] eqn:E; try discriminate. inversion E1; subst.
        cbn [map option_map]. f_equal; try exact Hl.
      + destruct Ho as [-> _]. cbn [map option_map]. f_equal; try reflexivity.
        destruct (imp_contour_poly_code_is_model b) as (s' & E & Es). rewrite E in E1. inversion E1; subst.
        rewrite Es. destruct (ab_poly b); reflexivity.
  Qed.
End ImpState.
