(* C05: the dimension bookkeeping of get_sample_from_neighbour_info keeps the non-geo dims (order and sizes),
   replaces the consecutive source geo dims by (y, x), and leaves dtype / attrs untouched. *)
From Coq Require Import ZArith List Lia Bool.
From PR Require Import Base.ZX Model.Blockwise.
Import ListNotations.
Open Scope Z_scope.

Section DimsProofs.
  Variable y x : Z.
  Variable geo : list Z.

  (* after the geo dims were handled: remaining geo dims are dropped, the others are kept *)
  Lemma dims_loop_trail trail : forall st, length st = length trail ->
    Forall (fun d => memb d geo = false) trail ->
    dims_loop y x trail st geo true = (st, trail).
  Proof.
    induction trail as [|d trail IH]; intros [|s st] Hl Hf; cbn in *; try lia; [reflexivity|].
    inversion Hf as [|? ? Hd Hr]; subst. rewrite Hd. cbn. rewrite IH by (try lia; assumption). reflexivity.
  Qed.

  Lemma dims_loop_georest grest : forall sg trail st, length sg = length grest -> length st = length trail ->
    Forall (fun d => memb d geo = true) grest -> Forall (fun d => memb d geo = false) trail ->
    dims_loop y x (grest ++ trail) (sg ++ st) geo true = (st, trail).
  Proof.
    induction grest as [|d grest IH]; intros [|s sg] trail st Hl Hl' Hg Ht; cbn [app length] in *; try lia.
    - apply dims_loop_trail; assumption.
    - inversion Hg as [|? ? Hd Hr]; subst. cbn [dims_loop]. rewrite Hd. cbn [andb negb].
      apply IH; try assumption; lia.
  Qed.

  Theorem dims_loop_spec lead : forall sl g grest sg sgrest trail st,
    length sl = length lead -> length sgrest = length grest -> length st = length trail ->
    Forall (fun d => memb d geo = false) lead -> Forall (fun d => memb d geo = true) (g :: grest) ->
    Forall (fun d => memb d geo = false) trail ->
    dims_loop y x (lead ++ (g :: grest) ++ trail) (sl ++ (sg :: sgrest) ++ st) geo false
    = (sl ++ (-1) :: st, lead ++ y :: x :: trail).
  Proof.
    induction lead as [|d lead IH]; intros [|s sl] g grest sg sgrest trail st Hl Hg Ht Hfl Hfg Hft;
      cbn [app length] in *; try lia.
    - inversion Hfg as [|? ? Hd Hr]; subst. cbn [dims_loop]. rewrite Hd. cbn [andb negb].
      rewrite dims_loop_georest by assumption. reflexivity.
    - inversion Hfl as [|? ? Hd Hr]; subst. cbn [dims_loop]. rewrite Hd. cbn [andb negb].
      rewrite (IH sl g grest sg sgrest trail st) by (try lia; assumption). reflexivity.
  Qed.

  Lemma out_shape_keep s H W : Forall (fun v => 0 <= v) s -> out_shape s H W = s.
  Proof.
    induction 1 as [|v s Hv Hs IH]; cbn; [reflexivity|]. destruct (Z.eqb_spec v (-1)); [lia|]. f_equal. exact IH.
  Qed.

  Lemma out_shape_spec sl st H W : Forall (fun v => 0 <= v) sl -> Forall (fun v => 0 <= v) st ->
    out_shape (sl ++ (-1) :: st) H W = sl ++ H :: W :: st.
  Proof.
    induction 1 as [|v s Hv Hs IH]; intros Hst; cbn.
    - f_equal. f_equal. apply out_shape_keep. exact Hst.
    - destruct (Z.eqb_spec v (-1)); [lia|]. f_equal. apply IH. exact Hst.
  Qed.

  Theorem result_meta_spec lead sl g grest sg sgrest trail st dtype attrs H W :
    length sl = length lead -> length sgrest = length grest -> length st = length trail ->
    Forall (fun d => memb d geo = false) lead -> Forall (fun d => memb d geo = true) (g :: grest) ->
    Forall (fun d => memb d geo = false) trail ->
    Forall (fun v => 0 <= v) sl -> Forall (fun v => 0 <= v) st ->
    result_meta y x (mk_meta (lead ++ (g :: grest) ++ trail) (sl ++ (sg :: sgrest) ++ st) dtype attrs) geo H W
    = mk_meta (lead ++ y :: x :: trail) (sl ++ H :: W :: st) dtype attrs.
  Proof.
    intros. unfold result_meta. cbn [m_dims m_shape m_dtype m_attrs].
    rewrite dims_loop_spec by assumption. rewrite out_shape_spec by assumption. reflexivity.
  Qed.
End DimsProofs.
