(* C09: the statements of Properties/C09.v, assembled from the component lemmas. *)
From Coq Require Import Reals ZArith Lra Lia Bool List Psatz.
From Flocq Require Import Zaux Raux Generic_fmt Round_NE.
From PR Require Import Base.ZX Base.Num Base.RNum Base.Slice Model.Partition Model.Blockwise Model.Gradient
     Proofs.C05_assemble Proofs.C09_newton Proofs.C09_scan Proofs.C09_kernels Proofs.C09_blocks.
Import ListNotations.
Open Scope R_scope.

Section Main.
  Variables x0 y0 a b c e : R.
  Hypothesis Hdet : c * b - e * a <> 0.
  Variables lmax pmax : Z.
  Hypothesis Hl : (0 <= lmax < 2 ^ 31)%Z.
  Hypothesis Hp : (0 <= pmax < 2 ^ 31)%Z.
  Notation F := (affF x0 y0 a b c e).
  Notation eL := (exactL x0 y0 a b c e).
  Notation eP := (exactP x0 y0 a b c e).

  (* the Newton loop from any in-image start: accepted within two body executions, at the exact position *)
  Lemma newton_exact tx ty l0 p0 k :
    in_image lmax pmax l0 p0 = true -> inside lmax pmax (eL tx ty) (eP tx ty) = true ->
    exists l1 p1 dl dp, newton RO F lmax pmax tx ty (S (S k)) l0 p0 = Conv l1 p1 dl dp /\
      IZR l1 + dl = eL tx ty /\ IZR p1 + dp = eP tx ty /\
      idx_kern RO l1 p1 dl dp = (eP tx ty, eL tx ty).
  Proof.
    intros Hin I. apply inside_true in I. destruct I as [IL IP].
    destruct (newton_converges x0 y0 a b c e Hdet lmax pmax tx ty Hl Hp k l0 p0 Hin IL IP) as (l1 & p1 & dl & dp & N).
    destruct (newton_conv_exact x0 y0 a b c e Hdet lmax pmax tx ty _ _ _ _ _ _ _ N) as (EL & EP & _).
    exists l1, p1, dl, dp. repeat split; try assumption. unfold idx_kern. cbn [add ofZ RO]. f_equal; lra.
  Qed.

  (* a point outside the hull of the centres never gets a value, whatever the carried-over state *)
  Lemma outside_none {A} (kern : Z -> Z -> R -> R -> A) st tx ty :
    inside lmax pmax (eL tx ty) (eP tx ty) = false -> snd (pixel RO F lmax pmax kern st (tx, ty)) = None.
  Proof.
    intros I. unfold pixel, is_inf. cbn [isfinite isnan RO negb andb fst snd].
    destruct (newton RO F lmax pmax tx ty 5 (s_l0 st) (s_p0 st)) as [l1 p1 dl dp|] eqn:N; [|reflexivity].
    destruct (newton_conv_exact x0 y0 a b c e Hdet lmax pmax tx ty _ _ _ _ _ _ _ N) as (EL & EP & _).
    cbn [snd].
    assert (E : in_range RO lmax pmax l1 p1 dl dp = inside lmax pmax (eL tx ty) (eP tx ty)).
    { unfold in_range, inside, zeroT. cbn [leb add ofZ RO].
      replace (dl + IZR l1) with (eL tx ty) by lra. replace (dp + IZR p1) with (eP tx ty) by lra. reflexivity. }
    rewrite E, I. reflexivity.
  Qed.

  (* the whole zig-zag scan with the index kernel *)
  Definition idx_spec (t : R * R) : option (R * R) :=
    if inside lmax pmax (eL (fst t) (snd t)) (eP (fst t) (snd t)) then Some (eP (fst t) (snd t), eL (fst t) (snd t)) else None.
  Lemma search_indices dst H W :
    search RO F lmax pmax (idx_kern RO) dst H W = tab (fun i j => idx_spec (dst i j)) 0 H 0 W.
  Proof.
    rewrite (search_eq x0 y0 a b c e Hdet lmax pmax Hl Hp (idx_kern RO) (fun L P v => v = (P, L))
               ltac:(intros; unfold idx_kern; cbn [add ofZ RO]; f_equal; lra) (fun L P => (P, L)) (fun L P v H => H)).
    reflexivity.
  Qed.

  (* the Cython nn kernel over the whole scan: a pixel containing the point *)
  Variable D : Z -> Z -> R.
  Definition nn_rel (L P v : R) : Prop := exists n m, v = D n m /\ contains lmax L n /\ contains pmax P m.
  Lemma search_nn dst H W :
    Forall2 (fun i row => Forall2 (fun j o => pix_rel x0 y0 a b c e lmax pmax nn_rel (dst i j) o) (zrange 0 W) row)
            (zrange 0 H) (search RO F lmax pmax (nn_kern RO D lmax pmax) dst H W).
  Proof.
    apply (search_rel x0 y0 a b c e Hdet lmax pmax Hl Hp). intros l1 p1 dl dp Hin Hdl Hdp HL HP.
    apply in_image_spec in Hin. unfold nn_rel, nn_kern. do 2 eexists. split; [reflexivity|].
    split; apply nn_axis_contains; try assumption; lia.
  Qed.

  (* the Cython bil kernel over the whole scan: the standard bilinear value on the enclosing cell *)
  Definition bil_value (L P : R) : R := bilin4 D (Zfloor L) (Zfloor P) L P.
  Lemma search_bil dst H W :
    search RO F lmax pmax (bil_kern RO D lmax pmax) dst H W
    = tab (fun i j => pix_spec x0 y0 a b c e lmax pmax bil_value (dst i j)) 0 H 0 W.
  Proof.
    apply (search_eq x0 y0 a b c e Hdet lmax pmax Hl Hp (bil_kern RO D lmax pmax) (fun L P v => v = bil_value L P)); [|intros; assumption].
    intros l1 p1 dl dp Hin Hdl Hdp HL HP. apply in_image_spec in Hin. unfold bil_kern.
    pose proof (bil_axis_good lmax l1 dl ltac:(lia) Hdl HL) as Gl.
    pose proof (bil_axis_good pmax p1 dp ltac:(lia) Hdp HP) as Gp.
    destruct (bil_axis RO l1 dl lmax) as [[la lb] wl]. destruct (bil_axis RO p1 dp pmax) as [[pa pb] wp].
    destruct Gl as (Gl & _). destruct Gp as (Gp & _).
    apply bil_sum_axes; try assumption; apply floor_encloses.
  Qed.
End Main.

(* ---------------- chunk invariance, instantiated for the two interpolators ---------------- *)
Section Chunks.
  Variables x0 y0 a b c e : R.
  Hypothesis Hdet : c * b - e * a <> 0.
  Variables n_l n_p : Z.
  Hypothesis Hnl : (1 <= n_l <= 2 ^ 31)%Z.
  Hypothesis Hnp : (1 <= n_p <= 2 ^ 31)%Z.
  Variable D : Z -> Z -> R.
  Variable dst : Z -> Z -> R * R.
  Variable crop : pslice -> pslice -> option (pslice * pslice).
  Notation Fc := (fun ys xs : pslice => shift_fields (affF x0 y0 a b c e) (sstart ys) (sstart xs)).

  Lemma bil_any_chunking rows cols :
    Forall (fun x => (0 <= x)%Z) rows -> Forall (fun x => (0 <= x)%Z) cols ->
    H_crop x0 y0 a b c e n_l n_p dst crop rows cols ->
    resample RO Fc crop dst D (block_bil RO) rows cols
    = tab (point_spec x0 y0 a b c e n_l n_p dst (bil_value D)) 0 (sumZ rows) 0 (sumZ cols).
  Proof.
    intros Hr Hc HC.
    apply (resample_any_chunking x0 y0 a b c e Hdet n_l n_p Hnl Hnp D dst (block_bil RO) (bil_value D) (fun _ _ => True));
      try assumption.
    - intros oy ox ny nx L P Hny Hnx HL HP _. apply block_bil_spec; try assumption; apply floor_encloses.
    - intros rs cs _ _ i j _ _ _. exact I.
  Qed.

  Definition nn_value (L P : R) : R := D (ZnearestE L) (ZnearestE P).
  Definition H_notie (rows cols : list Z) : Prop :=
    H_side x0 y0 a b c e n_l n_p dst (fun L P => no_tie L /\ no_tie P) rows cols.
  Lemma nn_any_chunking rows cols :
    Forall (fun x => (0 <= x)%Z) rows -> Forall (fun x => (0 <= x)%Z) cols ->
    H_crop x0 y0 a b c e n_l n_p dst crop rows cols -> H_notie rows cols ->
    resample RO Fc crop dst D (block_nn RO) rows cols
    = tab (point_spec x0 y0 a b c e n_l n_p dst nn_value) 0 (sumZ rows) 0 (sumZ cols).
  Proof.
    intros Hr Hc HC HT.
    apply (resample_any_chunking x0 y0 a b c e Hdet n_l n_p Hnl Hnp D dst (block_nn RO) nn_value (fun L P => no_tie L /\ no_tie P));
      try assumption.
    intros oy ox ny nx L P Hny Hnx HL HP [TL TP]. apply block_nn_spec; assumption.
  Qed.
End Chunks.

(* ---------------- np.gradient of an affine coordinate array is the constant slope, ends included ---------------- *)
Lemma np_gradient_affine q s n i : (2 <= n)%Z -> (0 <= i < n)%Z ->
  np_gradient1 RO n (fun k => q + s * IZR k) i = s.
Proof.
  intros Hn Hi. unfold np_gradient1. cbn [sub div ofZ RO].
  destruct (Z.eqb_spec i 0) as [->|N0]; [simpl; lra|].
  destruct (Z.eqb_spec i (n - 1)) as [->|N1].
  - replace (n - 1 - 1)%Z with (n - 2)%Z by lia. rewrite !minus_IZR. simpl (IZR 1). simpl (IZR 2). lra.
  - rewrite plus_IZR, minus_IZR. simpl (IZR 1). field.
Qed.

Lemma np_gradient_affine_ext (f : Z -> R) q s n i : (forall k, f k = q + s * IZR k) -> (2 <= n)%Z -> (0 <= i < n)%Z ->
  np_gradient1 RO n f i = s.
Proof.
  intros Hf Hn Hi. rewrite <- (np_gradient_affine q s n i Hn Hi). unfold np_gradient1. rewrite !Hf. reflexivity.
Qed.

(* so the four gradient arrays _get_coordinates_in_same_projection computes for an (uncropped or cropped) area are,
   on the grid, the constants the theorems use *)
Lemma fields_of_affine_coords x0 y0 a b c e n_l n_p l p : (2 <= n_l)%Z -> (2 <= n_p)%Z -> (0 <= l < n_l)%Z -> (0 <= p < n_p)%Z ->
  let F := fields_of_coords RO n_l n_p (f_sx (affF x0 y0 a b c e)) (f_sy (affF x0 y0 a b c e)) in
  f_xl F l p = a /\ f_xp F l p = b /\ f_yl F l p = c /\ f_yp F l p = e.
Proof.
  intros Hl Hp Il Ip. cbn [fields_of_coords f_xl f_xp f_yl f_yp f_sx f_sy affF].
  repeat split.
  - apply (np_gradient_affine_ext _ (x0 + b * IZR p) a); try assumption. intros k. ring.
  - apply (np_gradient_affine_ext _ (x0 + a * IZR l) b); try assumption. intros k. ring.
  - apply (np_gradient_affine_ext _ (y0 + e * IZR p) c); try assumption. intros k. ring.
  - apply (np_gradient_affine_ext _ (y0 + c * IZR l) e); try assumption. intros k. ring.
Qed.

(* ---------------- a sliced source: positions are relative to the slice, whatever the slicing history ---------------- *)
Lemma shift_fields_compose {T} (F : fields T) a1 b1 a2 b2 :
  shift_fields (shift_fields F a1 b1) a2 b2 = shift_fields F (a2 + a1) (b2 + b1).
Proof.
  unfold shift_fields, shift2. cbn [f_sx f_sy f_xl f_xp f_yl f_yp]. f_equal;
    apply FunctionalExtensionality.functional_extensionality; intros l;
    apply FunctionalExtensionality.functional_extensionality; intros p; f_equal; lia.
Qed.
Lemma slice_steps_from {T} (F : fields T) steps : forall r0 c0,
  fold_left (fun G s => shift_fields G (fst s) (snd s)) steps (shift_fields F r0 c0)
  = shift_fields F (fst (fold_left (fun acc s => (fst acc + fst s, snd acc + snd s))%Z steps (r0, c0)))
                   (snd (fold_left (fun acc s => (fst acc + fst s, snd acc + snd s))%Z steps (r0, c0))).
Proof.
  induction steps as [|[a b] r IH]; intros r0 c0; cbn [fold_left fst snd]; [reflexivity|].
  rewrite shift_fields_compose. replace (a + r0)%Z with (r0 + a)%Z by lia. replace (b + c0)%Z with (c0 + b)%Z by lia. apply IH.
Qed.
Lemma shift_fields_0 {T} (F : fields T) : shift_fields F 0 0 = F.
Proof.
  destruct F. unfold shift_fields, shift2. cbn. f_equal;
    apply FunctionalExtensionality.functional_extensionality; intros l;
    apply FunctionalExtensionality.functional_extensionality; intros p; f_equal; lia.
Qed.
Lemma slice_steps_shift {T} (F : fields T) steps :
  slice_steps F steps = shift_fields F (fst (steps_start steps)) (snd (steps_start steps)).
Proof. unfold slice_steps, steps_start. rewrite <- (shift_fields_0 F) at 1. apply slice_steps_from. Qed.

Theorem sliced_source_positions x0 y0 a b c e : c * b - e * a <> 0 ->
  forall steps lmax pmax, (0 <= lmax < 2 ^ 31)%Z -> (0 <= pmax < 2 ^ 31)%Z ->
  forall (dst : Z -> Z -> R * R) H W,
    search RO (slice_steps (affF x0 y0 a b c e) steps) lmax pmax (idx_kern RO) dst H W
    = tab (fun i j =>
             let L := exactL x0 y0 a b c e (fst (dst i j)) (snd (dst i j)) - IZR (fst (steps_start steps)) in
             let P := exactP x0 y0 a b c e (fst (dst i j)) (snd (dst i j)) - IZR (snd (steps_start steps)) in
             if inside lmax pmax L P then Some (P, L) else None) 0 H 0 W.
Proof.
  intros Hdet steps lmax pmax Hl Hp dst H W. rewrite slice_steps_shift, shift_affine.
  rewrite (search_indices _ _ a b c e Hdet lmax pmax Hl Hp). apply tab_ext_in. intros i j _ _. unfold idx_spec.
  destruct (exact_shift x0 y0 a b c e Hdet (fst (steps_start steps)) (snd (steps_start steps)) (fst (dst i j)) (snd (dst i j))) as [-> ->].
  reflexivity.
Qed.
