(* C01 -- the affine conversions as REGENERATED from /repo's current source (coq/Gen/GenC01.v, tools/py2coq.py) are the
   clean maps of Model/Grid.v, hence mutual inverses and the canonical map.  The characterisation is closed by a small
   portfolio so that algebraically equivalent rewrites of the source re-prove themselves. *)
From Coq Require Import Reals ZArith Lra Lia.
From PR Require Import Base.Num Base.RNum Model.Grid Proofs.Grid_real Gen.GenC01.
Open Scope R_scope.

Ltac c01_unfold_gen :=
  unfold gen01_array_coordinates_from_projection_coordinates, gen01_projection_coordinates_from_array_coordinates,
         gen01_get_corner_and_scale, arr_of_proj_x, arr_of_proj_y, proj_of_arr_x, proj_of_arr_y, xscale, yscale, upl_x, upl_y.
Ltac c01_char a W :=
  first [ reflexivity
        | pose proof (dx_nonzero a W); pose proof (dy_nonzero a W); c01_unfold_gen; rewrite ?psx_eq, ?psy_eq in *; cbn;
          f_equal; first [ reflexivity | ring | field; first [ assumption | split; assumption | lra ] ] ].

Lemma gen01_arr_of_proj_char (a : area R) x y : wf_area a ->
  gen01_array_coordinates_from_projection_coordinates RO a x y = (arr_of_proj_x RO a x, arr_of_proj_y RO a y).
Proof. intros W. c01_char a W. Qed.

Lemma gen01_proj_of_arr_char (a : area R) c r : wf_area a ->
  gen01_projection_coordinates_from_array_coordinates RO a c r = (proj_of_arr_x RO a c, proj_of_arr_y RO a r).
Proof. intros W. c01_char a W. Qed.

Lemma gen01_corner_and_scale_char (a : area R) : wf_area a ->
  gen01_get_corner_and_scale RO a = (upl_x RO a, upl_y RO a, xscale RO a, yscale RO a).
Proof. intros W. first [ reflexivity | c01_unfold_gen; cbn; repeat f_equal; lra ]. Qed.

Lemma gen01_inverses (a : area R) : wf_area a ->
  (forall c r, let '(x, y) := gen01_projection_coordinates_from_array_coordinates RO a c r in
               gen01_array_coordinates_from_projection_coordinates RO a x y = (c, r)) /\
  (forall x y, let '(c, r) := gen01_array_coordinates_from_projection_coordinates RO a x y in
               gen01_projection_coordinates_from_array_coordinates RO a c r = (x, y)) /\
  (forall c r, gen01_projection_coordinates_from_array_coordinates RO a c r =
               (xmin a + (c + /2) * dxR a, ymax a - (r + /2) * dyR a)).
Proof.
  intros W. split; [|split].
  - intros c r. rewrite gen01_proj_of_arr_char by assumption. rewrite gen01_arr_of_proj_char by assumption.
    now rewrite arr_proj_inverse_x, arr_proj_inverse_y.
  - intros x y. rewrite gen01_arr_of_proj_char by assumption. rewrite gen01_proj_of_arr_char by assumption.
    now rewrite proj_arr_inverse_x, proj_arr_inverse_y.
  - intros c r. rewrite gen01_proj_of_arr_char by assumption.
    now rewrite proj_of_arr_x_canonical, proj_of_arr_y_canonical.
Qed.
