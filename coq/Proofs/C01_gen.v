(* C01 -- the affine conversions as REGENERATED from /repo's current source (coq/Gen/GenC01.v, tools/py2coq.py) are the
   clean maps of Model/Grid.v, hence mutual inverses and the canonical map.  The characterisation is closed by a small
   portfolio so that algebraically equivalent rewrites of the source re-prove themselves. *)
From Coq Require Import Reals ZArith Lra Lia Bool.
From Flocq Require Import Zaux Raux.
From PR Require Import Base.Num Base.RNum Model.Grid Model.C01_Area Proofs.Grid_real Proofs.C01_index Gen.GenC01.
Open Scope R_scope.

Ltac c01_unfold_gen :=
  unfold gen01_array_coordinates_from_projection_coordinates, gen01_projection_coordinates_from_array_coordinates,
         gen01_get_corner_and_scale, arr_of_proj_x, arr_of_proj_y, proj_of_arr_x, proj_of_arr_y, xscale, yscale, upl_x, upl_y.
Ltac c01_char a W :=
  first [ reflexivity
        | pose proof (dx_nonzero a W); pose proof (dy_nonzero a W); c01_unfold_gen; rewrite ?psx_eq, ?psy_eq in *; cbn;
          f_equal; first [ reflexivity | ring | field; first [ assumption | split; assumption | lra ] ] ].

Lemma gen01_arr_of_proj_char (a : area R) x y : wf_area a ->
  gen01_array_coordinates_from_projection_coordinates RO a x y = (arr_of_proj_x RO a x, arr_of_proj_y RO a y).
Proof. intros W. c01_char a W. Qed.

Lemma gen01_proj_of_arr_char (a : area R) c r : wf_area a ->
  gen01_projection_coordinates_from_array_coordinates RO a c r = (proj_of_arr_x RO a c, proj_of_arr_y RO a r).
Proof. intros W. c01_char a W. Qed.

Lemma gen01_corner_and_scale_char (a : area R) : wf_area a ->
  gen01_get_corner_and_scale RO a = (upl_x RO a, upl_y RO a, xscale RO a, yscale RO a).
Proof. intros W. first [ reflexivity | c01_unfold_gen; cbn; repeat f_equal; lra ]. Qed.

Lemma gen01_inverses (a : area R) : wf_area a ->
  (forall c r, let '(x, y) := gen01_projection_coordinates_from_array_coordinates RO a c r in
               gen01_array_coordinates_from_projection_coordinates RO a x y = (c, r)) /\
  (forall x y, let '(c, r) := gen01_array_coordinates_from_projection_coordinates RO a x y in
               gen01_projection_coordinates_from_array_coordinates RO a c r = (x, y)) /\
  (forall c r, gen01_projection_coordinates_from_array_coordinates RO a c r =
               (xmin a + (c + /2) * dxR a, ymax a - (r + /2) * dyR a)).
Proof.
  intros W. split; [|split].
  - intros c r. rewrite gen01_proj_of_arr_char by assumption. rewrite gen01_arr_of_proj_char by assumption.
    now rewrite arr_proj_inverse_x, arr_proj_inverse_y.
  - intros x y. rewrite gen01_arr_of_proj_char by assumption. rewrite gen01_proj_of_arr_char by assumption.
    now rewrite proj_arr_inverse_x, proj_arr_inverse_y.
  - intros c r. rewrite gen01_proj_of_arr_char by assumption.
    now rewrite proj_of_arr_x_canonical, proj_of_arr_y_canonical.
Qed.

(* ---- masked_ints.wrapper (element-wise block), AreaDefinition.__init__ (arithmetic), _generate_1d_proj_vectors (one element) ---- *)

(* masked_ints.wrapper: the hand model's index and mask on both axes (np.round(v).astype(int) = trunc of an integer-valued number) *)
Lemma gen01_masked_ints_char (a : area R) (cf rf : R) :
  gen01_masked_ints RO a cf rf =
  (c01_area_index RO (width a) cf, c01_area_index RO (height a) rf, c01_area_mask RO (width a) cf, c01_area_mask RO (height a) rf).
Proof.
  first [ reflexivity
        | unfold gen01_masked_ints, c01_area_index, c01_area_mask, c01_clip, c01_lo, c01_hi, c01_half, c01_eps;
          cbn [truncZ ofZ rintZ RO]; rewrite ?Ztrunc_IZR; reflexivity ].
Qed.

(* AreaDefinition.__init__: the attributes are the ones of Model/Grid.v *)
Lemma gen01_init_char (x0 y0 x1 y1 : R) (w h : Z) : (1 <= w)%Z -> (1 <= h)%Z ->
  let a := mk_area x0 y0 x1 y1 w h in
  gen01_init RO w h (x0, y0, x1, y1) =
  (pixel_size_x RO a, pixel_size_y RO a, (upl_x RO a, upl_y RO a), pixel_offset_x RO a, pixel_offset_y RO a).
Proof.
  intros Hw Hh a.
  first [ reflexivity
        | pose proof (IZR_pos_of _ Hw); pose proof (IZR_pos_of _ Hh);
          unfold gen01_init, pixel_size_x, pixel_size_y, upl_x, upl_y, pixel_offset_x, pixel_offset_y; cbn;
          repeat f_equal; first [ reflexivity | ring | field; lra ] ].
Qed.

(* _generate_1d_proj_vectors: element col of x and element row of y *)
Lemma gen01_proj_vector_elements_char (a : area R) (c r : Z) :
  gen01_proj_vector_elements RO (pixel_size_x RO a, pixel_size_y RO a) (upl_x RO a, upl_y RO a) c r = (proj_x RO a c, proj_y RO a r).
Proof.
  first [ reflexivity | unfold gen01_proj_vector_elements, proj_x, proj_y; cbn; f_equal; ring ].
Qed.

(* source-level statements: __init__ followed by the vector recipe is the canonical map ... *)
Lemma gen01_source_canonical (x0 y0 x1 y1 : R) (w h c r : Z) : (1 <= w)%Z -> (1 <= h)%Z ->
  let '(psx, psy, ul, _, _) := gen01_init RO w h (x0, y0, x1, y1) in
  gen01_proj_vector_elements RO (psx, psy) ul c r =
  (x0 + (IZR c + /2) * ((x1 - x0) / IZR w), y1 - (IZR r + /2) * ((y1 - y0) / IZR h)).
Proof.
  intros Hw Hh. rewrite gen01_init_char by assumption. cbv zeta.
  rewrite gen01_proj_vector_elements_char, proj_x_canonical, proj_y_canonical. reflexivity.
Qed.

(* ... and the regenerated lookup (affine conversion, then the masked_ints block) is the hand model's array lookup *)
Lemma gen01_source_lookup (a : area R) (x y : R) : wf_area a ->
  let '(cf, rf) := gen01_array_coordinates_from_projection_coordinates RO a x y in
  let '(cd, rd, cm, rm) := gen01_masked_ints RO a cf rf in
  c01_index_array RO a x y = ((if cm then None else Some cd), (if rm then None else Some rd)).
Proof.
  intros W. rewrite gen01_arr_of_proj_char by assumption. rewrite gen01_masked_ints_char.
  unfold c01_index_array, c01_masked_index. reflexivity.
Qed.
