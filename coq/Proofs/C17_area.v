(* C17 — the angle-sum structure of SphPolygon.area over the reals.  The azimuth expression is the oracle [az]. *)
From Coq Require Import Reals ZArith List Bool Lra Lia Psatz.
From PR Require Import Base.Num Base.RNum Model.SphPoly.
Import ListNotations.
Open Scope R_scope.

(* ---------- lists *)
Fixpoint sumR (l : list R) : R := match l with [] => 0 | x :: r => x + sumR r end.

Lemma sumR_app a b : sumR (a ++ b) = sumR a + sumR b.
Proof. induction a; cbn; lra. Qed.
Lemma sumR_rot1 l : sumR (rot1 l) = sumR l.
Proof. destruct l; cbn; [reflexivity|]. rewrite sumR_app. cbn. lra. Qed.
Lemma sumR_rev l : sumR (rev l) = sumR l.
Proof. induction l; cbn; [reflexivity|]. rewrite sumR_app. cbn. lra. Qed.
Lemma fold_left_Rplus l a : fold_left Rplus l a = a + sumR l.
Proof. revert a. induction l; intros; cbn; [lra|]. rewrite IHl. lra. Qed.

Lemma rot1_length {A} (l : list A) : length (rot1 l) = length l.
Proof. destruct l; cbn; [reflexivity|]. rewrite app_length. cbn. lia. Qed.

Section Map3.
  Context {A B C D : Type} (f : A -> B -> C -> D).
  Lemma map3_length a b c : length a = length b -> length a = length c -> length (map3 f a b c) = length a.
  Proof.
    revert b c. induction a; intros [|y b] [|z c]; cbn; intros; try discriminate; try reflexivity.
    f_equal. apply IHa; lia.
  Qed.
  Lemma map3_app a a' b b' c c' : length a = length b -> length a = length c ->
    map3 f (a ++ a') (b ++ b') (c ++ c') = map3 f a b c ++ map3 f a' b' c'.
  Proof.
    revert b c. induction a; intros [|y b] [|z c]; cbn; intros; try discriminate; try reflexivity.
    f_equal. apply IHa; lia.
  Qed.
  Lemma map3_rot1 a b c : length a = length b -> length a = length c ->
    map3 f (rot1 a) (rot1 b) (rot1 c) = rot1 (map3 f a b c).
  Proof.
    destruct a as [|x a], b as [|y b], c as [|z c]; cbn; intros; try discriminate; try reflexivity.
    apply map3_app; lia.
  Qed.
  Lemma map3_rev a b c : length a = length b -> length a = length c ->
    map3 f (rev a) (rev b) (rev c) = rev (map3 f a b c).
  Proof.
    revert b c. induction a; intros [|y b] [|z c]; cbn; intros; try discriminate; try reflexivity.
    rewrite map3_app by (rewrite !rev_length; lia). rewrite IHa by lia. reflexivity.
  Qed.
  (* extra entries behind equally long prefixes are ignored *)
  Lemma map3_prefix a b b' c c' : length a = length b -> length a = length c ->
    map3 f a (b ++ b') (c ++ c') = map3 f a b c.
  Proof.
    revert b c. induction a; intros [|y b] [|z c]; cbn; intros; try discriminate; try reflexivity.
    f_equal. apply IHa; lia.
  Qed.
End Map3.

Lemma map3_swap {A B D} (f : A -> B -> A -> D) a b c :
  map3 f a b c = map3 (fun x y z => f z y x) c b a.
Proof. revert b c. induction a; intros [|y b] [|z c]; cbn; try reflexivity. f_equal. apply IHa. Qed.

Definition rotr1 {A} (l : list A) : list A := rev (rot1 (rev l)).
Lemma rot1_rev {A} (l : list A) : rot1 (rev l) = rev (rotr1 l).
Proof. unfold rotr1. now rewrite rev_involutive. Qed.
Lemma rot1_rotr1 {A} (l : list A) : rot1 (rotr1 l) = l.
Proof.
  unfold rotr1. destruct (rev l) as [|x t] eqn:E; cbn.
  - apply (f_equal (@rev A)) in E. rewrite rev_involutive in E. now subst.
  - rewrite rev_app_distr. cbn. apply (f_equal (@rev A)) in E. rewrite rev_involutive in E. subst. reflexivity.
Qed.
Lemma rotr1_length {A} (l : list A) : length (rotr1 l) = length l.
Proof. unfold rotr1. now rewrite rev_length, rot1_length, rev_length. Qed.

(* ---------- the model over R *)
Section AreaR.
  Variable V : Type.
  Variable az : V -> V -> R.

  Definition tau := 2 * PI.
  Definition normR (a : R) : R := if Rltb a 0 then a + tau else a.
  Definition alphaR (a p b : V) : R := normR (az a p - az b p).
  Definition alphasR (vs : list V) := map3 alphaR vs (rot1 vs) (rot1 (rot1 vs)).
  Definition asum (vs : list V) := sumR (alphasR vs).

  Lemma area_R vs r : area RO V az PI vs r = (asum vs - (INR (length vs) - 2) * PI) * (r * r).
  Proof.
    unfold area, area_r2, fsum, asum. cbn [mul sub add ofZ RO]. rewrite fold_left_Rplus.
    rewrite minus_IZR, <- INR_IZR_INZ. replace (IZR 0) with 0 by reflexivity.
    rewrite Rplus_0_l. reflexivity.
  Qed.

  Lemma normR_range a : -tau < a < tau -> 0 <= normR a < tau.
  Proof.
    unfold normR. intros H. destruct (Rltb a 0) eqn:E.
    - apply Rltb_true in E. lra.
    - apply Rltb_false in E. lra.
  Qed.
  Lemma tau_pos : 0 < tau.
  Proof. unfold tau. pose proof PI_RGT_0. lra. Qed.

  (* ----- cyclic relabelling *)
  Lemma alphasR_rot1 vs : alphasR (rot1 vs) = rot1 (alphasR vs).
  Proof. unfold alphasR. apply map3_rot1; now rewrite ?rot1_length. Qed.
  Lemma asum_rot1 vs : asum (rot1 vs) = asum vs.
  Proof. unfold asum. now rewrite alphasR_rot1, sumR_rot1. Qed.
  Lemma asum_cons_snoc x l : asum (x :: l) = asum (l ++ [x]).
  Proof. symmetry. exact (asum_rot1 (x :: l)). Qed.
  Lemma asum_app_comm l1 l2 : asum (l1 ++ l2) = asum (l2 ++ l1).
  Proof.
    revert l2. induction l1 as [|x t IH]; intros l2; [now rewrite app_nil_r|].
    cbn [app]. rewrite asum_cons_snoc, <- app_assoc, IH, <- app_assoc. reflexivity.
  Qed.

  Lemma area_cyclic l1 l2 r : area RO V az PI (l2 ++ l1) r = area RO V az PI (l1 ++ l2) r.
  Proof. rewrite !area_R, !app_length, (asum_app_comm l2 l1), (Nat.add_comm (length l2)). reflexivity. Qed.

  Lemma area_cyclic_k k vs r : area RO V az PI (skipn k vs ++ firstn k vs) r = area RO V az PI vs r.
  Proof. rewrite area_cyclic, firstn_skipn. reflexivity. Qed.

  (* ----- radius *)
  Lemma area_radius_sq vs r : area RO V az PI vs r = area RO V az PI vs 1 * r ^ 2.
  Proof. rewrite !area_R. ring. Qed.
  Lemma area_scale vs k r : area RO V az PI vs (k * r) = k ^ 2 * area RO V az PI vs r.
  Proof. rewrite !area_R. ring. Qed.

  (* ----- inverse *)
  Definition windows (vs : list V) : list (V * V * V) := map3 (fun a p b => (a, p, b)) vs (rot1 vs) (rot1 (rot1 vs)).
  Definition nondegenerate (vs : list V) : Prop :=
    Forall (fun w => let '(a, p, b) := w in az a p - az b p <> 0) (windows vs).

  Definition alphaR' (a p b : V) : R := alphaR b p a.
  Definition asum' (vs : list V) := sumR (map3 alphaR' vs (rot1 vs) (rot1 (rot1 vs))).

  Lemma asum'_rot1 vs : asum' (rot1 vs) = asum' vs.
  Proof. unfold asum'. rewrite map3_rot1 by now rewrite ?rot1_length. apply sumR_rot1. Qed.

  Lemma asum_rev vs : asum (rev vs) = asum' vs.
  Proof.
    unfold asum, alphasR. rewrite !rot1_rev.
    rewrite map3_rev by now rewrite ?rotr1_length.
    rewrite sumR_rev.
    set (w := rotr1 (rotr1 vs)).
    assert (E1 : rotr1 vs = rot1 w) by (unfold w; now rewrite rot1_rotr1).
    assert (E0 : vs = rot1 (rot1 w)) by (rewrite <- E1; now rewrite rot1_rotr1).
    clearbody w. transitivity (asum' w).
    - rewrite E1. replace (map3 alphaR vs (rot1 w) w) with (map3 alphaR (rot1 (rot1 w)) (rot1 w) w) by now rewrite <- E0.
      rewrite map3_swap. reflexivity.
    - rewrite E0. now rewrite !asum'_rot1.
  Qed.

  Lemma normR_neg a : a <> 0 -> normR a + normR (- a) = tau.
  Proof.
    intros H. unfold normR.
    destruct (Rltb a 0) eqn:E1, (Rltb (- a) 0) eqn:E2;
      repeat match goal with
             | H : Rltb _ _ = true |- _ => apply Rltb_true in H
             | H : Rltb _ _ = false |- _ => apply Rltb_false in H
             end; lra.
  Qed.

  Lemma sum_pairs a b c :
    Forall (fun w => let '(a, p, b) := w in az a p - az b p <> 0) (map3 (fun a p b => (a, p, b)) a b c) ->
    sumR (map3 alphaR a b c) + sumR (map3 alphaR' a b c) = INR (length (map3 (fun a p b => (a, p, b)) a b c)) * tau.
  Proof.
    revert b c. induction a as [|x a IH]; intros [|y b] [|z c] H; cbn [map3 sumR length]; try (cbn; lra).
    cbn [map3] in H. inversion H as [|? ? Hx Hr]; subst. specialize (IH _ _ Hr).
    rewrite S_INR. change (alphaR x y z) with (normR (az x y - az z y)).
    change (alphaR' x y z) with (normR (az z y - az x y)).
    replace (az z y - az x y) with (- (az x y - az z y)) by ring.
    pose proof (normR_neg _ Hx). lra.
  Qed.

  Lemma windows_length vs : length (windows vs) = length vs.
  Proof. unfold windows. apply map3_length; now rewrite ?rot1_length. Qed.

  Lemma area_inverse_4pi vs r : nondegenerate vs ->
    area RO V az PI vs r + area RO V az PI (inverse vs) r = 4 * PI * r ^ 2.
  Proof.
    intros H. unfold inverse. rewrite !area_R, rev_length, asum_rev.
    pose proof (sum_pairs _ _ _ H) as S. fold (windows vs) in S. rewrite windows_length in S.
    fold (alphasR vs) in S. fold (asum vs) in S. fold (asum' vs) in S. unfold tau in S.
    replace (asum' vs) with (INR (length vs) * (2 * PI) - asum vs) by lra. ring.
  Qed.

  (* ----- open paths: the angles at the inner points of x0 x1 ... xm *)
  Fixpoint palphas (l : list V) : list R :=
    match l with
    | a :: t => match t with p :: b :: _ => alphaR a p b :: palphas t | _ => [] end
    | [] => []
    end.
  Definition psum l := sumR (palphas l).

  Lemma map3_tails l s : length s = 2%nat ->
    map3 alphaR l (tl (l ++ s)) (tl (tl (l ++ s))) = palphas (l ++ s).
  Proof.
    intros Hs. induction l as [|a l IH].
    - destruct s as [|x [|y [|? ?]]]; try discriminate. reflexivity.
    - cbn [app tl]. destruct (l ++ s) as [|p [|b rest]] eqn:E.
      + destruct l; destruct s; discriminate.
      + destruct l as [|? [|? ?]]; destruct s as [|? [|? ?]]; discriminate.
      + cbn [tl map3]. change (palphas (a :: p :: b :: rest)) with (alphaR a p b :: palphas (p :: b :: rest)).
        f_equal. exact IH.
  Qed.

  Lemma asum_path x y t : asum (x :: y :: t) = psum ((x :: y :: t) ++ [x; y]).
  Proof.
    unfold asum, alphasR, psum. rewrite <- map3_tails by reflexivity. f_equal.
    cbn [rot1 app tl]. rewrite <- app_assoc. cbn [app].
    change (y :: t ++ [x; y]) with ((y :: t) ++ [x; y]).
    replace ((y :: t) ++ [x; y]) with (((y :: t) ++ [x]) ++ [y]) by (rewrite <- app_assoc; reflexivity).
    replace (t ++ [x; y]) with ((t ++ [x; y]) ++ []) at 2 by apply app_nil_r.
    symmetry. apply map3_prefix; cbn; rewrite !app_length; cbn; lia.
  Qed.

  Lemma psum_split l a b m : psum (l ++ a :: b :: m) = psum (l ++ [a; b]) + psum (a :: b :: m).
  Proof.
    unfold psum. induction l as [|c l IH].
    - cbn. lra.
    - destruct l as [|d l].
      + cbn. lra.
      + destruct l as [|e l].
        * cbn in *. lra.
        * cbn [app palphas sumR] in *. lra.
  Qed.
  Lemma psum_snoc l a b c : psum (l ++ [a; b; c]) = psum (l ++ [a; b]) + alphaR a b c.
  Proof. rewrite psum_split. unfold psum. cbn. lra. Qed.
  Lemma psum_cons3 a p b m : psum (a :: p :: b :: m) = alphaR a p b + psum (p :: b :: m).
  Proof. reflexivity. Qed.

  (* ----- additivity along a diagonal *)
  Definition az_range : Prop := forall x p, - PI < az x p <= PI.
  (* seen from the pivot p with previous vertex a and next vertex b, the direction of d lies inside the vertex angle:
     turning from the direction of b, d is met no later than a *)
  Definition inside_at (p a b d : V) : Prop := normR (az d p - az b p) <= normR (az a p - az b p).

  Lemma alpha_split p a b d : az_range -> inside_at p a b d -> alphaR a p b = alphaR d p b + alphaR a p d.
  Proof.
    intros R. unfold inside_at, alphaR, normR, tau.
    pose proof (R a p). pose proof (R b p). pose proof (R d p). pose proof PI_RGT_0.
    destruct (Rltb (az d p - az b p) 0) eqn:E1, (Rltb (az a p - az b p) 0) eqn:E2, (Rltb (az a p - az d p) 0) eqn:E3;
      repeat match goal with
             | H : Rltb _ _ = true |- _ => apply Rltb_true in H
             | H : Rltb _ _ = false |- _ => apply Rltb_false in H
             end; intros; lra.
  Qed.

  Lemma asum_whole v0 vk x1 t1 i1 xl y1 t2 i2 ym :
    x1 :: t1 = i1 ++ [xl] -> y1 :: t2 = i2 ++ [ym] ->
    asum (v0 :: (x1 :: t1) ++ vk :: (y1 :: t2)) =
      psum (v0 :: (x1 :: t1) ++ [vk]) + alphaR xl vk y1 + psum (vk :: (y1 :: t2) ++ [v0]) + alphaR ym v0 x1.
  Proof.
    intros E1 E2.
    change (v0 :: (x1 :: t1) ++ vk :: y1 :: t2) with (v0 :: x1 :: (t1 ++ vk :: y1 :: t2)).
    rewrite asum_path.
    replace ((v0 :: x1 :: t1 ++ vk :: y1 :: t2) ++ [v0; x1])
      with ((v0 :: i1) ++ xl :: vk :: (y1 :: t2) ++ [v0; x1]).
    2:{ cbn [app]. f_equal. change (x1 :: (t1 ++ vk :: y1 :: t2) ++ [v0; x1]) with (((x1 :: t1) ++ vk :: y1 :: t2) ++ [v0; x1]).
        rewrite E1, <- !app_assoc. reflexivity. }
    rewrite psum_split.
    replace ((v0 :: i1) ++ [xl; vk]) with (v0 :: (x1 :: t1) ++ [vk]) by (rewrite E1, <- app_assoc; reflexivity).
    cbn [app]. rewrite psum_cons3.
    change (vk :: y1 :: t2 ++ [v0; x1]) with (vk :: (y1 :: t2) ++ [v0; x1]).
    rewrite E2.
    replace (vk :: (i2 ++ [ym]) ++ [v0; x1]) with ((vk :: i2) ++ [ym; v0; x1]) by (rewrite <- app_assoc; reflexivity).
    rewrite psum_snoc.
    replace ((vk :: i2) ++ [ym; v0]) with (vk :: (i2 ++ [ym]) ++ [v0]) by (rewrite <- app_assoc; reflexivity).
    rewrite <- E2. cbn [app]. lra.
  Qed.

  (* a closed polygon  h :: (x1 :: t1) ++ [z]  whose last edge z -> h is the diagonal *)
  Lemma asum_part h z x1 t1 i1 xl :
    x1 :: t1 = i1 ++ [xl] ->
    asum (h :: (x1 :: t1) ++ [z]) = psum (h :: (x1 :: t1) ++ [z]) + alphaR xl z h + alphaR z h x1.
  Proof.
    intros E1.
    change (h :: (x1 :: t1) ++ [z]) with (h :: x1 :: (t1 ++ [z])) at 1.
    rewrite asum_path.
    replace ((h :: x1 :: t1 ++ [z]) ++ [h; x1]) with (((h :: i1) ++ [xl]) ++ [z; h; x1]).
    2:{ cbn [app]. f_equal. rewrite <- app_assoc. change (x1 :: (t1 ++ [z]) ++ [h; x1]) with (((x1 :: t1) ++ [z]) ++ [h; x1]).
        rewrite E1, <- !app_assoc. reflexivity. }
    rewrite psum_snoc.
    replace (((h :: i1) ++ [xl]) ++ [z; h]) with ((h :: i1) ++ [xl; z; h]) by (rewrite <- app_assoc; reflexivity).
    rewrite psum_snoc.
    replace ((h :: i1) ++ [xl; z]) with (h :: (x1 :: t1) ++ [z]) by (rewrite E1, <- app_assoc; reflexivity).
    lra.
  Qed.

  Lemma area_additive_diagonal v0 vk l1 l2 r :
    l1 <> [] -> l2 <> [] -> az_range ->
    inside_at v0 (last l2 vk) (hd vk l1) vk ->
    inside_at vk (last l1 v0) (hd v0 l2) v0 ->
    area RO V az PI (v0 :: l1 ++ vk :: l2) r =
      area RO V az PI (v0 :: l1 ++ [vk]) r + area RO V az PI (vk :: l2 ++ [v0]) r.
  Proof.
    intros N1 N2 R I0 Ik.
    destruct l1 as [|x1 t1]; [congruence|]. destruct l2 as [|y1 t2]; [congruence|].
    destruct (exists_last N1) as (i1 & xl & E1). destruct (exists_last N2) as (i2 & ym & E2).
    rewrite E1 in Ik at 1. rewrite E2 in I0 at 1. rewrite last_last in I0, Ik. cbn [hd] in I0, Ik.
    rewrite !area_R.
    rewrite (asum_whole v0 vk x1 t1 i1 xl y1 t2 i2 ym E1 E2).
    rewrite (asum_part v0 vk x1 t1 i1 xl E1), (asum_part vk v0 y1 t2 i2 ym E2).
    rewrite (alpha_split v0 ym x1 vk R I0), (alpha_split vk xl y1 v0 R Ik).
    cbn [length]. rewrite !app_length. cbn [length]. rewrite !S_INR, !plus_INR, !S_INR. cbn [INR]. ring.
  Qed.

  (* ----- rotation of the sphere: azimuths change by a pivot-dependent offset, i.e. differences change by a multiple of 2 pi *)
  Lemma normR_shift a (k : Z) : - tau < a < tau -> - tau < a + IZR k * tau < tau -> normR (a + IZR k * tau) = normR a.
  Proof.
    intros Ha Hb. pose proof tau_pos as T.
    assert (Hk : (-1 <= k <= 1)%Z).
    { split.
      - destruct (Z_lt_le_dec k (-1)) as [L|L]; [|lia]. exfalso.
        assert (IZR k <= -2) by (apply (IZR_le k (-2)); lia). nra.
      - destruct (Z_lt_le_dec 1 k) as [L|L]; [|lia]. exfalso.
        assert (2 <= IZR k) by (apply (IZR_le 2 k); lia). nra. }
    assert (C : k = (-1)%Z \/ k = 0%Z \/ k = 1%Z) by lia.
    unfold normR.
    destruct C as [-> | [-> | ->]];
      destruct (Rltb (a + _ * tau) 0) eqn:E1, (Rltb a 0) eqn:E2;
      repeat match goal with
             | H : Rltb _ _ = true |- _ => apply Rltb_true in H
             | H : Rltb _ _ = false |- _ => apply Rltb_false in H
             end; lra.
  Qed.
End AreaR.

Section Rotation.
  Variable V : Type.
  Variable az : V -> V -> R.
  Variable rho : V -> V.                      (* the rotation acting on vertices *)

  Definition az_rot (x p : V) : R := az (rho x) (rho p).
  (* the named hypothesis: a rotation preserves the oriented angle between two directions at a pivot, so the
     difference of the two azimuths changes by a whole number of turns *)
  Definition rotation_invariant : Prop :=
    forall a p b, exists k : Z, az (rho a) (rho p) - az (rho b) (rho p) = (az a p - az b p) + IZR k * (2 * PI).

  Lemma map3_map {A B} (f : B -> B -> B -> R) (g : A -> B) a b c :
    map3 f (map g a) (map g b) (map g c) = map3 (fun x y z => f (g x) (g y) (g z)) a b c.
  Proof. revert b c. induction a; intros [|? ?] [|? ?]; cbn; try reflexivity. f_equal. apply IHa. Qed.
  Lemma rot1_map {A B} (g : A -> B) l : rot1 (map g l) = map g (rot1 l).
  Proof. destruct l; cbn; [reflexivity|]. now rewrite map_app. Qed.
  Lemma map3_ext {A} (f g : A -> A -> A -> R) a b c : (forall x y z, f x y z = g x y z) -> map3 f a b c = map3 g a b c.
  Proof. intros E. revert b c. induction a; intros [|? ?] [|? ?]; cbn; try reflexivity. now rewrite E, IHa. Qed.

  Lemma area_rotation_if vs r : az_range V az -> rotation_invariant ->
    area RO V az PI (map rho vs) r = area RO V az PI vs r.
  Proof.
    intros R H. rewrite !area_R, map_length. f_equal. f_equal.
    unfold asum, alphasR. rewrite !rot1_map, map3_map. f_equal.
    apply map3_ext. intros a p b. unfold alphaR.
    destruct (H a p b) as (k & E). rewrite E. fold tau.
    pose proof (R a p). pose proof (R b p). pose proof (R (rho a) (rho p)). pose proof (R (rho b) (rho p)).
    apply normR_shift; unfold tau in *; lra.
  Qed.
End Rotation.
