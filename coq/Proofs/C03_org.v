(* C03, Part A: segmentation + RowAppendableArray, and worker slices, give the one-batch result. *)
From Coq Require Import ZArith List Bool Lia Arith Permutation.
From PR Require Import Base.ZX Base.ListX Base.Slice Model.Partition Model.Organise
     Proofs.C19_partition Proofs.C19_raa.
Import ListNotations.
Local Close Scope Z_scope.
Local Open Scope nat_scope.

(* ---------- pieces of a tiling, concatenated, are the whole ---------- *)
Lemma firstn_skipn_add {A} (a b : nat) : forall h : list A,
  firstn a h ++ firstn b (skipn a h) = firstn (a + b) h.
Proof.
  induction a as [|a IH]; intros h; cbn; [reflexivity|].
  destruct h as [|x h]; cbn; [now rewrite firstn_nil|]. f_equal. apply IH.
Qed.

Lemma skipn_add {A} (a : nat) : forall (b : nat) (l : list A), skipn b (skipn a l) = skipn (a + b) l.
Proof.
  induction a as [|a IH]; intros b l; cbn; [reflexivity|].
  destruct l as [|x l]; [now rewrite skipn_nil|]. apply IH.
Qed.

Lemma take_slice_tiles {A} (g : list A) sl : forall from to,
  tiles from sl to -> (0 <= from)%Z ->
  concat (map (fun s => take_slice s g) sl) = firstn (Z.to_nat (to - from)) (skipn (Z.to_nat from) g).
Proof.
  induction sl as [|s r IH]; cbn [tiles map concat]; intros from to H Hf.
  - subst. rewrite Z.sub_diag. reflexivity.
  - destruct H as (Hs & Hlt & Ht).
    pose proof (tiles_bounds _ _ _ Ht) as [Hle _].
    rewrite (IH _ _ Ht) by lia. unfold take_slice. rewrite Hs.
    replace (Z.to_nat (sstop s)) with (Z.to_nat from + Z.to_nat (sstop s - from)) by lia.
    rewrite <- skipn_add.
    rewrite firstn_skipn_add. f_equal. lia.
Qed.

Lemma take_slice_partition {A} (g : list A) sl :
  tiles 0 sl (Z.of_nat (length g)) -> concat (map (fun s => take_slice s g) sl) = g.
Proof.
  intros H. rewrite (take_slice_tiles g sl 0 _ H) by lia. cbn [Z.to_nat skipn].
  rewrite Z.sub_0_r, Nat2Z.id. apply firstn_all.
Qed.

Lemma concat_concat {A} (ll : list (list (list A))) : concat (map (@concat A) ll) = concat (concat ll).
Proof. induction ll as [|l r IH]; cbn; [reflexivity|]. rewrite concat_app, IH. reflexivity. Qed.

(* mapping over the pieces and concatenating = mapping over the whole *)
Lemma map_pieces {A B} (f : list A -> list B) (g : list (list A)) sl :
  (forall ll, f (concat ll) = concat (map f ll)) ->
  tiles 0 sl (Z.of_nat (length g)) ->
  concat (map (fun s => f (rows_of s g)) sl) = f (concat g).
Proof.
  intros Hf H. unfold rows_of.
  transitivity (f (concat (concat (map (fun s => take_slice s g) sl))));
    [|rewrite (take_slice_partition g sl H); reflexivity].
  rewrite <- concat_concat, Hf, !map_map. reflexivity.
Qed.

Section Org.
  Context {target result : Type}.
  Variable q : target -> result.
  Variable valid : target -> bool.

  Lemma segmented_is_plain segments (g : list (list target)) capacity :
    (1 <= segments)%Z -> info_segmented q valid segments g capacity = info_plain q valid g.
  Proof.
    intros Hs. unfold info_segmented, info_plain.
    destruct (get_slice_partition segments (Z.of_nat (length g)) ltac:(lia) Hs) as [Ht _].
    rewrite !raa_refines_concat, !map_map. cbn [query_batch fst snd]. f_equal; f_equal.
    - apply (map_pieces (map valid)); [intros; apply concat_map|exact Ht].
    - apply (map_pieces (fun l => map q (filter valid l))); [|exact Ht].
      intros ll. rewrite <- concat_filter_map, concat_map, map_map. reflexivity.
  Qed.

  (* every value of the segments argument, including None, 0 and more segments than rows *)
  Lemma segments_invariant segments (g : list (list target)) capacity :
    neighbour_info q valid segments g capacity = info_plain q valid g.
  Proof.
    unfold neighbour_info. destruct (Z.ltb_spec 1 segments); [apply segmented_is_plain; lia|reflexivity].
  Qed.

  Lemma auto_segments_pos size : (1 <= auto_segments size)%Z.
  Proof.
    unfold auto_segments. destruct (Z.ltb_spec 3000000 size); [|lia].
    apply Z.div_le_lower_bound; lia.
  Qed.
End Org.

(* ---------- workers writing their slices ---------- *)
Lemma nth_error_firstn_lt {A} (l : list A) : forall n i, i < n -> nth_error (firstn n l) i = nth_error l i.
Proof.
  induction l as [|x l IH]; intros n i H; [now rewrite firstn_nil|].
  destruct n; [lia|]. destruct i; cbn; [reflexivity|]. apply IH. lia.
Qed.
Lemma nth_error_skipn_add {A} (l : list A) : forall n i, nth_error (skipn n l) i = nth_error l (n + i).
Proof.
  induction l as [|x l IH]; intros n i; [rewrite skipn_nil; now destruct i, n|].
  destruct n; cbn; [reflexivity|]. apply IH.
Qed.
Lemma nth_error_eq_ext {A} (l1 : list A) : forall l2, (forall i, nth_error l1 i = nth_error l2 i) -> l1 = l2.
Proof.
  induction l1 as [|x l1 IH]; intros [|y l2] H; try reflexivity; try (specialize (H 0); discriminate).
  pose proof (H 0) as H0. cbn in H0. inversion H0; subst. f_equal. apply IH. intros i. exact (H (S i)).
Qed.

Definition in_slice (s : pslice) (i : nat) : Prop := (sstart s <= Z.of_nat i < sstop s)%Z.

Lemma write_at_spec {A} (arr vals : list A) s :
  (0 <= sstart s <= sstop s)%Z -> (sstop s <= Z.of_nat (length arr))%Z ->
  length vals = Z.to_nat (sstop s - sstart s) ->
  length (write_at arr s vals) = length arr /\
  forall i, nth_error (write_at arr s vals) i =
            if ((sstart s <=? Z.of_nat i) && (Z.of_nat i <? sstop s))%Z
            then nth_error vals (i - Z.to_nat (sstart s)) else nth_error arr i.
Proof.
  intros Hb Hl Hv. unfold write_at.
  assert (Hf : length (firstn (Z.to_nat (sstart s)) arr) = Z.to_nat (sstart s)) by (rewrite firstn_length; lia).
  split.
  - rewrite !app_length, Hf, skipn_length, Hv. lia.
  - intros i. destruct (Z.leb_spec (sstart s) (Z.of_nat i)); cbn [andb].
    + rewrite nth_error_app2 by lia. rewrite Hf.
      destruct (Z.ltb_spec (Z.of_nat i) (sstop s)).
      * apply nth_error_app1. lia.
      * rewrite nth_error_app2 by lia. rewrite nth_error_skipn_add. f_equal. lia.
    + rewrite nth_error_app1 by lia. apply nth_error_firstn_lt. lia.
Qed.

Lemma run_workers_inv {A B} (f : A -> B) (xs : list A) handed : forall (arr : list B) (C : nat -> Prop),
  length arr = length xs ->
  (forall i, C i -> nth_error arr i = nth_error (map f xs) i) ->
  Forall (fun s => (0 <= sstart s <= sstop s)%Z /\ (sstop s <= Z.of_nat (length xs))%Z) handed ->
  length (run_workers f xs handed arr) = length xs /\
  forall i, (C i \/ exists s, In s handed /\ in_slice s i) ->
            nth_error (run_workers f xs handed arr) i = nth_error (map f xs) i.
Proof.
  induction handed as [|s r IH]; intros arr C Hlen HC Hall; cbn [run_workers fold_left].
  - split; [exact Hlen|]. intros i [H|(s & [] & _)]. apply HC, H.
  - inversion Hall as [|? ? [Hb Hs] Hr]; subst.
    assert (Hv : length (map f (take_slice s xs)) = Z.to_nat (sstop s - sstart s)).
    { unfold take_slice. rewrite map_length, firstn_length, skipn_length. lia. }
    destruct (write_at_spec arr (map f (take_slice s xs)) s Hb ltac:(lia) Hv) as [Hl' Hn'].
    destruct (IH (write_at arr s (map f (take_slice s xs))) (fun i => C i \/ in_slice s i)) as [HL HN];
      [lia| |exact Hr|].
    + intros i Hi. rewrite Hn'.
      destruct (Z.leb_spec (sstart s) (Z.of_nat i)); destruct (Z.ltb_spec (Z.of_nat i) (sstop s)); cbn [andb];
        try (destruct Hi as [Hi|Hi]; [apply HC, Hi|unfold in_slice in Hi; lia]).
      unfold take_slice. rewrite !nth_error_map, nth_error_firstn_lt by lia.
      rewrite nth_error_skipn_add. do 2 f_equal. lia.
    + split; [exact HL|]. intros i Hi. apply HN.
      destruct Hi as [Hi|(s' & [<-|Hin] & Hi)]; [left; left; exact Hi|left; right; exact Hi|right; exists s'; auto].
Qed.

Lemma tiles_cover sl : forall from to, tiles from sl to ->
  Forall (fun s => (from <= sstart s <= sstop s)%Z /\ (sstop s <= to)%Z) sl /\
  forall i, (from <= Z.of_nat i < to)%Z -> exists s, In s sl /\ in_slice s i.
Proof.
  induction sl as [|s r IH]; cbn [tiles]; intros from to H.
  - subst. split; [constructor|]. intros; lia.
  - destruct H as (Hs & Hlt & Ht). destruct (IH _ _ Ht) as [Hall Hcov].
    pose proof (tiles_bounds _ _ _ Ht) as [Hle _]. split.
    + constructor; [lia|]. eapply Forall_impl; [|exact Hall]. cbn; intros; lia.
    + intros i Hi. destruct (Z.ltb_spec (Z.of_nat i) (sstop s)).
      * exists s. split; [left; reflexivity|]. unfold in_slice. lia.
      * destruct (Hcov i ltac:(lia)) as (s' & Hin & Hi'). exists s'. split; [right; exact Hin|exact Hi'].
Qed.

(* whatever slices the scheduler hands out, to whichever worker and in whatever order, as long as together they
   tile [0, n): every element of the shared output ends up being f of the corresponding input *)
Lemma nprocs_invariant {A B} (f : A -> B) (xs : list A) (handed tiling : list pslice) (init : list B) :
  tiles 0 tiling (Z.of_nat (length xs)) -> Permutation handed tiling -> length init = length xs ->
  run_workers f xs handed init = map f xs.
Proof.
  intros Ht Hp Hl. destruct (tiles_cover _ _ _ Ht) as [Hall Hcov].
  destruct (run_workers_inv f xs handed init (fun _ => False) Hl ltac:(intros i []) ) as [HL HN].
  - apply Forall_forall. intros s Hs. rewrite Forall_forall in Hall.
    apply (Permutation_in _ Hp) in Hs. specialize (Hall s Hs). cbn in Hall. lia.
  - apply nth_error_eq_ext. intros i.
    destruct (Nat.lt_ge_cases i (length xs)) as [Hi|Hi].
    + apply HN. right. destruct (Hcov i ltac:(lia)) as (s & Hin & Hs). exists s. split; [|exact Hs].
      apply (Permutation_in _ (Permutation_sym Hp)). exact Hin.
    + transitivity (@None B); [|symmetry]; apply nth_error_None; [lia|rewrite map_length; lia].
Qed.

(* ---------- history on the target object: get_lonlats(cache=True) earlier ---------- *)
(* the cached path slices the stored coordinate grid, the uncached path computes the coordinates of the sliced pixels;
   for one pointwise coordinate function [coord] they are the same rows *)
Lemma skipn_map' {A B} (f : A -> B) n : forall l, skipn n (map f l) = map f (skipn n l).
Proof. induction n as [|n IH]; intros [|x l]; cbn; auto. Qed.
Lemma cached_rows_equal {P C} (coord : P -> C) (s : pslice) (g : list (list P)) :
  rows_of s (map (map coord) g) = map coord (rows_of s g).
Proof. unfold rows_of, take_slice. rewrite skipn_map', firstn_map, <- concat_map. reflexivity. Qed.
