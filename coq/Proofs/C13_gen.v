(* C13: the definition regenerated from /repo's current _round_shape equals the model's round_shape (reals). *)
From Coq Require Import Reals ZArith Bool Lra Lia.
From PR Require Import Base.Num Base.RNum Model.AreaConfig Gen.GenC13 Proofs.C13_base.
Open Scope R_scope.

Lemma gen_round_shape_is_model (s : R * R) :
  gen_round_shape RO s tt tt = (round_dim RO (fst s), round_dim RO (snd s)).
Proof.
  destruct s as [h w]. unfold gen_round_shape, round_dim. cbn [fst snd].
  fold (c_1em8 RO). fold (c_001 RO).
  destruct (ltb RO (c_1em8 RO) (absf RO (sub RO w (ofZ RO (rintZ RO w))))),
           (leb RO (c_001 RO) (sub RO w (ofZ RO (floorZ RO w)))),
           (ltb RO (c_1em8 RO) (absf RO (sub RO h (ofZ RO (rintZ RO h))))),
           (leb RO (c_001 RO) (sub RO h (ofZ RO (floorZ RO h)))); cbn [andb];
    cbn [rintZ ofZ RO]; rewrite ?rint_IZR; reflexivity.
Qed.

Lemma gen_sign_is_model (x : R) : IZR (gen_sign RO x) = signT RO x.
Proof. unfold gen_sign, signT, zeroT. cbn [ltb ofZ RO]. destruct (Rltb x 0); reflexivity. Qed.

(* ---- _extrapolate_information, regenerated once per None-pattern of its arguments (py2coq "static_kinds" + "monadic"),
   is the model's extrapolate on that pattern: for every arithmetic and every PROJ oracle. *)
From Coq Require Import List.
From PR Require Import Proofs.C13_missing.

Section GenExtrapolate.
  Context {T : Type} (OP : ops T).
  Variable pfwd pinv : T * T -> option (T * T).
  Variable fac : cu -> T * T.
  Variable geographic : bool.
  Variable crs_units : cu.
  Local Notation extrap := (extrapolate OP pfwd pinv fac geographic crs_units).
  Local Notation convert := (convert_units OP pfwd pinv fac geographic crs_units).

  (* the generated functions return bare values where the pattern says "not None" and tt where it says None *)
  Definition full (r : res ((T * T * T * T) * (Z * Z) * (T * T))) :=
    match r with Ok (e, s, d) => Ok (Some e, Some s, Some d) | Err => Err end.
  Definition full_nores (r : res ((T * T * T * T) * (Z * Z) * unit)) : res (option (T * T * T * T) * option (Z * Z) * option (T * T)) :=
    match r with Ok (e, s, _) => Ok (Some e, Some s, None) | Err => Err end.

  Ltac rw_cases :=
    match goal with
    | |- context[convert None ?n ?u ?c] => rewrite (convert_none OP pfwd pinv fac geographic crs_units n u c)
    | |- context[validate2 OP None ?n] => change (validate2 OP None n) with (Ok n)
    | |- context[validate4 OP None ?n] => change (validate4 OP None n) with (Ok n)
    | |- context[validate_shape OP None ?n] => change (validate_shape OP None n) with (Ok n)
    end.
  (* the call the left-hand side is waiting for (program order), split into its outcomes on both sides at once *)
  Ltac head t := lazymatch t with bind ?x _ => head x | _ => t end.
  Ltac br_cases :=
    match goal with
    | |- ?L = _ =>
      let h := head L in
      lazymatch h with
      | convert (@Some ?ty ?p) ?n ?u ?c =>
        let H := fresh in pose proof (convert_some OP pfwd pinv fac geographic crs_units p n u c) as H;
        change (@Some (T * T * option utok) p) with (@Some ty p) in H; destruct H as [H | [? H]]; rewrite !H
      | validate2 OP (Some ?v) ?n => let E := fresh in destruct (validate2_cases OP (Some v) n) as [E | E]; rewrite !E
      | validate4 OP (Some ?v) ?n => let E := fresh in destruct (validate4_cases OP (Some v) n) as [E | E]; rewrite !E
      | validate_shape OP (Some ?v) ?n => let E := fresh in destruct (validate_shape_cases OP (Some v) n) as [E | E]; rewrite !E
      | round_shape_kw OP ?s ?r ?d => let E := fresh in destruct (round_shape_kw_cases OP s r d) as [[? E] | E]; rewrite !E
      end
    end.
  Ltac solve_gen :=
    unfold extrapolate, conv_radius_c, conv_radius_n, conv_resolution_c, conv_resolution_n, conv1, validate2s, validate4s,
      validate_shapes, full, full_nores, twoT;
    repeat (first [progress cbn [bind] | progress cbv beta iota zeta delta [fst snd] | rw_cases
                  | match goal with x : (T * T)%type |- _ => destruct x end | br_cases]);
    try reflexivity.

  Lemma gen_crs_is_model s c r units :
    extrap None (Some s) (Some c) (Some r) None None units
    = full_nores (gen_extrapolate_crs OP pfwd pinv fac geographic crs_units tt s c r tt tt units).
  Proof. unfold gen_extrapolate_crs. destruct c, s. solve_gen. Qed.
  Lemma gen_cds_is_model s c d units :
    extrap None (Some s) (Some c) None (Some d) None units
    = full (gen_extrapolate_cds OP pfwd pinv fac geographic crs_units tt s c tt d tt units).
  Proof. unfold gen_extrapolate_cds. destruct c, s. solve_gen. Qed.
  Lemma gen_uds_is_model s d ul units :
    extrap None (Some s) None None (Some d) (Some ul) units
    = full (gen_extrapolate_uds OP pfwd pinv fac geographic crs_units tt s tt tt d ul units).
  Proof. unfold gen_extrapolate_uds. destruct ul, s. solve_gen. Qed.
  Lemma gen_crd_is_model c r d units :
    extrap None None (Some c) (Some r) (Some d) None units
    = full (gen_extrapolate_crd OP pfwd pinv fac geographic crs_units tt tt c r d tt units).
  Proof. unfold gen_extrapolate_crd. destruct c. solve_gen. Qed.
  Lemma gen_ed_is_model e0 e1 e2 e3 d units :
    extrap (Some (e0, e1, e2, e3)) None None None (Some d) None units
    = full (gen_extrapolate_ed OP pfwd pinv fac geographic crs_units (e0, e1, e2, e3) tt tt tt d tt units).
  Proof. unfold gen_extrapolate_ed. solve_gen. Qed.
  Lemma gen_ed_c_is_model e0 e1 e2 e3 c d units :
    extrap (Some (e0, e1, e2, e3)) None (Some c) None (Some d) None units
    = full (gen_extrapolate_ed_c OP pfwd pinv fac geographic crs_units (e0, e1, e2, e3) tt c tt d tt units).
  Proof. unfold gen_extrapolate_ed_c. solve_gen. Qed.
  Lemma gen_ed_r_is_model e0 e1 e2 e3 r d units :
    extrap (Some (e0, e1, e2, e3)) None None (Some r) (Some d) None units
    = full (gen_extrapolate_ed_r OP pfwd pinv fac geographic crs_units (e0, e1, e2, e3) tt tt r d tt units).
  Proof. unfold gen_extrapolate_ed_r. solve_gen. Qed.
  Lemma gen_ed_u_is_model e0 e1 e2 e3 d ul units :
    extrap (Some (e0, e1, e2, e3)) None None None (Some d) (Some ul) units
    = full (gen_extrapolate_ed_u OP pfwd pinv fac geographic crs_units (e0, e1, e2, e3) tt tt tt d ul units).
  Proof. unfold gen_extrapolate_ed_u. solve_gen. Qed.
  Lemma gen_ucrs_is_model s c r ul units :
    extrap None (Some s) (Some c) (Some r) None (Some ul) units
    = full_nores (gen_extrapolate_ucrs OP pfwd pinv fac geographic crs_units tt s c r tt ul units).
  Proof. unfold gen_extrapolate_ucrs. destruct c, ul, s. solve_gen. Qed.
  Lemma gen_crds_is_model s c r d units :
    extrap None (Some s) (Some c) (Some r) (Some d) None units
    = full (gen_extrapolate_crds OP pfwd pinv fac geographic crs_units tt s c r d tt units).
  Proof. unfold gen_extrapolate_crds. destruct c, s. solve_gen. Qed.
  Lemma gen_e_is_model e0 e1 e2 e3 units :
    extrap (Some (e0, e1, e2, e3)) None None None None None units
    = match gen_extrapolate_e OP pfwd pinv fac geographic crs_units (e0, e1, e2, e3) tt tt tt tt tt units with
      | Ok (e, _, _) => Ok (Some e, None, None) | Err => Err end.
  Proof. unfold gen_extrapolate_e. solve_gen. Qed.
  (* nothing to combine: a DynamicAreaDefinition will be made from what is there *)
  Lemma gen_none_is_model units :
    extrap None None None None None None units = Ok (None, None, None) /\
    gen_extrapolate_none pfwd pinv fac geographic crs_units tt tt tt tt tt tt units = Ok (tt, tt, tt).
  Proof. split; reflexivity. Qed.
  Lemma gen_shape_only_is_model s units :
    extrap None (Some s) None None None None units = Ok (None, Some s, None) /\
    gen_extrapolate_s pfwd pinv fac geographic crs_units tt s tt tt tt tt units = Ok (tt, s, tt).
  Proof. split; reflexivity. Qed.

  (* _validate_variable and the None path of _convert_units, regenerated *)
  Lemma gen_validate_none_is_model (n : T * T) : gen_validate_none tt n = validate2 OP None n.
  Proof. reflexivity. Qed.
  Lemma gen_validate_pair_is_model (v n : T * T) : gen_validate_pair OP v n = validate2 OP (Some v) n.
  Proof. unfold gen_validate_pair, validate2. destruct (allclose2 OP v n); reflexivity. Qed.
  Lemma gen_validate_quad_is_model (v n : T * T * T * T) : gen_validate_quad OP v n = validate4 OP (Some v) n.
  Proof. unfold gen_validate_quad, validate4. destruct (allclose4 OP v n); reflexivity. Qed.
  Lemma gen_validate_shape_is_model (v n : Z * Z) : gen_validate_shape OP v n = validate_shape OP (Some v) n.
  Proof. unfold gen_validate_shape, validate_shape. destruct (allclose2 OP (zz2t OP v) (zz2t OP n)); reflexivity. Qed.
  Lemma gen_convert_units_none_is_model name u c : convert None name u c = Ok None /\ gen_convert_units_none tt = tt.
  Proof. split; reflexivity. Qed.
End GenExtrapolate.
