(* C13: the definition regenerated from /repo's current _round_shape equals the model's round_shape (reals). *)
From Coq Require Import Reals ZArith Bool Lra Lia.
From PR Require Import Base.Num Base.RNum Model.AreaConfig Gen.GenC13 Proofs.C13_base.
Open Scope R_scope.

Lemma gen_round_shape_is_model (s : R * R) :
  gen_round_shape RO s tt tt = (round_dim RO (fst s), round_dim RO (snd s)).
Proof.
  destruct s as [h w]. unfold gen_round_shape, round_dim. cbn [fst snd].
  fold (c_1em8 RO). fold (c_001 RO).
  destruct (ltb RO (c_1em8 RO) (absf RO (sub RO w (ofZ RO (rintZ RO w))))),
           (leb RO (c_001 RO) (sub RO w (ofZ RO (floorZ RO w)))),
           (ltb RO (c_1em8 RO) (absf RO (sub RO h (ofZ RO (rintZ RO h))))),
           (leb RO (c_001 RO) (sub RO h (ofZ RO (floorZ RO h)))); cbn [andb];
    cbn [rintZ ofZ RO]; rewrite ?rint_IZR; reflexivity.
Qed.

Lemma gen_sign_is_model (x : R) : IZR (gen_sign RO x) = signT RO x.
Proof. unfold gen_sign, signT, zeroT. cbn [ltb ofZ RO]. destruct (Rltb x 0); reflexivity. Qed.
