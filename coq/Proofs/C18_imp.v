(* C18, wave 3: grid.get_resampled_image as translated from source (Gen/GenC18imp.v) returns, for every admissible
   `segments`, the unsegmented image: the rows of the target in order, each sampled on its own. *)
From Coq Require Import ZArith List Bool Lia.
From PR Require Import Base.ZX Base.Slice Base.Imp Model.Partition Model.QuickImp Gen.GenC18imp Proofs.C19_partition.
Import ListNotations.
Open Scope Z_scope.

Lemma zrows_split a n m : zrows_from a (n + m) = zrows_from a n ++ zrows_from (a + Z.of_nat n) m.
Proof.
  revert a. induction n as [| n IH]; intros a; cbn [Nat.add zrows_from app].
  - f_equal. lia.
  - rewrite IH. do 3 f_equal. lia.
Qed.

Lemma tiles_le l : forall a b, tiles a l b -> a <= b.
Proof.
  induction l as [| s r IH]; intros a b H; cbn in H; [lia |].
  destruct H as (E & L & T). specialize (IH _ _ T). lia.
Qed.

Lemma prepend_nil {St Y R} (r : res St Y R) : prepend [] r = r.
Proof. destruct r; reflexivity. Qed.

Section Q.
  Context {Px : Type} (height : Z) (row_image : Z -> list Px).
  Notation sample := (w_sample row_image).

  Lemma sample_split a b c : a <= b <= c ->
    sample (mk_slice a c) = sample (mk_slice a b) ++ sample (mk_slice b c).
  Proof.
    intros H. unfold w_sample, w_rows. cbn [sstart sstop]. rewrite <- map_app. f_equal.
    replace (Z.to_nat (c - a)) with (Z.to_nat (b - a) + Z.to_nat (c - b))%nat by lia.
    rewrite zrows_split. do 2 f_equal. lia.
  Qed.

  (* the pieces of a tiling, sampled one after another, are the sampled whole *)
  Lemma sample_tiles l : forall a b, tiles a l b -> concat (map sample l) = sample (mk_slice a b).
  Proof.
    induction l as [| s r IH]; intros a b H; cbn in H.
    - subst b. unfold w_sample, w_rows. cbn. rewrite Z.sub_diag. reflexivity.
    - destruct H as (E & L & T). cbn [map concat]. rewrite (IH _ _ T).
      pose proof (tiles_le _ _ _ T). destruct s as [s0 s1]. cbn [sstart sstop] in *. subst s0.
      symmetry. apply sample_split. lia.
  Qed.

  Notation St := (@imp_get_resampled_image_st Px).
  Notation res_ := (@imp_get_resampled_image_result Px).

  (* the loop body as generated *)
  Definition body : M St Empty_set (@qimg Px) :=
    (andthen (assign (fun s => (imp_get_resampled_image_set_lons (imp_get_resampled_image_target_slice s) s)))
    (andthen (assign (fun s => (imp_get_resampled_image_set_next_result (w_sample row_image (imp_get_resampled_image_lons s)) s)))
    (ite (fun s => ((imp_get_resampled_image_i s) =? (0)))
    (assign (fun s => (imp_get_resampled_image_set_result (Some (imp_get_resampled_image_next_result s)) s)))
    (andthen (check (fun s => (w_issome (imp_get_resampled_image_result s)))) (assign (fun s => (imp_get_resampled_image_set_result (Some (w_unopt (imp_get_resampled_image_result s) ++ (imp_get_resampled_image_next_result s))) s))))))).
  Definition bind (x_ : Z * pslice) (s : St) : St :=
    imp_get_resampled_image_set_target_slice (snd x_) (imp_get_resampled_image_set_i (fst x_) s).

  Lemma body_first x s : exists s', body (bind (0, x) s) = Fall [] s' /\ res_ s' = Some (sample x)
                                   /\ imp_get_resampled_image_segments s' = imp_get_resampled_image_segments s.
  Proof. destruct s. eexists. split; [reflexivity |]. split; reflexivity. Qed.

  Lemma body_next i x s acc : i <> 0 -> res_ s = Some acc ->
    exists s', body (bind (i, x) s) = Fall [] s' /\ res_ s' = Some (acc ++ sample x)
               /\ imp_get_resampled_image_segments s' = imp_get_resampled_image_segments s.
  Proof.
    intros Hi Hr. destruct s. cbn in Hr. subst. unfold body, bind, andthen, assign, ite, check. cbn.
    destruct (Z.eqb_spec i 0) as [E | _]; [contradiction |]. cbn. eexists. split; [reflexivity |]. split; reflexivity.
  Qed.

  Lemma loop_rest l : forall (k : nat) s acc, (1 <= k)%nat -> res_ s = Some acc ->
    exists s', for_list (combine (map Z.of_nat (seq k (length l))) l) bind body s = Fall [] s'
               /\ res_ s' = Some (acc ++ concat (map sample l)).
  Proof.
    induction l as [| x r IH]; intros k s acc Hk Hr; cbn [length seq map combine for_list concat].
    - exists s. rewrite app_nil_r. split; [reflexivity | exact Hr].
    - destruct (body_next (Z.of_nat k) x s acc ltac:(lia) Hr) as (s1 & E1 & R1 & _).
      unfold andthen. rewrite E1. cbn [prepend].
      destruct (IH (S k) s1 (acc ++ sample x) ltac:(lia) R1) as (s2 & E2 & R2).
      rewrite E2. exists s2. split; [reflexivity |]. rewrite R2, app_assoc. reflexivity.
  Qed.

  Lemma zrange_zlen {A} (l : list A) : zrange (zlen l) = map Z.of_nat (seq 0 (length l)).
  Proof. unfold zrange, zlen. rewrite Nat2Z.id. reflexivity. Qed.

  Lemma loop_all l s : l <> [] ->
    exists s', for_list (combine (zrange (zlen l)) l) bind body s = Fall [] s' /\ res_ s' = Some (concat (map sample l)).
  Proof.
    intros Hl. destruct l as [| x r]; [contradiction |]. rewrite zrange_zlen. cbn [length seq map combine for_list concat].
    change (Z.of_nat 0) with 0.
    destruct (body_first x s) as (s1 & E1 & R1 & _). unfold andthen. rewrite E1. cbn [prepend].
    destruct (loop_rest r 1 s1 (sample x) ltac:(lia) R1) as (s2 & E2 & R2). rewrite E2.
    exists s2. split; [reflexivity | exact R2].
  Qed.

  (* the generated function = head (default for `segments`) ; tail (segmented / unsegmented sampling) *)
  Definition head : M St Empty_set (@qimg Px) :=
    (ite (fun s => (match (imp_get_resampled_image_segments s) with None => true | Some _ => false end))
    (andthen (assign (fun s => (imp_get_resampled_image_set_rows height s)))
    (andthen (assign (fun s => (imp_get_resampled_image_set_cut_off (500) s)))
    (ite (fun s => ((imp_get_resampled_image_rows s) >? (imp_get_resampled_image_cut_off s)))
    (andthen (check (fun s => ((0 <=? (imp_get_resampled_image_rows s)) && ((imp_get_resampled_image_rows s) <? 2 ^ 40) && (0 <? (imp_get_resampled_image_cut_off s))))) (assign (fun s => (imp_get_resampled_image_set_segments (Some ((imp_get_resampled_image_rows s) / (imp_get_resampled_image_cut_off s))) s))))
    (assign (fun s => (imp_get_resampled_image_set_segments (Some (1)) s))))))
    skip).
  Definition tail : M St Empty_set (@qimg Px) :=
    (andthen (check (fun s => (match (imp_get_resampled_image_segments s) with Some _ => true | None => false end))) (ite (fun s => ((match (imp_get_resampled_image_segments s) with Some x_ => x_ | None => 0 end) >? (1)))
    (andthen (andthen (check (fun s => (match (imp_get_resampled_image_segments s) with Some _ => true | None => false end))) (for_ (fun s => (combine (zrange (zlen (get_slice (match (imp_get_resampled_image_segments s) with Some k_ => k_ | None => 0 end) height))) (get_slice (match (imp_get_resampled_image_segments s) with Some k_ => k_ | None => 0 end) height))) bind body))
    (andthen (check (fun s => (match (imp_get_resampled_image_result s) with Some _ => true | None => false end))) (ret (fun s => (match (imp_get_resampled_image_result s) with Some x_ => x_ | None => [] end)))))
    (andthen (assign (fun s => (imp_get_resampled_image_set_lons (w_all height) s)))
    (ret (fun s => (w_sample row_image (imp_get_resampled_image_lons s))))))).

  Lemma imp_unfold segments result :
    imp_get_resampled_image height row_image tt tt tt tt tt segments result =
    andthen head tail (mk_imp_get_resampled_image_st tt tt tt tt tt segments result 0 0 0 (mk_slice 0 0) (mk_slice 0 0) [] []).
  Proof. reflexivity. Qed.

  Lemma tail_spec s k : imp_get_resampled_image_segments s = Some k -> (1 < k -> 1 <= height) ->
    value_of (tail s) = COk (w_whole height row_image).
  Proof.
    intros Hs Hh. unfold tail. unfold andthen at 1. unfold check at 1. rewrite Hs. cbn [prepend app].
    unfold ite at 1. rewrite Hs. destruct (Z.gtb_spec k 1) as [Hk | Hk].
    - specialize (Hh Hk).
      pose proof (get_slice_partition k height ltac:(lia) ltac:(lia)) as [Ht _].
      assert (Hne : get_slice k height <> []) by (intros E; rewrite E in Ht; cbn in Ht; lia).
      unfold andthen at 1. unfold andthen at 1. unfold check at 1. rewrite Hs. cbn [prepend app].
      unfold for_. rewrite Hs.
      destruct (loop_all (get_slice k height) s Hne) as (s' & E & R). rewrite E. cbn [prepend app].
      unfold andthen, check, ret. rewrite R. cbn [value_of prepend app]. rewrite R.
      rewrite (sample_tiles _ _ _ Ht). reflexivity.
    - unfold andthen, assign, ret. destruct s. reflexivity.
  Qed.

  (* any explicit `segments` (k <= 1: one call on the whole target; k > 1: the loop over _get_slice) *)
  Lemma resampled_explicit k : (1 < k -> 1 <= height) ->
    value_of (imp_get_resampled_image height row_image tt tt tt tt tt (Some k) None) = COk (w_whole height row_image).
  Proof.
    intros Hh. rewrite imp_unfold. unfold andthen at 1. unfold head, ite at 1. cbn [imp_get_resampled_image_segments]. unfold skip.
    rewrite prepend_nil. apply (tail_spec _ k); [reflexivity | exact Hh].
  Qed.

  (* segments=None: height // 500 segments above 500 rows, else one *)
  Lemma resampled_default : 1 <= height < 2 ^ 40 ->
    value_of (imp_get_resampled_image height row_image tt tt tt tt tt None None) = COk (w_whole height row_image).
  Proof.
    intros Hh. rewrite imp_unfold. unfold andthen at 1.
    assert (Hd : exists s1 k, head (mk_imp_get_resampled_image_st tt tt tt tt tt None None 0 0 0 (mk_slice 0 0) (mk_slice 0 0) [] []) = Fall [] s1
                              /\ imp_get_resampled_image_segments s1 = Some k).
    { unfold head, ite, andthen, assign, check, skip. cbn.
      destruct (Z.gtb_spec height 500) as [G | G]; cbn.
      - replace ((0 <=? height) && (height <? 1099511627776)) with true
          by (symmetry; apply andb_true_intro; split; [apply Z.leb_le | apply Z.ltb_lt]; lia).
        cbn. eexists _, _. split; reflexivity.
      - eexists _, _. split; reflexivity. }
    destruct Hd as (s1 & k & E & Hs). rewrite E. rewrite prepend_nil.
    apply (tail_spec _ k Hs). lia.
  Qed.
End Q.
