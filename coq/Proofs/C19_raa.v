From Coq Require Import ZArith List Lia Bool.
From PR Require Import Base.ZX Base.ListX Base.Slice Model.Partition.
Import ListNotations.
Open Scope Z_scope.

Section RAA.
  Context {A : Type}.
  Definition raa_inv (s : @raa A) (sofar : list A) : Prop :=
    r_cursor s = Z.of_nat (length sofar) /\
    match r_data s with
    | None => sofar = []
    | Some d => (length sofar <= length d)%nat /\ firstn (length sofar) d = map Some sofar
    end.

  Lemma raa_inv_init cap : raa_inv (raa_init cap) [].
  Proof. split; reflexivity. Qed.

  Lemma raa_inv_append s sofar rows : raa_inv s sofar -> raa_inv (raa_append s rows) (sofar ++ rows).
  Proof.
    intros [Hc Hd]. unfold raa_append.
    set (data := match r_data s with Some d => d | None => repeat None (Z.to_nat (r_cap s)) end).
    assert (Hdata : (length sofar <= length data)%nat /\ firstn (length sofar) data = map Some sofar).
    { subst data. destruct (r_data s) as [d|]; [exact Hd|]. subst sofar. cbn. split; [lia|reflexivity]. }
    destruct Hdata as [Hle Hfirst]. rewrite Hc, Nat2Z.id.
    destruct (Z.ltb_spec (Z.of_nat (length data)) (Z.of_nat (length sofar) + Z.of_nat (length rows))) as [Hov|Hfit].
    - (* overflow *)
      split; cbn [r_cursor r_data]; [rewrite app_length; lia|].
      rewrite Hfirst, <- map_app, firstn_skipn, <- map_app.
      split; [rewrite map_length; lia|].
      rewrite <- (map_length Some (sofar ++ rows)). apply firstn_all.
    - split; cbn [r_cursor r_data]; [rewrite app_length; lia|].
      rewrite Hfirst. split.
      + rewrite !app_length, !map_length, skipn_length. lia.
      + rewrite app_assoc, <- map_app. apply firstn_app_exact. rewrite map_length. reflexivity.
  Qed.

  Lemma raa_fold_inv appends : forall s sofar, raa_inv s sofar ->
    raa_inv (fold_left raa_append appends s) (sofar ++ concat appends).
  Proof.
    induction appends as [|rows r IH]; cbn; intros s sofar H.
    - rewrite app_nil_r. exact H.
    - rewrite app_assoc. apply IH. apply raa_inv_append. exact H.
  Qed.

  Lemma raa_refines_concat cap (appends : list (list A)) :
    raa_to_array (fold_left raa_append appends (raa_init cap)) = map Some (concat appends).
  Proof.
    destruct (raa_fold_inv appends (raa_init cap) [] (raa_inv_init cap)) as [Hc Hd].
    cbn [app] in *. unfold raa_to_array. rewrite Hc, Nat2Z.id.
    destruct (r_data (fold_left raa_append appends (raa_init cap))) as [d|].
    - apply Hd.
    - rewrite Hd. reflexivity.
  Qed.
End RAA.
