(* C15: workers that fail while holding a slice.  The slice handed to a failed worker is never written by anybody, so the
   result array keeps its initial value there: the result is the single-process one only when no worker failed. *)
From Coq Require Import ZArith List Lia Bool Arith.
From PR Require Import Model.Sched Proofs.C15_inv Proofs.C15_array.
Import ListNotations.
Open Scope Z_scope.

(* ---------- array level ---------- *)
Lemma hits_unique i l s t : hits i l = 1%nat -> In s l -> contains i s = true -> In t l -> contains i t = true -> s = t.
Proof.
  unfold hits. intros H Hs Hcs Ht Hct.
  assert (In s (filter (contains i) l)) as Hs' by (apply filter_In; auto).
  assert (In t (filter (contains i) l)) as Ht' by (apply filter_In; auto).
  destruct (filter (contains i) l) as [|x [|y r]]; cbn in H; try discriminate.
  destruct Hs' as [<-|[]]. destruct Ht' as [<-|[]]. reflexivity.
Qed.

Lemma unwritten_keeps_initial {V} (f : Z -> V) d n l ws a b : 0 <= n -> ztiles 0 l n ->
  (forall s, In s ws -> In s l) -> In (a, b) l -> ~ In (a, b) ws ->
  forall i, a <= i < b -> nth (Z.to_nat i) (result_array f d n ws) d = d.
Proof.
  intros Hn Ht Hsub Hin Hnot i Hi.
  pose proof (ztiles_inside _ _ _ Ht) as Hins. rewrite Forall_forall in Hins.
  pose proof (Hins _ Hin) as Hab. cbn in Hab.
  unfold result_array.
  destruct (fold_write f d ws (repeat d (Z.to_nat n))) as [_ Hnth].
  { rewrite repeat_length, Z2Nat.id by lia. apply Forall_forall. intros s Hs. specialize (Hins _ (Hsub _ Hs)).
    unfold in_bounds. lia. }
  rewrite repeat_length in Hnth. rewrite Hnth by lia. rewrite Z2Nat.id by lia.
  destruct (covered ws i) eqn:Ec.
  - exfalso. unfold covered in Ec. apply existsb_exists in Ec. destruct Ec as (s & Hs & Hcs).
    pose proof (ztiles_hits _ _ _ Ht i) as Hh.
    destruct (Z.leb_spec 0 i), (Z.ltb_spec i n); try lia. cbn in Hh.
    assert (s = (a, b)) as ->.
    { apply (hits_unique i l); auto. unfold contains; cbn.
      destruct (Z.leb_spec a i), (Z.ltb_spec i b); try lia; reflexivity. }
    contradiction.
  - apply nth_repeat.
Qed.

(* ---------- the machine with failing workers is simulated by the machine without ---------- *)
(* s_f: state of the run with failures; s_o: state of the run of the same turns without the failure events and without
   the later turns of the failed workers (there a failed worker simply stays, forever, about to write its slice) *)
Definition Sim (sf so : state) (dropped : list (Z * Z)) : Prop :=
  ndata sf = ndata so /\ start sf = start so /\ lock sf = lock so /\ out sf = out so /\ wdone sf = wdone so /\
  (forall w, pcs sf w = pcs so w \/ (pcs sf w = PDone /\ exists a b, pcs so w = PWork a b)) /\
  (forall a b, In (a, b) dropped -> exists w, pcs so w = PWork a b /\ pcs sf w = PDone).

Lemma step_sim c s1 s2 w :
  ndata s1 = ndata s2 -> start s1 = start s2 -> lock s1 = lock s2 -> out s1 = out s2 -> wdone s1 = wdone s2 ->
  pcs s1 w = pcs s2 w ->
  ndata (step c s1 w) = ndata (step c s2 w) /\ start (step c s1 w) = start (step c s2 w) /\
  lock (step c s1 w) = lock (step c s2 w) /\ out (step c s1 w) = out (step c s2 w) /\
  wdone (step c s1 w) = wdone (step c s2 w) /\ pcs (step c s1 w) w = pcs (step c s2 w) w /\
  (forall v, v <> w -> pcs (step c s1 w) v = pcs s1 v /\ pcs (step c s2 w) v = pcs s2 v).
Proof.
  intros Hn Hs Hl Ho Hw Hp. unfold step, set_pc. rewrite Hp.
  destruct (pcs s2 w) eqn:E;
    [ rewrite Hl; destruct (lock s2) eqn:El | | | destruct (nd =? 0); [|destruct (nd <? chunk_of c nd)] | | | | ];
    cbn [ndata start lock out wdone pcs]; rewrite ?upd_same;
    repeat split; try assumption; try congruence; try (apply upd_other; assumption).
Qed.

Lemma sim_step c sf so dropped w : Sim sf so dropped -> pcs sf w = pcs so w -> Sim (step c sf w) (step c so w) dropped.
Proof.
  intros (Hn & Hs & Hl & Ho & Hw & Hp & Hd) Heq.
  destruct (step_sim c sf so w Hn Hs Hl Ho Hw Heq) as (S1 & S2 & S3 & S4 & S5 & S6 & S7).
  unfold Sim. repeat split; try assumption.
  - intros v. destruct (Nat.eq_dec v w) as [->|Hne]; [left; exact S6|].
    destruct (S7 v Hne) as [E1 E2]. rewrite E1, E2. apply Hp.
  - intros a b Hin. destruct (Hd a b Hin) as (v & Hv1 & Hv2). exists v.
    assert (v <> w) as Hne by (intros ->; rewrite Heq, Hv1 in Hv2; discriminate).
    destruct (S7 v Hne) as [E1 E2]. rewrite E1, E2. split; assumption.
Qed.

Lemma sim_turn c sf so dropped sched e : so = fold_left (step c) sched (init c) -> Sim sf so dropped ->
  exists sched', Sim (fst (fstep c (sf, dropped) e)) (fold_left (step c) sched' (init c)) (snd (fstep c (sf, dropped) e)).
Proof.
  intros Eso Hsim. destruct e as [w fails]. pose proof Hsim as (Hn & Hs & Hl & Ho & Hw & Hp & Hd).
  assert (Hboth : exists sched', Sim (step c sf w) (fold_left (step c) sched' (init c)) dropped \/ pcs sf w <> pcs so w).
  { destruct (Hp w) as [Heq|(Hdone & a & b & Hwork)].
    - exists (sched ++ [w]). left. rewrite fold_left_app. cbn [fold_left]. rewrite <- Eso. apply sim_step; assumption.
    - exists sched. right. rewrite Hdone, Hwork. discriminate. }
  destruct (Hp w) as [Heq|(Hdone & a & b & Hwork)].
  - (* w has not failed so far *)
    destruct Hboth as (sched' & [Hb|Hb]); [|contradiction].
    unfold fstep. destruct fails; [|exists sched'; exact Hb].
    destruct (pcs sf w) eqn:Epc; try (exists sched'; exact Hb).
    (* w fails while holding slice (s0, s1): in the other run it stays about to write it *)
    exists sched. rewrite <- Eso. cbn [fst snd]. unfold Sim, set_pc. cbn [ndata start lock out wdone pcs].
    repeat split; try assumption.
    + intros v. destruct (Nat.eq_dec v w) as [->|Hne].
      * right. rewrite upd_same. split; [reflexivity|]. exists s0, s1. rewrite <- Heq. reflexivity.
      * rewrite upd_other by exact Hne. apply Hp.
    + intros a b Hin. apply in_app_or in Hin. destruct Hin as [Hin|[Hin|[]]].
      * destruct (Hd a b Hin) as (v & Hv1 & Hv2). exists v. split; [exact Hv1|].
        destruct (Nat.eq_dec v w) as [->|Hne]; [apply upd_same|]. rewrite upd_other by exact Hne. exact Hv2.
      * inversion Hin; subst. exists w. split; [rewrite <- Heq; reflexivity|apply upd_same].
  - (* w failed earlier: it has returned, its turns do nothing *)
    exists sched. rewrite <- Eso.
    assert (fstep c (sf, dropped) (w, fails) = (sf, dropped)) as ->.
    { unfold fstep. rewrite Hdone. unfold step. rewrite Hdone. destruct fails; reflexivity. }
    exact Hsim.
Qed.

Lemma sim_frun c fsched : exists sched, Sim (fst (frun c fsched)) (run c sched) (snd (frun c fsched)).
Proof.
  unfold frun, run, run_from.
  assert (H0 : Sim (fst (init c, @nil (Z * Z))) (fold_left (step c) [] (init c)) (snd (init c, @nil (Z * Z)))).
  { cbn. unfold Sim. repeat split; try reflexivity; [intros w; left; reflexivity|intros a b []]. }
  revert H0. generalize (@nil nat) at 1. generalize (init c, @nil (Z * Z)).
  induction fsched as [|e fsched IH]; intros [sf dropped] sched H; cbn [fold_left]; [exists sched; exact H|].
  cbn [fst snd] in H.
  destruct (sim_turn c sf _ dropped sched e eq_refl H) as (sched' & Hsim).
  destruct (fstep c (sf, dropped) e) as [sf' dropped'].
  exact (IH (sf', dropped') sched' Hsim).
Qed.

(* under every interleaving and every pattern of failures: the slice a failed worker was holding has been handed out, is
   never written, the handed-out slices still tile a prefix of [0, n) and every write is of a handed-out slice *)
Lemma failed_slice_never_written c fsched : wf c ->
  let sf := fst (frun c fsched) in
  (exists e, 0 <= e <= n c /\ ztiles 0 (slices sf) e) /\
  (forall a b, In (a, b) (wdone sf) -> In (a, b) (slices sf)) /\
  forall a b, In (a, b) (snd (frun c fsched)) -> In (a, b) (slices sf) /\ ~ In (a, b) (wdone sf).
Proof.
  intros Hwf sf. destruct (sim_frun c fsched) as (sched & Hn & Hs & Hl & Ho & Hw & Hp & Hd). fold sf in Hn, Hs, Hl, Ho, Hw, Hp, Hd.
  unfold slices. rewrite Ho, Hw. fold (slices (run c sched)).
  destruct (invw_run c sched) as (W1 & _ & W3). destruct (invx_run c sched Hwf) as (_ & X5 & _).
  split; [exact (slices_prefix c sched Hwf)|]. split; [exact W1|].
  intros a b Hin. destruct (Hd a b Hin) as (w & Hw1 & _). split; [exact (W3 w a b Hw1)|exact (X5 w a b Hw1)].
Qed.

(* hence, if the handed-out slices cover [0, n) at the end, the result array still holds its initial value on every row
   of a failed worker's slice: it equals the single-process result only if no worker failed (or f happens to be d there) *)
Lemma failed_rows_keep_initial {V} (f : Z -> V) d c fsched : wf c ->
  let sf := fst (frun c fsched) in
  ztiles 0 (slices sf) (n c) ->
  forall a b, In (a, b) (snd (frun c fsched)) ->
  forall i, a <= i < b -> nth (Z.to_nat i) (result_array f d (n c) (wdone sf)) d = d.
Proof.
  intros Hwf sf Ht a b Hin i Hi.
  destruct (failed_slice_never_written c fsched Hwf) as (_ & Hsub & Hdrop). fold sf in Hsub, Hdrop.
  destruct (Hdrop a b Hin) as [H1 H2].
  apply (unwritten_keeps_initial f d (n c) (slices sf) (wdone sf) a b); auto.
  - destruct Hwf as (_ & ? & _). lia.
  - intros [x y] Hxy. apply Hsub. exact Hxy.
Qed.
