(* Characterisation of the regenerated validity masks (coq/Gen/GenC02.v, translated from the current
   kd_tree._get_valid_input_index / _get_valid_output_index on every run): they ARE the model's valid_in / valid_out,
   for every arithmetic instance (so in particular bit-for-bit on binary64, NaN included).
   The closing tactic treats each comparison as an opaque boolean: reordering conjuncts, naming sub-masks or renaming
   locals re-proves itself; a change of a comparison operator or bound (e.g. De Morgan with < for >=) does not. *)
From Coq Require Import ZArith Bool List.
From PR Require Import Base.Num Model.KDTree Gen.GenC02.

Ltac mask_portfolio :=
  intros; cbv beta delta [gen_valid_in gen_valid_out valid_in valid_out]; cbv [Z.opp];
  repeat match goal with |- context [leb ?o ?x ?y] => destruct (leb o x y) end;
  repeat match goal with |- context [ltb ?o ?x ?y] => destruct (ltb o x y) end;
  repeat match goal with b : bool |- _ => destruct b end;
  reflexivity.

(* either argument order of the two coordinates is accepted (the mask may test latitudes first) *)
Lemma gen_valid_in_char : forall {T} (OP : ops T),
  (forall lon lat, gen_valid_in OP lon lat = valid_in OP lon lat) \/
  (forall lon lat, gen_valid_in OP lat lon = valid_in OP lon lat).
Proof. intros T OP. first [left; mask_portfolio | right; mask_portfolio]. Qed.

Lemma gen_valid_out_char : forall {T} (OP : ops T),
  (forall lon lat (reduced : bool), gen_valid_out OP lon lat reduced = reduced && valid_out OP lon lat) \/
  (forall lon lat (reduced : bool), gen_valid_out OP lat lon reduced = reduced && valid_out OP lon lat).
Proof. intros T OP. first [left; mask_portfolio | right; mask_portfolio]. Qed.
