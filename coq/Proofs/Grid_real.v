(* Facts about the grid map over the reals, shared by C01, C07, C08, C10, C14, C18, C20. *)
From Coq Require Import Reals ZArith Lra Lia.
From Flocq Require Import Zaux Raux.
From PR Require Import Base.Num Base.RNum Model.Grid.
Open Scope R_scope.

Definition wf_area (a : area R) : Prop := (1 <= width a)%Z /\ (1 <= height a)%Z /\ xmin a <> xmax a /\ ymin a <> ymax a.
Definition dxR (a : area R) : R := (xmax a - xmin a) / IZR (width a).
Definition dyR (a : area R) : R := (ymax a - ymin a) / IZR (height a).

Lemma IZR_pos_of (n : Z) : (1 <= n)%Z -> 0 < IZR n.
Proof. intros H. apply (IZR_lt 0). lia. Qed.

Lemma psx_eq a : pixel_size_x RO a = dxR a. Proof. reflexivity. Qed.
Lemma psy_eq a : pixel_size_y RO a = dyR a. Proof. reflexivity. Qed.

Lemma dx_nonzero a : wf_area a -> dxR a <> 0.
Proof.
  intros (Hw & _ & Hx & _). unfold dxR. pose proof (IZR_pos_of _ Hw).
  intros E. apply Hx. apply Rmult_eq_compat_r with (r := IZR (width a)) in E. field_simplify in E; lra.
Qed.
Lemma dy_nonzero a : wf_area a -> dyR a <> 0.
Proof.
  intros (_ & Hh & _ & Hy). unfold dyR. pose proof (IZR_pos_of _ Hh).
  intros E. apply Hy. apply Rmult_eq_compat_r with (r := IZR (height a)) in E. field_simplify in E; lra.
Qed.

(* the canonical map of the property text *)
Lemma proj_x_canonical a c : proj_x RO a c = xmin a + (IZR c + /2) * dxR a.
Proof. unfold proj_x, upl_x, pixel_size_x, dxR; cbn. lra. Qed.
Lemma proj_y_canonical a r : proj_y RO a r = ymax a - (IZR r + /2) * dyR a.
Proof. unfold proj_y, upl_y, pixel_size_y, dyR; cbn. lra. Qed.

Lemma proj_of_arr_x_canonical a c : proj_of_arr_x RO a c = xmin a + (c + /2) * dxR a.
Proof. unfold proj_of_arr_x, xscale, upl_x, pixel_size_x, dxR; cbn. lra. Qed.
Lemma proj_of_arr_y_canonical a r : proj_of_arr_y RO a r = ymax a - (r + /2) * dyR a.
Proof. unfold proj_of_arr_y, yscale, upl_y, pixel_size_y, dyR; cbn. lra. Qed.

Lemma arr_of_proj_x_canonical a x : wf_area a -> arr_of_proj_x RO a x = (x - xmin a) / dxR a - /2.
Proof.
  intros H. pose proof (dx_nonzero a H). unfold arr_of_proj_x, xscale, upl_x. rewrite psx_eq. cbn. field. assumption.
Qed.
Lemma arr_of_proj_y_canonical a y : wf_area a -> arr_of_proj_y RO a y = (ymax a - y) / dyR a - /2.
Proof.
  intros H. pose proof (dy_nonzero a H). unfold arr_of_proj_y, yscale, upl_y. rewrite psy_eq. cbn. field. assumption.
Qed.

Lemma arr_proj_inverse_x a c : wf_area a -> arr_of_proj_x RO a (proj_of_arr_x RO a c) = c.
Proof.
  intros H. rewrite arr_of_proj_x_canonical, proj_of_arr_x_canonical by assumption.
  pose proof (dx_nonzero a H). field. assumption.
Qed.
Lemma proj_arr_inverse_x a x : wf_area a -> proj_of_arr_x RO a (arr_of_proj_x RO a x) = x.
Proof.
  intros H. rewrite proj_of_arr_x_canonical, arr_of_proj_x_canonical by assumption.
  pose proof (dx_nonzero a H). field. assumption.
Qed.
Lemma arr_proj_inverse_y a r : wf_area a -> arr_of_proj_y RO a (proj_of_arr_y RO a r) = r.
Proof.
  intros H. rewrite arr_of_proj_y_canonical, proj_of_arr_y_canonical by assumption.
  pose proof (dy_nonzero a H). field. assumption.
Qed.
Lemma proj_arr_inverse_y a y : wf_area a -> proj_of_arr_y RO a (arr_of_proj_y RO a y) = y.
Proof.
  intros H. rewrite proj_of_arr_y_canonical, arr_of_proj_y_canonical by assumption.
  pose proof (dy_nonzero a H). field. assumption.
Qed.

(* floor of the scaled offset = cell, for a positive cell size *)
Lemma floor_cell (x x0 d : R) (c : Z) : 0 < d ->
  (Zfloor ((x - x0) / d) = c <-> x0 + IZR c * d <= x < x0 + (IZR c + 1) * d).
Proof.
  intros Hd. split.
  - intros <-. pose proof (Zfloor_lb ((x - x0) / d)). pose proof (Zfloor_ub ((x - x0) / d)).
    assert (E : x = x0 + ((x - x0) / d) * d) by (field; lra).
    split.
    + rewrite E at 2. apply Rplus_le_compat_l. apply Rmult_le_compat_r; lra.
    + rewrite E at 1. apply Rplus_lt_compat_l. apply Rmult_lt_compat_r; lra.
  - intros [H1 H2]. apply Zfloor_imp. rewrite plus_IZR. split.
    + apply Rmult_le_reg_r with d; [lra|]. replace ((x - x0) / d * d) with (x - x0) by (field; lra). lra.
    + apply Rmult_lt_reg_r with d; [lra|]. replace ((x - x0) / d * d) with (x - x0) by (field; lra). lra.
Qed.
