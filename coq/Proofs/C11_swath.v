(* C11: SwathSlicer — the result is the hull of the expanded boxes of the hit chunks; every pixel of a hit
   chunk (and its neighbours) is inside. *)
From Coq Require Import ZArith Lia Bool List.
From PR Require Import Base.ZX Base.ListX Base.Slice Model.Partition Model.Crop Gen.GenSubset Proofs.C19_partition.
Import ListNotations.
Open Scope Z_scope.

Definition box_contains (outer_l outer_c : pslice) (b : pslice * pslice) : Prop :=
  sstart outer_l <= sstart (fst b) /\ sstop (fst b) <= sstop outer_l /\
  sstart outer_c <= sstart (snd b) /\ sstop (snd b) <= sstop outer_c.

Lemma hull_start_cons s l d : hull_start (s :: l) d = Z.min (sstart s) (hull_start l d). Proof. reflexivity. Qed.
Lemma hull_stop_cons s l d : hull_stop (s :: l) d = Z.max (sstop s) (hull_stop l d). Proof. reflexivity. Qed.
Lemma hull_start_le l d : hull_start l d <= d /\ Forall (fun s => hull_start l d <= sstart s) l.
Proof.
  induction l as [|s l [IH1 IH2]]; [split; [cbn; lia|constructor]|].
  rewrite hull_start_cons. split; [lia|]. constructor; [lia|]. eapply Forall_impl; [|exact IH2]. cbv beta; intros; lia.
Qed.
Lemma hull_stop_ge l d : d <= hull_stop l d /\ Forall (fun s => sstop s <= hull_stop l d) l.
Proof.
  induction l as [|s l [IH1 IH2]]; [split; [cbn; lia|constructor]|].
  rewrite hull_stop_cons. split; [lia|]. constructor; [lia|]. eapply Forall_impl; [|exact IH2]. cbv beta; intros; lia.
Qed.
(* the hull is attained: it is the start (stop) of one of the boxes *)
Lemma hull_start_attained l d : hull_start l d = d \/ Exists (fun s => hull_start l d = sstart s) l.
Proof.
  induction l as [|s l IH]; [left; reflexivity|]. rewrite hull_start_cons.
  destruct (Z.min_spec (sstart s) (hull_start l d)) as [[_ ->]|[_ ->]].
  - right. constructor. reflexivity.
  - destruct IH as [IH|IH]; [left; exact IH|right; apply Exists_cons_tl; exact IH].
Qed.
Lemma hull_stop_attained l d : hull_stop l d = d \/ Exists (fun s => hull_stop l d = sstop s) l.
Proof.
  induction l as [|s l IH]; [left; reflexivity|]. rewrite hull_stop_cons.
  destruct (Z.max_spec (sstop s) (hull_stop l d)) as [[_ ->]|[_ ->]].
  - destruct IH as [IH|IH]; [left; exact IH|right; apply Exists_cons_tl; exact IH].
  - right. constructor. reflexivity.
Qed.

Lemma assemble_none boxes : assemble boxes = None <-> boxes = [].
Proof. destruct boxes as [|[l0 c0] r]; cbn; split; intros; try discriminate; reflexivity. Qed.

Lemma assemble_hull boxes cs ls : assemble boxes = Some (cs, ls) ->
  Forall (box_contains ls cs) boxes /\
  Exists (fun b => sstart ls = sstart (fst b)) boxes /\ Exists (fun b => sstop ls = sstop (fst b)) boxes /\
  Exists (fun b => sstart cs = sstart (snd b)) boxes /\ Exists (fun b => sstop cs = sstop (snd b)) boxes.
Proof.
  destruct boxes as [|[l0 c0] r]; cbn; [discriminate|]. intros E; inversion E; subst; clear E.
  pose proof (hull_start_le (map fst r) (sstart l0)) as [A1 A2].
  pose proof (hull_stop_ge (map fst r) (sstop l0)) as [B1 B2].
  pose proof (hull_start_le (map snd r) (sstart c0)) as [C1 C2].
  pose proof (hull_stop_ge (map snd r) (sstop c0)) as [D1 D2].
  rewrite Forall_map in A2, B2, C2, D2.
  split.
  - constructor; [unfold box_contains; cbn; lia|].
    rewrite Forall_forall in *. intros b Hb. specialize (A2 b Hb). specialize (B2 b Hb).
    specialize (C2 b Hb). specialize (D2 b Hb). unfold box_contains; cbn in *. lia.
  - cbn.
    pose proof (hull_start_attained (map fst r) (sstart l0)) as HA.
    pose proof (hull_stop_attained (map fst r) (sstop l0)) as HB.
    pose proof (hull_start_attained (map snd r) (sstart c0)) as HC.
    pose proof (hull_stop_attained (map snd r) (sstop c0)) as HD.
    rewrite Exists_map in HA, HB, HC, HD.
    repeat split.
    + destruct HA as [HA|HA]; [apply Exists_cons_hd; exact HA|apply Exists_cons_tl; exact HA].
    + destruct HB as [HB|HB]; [apply Exists_cons_hd; exact HB|apply Exists_cons_tl; exact HB].
    + destruct HC as [HC|HC]; [apply Exists_cons_hd; exact HC|apply Exists_cons_tl; exact HC].
    + destruct HD as [HD|HD]; [apply Exists_cons_hd; exact HD|apply Exists_cons_tl; exact HD].
Qed.

Lemma select_in {A} (l : list A) : forall hit n b,
  nth_error l n = Some b -> nth_error hit n = Some true -> In b (select l hit).
Proof.
  unfold select. induction l as [|x l IH]; intros [|h hit] [|n] b Hl Hh; cbn in *; try discriminate.
  - inversion Hl; inversion Hh; subst. cbn. left; reflexivity.
  - destruct h; cbn; [right|]; eapply IH; eauto.
Qed.
Lemma in_select {A} (l : list A) : forall hit b, In b (select l hit) ->
  exists n, nth_error l n = Some b /\ nth_error hit n = Some true.
Proof.
  unfold select. induction l as [|x l IH]; intros [|h hit] b Hb; cbn in *; try contradiction.
  destruct h; cbn in Hb.
  - destruct Hb as [<-|Hb]; [exists 0%nat; split; reflexivity|].
    destruct (IH hit b Hb) as (n & H1 & H2). exists (S n); auto.
  - destruct (IH hit b Hb) as (n & H1 & H2). exists (S n); auto.
Qed.

(* per-axis chunk slices cover every index *)
Lemma offsets_cover c : forall pos off i, Forall (fun x => 0 <= x) c -> off <= i < off + sumZ c ->
  exists e, In e (offsets pos off c) /\ sstart (snd e) <= i < sstop (snd e).
Proof.
  induction c as [|x c IH]; cbn; intros pos off i Hc Hi; [lia|].
  inversion Hc as [|? ? Hx Hr]; subst.
  destruct (Z.lt_ge_cases i (off + x)) as [L|G].
  - exists (pos, mk_slice off (off + x)). split; [left; reflexivity|cbn; lia].
  - destruct (IH (S pos) (off + x) i Hr) as (e & He & Hi'); [lia|]. exists e. split; [right; exact He|exact Hi'].
Qed.

Lemma chunk_boxes_in rc cc l c :
  In l (offsets 0 0 rc) -> In c (offsets 0 0 cc) ->
  In (gen_expand_slice (snd l), gen_expand_slice (snd c)) (chunk_boxes [rc; cc]).
Proof.
  intros Hl Hc. unfold chunk_boxes. apply in_flat_map. exists [l; c]. split.
  - apply chunk_slices_product. repeat constructor; assumption.
  - left; reflexivity.
Qed.

(* what an expanded box holds of a pixel index inside the chunk: the index and both neighbours *)
Lemma expand_holds s i : sstart s <= i < sstop s ->
  sstart (gen_expand_slice s) <= Z.max 0 (i - 1) /\ i + 1 < sstop (gen_expand_slice s).
Proof. intros H. cbn. lia. Qed.

Lemma swath_none chunks hit : swath_slices chunks hit = None <-> select (chunk_boxes chunks) hit = [].
Proof. apply assemble_none. Qed.

Lemma swath_hull chunks hit cs ls : swath_slices chunks hit = Some (cs, ls) ->
  (forall n b, nth_error (chunk_boxes chunks) n = Some b -> nth_error hit n = Some true -> box_contains ls cs b) /\
  (exists n b, nth_error (chunk_boxes chunks) n = Some b /\ nth_error hit n = Some true /\ sstart ls = sstart (fst b)) /\
  (exists n b, nth_error (chunk_boxes chunks) n = Some b /\ nth_error hit n = Some true /\ sstop ls = sstop (fst b)) /\
  (exists n b, nth_error (chunk_boxes chunks) n = Some b /\ nth_error hit n = Some true /\ sstart cs = sstart (snd b)) /\
  (exists n b, nth_error (chunk_boxes chunks) n = Some b /\ nth_error hit n = Some true /\ sstop cs = sstop (snd b)).
Proof.
  intros E. apply assemble_hull in E. destruct E as (F & E1 & E2 & E3 & E4).
  split.
  - intros n b Hn Hh. rewrite Forall_forall in F. apply F. eapply select_in; eauto.
  - repeat split.
    + apply Exists_exists in E1 as (b & Hb & Hq). destruct (in_select _ _ _ Hb) as (n & H1 & H2). exists n, b. auto.
    + apply Exists_exists in E2 as (b & Hb & Hq). destruct (in_select _ _ _ Hb) as (n & H1 & H2). exists n, b. auto.
    + apply Exists_exists in E3 as (b & Hb & Hq). destruct (in_select _ _ _ Hb) as (n & H1 & H2). exists n, b. auto.
    + apply Exists_exists in E4 as (b & Hb & Hq). destruct (in_select _ _ _ Hb) as (n & H1 & H2). exists n, b. auto.
Qed.

(* every pixel of the swath lies in some chunk; if that chunk is hit, slices are returned and hold the pixel and its neighbours *)
Lemma swath_pixel rc cc i j : Forall (fun x => 0 <= x) rc -> Forall (fun x => 0 <= x) cc ->
  0 <= i < sumZ rc -> 0 <= j < sumZ cc ->
  exists n b, nth_error (chunk_boxes [rc; cc]) n = Some b /\
    (sstart (fst b) <= Z.max 0 (i - 1) /\ i + 1 < sstop (fst b) /\ sstart (snd b) <= Z.max 0 (j - 1) /\ j + 1 < sstop (snd b)) /\
    forall hit, nth_error hit n = Some true ->
      exists cs ls, swath_slices [rc; cc] hit = Some (cs, ls) /\
        sstart ls <= Z.max 0 (i - 1) /\ i + 1 < sstop ls /\ sstart cs <= Z.max 0 (j - 1) /\ j + 1 < sstop cs.
Proof.
  intros Hr Hc Hi Hj.
  destruct (offsets_cover rc 0%nat 0 i Hr) as (l & Hl & Hil); [lia|].
  destruct (offsets_cover cc 0%nat 0 j Hc) as (c & Hcc & Hjc); [lia|].
  pose proof (chunk_boxes_in rc cc l c Hl Hcc) as Hin.
  apply In_nth_error in Hin. destruct Hin as (n & Hn).
  exists n, (gen_expand_slice (snd l), gen_expand_slice (snd c)). split; [exact Hn|].
  pose proof (expand_holds (snd l) i Hil) as [P1 P2].
  pose proof (expand_holds (snd c) j Hjc) as [Q1 Q2].
  split; [cbn [fst snd]; auto|].
  intros hit Hh.
  destruct (swath_slices [rc; cc] hit) as [[cs ls]|] eqn:E.
  - exists cs, ls. split; [reflexivity|].
    apply swath_hull in E. destruct E as (F & _).
    specialize (F n _ Hn Hh). unfold box_contains in F; cbn [fst snd] in F. lia.
  - exfalso. apply swath_none in E.
    pose proof (select_in _ hit n _ Hn Hh) as Hs. rewrite E in Hs. contradiction.
Qed.

Example swath_ex : swath_slices [[3; 3]; [4; 2]] [false; true; false; true] = Some (mk_slice 3 7, mk_slice 0 7).
Proof. reflexivity. Qed.
Lemma swath_chunks_union chunks hit :
  (swath_slices chunks hit = None <-> select (chunk_boxes chunks) hit = []) /\
  (forall cs ls, swath_slices chunks hit = Some (cs, ls) ->
    (forall n b, nth_error (chunk_boxes chunks) n = Some b -> nth_error hit n = Some true -> box_contains ls cs b) /\
    (exists n b, nth_error (chunk_boxes chunks) n = Some b /\ nth_error hit n = Some true /\ sstart ls = sstart (fst b)) /\
    (exists n b, nth_error (chunk_boxes chunks) n = Some b /\ nth_error hit n = Some true /\ sstop ls = sstop (fst b)) /\
    (exists n b, nth_error (chunk_boxes chunks) n = Some b /\ nth_error hit n = Some true /\ sstart cs = sstart (snd b)) /\
    (exists n b, nth_error (chunk_boxes chunks) n = Some b /\ nth_error hit n = Some true /\ sstop cs = sstop (snd b))).
Proof. split; [apply swath_none | intros cs ls; apply swath_hull]. Qed.
