(* C08: code-is-model for the generated DaskEWAResampler._generate_fornav_dask_tasks (Gen/GenC08imp.v:imp_fornav_tasks) *)
From Coq Require Import ZArith List Bool Lia.
From PR Require Import Base.ZX Base.Slice Base.Imp Model.EWA Gen.GenC08imp.
Import ListNotations.
Open Scope Z_scope.

Ltac tk_proj := cbn [imp_fornav_tasks__ imp_fornav_tasks__ret imp_fornav_tasks_fill_value imp_fornav_tasks_in_col_idx imp_fornav_tasks_in_row_idx imp_fornav_tasks_input_name imp_fornav_tasks_key imp_fornav_tasks_kwargs imp_fornav_tasks_ll2cr_block imp_fornav_tasks_ll2cr_blocks imp_fornav_tasks_out_chunks imp_fornav_tasks_out_col_idx imp_fornav_tasks_out_row_idx imp_fornav_tasks_output_stack imp_fornav_tasks_set__ imp_fornav_tasks_set__ret imp_fornav_tasks_set_fill_value imp_fornav_tasks_set_in_col_idx imp_fornav_tasks_set_in_row_idx imp_fornav_tasks_set_input_name imp_fornav_tasks_set_key imp_fornav_tasks_set_kwargs imp_fornav_tasks_set_ll2cr_block imp_fornav_tasks_set_ll2cr_blocks imp_fornav_tasks_set_out_chunks imp_fornav_tasks_set_out_col_idx imp_fornav_tasks_set_out_row_idx imp_fornav_tasks_set_output_stack imp_fornav_tasks_set_target_geo_def imp_fornav_tasks_set_task_name imp_fornav_tasks_set_x_end imp_fornav_tasks_set_x_slice imp_fornav_tasks_set_x_start imp_fornav_tasks_set_y_end imp_fornav_tasks_set_y_slice imp_fornav_tasks_set_y_start imp_fornav_tasks_set_z_idx imp_fornav_tasks_target_geo_def imp_fornav_tasks_task_name imp_fornav_tasks_x_end imp_fornav_tasks_x_slice imp_fornav_tasks_x_start imp_fornav_tasks_y_end imp_fornav_tasks_y_slice imp_fornav_tasks_y_start imp_fornav_tasks_z_idx fst snd].
Ltac tk_proj_in H := cbn [imp_fornav_tasks__ imp_fornav_tasks__ret imp_fornav_tasks_fill_value imp_fornav_tasks_in_col_idx imp_fornav_tasks_in_row_idx imp_fornav_tasks_input_name imp_fornav_tasks_key imp_fornav_tasks_kwargs imp_fornav_tasks_ll2cr_block imp_fornav_tasks_ll2cr_blocks imp_fornav_tasks_out_chunks imp_fornav_tasks_out_col_idx imp_fornav_tasks_out_row_idx imp_fornav_tasks_output_stack imp_fornav_tasks_set__ imp_fornav_tasks_set__ret imp_fornav_tasks_set_fill_value imp_fornav_tasks_set_in_col_idx imp_fornav_tasks_set_in_row_idx imp_fornav_tasks_set_input_name imp_fornav_tasks_set_key imp_fornav_tasks_set_kwargs imp_fornav_tasks_set_ll2cr_block imp_fornav_tasks_set_ll2cr_blocks imp_fornav_tasks_set_out_chunks imp_fornav_tasks_set_out_col_idx imp_fornav_tasks_set_out_row_idx imp_fornav_tasks_set_output_stack imp_fornav_tasks_set_target_geo_def imp_fornav_tasks_set_task_name imp_fornav_tasks_set_x_end imp_fornav_tasks_set_x_slice imp_fornav_tasks_set_x_start imp_fornav_tasks_set_y_end imp_fornav_tasks_set_y_slice imp_fornav_tasks_set_y_start imp_fornav_tasks_set_z_idx imp_fornav_tasks_target_geo_def imp_fornav_tasks_task_name imp_fornav_tasks_x_end imp_fornav_tasks_x_slice imp_fornav_tasks_x_start imp_fornav_tasks_y_end imp_fornav_tasks_y_slice imp_fornav_tasks_y_start imp_fornav_tasks_z_idx fst snd] in H.

Definition tval := (Z * pslice * pslice * (Z * Z))%type.
(* Python dict semantics: assigning the entries in order *)
Definition dput (d : list (tkey * tval)) (l : list (tkey * tval)) : list (tkey * tval) :=
  fold_left (fun d e => d_set tkey_eqb d (fst e) (snd e)) l d.
Definition tentry (tn iy ix : Z) (ys xs : pslice) (zb : Z * ((Z * Z * Z) * Z)) : tkey * tval :=
  ((tn, fst zb, iy, ix), (snd (snd zb), ys, xs, (snd (fst (fst (snd zb))), snd (fst (snd zb))))).
Definition entries_block (tn : Z) (blocks : list ((Z * Z * Z) * Z)) (iy ix : Z) (ys xs : pslice) : list (tkey * tval) :=
  map (tentry tn iy ix ys xs) (List.combine (zrange (zlen blocks)) blocks).
(* the model: for every output block of [out_blocks], in order, one task per ll2cr block, keyed by its position z in the
   block list and carrying that block's own (in_row_idx, in_col_idx) *)
Definition tasks_model (tn : Z) (ych xch : list Z) (blocks : list ((Z * Z * Z) * Z)) : list (tkey * tval) :=
  flat_map (fun b : Z * Z * (Z * Z) * (Z * Z) =>
              let '(iy, ix, (y0, y1), (x0, x1)) := b in entries_block tn blocks iy ix (mk_slice y0 y1) (mk_slice x0 x1))
           (out_blocks ych xch).

Lemma dput_app d a b : dput d (a ++ b) = dput (dput d a) b.
Proof. unfold dput. apply fold_left_app. Qed.

(* what the loops keep: the parameters and the enclosing loops' variables *)
Definition frame1 (s' s : imp_fornav_tasks_st) : Prop :=
  imp_fornav_tasks_out_chunks s' = imp_fornav_tasks_out_chunks s /\ imp_fornav_tasks_ll2cr_blocks s' = imp_fornav_tasks_ll2cr_blocks s /\ imp_fornav_tasks_task_name s' = imp_fornav_tasks_task_name s.
Definition frame3 (s' s : imp_fornav_tasks_st) : Prop :=
  frame1 s' s /\ imp_fornav_tasks_y_start s' = imp_fornav_tasks_y_start s /\ imp_fornav_tasks_y_end s' = imp_fornav_tasks_y_end s /\ imp_fornav_tasks_x_start s' = imp_fornav_tasks_x_start s /\ imp_fornav_tasks_x_end s' = imp_fornav_tasks_x_end s /\
  imp_fornav_tasks_out_row_idx s' = imp_fornav_tasks_out_row_idx s /\ imp_fornav_tasks_out_col_idx s' = imp_fornav_tasks_out_col_idx s /\ imp_fornav_tasks_y_slice s' = imp_fornav_tasks_y_slice s /\ imp_fornav_tasks_x_slice s' = imp_fornav_tasks_x_slice s.

(* innermost loop: one dict assignment per (z, ll2cr block) *)
Lemma loop3 (body : M imp_fornav_tasks_st Empty_set (list (tkey * tval))) :
  body = (andthen (assign (fun s => (imp_fornav_tasks_set_key ((fun p_ => p_) ((imp_fornav_tasks_task_name s), (imp_fornav_tasks_z_idx s), (imp_fornav_tasks_out_row_idx s), (imp_fornav_tasks_out_col_idx s))) s)))
 (assign (fun s => (imp_fornav_tasks_set_output_stack (d_set tkey_eqb (imp_fornav_tasks_output_stack s) (imp_fornav_tasks_key s) ((imp_fornav_tasks_ll2cr_block s), (imp_fornav_tasks_y_slice s), (imp_fornav_tasks_x_slice s), ((imp_fornav_tasks_in_row_idx s), (imp_fornav_tasks_in_col_idx s)))) s)))) ->
  forall bind, bind = (fun (x_ : Z * ((Z * Z * Z) * Z)) s => (imp_fornav_tasks_set_ll2cr_block (snd (snd x_)) (imp_fornav_tasks_set_in_col_idx (snd (fst (snd x_))) (imp_fornav_tasks_set_in_row_idx (snd (fst (fst (snd x_)))) (imp_fornav_tasks_set__ (fst (fst (fst (snd x_)))) (imp_fornav_tasks_set_z_idx (fst x_) s)))))) ->
  forall l s, exists s', for_list l bind body s = Fall [] s' /\ frame3 s' s /\
    imp_fornav_tasks_output_stack s' = dput (imp_fornav_tasks_output_stack s) (map (tentry (imp_fornav_tasks_task_name s) (imp_fornav_tasks_out_row_idx s) (imp_fornav_tasks_out_col_idx s) (imp_fornav_tasks_y_slice s) (imp_fornav_tasks_x_slice s)) l).
Proof.
  intros -> bind ->. induction l as [|x l IH]; intros s.
  - exists s. cbn. unfold frame3, frame1. repeat split.
  - cbn [for_list]. unfold andthen at 1. cbv beta. rewrite andthen_assign, assign_eval. tk_proj.
    match goal with |- context [for_list l _ _ ?st] => destruct (IH st) as (s' & E & F & H) end.
    (match type of E with ?L = _ => match goal with |- context [for_list l ?a0 ?b0 ?c0] => change (for_list l a0 b0 c0) with L end end).
    rewrite E. cbn [prepend app]. exists s'. split; [reflexivity|].
    unfold frame3, frame1 in *. tk_proj. destruct F as ((F1 & F2 & F3) & F4 & F5 & F6 & F7 & F8 & F9 & F10 & F11).
    tk_proj. repeat split; assumption.
Qed.

Lemma idx_nat (l : list Z) k : (k < length l)%nat -> idx_ok l (Z.of_nat k) = true /\ idx 0 l (Z.of_nat k) = nth k l 0.
Proof.
  intros H. unfold idx_ok, idx, zlen. split.
  - apply andb_true_intro. split; [apply Z.leb_le | apply Z.ltb_lt]; lia.
  - destruct (Z.ltb_spec (Z.of_nat k) 0); [lia|]. rewrite Nat2Z.id. reflexivity.
Qed.
Lemma skipn_nth (l : list Z) k : (k < length l)%nat -> skipn k l = nth k l 0 :: skipn (S k) l.
Proof.
  revert k. induction l as [|x l IH]; intros [|k] H; cbn in *; try lia; [reflexivity|]. apply IH. lia.
Qed.

(* middle loop: one block of tasks per column chunk, x_start running *)
Definition mid_entries (tn : Z) (blocks : list ((Z * Z * Z) * Z)) (iy : Z) (ys : pslice) (cols : list (Z * (Z * Z))) : list (tkey * tval) :=
  flat_map (fun e => entries_block tn blocks iy (fst e) ys (mk_slice (fst (snd e)) (snd (snd e)))) cols.

Lemma loop2 (body : M imp_fornav_tasks_st Empty_set (list (tkey * tval))) :
  body = (andthen (andthen (check (fun s => (idx_ok (snd (imp_fornav_tasks_out_chunks s)) (imp_fornav_tasks_out_col_idx s)))) (assign (fun s => (imp_fornav_tasks_set_x_end ((imp_fornav_tasks_x_start s) + (idx 0 (snd (imp_fornav_tasks_out_chunks s)) (imp_fornav_tasks_out_col_idx s))) s))))
 (andthen (assign (fun s => (imp_fornav_tasks_set_y_slice (mk_slice (imp_fornav_tasks_y_start s) (imp_fornav_tasks_y_end s)) s)))
 (andthen (assign (fun s => (imp_fornav_tasks_set_x_slice (mk_slice (imp_fornav_tasks_x_start s) (imp_fornav_tasks_x_end s)) s)))
 (andthen (for_ (fun s => (List.combine (zrange (zlen (imp_fornav_tasks_ll2cr_blocks s))) (imp_fornav_tasks_ll2cr_blocks s))) (fun x_ s => (imp_fornav_tasks_set_ll2cr_block (snd (snd x_)) (imp_fornav_tasks_set_in_col_idx (snd (fst (snd x_))) (imp_fornav_tasks_set_in_row_idx (snd (fst (fst (snd x_)))) (imp_fornav_tasks_set__ (fst (fst (fst (snd x_)))) (imp_fornav_tasks_set_z_idx (fst x_) s))))))
 (andthen (assign (fun s => (imp_fornav_tasks_set_key ((fun p_ => p_) ((imp_fornav_tasks_task_name s), (imp_fornav_tasks_z_idx s), (imp_fornav_tasks_out_row_idx s), (imp_fornav_tasks_out_col_idx s))) s)))
 (assign (fun s => (imp_fornav_tasks_set_output_stack (d_set tkey_eqb (imp_fornav_tasks_output_stack s) (imp_fornav_tasks_key s) ((imp_fornav_tasks_ll2cr_block s), (imp_fornav_tasks_y_slice s), (imp_fornav_tasks_x_slice s), ((imp_fornav_tasks_in_row_idx s), (imp_fornav_tasks_in_col_idx s)))) s)))))
 (assign (fun s => (imp_fornav_tasks_set_x_start (imp_fornav_tasks_x_end s) s))))))) ->
  forall bind, bind = (fun (x_ : Z) s => (imp_fornav_tasks_set_out_col_idx x_ s)) ->
  forall m k s, (k + m = length (snd (imp_fornav_tasks_out_chunks s)))%nat ->
  exists s', for_list (map Z.of_nat (seq k m)) bind body s = Fall [] s' /\ frame1 s' s /\
    imp_fornav_tasks_y_start s' = imp_fornav_tasks_y_start s /\ imp_fornav_tasks_y_end s' = imp_fornav_tasks_y_end s /\ imp_fornav_tasks_out_row_idx s' = imp_fornav_tasks_out_row_idx s /\
    imp_fornav_tasks_output_stack s' = dput (imp_fornav_tasks_output_stack s)
      (mid_entries (imp_fornav_tasks_task_name s) (imp_fornav_tasks_ll2cr_blocks s) (imp_fornav_tasks_out_row_idx s) (mk_slice (imp_fornav_tasks_y_start s) (imp_fornav_tasks_y_end s))
                   (enum_from (Z.of_nat k) (chunk_spans (imp_fornav_tasks_x_start s) (skipn k (snd (imp_fornav_tasks_out_chunks s)))))).
Proof.
  intros -> bind ->. induction m as [|m IH]; intros k s Hk.
  - exists s. cbn [seq map for_list]. rewrite skipn_all2 by lia. cbn. unfold frame1. repeat split.
  - assert (Hlt : (k < length (snd (imp_fornav_tasks_out_chunks s)))%nat) by lia.
    destruct (idx_nat _ _ Hlt) as [Hok Hidx].
    cbn [seq map for_list]. unfold andthen at 1. cbv beta.
    rewrite seq_assoc, andthen_check. cbv beta. tk_proj. rewrite Hok.
    rewrite andthen_assign, andthen_assign, andthen_assign. tk_proj.
    unfold andthen at 1, for_ at 1. cbv beta. tk_proj.
    match goal with |- context [for_list ?l3 ?bd ?b ?st] =>
      destruct (loop3 b eq_refl bd eq_refl l3 st) as (s3 & E3 & F3 & H3);
      change (for_list l3 bd b st) with (for_list l3 bd b st) end.
    rewrite E3. cbn [prepend app]. rewrite assign_eval. cbn [prepend app]. tk_proj.
    unfold frame3, frame1 in F3. tk_proj_in F3. destruct F3 as ((G1 & G2 & G3) & G4 & G5 & G6 & G7 & G8 & G9 & G10 & G11).
    match goal with |- context [for_list (map Z.of_nat (seq (S k) m)) _ _ ?st] =>
      destruct (IH (S k) st) as (s' & E & F & A1 & A2 & A3 & A4) end.
    { tk_proj. rewrite G1. lia. }
    (match type of E with ?L = _ => match goal with |- context [for_list (map Z.of_nat (seq (S k) m)) ?a0 ?b0 ?c0] =>
        change (for_list (map Z.of_nat (seq (S k) m)) a0 b0 c0) with L end end).
    rewrite E. cbn [prepend app]. exists s'. split; [reflexivity|].
    unfold frame1 in *. tk_proj_in F. tk_proj_in A1. tk_proj_in A2. tk_proj_in A3. tk_proj_in A4. tk_proj_in H3.
    destruct F as (F1 & F2 & F3). tk_proj.
    repeat split; try congruence.
    rewrite A4. rewrite H3. rewrite G1, G2, G3, G4, G5, G7, G8.
    rewrite (skipn_nth _ _ Hlt). cbn [chunk_spans enum_from]. unfold mid_entries. cbn [flat_map fst snd].
    rewrite dput_app. rewrite Hidx. unfold entries_block.
    replace (Z.of_nat k + 1) with (Z.of_nat (S k)) by lia. reflexivity.
Qed.

Lemma zrange_len {A} (l : list A) : zrange (zlen l) = map Z.of_nat (seq 0 (length l)).
Proof. unfold zrange, zlen. rewrite Nat2Z.id. reflexivity. Qed.

(* outer loop: one row of blocks per row chunk, y_start running *)
Definition row_entries (tn : Z) (blocks : list ((Z * Z * Z) * Z)) (xch : list Z) (rows : list (Z * (Z * Z))) : list (tkey * tval) :=
  flat_map (fun r => mid_entries tn blocks (fst r) (mk_slice (fst (snd r)) (snd (snd r))) (enum_from 0 (chunk_spans 0 xch))) rows.

Lemma loop1 (body : M imp_fornav_tasks_st Empty_set (list (tkey * tval))) :
  body = (andthen (andthen (check (fun s => (idx_ok (fst (imp_fornav_tasks_out_chunks s)) (imp_fornav_tasks_out_row_idx s)))) (assign (fun s => (imp_fornav_tasks_set_y_end ((imp_fornav_tasks_y_start s) + (idx 0 (fst (imp_fornav_tasks_out_chunks s)) (imp_fornav_tasks_out_row_idx s))) s))))
 (andthen (assign (fun s => (imp_fornav_tasks_set_x_start (0) s)))
 (andthen (for_ (fun s => (zrange (zlen (snd (imp_fornav_tasks_out_chunks s))))) (fun x_ s => (imp_fornav_tasks_set_out_col_idx x_ s))
 (andthen (andthen (check (fun s => (idx_ok (snd (imp_fornav_tasks_out_chunks s)) (imp_fornav_tasks_out_col_idx s)))) (assign (fun s => (imp_fornav_tasks_set_x_end ((imp_fornav_tasks_x_start s) + (idx 0 (snd (imp_fornav_tasks_out_chunks s)) (imp_fornav_tasks_out_col_idx s))) s))))
 (andthen (assign (fun s => (imp_fornav_tasks_set_y_slice (mk_slice (imp_fornav_tasks_y_start s) (imp_fornav_tasks_y_end s)) s)))
 (andthen (assign (fun s => (imp_fornav_tasks_set_x_slice (mk_slice (imp_fornav_tasks_x_start s) (imp_fornav_tasks_x_end s)) s)))
 (andthen (for_ (fun s => (List.combine (zrange (zlen (imp_fornav_tasks_ll2cr_blocks s))) (imp_fornav_tasks_ll2cr_blocks s))) (fun x_ s => (imp_fornav_tasks_set_ll2cr_block (snd (snd x_)) (imp_fornav_tasks_set_in_col_idx (snd (fst (snd x_))) (imp_fornav_tasks_set_in_row_idx (snd (fst (fst (snd x_)))) (imp_fornav_tasks_set__ (fst (fst (fst (snd x_)))) (imp_fornav_tasks_set_z_idx (fst x_) s))))))
 (andthen (assign (fun s => (imp_fornav_tasks_set_key ((fun p_ => p_) ((imp_fornav_tasks_task_name s), (imp_fornav_tasks_z_idx s), (imp_fornav_tasks_out_row_idx s), (imp_fornav_tasks_out_col_idx s))) s)))
 (assign (fun s => (imp_fornav_tasks_set_output_stack (d_set tkey_eqb (imp_fornav_tasks_output_stack s) (imp_fornav_tasks_key s) ((imp_fornav_tasks_ll2cr_block s), (imp_fornav_tasks_y_slice s), (imp_fornav_tasks_x_slice s), ((imp_fornav_tasks_in_row_idx s), (imp_fornav_tasks_in_col_idx s)))) s)))))
 (assign (fun s => (imp_fornav_tasks_set_x_start (imp_fornav_tasks_x_end s) s))))))))
 (assign (fun s => (imp_fornav_tasks_set_y_start (imp_fornav_tasks_y_end s) s)))))) ->
  forall bind, bind = (fun (x_ : Z) s => (imp_fornav_tasks_set_out_row_idx x_ s)) ->
  forall m k s, (k + m = length (fst (imp_fornav_tasks_out_chunks s)))%nat ->
  exists s', for_list (map Z.of_nat (seq k m)) bind body s = Fall [] s' /\ frame1 s' s /\
    imp_fornav_tasks_output_stack s' = dput (imp_fornav_tasks_output_stack s)
      (row_entries (imp_fornav_tasks_task_name s) (imp_fornav_tasks_ll2cr_blocks s) (snd (imp_fornav_tasks_out_chunks s))
                   (enum_from (Z.of_nat k) (chunk_spans (imp_fornav_tasks_y_start s) (skipn k (fst (imp_fornav_tasks_out_chunks s)))))).
Proof.
  intros -> bind ->. induction m as [|m IH]; intros k s Hk.
  - exists s. cbn [seq map for_list]. rewrite skipn_all2 by lia. cbn. unfold frame1. repeat split.
  - assert (Hlt : (k < length (fst (imp_fornav_tasks_out_chunks s)))%nat) by lia.
    destruct (idx_nat _ _ Hlt) as [Hok Hidx].
    cbn [seq map for_list]. unfold andthen at 1. cbv beta.
    rewrite seq_assoc, andthen_check. cbv beta. tk_proj. rewrite Hok.
    rewrite andthen_assign, andthen_assign. tk_proj.
    unfold andthen at 1, for_ at 1. cbv beta. tk_proj. rewrite zrange_len.
    match goal with |- context [for_list (map Z.of_nat (seq 0 ?n)) ?bd ?b ?st] =>
      destruct (loop2 b eq_refl bd eq_refl n 0%nat st) as (s2 & E2 & F2 & B1 & B2 & B3 & B4) end.
    { tk_proj. lia. }
    (match type of E2 with ?L = _ => match goal with |- context [for_list (map Z.of_nat (seq 0 ?n)) ?a0 ?b0 ?c0] =>
        change (for_list (map Z.of_nat (seq 0 n)) a0 b0 c0) with L end end).
    rewrite E2. cbn [prepend app]. rewrite assign_eval. cbn [prepend app]. tk_proj.
    unfold frame1 in F2. tk_proj_in F2. tk_proj_in B1. tk_proj_in B2. tk_proj_in B3. tk_proj_in B4.
    destruct F2 as (G1 & G2 & G3).
    match goal with |- context [for_list (map Z.of_nat (seq (S k) m)) _ _ ?st] =>
      destruct (IH (S k) st) as (s' & E & F & A4) end.
    { tk_proj. rewrite G1. lia. }
    (match type of E with ?L = _ => match goal with |- context [for_list (map Z.of_nat (seq (S k) m)) ?a0 ?b0 ?c0] =>
        change (for_list (map Z.of_nat (seq (S k) m)) a0 b0 c0) with L end end).
    rewrite E. cbn [prepend app]. exists s'. split; [reflexivity|].
    unfold frame1 in *. tk_proj_in F. tk_proj_in A4. destruct F as (F1 & F2 & F3).
    repeat split; try congruence.
    rewrite A4, B4. rewrite G1, G2, G3, B2. cbn [skipn].
    rewrite (skipn_nth _ _ Hlt). cbn [chunk_spans enum_from]. unfold row_entries. cbn [flat_map fst snd].
    rewrite dput_app. rewrite Hidx.
    replace (Z.of_nat k + 1) with (Z.of_nat (S k)) by lia. reflexivity.
Qed.

Lemma flat_map_flat_map {A B C} (f : B -> list C) (g : A -> list B) (l : list A) :
  flat_map f (flat_map g l) = flat_map (fun a => flat_map f (g a)) l.
Proof. induction l as [|a l IH]; cbn; [reflexivity|]. rewrite flat_map_app, IH. reflexivity. Qed.
Lemma flat_map_map {A B C} (f : B -> list C) (h : A -> B) (l : list A) : flat_map f (map h l) = flat_map (fun a => f (h a)) l.
Proof. induction l as [|a l IH]; cbn; [reflexivity|]. rewrite IH. reflexivity. Qed.

Lemma row_entries_model tn blocks ych xch :
  row_entries tn blocks xch (enum_from 0 (chunk_spans 0 ych)) = tasks_model tn ych xch blocks.
Proof.
  unfold tasks_model, out_blocks, row_entries. rewrite flat_map_flat_map. apply flat_map_ext. intros [iy [y0 y1]].
  rewrite flat_map_map. unfold mid_entries. apply flat_map_ext. intros [ix [x0 x1]]. reflexivity.
Qed.

(* code is model: the generated method returns the dictionary obtained by assigning, in order, the model's tasks *)
Theorem fornav_tasks_code_is_model ych xch blocks tn inp tgt fv kw :
  value_of (imp_fornav_tasks (ych, xch) blocks tn inp tgt fv kw) = COk (dput [] (tasks_model tn ych xch blocks)).
Proof.
  unfold imp_fornav_tasks. rewrite andthen_assign, andthen_assign. tk_proj.
  unfold andthen at 1, for_ at 1. cbv beta. tk_proj. rewrite zrange_len.
  match goal with |- context [for_list (map Z.of_nat (seq 0 ?n)) ?bd ?b ?st] =>
    destruct (loop1 b eq_refl bd eq_refl n 0%nat st) as (s1 & E1 & F1 & H1) end.
  { tk_proj. lia. }
  (match type of E1 with ?L = _ => match goal with |- context [for_list (map Z.of_nat (seq 0 ?n)) ?a0 ?b0 ?c0] =>
      change (for_list (map Z.of_nat (seq 0 n)) a0 b0 c0) with L end end).
  rewrite E1. cbn [prepend app]. unfold ret. cbn [prepend app value_of]. f_equal.
  tk_proj_in H1. rewrite H1. cbn [skipn]. rewrite row_entries_model. reflexivity.
Qed.

(* [dput] is Python's dictionary assignment in order (a repeated key would overwrite in place); both sides use it, so no
   freshness hypothesis on the keys is needed *)
