(* C08: code-is-model for the generated DaskEWAResampler._generate_fornav_dask_tasks (Gen/GenC08imp.v:imp_fornav_tasks) *)
From Coq Require Import ZArith List Bool Lia.
From PR Require Import Base.ZX Base.Slice Base.Imp Model.Grid Model.EWA Gen.GenC08imp.
Import ListNotations.
Open Scope Z_scope.

Ltac tk_proj := cbn [imp_fornav_tasks__ imp_fornav_tasks__ret imp_fornav_tasks_fill_value imp_fornav_tasks_in_col_idx imp_fornav_tasks_in_row_idx imp_fornav_tasks_input_name imp_fornav_tasks_key imp_fornav_tasks_kwargs imp_fornav_tasks_ll2cr_block imp_fornav_tasks_ll2cr_blocks imp_fornav_tasks_out_chunks imp_fornav_tasks_out_col_idx imp_fornav_tasks_out_row_idx imp_fornav_tasks_output_stack imp_fornav_tasks_set__ imp_fornav_tasks_set__ret imp_fornav_tasks_set_fill_value imp_fornav_tasks_set_in_col_idx imp_fornav_tasks_set_in_row_idx imp_fornav_tasks_set_input_name imp_fornav_tasks_set_key imp_fornav_tasks_set_kwargs imp_fornav_tasks_set_ll2cr_block imp_fornav_tasks_set_ll2cr_blocks imp_fornav_tasks_set_out_chunks imp_fornav_tasks_set_out_col_idx imp_fornav_tasks_set_out_row_idx imp_fornav_tasks_set_output_stack imp_fornav_tasks_set_target_geo_def imp_fornav_tasks_set_task_name imp_fornav_tasks_set_x_end imp_fornav_tasks_set_x_slice imp_fornav_tasks_set_x_start imp_fornav_tasks_set_y_end imp_fornav_tasks_set_y_slice imp_fornav_tasks_set_y_start imp_fornav_tasks_set_z_idx imp_fornav_tasks_target_geo_def imp_fornav_tasks_task_name imp_fornav_tasks_x_end imp_fornav_tasks_x_slice imp_fornav_tasks_x_start imp_fornav_tasks_y_end imp_fornav_tasks_y_slice imp_fornav_tasks_y_start imp_fornav_tasks_z_idx fst snd].

Definition tval := (Z * pslice * pslice * (Z * Z))%type.
(* Python dict semantics: assigning the entries in order *)
Definition dput (d : list (tkey * tval)) (l : list (tkey * tval)) : list (tkey * tval) :=
  fold_left (fun d e => d_set tkey_eqb d (fst e) (snd e)) l d.
Definition tentry (tn iy ix : Z) (ys xs : pslice) (zb : Z * ((Z * Z * Z) * Z)) : tkey * tval :=
  ((tn, fst zb, iy, ix), (snd (snd zb), ys, xs, (snd (fst (fst (snd zb))), snd (fst (snd zb))))).
Definition entries_block (tn : Z) (blocks : list ((Z * Z * Z) * Z)) (iy ix : Z) (ys xs : pslice) : list (tkey * tval) :=
  map (tentry tn iy ix ys xs) (List.combine (zrange (zlen blocks)) blocks).
(* the model: for every output block of [out_blocks], in order, one task per ll2cr block, keyed by its position z in the
   block list and carrying that block's own (in_row_idx, in_col_idx) *)
Definition tasks_model (tn : Z) (ych xch : list Z) (blocks : list ((Z * Z * Z) * Z)) : list (tkey * tval) :=
  flat_map (fun b : Z * Z * (Z * Z) * (Z * Z) =>
              let '(iy, ix, (y0, y1), (x0, x1)) := b in entries_block tn blocks iy ix (mk_slice y0 y1) (mk_slice x0 x1))
           (out_blocks ych xch).

Lemma dput_app d a b : dput d (a ++ b) = dput (dput d a) b.
Proof. unfold dput. apply fold_left_app. Qed.
