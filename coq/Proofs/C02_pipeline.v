(* The pipeline around the kd-tree query (get_neighbour_info / get_sample_from_neighbour_info) is correct
   for ANY query oracle meeting the contract knn_spec_tol. *)
From Coq Require Import ZArith Bool List Lia Arith.
From PR Require Import Base.Num Base.ListX Model.KDTree Proofs.C02_lists Proofs.C02_query.
Import ListNotations.
Open Scope nat_scope.

Lemma nth_repeat_lt {A} (x dflt : A) n t : t < n -> nth t (repeat x n) dflt = x.
Proof. revert t; induction n; intros [|t] H; cbn; try lia; auto. apply IHn; lia. Qed.

Lemma skipn_app_exact {A} (l1 l2 : list A) n : n = length l1 -> skipn n (l1 ++ l2) = l2.
Proof. intros ->. induction l1; cbn; auto. Qed.

Lemma count_true_zero_nth m t : count_true m = 0 -> nth t m false = false.
Proof.
  revert t; induction m as [|b m IH]; intros t H; [destruct t; reflexivity|].
  rewrite count_true_cons in H. destruct b; [discriminate|]. destruct t; [reflexivity|]. cbn. apply IH; exact H.
Qed.

Section P.
  Context {V D : Type}.
  Variable veqb : V -> V -> bool.
  Variables vzero vone : V.
  Hypothesis Hzero : veqb vzero vzero = true.        (* 0 == 0 *)
  Hypothesis Hone : veqb vone vzero = false.         (* 1 != 0 *)

  Lemma unmask_b2v (m : list bool) : map (fun v => negb (veqb v vzero)) (map (b2v vzero vone) m) = m.
  Proof.
    induction m as [|x m IH]; [reflexivity|]. cbn. rewrite IH. f_equal.
    destruct x; cbn; [rewrite Hone|rewrite Hzero]; reflexivity.
  Qed.

  Variables (a b ca r2 : Z) (d2 : nat -> nat -> Z).
  Variables (tshape : list Z) (dtype : D) (multi : bool) (k : nat).
  Variables (rows : list (list V)) (mrows : option (list (list bool))).
  Variables (vin vout : list bool) (fill : option V) (sentinel : V).

  Definition kk := if multi then k else 1.
  Definition chan : list Z := if multi then [Z.of_nat k] else [].
  Definition src_vals (s : nat) : list V := nth s rows [].
  Definition src_mask (s : nat) : list bool :=
    match mrows with Some mm => nth s mm [] | None => repeat false kk end.

  (* well-formed input: one row of kk channel values (and mask bits) per source location *)
  Definition wf_input : Prop :=
    length rows = length vin /\ (forall row, In row rows -> length row = kk) /\
    match mrows with
    | Some mm => length mm = length vin /\ (forall m, In m mm -> length m = kk)
    | None => True
    end.

  (* local names for the pieces of get_sample *)
  Definition new_m := match mrows with Some mm => select vin mm | None => [] end.
  Definition is_masked := existsb (existsb (fun x => x)) new_m.
  Definition new_data :=
    if is_masked then map2 (fun r m => r ++ map (b2v vzero vone) m) (select vin rows) new_m else select vin rows.
  Definition Wd := if is_masked then 2 * kk else kk.
  Definition fillv := match fill with Some f => f | None => sentinel end.
  Definition fillrow := repeat fillv Wd.
  Definition gath (i : nat) := if i =? count_true vin then fillrow else nth i new_data fillrow.
  Definition cell0 (row : list V) : list V * list bool :=
    if is_masked then (firstn kk row, map (fun v => negb (veqb v vzero)) (skipn kk row)) else (row, repeat false kk).
  Definition cell1 (c : list V * list bool) : list V * list bool :=
    match fill with
    | None => (fst c, map2 orb (snd c) (map (fun v => veqb v fillv) (fst c)))
    | Some _ => c
    end.

  Lemma get_sample_normal idx : (count_true vin =? 0) || (count_true vout =? 0) = false ->
    o_cells (get_sample veqb vzero vone tshape dtype multi k rows mrows vin vout idx fill sentinel)
    = map (fun row => cell1 (cell0 row)) (scatter vout (map gath idx) fillrow).
  Proof.
    intros H. unfold get_sample. rewrite H. cbv zeta.
    unfold cell1, cell0, gath, fillrow, fillv, Wd, new_data, is_masked, new_m, kk.
    destruct (existsb (existsb (fun x : bool => x)) match mrows with Some mm => select vin mm | None => [] end);
      destruct fill; cbn [o_cells]; rewrite ?map_map; reflexivity.
  Qed.

  Lemma get_sample_empty idx : (count_true vin =? 0) || (count_true vout =? 0) = true ->
    o_cells (get_sample veqb vzero vone tshape dtype multi k rows mrows vin vout idx fill sentinel)
    = repeat (match fill with None => (repeat vzero kk, repeat true kk) | Some f => (repeat f kk, repeat false kk) end)
             (length vout).
  Proof. intros H. unfold get_sample. rewrite H. unfold kk. destruct fill; reflexivity. Qed.

  Lemma neighbour_info_nonempty knn : compact vin <> [] ->
    neighbour_info knn vin vout = (vin, vout, map (knn (compact vin)) (compact vout)).
  Proof. intros H. unfold neighbour_info. destruct (compact vin); [contradiction|reflexivity]. Qed.

  Lemma neighbour_info_empty knn : compact vin = [] ->
    neighbour_info knn vin vout = (vin, repeat true (length vout), repeat (length vin) (length vout)).
  Proof. intros H. unfold neighbour_info. rewrite H. reflexivity. Qed.

  Lemma cell_empty_path t idx vo : length vo = length vout -> t < length vout ->
    (count_true vin =? 0) || (count_true vo =? 0) = true ->
    let c := nth t (o_cells (get_sample veqb vzero vone tshape dtype multi k rows mrows vin vo idx fill sentinel)) ([], []) in
    (forall f, fill = Some f -> fst c = repeat f kk) /\ (fill = None -> snd c = repeat true kk).
  Proof.
    intros Hl Ht He. unfold get_sample. rewrite He. cbv zeta. fold kk. rewrite Hl.
    destruct fill as [f|]; cbn [o_cells]; rewrite nth_repeat_lt by exact Ht; cbn [fst snd]; split; intros; try discriminate; auto.
    congruence.
  Qed.

  Lemma length_new_m_masked' : is_masked = true -> exists mm, mrows = Some mm /\ new_m = select vin mm.
  Proof.
    unfold is_masked, new_m. destruct mrows as [mm|]; [intros _; exists mm; auto|]. cbn. discriminate.
  Qed.

  Lemma length_cells_gs idx :
    length (o_cells (get_sample veqb vzero vone tshape dtype multi k rows mrows vin vout idx fill sentinel)) = length vout.
  Proof.
    destruct ((count_true vin =? 0) || (count_true vout =? 0)) eqn:Ee.
    - rewrite get_sample_empty by exact Ee. apply repeat_length.
    - rewrite get_sample_normal by exact Ee. rewrite map_length. apply length_scatter.
  Qed.

  (* ---- every cell carries kk values and kk mask bits, whatever the index array ---- *)
  Lemma select_incl {A} (m : list bool) (l : list A) x : In x (select m l) -> In x l.
  Proof.
    revert l; induction m as [|c m IH]; intros [|y l] H; cbn in *; try contradiction.
    destruct c; [destruct H as [->|H]; [left; reflexivity|]|]; right; apply IH; exact H.
  Qed.
  Lemma in_map2 {A B C} (f : A -> B -> C) l1 l2 x : In x (map2 f l1 l2) -> exists u v, In u l1 /\ In v l2 /\ x = f u v.
  Proof.
    revert l2; induction l1 as [|u l1 IH]; intros [|v l2] H; cbn in *; try contradiction.
    destruct H as [<-|H]; [exists u, v; auto|]. destruct (IH _ H) as (u' & v' & H1 & H2 & H3). exists u', v'; auto.
  Qed.
  Lemma in_scatter {A} m (res : list A) dflt x : In x (scatter m res dflt) -> In x res \/ x = dflt.
  Proof.
    revert res; induction m as [|c m IH]; intros res H; [contradiction|].
    destruct c.
    - destruct res as [|y res]; cbn in H; destruct H as [<-|H].
      + right; reflexivity.
      + destruct (IH _ H) as [[]|E]; right; exact E.
      + left; left; reflexivity.
      + destruct (IH _ H) as [H'|E]; [left; right; exact H'|right; exact E].
    - cbn in H. destruct H as [<-|H]; [right; reflexivity|]. apply IH; exact H.
  Qed.

  Lemma new_data_width : wf_input -> forall row, In row new_data -> length row = Wd.
  Proof.
    intros (Hlen & Hrow & Hm) row Hin. unfold new_data, Wd in *. destruct is_masked eqn:Em.
    - destruct (length_new_m_masked' Em) as (mm & Emm & Enm). rewrite Emm in Hm. destruct Hm as (_ & Hmrow).
      rewrite Enm in Hin. apply in_map2 in Hin. destruct Hin as (u & v & Hu & Hv & ->).
      rewrite app_length, map_length. rewrite (Hrow u (select_incl _ _ _ Hu)), (Hmrow v (select_incl _ _ _ Hv)). lia.
    - apply Hrow. exact (select_incl _ _ _ Hin).
  Qed.

  Lemma cell_width_of_row row : length row = Wd ->
    length (fst (cell1 (cell0 row))) = kk /\ length (snd (cell1 (cell0 row))) = kk.
  Proof.
    intros Hr. unfold cell1, cell0, Wd in *. destruct is_masked; destruct fill; cbn [fst snd];
      rewrite ?length_map2, ?map_length, ?firstn_length, ?skipn_length, ?repeat_length, ?Hr; lia.
  Qed.

  Lemma cells_width : wf_input -> forall idx c,
    In c (o_cells (get_sample veqb vzero vone tshape dtype multi k rows mrows vin vout idx fill sentinel)) ->
    length (fst c) = kk /\ length (snd c) = kk.
  Proof.
    intros Hwf' idx c Hin. destruct ((count_true vin =? 0) || (count_true vout =? 0)) eqn:Ee.
    - rewrite get_sample_empty in Hin by exact Ee. apply repeat_spec in Hin. subst c.
      destruct fill; cbn [fst snd]; rewrite !repeat_length; auto.
    - rewrite get_sample_normal in Hin by exact Ee. apply in_map_iff in Hin. destruct Hin as (row & <- & Hrow).
      apply cell_width_of_row. apply in_scatter in Hrow. destruct Hrow as [Hrow| ->]; [|apply repeat_length].
      apply in_map_iff in Hrow. destruct Hrow as (i & <- & _). unfold gath.
      destruct (i =? count_true vin); [apply repeat_length|].
      destruct (nth_in_or_default i new_data fillrow) as [Hn|Hn]; [apply new_data_width; auto|rewrite Hn; apply repeat_length].
  Qed.

  (* ---- what a cell looks like ---- *)
  Hypothesis Hwf : wf_input.
  Hypothesis Hsent : veqb sentinel sentinel = true.
  (* with fill_value None, no valid datum equals the sentinel (dtype maximum) *)
  Hypothesis Hnosent : fill = None ->
    forall s, In s (compact vin) -> forall v, In v (src_vals s) -> veqb v sentinel = false.

  Lemma cell_fillrow :
    fst (cell1 (cell0 fillrow)) = repeat fillv kk /\ (fill = None -> snd (cell1 (cell0 fillrow)) = repeat true kk).
  Proof.
    unfold cell1, cell0, fillrow, Wd. destruct is_masked.
    - replace (2 * kk) with (kk + kk) by lia. rewrite firstn_repeat, skipn_repeat.
      destruct fill as [f|] eqn:Ef; cbn [fst snd]; split; auto; try discriminate.
      intros _. rewrite !map_repeat'. rewrite map2_repeat. unfold fillv. rewrite Ef, Hsent. rewrite orb_true_r. reflexivity.
    - destruct fill as [f|] eqn:Ef; cbn [fst snd]; split; auto; try discriminate.
      intros _. rewrite map_repeat'. rewrite map2_repeat. unfold fillv. rewrite Ef, Hsent. reflexivity.
  Qed.

  Lemma cell_gather i : i < count_true vin ->
    let s := nth i (compact vin) 0 in
    In s (compact vin) /\ cell1 (cell0 (nth i new_data fillrow)) = (src_vals s, src_mask s).
  Proof.
    intros Hi s. destruct Hwf as (Hlen & Hrow & Hm).
    assert (Hs : In s (compact vin)) by (apply nth_In; rewrite length_compact; exact Hi).
    split; [exact Hs|].
    assert (Hsl : s < length vin) by (apply in_compact in Hs; tauto).
    assert (Hrv : nth i (select vin rows) [] = src_vals s).
    { unfold src_vals. apply nth_select_compact; auto. }
    assert (Hlrv : length (src_vals s) = kk).
    { apply Hrow. unfold src_vals. apply nth_In. lia. }
    assert (Hsel : length (select vin rows) = count_true vin) by (apply length_select; exact Hlen).
    unfold new_data, cell0, cell1, src_mask. destruct is_masked eqn:Em.
    - destruct (length_new_m_masked' Em) as (mm & Emm & Enm). rewrite Emm in *. destruct Hm as (Hmlen & Hmrow).
      assert (Hselm : length (select vin mm) = count_true vin) by (apply length_select; exact Hmlen).
      rewrite Enm.
      rewrite (nth_map2 _ _ _ i [] [] fillrow) by lia.
      rewrite Hrv. rewrite (nth_select_compact vin mm [] i Hmlen Hi). fold s.
      assert (Hlm : length (nth s mm []) = kk) by (apply Hmrow, nth_In; lia).
      rewrite (firstn_app_exact (src_vals s) _ kk) by (symmetry; exact Hlrv).
      rewrite (skipn_app_exact (src_vals s) _ kk) by (symmetry; exact Hlrv).
      rewrite unmask_b2v.
      destruct fill as [f|] eqn:Ef; [reflexivity|]. cbn [fst snd]. f_equal.
      apply map2_orb_false_r; [lia|]. intros v Hv. unfold fillv; try rewrite Ef. apply (fun H => Hnosent H s Hs v Hv); first [exact Ef|reflexivity].
    - rewrite (nth_indep _ fillrow []) by lia. rewrite Hrv.
      assert (Hmask : match mrows with Some mm => nth s mm [] | None => repeat false kk end = repeat false kk).
      { destruct mrows as [mm|] eqn:Emm; [|reflexivity]. destruct Hm as (Hmlen & Hmrow).
        assert (Hlm : length (nth s mm []) = kk) by (apply Hmrow, nth_In; lia).
        rewrite <- Hlm. apply existsb_id_false.
        unfold is_masked, new_m in Em. rewrite Emm in Em.
        apply (existsb_false_in _ _ _ Em).
        unfold s. rewrite <- (nth_select_compact vin mm [] i Hmlen Hi). apply nth_In.
        rewrite (length_select vin mm Hmlen). exact Hi. }
      rewrite Hmask.
      destruct fill as [f|] eqn:Ef; [reflexivity|]. cbn [fst snd]. f_equal.
      apply map2_orb_false_r; [rewrite repeat_length; lia|]. intros v Hv. unfold fillv; try rewrite Ef. apply (fun H => Hnosent H s Hs v Hv); first [exact Ef|reflexivity].
  Qed.

  (* ---- the main statement ---- *)
  Variable knn : list nat -> nat -> nat.
  Hypothesis Hknn : forall t, In t (compact vout) ->
    knn_spec_tol a b ca r2 (d2 t) (compact vin) (knn (compact vin) t).

  Definition out := resample_nn veqb vzero vone knn tshape dtype multi k rows mrows vin vout fill sentinel.
  Definition cell (t : nat) : list V * list bool := nth t (o_cells out) ([], []).

  Definition is_value_cell (t : nat) : Prop :=
    exists s, nth t vout false = true /\ In s (compact vin) /\
      (forall s', In s' (compact vin) -> (b * d2 t s <= a * d2 t s' + ca)%Z) /\ (b * d2 t s <= a * r2 + ca)%Z /\
      fst (cell t) = src_vals s /\ snd (cell t) = src_mask s.
  Definition is_fill_cell (t : nat) : Prop :=
    (nth t vout false = false \/ forall s', In s' (compact vin) -> (b * r2 <= a * d2 t s' + ca)%Z) /\
    (forall f, fill = Some f -> fst (cell t) = repeat f kk) /\
    (fill = None -> snd (cell t) = repeat true kk).

  Lemma length_cells : length (o_cells out) = length vout.
  Proof.
    unfold out, resample_nn. destruct (compact vin) as [|c0 cs] eqn:Ec.
    - rewrite neighbour_info_empty by exact Ec.
      unfold get_sample. rewrite (compact_nil_count _ Ec). cbn [Nat.eqb orb]. cbv zeta.
      destruct fill; cbn [o_cells]; rewrite !repeat_length; reflexivity.
    - rewrite neighbour_info_nonempty by (rewrite Ec; discriminate).
      destruct ((count_true vin =? 0) || (count_true vout =? 0)) eqn:Ee.
      + rewrite get_sample_empty by exact Ee. rewrite repeat_length. reflexivity.
      + rewrite get_sample_normal by exact Ee. rewrite map_length, length_scatter. reflexivity.
  Qed.

  Lemma nn_is_nearest_or_fill t : t < length vout -> is_value_cell t \/ is_fill_cell t.
  Proof.
    intros Ht. unfold is_value_cell, is_fill_cell, cell, out, resample_nn.
    assert (Hc : compact vin = [] \/ compact vin <> []) by (destruct (compact vin); [left|right]; congruence).
    destruct Hc as [Ec|Hne].
    - (* no valid source: _create_empty_info + _get_empty_sample *)
      right. rewrite neighbour_info_empty by exact Ec. split; [right; rewrite Ec; intros s' []|].
      apply cell_empty_path; [apply repeat_length|exact Ht|].
      rewrite (compact_nil_count _ Ec). reflexivity.
    - rewrite neighbour_info_nonempty by exact Hne.
      destruct ((count_true vin =? 0) || (count_true vout =? 0)) eqn:Ee.
      + (* no valid target *)
        right. assert (Hc : count_true vout = 0).
        { apply orb_true_iff in Ee. destruct Ee as [E|E]; apply Nat.eqb_eq in E; [|exact E].
          exfalso. apply Hne. apply length_zero_iff_nil. rewrite length_compact. exact E. }
        split; [left; apply count_true_zero_nth; exact Hc|].
        apply cell_empty_path; [reflexivity|exact Ht|exact Ee].
      + rewrite get_sample_normal by exact Ee. rewrite map_map.
        rewrite (nth_indep _ ([], []) (cell1 (cell0 fillrow))) by (rewrite map_length, length_scatter; exact Ht).
        rewrite (map_nth (fun row => cell1 (cell0 row))).
        rewrite (scatter_compact (fun t => gath (knn (compact vin) t)) vout fillrow t Ht).
        destruct (nth t vout false) eqn:Ev.
        * assert (Hin : In t (compact vout)) by (apply in_compact; auto).
          specialize (Hknn t Hin). destruct Hknn as [Hlt Hge]. unfold gath.
          rewrite length_compact in Hlt, Hge.
          destruct (Nat.eqb_spec (knn (compact vin) t) (count_true vin)) as [E|E].
          -- right. destruct (Hge ltac:(lia)) as [_ Hall]. split; [right; exact Hall|].
             destruct cell_fillrow as [F1 F2]. split; [|exact F2].
             intros f Hf. rewrite F1. unfold fillv. rewrite Hf. reflexivity.
          -- destruct (Nat.lt_ge_cases (knn (compact vin) t) (count_true vin)) as [Hl|Hg].
             ++ left. destruct (Hlt Hl) as [Hmin Hrad].
                destruct (cell_gather _ Hl) as [Hs Hc]. cbv zeta in Hs, Hc.
                exists (nth (knn (compact vin) t) (compact vin) 0).
                rewrite Hc. cbn [fst snd]. auto 10.
             ++ destruct (Hge Hg) as [E' _]. contradiction.
        * right. split; [left; reflexivity|].
          destruct cell_fillrow as [F1 F2]. split; [|exact F2].
          intros f Hf. rewrite F1. unfold fillv. rewrite Hf. reflexivity.
  Qed.

  (* decisive cases: strictly inside the radius (beyond the slack) -> a value; all outside -> fill *)
  Lemma nn_value_if_inside t : t < length vout -> nth t vout false = true ->
    (exists s, In s (compact vin) /\ (a * d2 t s + ca < b * r2)%Z) -> is_value_cell t.
  Proof.
    intros Ht Hv (s & Hs & Hd). destruct (nn_is_nearest_or_fill t Ht) as [H|[[H|H] _]]; [exact H| |].
    - congruence.
    - specialize (H s Hs). lia.
  Qed.

  Lemma nn_fill_if_outside t : t < length vout ->
    (forall s, In s (compact vin) -> (a * r2 + ca < b * d2 t s)%Z) -> is_fill_cell t.
  Proof.
    intros Ht Hall. destruct (nn_is_nearest_or_fill t Ht) as [(s & _ & Hs & _ & Hr & _)|H]; [|exact H].
    specialize (Hall s Hs). exfalso. lia.
  Qed.

  (* a target with out-of-range / non-finite coordinates is always fill *)
  Lemma invalid_target_is_fill t : t < length vout -> nth t vout false = false -> is_fill_cell t.
  Proof.
    intros Ht Hv. destruct (nn_is_nearest_or_fill t Ht) as [(s & Hs & _)|H]; [congruence|exact H].
  Qed.
End P.

(* ---- invalid sources never contribute: the result is a function of the valid rows only, and the
        tree is only asked about valid targets against the valid sources ---- *)
Section NI.
  Context {V D : Type}.
  Variable veqb : V -> V -> bool.
  Variables vzero vone : V.

  Definition agree_on {A} (vin : list bool) (l l' : list A) (dflt : A) : Prop :=
    length l = length vin /\ length l' = length vin /\
    forall s, s < length vin -> nth s vin false = true -> nth s l dflt = nth s l' dflt.

  Lemma map_ext_in' {A B} (f g : A -> B) l : (forall x, In x l -> f x = g x) -> map f l = map g l.
  Proof. induction l as [|x l IH]; intros H; [reflexivity|]. cbn. rewrite (H x), IH; auto; [intros; apply H; right; auto|left; auto]. Qed.

  Lemma invalid_never_contribute (knn knn' : list nat -> nat -> nat) (tshape : list Z) (dtype : D) multi k
        (rows rows' : list (list V)) (mrows mrows' : option (list (list bool))) vin vout fill sentinel :
    agree_on vin rows rows' [] ->
    match mrows, mrows' with
    | Some mm, Some mm' => agree_on vin mm mm' []
    | None, None => True
    | _, _ => False
    end ->
    (forall t, In t (compact vout) -> knn (compact vin) t = knn' (compact vin) t) ->
    resample_nn veqb vzero vone knn tshape dtype multi k rows mrows vin vout fill sentinel =
    resample_nn veqb vzero vone knn' tshape dtype multi k rows' mrows' vin vout fill sentinel.
  Proof.
    intros (H1 & H2 & H3) Hm Hk. unfold resample_nn, neighbour_info.
    assert (Er : select vin rows = select vin rows') by (apply (select_ext vin rows rows' []); auto).
    assert (Em : match mrows with Some mm => select vin mm | None => [] end =
                 match mrows' with Some mm => select vin mm | None => [] end).
    { destruct mrows as [mm|], mrows' as [mm'|]; try contradiction; [|reflexivity].
      destruct Hm as (M1 & M2 & M3). apply (select_ext vin mm mm' []); auto. }
    destruct (compact vin) as [|c0 cs] eqn:Ec.
    - unfold get_sample. rewrite (compact_nil_count _ Ec). reflexivity.
    - rewrite <- Ec in *. rewrite (map_ext_in' _ _ _ Hk).
      unfold get_sample. rewrite Er, Em. reflexivity.
  Qed.
End NI.

(* ---- shape and dtype ---- *)
Section Shape.
  Context {V D : Type}.
  Variable veqb : V -> V -> bool.
  Variables vzero vone : V.

  Lemma shape_dtype (knn : list nat -> nat -> nat) (tshape : list Z) (dtype : D) multi k
        (rows : list (list V)) (mrows : option (list (list bool))) vin vout fill sentinel :
    let o := resample_nn veqb vzero vone knn tshape dtype multi k rows mrows vin vout fill sentinel in
    (* masked multi-channel input with exactly one channel is excluded (known finding) *)
    (multi = true -> k = 1 -> mrows = None) ->
    o_shape o = tshape ++ (if multi then [Z.of_nat k] else []) /\ o_dtype o = dtype.
  Proof.
    intros o Hex. unfold o, resample_nn, neighbour_info.
    destruct (compact vin) as [|c0 cs] eqn:Ec.
    - unfold get_sample. rewrite (compact_nil_count _ Ec). cbn [Nat.eqb orb]. cbv zeta. destruct fill; split; reflexivity.
    - unfold get_sample. destruct ((count_true vin =? 0) || (count_true vout =? 0)).
      + cbv zeta. destruct fill; split; reflexivity.
      + cbv zeta. cbn [o_shape o_dtype]. split; [|reflexivity].
        destruct (existsb (existsb (fun x : bool => x)) match mrows with Some mm => select vin mm | None => [] end) eqn:Em; [|reflexivity].
        destruct multi.
        * destruct (Nat.eqb_spec k 1) as [E|E]; [|reflexivity].
          rewrite (Hex eq_refl E) in Em. cbn in Em. discriminate.
        * reflexivity.
  Qed.
  Lemma neighbour_info_shape (knn : list nat -> nat -> nat) vin vout vii voi idx :
    neighbour_info knn vin vout = (vii, voi, idx) -> vii = vin /\ length voi = length vout.
  Proof.
    unfold neighbour_info. destruct (compact vin); intros E; injection E as <- <- <-; split; auto. apply repeat_length.
  Qed.

  Lemma prodZ_app l1 l2 : prodZ (l1 ++ l2) = (prodZ l1 * prodZ l2)%Z.
  Proof. unfold prodZ. induction l1 as [|x l1 IH]; cbn [app fold_right]; [rewrite Z.mul_1_l; reflexivity|]. rewrite IH. ring. Qed.

  Lemma shape_size (knn : list nat -> nat -> nat) (tshape : list Z) (dtype : D) multi k
        (rows : list (list V)) (mrows : option (list (list bool))) vin vout fill sentinel :
    let o := resample_nn veqb vzero vone knn tshape dtype multi k rows mrows vin vout fill sentinel in
    wf_input multi k rows mrows vin ->
    (multi = true -> k = 1 -> mrows = None) ->
    Z.of_nat (length vout) = prodZ tshape ->
    length (o_cells o) = length vout /\
    (forall c, In c (o_cells o) -> length (fst c) = kk multi k /\ length (snd c) = kk multi k) /\
    Z.of_nat (length (o_vals o)) = prodZ (o_shape o) /\ length (o_mask o) = length (o_vals o).
  Proof.
    intros o Hwf Hex Hsz.
    destruct (shape_dtype knn tshape dtype multi k rows mrows vin vout fill sentinel Hex) as [Hsh _]. fold o in Hsh.
    unfold o, resample_nn in *. destruct (neighbour_info knn vin vout) as [[vii voi] idx] eqn:En.
    destruct (neighbour_info_shape _ _ _ _ _ _ En) as [-> Hl].
    pose proof (length_cells_gs veqb vzero vone tshape dtype multi k rows mrows vin voi fill sentinel idx) as Hlc.
    pose proof (cells_width veqb vzero vone tshape dtype multi k rows mrows vin voi fill sentinel Hwf idx) as Hw.
    split; [congruence|]. split; [exact Hw|].
    assert (Hv : length (o_vals (get_sample veqb vzero vone tshape dtype multi k rows mrows vin voi idx fill sentinel))
                 = length vout * kk multi k).
    { unfold o_vals. rewrite (concat_length_const _ (kk multi k)).
      - rewrite map_length. congruence.
      - intros l Hin. apply in_map_iff in Hin. destruct Hin as (c & <- & Hc). apply (Hw c Hc). }
    assert (Hm : length (o_mask (get_sample veqb vzero vone tshape dtype multi k rows mrows vin voi idx fill sentinel))
                 = length vout * kk multi k).
    { unfold o_mask. rewrite (concat_length_const _ (kk multi k)).
      - rewrite map_length. congruence.
      - intros l Hin. apply in_map_iff in Hin. destruct Hin as (c & <- & Hc). apply (Hw c Hc). }
    split; [|congruence].
    rewrite Hsh, Hv, prodZ_app, Nat2Z.inj_mul, Hsz. unfold kk. destruct multi; cbn; lia.
  Qed.
End Shape.
