(* C13, round 4: histories of writes and loads on ONE file.  The file is the list of its entries (what the YAML loader
   returns for its current text); AreaDefinition.dump(filename) appends one entry, a rewrite replaces the content, removing
   the file leaves nothing to load.  Every load sees the CURRENT content only: whatever was loaded before is irrelevant. *)
From Coq Require Import Reals ZArith Bool List Lra Lia.
From PR Require Import Base.Num Base.RNum Model.AreaConfig Model.AreaYaml Proofs.C13_base Proofs.C13_yaml.
Import ListNotations.
Open Scope R_scope.

Section History.
  Variable crs_facts : pentry -> bool * cu * (cu -> R * R).
  Notation arearec := (area_rec (T:=R)).

  Inductive op :=
  | OpDump (a : arearec)                    (* a.dump(filename=path): append *)
  | OpOverwrite (l : list arearec)          (* the file is rewritten with the dumps of l *)
  | OpRemove
  | OpLoadAll                               (* load_area(path) *)
  | OpLoadSel (sel : list arearec)          (* load_area(path, *ids of sel) *)
  | OpLoadId (r : Z).                       (* load_area(path, r) *)

  (* the model: the state is the file content (None = no file); a load reads it, nothing else *)
  Fixpoint run (ops : list op) (file : option (list (yentry (T:=R)))) : list (res (list (loaded (T:=R)))) :=
    match ops with
    | [] => []
    | OpDump a :: r => run r (Some (match file with Some f => f ++ [dump_dict a] | None => [dump_dict a] end))
    | OpOverwrite l :: r => run r (Some (map dump_dict l))
    | OpRemove :: r => run r None
    | OpLoadAll :: r => (match file with Some f => load_file RO crs_facts f [] | None => Err end) :: run r file
    | OpLoadSel sel :: r => (match file with Some f => load_file RO crs_facts f (map r_id sel) | None => Err end) :: run r file
    | OpLoadId i :: r => (match file with Some f => load_file RO crs_facts f [i] | None => Err end) :: run r file
    end.

  (* the areas the file holds after the writes so far, and what each load must return *)
  Fixpoint expect (ops : list op) (cur : option (list arearec)) : list (res (list (loaded (T:=R)))) :=
    match ops with
    | [] => []
    | OpDump a :: r => expect r (Some (match cur with Some c => c ++ [a] | None => [a] end))
    | OpOverwrite l :: r => expect r (Some l)
    | OpRemove :: r => expect r None
    | OpLoadAll :: r => (match cur with Some c => Ok (map (loaded_of crs_facts) c) | None => Err end) :: expect r cur
    | OpLoadSel sel :: r => (match cur with Some c => Ok (map (loaded_of crs_facts) sel) | None => Err end) :: expect r cur
    | OpLoadId i :: r =>
      (match cur with
       | Some c => match find (fun a => (r_id a =? i)%Z) c with
                   | Some a => Ok [loaded_of crs_facts a] | None => Err (* AreaNotFound *) end
       | None => Err end) :: expect r cur
    end.

  Definition good (c : list arearec) : Prop := Forall (area_ok crs_facts) c /\ NoDup (map r_id c).
  (* every state of the history holds well-formed areas with distinct ids; selections ask for areas that are there *)
  Fixpoint ok_hist (ops : list op) (cur : option (list arearec)) : Prop :=
    match ops with
    | [] => True
    | OpDump a :: r => let c := match cur with Some c => c ++ [a] | None => [a] end in good c /\ ok_hist r (Some c)
    | OpOverwrite l :: r => good l /\ ok_hist r (Some l)
    | OpRemove :: r => ok_hist r None
    | OpLoadAll :: r => ok_hist r cur
    | OpLoadSel sel :: r => (match cur with Some c => incl sel c /\ sel <> [] | None => True end) /\ ok_hist r cur
    | OpLoadId _ :: r => ok_hist r cur
    end.

  Lemma find_id_in (c : list arearec) i a : find (fun a => (r_id a =? i)%Z) c = Some a -> In a c /\ r_id a = i.
  Proof. intros H. apply find_some in H. destruct H as [H1 H2]. split; [exact H1|]. now apply Z.eqb_eq. Qed.
  Lemma find_id_none (c : list arearec) i : find (fun a => (r_id a =? i)%Z) c = None -> ~ In i (map r_id c).
  Proof.
    intros H Hin. apply in_map_iff in Hin. destruct Hin as (a & Ha & Hc).
    pose proof (find_none _ _ H a Hc) as Hn. cbn in Hn. rewrite Ha, Z.eqb_refl in Hn. discriminate.
  Qed.

  Theorem history_loads ops : forall cur,
    (match cur with Some c => good c | None => True end) -> ok_hist ops cur ->
    run ops (option_map (map dump_dict) cur) = expect ops cur.
  Proof.
    induction ops as [|o ops IH]; intros cur Hg Hok; [reflexivity|].
    destruct o; cbn [run expect ok_hist] in *.
    - destruct Hok as [Hc Hr]. destruct cur as [c|]; cbn [option_map].
      + rewrite <- (IH (Some (c ++ [a])) Hc Hr). cbn [option_map]. now rewrite map_app.
      + rewrite <- (IH (Some [a]) Hc Hr). reflexivity.
    - destruct Hok as [Hc Hr]. rewrite <- (IH (Some l) Hc Hr). reflexivity.
    - rewrite <- (IH None I Hok). reflexivity.
    - rewrite (IH cur Hg Hok). destruct cur as [c|]; cbn [option_map]; [|reflexivity].
      destruct Hg as [Hf Hn]. now rewrite dump_load_file.
    - destruct Hok as [Hs Hr]. rewrite (IH cur Hg Hr). destruct cur as [c|]; cbn [option_map]; [|reflexivity].
      destruct Hg as [Hf Hn]. destruct Hs as [Hi Hne]. now rewrite dump_load_regions.
    - rewrite (IH cur Hg Hok). destruct cur as [c|]; cbn [option_map]; [|reflexivity].
      destruct Hg as [Hf Hn]. destruct (find _ c) as [a|] eqn:E.
      + apply find_id_in in E. destruct E as [Hin <-].
        change [r_id a] with (map r_id [a]). rewrite (dump_load_regions crs_facts c [a] Hf Hn); [reflexivity| |discriminate].
        intros x [<- | []]. exact Hin.
      + apply find_id_none in E. rewrite (load_missing_region crs_facts c [r] r); [reflexivity|now left|exact E].
  Qed.
End History.
