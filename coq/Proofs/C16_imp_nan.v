(* C16 - the definition regenerated from BaseDefinition._filter_sides_nans (loop and all) IS the model filter_sides_nans. *)
From Coq Require Import ZArith List Bool Lia.
From PR Require Import Base.Num Base.Imp Model.Boundary Model.ImpBoundary Gen.GenC16imp Proofs.C16_nan.
Import ListNotations.

Section ImpNan.
  Context {T : Type} (OP : ops T).
  Context {P : Type} (poly_of : list T * list T -> P) (p0 : P).

  Lemma mask_select_fst (a b : list T) : length a = length b ->
    mask_select a (valid_mask OP a b) = map fst (filter (valid_vertex OP) (combine a b)).
  Proof.
    unfold mask_select, valid_mask. revert b. induction a as [|x a IH]; intros [|y b] H; try discriminate; [reflexivity|].
    cbn in H. cbn [combine map filter snd]. destruct (valid_vertex OP (x, y)); cbn [map fst]; rewrite IH by lia; reflexivity.
  Qed.

  Lemma mask_select_snd (a b : list T) : length a = length b ->
    mask_select b (valid_mask OP a b) = map snd (filter (valid_vertex OP) (combine a b)).
  Proof.
    unfold mask_select, valid_mask. revert b. induction a as [|x a IH]; intros [|y b] H; try discriminate; [reflexivity|].
    cbn in H. cbn [combine map filter snd]. destruct (valid_vertex OP (x, y)); cbn [map fst snd]; rewrite IH by lia; reflexivity.
  Qed.

  Lemma any_valid_mask (a b : list T) :
    existsb (fun x => x) (valid_mask OP a b) = match filter (valid_vertex OP) (combine a b) with [] => false | _ => true end.
  Proof.
    unfold valid_mask. induction (combine a b) as [|p l IH]; [reflexivity|].
    cbn [map existsb filter]. destruct (valid_vertex OP p); [reflexivity|exact IH].
  Qed.

  Definition same_lengths (d1 d2 : list (list T)) : Prop :=
    length d1 = length d2 /\ Forall (fun p => length (fst p) = length (snd p)) (combine d1 d2).

  Notation st := (@imp_filter_sides_nans_st T).
  Definition body : M st Empty_set (list (list T) * list (list T)) := (andthen (assign (fun s : st => (imp_filter_sides_nans_set_is_valid_mask (valid_mask OP (imp_filter_sides_nans_dim1_side s) (imp_filter_sides_nans_dim2_side s)) s)))
   (andthen (ite (fun s : st => (negb (existsb (fun b_ => b_) (imp_filter_sides_nans_is_valid_mask s)))) raise_ skip)
   (andthen (assign (fun s : st => (imp_filter_sides_nans_set_new_dim1_sides ((imp_filter_sides_nans_new_dim1_sides s) ++ [(mask_select (imp_filter_sides_nans_dim1_side s) (imp_filter_sides_nans_is_valid_mask s))]) s)))
   (assign (fun s : st => (imp_filter_sides_nans_set_new_dim2_sides ((imp_filter_sides_nans_new_dim2_sides s) ++ [(mask_select (imp_filter_sides_nans_dim2_side s) (imp_filter_sides_nans_is_valid_mask s))]) s)))))).
  Definition bind := (fun (x_ : list T * list T) (s : st) => (imp_filter_sides_nans_set_dim2_side (snd x_) (imp_filter_sides_nans_set_dim1_side (fst x_) s))).

  (* one iteration *)
  Lemma step_spec (a b : list T) (s : st) : length a = length b ->
    match filter (valid_vertex OP) (combine a b) with
    | [] => body (bind (a, b) s) = Raised
    | f => exists s', body (bind (a, b) s) = Fall [] s'
             /\ imp_filter_sides_nans_new_dim1_sides s' = imp_filter_sides_nans_new_dim1_sides s ++ [map fst f]
             /\ imp_filter_sides_nans_new_dim2_sides s' = imp_filter_sides_nans_new_dim2_sides s ++ [map snd f]
    end.
  Proof.
    intros Hab. unfold body, bind. rewrite andthen_assign, andthen_ite. cbv beta.
    cbn [imp_filter_sides_nans_is_valid_mask imp_filter_sides_nans_set_is_valid_mask imp_filter_sides_nans_dim1_side
         imp_filter_sides_nans_dim2_side imp_filter_sides_nans_set_dim1_side imp_filter_sides_nans_set_dim2_side fst snd].
    rewrite any_valid_mask.
    destruct (filter (valid_vertex OP) (combine a b)) as [|v vs] eqn:Ef.
    - cbn [negb]. apply andthen_raise.
    - cbn [negb]. rewrite andthen_skip, andthen_assign. unfold assign. cbv beta.
      eexists. split; [reflexivity|].
      cbn [imp_filter_sides_nans_is_valid_mask imp_filter_sides_nans_set_is_valid_mask imp_filter_sides_nans_dim1_side
           imp_filter_sides_nans_dim2_side imp_filter_sides_nans_set_dim1_side imp_filter_sides_nans_set_dim2_side
           imp_filter_sides_nans_new_dim1_sides imp_filter_sides_nans_new_dim2_sides
           imp_filter_sides_nans_set_new_dim1_sides imp_filter_sides_nans_set_new_dim2_sides].
      rewrite mask_select_fst, mask_select_snd by exact Hab. rewrite Ef. split; reflexivity.
  Qed.

  (* the loop: accumulates the filtered sides, or raises at the first side without a valid vertex *)
  Lemma loop_spec (l : list (list T * list T)) : Forall (fun p => length (fst p) = length (snd p)) l ->
    forall s : st,
    match filter_sides_nans OP (map (fun p => combine (fst p) (snd p)) l) with
    | Some r => exists s', for_list l bind body s = Fall [] s'
                  /\ imp_filter_sides_nans_new_dim1_sides s' = imp_filter_sides_nans_new_dim1_sides s ++ map (map fst) r
                  /\ imp_filter_sides_nans_new_dim2_sides s' = imp_filter_sides_nans_new_dim2_sides s ++ map (map snd) r
    | None => for_list l bind body s = Raised
    end.
  Proof.
    induction l as [|[a b] l IH]; intros HF s.
    - cbn. exists s. rewrite !app_nil_r. repeat split.
    - inversion HF as [|? ? Hab HF']; subst. cbn [fst snd] in Hab.
      cbn [map fst snd filter_sides_nans for_list]. unfold filter_side.
      pose proof (step_spec a b s Hab) as St.
      destruct (filter (valid_vertex OP) (combine a b)) as [|v vs].
      + unfold andthen. rewrite St. reflexivity.
      + destruct St as (s1 & E1 & A1 & A2). specialize (IH HF' s1).
        destruct (filter_sides_nans OP (map (fun p => combine (fst p) (snd p)) l)) as [r|].
        * destruct IH as (s' & E & H1 & H2). exists s'. unfold andthen. rewrite E1, E. split; [reflexivity|].
          rewrite H1, H2, A1, A2. cbn [map]. rewrite <- !app_assoc. split; reflexivity.
        * unfold andthen. rewrite E1, IH. reflexivity.
  Qed.

  Theorem imp_filter_sides_nans_code_is_model (d1 d2 : list (list T)) : same_lengths d1 d2 ->
    value_of (imp_filter_sides_nans OP d1 d2)
    = match filter_sides_nans OP (zip_sides d1 d2) with
      | Some r => COk (unzip_sides r)
      | None => CRaised
      end.
  Proof.
    intros [_ HF]. unfold imp_filter_sides_nans, zip_sides.
    rewrite !andthen_assign.
    match goal with |- value_of (andthen _ _ ?s0) = _ => set (s0' := s0) end.
    pose proof (loop_spec (combine d1 d2) HF s0') as L.
    unfold andthen at 1. unfold for_ at 1.
    change (imp_filter_sides_nans_dim1_sides s0') with d1. change (imp_filter_sides_nans_dim2_sides s0') with d2.
    fold bind. fold body.
    destruct (filter_sides_nans OP (map (fun p => combine (fst p) (snd p)) (combine d1 d2))) as [r|].
    - destruct L as (s' & E & H1 & H2). rewrite E. cbn. unfold unzip_sides.
      rewrite H1, H2. reflexivity.
    - rewrite L. reflexivity.
  Qed.

  (* hence the specification of the model is a specification of the code *)
  Corollary imp_filter_sides_nans_spec (d1 d2 r1 r2 : list (list T)) : same_lengths d1 d2 ->
    value_of (imp_filter_sides_nans OP d1 d2) = COk (r1, r2) ->
    r1 = map (fun s => map fst (filter (valid_vertex OP) s)) (zip_sides d1 d2)
    /\ r2 = map (fun s => map snd (filter (valid_vertex OP) s)) (zip_sides d1 d2)
    /\ Forall (Forall (fun x => isnan OP x = false)) r1 /\ Forall (Forall (fun y => isnan OP y = false)) r2
    /\ Forall (fun s => s <> []) r1.
  Proof.
    intros HL H. rewrite (imp_filter_sides_nans_code_is_model d1 d2 HL) in H.
    destruct (filter_sides_nans OP (zip_sides d1 d2)) as [r|] eqn:E; [|discriminate].
    inversion H; subst. destruct (filter_sides_nans_spec OP _ _ E) as (Er & Hne & Hv).
    rewrite Forall_forall in Hv, Hne.
    repeat split.
    - rewrite Er, map_map. reflexivity.
    - rewrite Er, map_map. reflexivity.
    - apply Forall_forall. intros l Hl. apply in_map_iff in Hl. destruct Hl as [s [<- Hs]].
      specialize (Hv s Hs). apply Forall_forall. intros x Hx.
      apply in_map_iff in Hx. destruct Hx as [p [<- Hp]]. rewrite Forall_forall in Hv. apply (Hv p Hp).
    - apply Forall_forall. intros l Hl. apply in_map_iff in Hl. destruct Hl as [s [<- Hs]].
      specialize (Hv s Hs). apply Forall_forall. intros x Hx.
      apply in_map_iff in Hx. destruct Hx as [p [<- Hp]]. rewrite Forall_forall in Hv. apply (Hv p Hp).
    - apply Forall_forall. intros l Hl. apply in_map_iff in Hl. destruct Hl as [s [<- Hs]].
      specialize (Hne s Hs). destruct s; [congruence|discriminate].
  Qed.
End ImpNan.
