(* C15: the shared result array.  Writing f over the slices handed out by the scheduler, in whatever
   order the workers complete them, gives the same array as the single-process map. *)
From Coq Require Import ZArith List Lia Bool Arith Permutation.
From PR Require Import Model.Sched Proofs.C15_inv.
Import ListNotations.
Open Scope Z_scope.

(* ---------- bookkeeping invariant: emitted slices are written or pending at exactly the receiving worker ---------- *)
Definition InvW (s : state) : Prop :=
  (forall a b, In (a, b) (wdone s) -> In (a, b) (slices s)) /\
  (forall a b, In (a, b) (slices s) -> In (a, b) (wdone s) \/ exists w, pcs s w = PWork a b) /\
  (forall w a b, pcs s w = PWork a b -> In (a, b) (slices s)).

Lemma invw_init c : InvW (init c).
Proof. unfold InvW, init, slices; cbn. repeat split; try contradiction. intros; discriminate. Qed.

(* a move of w between two program counters that are not PWork, leaving out/wdone alone *)
Lemma invw_local s w p nd st lk : InvW s ->
  (forall a b, pcs s w <> PWork a b) -> (forall a b, p <> PWork a b) ->
  InvW (mk_state nd st lk (upd (pcs s) w p) (out s) (wdone s)).
Proof.
  intros (H1 & H2 & H3) Hold Hnew. unfold InvW, slices in *; cbn. repeat split.
  - exact H1.
  - intros a b Hin. destruct (H2 a b Hin) as [Hd|(v & Hv)]; [left; exact Hd|right].
    exists v. rewrite upd_other; [exact Hv|]. intros ->. exact (Hold a b Hv).
  - intros v a b Hv. destruct (Nat.eq_dec v w) as [->|Hne].
    + rewrite upd_same in Hv. destruct (Hnew a b Hv).
    + rewrite upd_other in Hv by exact Hne. exact (H3 v a b Hv).
Qed.

Lemma invw_step c s w : InvW s -> InvW (step c s w).
Proof.
  intros Hi. unfold step, set_pc. destruct (pcs s w) eqn:Epc.
  - destruct (lock s); [exact Hi|]. apply invw_local; [exact Hi|rewrite Epc; discriminate|discriminate].
  - apply invw_local; [exact Hi|rewrite Epc; discriminate|discriminate].
  - apply invw_local; [exact Hi|rewrite Epc; discriminate|discriminate].
  - destruct (nd =? 0); [|destruct (nd <? chunk_of c nd)];
      (apply invw_local; [exact Hi|rewrite Epc; discriminate|discriminate]).
  - apply invw_local; [exact Hi|rewrite Epc; discriminate|discriminate].
  - (* PRelease: the slice is emitted and becomes pending at w *)
    destruct Hi as (H1 & H2 & H3). unfold InvW, slices in *; cbn. rewrite map_app; cbn. repeat split.
    + intros a b Hin. apply in_or_app. left. exact (H1 a b Hin).
    + intros a b Hin. apply in_app_or in Hin. destruct Hin as [Hin|[Heq|[]]].
      * destruct (H2 a b Hin) as [Hd|(v & Hv)]; [left; exact Hd|right].
        exists v. rewrite upd_other; [exact Hv|]. intros ->. rewrite Epc in Hv. discriminate.
      * inversion Heq; subst. right. exists w. apply upd_same.
    + intros v a b Hv. apply in_or_app. destruct (Nat.eq_dec v w) as [->|Hne].
      * rewrite upd_same in Hv. inversion Hv; subst. right. left. reflexivity.
      * rewrite upd_other in Hv by exact Hne. left. exact (H3 v a b Hv).
  - (* PWork: the pending slice is written *)
    destruct Hi as (H1 & H2 & H3). unfold InvW, slices in *; cbn. repeat split.
    + intros a b Hin. apply in_app_or in Hin. destruct Hin as [Hin|[Heq|[]]]; [exact (H1 a b Hin)|].
      inversion Heq; subst. exact (H3 w a b Epc).
    + intros a b Hin. destruct (H2 a b Hin) as [Hd|(v & Hv)]; [left; apply in_or_app; left; exact Hd|].
      destruct (Nat.eq_dec v w) as [->|Hne].
      * rewrite Epc in Hv. inversion Hv; subst. left. apply in_or_app. right. left. reflexivity.
      * right. exists v. rewrite upd_other by exact Hne. exact Hv.
    + intros v a b Hv. destruct (Nat.eq_dec v w) as [->|Hne].
      * rewrite upd_same in Hv. discriminate.
      * rewrite upd_other in Hv by exact Hne. exact (H3 v a b Hv).
  - exact Hi.
Qed.

Lemma invw_run c sched : InvW (run c sched).
Proof.
  unfold run, run_from. generalize (invw_init c). generalize (init c).
  induction sched as [|w sched IH]; cbn; intros s Hs; [exact Hs|]. apply IH. apply invw_step. exact Hs.
Qed.

(* ---------- lists as arrays ---------- *)
Lemma nth_firstn_lt {A} (l : list A) d : forall m k, (k < m)%nat -> nth k (firstn m l) d = nth k l d.
Proof.
  induction l as [|x l IH]; intros m k H; [rewrite firstn_nil; reflexivity|].
  destruct m as [|m]; [lia|]. destruct k as [|k]; cbn; [reflexivity|]. apply IH. lia.
Qed.

Lemma nth_skipn_add {A} (l : list A) d : forall m j, nth j (skipn m l) d = nth (m + j) l d.
Proof.
  induction l as [|x l IH]; intros m j; [rewrite skipn_nil; destruct j, m; reflexivity|].
  destruct m as [|m]; cbn; [reflexivity|]. apply IH.
Qed.

Lemma zrange_length a b : length (zrange a b) = Z.to_nat (b - a).
Proof. unfold zrange. rewrite map_length, seq_length. reflexivity. Qed.

Lemma zrange_nth a b k : (k < Z.to_nat (b - a))%nat -> nth k (zrange a b) 0 = a + Z.of_nat k.
Proof.
  intros H. unfold zrange.
  rewrite (nth_indep _ 0 (a + Z.of_nat 0)) by (rewrite map_length, seq_length; exact H).
  rewrite (map_nth (fun k => a + Z.of_nat k)). rewrite seq_nth by exact H. reflexivity.
Qed.

Section Arr.
  Context {V : Type} (f : Z -> V) (d : V).

  Definition in_bounds (len : Z) (s : Z * Z) : Prop := 0 <= fst s <= snd s /\ snd s <= len.

  Lemma write_slice_length arr s : in_bounds (Z.of_nat (length arr)) s -> length (write_slice f arr s) = length arr.
  Proof.
    intros ((Ha & Hab) & Hb). unfold write_slice.
    rewrite !app_length, firstn_length, map_length, zrange_length, skipn_length. lia.
  Qed.

  Lemma write_slice_nth arr s k : in_bounds (Z.of_nat (length arr)) s -> (k < length arr)%nat ->
    nth k (write_slice f arr s) d = if contains (Z.of_nat k) s then f (Z.of_nat k) else nth k arr d.
  Proof.
    intros ((Ha & Hab) & Hb) Hk. unfold write_slice, contains.
    assert (HlA : length (firstn (Z.to_nat (fst s)) arr) = Z.to_nat (fst s)) by (rewrite firstn_length; lia).
    destruct (Z.leb_spec (fst s) (Z.of_nat k)) as [H1|H1]; cbn [andb].
    - rewrite app_nth2 by lia. rewrite HlA.
      destruct (Z.ltb_spec (Z.of_nat k) (snd s)) as [H2|H2].
      + rewrite app_nth1 by (rewrite map_length, zrange_length; lia).
        rewrite (nth_indep _ d (f 0)) by (rewrite map_length, zrange_length; lia).
        rewrite map_nth. rewrite zrange_nth by lia. f_equal. lia.
      + rewrite app_nth2 by (rewrite map_length, zrange_length; lia).
        rewrite map_length, zrange_length. rewrite nth_skipn_add. f_equal. lia.
    - rewrite app_nth1 by lia. apply nth_firstn_lt. lia.
  Qed.

  Definition covered (ws : list (Z * Z)) (i : Z) : bool := existsb (contains i) ws.

  Lemma fold_write ws : forall arr, Forall (in_bounds (Z.of_nat (length arr))) ws ->
    length (fold_left (write_slice f) ws arr) = length arr /\
    forall k, (k < length arr)%nat ->
      nth k (fold_left (write_slice f) ws arr) d =
      if covered ws (Z.of_nat k) then f (Z.of_nat k) else nth k arr d.
  Proof.
    induction ws as [|s ws IH]; intros arr Hb; cbn [fold_left covered existsb]; [split; reflexivity|].
    inversion Hb as [|? ? Hs Hr]; subst.
    pose proof (write_slice_length arr s Hs) as Hlen.
    destruct (IH (write_slice f arr s)) as [IHl IHn]; [rewrite Hlen; exact Hr|].
    split; [lia|]. intros k Hk. rewrite IHn by lia. rewrite write_slice_nth by assumption.
    fold (covered ws (Z.of_nat k)).
    destruct (covered ws (Z.of_nat k)), (contains (Z.of_nat k) s); reflexivity.
  Qed.

  (* any list of in-bounds writes that covers [0, n) produces the single-process array *)
  Lemma writes_cover_equal n ws : 0 <= n -> Forall (in_bounds n) ws ->
    (forall i, 0 <= i < n -> covered ws i = true) ->
    result_array f d n ws = single_process f n.
  Proof.
    intros Hn Hb Hc. unfold result_array, single_process.
    destruct (fold_write ws (repeat d (Z.to_nat n))) as [Hl Hnth].
    { rewrite repeat_length, Z2Nat.id by lia. exact Hb. }
    rewrite repeat_length in Hl, Hnth.
    apply (nth_ext _ _ d d).
    - rewrite Hl, map_length, zrange_length. f_equal. lia.
    - intros k Hk. rewrite Hl in Hk. rewrite Hnth by exact Hk. rewrite Hc by lia.
      rewrite (nth_indep _ d (f 0)) by (rewrite map_length, zrange_length; lia).
      rewrite map_nth, zrange_nth by lia. reflexivity.
  Qed.
End Arr.

(* a tiling covers every item *)
Lemma ztiles_covered from l to : ztiles from l to -> forall i, from <= i < to -> covered l i = true.
Proof.
  intros Ht i Hi. pose proof (ztiles_hits from l to Ht i) as Hh.
  destruct (Z.leb_spec from i), (Z.ltb_spec i to); try lia. cbn in Hh.
  unfold hits in Hh. unfold covered. apply existsb_exists.
  destruct (filter (contains i) l) as [|s r] eqn:E; [discriminate|].
  assert (In s (filter (contains i) l)) as Hin by (rewrite E; left; reflexivity).
  apply filter_In in Hin. exists s. exact Hin.
Qed.

Lemma covered_perm l l' i : Permutation l l' -> covered l i = true -> covered l' i = true.
Proof.
  unfold covered. intros Hp H. apply existsb_exists in H. destruct H as (s & Hin & Hs).
  apply existsb_exists. exists s. split; [eapply Permutation_in; eassumption|exact Hs].
Qed.

(* list-level statement: the slices of a partition of [0, n), written in any order *)
Lemma partition_writes_equal {V} (f : Z -> V) d n l ws : 0 <= n -> ztiles 0 l n -> Permutation l ws ->
  result_array f d n ws = single_process f n.
Proof.
  intros Hn Ht Hp. apply writes_cover_equal; [exact Hn| |].
  - apply Forall_forall. intros s Hs. apply Permutation_sym in Hp.
    pose proof (Permutation_in _ Hp Hs) as Hin.
    pose proof (ztiles_inside _ _ _ Ht) as Hall. rewrite Forall_forall in Hall. specialize (Hall s Hin).
    unfold in_bounds. lia.
  - intros i Hi. eapply covered_perm; [exact Hp|]. eapply ztiles_covered; eassumption.
Qed.

(* the interleaved system: once all nw workers have returned, the shared array equals the single-process result *)
Lemma mp_equals_sp {V} (f : Z -> V) d c nw sched : wf c -> (1 <= nw)%nat -> workers_below nw sched ->
  all_done nw (run c sched) ->
  result_array f d (n c) (wdone (run c sched)) = single_process f (n c).
Proof.
  intros Hwf Hnw Hb Hall.
  destruct (cover_all_done c nw sched Hwf Hnw Hb Hall) as (_ & _ & Ht).
  destruct (invw_run c sched) as (H1 & H2 & _).
  pose proof (ztiles_inside _ _ _ Ht) as Hins. rewrite Forall_forall in Hins.
  apply writes_cover_equal.
  - destruct Hwf as (_ & ? & _). lia.
  - apply Forall_forall. intros [a b] Hs. specialize (Hins _ (H1 a b Hs)). unfold in_bounds. cbn in *. lia.
  - intros i Hi. pose proof (ztiles_covered _ _ _ Ht i Hi) as Hc.
    unfold covered in *. apply existsb_exists in Hc. destruct Hc as ([a b] & Hin & Hs).
    apply existsb_exists. exists (a, b). split; [|exact Hs].
    destruct (H2 a b Hin) as [Hd|(v & Hv)]; [exact Hd|].
    destruct (Nat.lt_ge_cases v nw) as [Hlt|Hge].
    + rewrite (Hall v Hlt) in Hv. discriminate.
    + unfold run in Hv. rewrite (untouched_idle c nw sched (init c) Hb v Hge) in Hv. discriminate.
Qed.

(* every write is of an emitted slice: nothing outside the handed-out slices is ever written *)
Lemma writes_are_slices c sched : forall a b, In (a, b) (wdone (run c sched)) -> In (a, b) (slices (run c sched)).
Proof. exact (proj1 (invw_run c sched)). Qed.

(* ---------- every handed-out slice is written exactly once ---------- *)
Lemma NoDup_app_intro_one {A} (l : list A) x : NoDup l -> ~ In x l -> NoDup (l ++ [x]).
Proof.
  induction l as [|y l IH]; cbn; intros Hn Hx; [constructor; [intros []|constructor]|].
  inversion Hn as [|? ? Hy Hl]; subst. constructor.
  - rewrite in_app_iff. cbn. intros [H|[H|[]]]; [contradiction|]. apply Hx. left. symmetry. exact H.
  - apply IH; [exact Hl|]. intros H. apply Hx. right. exact H.
Qed.

Lemma ztiles_NoDup from l to : ztiles from l to -> NoDup l.
Proof.
  revert from; induction l as [|[a b] l IH]; cbn; intros from H; [constructor|].
  destruct H as (-> & Hab & H). constructor; [|exact (IH _ H)].
  intros Hin. pose proof (ztiles_inside _ _ _ H) as Hall. rewrite Forall_forall in Hall.
  specialize (Hall _ Hin). cbn in Hall. lia.
Qed.

Definition InvX (s : state) : Prop :=
  NoDup (wdone s) /\
  (forall w a b, pcs s w = PWork a b -> ~ In (a, b) (wdone s)) /\
  (forall w w' a b, pcs s w = PWork a b -> pcs s w' = PWork a b -> w = w').

Lemma invx_init c : InvX (init c).
Proof. unfold InvX, init; cbn. repeat split; [constructor|intros; discriminate|intros; discriminate]. Qed.

Lemma invx_local s w p nd st lk : InvX s ->
  (forall a b, p <> PWork a b) ->
  InvX (mk_state nd st lk (upd (pcs s) w p) (out s) (wdone s)).
Proof.
  intros (H4 & H5 & H6) Hnew. unfold InvX; cbn. repeat split; [exact H4| |].
  - intros v a b Hv. destruct (Nat.eq_dec v w) as [->|Hne];
      [rewrite upd_same in Hv; destruct (Hnew a b Hv)|rewrite upd_other in Hv by exact Hne; exact (H5 v a b Hv)].
  - intros v v' a b Hv Hv'.
    destruct (Nat.eq_dec v w) as [->|Hne]; [rewrite upd_same in Hv; destruct (Hnew a b Hv)|].
    destruct (Nat.eq_dec v' w) as [->|Hne']; [rewrite upd_same in Hv'; destruct (Hnew a b Hv')|].
    rewrite upd_other in Hv, Hv' by assumption. exact (H6 v v' a b Hv Hv').
Qed.

Lemma invx_step c s w : Inv c s -> InvW s -> InvX s -> InvX (step c s w).
Proof.
  intros Hi (W1 & W2 & W3) Hx. unfold step, set_pc. destruct (pcs s w) eqn:Epc.
  - destruct (lock s); [exact Hx|]. apply invx_local; [exact Hx|discriminate].
  - apply invx_local; [exact Hx|discriminate].
  - apply invx_local; [exact Hx|discriminate].
  - destruct (nd =? 0); [|destruct (nd <? chunk_of c nd)]; (apply invx_local; [exact Hx|discriminate]).
  - apply invx_local; [exact Hx|discriminate].
  - (* PRelease: the new slice (s0, s1) was never emitted before *)
    destruct Hi as (e & Ht & He & Hl & _ & Hm).
    assert (lock s = Some w) as El by (apply Hl; rewrite Epc; reflexivity).
    rewrite El, Epc in Hm. destruct Hm as (-> & Hlt & _ & _).
    assert (Hfresh : ~ In (s0, s1) (slices s)).
    { intros Hin. pose proof (ztiles_inside _ _ _ Ht) as Hall. rewrite Forall_forall in Hall.
      specialize (Hall _ Hin). cbn in Hall. lia. }
    destruct Hx as (H4 & H5 & H6). unfold InvX; cbn. repeat split; [exact H4| |].
    + intros v a b Hv. destruct (Nat.eq_dec v w) as [->|Hne].
      * rewrite upd_same in Hv. inversion Hv; subst. intros Hin. apply Hfresh. exact (W1 _ _ Hin).
      * rewrite upd_other in Hv by exact Hne. exact (H5 v a b Hv).
    + intros v v' a b Hv Hv'.
      destruct (Nat.eq_dec v w) as [->|Hne]; destruct (Nat.eq_dec v' w) as [->|Hne']; try reflexivity.
      * rewrite upd_same in Hv. inversion Hv; subst. rewrite upd_other in Hv' by exact Hne'.
        destruct (Hfresh (W3 v' _ _ Hv')).
      * rewrite upd_same in Hv'. inversion Hv'; subst. rewrite upd_other in Hv by exact Hne.
        destruct (Hfresh (W3 v _ _ Hv)).
      * rewrite upd_other in Hv, Hv' by assumption. exact (H6 v v' a b Hv Hv').
  - (* PWork: the pending slice is written, for the first time *)
    destruct Hx as (H4 & H5 & H6). unfold InvX; cbn. repeat split.
    + apply NoDup_app_intro_one; [exact H4|exact (H5 w s0 s1 Epc)].
    + intros v a b Hv. destruct (Nat.eq_dec v w) as [->|Hne]; [rewrite upd_same in Hv; discriminate|].
      rewrite upd_other in Hv by exact Hne. intros Hin. apply in_app_or in Hin. destruct Hin as [Hin|[Heq|[]]].
      * exact (H5 v a b Hv Hin).
      * inversion Heq; subst. apply Hne. exact (H6 v w a b Hv Epc).
    + intros v v' a b Hv Hv'.
      destruct (Nat.eq_dec v w) as [->|Hne]; [rewrite upd_same in Hv; discriminate|].
      destruct (Nat.eq_dec v' w) as [->|Hne']; [rewrite upd_same in Hv'; discriminate|].
      rewrite upd_other in Hv, Hv' by assumption. exact (H6 v v' a b Hv Hv').
  - exact Hx.
Qed.

Lemma invx_run c sched : wf c -> InvX (run c sched).
Proof.
  intros Hwf. unfold run, run_from.
  assert (H : Inv c (init c) /\ InvW (init c) /\ InvX (init c))
    by (split; [apply inv_init; exact Hwf|split; [apply invw_init|apply invx_init]]).
  revert H. generalize (init c).
  induction sched as [|w sched IH]; cbn; intros s (Hi & Hw & Hx); [exact Hx|].
  apply IH. split; [apply inv_step; assumption|split; [apply invw_step; exact Hw|apply invx_step; assumption]].
Qed.

(* once the nw workers have returned, the completed writes are a permutation of the handed-out slices *)
Lemma writes_exactly_once c nw sched : wf c -> (1 <= nw)%nat -> workers_below nw sched ->
  all_done nw (run c sched) -> Permutation (slices (run c sched)) (wdone (run c sched)).
Proof.
  intros Hwf Hnw Hb Hall.
  destruct (cover_all_done c nw sched Hwf Hnw Hb Hall) as (_ & _ & Ht).
  destruct (invw_run c sched) as (H1 & H2 & _). destruct (invx_run c sched Hwf) as (H4 & _ & _).
  apply NoDup_Permutation; [exact (ztiles_NoDup _ _ _ Ht)|exact H4|].
  intros [a b]. split; [|apply H1].
  intros Hin. destruct (H2 a b Hin) as [Hd|(v & Hv)]; [exact Hd|].
  destruct (Nat.lt_ge_cases v nw) as [Hlt|Hge].
  - rewrite (Hall v Hlt) in Hv. discriminate.
  - unfold run in Hv. rewrite (untouched_idle c nw sched (init c) Hb v Hge) in Hv. discriminate.
Qed.
