(* C18: the area's fractional array coordinates as REGENERATED from geometry.py on every run
   (Gen/GenC18.v) are the hand model of Model/Grid.v that the index theorems are about. *)
From Coq Require Import Reals ZArith Lra Lia Bool.
From PR Require Import Base.Num Base.RNum Base.F64 Model.Grid Model.CellIndex Gen.GenC18 Proofs.Grid_real.
Open Scope R_scope.

Lemma gen_array_coordinates_R a x y : wf_area a ->
  gen_array_coordinates_from_projection_coordinates RO a x y = (arr_of_proj_x RO a x, arr_of_proj_y RO a y).
Proof.
  intros H. pose proof (dx_nonzero a H) as Dx. pose proof (dy_nonzero a H) as Dy.
  first
    [ reflexivity
    | unfold gen_array_coordinates_from_projection_coordinates, gen_get_corner_and_scale,
        arr_of_proj_x, arr_of_proj_y, xscale, yscale, upl_x, upl_y; rewrite ?psx_eq, ?psy_eq; cbn;
      f_equal; field; first [assumption | lra | (split; assumption)] ].
Qed.

(* masked_ints applied to the regenerated coordinates is the modelled area index lookup *)
Lemma area_cell_of_source a x y : wf_area a ->
  area_cell RO a x y =
  (let '(cf, rf) := gen_array_coordinates_from_projection_coordinates RO a x y in
   if mi_mask RO (width a) cf || mi_mask RO (height a) rf then None
   else Some (mi_index RO (height a) rf, mi_index RO (width a) cf)).
Proof. intros H. rewrite gen_array_coordinates_R by exact H. reflexivity. Qed.

(* ---------------------------------------------------------------- the element-wise index recipes, regenerated from
   grid.py, geo_filter.py, bucket/__init__.py, geometry.py (masked_ints), utils/__init__.py and ewa/ewa.py, are the
   hand models of Model/CellIndex.v -- for EVERY arithmetic (so also for the binary64 instance the correspondence runs) *)
Open Scope Z_scope.
Lemma geb_leb0 x : (x >=? 0) = (0 <=? x). Proof. apply Z.geb_leb. Qed.

Section Generic.
  Context {T : Type} (OP : ops T).

  (* grid.get_linesample *)
  Lemma gen_get_linesample_char a x y : gen_get_linesample OP a x y = (grid_row OP a y, grid_col OP a x).
  Proof. reflexivity. Qed.

  (* grid.get_image_from_linesample: row_mask * col_mask is the validity test of cell_of *)
  Lemma gen_linesample_masks_char (a : area T) r c :
    gen_linesample_masks r c a = (in_range (height a) r, in_range (width a) c).
  Proof. unfold gen_linesample_masks, in_range. cbv zeta beta. rewrite !geb_leb0. reflexivity. Qed.

  (* GridFilter.get_valid_index: indices (zeroed where invalid) and validity flags *)
  Lemma gen_gridfilter_index_char a x y :
    gen_gridfilter_index OP a x y =
    (let r := gf_row_with OP (floorZ OP) a y in let c := gf_col_with OP (floorZ OP) a x in
     ((if in_range (height a) r then r else 0), (if in_range (width a) c then c else 0), in_range (height a) r, in_range (width a) c)).
  Proof.
    unfold gen_gridfilter_index, gf_row_with, gf_col_with, in_range. cbv zeta beta. rewrite !geb_leb0.
    set (r := to_int OP 32 _ (sub _ _ _)). set (c := to_int OP 32 _ (add _ _ _)).
    destruct ((0 <=? r) && (r <? height a)); destruct ((0 <=? c) && (c <? width a)); reflexivity.
  Qed.

  (* BucketResampler._get_indices *)
  Lemma gen_bucket_indices_char a x y : gen_bucket_indices OP a x y = bk_xy OP a x y.
  Proof.
    unfold gen_bucket_indices, bk_xy, bk_cell, cell_of, bk_row, bk_col, in_range. cbv zeta beta iota. rewrite !geb_leb0.
    set (r := to_int OP 64 _ (div _ (sub _ (ymax a) y) _)). set (c := to_int OP 64 _ (div _ (sub _ x (xmin a)) _)).
    destruct (0 <=? c); destruct (c <? width a); destruct (0 <=? r); destruct (r <? height a); reflexivity.
  Qed.

  (* geometry.masked_ints *)
  Lemma gen_masked_ints_char a cf rf :
    gen_masked_ints OP a cf rf = (mi_mask OP (width a) cf, mi_index OP (width a) cf, mi_mask OP (height a) rf, mi_index OP (height a) rf).
  Proof. reflexivity. Qed.
End Generic.

(* utils._downcast_index_array *)
Lemma gen_downcast_char idx size : gen_downcast_index_array idx size = downcast size idx.
Proof.
  unfold gen_downcast_index_array, downcast, downcast_with, uint16_max. cbv zeta beta. rewrite Z.geb_leb. reflexivity.
Qed.

(* ewa.ll2cr: the parameters handed to ll2cr_static *)
Lemma two_R : lit RO 2 0 = ofZ RO 2. Proof. cbn. lra. Qed.
Lemma two_F : lit F64 2 0 = ofZ F64 2. Proof. vm_compute. reflexivity. Qed.
Lemma gen_ll2cr_params_R (a : area R) :
  gen_ll2cr_params RO a = (ll_cw RO a, ll_ch RO a, width a, height a, ll_ox RO a, ll_oy RO a).
Proof. unfold gen_ll2cr_params, ll_ox, ll_oy, ll_cw, ll_ch. cbv zeta beta iota. rewrite two_R. reflexivity. Qed.
Lemma gen_ll2cr_params_F (a : area PrimFloat.float) :
  gen_ll2cr_params F64 a = (ll_cw F64 a, ll_ch F64 a, width a, height a, ll_ox F64 a, ll_oy F64 a).
Proof. unfold gen_ll2cr_params, ll_ox, ll_oy, ll_cw, ll_ch. cbv zeta beta iota. rewrite two_F. reflexivity. Qed.
