(* C18: the area's fractional array coordinates as REGENERATED from geometry.py on every run
   (Gen/GenC18.v) are the hand model of Model/Grid.v that the index theorems are about. *)
From Coq Require Import Reals ZArith Lra Lia Bool.
From PR Require Import Base.Num Base.RNum Model.Grid Model.CellIndex Gen.GenC18 Proofs.Grid_real.
Open Scope R_scope.

Lemma gen_array_coordinates_R a x y : wf_area a ->
  gen_array_coordinates_from_projection_coordinates RO a x y = (arr_of_proj_x RO a x, arr_of_proj_y RO a y).
Proof.
  intros H. pose proof (dx_nonzero a H) as Dx. pose proof (dy_nonzero a H) as Dy.
  first
    [ reflexivity
    | unfold gen_array_coordinates_from_projection_coordinates, gen_get_corner_and_scale,
        arr_of_proj_x, arr_of_proj_y, xscale, yscale, upl_x, upl_y; rewrite ?psx_eq, ?psy_eq; cbn;
      f_equal; field; first [assumption | lra | (split; assumption)] ].
Qed.

(* masked_ints applied to the regenerated coordinates is the modelled area index lookup *)
Lemma area_cell_of_source a x y : wf_area a ->
  area_cell RO a x y =
  (let '(cf, rf) := gen_array_coordinates_from_projection_coordinates RO a x y in
   if mi_mask RO (width a) cf || mi_mask RO (height a) rf then None
   else Some (mi_index RO (height a) rf, mi_index RO (width a) cf)).
Proof. intros H. rewrite gen_array_coordinates_R by exact H. reflexivity. Qed.
