(* C10 -- the dask path of the stacked get_lonlats equals the numpy path for every per-member chunking. *)
From Coq Require Import ZArith List Lia Bool.
From PR Require Import Base.Num Base.ZX Base.Slice Model.Grid Model.Partition Model.SliceArea Model.Stack Model.LonlatPaths
     Model.StackDask Proofs.C10_list Proofs.C10_paths.
Import ListNotations.
Open Scope Z_scope.

Section StackDaskProofs.
  Context {T C : Type} (OP : ops T) (inv : T -> T -> C).
  Lemma stacked_rows_dask_eq rs cs defs : forall chs offset, Forall2 tiling defs chs ->
    stacked_rows_dask OP inv rs cs offset defs chs = stacked_rows OP inv rs cs offset defs.
  Proof.
    induction defs as [|d dr IH]; intros chs offset H; inversion H as [|? [cy cx] ? cr Ht Hr]; subst;
      cbn [stacked_rows_dask stacked_rows]; [reflexivity|].
    destruct Ht as (Hy & Hx & Sy & Sx); cbn [fst snd] in *.
    rewrite (IH cr _ Hr). f_equal.
    rewrite (dask_grid_eq OP inv (g_area d) cy cx Hy Hx Sy Sx). unfold area_lonlats. symmetry. apply grid_slice_commute.
  Qed.
End StackDaskProofs.
