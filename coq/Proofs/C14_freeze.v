(* C14: the frozen area contains every valid projected point and maps it to a valid pixel. *)
From Coq Require Import Reals ZArith Lra Lia List Bool.
From Flocq Require Import Zaux Raux Generic_fmt Round_NE.
From PR Require Import Base.Num Base.RNum Model.Grid Model.DynBase Gen.GenC14 Model.Dynamic
     Proofs.Grid_real Proofs.C14_lists Proofs.C14_domain.
Import ListNotations.
Open Scope R_scope.

(* ------------------------------------------------------------------ the area's own index function (masked_ints) *)
Lemma half_R : half RO = / 2.
Proof. unfold half; cbn. lra. Qed.
Lemma eps_idx_pos : 0 < eps_idx RO.
Proof.
  unfold eps_idx; cbn [lit RO]. apply Rmult_lt_0_compat; [apply (IZR_lt 0); lia | apply bpow_gt_0].
Qed.

Lemma masked_index_valid c n : (1 <= n)%Z -> - / 2 <= c <= IZR n - / 2 ->
  exists i, masked_index RO c n = Some i /\ (0 <= i < n)%Z.
Proof.
  intros Hn [Hlo Hhi]. unfold masked_index. cbn [ltb sub neg add ofZ rintZ RO]. rewrite half_R.
  pose proof eps_idx_pos as He.
  assert (Rltb c (- / 2 - eps_idx RO) = false) as -> by (apply Rltb_false; lra).
  assert (Rltb (IZR n - / 2 + eps_idx RO) c = false) as -> by (apply Rltb_false; lra).
  cbn [orb isnan RO]. eexists; split; [reflexivity|].
  set (v := clipf RO c 0 (IZR (n - 1))).
  assert (Hv : 0 <= v <= IZR (n - 1)).
  { unfold v, clipf, fmin, fmax. cbn [ltb RO]. assert (0 <= IZR (n - 1)) by (apply (IZR_le 0); lia).
    destruct (Rltb c 0) eqn:E1; [apply Rltb_true in E1 | apply Rltb_false in E1].
    - destruct (Rltb (IZR (n - 1)) 0) eqn:E2; [apply Rltb_true in E2 | apply Rltb_false in E2]; lra.
    - destruct (Rltb (IZR (n - 1)) c) eqn:E2; [apply Rltb_true in E2 | apply Rltb_false in E2]; lra. }
  pose proof (Znearest_ge_floor (fun x => negb (Z.even x)) v) as F.
  pose proof (Znearest_le_ceil (fun x => negb (Z.even x)) v) as C.
  assert (0 <= Zfloor v)%Z by (rewrite <- (Zfloor_IZR 0); apply Zfloor_le; lra).
  assert (Zceil v <= n - 1)%Z by (rewrite <- (Zceil_IZR (n - 1)); apply Zceil_le; lra).
  lia.
Qed.

Definition pos_area (a : area R) : Prop := (1 <= width a)%Z /\ (1 <= height a)%Z /\ xmin a < xmax a /\ ymin a < ymax a.
Lemma pos_area_wf a : pos_area a -> wf_area a.
Proof. intros (?&?&?&?). repeat split; auto; lra. Qed.
Lemma dx_pos a : pos_area a -> 0 < dxR a.
Proof. intros (Hw&_&Hx&_). unfold dxR. apply Rdiv_lt_0_compat; [lra | apply IZR_pos_of, Hw]. Qed.
Lemma dy_pos a : pos_area a -> 0 < dyR a.
Proof. intros (_&Hh&_&Hy). unfold dyR. apply Rdiv_lt_0_compat; [lra | apply IZR_pos_of, Hh]. Qed.

Lemma index_x_valid a x : pos_area a -> xmin a <= x <= xmax a ->
  exists i, index_x RO a x = Some i /\ (0 <= i < width a)%Z.
Proof.
  intros Ha Hx. unfold index_x. rewrite arr_of_proj_x_canonical by (apply pos_area_wf, Ha).
  pose proof (dx_pos a Ha) as Hd. destruct Ha as (Hw&_&_&_). pose proof (IZR_pos_of _ Hw).
  apply masked_index_valid; [assumption|].
  assert (E : xmax a - xmin a = IZR (width a) * dxR a) by (unfold dxR; field; lra).
  split.
  - assert (0 <= (x - xmin a) / dxR a) by (apply Rmult_le_pos; [lra | left; apply Rinv_0_lt_compat, Hd]). lra.
  - assert ((x - xmin a) / dxR a <= IZR (width a)); [|lra].
    apply Rmult_le_reg_r with (dxR a); [assumption|]. replace ((x - xmin a) / dxR a * dxR a) with (x - xmin a) by (field; lra). lra.
Qed.
Lemma index_y_valid a y : pos_area a -> ymin a <= y <= ymax a ->
  exists j, index_y RO a y = Some j /\ (0 <= j < height a)%Z.
Proof.
  intros Ha Hy. unfold index_y. rewrite arr_of_proj_y_canonical by (apply pos_area_wf, Ha).
  pose proof (dy_pos a Ha) as Hd. destruct Ha as (_&Hh&_&_). pose proof (IZR_pos_of _ Hh).
  apply masked_index_valid; [assumption|].
  assert (E : ymax a - ymin a = IZR (height a) * dyR a) by (unfold dyR; field; lra).
  split.
  - assert (0 <= (ymax a - y) / dyR a) by (apply Rmult_le_pos; [lra | left; apply Rinv_0_lt_compat, Hd]). lra.
  - assert ((ymax a - y) / dyR a <= IZR (height a)); [|lra].
    apply Rmult_le_reg_r with (dyR a); [assumption|]. replace ((ymax a - y) / dyR a * dyR a) with (ymax a - y) by (field; lra). lra.
Qed.

(* the canonical cell (floor of the scaled offset) of a point strictly inside the extent *)
Definition cell_x (a : area R) (x : R) : Z := Zfloor ((x - xmin a) / dxR a).
Definition cell_y (a : area R) (y : R) : Z := Zfloor ((ymax a - y) / dyR a).
Lemma cell_x_valid a x : pos_area a -> xmin a <= x < xmax a -> (0 <= cell_x a x < width a)%Z.
Proof.
  intros Ha Hx. pose proof (dx_pos a Ha) as Hd. destruct Ha as (Hw&_&_&_). pose proof (IZR_pos_of _ Hw).
  assert (E : xmax a - xmin a = IZR (width a) * dxR a) by (unfold dxR; field; lra).
  destruct (proj1 (floor_cell x (xmin a) (dxR a) (cell_x a x) Hd) eq_refl) as [L U].
  split.
  - assert (-1 < IZR (cell_x a x)) as P. { apply Rmult_lt_reg_r with (dxR a); [assumption|]. lra. }
    apply lt_IZR in P. lia.
  - apply lt_IZR. apply Rmult_lt_reg_r with (dxR a); [assumption|]. lra.
Qed.
Lemma cell_y_valid a y : pos_area a -> ymin a < y <= ymax a -> (0 <= cell_y a y < height a)%Z.
Proof.
  intros Ha Hy. pose proof (dy_pos a Ha) as Hd. destruct Ha as (_&Hh&_&_). pose proof (IZR_pos_of _ Hh).
  assert (E : ymax a - ymin a = IZR (height a) * dyR a) by (unfold dyR; field; lra).
  unfold cell_y. replace ((ymax a - y) / dyR a) with ((ymax a - y - 0) / dyR a) by (f_equal; lra).
  destruct (proj1 (floor_cell (ymax a - y) 0 (dyR a) _ Hd) eq_refl) as [L U].
  set (c := Zfloor ((ymax a - y - 0) / dyR a)) in *.
  split.
  - assert (-1 < IZR c) as P. { apply Rmult_lt_reg_r with (dyR a); [assumption|]. lra. }
    apply lt_IZR in P. lia.
  - apply lt_IZR. apply Rmult_lt_reg_r with (dyR a); [assumption|]. lra.
Qed.

(* ------------------------------------------------------------------ compute_domain (dispatch level) *)
Definition res_pos (r : resarg R) : Prop :=
  match r with RNone => True | RScalar v => 0 < v | RPair a b => 0 < a /\ 0 < b end.
Definition shape_pos (s : option (Z * Z)) : Prop :=
  match s with Some (h, w) => (1 <= w)%Z /\ (1 <= h)%Z | None => True end.

Lemma fin4_R c : fin4 RO c = true.
Proof. destruct c as [[[? ?] ?] ?]. reflexivity. Qed.

Lemma compute_domain_contains xc y0 y1 res shape aou e w h :
  y0 <= y1 -> res_pos res -> shape_pos shape -> aou_west aou < aou_east aou ->
  match xc with Some (a, b) => a <= b | None => True end ->
  compute_domain RO xc y0 y1 res shape aou = Some (e, w, h) ->
  let '(x0, ymn, x1, ymx) := e in
  (1 <= w)%Z /\ (1 <= h)%Z /\ x0 < x1 /\ ymn < y0 /\ y1 < ymx /\
  match xc with Some (a, b) => x0 < a /\ b < x1 | None => x0 <= aou_west aou /\ aou_east aou <= x1 end /\
  match shape with Some (h', w') => w = w' /\ h = h' | None => True end.
Proof.
  intros Hy Hr Hs HA Hx. unfold compute_domain.
  destruct xc as [[a b]|].
  - destruct res as [|r|rx ry]; destruct shape as [[h' w']|]; cbn [res_pos shape_pos] in *;
      rewrite ?fin4_R; try (rewrite gen_cd_both_none; discriminate); try (rewrite gen_cd_neither_none; discriminate).
    + (* shape *) rewrite gen_cd_shape_char.
      destruct (Req_dec a b) as [Eab|Nab]; destruct (Req_dec y0 y1) as [Ey|Ny].
      * subst. rewrite cd_shape_point. discriminate.
      * destruct (cd_shape_some a y0 b y1 w' h' Hx Hy ltac:(right; lra)) as (rx & ry & Px & Py & E & _).
        rewrite E. intros I; inversion I; subst. repeat split; try lra; lia.
      * destruct (cd_shape_some a y0 b y1 w' h' Hx Hy ltac:(left; lra)) as (rx & ry & Px & Py & E & _).
        rewrite E. intros I; inversion I; subst. repeat split; try lra; lia.
      * destruct (cd_shape_some a y0 b y1 w' h' Hx Hy ltac:(left; lra)) as (rx & ry & Px & Py & E & _).
        rewrite E. intros I; inversion I; subst. repeat split; try lra; lia.
    + (* scalar resolution *) rewrite gen_cd_res_scalar_char, cd_res_spec by assumption.
      intros I; inversion I; subst.
      pose proof (kfloor_lt a r Hr). pose proof (kceil_gt b r Hr). pose proof (kfloor_lt y0 r Hr). pose proof (kceil_gt y1 r Hr).
      pose proof (kfloor_lt_kceil a b r Hr Hx). pose proof (kfloor_lt_kceil y0 y1 r Hr Hy).
      repeat split; try lra; lia.
    + (* pair resolution *) destruct Hr as [Hrx Hry]. rewrite gen_cd_res_char, cd_res_spec by assumption.
      intros I; inversion I; subst.
      pose proof (kfloor_lt a rx Hrx). pose proof (kceil_gt b rx Hrx). pose proof (kfloor_lt y0 ry Hry). pose proof (kceil_gt y1 ry Hry).
      pose proof (kfloor_lt_kceil a b rx Hrx Hx). pose proof (kfloor_lt_kceil y0 y1 ry Hry Hy).
      repeat split; try lra; lia.
  - destruct res as [|r|rx ry]; destruct shape as [[h' w']|]; cbn [res_pos shape_pos isfinite RO andb] in *; try discriminate.
    + (* shape, full x extent *) rewrite gen_cd_shape_glob_char. destruct Hs as [Hw' Hh'].
      pose proof (ucfe_shape_extent (aou_west aou) (aou_east aou) w' Hw' HA) as U.
      destruct (ucfe_shape_clean (aou_west aou) (aou_east aou) w') as [a b]. cbn [fst snd]. destruct U as (Hab & UW & UE).
      destruct (cd_shape_some a y0 b y1 w' h' ltac:(lra) Hy ltac:(left; lra)) as (rx & ry & Px & Py & E & Rx & _).
      rewrite E. intros I; inversion I; subst. rewrite Rx in * by assumption. repeat split; try lra; lia.
    + (* scalar resolution, full x extent *) rewrite gen_cd_res_scalar_glob_char. unfold ucfe_res_clean; cbn [fst snd].
      rewrite cd_res_spec by assumption. intros I; inversion I; subst.
      destruct (ucfe_res_bounds (aou_west aou) (aou_east aou) r Hr HA) as (B1 & B2 & B3).
      pose proof (kfloor_lt y0 r Hr). pose proof (kceil_gt y1 r Hr). pose proof (kfloor_lt_kceil y0 y1 r Hr Hy).
      assert (IZR (kfloor (aou_west aou + r / 2) r) * r < IZR (kceil (aou_east aou - r / 2) r) * r)
        by (apply Rmult_lt_compat_r; [lra | apply IZR_lt; lia]).
      repeat split; try lra; lia.
    + destruct Hr as [Hrx Hry]. rewrite gen_cd_res_glob_char. unfold ucfe_res_clean; cbn [fst snd].
      rewrite cd_res_spec by assumption. intros I; inversion I; subst.
      destruct (ucfe_res_bounds (aou_west aou) (aou_east aou) rx Hrx HA) as (B1 & B2 & B3).
      pose proof (kfloor_lt y0 ry Hry). pose proof (kceil_gt y1 ry Hry). pose proof (kfloor_lt_kceil y0 y1 ry Hry Hy).
      assert (IZR (kfloor (aou_west aou + rx / 2) rx) * rx < IZR (kceil (aou_east aou - rx / 2) rx) * rx)
        by (apply Rmult_lt_compat_r; [lra | apply IZR_lt; lia]).
      repeat split; try lra; lia.
Qed.

(* ------------------------------------------------------------------ freeze *)
(* closed containment + the area's own index function gives a valid pixel *)
Definition inside (a : area R) (x y : R) : Prop :=
  xmin a <= x <= xmax a /\ ymin a <= y <= ymax a /\
  exists i j, index_x RO a x = Some i /\ index_y RO a y = Some j /\ (0 <= i < width a)%Z /\ (0 <= j < height a)%Z.
(* strict containment + the canonical floor cell is a valid pixel *)
Definition strictly_inside (a : area R) (x y : R) : Prop :=
  xmin a < x < xmax a /\ ymin a < y < ymax a /\ (0 <= cell_x a x < width a)%Z /\ (0 <= cell_y a y < height a)%Z.

Lemma inside_of_bounds a x y : pos_area a -> xmin a <= x <= xmax a -> ymin a <= y <= ymax a -> inside a x y.
Proof.
  intros Ha Hx Hy. destruct (index_x_valid a x Ha Hx) as (i & Ei & Hi). destruct (index_y_valid a y Ha Hy) as (j & Ej & Hj).
  split; [assumption|]. split; [assumption|]. exists i, j. auto.
Qed.
Lemma strictly_inside_of_bounds a x y : pos_area a -> xmin a < x < xmax a -> ymin a < y < ymax a -> strictly_inside a x y.
Proof.
  intros Ha Hx Hy. split; [assumption|]. split; [assumption|]. split; [apply cell_x_valid | apply cell_y_valid]; auto; lra.
Qed.

Theorem freeze_contains_points d fres fshape geo mode aou pts fr :
  explicit_area d fshape = None ->
  valid_pts pts -> res_pos (eff_res d fres) -> shape_pos (eff_shape d fshape) ->
  aou_west aou < aou_east aou ->
  (geo = true -> mode = MGlobal -> Forall (fun p => aou_west aou <= fst p <= aou_east aou) pts) ->
  freeze RO wrapR d fres fshape geo mode aou pts = Some fr ->
  pos_area (f_area fr) /\
  (geo = false -> f_pm180 fr = false) /\
  forall p, In p pts -> exists x' (k : Z),
    x' = fst p - (if f_pm180 fr then 180 else 0) + 360 * IZR k /\ (geo = false -> x' = fst p) /\
    inside (f_area fr) x' (snd p) /\
    (~ (geo = true /\ mode = MGlobal) -> strictly_inside (f_area fr) x' (snd p)) /\
    x' = frozen_x geo mode pts (fst p).
Proof.
  intros Hex Hv Hr Hs HA HG. unfold freeze. rewrite Hex.
  destruct (bound_centers RO wrapR geo mode pts) as [[[pm xc] y0] y1] eqn:B.
  destruct (bound_centers_spec geo mode pts pm xc y0 y1 Hv B) as (Hy & HY & HX & Hpm & _).
  destruct (compute_domain RO xc y0 y1 (eff_res d fres) (eff_shape d fshape) aou) as [[[[[[x0 ymn] x1] ymx] w] h]|] eqn:C; [|discriminate].
  intros I; inversion I; subst fr; clear I. cbn [f_area f_pm180].
  assert (Hxc : match xc with Some (a, b) => a <= b | None => True end) by (destruct xc as [[a b]|]; [apply HX | exact I]).
  pose proof (compute_domain_contains xc y0 y1 _ _ aou _ w h Hy Hr Hs HA Hxc C) as (Hw & Hh & Hx01 & Hy0 & Hy1 & HXC & _).
  assert (Ha : pos_area (mk_area x0 ymn x1 ymx w h)) by (repeat split; cbn; auto; lra).
  split; [exact Ha|]. split; [exact Hpm|]. intros p Hp. specialize (HY p Hp).
  destruct xc as [[a b]|].
  - destruct HX as [_ HX]. destruct (HX p Hp) as (x' & k & Ex & Hab & Hg & Hf). exists x', k.
    split; [exact Ex|]. split; [exact Hg|]. split; [|split; [|exact Hf]].
    + apply inside_of_bounds; cbn; auto; lra.
    + intros _. apply strictly_inside_of_bounds; cbn; auto; lra.
  - destruct HX as (Hg & Hm & Hp0). subst pm. exists (fst p), 0%Z.
    split; [lra|]. split; [reflexivity|].
    pose proof (proj1 (Forall_forall _ _) (HG Hg Hm) p Hp) as Hin. cbn beta in Hin. split; [|split].
    + apply inside_of_bounds; cbn; auto; lra.
    + intros N. exfalso. apply N. auto.
    + unfold frozen_x. subst mode. destruct (antimeridian_branch geo pts); reflexivity.
Qed.

(* explicit extent and size are kept; no data is looked at *)
Theorem freeze_explicit_kept d fres fshape geo mode aou pts a :
  explicit_area d fshape = Some a -> freeze RO wrapR d fres fshape geo mode aou pts = Some (mk_frozen a false).
Proof. intros E. unfold freeze. rewrite E. reflexivity. Qed.
Lemma explicit_area_given (d : dyn R) fshape x0 y0 x1 y1 w h :
  d_extent d = Some (x0, y0, x1, y1) -> eff_hw d fshape = (Some h, Some w) -> w <> 0%Z -> h <> 0%Z ->
  explicit_area d fshape = Some (mk_area x0 y0 x1 y1 w h).
Proof.
  intros E S Hw Hh. unfold explicit_area. rewrite S, E. cbn [truthy].
  destruct (Z.eqb_spec w 0); [contradiction|]. destruct (Z.eqb_spec h 0); [contradiction|]. reflexivity.
Qed.
(* a requested shape is the shape of the result *)
Theorem freeze_shape_kept d fres fshape geo mode aou pts fr h w :
  explicit_area d fshape = None -> eff_shape d fshape = Some (h, w) ->
  freeze RO wrapR d fres fshape geo mode aou pts = Some fr -> width (f_area fr) = w /\ height (f_area fr) = h.
Proof.
  intros Hex Hs. unfold freeze. rewrite Hex, Hs.
  destruct (bound_centers RO wrapR geo mode pts) as [[[pm xc] y0] y1].
  unfold compute_domain.
  destruct xc as [[a b]|]; destruct (eff_res d fres) as [|r|rx ry]; try discriminate;
    rewrite ?gen_cd_both_none; try discriminate.
  - rewrite gen_cd_shape_char. unfold cd_shape_clean. destruct (_ && _); [discriminate|].
    intros I; inversion I; subst. cbn. auto.
  - rewrite gen_cd_shape_glob_char. unfold cd_shape_clean. destruct (_ && _); [discriminate|].
    intros I; inversion I; subst. cbn. auto.
Qed.

(* ------------------------------------------------------------------ resolution honoured exactly, extents aligned *)
Definition res_xy (r : resarg R) : option (R * R) :=
  match r with RNone => None | RScalar v => Some (v, v) | RPair a b => Some (a, b) end.

Lemma compute_domain_res_aligned xc y0 y1 res rx ry aou e w h :
  res_xy res = Some (rx, ry) -> 0 < rx -> 0 < ry -> y0 <= y1 -> aou_west aou < aou_east aou ->
  match xc with Some (a, b) => a <= b | None => True end ->
  compute_domain RO xc y0 y1 res None aou = Some (e, w, h) ->
  exists k0 k1 k2 k3 : Z, e = (IZR k0 * rx, IZR k1 * ry, IZR k2 * rx, IZR k3 * ry) /\
    w = (k2 - k0)%Z /\ h = (k3 - k1)%Z /\ (k0 < k2)%Z /\ (k1 < k3)%Z.
Proof.
  intros Er Hrx Hry Hy HA Hx. unfold compute_domain.
  destruct xc as [[a b]|]; destruct res as [|r|rx' ry']; cbn [res_xy] in Er; inversion Er; subst;
    rewrite ?fin4_R; cbn [isfinite RO andb];
    rewrite ?gen_cd_res_scalar_char, ?gen_cd_res_char, ?gen_cd_res_scalar_glob_char, ?gen_cd_res_glob_char;
    unfold ucfe_res_clean; cbn [fst snd]; rewrite cd_res_spec by assumption; intros I; inversion I; subst;
    do 4 eexists; (split; [reflexivity|]); (split; [reflexivity|]); (split; [reflexivity|]);
    (split; [| apply kfloor_lt_kceil; assumption]);
    try (apply kfloor_lt_kceil; assumption); first [apply (ucfe_res_bounds _ _ _ Hrx HA) | apply (ucfe_res_bounds _ _ _ Hry HA)].
Qed.

Theorem freeze_resolution_exact_aligned d fres fshape geo mode aou pts fr rx ry :
  explicit_area d fshape = None -> eff_shape d fshape = None -> res_xy (eff_res d fres) = Some (rx, ry) ->
  0 < rx -> 0 < ry -> valid_pts pts -> aou_west aou < aou_east aou ->
  freeze RO wrapR d fres fshape geo mode aou pts = Some fr ->
  let a := f_area fr in
  (exists k0 k1 k2 k3 : Z,
      xmin a = IZR k0 * rx /\ ymin a = IZR k1 * ry /\ xmax a = IZR k2 * rx /\ ymax a = IZR k3 * ry /\
      width a = (k2 - k0)%Z /\ height a = (k3 - k1)%Z) /\
  pixel_size_x RO a = rx /\ pixel_size_y RO a = ry.
Proof.
  intros Hex Hs Er Hrx Hry Hv HA. unfold freeze. rewrite Hex, Hs.
  destruct (bound_centers RO wrapR geo mode pts) as [[[pm xc] y0] y1] eqn:B.
  destruct (bound_centers_spec geo mode pts pm xc y0 y1 Hv B) as (Hy & _ & HX & _).
  assert (Hxc : match xc with Some (a, b) => a <= b | None => True end) by (destruct xc as [[a b]|]; [apply HX | exact I]).
  destruct (compute_domain RO xc y0 y1 (eff_res d fres) None aou) as [[[e w] h]|] eqn:C; [|discriminate].
  destruct (compute_domain_res_aligned xc y0 y1 _ rx ry aou e w h Er Hrx Hry Hy HA Hxc C) as (k0 & k1 & k2 & k3 & -> & -> & -> & H02 & H13).
  intros I; inversion I; subst fr; clear I. cbn [f_area xmin ymin xmax ymax width height].
  split; [exists k0, k1, k2, k3; repeat split; reflexivity|].
  unfold pixel_size_x, pixel_size_y. cbn [div sub ofZ RO xmin ymin xmax ymax width height]. rewrite !minus_IZR.
  assert (IZR k0 < IZR k2) by (apply IZR_lt; assumption). assert (IZR k1 < IZR k3) by (apply IZR_lt; assumption).
  split; field; lra.
Qed.

(* ------------------------------------------------------------------ shape honoured exactly, outermost points on outermost pixel centres *)
Theorem freeze_shape_exact_centres d fres fshape geo mode aou pts fr h w pm a b y0 y1 :
  explicit_area d fshape = None -> eff_shape d fshape = Some (h, w) -> eff_res d fres = RNone ->
  (2 <= w)%Z -> (2 <= h)%Z ->
  bound_centers RO wrapR geo mode pts = (pm, Some (a, b), y0, y1) -> a < b -> y0 < y1 ->
  freeze RO wrapR d fres fshape geo mode aou pts = Some fr ->
  let ar := f_area fr in
  width ar = w /\ height ar = h /\
  proj_x RO ar 0 = a /\ proj_x RO ar (w - 1) = b /\ proj_y RO ar 0 = y1 /\ proj_y RO ar (h - 1) = y0 /\
  pixel_size_x RO ar = (b - a) / IZR (w - 1) /\ pixel_size_y RO ar = (y1 - y0) / IZR (h - 1).
Proof.
  intros Hex Hs Er Hw Hh B Hab Hy. unfold freeze. rewrite Hex, Hs, Er, B. unfold compute_domain.
  rewrite gen_cd_shape_char.
  destruct (cd_shape_some a y0 b y1 w h ltac:(lra) ltac:(lra) ltac:(left; lra)) as (rx & ry & Px & Py & E & Rx & Ry).
  rewrite E. intros I; inversion I; subst fr; clear I. cbn [f_area].
  rewrite (Rx Hab), (Ry Hy) in *. clear Rx Ry E.
  split; [reflexivity|]. split; [reflexivity|].
  rewrite !proj_x_canonical, !proj_y_canonical. unfold dxR, dyR, pixel_size_x, pixel_size_y.
  cbn [div sub ofZ RO xmin ymin xmax ymax width height].
  replace (b + shape_res (b - a) w / 2 - (a - shape_res (b - a) w / 2)) with
      ((a + (b - a) + shape_res (b - a) w / 2) - (a - shape_res (b - a) w / 2)) by lra.
  replace (y1 + shape_res (y1 - y0) h / 2 - (y0 - shape_res (y1 - y0) h / 2)) with
      ((y0 + (y1 - y0) + shape_res (y1 - y0) h / 2) - (y0 - shape_res (y1 - y0) h / 2)) by lra.
  rewrite !shape_pixel_size by assumption. unfold shape_res. rewrite !Z.max_l by lia. rewrite !minus_IZR.
  assert (2 <= IZR w) by (apply (IZR_le 2); assumption). assert (2 <= IZR h) by (apply (IZR_le 2); assumption).
  repeat split; field; lra.
Qed.

(* a one-pixel axis: the single pixel is centred on the data and strictly contains it *)
Lemma cd_shape_one_pixel_x a b y0 y1 h : a < b -> y0 <= y1 ->
  exists ry, 0 < ry /\ cd_shape_clean a y0 b y1 1 h = Some ((a - (b - a) / 2, y0 - ry / 2, b + (b - a) / 2, y1 + ry / 2), 1%Z, h).
Proof.
  intros Hab Hy. destruct (cd_shape_some a y0 b y1 1 h ltac:(lra) Hy ltac:(left; lra)) as (rx & ry & Px & Py & E & Rx & _).
  exists ry. split; [assumption|]. rewrite E, (Rx Hab).
  assert (shape_res (b - a) 1 = b - a) as -> by (unfold shape_res; cbn; unfold Rdiv; rewrite Rinv_1; ring). reflexivity.
Qed.

(* ------------------------------------------------------------------ antimeridian modes *)
Theorem bound_centers_modes geo mode pts : valid_pts pts ->
  let xs := map fst pts in let ys := map snd pts in
  let wx := map wrapR xs in
  bound_centers RO wrapR geo mode pts =
    if antimeridian_branch geo pts then
      match mode with
      | MGlobal => (false, None, nanmin RO ys, nanmax RO ys)
      | MCrs => (true, Some (nanmin RO wx - 180, nanmax RO wx - 180), nanmin RO ys, nanmax RO ys)
      | _ => (false, Some (nanmin RO wx, nanmax RO wx), nanmin RO ys, nanmax RO ys)
      end
    else (false, Some (nanmin RO xs, nanmax RO xs), nanmin RO ys, nanmax RO ys).
Proof.
  intros (Hne & Hx & Hy). unfold bound_centers, antimeridian_branch. rewrite gen_am_test_char, new_x_corners_char.
  destruct (map_clean_xy RO pts) as [-> ->].
  rewrite (map_clean_id fst pts Hx), (map_clean_id snd pts Hy).
  destruct (_ && _ && _); [|reflexivity]. destruct mode; reflexivity.
Qed.

(* ------------------------------------------------------------------ totality (used by the non-vacuity examples) *)
Lemma freeze_res_total d fres fshape geo mode aou pts rx ry :
  explicit_area d fshape = None -> eff_shape d fshape = None -> res_xy (eff_res d fres) = Some (rx, ry) ->
  exists fr, freeze RO wrapR d fres fshape geo mode aou pts = Some fr.
Proof.
  intros Hex Hs Er. unfold freeze. rewrite Hex, Hs.
  destruct (bound_centers RO wrapR geo mode pts) as [[[pm xc] y0] y1]. unfold compute_domain.
  destruct xc as [[a b]|]; destruct (eff_res d fres) as [|r|rx' ry']; cbn [res_xy] in Er; try discriminate;
    rewrite ?fin4_R; cbn [isfinite RO andb];
    rewrite ?gen_cd_res_scalar_char, ?gen_cd_res_char, ?gen_cd_res_scalar_glob_char, ?gen_cd_res_glob_char;
    unfold cd_res_clean; eexists; reflexivity.
Qed.

Lemma Rltb_lt a b : a < b -> Rltb a b = true. Proof. intros; apply Rltb_true; assumption. Qed.
Lemma Rltb_ge a b : b <= a -> Rltb a b = false. Proof. intros; apply Rltb_false; assumption. Qed.

(* ------------------------------------------------------------------ +pm=180 exactly in the modify_crs branch *)
Theorem freeze_pm180_iff d fres fshape geo mode aou pts fr :
  explicit_area d fshape = None -> valid_pts pts ->
  freeze RO wrapR d fres fshape geo mode aou pts = Some fr ->
  f_pm180 fr = (antimeridian_branch geo pts && match mode with MCrs => true | _ => false end).
Proof.
  intros Hex Hv. unfold freeze. rewrite Hex.
  destruct (bound_centers RO wrapR geo mode pts) as [[[pm xc] y0] y1] eqn:B.
  destruct (bound_centers_spec geo mode pts pm xc y0 y1 Hv B) as (_ & _ & _ & _ & Hpm).
  destruct (compute_domain RO xc y0 y1 (eff_res d fres) (eff_shape d fshape) aou) as [[[[[[x0 ymn] x1] ymx] w] h]|]; [|discriminate].
  intros I; inversion I; subst fr. exact Hpm.
Qed.

(* ------------------------------------------------------------------ optimize_projection = True *)
(* compute_optimal_bb_area: whatever projection parameters and uniform shape PROJ / Geod come up with, the area frozen on
   all the positions of the swath contains every one of them *)
Theorem optimal_bb_area_contains h w geo aou pts fr :
  (1 <= h)%Z -> (1 <= w)%Z -> valid_pts pts -> aou_west aou < aou_east aou ->
  optimal_bb_area RO wrapR h w geo aou pts = Some fr ->
  pos_area (f_area fr) /\ width (f_area fr) = w /\ height (f_area fr) = h /\
  forall p, In p pts -> exists x',
    x' = frozen_x geo MNone pts (fst p) /\ (geo = false -> x' = fst p) /\
    strictly_inside (f_area fr) x' (snd p) /\ inside (f_area fr) x' (snd p).
Proof.
  intros Hh Hw Hv HA E. unfold optimal_bb_area in E.
  assert (Hex : explicit_area (mk_dyn None None None (@RNone R)) (Some (Some h, Some w)) = None) by reflexivity.
  destruct (freeze_contains_points (mk_dyn None None None RNone) RNone (Some (Some h, Some w)) geo MNone aou pts fr Hex Hv I (conj Hw Hh) HA ltac:(discriminate) E) as (Ha & _ & HP).
  destruct (freeze_shape_kept (mk_dyn None None None RNone) RNone (Some (Some h, Some w)) geo MNone aou pts fr h w Hex eq_refl E) as [Ew Eh].
  split; [exact Ha|]. split; [exact Ew|]. split; [exact Eh|].
  intros p Hp. destruct (HP p Hp) as (x' & k & _ & Hg & Hin & Hs & Hf). exists x'.
  split; [exact Hf|]. split; [exact Hg|]. split; [apply Hs; intros [_ N]; discriminate | exact Hin].
Qed.
