(* C01 -- the area's own integer index lookup (masked_ints): the returned pixel contains the point
   (closed cell, widened by eps pixels at the two outer edges only) and a point more than eps pixels
   outside the extent is masked (arrays) / rejected (scalars).  Real-number instance. *)
From Coq Require Import Reals ZArith Lia Lra Bool Psatz.
From Flocq Require Import Zaux Raux Generic_fmt Round_NE.
From PR Require Import Base.Num Base.RNum Model.Grid Model.C01_Area Proofs.Grid_real.
Open Scope R_scope.

(* ---- the constants of masked_ints over the reals ---- *)
Definition c01_epsR : R := c01_eps RO.

Lemma c01_half_R : c01_half RO = /2.
Proof. unfold c01_half; cbn. unfold Z.pow_pos; cbn. lra. Qed.

Lemma c01_epsR_val : c01_epsR = 5764607523034235 / 288230376151711744.
Proof. unfold c01_epsR, c01_eps; cbn. unfold Z.pow_pos; cbn. lra. Qed.

(* the binary64 number written "0.02" in the source: within 1e-17 of 0.02 *)
Lemma c01_epsR_bounds : 2/100 <= c01_epsR <= 2/100 + 1/100000000000000000.
Proof. rewrite c01_epsR_val. lra. Qed.
Lemma c01_epsR_pos : 0 < c01_epsR.
Proof. pose proof c01_epsR_bounds. lra. Qed.

Lemma c01_lo_R : c01_lo RO = - /2 - c01_epsR.
Proof. unfold c01_lo. rewrite c01_half_R. reflexivity. Qed.
Lemma c01_hi_R n : c01_hi RO n = IZR n - /2 + c01_epsR.
Proof. unfold c01_hi. rewrite c01_half_R. reflexivity. Qed.

Lemma c01_mask_false n v : c01_area_mask RO n v = false <-> - /2 - c01_epsR <= v <= IZR n - /2 + c01_epsR.
Proof.
  unfold c01_area_mask. rewrite c01_lo_R, c01_hi_R. cbn [ltb isnan RO]. rewrite orb_false_r, orb_false_iff, !Rltb_false. tauto.
Qed.
Lemma c01_mask_true n v : c01_area_mask RO n v = true <-> v < - /2 - c01_epsR \/ IZR n - /2 + c01_epsR < v.
Proof.
  unfold c01_area_mask. rewrite c01_lo_R, c01_hi_R. cbn [ltb isnan RO]. rewrite orb_false_r, orb_true_iff, !Rltb_true. tauto.
Qed.

Lemma c01_clip_R n v : c01_clip RO n v = Rmin (Rmax v 0) (IZR (n - 1)).
Proof.
  unfold c01_clip, fmin, fmax. cbn [ltb RO ofZ].
  assert (E : (if Rltb v 0 then 0 else v) = Rmax v 0).
  { destruct (Rltb v 0) eqn:L; [apply Rltb_true in L | apply Rltb_false in L];
      unfold Rmax; destruct (Rle_dec v 0); lra. }
  rewrite E. set (m := Rmax v 0).
  destruct (Rltb (IZR (n - 1)) m) eqn:L; [apply Rltb_true in L | apply Rltb_false in L];
    unfold Rmin; destruct (Rle_dec m (IZR (n - 1))); lra.
Qed.

Lemma IZR_half_le_ge (c : Z) : - /2 <= IZR c -> (0 <= c)%Z.
Proof. intros H. assert (L : IZR (-1) < IZR c) by (cbn; lra). apply lt_IZR in L. lia. Qed.
Lemma IZR_le_half (c m : Z) : IZR c <= IZR m + /2 -> (c <= m)%Z.
Proof. intros H. assert (L : IZR c < IZR (m + 1)) by (rewrite plus_IZR; cbn; lra). apply lt_IZR in L. lia. Qed.

(* edge tolerance: eps pixels at the first and the last cell, none in between *)
Definition c01_tol_lo (c : Z) : R := if (c =? 0)%Z then c01_epsR else 0.
Definition c01_tol_hi (n c : Z) : R := if (c =? n - 1)%Z then c01_epsR else 0.

Lemma c01_tol_lo_nonneg c : 0 <= c01_tol_lo c.
Proof. unfold c01_tol_lo. pose proof c01_epsR_pos. destruct (c =? 0)%Z; lra. Qed.
Lemma c01_tol_hi_nonneg n c : 0 <= c01_tol_hi n c.
Proof. unfold c01_tol_hi. pose proof c01_epsR_pos. destruct (c =? n - 1)%Z; lra. Qed.

(* axis level: v is the fractional array coordinate *)
Lemma c01_index_axis_sound n v c : (1 <= n)%Z ->
  c01_masked_index RO n v = Some c ->
  (0 <= c <= n - 1)%Z /\ Rabs (c01_clip RO n v - IZR c) <= /2 /\
  IZR c - /2 - c01_tol_lo c <= v <= IZR c + /2 + c01_tol_hi n c.
Proof.
  intros Hn. unfold c01_masked_index. destruct (c01_area_mask RO n v) eqn:M; [discriminate|].
  intros E; injection E as E. apply c01_mask_false in M.
  unfold c01_area_index in E. cbn [rintZ RO] in E.
  pose proof (Znearest_half (fun x => negb (Z.even x)) (c01_clip RO n v)) as Hh.
  fold (ZnearestE (c01_clip RO n v)) in Hh. rewrite E in Hh.
  rewrite c01_clip_R in *. set (k := Rmin (Rmax v 0) (IZR (n - 1))) in *.
  assert (Hn1 : 0 <= IZR (n - 1)) by (apply IZR_le; lia).
  assert (Hk : 0 <= k <= IZR (n - 1)).
  { unfold k, Rmin, Rmax. destruct (Rle_dec v 0); destruct (Rle_dec _ (IZR (n - 1))); lra. }
  apply Rabs_le_inv in Hh.
  assert (Hc : (0 <= c <= n - 1)%Z).
  { split; [apply IZR_half_le_ge; lra | apply IZR_le_half; lra]. }
  split; [exact Hc|]. split; [apply Rabs_le; lra|].
  pose proof c01_epsR_pos as He.
  unfold c01_tol_lo, c01_tol_hi.
  destruct (Rle_dec v 0) as [V0|V0].
  - (* clipped to 0 *)
    assert (k = 0) by (unfold k, Rmin, Rmax; destruct (Rle_dec v 0); [|lra]; destruct (Rle_dec 0 (IZR (n - 1))); lra).
    assert (c = 0%Z) by (assert (IZR c <= IZR 0 + /2) by (cbn; lra); apply IZR_le_half in H0; lia).
    rewrite !H0. rewrite Z.eqb_refl. destruct (0 =? n - 1)%Z; lra.
  - destruct (Rle_dec v (IZR (n - 1))) as [V1|V1].
    + assert (k = v) by (unfold k, Rmin, Rmax; destruct (Rle_dec v 0); [lra|]; destruct (Rle_dec v (IZR (n - 1))); lra).
      destruct (c =? 0)%Z; destruct (c =? n - 1)%Z; lra.
    + assert (k = IZR (n - 1)) by (unfold k, Rmin, Rmax; destruct (Rle_dec v 0); [lra|]; destruct (Rle_dec v (IZR (n - 1))); lra).
      assert (c = (n - 1)%Z).
      { assert (IZR (n - 1) <= IZR c + /2) by lra. apply IZR_le_half in H0. lia. }
      rewrite !H0. rewrite Z.eqb_refl.
      assert (IZR (n - 1) = IZR n - 1) by (rewrite minus_IZR; reflexivity).
      destruct (n - 1 =? 0)%Z; lra.
Qed.

(* strictly inside cell c => exactly c *)
Lemma c01_index_axis_interior n v c : (0 <= c <= n - 1)%Z -> IZR c - /2 < v < IZR c + /2 ->
  c01_masked_index RO n v = Some c.
Proof.
  intros Hc Hv. pose proof c01_epsR_pos as He.
  assert (L0 : 0 <= IZR c) by (apply IZR_le; lia).
  assert (L1 : IZR c <= IZR (n - 1)) by (apply IZR_le; lia).
  assert (L2 : IZR (n - 1) = IZR n - 1) by (rewrite minus_IZR; reflexivity).
  unfold c01_masked_index.
  assert (M : c01_area_mask RO n v = false) by (apply c01_mask_false; lra).
  rewrite M. f_equal. unfold c01_area_index. cbn [rintZ RO]. apply Znearest_imp.
  rewrite c01_clip_R. apply Rabs_lt. unfold Rmin, Rmax.
  destruct (Rle_dec v 0); destruct (Rle_dec _ (IZR (n - 1))); lra.
Qed.

Lemma c01_index_axis_masked n v : c01_masked_index RO n v = None <-> v < - /2 - c01_epsR \/ IZR n - /2 + c01_epsR < v.
Proof.
  unfold c01_masked_index. destruct (c01_area_mask RO n v) eqn:M.
  - apply c01_mask_true in M. tauto.
  - apply c01_mask_false in M. split; [discriminate | lra].
Qed.

(* ---- from fractional indices to projection coordinates ---- *)
Definition c01_between (p q x : R) : Prop := Rmin p q <= x <= Rmax p q.

Lemma c01_between_scale x0 d lo hi u : d <> 0 -> lo <= hi ->
  (c01_between (x0 + lo * d) (x0 + hi * d) (x0 + u * d) <-> lo <= u <= hi).
Proof.
  intros Hd Hl. unfold c01_between, Rmin, Rmax.
  destruct (Rle_dec (x0 + lo * d) (x0 + hi * d)) as [L|L]; destruct (Rlt_dec 0 d) as [P|P].
  - split; intros [A B]; split; nra.
  - assert (d < 0) by lra. assert (lo = hi) by nra. subst. split; intros [A B]; split; nra.
  - exfalso; nra.
  - assert (d < 0) by lra. split; intros [A B]; split; nra.
Qed.

Lemma c01_x_of_u a x : wf_area a -> x = xmin a + ((x - xmin a) / dxR a) * dxR a.
Proof. intros H. pose proof (dx_nonzero a H). field. assumption. Qed.
Lemma c01_y_of_u a y : wf_area a -> y = ymax a + ((ymax a - y) / dyR a) * (- dyR a).
Proof. intros H. pose proof (dy_nonzero a H). field. assumption. Qed.

Lemma c01_xmax_eq a : wf_area a -> xmax a = xmin a + IZR (width a) * dxR a.
Proof. intros (Hw & _). pose proof (IZR_pos_of _ Hw). unfold dxR. field. lra. Qed.
Lemma c01_ymin_eq a : wf_area a -> ymin a = ymax a + IZR (height a) * (- dyR a).
Proof. intros (_ & Hh & _). pose proof (IZR_pos_of _ Hh). unfold dyR. field. lra. Qed.

(* cell c's closed x-extent, widened by the tolerance at the area's outer edges only *)
Definition c01_cell_x_lo a (c : Z) : R := xmin a + (IZR c - c01_tol_lo c) * dxR a.
Definition c01_cell_x_hi a (c : Z) : R := xmin a + (IZR c + 1 + c01_tol_hi (width a) c) * dxR a.
Definition c01_cell_y_lo a (r : Z) : R := ymax a - (IZR r - c01_tol_lo r) * dyR a.
Definition c01_cell_y_hi a (r : Z) : R := ymax a - (IZR r + 1 + c01_tol_hi (height a) r) * dyR a.

Lemma c01_index_contains_x a x c : wf_area a ->
  c01_masked_index RO (width a) (arr_of_proj_x RO a x) = Some c ->
  (0 <= c <= width a - 1)%Z /\ c01_between (c01_cell_x_lo a c) (c01_cell_x_hi a c) x.
Proof.
  intros W H. assert (Hw : (1 <= width a)%Z) by (destruct W as (? & _); assumption).
  apply c01_index_axis_sound in H; [|assumption]. destruct H as (Hc & _ & Hv).
  split; [exact Hc|].
  rewrite arr_of_proj_x_canonical in Hv by assumption.
  unfold c01_cell_x_lo, c01_cell_x_hi. rewrite (c01_x_of_u a x W) at 1.
  pose proof (c01_tol_lo_nonneg c). pose proof (c01_tol_hi_nonneg (width a) c).
  apply c01_between_scale; [apply dx_nonzero; assumption | lra | lra].
Qed.

Lemma c01_index_contains_y a y r : wf_area a ->
  c01_masked_index RO (height a) (arr_of_proj_y RO a y) = Some r ->
  (0 <= r <= height a - 1)%Z /\ c01_between (c01_cell_y_lo a r) (c01_cell_y_hi a r) y.
Proof.
  intros W H. assert (Hh : (1 <= height a)%Z) by (destruct W as (_ & ? & _); assumption).
  apply c01_index_axis_sound in H; [|assumption]. destruct H as (Hc & _ & Hv).
  split; [exact Hc|].
  rewrite arr_of_proj_y_canonical in Hv by assumption.
  unfold c01_cell_y_lo, c01_cell_y_hi. rewrite (c01_y_of_u a y W) at 1.
  pose proof (c01_tol_lo_nonneg r). pose proof (c01_tol_hi_nonneg (height a) r).
  replace (ymax a - (IZR r - c01_tol_lo r) * dyR a) with (ymax a + (IZR r - c01_tol_lo r) * (- dyR a)) by ring.
  replace (ymax a - (IZR r + 1 + c01_tol_hi (height a) r) * dyR a)
    with (ymax a + (IZR r + 1 + c01_tol_hi (height a) r) * (- dyR a)) by ring.
  apply c01_between_scale; [pose proof (dy_nonzero a W); lra | lra | lra].
Qed.

(* masked exactly when the point is outside the extent widened by eps pixels on both sides *)
Lemma c01_masked_iff_outside_x a x : wf_area a ->
  (c01_masked_index RO (width a) (arr_of_proj_x RO a x) = None <->
   ~ c01_between (xmin a - c01_epsR * dxR a) (xmax a + c01_epsR * dxR a) x).
Proof.
  intros W. rewrite c01_index_axis_masked, arr_of_proj_x_canonical by assumption.
  rewrite (c01_xmax_eq a W). rewrite (c01_x_of_u a x W) at 3.
  replace (xmin a - c01_epsR * dxR a) with (xmin a + (- c01_epsR) * dxR a) by ring.
  replace (xmin a + IZR (width a) * dxR a + c01_epsR * dxR a) with (xmin a + (IZR (width a) + c01_epsR) * dxR a) by ring.
  pose proof c01_epsR_pos as He.
  assert (Hw : 0 < IZR (width a)) by (apply IZR_pos_of; destruct W as (? & _); assumption).
  rewrite c01_between_scale; [|apply dx_nonzero; assumption | lra]. lra.
Qed.

Lemma c01_masked_iff_outside_y a y : wf_area a ->
  (c01_masked_index RO (height a) (arr_of_proj_y RO a y) = None <->
   ~ c01_between (ymax a + c01_epsR * dyR a) (ymin a - c01_epsR * dyR a) y).
Proof.
  intros W. rewrite c01_index_axis_masked, arr_of_proj_y_canonical by assumption.
  rewrite (c01_ymin_eq a W). rewrite (c01_y_of_u a y W) at 3.
  replace (ymax a + c01_epsR * dyR a) with (ymax a + (- c01_epsR) * (- dyR a)) by ring.
  replace (ymax a + IZR (height a) * - dyR a - c01_epsR * dyR a) with (ymax a + (IZR (height a) + c01_epsR) * (- dyR a)) by ring.
  pose proof c01_epsR_pos as He.
  assert (Hh : 0 < IZR (height a)) by (apply IZR_pos_of; destruct W as (_ & ? & _); assumption).
  rewrite c01_between_scale; [|pose proof (dy_nonzero a W); lra | lra]. lra.
Qed.

(* ---- the two public shapes of the lookup ---- *)
Lemma c01_index_array_contains a x y oc orow : wf_area a -> c01_index_array RO a x y = (oc, orow) ->
  (forall c, oc = Some c -> (0 <= c <= width a - 1)%Z /\ c01_between (c01_cell_x_lo a c) (c01_cell_x_hi a c) x) /\
  (forall r, orow = Some r -> (0 <= r <= height a - 1)%Z /\ c01_between (c01_cell_y_lo a r) (c01_cell_y_hi a r) y) /\
  (oc = None <-> ~ c01_between (xmin a - c01_epsR * dxR a) (xmax a + c01_epsR * dxR a) x) /\
  (orow = None <-> ~ c01_between (ymax a + c01_epsR * dyR a) (ymin a - c01_epsR * dyR a) y).
Proof.
  intros W E. unfold c01_index_array in E. injection E as E1 E2. subst oc orow.
  split; [|split; [|split]].
  - intros c H. apply c01_index_contains_x; assumption.
  - intros r H. apply c01_index_contains_y; assumption.
  - apply c01_masked_iff_outside_x; assumption.
  - apply c01_masked_iff_outside_y; assumption.
Qed.

Lemma c01_index_scalar_spec a x y : wf_area a ->
  (forall c r, c01_index_scalar RO a x y = Some (c, r) ->
     (0 <= c <= width a - 1)%Z /\ (0 <= r <= height a - 1)%Z /\
     c01_between (c01_cell_x_lo a c) (c01_cell_x_hi a c) x /\ c01_between (c01_cell_y_lo a r) (c01_cell_y_hi a r) y) /\
  (c01_index_scalar RO a x y = None <->
     ~ c01_between (xmin a - c01_epsR * dxR a) (xmax a + c01_epsR * dxR a) x \/
     ~ c01_between (ymax a + c01_epsR * dyR a) (ymin a - c01_epsR * dyR a) y).
Proof.
  intros W. unfold c01_index_scalar, c01_index_array.
  pose proof (c01_masked_iff_outside_x a x W) as Mx. pose proof (c01_masked_iff_outside_y a y W) as My.
  destruct (c01_masked_index RO (width a) (arr_of_proj_x RO a x)) as [c0|] eqn:Ex;
    destruct (c01_masked_index RO (height a) (arr_of_proj_y RO a y)) as [r0|] eqn:Ey.
  - split.
    + intros c r E. injection E as <- <-.
      apply c01_index_contains_x in Ex; [|assumption]. apply c01_index_contains_y in Ey; [|assumption]. tauto.
    + split; [discriminate|]. intros [H|H]; [apply Mx in H | apply My in H]; discriminate.
  - split; [discriminate|]. split; [intros _; right; apply My; reflexivity | reflexivity].
  - split; [discriminate|]. split; [intros _; left; apply Mx; reflexivity | reflexivity].
  - split; [discriminate|]. split; [intros _; left; apply Mx; reflexivity | reflexivity].
Qed.

(* a pixel centre is looked up as itself *)
Lemma c01_index_of_centre a c r : wf_area a -> (0 <= c < width a)%Z -> (0 <= r < height a)%Z ->
  c01_index_scalar RO a (proj_x RO a c) (proj_y RO a r) = Some (c, r).
Proof.
  intros W Hc Hr. unfold c01_index_scalar, c01_index_array.
  assert (Ex : arr_of_proj_x RO a (proj_x RO a c) = IZR c).
  { replace (proj_x RO a c) with (proj_of_arr_x RO a (IZR c)) by reflexivity. apply arr_proj_inverse_x; assumption. }
  assert (Ey : arr_of_proj_y RO a (proj_y RO a r) = IZR r).
  { replace (proj_y RO a r) with (proj_of_arr_y RO a (IZR r)) by reflexivity. apply arr_proj_inverse_y; assumption. }
  rewrite Ex, Ey.
  rewrite (c01_index_axis_interior (width a) (IZR c) c) by (try lia; lra).
  rewrite (c01_index_axis_interior (height a) (IZR r) r) by (try lia; lra).
  reflexivity.
Qed.
