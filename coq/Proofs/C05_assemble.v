(* C05: assembling the blocks of any tiling of a rectangle gives the array on the whole rectangle. *)
From Coq Require Import ZArith List Lia Bool.
From PR Require Import Base.ZX Base.ListX Base.Slice Model.Partition Model.Blockwise.
Import ListNotations.
Open Scope Z_scope.

Lemma zrange_length s len : length (zrange s len) = Z.to_nat len.
Proof. unfold zrange. rewrite map_length, seq_length. reflexivity. Qed.

Lemma zrange_split s a b : 0 <= a -> 0 <= b -> zrange s (a + b) = zrange s a ++ zrange (s + a) b.
Proof.
  intros Ha Hb. unfold zrange. rewrite Z2Nat.inj_add by lia. rewrite seq_app, map_app. f_equal.
  rewrite Nat.add_0_l.
  assert (G : forall n k, map (fun i => s + Z.of_nat i) (seq (Z.to_nat a + k) n)
                        = map (fun i => s + a + Z.of_nat i) (seq k n)).
  { induction n as [|m IH]; intros k; cbn; [reflexivity|]. f_equal; [lia|].
    rewrite <- Nat.add_succ_r. apply IH. }
  specialize (G (Z.to_nat b) 0%nat). rewrite Nat.add_0_r in G. exact G.
Qed.

Lemma zrange_In s len v : In v (zrange s len) <-> s <= v < s + len.
Proof.
  unfold zrange. rewrite in_map_iff. split.
  - intros (k & <- & Hk). apply in_seq in Hk. lia.
  - intros Hv. exists (Z.to_nat (v - s)). split; [lia|]. apply in_seq. lia.
Qed.

Lemma nth_map_in {A B} (f : A -> B) l : forall k d d', (k < length l)%nat -> nth k (map f l) d = f (nth k l d').
Proof. induction l as [|x l IH]; intros [|k] d d' H; cbn in *; try lia; [reflexivity|]. apply IH; lia. Qed.

Lemma zrange_nth s len k d : (k < Z.to_nat len)%nat -> nth k (zrange s len) d = s + Z.of_nat k.
Proof.
  intros Hk. unfold zrange. rewrite nth_map_in with (d' := 0%nat) by (rewrite seq_length; exact Hk).
  rewrite seq_nth by exact Hk. reflexivity.
Qed.

Lemma tab_length {A} (f : Z -> Z -> A) r0 nr c0 nc : length (tab f r0 nr c0 nc) = Z.to_nat nr.
Proof. unfold tab. rewrite map_length. apply zrange_length. Qed.

Lemma tab_rows_length {A} (f : Z -> Z -> A) r0 nr c0 nc :
  Forall (fun row => length row = Z.to_nat nc) (tab f r0 nr c0 nc).
Proof. unfold tab. apply Forall_forall. intros row H. apply in_map_iff in H. destruct H as (i & <- & _).
  rewrite map_length. apply zrange_length. Qed.

Lemma tab_vsplit {A} (f : Z -> Z -> A) r0 a b c0 nc : 0 <= a -> 0 <= b ->
  tab f r0 (a + b) c0 nc = tab f r0 a c0 nc ++ tab f (r0 + a) b c0 nc.
Proof. intros Ha Hb. unfold tab. rewrite zrange_split by assumption. apply map_app. Qed.

Lemma zipapp_map {A B} (g h : B -> list A) (l : list B) :
  zipapp (map g l) (map h l) = map (fun i => g i ++ h i) l.
Proof. unfold zipapp, map2. induction l as [|x l IH]; cbn; [reflexivity|]. f_equal. exact IH. Qed.

Lemma tab_hsplit {A} (f : Z -> Z -> A) r0 nr c0 a b : 0 <= a -> 0 <= b ->
  zipapp (tab f r0 nr c0 a) (tab f r0 nr (c0 + a) b) = tab f r0 nr c0 (a + b).
Proof.
  intros Ha Hb. unfold tab. rewrite zipapp_map. apply map_ext. intros i.
  rewrite zrange_split by assumption. symmetry. apply map_app.
Qed.

Lemma tab_zero_cols {A} (f : Z -> Z -> A) r0 nr c0 : tab f r0 nr c0 0 = repeat [] (Z.to_nat nr).
Proof.
  unfold tab. replace (zrange c0 0) with (@nil Z) by reflexivity. cbn.
  rewrite <- (zrange_length r0 nr). induction (zrange r0 nr) as [|x l IH]; cbn; [reflexivity|]. f_equal. exact IH.
Qed.

Lemma slen_mk off x : 0 <= x -> slen (mk_slice off (off + x)) = x.
Proof. intros. unfold slen; cbn. lia. Qed.

(* one row of blocks: concatenating along the columns *)
Lemma hstack_tab {A} (f : Z -> Z -> A) r0 nr cols : forall pos c0, Forall (fun x => 0 <= x) cols ->
  hstack (Z.to_nat nr) (map (fun cs => tab f r0 nr (sstart cs) (slen cs)) (map snd (offsets pos c0 cols)))
  = tab f r0 nr c0 (sumZ cols).
Proof.
  induction cols as [|x cols IH]; intros pos c0 Hc; cbn [offsets map sumZ hstack fold_right].
  - symmetry. apply tab_zero_cols.
  - inversion Hc as [|? ? Hx Hr]; subst. cbn [snd sstart]. rewrite slen_mk by exact Hx.
    unfold hstack in IH. rewrite (IH (S pos) (c0 + x) Hr).
    assert (Hs : 0 <= sumZ cols) by (clear -Hr; induction Hr; cbn; lia).
    apply tab_hsplit; assumption.
Qed.

Lemma sumZ_nonneg l : Forall (fun x => 0 <= x) l -> 0 <= sumZ l.
Proof. induction 1; cbn; lia. Qed.

(* the reusable lemma: assembling [f] restricted to each block of ANY tiling = [f] on the whole rectangle *)
Lemma assemble_rows_tab {A} (f : Z -> Z -> A) cols rows : forall pos r0,
  Forall (fun x => 0 <= x) rows -> Forall (fun x => 0 <= x) cols ->
  concat (map (fun rs => hstack (Z.to_nat (slen rs))
                           (map (fun cs => tab f (sstart rs) (slen rs) (sstart cs) (slen cs)) (axis_slices cols)))
              (map snd (offsets pos r0 rows)))
  = tab f r0 (sumZ rows) 0 (sumZ cols).
Proof.
  induction rows as [|x rows IH]; intros pos r0 Hr Hc; cbn [offsets map concat sumZ].
  - reflexivity.
  - inversion Hr as [|? ? Hx Hr']; subst. cbn [snd sstart]. rewrite slen_mk by exact Hx.
    unfold axis_slices at 1. rewrite hstack_tab by exact Hc.
    rewrite (IH (S pos) (r0 + x) Hr' Hc). symmetry. apply tab_vsplit; [exact Hx|apply sumZ_nonneg; exact Hr'].
Qed.

Theorem assemble_tab {A} (f : Z -> Z -> A) rows cols :
  Forall (fun x => 0 <= x) rows -> Forall (fun x => 0 <= x) cols ->
  assemble rows cols (fun rs cs => tab f (sstart rs) (slen rs) (sstart cs) (slen cs)) = tab f 0 (sumZ rows) 0 (sumZ cols).
Proof. intros Hr Hc. unfold assemble, axis_slices at 2. apply assemble_rows_tab; assumption. Qed.

(* assembly only looks at the blocks of the tiling *)
Lemma assemble_ext {A} rows cols (b1 b2 : pslice -> pslice -> list (list A)) :
  (forall rs cs, In rs (axis_slices rows) -> In cs (axis_slices cols) -> b1 rs cs = b2 rs cs) ->
  assemble rows cols b1 = assemble rows cols b2.
Proof.
  intros H. unfold assemble. f_equal. apply map_ext_in. intros rs Hrs. f_equal. apply map_ext_in. intros cs Hcs.
  apply H; assumption.
Qed.

Lemma offsets_slice_shape c : forall pos off s, Forall (fun x => 0 <= x) c -> In s (map snd (offsets pos off c)) ->
  sstart s <= sstop s /\ off <= sstart s /\ sstop s <= off + sumZ c.
Proof.
  induction c as [|x c IH]; intros pos off s Hc Hin; cbn in *; [contradiction|].
  inversion Hc as [|? ? Hx Hr]; subst. pose proof (sumZ_nonneg c Hr).
  destruct Hin as [<-|Hin]; cbn; [lia|]. apply IH in Hin; [lia|exact Hr].
Qed.

(* any array that is pointwise [f] on every block assembles to [f] on the rectangle *)
Theorem assemble_blocks_eq {A} (f : Z -> Z -> A) rows cols (blk : pslice -> pslice -> list (list A)) :
  Forall (fun x => 0 <= x) rows -> Forall (fun x => 0 <= x) cols ->
  (forall rs cs, In rs (axis_slices rows) -> In cs (axis_slices cols) ->
                 blk rs cs = tab f (sstart rs) (slen rs) (sstart cs) (slen cs)) ->
  assemble rows cols blk = tab f 0 (sumZ rows) 0 (sumZ cols).
Proof.
  intros Hr Hc H. rewrite (assemble_ext rows cols blk _ H). apply assemble_tab; assumption.
Qed.

(* element access in a tabulated rectangle *)
Lemma tab_nth {A} (f : Z -> Z -> A) r0 nr c0 nc i j d :
  0 <= i < nr -> 0 <= j < nc ->
  nth (Z.to_nat j) (nth (Z.to_nat i) (tab f r0 nr c0 nc) []) d = f (r0 + i) (c0 + j).
Proof.
  intros Hi Hj. unfold tab.
  rewrite nth_map_in with (d' := 0) by (rewrite zrange_length; lia).
  rewrite zrange_nth by lia.
  rewrite nth_map_in with (d' := 0) by (rewrite zrange_length; lia).
  rewrite zrange_nth by lia. f_equal; lia.
Qed.
