(* C01 -- over ANY history of lon/lat accessor calls on one object (cache flags, slices, chunkings in any order)
   every observation equals what a fresh object returns.  Invariant: the cache is empty or holds the lon/lats of the
   WHOLE grid.  Generic in the arithmetic and in the PROJ oracles (no real-number reasoning). *)
From Coq Require Import ZArith List Lia Bool PrimFloat.
From PR Require Import Base.Num Base.F64 Model.Grid Model.C01_Area Model.C01_Cache Proofs.C01_grid.
Import ListNotations.
Open Scope Z_scope.

Lemma c01_range_in_range n : c01_in_range n (c01_range 0 n).
Proof.
  unfold c01_in_range, c01_range. rewrite Z.sub_0_r. apply Forall_forall. intros i Hi.
  apply In_nth with (d := 0) in Hi. destruct Hi as (k & Hk & <-). rewrite zrange_length in Hk.
  rewrite zrange_nth by assumption. lia.
Qed.

Section CacheProofs.
  Context {T : Type} (OP : ops T) (invT invP : T * T -> T * T) (a : area T).
  Hypothesis Hw : 0 <= width a.
  Hypothesis Hh : 0 <= height a.

  Definition c01_sl_ok (sl : option (list Z * list Z)) : Prop :=
    match sl with None => True | Some (rows, cols) => c01_in_range (height a) rows /\ c01_in_range (width a) cols end.
  Definition c01_ch_ok (ch : option (list Z * list Z)) : Prop :=
    match ch with
    | None => True
    | Some (rch, cch) => Forall (fun x => 0 <= x) rch /\ Forall (fun x => 0 <= x) cch /\
                         c01_sumZ rch = height a /\ c01_sumZ cch = width a
    end.
  Definition c01_op_ok (op : c01_op) : Prop :=
    match op with
    | OpLonlats sl ch _ => c01_sl_ok sl /\ c01_ch_ok ch
    | OpGetLonlat r c => 0 <= r < height a /\ 0 <= c < width a
    | OpColrow _ _ => True
    end.

  Definition c01_ll_fn (rows cols : list Z) : list (list (T * T)) := map (map invT) (c01_grid_fn OP a rows cols).
  Definition c01_whole : list (list (T * T)) := c01_ll_fn (c01_all_rows a) (c01_all_cols a).

  Lemma c01_sel_ok sl : c01_sl_ok sl ->
    c01_in_range (height a) (fst (c01_sel a sl)) /\ c01_in_range (width a) (snd (c01_sel a sl)).
  Proof.
    destruct sl as [[rows cols]|]; cbn; [tauto|]. intros _. split; apply c01_range_in_range.
  Qed.

  (* a fresh computation, numpy or any dask chunking, is the function of (row, col) *)
  Lemma c01_fresh_fn sl ch : c01_sl_ok sl -> c01_ch_ok ch ->
    c01_fresh_lonlats OP invT a sl ch = c01_ll_fn (fst (c01_sel a sl)) (snd (c01_sel a sl)).
  Proof.
    intros Hs Hc. apply c01_sel_ok in Hs. unfold c01_fresh_lonlats.
    destruct (c01_sel a sl) as [rows cols]. cbn [fst snd] in *. destruct Hs as [Hr Hcs].
    destruct ch as [[rch cch]|].
    - destruct Hc as (H1 & H2 & H3 & H4). unfold c01_lonlats_dask. rewrite c01_coords_dask_fn by assumption. reflexivity.
    - unfold c01_lonlats. rewrite c01_coords_numpy_fn by assumption. reflexivity.
  Qed.

  (* slicing the cached WHOLE grid is the same function *)
  Lemma c01_slice_whole sl : c01_sl_ok sl ->
    c01_slice_cached OP c01_whole sl = c01_ll_fn (fst (c01_sel a sl)) (snd (c01_sel a sl)).
  Proof.
    intros Hs. destruct sl as [[rows cols]|]; cbn [c01_slice_cached c01_sel fst snd]; [|reflexivity].
    destruct Hs as [Hr Hc]. unfold c01_whole, c01_ll_fn, c01_grid_fn, c01_all_rows, c01_all_cols, c01_range.
    rewrite !Z.sub_0_r. rewrite !map_map.
    rewrite c01_select_map_zrange by (apply c01_in_range_nat; assumption).
    apply map_ext. intros r. rewrite map_map.
    rewrite c01_select_map_zrange by (apply c01_in_range_nat; assumption).
    now rewrite map_map.
  Qed.

  Definition c01_inv (st : option (list (list (T * T)))) : Prop := st = None \/ st = Some c01_whole.

  Lemma c01_lonlats_step_ok st sl ch cache : c01_inv st -> c01_sl_ok sl -> c01_ch_ok ch ->
    c01_inv (fst (c01_lonlats_step OP invT a false st sl ch cache)) /\
    snd (c01_lonlats_step OP invT a false st sl ch cache) = c01_ll_fn (fst (c01_sel a sl)) (snd (c01_sel a sl)).
  Proof.
    intros [->| ->] Hs Hc; cbn [c01_lonlats_step fst snd].
    - split; [|apply c01_fresh_fn; assumption].
      destruct cache, ch as [[? ?]|], sl as [[? ?]|]; cbn [andb orb is_none]; try (left; reflexivity).
      right. f_equal. apply (c01_fresh_fn None None); exact I.
    - split; [right; reflexivity | apply c01_slice_whole; assumption].
  Qed.

  Lemma c01_step_ok st op : c01_inv st -> c01_op_ok op ->
    c01_inv (fst (c01_step OP invT invP a false st op)) /\
    snd (c01_step OP invT invP a false st op) = c01_stateless OP invT invP a op.
  Proof.
    intros Hi Hop. unfold c01_stateless. destruct op as [sl ch cache | r c | c r]; cbn [c01_step].
    - destruct Hop as [Hs Hc].
      destruct (c01_lonlats_step_ok st sl ch cache Hi Hs Hc) as [I1 E1].
      destruct (c01_lonlats_step_ok None sl ch cache (or_introl eq_refl) Hs Hc) as [_ E2].
      split; [exact I1 | etransitivity; [exact E1 | symmetry; exact E2]].
    - assert (Hs : c01_sl_ok (Some ([r], [c]))).
      { destruct Hop. cbn; split; (constructor; [lia | constructor]). }
      destruct (c01_lonlats_step_ok st _ None false Hi Hs I) as [I1 E1].
      destruct (c01_lonlats_step_ok None _ None false (or_introl eq_refl) Hs I) as [_ E2].
      split; [exact I1 | etransitivity; [exact E1 | symmetry; exact E2]].
    - cbn. split; [exact Hi | reflexivity].
  Qed.

  (* the history theorem *)
  Lemma c01_history_stateless ops : Forall c01_op_ok ops -> forall st, c01_inv st ->
    c01_run OP invT invP a false st ops = map (c01_stateless OP invT invP a) ops.
  Proof.
    induction 1 as [|op rest Hop Hrest IH]; intros st Hi; cbn [c01_run map]; [reflexivity|].
    destruct (c01_step_ok st op Hi Hop) as [I1 E1].
    destruct (c01_step OP invT invP a false st op) as [st' o]. cbn [fst snd] in *.
    rewrite E1. f_equal. apply IH. exact I1.
  Qed.

  (* and what a fresh object answers is the canonical function of the selected (row, col) *)
  Lemma c01_stateless_lonlats sl ch cache : c01_sl_ok sl -> c01_ch_ok ch ->
    c01_stateless OP invT invP a (OpLonlats sl ch cache) = c01_ll_fn (fst (c01_sel a sl)) (snd (c01_sel a sl)).
  Proof.
    intros Hs Hc. unfold c01_stateless. cbn [c01_step].
    apply (c01_lonlats_step_ok None sl ch cache (or_introl eq_refl) Hs Hc).
  Qed.
  Lemma c01_stateless_get_lonlat r c : 0 <= r < height a -> 0 <= c < width a ->
    c01_stateless OP invT invP a (OpGetLonlat r c) = [[c01_get_lonlat OP invT a r c]].
  Proof.
    intros Hr Hc. unfold c01_stateless. cbn [c01_step].
    assert (Hs : c01_sl_ok (Some ([r], [c]))) by (cbn; split; (constructor; [lia | constructor])).
    destruct (c01_lonlats_step_ok None _ None false (or_introl eq_refl) Hs I) as [_ E]. exact E.
  Qed.
End CacheProofs.

(* the variant that stores a SLICED result (`if cache:`) breaks the invariant: on a 2x2 area, after
   get_lonlats(data_slice=([1],[0]), cache=True) a plain get_lonlats() returns a 1x1 array *)
Lemma c01_store_sliced_refuted :
  let a := mk_area 0%float 0%float 2%float 2%float 2 2 in
  let ops := [OpLonlats (Some ([1], [0])) None true; OpLonlats None None false] in
  Forall (c01_op_ok a) ops /\
  c01_run F64 (fun p => p) (fun p => p) a true None ops <> map (c01_stateless F64 (fun p => p) (fun p => p) a) ops /\
  length (nth 1 (c01_run F64 (fun p => p) (fun p => p) a true None ops) []) = 1%nat /\
  length (nth 1 (map (c01_stateless F64 (fun p => p) (fun p => p) a) ops) []) = 2%nat.
Proof.
  cbv zeta. split; [|split; [|split]].
  - repeat constructor; cbn; lia.
  - intros H. apply (f_equal (fun l => length (nth 1 l []))) in H. vm_compute in H. discriminate.
  - vm_compute. reflexivity.
  - vm_compute. reflexivity.
Qed.

(* ================= caller-side overwrites of returned arrays ================= *)
Section MutationProofs.
  Context {T : Type} (OP : ops T) (invT invP : T * T -> T * T) (a : area T).

  Definition c01_no_cache_op (op : c01_op) : Prop := match op with OpLonlats _ _ cache => cache = false | _ => True end.
  Definition c01_no_cache (m : c01_mop (T:=T)) : Prop := c01_no_cache_op (c01_mop_op m).

  Lemma c01_step_none_no_cache op : c01_no_cache_op op -> fst (c01_step OP invT invP a false None op) = None.
  Proof. destruct op as [sl ch cache| |]; cbn; [intros ->; reflexivity | reflexivity | reflexivity]. Qed.

  (* copies are handed out (alias = false): an overwrite never reaches the object; the history is the plain call history *)
  Lemma c01_mstep_no_alias st m :
    c01_mstep OP invT invP a false st m = c01_step OP invT invP a false st (c01_mop_op m).
  Proof.
    destruct m as [op ow]. unfold c01_mstep. cbn [c01_mop_op].
    destruct (c01_step OP invT invP a false st op) as [st' o]. destruct ow; destruct op; destruct st'; reflexivity.
  Qed.
  Lemma c01_mrun_no_alias ms : forall st,
    c01_mrun OP invT invP a false st ms = c01_run OP invT invP a false st (map (@c01_mop_op T) ms).
  Proof.
    induction ms as [|m rest IH]; intros st; cbn [c01_mrun c01_run map]; [reflexivity|].
    rewrite c01_mstep_no_alias. destruct (c01_step OP invT invP a false st (c01_mop_op m)) as [st' o]. now rewrite IH.
  Qed.

  (* even when the cache itself is handed out (alias = true), nothing cached => nothing to corrupt *)
  Lemma c01_mstep_none m : c01_no_cache m ->
    c01_mstep OP invT invP a true None m = (None, c01_stateless OP invT invP a (c01_mop_op m)).
  Proof.
    destruct m as [op ow]. unfold c01_no_cache. cbn [c01_mop_op].
    destruct op as [sl ch cache | r c | c r]; cbn [c01_no_cache_op]; intros H; [subst cache| |];
      destruct ow; reflexivity.
  Qed.

  Lemma c01_mrun_no_cache ms : Forall c01_no_cache ms ->
    c01_mrun OP invT invP a true None ms = map (fun m => c01_stateless OP invT invP a (c01_mop_op m)) ms.
  Proof.
    induction 1 as [|m rest Hm Hrest IH]; cbn [c01_mrun map]; [reflexivity|].
    rewrite (c01_mstep_none m Hm). f_equal. exact IH.
  Qed.

  (* no memo of the projection vectors: every get returns the freshly computed vector, whatever was overwritten before *)
  Lemma c01_vrun_no_memo ops :
    c01_vrun OP a false None ops =
    map (fun op => match op with VGet => Some (c01_vec_x OP a 0 (width a)) | VOverwrite _ => None end) ops.
  Proof. induction ops as [|op rest IH]; cbn; [reflexivity|]. destruct op; cbn; now rewrite IH. Qed.
End MutationProofs.

(* ================= several lazy results in one dask.compute ================= *)
Section JointProofs.
  Context {K V Task : Type} (keq : K -> K -> bool) (name : Task -> K) (val : Task -> V).

  (* if equal names imply equal values, every task of the merged graph evaluates to its own value *)
  Lemma c01_glookup_graph (tasks : list Task) :
    (forall t t', keq (name t) (name t') = true -> val t = val t') -> (forall t, keq (name t) (name t) = true) ->
    forall t, In t tasks -> c01_glookup keq (c01_graph name val tasks) (name t) = Some (val t).
  Proof.
    intros Hn Hr t. induction tasks as [|t0 rest IH]; cbn; [contradiction|]. intros [->|Hin].
    - rewrite Hr. reflexivity.
    - destruct (keq (name t0) (name t)) eqn:E; [f_equal; apply Hn; exact E | apply IH; exact Hin].
  Qed.
End JointProofs.

(* _proj_coords_dask: the (implicit) task name is a token of ALL arguments handed to _generate_2d_coords, the block value is a
   function of those arguments, so joint evaluation of any collection of areas / chunkings returns each block unchanged *)
Lemma c01_joint_coords {T} (OP : ops T) (keq : c01_task T -> c01_task T -> bool) (tasks : list (c01_task T)) :
  (forall k k', keq k k' = true -> k = k') -> (forall k, keq k k = true) ->
  forall t, In t tasks -> c01_glookup keq (c01_graph (fun t => t) (c01_task_value OP) tasks) t = Some (c01_task_value OP t).
Proof.
  intros Hs Hr t Hin. apply (c01_glookup_graph keq (fun t => t) (c01_task_value OP)); try assumption.
  intros t1 t2 E. apply Hs in E. now subst.
Qed.
Lemma c01_task_value_block {T} (OP : ops T) (a : area T) r0 r1 c0 c1 :
  c01_task_value OP (c01_task_of OP a r0 r1 c0 c1) = c01_block OP a r0 r1 c0 c1.
Proof. reflexivity. Qed.

(* ---- refutations of the three variants (binary64, vm_compute) ---- *)
Definition c01_first_x (g : list (list (float * float))) : float := fst (nth 0 (nth 0 g []) (0%float, 0%float)).

(* (1) the variant that hands out the cache itself (the behaviour before fix 0014900f): a caller overwrite after cache=True
   changes what get_lonlats returns *)
Lemma c01_aliased_overwrite_refuted :
  let a := mk_area 0%float 0%float 2%float 2%float 2 2 in
  let scale := map (map (fun p : float * float => (PrimFloat.mul (fst p) 0.5%float, snd p))) in
  let ms := [MCall (OpLonlats None None true) (Some scale); MCall (OpLonlats None None false) None] in
  c01_mrun F64 (fun p => p) (fun p => p) a true None ms <> map (fun m => c01_stateless F64 (fun p => p) (fun p => p) a (c01_mop_op m)) ms.
Proof.
  cbv zeta. intros H.
  apply (f_equal (fun l => PrimFloat.eqb (c01_first_x (nth 1 l [])) 0.5%float)) in H. vm_compute in H. discriminate.
Qed.

(* (2) memoised projection vectors handed out to every caller *)
Lemma c01_vector_memo_refuted :
  let a := mk_area 0%float 0%float 2%float 2%float 2 2 in
  let ops := [VGet; VOverwrite (fun x => PrimFloat.mul x 0.5%float); VGet] in
  nth 2 (c01_vrun F64 a true None ops) None <> Some (c01_vec_x F64 a 0 (width a)) /\
  nth 2 (c01_vrun F64 a false None ops) None = Some (c01_vec_x F64 a 0 (width a)).
Proof.
  cbv zeta. split; [|vm_compute; reflexivity]. intros H.
  apply (f_equal (fun o => match o with Some (x :: _) => PrimFloat.eqb x 0.5%float | _ => false end)) in H.
  vm_compute in H. discriminate.
Qed.

(* (3) a task name that leaves out the grid origin: two tiles of one grid share names, the joint graph serves one tile's block
   for both *)
Definition c01_name_no_origin (t : c01_task float) : float * float * (Z * Z * Z * Z) := (t_psx t, t_psy t, (t_r0 t, t_r1 t, t_c0 t, t_c1 t)).
Definition c01_keq_no_origin (k k' : float * float * (Z * Z * Z * Z)) : bool :=
  let '(x, y, (a, b, c, d)) := k in let '(x', y', (a', b', c', d')) := k' in
  same_bits x x' && same_bits y y' && (a =? a') && (b =? b') && (c =? c') && (d =? d').
Lemma c01_name_without_origin_refuted :
  let west := mk_area 0%float 0%float 2%float 2%float 2 2 in
  let east := mk_area 2%float 0%float 4%float 2%float 2 2 in
  let tw := c01_task_of F64 west 0 2 0 2 in let te := c01_task_of F64 east 0 2 0 2 in
  c01_glookup c01_keq_no_origin (c01_graph c01_name_no_origin (c01_task_value F64) [tw; te]) (c01_name_no_origin te)
  = Some (c01_task_value F64 tw) /\
  c01_task_value F64 tw <> c01_task_value F64 te.
Proof.
  cbv zeta. split; [vm_compute; reflexivity|]. intros H.
  apply (f_equal (fun g => PrimFloat.eqb (c01_first_x g) 0.5%float)) in H. vm_compute in H. discriminate.
Qed.

(* ================= derived objects (crop / strided slice / copy of an area that holds lon/lats) =================
   AreaDefinition.__getitem__ and copy() build a NEW AreaDefinition whose cache is empty; whatever cache a derived object
   starts with, its histories are those of a fresh object as long as that cache is empty or the derived area's OWN lon/lats. *)
(* the variant that carries the parent's cached lon/lats over as parent.lons[yslice, xslice]: for a strided slice the derived
   pixels are block centres, not every step-th parent pixel.  parent 2x4 on [0,4]x[0,2], child = parent[:, ::2] (2x2, same extent) *)
Lemma c01_derived_carried_cache_refuted :
  let parent := mk_area 0%float 0%float 4%float 2%float 4 2 in
  let child := mk_area 0%float 0%float 4%float 2%float 2 2 in
  let id := fun p : float * float => p in
  let carried := c01_slice_cached F64 (c01_fresh_lonlats F64 id parent None None) (Some ([0; 1], [0; 2])) in
  let ops := [OpLonlats None None false] in
  Forall (c01_op_ok child) ops /\
  c01_run F64 id id child false (Some carried) ops <> map (c01_stateless F64 id id child) ops /\
  c01_run F64 id id child false None ops = map (c01_stateless F64 id id child) ops.
Proof.
  cbv zeta. split; [repeat constructor|]. split; [|vm_compute; reflexivity].
  intros H. apply (f_equal (fun l => PrimFloat.eqb (c01_first_x (nth 0 l [])) 0.5%float)) in H. vm_compute in H. discriminate.
Qed.
