(* C10 -- splitting + concatenating / stacking areas gives back the original (over the reals),
   StackedAreaDefinition.get_lonlats is the row-wise concatenation of the members' (list level),
   swath slicing and concatenation. *)
From Coq Require Import Reals ZArith List Lra Lia Bool.
From Flocq Require Import Zaux Raux.
From PR Require Import Base.Num Base.RNum Base.Slice Model.Grid Proofs.Grid_real Model.SliceArea Model.Stack
     Proofs.C10_list Proofs.C10_slice.
Import ListNotations.
Open Scope R_scope.

(* ---- numpy.isclose over the reals *)
Lemma lit_pos m e : (0 < m)%Z -> 0 < lit RO m e.
Proof. intros H. cbn. apply Rmult_lt_0_compat; [apply (IZR_lt 0); exact H|apply bpow_gt_0]. Qed.
Lemma isclose_refl a : isclose RO a a = true.
Proof.
  unfold isclose. cbn [leb absf sub add mul isfinite eqb RO].
  replace (a - a) with 0 by lra. rewrite Rabs_R0.
  assert (0 < np_atol RO) by (apply lit_pos; lia).
  assert (0 < np_rtol RO) by (apply lit_pos; lia).
  pose proof (Rabs_pos a).
  assert (E : Rleb 0 (np_atol RO + np_rtol RO * Rabs a) = true) by (apply Rleb_true; nra).
  rewrite E. reflexivity.
Qed.
Lemma Reqb_refl a : Reqb a a = true.
Proof. apply Reqb_true. reflexivity. Qed.

(* ---- concatenating two vertically adjacent windows of the same area *)
Definition fullw (g : garea R) : pslice := mk_slice 0 (gwidth g).

Lemma concat_windows g (a b c : Z) g1 g2 :
  g_area g1 = sl_area g (mk_slice a b) (fullw g) -> g_area g2 = sl_area g (mk_slice b c) (fullw g) ->
  g_crs g1 = g_crs g2 ->
  exists m, concatenate_area_defs RO g1 g2 = Some m /\
            g_area m = sl_area g (mk_slice a c) (fullw g) /\
            g_id m = g_id g1 /\ g_desc m = g_desc g1 /\ g_pid m = g_pid g1 /\ g_crs m = g_crs g1.
Proof.
  intros E1 E2 Ec. unfold concatenate_area_defs, combine_area_extents_vertical, gwidth, gheight.
  rewrite E1, E2, Ec. cbn [sl_area xmin xmax ymin ymax width height sstart sstop fullw].
  rewrite !Z.eqb_refl. cbn [andb]. cbn [eqb RO]. rewrite !Reqb_refl. cbn [andb].
  rewrite isclose_refl.
  eexists. split; [reflexivity|]. unfold new_area. cbn. repeat split; try reflexivity.
  unfold sl_area. cbn [sstart sstop fullw]. f_equal. lia.
Qed.

(* the other order: the lower part first.  The code first tests whether area1 lies ABOVE area2
   (isclose(area1.ymin, area2.ymax)); that test must fail for the areas to be recognised as
   "area1 below area2" *)
Lemma concat_windows_rev g (a b c : Z) g1 g2 :
  g_area g1 = sl_area g (mk_slice a b) (fullw g) -> g_area g2 = sl_area g (mk_slice b c) (fullw g) ->
  g_crs g1 = g_crs g2 ->
  isclose RO (ymin (g_area g2)) (ymax (g_area g1)) = false ->
  exists m, concatenate_area_defs RO g2 g1 = Some m /\
            g_area m = sl_area g (mk_slice a c) (fullw g) /\ g_crs m = g_crs g2.
Proof.
  intros E1 E2 Ec Hn. unfold concatenate_area_defs, combine_area_extents_vertical, gwidth, gheight.
  rewrite Hn. rewrite E1, E2, Ec. cbn [sl_area xmin xmax ymin ymax width height sstart sstop fullw].
  rewrite !Z.eqb_refl. cbn [andb]. cbn [eqb RO]. rewrite !Reqb_refl. cbn [andb].
  rewrite isclose_refl.
  eexists. split; [reflexivity|]. unfold new_area. cbn. split; [|reflexivity].
  unfold sl_area. cbn [sstart sstop fullw]. f_equal. lia.
Qed.

Lemma sl_area_full g : wf_g g -> sl_area g (mk_slice 0 (gheight g)) (fullw g) = g_area g.
Proof.
  intros W. pose proof (getitem_full g W) as E. apply (f_equal g_area) in E.
  rewrite getitem_area in E by exact W. rewrite !indices_okey in E by (destruct W; unfold within; cbn; lia). exact E.
Qed.

Lemma rows_key_area g a b : wf_g g -> (0 <= a)%Z -> (a <= b)%Z -> (b <= gheight g)%Z ->
  g_area (area_getitem RO g (rows_key a b)) = sl_area g (mk_slice a b) (fullw g).
Proof.
  intros W H1 H2 H3. unfold rows_key. rewrite getitem_area by exact W.
  change (mk_oslice (Some a) (Some b)) with (okey (mk_slice a b)).
  rewrite indices_okey by (unfold within; cbn; lia). rewrite indices_none. reflexivity.
Qed.
Lemma rows_key_crs g a b : g_crs (area_getitem RO g (rows_key a b)) = g_crs g.
Proof. apply getitem_meta. Qed.

(* split at one row, concatenate: the original extent and shape *)
Lemma split_concat g k : wf_g g -> (1 <= k)%Z -> (k <= gheight g - 1)%Z ->
  exists m, concatenate_area_defs RO (area_getitem RO g (rows_key 0 k)) (area_getitem RO g (rows_key k (gheight g))) = Some m /\
            g_area m = g_area g /\ g_crs m = g_crs g.
Proof.
  intros W H1 H2. pose proof W as [Hw Hh].
  destruct (concat_windows g 0 k (gheight g) _ _
              (rows_key_area g 0 k W ltac:(lia) ltac:(lia) ltac:(lia))
              (rows_key_area g k (gheight g) W ltac:(lia) ltac:(lia) ltac:(lia))
              ltac:(rewrite !rows_key_crs; reflexivity)) as (m & E & Ea & _ & _ & _ & Ec).
  exists m. split; [exact E|]. rewrite Ea, Ec, rows_key_crs, sl_area_full by exact W. split; reflexivity.
Qed.

(* ---- stacking all the parts of a split at any list of cut rows (induction over the cuts) *)
Lemma height_part g a b : wf_g g -> (0 <= a)%Z -> (a < b)%Z -> (b <= gheight g)%Z ->
  (gheight (area_getitem RO g (rows_key a b)) =? 0)%Z = false.
Proof.
  intros. unfold gheight at 1. rewrite rows_key_area by (try assumption; lia). cbn. apply Z.eqb_neq. lia.
Qed.

Lemma cuts_ok_lt a cuts h : cuts_ok a cuts h -> (a < h)%Z.
Proof. revert a. induction cuts as [|k r IH]; intros a C; cbn in C; [exact C|]. destruct C as [H C]. specialize (IH _ C). lia. Qed.

Lemma stack_parts_from g cuts : wf_g g -> forall a m, (0 < a)%Z -> cuts_ok a cuts (gheight g) ->
  g_area m = sl_area g (mk_slice 0 a) (fullw g) -> g_crs m = g_crs g ->
  exists m', stack_append_all RO (mk_stack (Some (g_crs g)) [m]) (parts RO g a cuts)
             = Some (mk_stack (Some (g_crs g)) [m']) /\
             g_area m' = g_area g /\ g_crs m' = g_crs g.
Proof.
  intros W. pose proof W as [Hw Hh].
  induction cuts as [|k r IH]; intros a m Ha C Em Ec; cbn [parts stack_append_all cuts_ok] in *.
  - unfold stack_append. rewrite height_part by (try exact W; lia). cbn [s_rdefs s_crs].
    rewrite rows_key_crs, Z.eqb_refl. cbn [negb].
    destruct (concat_windows g 0 a (gheight g) m _ Em
                (rows_key_area g a (gheight g) W ltac:(lia) ltac:(lia) ltac:(lia))
                ltac:(rewrite rows_key_crs; exact Ec)) as (m' & E & Ea & _ & _ & _ & Ec').
    rewrite E. exists m'. split; [reflexivity|]. rewrite Ea, Ec', Ec, sl_area_full by exact W. split; reflexivity.
  - destruct C as [Hak C].
    assert (Hk : (k < gheight g)%Z) by (apply (cuts_ok_lt _ _ _ C)).
    unfold stack_append at 1. rewrite height_part by (try exact W; lia). cbn [s_rdefs s_crs].
    rewrite rows_key_crs, Z.eqb_refl. cbn [negb].
    destruct (concat_windows g 0 a k m _ Em
                (rows_key_area g a k W ltac:(lia) ltac:(lia) ltac:(lia))
                ltac:(rewrite rows_key_crs; exact Ec)) as (m' & E & Ea & _ & _ & _ & Ec').
    rewrite E. apply (IH k m'); [lia|exact C|exact Ea|congruence].
Qed.

Lemma stack_parts g cuts : wf_g g -> cuts_ok 0 cuts (gheight g) ->
  exists m', stack_append_all RO stack_empty (parts RO g 0 cuts) = Some (mk_stack (Some (g_crs g)) [m']) /\
             g_area m' = g_area g /\ g_crs m' = g_crs g.
Proof.
  intros W C. pose proof W as [Hw Hh]. destruct cuts as [|k r]; cbn [parts stack_append_all cuts_ok] in *.
  - unfold stack_append. rewrite height_part by (try exact W; lia). cbn [s_rdefs stack_empty].
    rewrite rows_key_crs. eexists. split; [reflexivity|].
    rewrite rows_key_area, rows_key_crs, sl_area_full by (try exact W; lia). split; reflexivity.
  - destruct C as [Hk C].
    assert (Hk' : (k < gheight g)%Z) by (apply (cuts_ok_lt _ _ _ C)).
    unfold stack_append at 1. rewrite height_part by (try exact W; lia). cbn [s_rdefs stack_empty].
    rewrite rows_key_crs.
    apply (stack_parts_from g r W k); [lia|exact C| |apply rows_key_crs].
    apply rows_key_area; try exact W; lia.
Qed.

(* ---- StackedAreaDefinition.get_lonlats at list level *)
Lemma take_slice_nil {A} s : take_slice s (@nil A) = [].
Proof. unfold take_slice. rewrite skipn_nil, firstn_nil. reflexivity. Qed.

Lemma take_slice_clamp {A} (a b : Z) (l : list A) : (0 <= a)%Z -> (0 <= b)%Z ->
  take_slice (mk_slice a b) l = take_slice (mk_slice (Z.min a (zlen l)) (Z.min b (zlen l))) l.
Proof.
  intros Ha Hb. rewrite <- (app_nil_r l) at 1. rewrite take_slice_app by assumption.
  rewrite take_slice_nil, app_nil_r. reflexivity.
Qed.

Lemma np_slice_nonneg {A} (a b : Z) (l : list A) : (0 <= a)%Z -> (0 <= b)%Z ->
  np_slice (mk_oslice (Some a) (Some b)) l = take_slice (mk_slice a b) l.
Proof.
  intros Ha Hb. unfold np_slice, indices, adj; cbn [ostart ostop].
  destruct (Z.ltb_spec a 0); [lia|]. destruct (Z.ltb_spec b 0); [lia|].
  symmetry. apply take_slice_clamp; assumption.
Qed.

Lemma stack_rows_spec {A} (rs : pslice) (cs : oslice) (ms : list (list (list A))) : forall offset,
  stack_rows rs cs offset ms =
  map (np_slice cs) (take_slice (mk_slice (Z.max (sstart rs - offset) 0) (Z.max (sstop rs - offset) 0)) (concat ms)).
Proof.
  induction ms as [|m r IH]; intros offset; cbn [stack_rows concat].
  - rewrite take_slice_nil. reflexivity.
  - assert (0 <= zlen m)%Z by (unfold zlen; lia).
    rewrite IH. rewrite take_slice_app by lia. rewrite map_app. f_equal.
    + unfold np_slice2, local_row_slice. cbn [fst snd]. f_equal.
      rewrite np_slice_nonneg by lia.
      rewrite (take_slice_clamp _ (Z.min _ _)) by lia.
      rewrite <- Z.min_assoc, Z.min_id. reflexivity.
    + replace (Z.max (Z.max (sstart rs - offset) 0 - zlen m) 0) with (Z.max (sstart rs - (offset + zlen m)) 0) by lia.
      replace (Z.max (Z.max (sstop rs - offset) 0 - zlen m) 0) with (Z.max (sstop rs - (offset + zlen m)) 0) by lia.
      reflexivity.
Qed.

(* with a data_slice whose row bounds are non-negative ints: numpy slicing of the vstacked members *)
Lemma stack_lonlats_data_slice {A} (rs : pslice) (cs : oslice) (ms : list (list (list A))) :
  (0 <= sstart rs)%Z -> (0 <= sstop rs)%Z ->
  stack_lonlats (Some (rs, cs)) ms = np_slice2 (okey rs, cs) (concat ms).
Proof.
  intros H1 H2. unfold stack_lonlats. rewrite stack_rows_spec. unfold np_slice2, okey. cbn [fst snd].
  rewrite np_slice_nonneg by assumption. rewrite !Z.sub_0_r, !Z.max_l by assumption. destruct rs; reflexivity.
Qed.

Lemma zlen_app {A} (a b : list A) : zlen (a ++ b) = (zlen a + zlen b)%Z.
Proof. unfold zlen. rewrite app_length. lia. Qed.
Lemma total_rows_concat {A} (ms : list (list (list A))) : total_rows ms = zlen (concat ms).
Proof. induction ms as [|m r IH]; cbn; [reflexivity|]. rewrite zlen_app, <- IH. reflexivity. Qed.

Lemma np_slice_full_row {A} (row : list A) w : zlen row = w ->
  np_slice (mk_oslice (Some 0%Z) (Some w)) row = row.
Proof.
  intros <-. rewrite np_slice_nonneg by (unfold zlen; lia). apply take_slice_full.
Qed.

(* without data_slice: exactly the row-wise concatenation (members of the stack's width) *)
Lemma stack_lonlats_all {A} (ms : list (list (list A))) :
  rect (concat ms) (first_width ms) -> stack_lonlats None ms = concat ms.
Proof.
  intros R. unfold stack_lonlats. rewrite stack_rows_spec. cbn [sstart sstop].
  rewrite !Z.sub_0_r, total_rows_concat. rewrite Z.max_l, Z.max_l by (unfold zlen; lia).
  rewrite take_slice_full. rewrite <- (map_id (concat ms)) at 2. apply map_ext_in.
  intros row Hin. apply np_slice_full_row. unfold rect in R. rewrite Forall_forall in R. apply R. exact Hin.
Qed.

(* the pre-fix accumulation violates the law (this is the defect fixed in /repo) *)
Example stack_rows_prefix_refuted :
  stack_rows_prefix (mk_slice 2 5) (mk_oslice None None) 0 [[[1]; [2]; [3]]; [[4]; [5]; [6]]]%Z
  <> np_slice2 (okey (mk_slice 2 5), mk_oslice None None) (concat [[[1]; [2]; [3]]; [[4]; [5]; [6]]])%Z.
Proof. vm_compute. discriminate. Qed.

(* ---- the same on areas: members' coordinate arrays through any pointwise inverse projection *)
Section Areas.
  Context {C : Type} (inv : R -> R -> C).
  Definition member_grid (g : garea R) : list (list C) := area_lonlats RO inv g None.

  Lemma zlen_member_grid g : (0 <= gheight g)%Z -> zlen (member_grid g) = gheight g.
  Proof. intros H. unfold member_grid, area_lonlats. destruct (grid_rect inv (gvec_x RO g) (gvec_y RO g)) as [_ E].
         rewrite E. apply zlen_gvec_y. exact H. Qed.

  Lemma stacked_rows_eq rs cs (defs : list (garea R)) : Forall (fun d => (0 <= gheight d)%Z) defs ->
    forall offset, stacked_rows RO inv rs cs offset defs = stack_rows rs cs offset (map member_grid defs).
  Proof.
    intros F. induction F as [|d r Hd F IH]; intros offset; cbn [stacked_rows stack_rows map]; [reflexivity|].
    rewrite IH, zlen_member_grid by exact Hd. f_equal.
    unfold area_lonlats, member_grid. apply grid_slice_commute.
  Qed.

  Lemma stacked_lonlats_data_slice rs cs (defs : list (garea R)) :
    Forall (fun d => (0 <= gheight d)%Z) defs -> (0 <= sstart rs)%Z -> (0 <= sstop rs)%Z ->
    stacked_lonlats RO inv (Some (rs, cs)) defs = np_slice2 (okey rs, cs) (concat (map member_grid defs)).
  Proof.
    intros F H1 H2. unfold stacked_lonlats. rewrite stacked_rows_eq by exact F.
    apply (stack_lonlats_data_slice rs cs (map member_grid defs) H1 H2).
  Qed.

  Lemma member_grid_rect g : (0 <= gwidth g)%Z -> rect (member_grid g) (gwidth g).
  Proof. intros H. unfold member_grid, area_lonlats. destruct (grid_rect inv (gvec_x RO g) (gvec_y RO g)) as [Rc _].
         rewrite zlen_gvec_x in Rc by exact H. exact Rc. Qed.

  Lemma stacked_lonlats_all (defs : list (garea R)) w :
    Forall (fun d => (1 <= gheight d)%Z /\ gwidth d = w) defs -> (0 <= w)%Z ->
    stacked_lonlats RO inv None defs = concat (map member_grid defs).
  Proof.
    intros F Hw. unfold stacked_lonlats.
    rewrite stacked_rows_eq by (revert F; apply Forall_impl; intros d [H _]; lia).
    assert (Et : fold_right (fun d acc => (gheight d + acc)%Z) 0%Z defs = total_rows (map member_grid defs)).
    { unfold total_rows. induction F as [|d r [Hd _] F IH]; cbn [fold_right map]; [reflexivity|].
      rewrite IH, zlen_member_grid by lia. reflexivity. }
    assert (Ew : match defs with d :: _ => gwidth d | [] => 0%Z end = first_width (map member_grid defs)).
    { destruct F as [|d r [Hd Ed] F]; [reflexivity|]. cbn [map first_width].
      pose proof (zlen_member_grid d ltac:(lia)) as L. pose proof (member_grid_rect d ltac:(lia)) as Rc.
      destruct (member_grid d) as [|row rows]; [unfold zlen in L; cbn in L; lia|].
      unfold rect in Rc. inversion Rc; subst. symmetry. assumption. }
    rewrite Et, Ew. apply (stack_lonlats_all (map member_grid defs)).
    rewrite <- Ew. unfold rect. apply Forall_concat. rewrite Forall_map.
    assert (Ew' : match defs with d :: _ => gwidth d | [] => 0%Z end = w \/ defs = []).
    { destruct F as [|d r [_ Ed] _]; [right; reflexivity|left; exact Ed]. }
    destruct Ew' as [-> | ->]; [|constructor].
    revert F. apply Forall_impl. intros d [Hd Ed]. rewrite <- Ed. apply member_grid_rect. lia.
  Qed.
End Areas.

(* ---- swaths *)
Lemma swath_split_concat {A} (s : swath A) k w :
  rect (fst s) w -> rect (snd s) w -> zlen (snd s) = zlen (fst s) -> (0 <= k <= zlen (fst s))%Z ->
  swath_concat (swath_getitem (mk_oslice (Some 0%Z) (Some k), mk_oslice None None) s)
               (swath_getitem (mk_oslice (Some k) (Some (zlen (fst s))), mk_oslice None None) s) = s.
Proof.
  intros R1 R2 E Hk. destruct s as [lons lats]; cbn [fst snd] in *.
  unfold swath_concat, swath_getitem, np_slice2; cbn [fst snd].
  assert (Hid : forall (m : list (list A)), map (np_slice (mk_oslice None None)) m = m).
  { intros m. rewrite <- (map_id m) at 2. apply map_ext. intros row. unfold np_slice. rewrite indices_none. apply take_slice_full. }
  rewrite !Hid. rewrite !np_slice_nonneg by (unfold zlen; lia).
  rewrite take_slice_split by exact Hk. rewrite <- E at 1. rewrite <- E in Hk. rewrite take_slice_split by exact Hk.
  reflexivity.
Qed.

(* rows of a concatenation selected by non-negative row bounds = the members' local selections *)
Lemma swath_concat_slice {A} (a b : list (list A)) rs cs : (0 <= sstart rs)%Z -> (0 <= sstop rs)%Z ->
  np_slice2 (okey rs, cs) (a ++ b) = stack_rows rs cs 0 [a; b].
Proof.
  intros H1 H2. pose proof (stack_lonlats_data_slice rs cs [a; b] H1 H2) as E.
  unfold stack_lonlats in E. rewrite E. cbn [concat]. rewrite app_nil_r. reflexivity.
Qed.

(* ---- isclose is false for values that are far apart (used to show that the hypothesis of the
   reversed-order theorem is satisfiable) *)
Lemma np_atol_lt : np_atol RO < 1.
Proof.
  unfold np_atol. cbn [lit RO]. unfold bpow.
  change (Z.pow_pos radix2 78) with 302231454903657293676544%Z. lra.
Qed.
Lemma np_rtol_lt : np_rtol RO < / 2.
Proof.
  unfold np_rtol. cbn [lit RO]. unfold bpow.
  change (Z.pow_pos radix2 69) with 590295810358705651712%Z. lra.
Qed.
Lemma isclose_far a b : 1 + Rabs b / 2 < Rabs (a - b) -> isclose RO a b = false.
Proof.
  intros H. unfold isclose. cbn [leb absf sub add mul isfinite eqb RO].
  pose proof np_atol_lt. pose proof np_rtol_lt. pose proof (Rabs_pos b).
  assert (0 < np_atol RO) by (apply lit_pos; lia). assert (0 < np_rtol RO) by (apply lit_pos; lia).
  assert (E1 : Rleb (Rabs (a - b)) (np_atol RO + np_rtol RO * Rabs b) = false) by (apply Rleb_false; nra).
  assert (E2 : Reqb a b = false).
  { unfold Reqb. destruct (Req_EM_T a b) as [->|]; [|reflexivity].
    replace (b - b) with 0 in H by lra. rewrite Rabs_R0 in H. lra. }
  rewrite E1, E2. reflexivity.
Qed.

(* ---- parts that reach their common edge along different slicing routes: one cut from the parent, the other from the
   already cropped window g[a:b].  Over the reals both routes give the same areas, so the parts concatenate back to
   the window. *)
Lemma window_wf g a b : wf_g g -> (0 <= a)%Z -> (a < b)%Z -> (b <= gheight g)%Z -> wf_g (area_getitem RO g (rows_key a b)).
Proof.
  intros W H1 H2 H3. pose proof W as [Hw Hh]. unfold wf_g. unfold gwidth at 1, gheight at 1.
  rewrite rows_key_area by (try exact W; lia). unfold sl_area, fullw. cbn [width height sstart sstop]. lia.
Qed.

Lemma window_part_area g a b c d : wf_g g -> (0 <= a)%Z -> (a < b)%Z -> (b <= gheight g)%Z ->
  (0 <= c)%Z -> (c <= d)%Z -> (d <= b - a)%Z ->
  g_area (area_getitem RO (area_getitem RO g (rows_key a b)) (rows_key c d)) = sl_area g (mk_slice (a + c) (a + d)) (fullw g).
Proof.
  intros W H1 H2 H3 H4 H5 H6.
  pose proof (window_wf g a b W H1 H2 H3) as W'.
  assert (Eh : gheight (area_getitem RO g (rows_key a b)) = (b - a)%Z).
  { unfold gheight. rewrite rows_key_area by (try exact W; lia). reflexivity. }
  rewrite rows_key_area by (try exact W'; rewrite ?Eh; lia).
  rewrite (sl_area_sl_area g (mk_slice a b) (fullw g) (mk_slice c d) (fullw (area_getitem RO g (rows_key a b))));
    [|cbn; lia|destruct W; cbn; lia|apply rows_key_area; try exact W; lia].
  unfold shift, fullw; cbn [sstart sstop]. unfold gwidth at 1. rewrite rows_key_area by (try exact W; lia).
  cbn [sl_area width fullw sstart sstop]. f_equal. f_equal; lia.
Qed.

Lemma split_concat_routes g a b k : wf_g g -> (0 <= a)%Z -> (a < k)%Z -> (k < b)%Z -> (b <= gheight g)%Z ->
  let win := area_getitem RO g (rows_key a b) in
  (exists m, concatenate_area_defs RO (area_getitem RO g (rows_key a k)) (area_getitem RO win (rows_key (k - a) (b - a))) = Some m /\
             g_area m = g_area win /\ g_crs m = g_crs g) /\
  (exists m, concatenate_area_defs RO (area_getitem RO win (rows_key 0 (k - a))) (area_getitem RO g (rows_key k b)) = Some m /\
             g_area m = g_area win /\ g_crs m = g_crs g).
Proof.
  intros W H1 H2 H3 H4 win. subst win.
  assert (Ew : g_area (area_getitem RO g (rows_key a b)) = sl_area g (mk_slice a b) (fullw g)) by (apply rows_key_area; try exact W; lia).
  split.
  - destruct (concat_windows g a k b (area_getitem RO g (rows_key a k))
                (area_getitem RO (area_getitem RO g (rows_key a b)) (rows_key (k - a) (b - a)))) as (m & E & Ea & _ & _ & _ & Ec).
    + apply rows_key_area; try exact W; lia.
    + rewrite window_part_area by (try exact W; lia). f_equal. f_equal; lia.
    + rewrite !rows_key_crs. reflexivity.
    + exists m. split; [exact E|]. rewrite Ea, Ec, Ew, rows_key_crs. split; reflexivity.
  - destruct (concat_windows g a k b (area_getitem RO (area_getitem RO g (rows_key a b)) (rows_key 0 (k - a)))
                (area_getitem RO g (rows_key k b))) as (m & E & Ea & _ & _ & _ & Ec).
    + rewrite window_part_area by (try exact W; lia). f_equal. f_equal; lia.
    + apply rows_key_area; try exact W; lia.
    + rewrite !rows_key_crs. reflexivity.
    + exists m. split; [exact E|]. rewrite Ea, Ec, Ew, !rows_key_crs. split; reflexivity.
Qed.
