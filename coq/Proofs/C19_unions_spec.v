(* Statement of the merge theorem for C19 (proof in Proofs/C19_unions.v). *)
From Coq Require Import ZArith List Lia Bool Permutation Relations.
From PR Require Import Model.Unions.
Import ListNotations.

Section Spec.
  Context {G : Type} (overlaps : G -> G -> bool) (union : G -> G -> G).

  (* what the property assumes of the geometry: overlap is symmetric and a union overlaps exactly
     what one of its parts overlaps (true of sets; for spherical polygons it is the named hypothesis) *)
  Definition geom_ok : Prop :=
    (forall a b, overlaps a b = overlaps b a) /\
    (forall a b c, overlaps (union a b) c = overlaps a c || overlaps b c).

  Definition members (e : @entry G) : list nat := flat (fst e).

  (* overlap graph on input indices, and its connectivity relation *)
  Definition ov (gs : list G) (i j : nat) : Prop :=
    exists a b, nth_error gs i = Some a /\ nth_error gs j = Some b /\ overlaps a b = true.
  Definition conn (gs : list G) : nat -> nat -> Prop := clos_refl_sym_trans nat (ov gs).

  Definition same_union (res : list (@entry G)) (i j : nat) : Prop :=
    exists e, In e res /\ In i (members e) /\ In j (members e).

  (* the result of merging: every input index in exactly one union; unions pairwise non-overlapping;
     two inputs share a union iff they are connected in the overlap graph (= connected components);
     each union behaves, for overlap tests, as the union of its members *)
  Definition merge_correct (gs : list G) (res : list (@entry G)) : Prop :=
    Permutation (concat (map members res)) (seq 0 (length gs)) /\
    find_pair overlaps res = None /\
    (forall i j, i < length gs -> j < length gs -> (same_union res i j <-> conn gs i j)) /\
    (forall e c, In e res -> overlaps (snd e) c = existsb (fun i => match nth_error gs i with Some g => overlaps g c | None => false end) (members e)).
End Spec.
