(* C11: the definitions regenerated from the SwathSlicer loops (tools/py2coq_imp.py, Gen/GenC11imp.v) are the hand model
   (Model/Crop.v: chunk_boxes, select, assemble, swath_slices). *)
From Coq Require Import ZArith List Lia Bool.
From PR Require Import Base.ZX Base.Slice Base.Imp Model.Partition Model.Crop Model.CropImp Gen.GenSubset Gen.GenC19 Gen.GenC11imp
     Proofs.C19_imp_chunks.
Import ListNotations.
Open Scope Z_scope.

Lemma zlen_cons_nz {A} (x : A) l : (zlen (x :: l) =? 0) = false.
Proof. unfold zlen. apply Z.eqb_neq. cbn [length]. lia. Qed.
Lemma zlen_nil_z {A} : (zlen (@nil A) =? 0) = true.
Proof. reflexivity. Qed.

Lemma lmin_hull (l0 : pslice) ls : lmin (sstart l0 :: map (fun s_ : pslice => sstart s_) ls) = hull_start ls (sstart l0).
Proof. unfold lmin, hull_start. induction ls as [|x r IH]; cbn [map fold_right]; [reflexivity|now rewrite IH]. Qed.
Lemma lmax_hull (l0 : pslice) ls : lmax (sstop l0 :: map (fun s_ : pslice => sstop s_) ls) = hull_stop ls (sstop l0).
Proof. unfold lmax, hull_stop. induction ls as [|x r IH]; cbn [map fold_right]; [reflexivity|now rewrite IH]. Qed.

(* ---- SwathSlicer._assemble_slices ---- *)
Lemma imp_assemble_slices_value boxes :
  value_of (imp_assemble_slices boxes) = match assemble boxes with Some r => COk r | None => CRaised end.
Proof.
  destruct boxes as [|[l0 c0] r].
  - reflexivity.
  - unfold imp_assemble_slices.
    rewrite seq_assoc, andthen_check. cbv beta.
    cbn [imp_assemble_slices_chunk_slices imp_assemble_slices_lines imp_assemble_slices_cols imp_assemble_slices_line_slice
         imp_assemble_slices_col_slice imp_assemble_slices_slices
         imp_assemble_slices_set_lines imp_assemble_slices_set_cols imp_assemble_slices_set_line_slice
         imp_assemble_slices_set_col_slice imp_assemble_slices_set_slices].
    rewrite zlen_cons_nz. cbn [negb]. rewrite andthen_assign. cbv beta.
    cbn [imp_assemble_slices_chunk_slices imp_assemble_slices_lines imp_assemble_slices_cols imp_assemble_slices_line_slice
         imp_assemble_slices_col_slice imp_assemble_slices_slices
         imp_assemble_slices_set_lines imp_assemble_slices_set_cols imp_assemble_slices_set_line_slice
         imp_assemble_slices_set_col_slice imp_assemble_slices_set_slices fst snd map].
    rewrite seq_assoc, andthen_check. cbv beta.
    cbn [imp_assemble_slices_chunk_slices imp_assemble_slices_lines imp_assemble_slices_cols imp_assemble_slices_line_slice
         imp_assemble_slices_col_slice imp_assemble_slices_slices
         imp_assemble_slices_set_lines imp_assemble_slices_set_cols imp_assemble_slices_set_line_slice
         imp_assemble_slices_set_col_slice imp_assemble_slices_set_slices].
    rewrite zlen_cons_nz. cbn [negb andb]. rewrite andthen_assign. cbv beta.
    cbn [imp_assemble_slices_chunk_slices imp_assemble_slices_lines imp_assemble_slices_cols imp_assemble_slices_line_slice
         imp_assemble_slices_col_slice imp_assemble_slices_slices
         imp_assemble_slices_set_lines imp_assemble_slices_set_cols imp_assemble_slices_set_line_slice
         imp_assemble_slices_set_col_slice imp_assemble_slices_set_slices].
    rewrite seq_assoc, andthen_check. cbv beta.
    cbn [imp_assemble_slices_chunk_slices imp_assemble_slices_lines imp_assemble_slices_cols imp_assemble_slices_line_slice
         imp_assemble_slices_col_slice imp_assemble_slices_slices
         imp_assemble_slices_set_lines imp_assemble_slices_set_cols imp_assemble_slices_set_line_slice
         imp_assemble_slices_set_col_slice imp_assemble_slices_set_slices].
    rewrite zlen_cons_nz. cbn [negb andb]. rewrite andthen_assign. cbv beta.
    rewrite andthen_assign. cbv beta.
    cbn [imp_assemble_slices_chunk_slices imp_assemble_slices_lines imp_assemble_slices_cols imp_assemble_slices_line_slice
         imp_assemble_slices_col_slice imp_assemble_slices_slices
         imp_assemble_slices_set_lines imp_assemble_slices_set_cols imp_assemble_slices_set_line_slice
         imp_assemble_slices_set_col_slice imp_assemble_slices_set_slices ret value_of assemble].
    cbn [map fst snd].
    rewrite (lmin_hull l0 (map fst r)), (lmax_hull l0 (map fst r)), (lmin_hull c0 (map snd r)), (lmax_hull c0 (map snd r)).
    reflexivity.
Qed.

(* ---- SwathSlicer.get_slices_from_polygon ---- *)
Section Swath.
  Context {SW E P : Type} (sw_chunks : SW -> list (list Z)) (sw_crop : SW -> pslice -> pslice -> SW)
          (edge_lonlats : SW -> Z -> E * E) (hstack : E -> E) (hits : P -> P -> bool) (sw0 : SW) (e0 : E) (p0 : P).

  Ltac sp_proj := cbn [imp_swath_slices_from_polygon_poly imp_swath_slices_from_polygon_chunk_polys
                       imp_swath_slices_from_polygon_intersecting_chunk_slices imp_swath_slices_from_polygon_smaller_poly
                       imp_swath_slices_from_polygon_slices imp_swath_slices_from_polygon__ret
                       imp_swath_slices_from_polygon_set_intersecting_chunk_slices imp_swath_slices_from_polygon_set_smaller_poly
                       imp_swath_slices_from_polygon_set_slices imp_swath_slices_from_polygon_set__ret fst snd].

  Ltac sp_proj_in H := cbn [imp_swath_slices_from_polygon_poly imp_swath_slices_from_polygon_chunk_polys
                       imp_swath_slices_from_polygon_intersecting_chunk_slices imp_swath_slices_from_polygon_smaller_poly
                       imp_swath_slices_from_polygon_slices imp_swath_slices_from_polygon__ret
                       imp_swath_slices_from_polygon_set_intersecting_chunk_slices imp_swath_slices_from_polygon_set_smaller_poly
                       imp_swath_slices_from_polygon_set_slices imp_swath_slices_from_polygon_set__ret fst snd app] in H.

  (* the chunks whose polygon intersects the polygon to contain, in enumeration order *)
  Definition hit_boxes (poly : P) (cps : list (P * (pslice * pslice))) : list (pslice * pslice) :=
    map snd (filter (fun cp => hits (fst cp) poly) cps).

  Lemma filter_loop (body : M (@imp_swath_slices_from_polygon_st P) Empty_set (pslice * pslice)) bind :
    body = ite (fun s => hits (imp_swath_slices_from_polygon_smaller_poly s) (imp_swath_slices_from_polygon_poly s))
               (assign (fun s => imp_swath_slices_from_polygon_set_intersecting_chunk_slices
                                   (imp_swath_slices_from_polygon_intersecting_chunk_slices s ++ [imp_swath_slices_from_polygon_slices s]) s))
               skip ->
    bind = (fun (x_ : P * (pslice * pslice)) s =>
              imp_swath_slices_from_polygon_set_slices (snd x_) (imp_swath_slices_from_polygon_set_smaller_poly (fst x_) s)) ->
    forall cps s, exists s', for_list cps bind body s = Fall [] s' /\
      imp_swath_slices_from_polygon_intersecting_chunk_slices s'
        = imp_swath_slices_from_polygon_intersecting_chunk_slices s ++ hit_boxes (imp_swath_slices_from_polygon_poly s) cps /\
      imp_swath_slices_from_polygon_poly s' = imp_swath_slices_from_polygon_poly s.
  Proof.
    intros -> ->. induction cps as [|[p b] cps IH]; intros s.
    - exists s. cbn. rewrite app_nil_r. auto.
    - cbn [for_list]. unfold andthen at 1. cbv beta. rewrite ite_eval. sp_proj.
      unfold hit_boxes. cbn [filter fst].
      destruct (hits p (imp_swath_slices_from_polygon_poly s)) eqn:Hh.
      + rewrite assign_eval. sp_proj.
        match goal with |- context [for_list cps _ _ ?st] => destruct (IH st) as (s' & E1 & H1 & H2) end.
        (match type of E1 with ?L = _ =>
           match goal with |- context [for_list cps ?a0 ?b0 ?c0] => change (for_list cps a0 b0 c0) with L end end).
        rewrite E1. cbn [prepend app]. exists s'. split; [reflexivity|].
        rewrite H1, H2. sp_proj. split; [|reflexivity].
        cbn [map snd]. rewrite <- app_assoc. reflexivity.
      + unfold skip.
        match goal with |- context [for_list cps _ _ ?st] => destruct (IH st) as (s' & E1 & H1 & H2) end.
        (match type of E1 with ?L = _ =>
           match goal with |- context [for_list cps ?a0 ?b0 ?c0] => change (for_list cps a0 b0 c0) with L end end).
        rewrite E1. cbn [prepend app]. exists s'. split; [reflexivity|].
        rewrite H1, H2. sp_proj. split; reflexivity.
  Qed.

  Lemma imp_swath_slices_value poly cps :
    value_of (imp_swath_slices_from_polygon hits p0 poly cps)
    = match assemble (hit_boxes poly cps) with Some r => COk r | None => CRaised end.
  Proof.
    unfold imp_swath_slices_from_polygon.
    rewrite andthen_assign. cbv beta. sp_proj.
    unfold for_. 
    match goal with |- context [andthen (fun s => for_list _ ?bind ?body s) ?k ?st] =>
      destruct (filter_loop body bind eq_refl eq_refl cps st) as (s' & E1 & H1 & H2);
      rewrite (andthen_fall (fun s => for_list (imp_swath_slices_from_polygon_chunk_polys s) bind body s) k st [] s')
    end.
    2: { sp_proj. exact E1. }
    cbn [prepend app]. sp_proj. sp_proj_in H1. sp_proj_in H2.
    rewrite andthen_ite. rewrite H1.
    destruct (hit_boxes poly cps) as [|b bs] eqn:Hb.
    - cbn. reflexivity.
    - rewrite zlen_cons_nz. rewrite andthen_skip.
      unfold andthen, call_. rewrite H1.
      rewrite (imp_assemble_slices_value (b :: bs)).
      destruct (assemble (b :: bs)) as [r|] eqn:Ha.
      + cbn. reflexivity.
      + reflexivity.
  Qed.

  (* ---- _get_chunk_bboxes_for_swath_to_crop ---- *)
  Ltac cb_proj := cbn [imp_chunk_bboxes_swath_to_crop imp_chunk_bboxes_res imp_chunk_bboxes_src_chunks imp_chunk_bboxes__position
                       imp_chunk_bboxes_line_slice imp_chunk_bboxes_col_slice imp_chunk_bboxes_smaller_swath imp_chunk_bboxes_lons
                       imp_chunk_bboxes_lats imp_chunk_bboxes__ret
                       imp_chunk_bboxes_set_res imp_chunk_bboxes_set_src_chunks imp_chunk_bboxes_set__position
                       imp_chunk_bboxes_set_line_slice imp_chunk_bboxes_set_col_slice imp_chunk_bboxes_set_smaller_swath
                       imp_chunk_bboxes_set_lons imp_chunk_bboxes_set_lats imp_chunk_bboxes_set__ret fst snd].

  (* what the loop stores for one block: the (oracle) edge of the swath cropped to the EXPANDED slices, and those slices *)
  Definition box_entry (sw : SW) (e : list Z * (pslice * pslice)) : (E * E) * (pslice * pslice) :=
    let l := gen_expand_slice (fst (snd e)) in
    let c := gen_expand_slice (snd (snd e)) in
    let edge := edge_lonlats (sw_crop sw l c) 10 in
    ((hstack (fst edge), hstack (snd edge)), (l, c)).

  Lemma bbox_loop (body : M (@imp_chunk_bboxes_st SW E) Empty_set (list ((E * E) * (pslice * pslice)))) bind :
    body = (andthen (assign (fun s => imp_chunk_bboxes_set_line_slice (gen_expand_slice (imp_chunk_bboxes_line_slice s)) s))
           (andthen (assign (fun s => imp_chunk_bboxes_set_col_slice (gen_expand_slice (imp_chunk_bboxes_col_slice s)) s))
           (andthen (assign (fun s => imp_chunk_bboxes_set_smaller_swath
                                        (sw_crop (imp_chunk_bboxes_swath_to_crop s) (imp_chunk_bboxes_line_slice s) (imp_chunk_bboxes_col_slice s)) s))
           (andthen (assign (fun s => (fun (x_ : E * E) s => imp_chunk_bboxes_set_lats (snd x_) (imp_chunk_bboxes_set_lons (fst x_) s))
                                        (edge_lonlats (imp_chunk_bboxes_smaller_swath s) 10) s))
           (andthen (assign (fun s => imp_chunk_bboxes_set_lons (hstack (imp_chunk_bboxes_lons s)) s))
           (andthen (assign (fun s => imp_chunk_bboxes_set_lats (hstack (imp_chunk_bboxes_lats s)) s))
                    (assign (fun s => imp_chunk_bboxes_set_res
                                        (imp_chunk_bboxes_res s ++ [((imp_chunk_bboxes_lons s, imp_chunk_bboxes_lats s),
                                                                     (imp_chunk_bboxes_line_slice s, imp_chunk_bboxes_col_slice s))]) s)))))))) ->
    bind = (fun (x_ : list Z * (pslice * pslice)) s =>
              imp_chunk_bboxes_set_col_slice (snd (snd x_)) (imp_chunk_bboxes_set_line_slice (fst (snd x_))
                (imp_chunk_bboxes_set__position (fst x_) s))) ->
    forall blocks s, exists s', for_list blocks bind body s = Fall [] s' /\
      imp_chunk_bboxes_res s' = imp_chunk_bboxes_res s ++ map (box_entry (imp_chunk_bboxes_swath_to_crop s)) blocks /\
      imp_chunk_bboxes_swath_to_crop s' = imp_chunk_bboxes_swath_to_crop s.
  Proof.
    intros -> ->. induction blocks as [|[pos [l c]] blocks IH]; intros s.
    - exists s. cbn. rewrite app_nil_r. auto.
    - cbn [for_list]. unfold andthen at 1. cbv beta.
      rewrite !andthen_assign, assign_eval. cb_proj.
      match goal with |- context [for_list blocks _ _ ?st] => destruct (IH st) as (s' & E1 & H1 & H2) end.
      (match type of E1 with ?L = _ =>
         match goal with |- context [for_list blocks ?a0 ?b0 ?c0] => change (for_list blocks a0 b0 c0) with L end end).
      rewrite E1. cbn [prepend app]. exists s'. split; [reflexivity|].
      rewrite H1, H2. cb_proj. split; [|reflexivity].
      cbn [map]. rewrite <- app_assoc. reflexivity.
  Qed.

  Lemma imp_chunk_bboxes_value sw :
    value_of (imp_chunk_bboxes sw_chunks sw_crop edge_lonlats hstack sw0 e0 sw) = COk (map (box_entry sw) (blocks2 (sw_chunks sw))).
  Proof.
    unfold imp_chunk_bboxes.
    rewrite !andthen_assign. cbv beta. cb_proj. unfold for_.
    match goal with |- context [andthen (fun s => for_list _ ?bind ?body s) ?k ?st] =>
      destruct (bbox_loop body bind eq_refl eq_refl (blocks2 (sw_chunks sw)) st) as (s' & E1 & H1 & H2);
      rewrite (andthen_fall (fun s => for_list (blocks2 (imp_chunk_bboxes_src_chunks s)) bind body s) k st [] s')
    end.
    2: { cb_proj. exact E1. }
    cbn [prepend app ret value_of]. cbn [imp_chunk_bboxes_swath_to_crop imp_chunk_bboxes_res imp_chunk_bboxes_set_res
                                          imp_chunk_bboxes_set_src_chunks app] in H1.
    rewrite H1. reflexivity.
  Qed.
End Swath.

(* the slices stored per chunk are the model's chunk boxes (expanded slices of the blocks of the 2-D chunking) *)
Lemma blocks2_boxes chunks :
  map (fun e : list Z * (pslice * pslice) => (gen_expand_slice (fst (snd e)), gen_expand_slice (snd (snd e)))) (blocks2 chunks)
  = chunk_boxes chunks.
Proof.
  unfold blocks2, chunk_boxes. rewrite imp_enumerate_chunk_slices_yields.
  induction (enumerate_chunk_slices chunks) as [|blk r IH]; [reflexivity|].
  cbn [map flat_map]. rewrite map_app, IH. f_equal.
  destruct blk as [|a [|b [|c0 t]]]; reflexivity.
Qed.

(* pairing each chunk's polygon with its box and keeping the hit ones = selecting the boxes by the hit bits *)
Lemma hit_boxes_select {P : Type} (hits : P -> P -> bool) (poly : P) : forall (polys : list P) (boxes : list (pslice * pslice)),
  hit_boxes hits poly (combine polys boxes) = select boxes (map (fun p => hits p poly) polys).
Proof.
  unfold hit_boxes, select. induction polys as [|p polys IH]; intros boxes.
  - destruct boxes; reflexivity.
  - destruct boxes as [|b boxes]; [reflexivity|].
    cbn [combine map filter fst snd]. destruct (hits p poly); cbn [map fst snd]; rewrite IH; reflexivity.
Qed.

(* the whole SwathSlicer arithmetic, code against model: for any chunking, any oracles and any chunk polygons, the translated
   _get_chunk_bboxes_for_swath_to_crop stores the model's chunk boxes, and the translated get_slices_from_polygon over
   (polygon, box) pairs returns the model's swath_slices for the hit bits, raising exactly when no chunk is hit *)
Theorem swath_code_is_model {SW E P : Type} (sw_chunks : SW -> list (list Z)) (sw_crop : SW -> pslice -> pslice -> SW)
    (edge_lonlats : SW -> Z -> E * E) (hstack : E -> E) (hits : P -> P -> bool) (sw0 : SW) (e0 : E) (p0 : P)
    (sw : SW) (poly : P) (polys : list P) :
  exists bboxes, value_of (imp_chunk_bboxes sw_chunks sw_crop edge_lonlats hstack sw0 e0 sw) = COk bboxes /\
    map snd bboxes = chunk_boxes (sw_chunks sw) /\
    value_of (imp_swath_slices_from_polygon hits p0 poly (combine polys (map snd bboxes)))
    = match swath_slices (sw_chunks sw) (map (fun p => hits p poly) polys) with Some r => COk r | None => CRaised end.
Proof.
  eexists. split; [apply imp_chunk_bboxes_value|].
  assert (B : map snd (map (box_entry sw_crop edge_lonlats hstack sw) (blocks2 (sw_chunks sw))) = chunk_boxes (sw_chunks sw)).
  { rewrite map_map. rewrite <- blocks2_boxes. apply map_ext. intros e. reflexivity. }
  split; [exact B|].
  rewrite B, imp_swath_slices_value, hit_boxes_select. reflexivity.
Qed.
