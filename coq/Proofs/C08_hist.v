(* C08: the resampler OBJECT.  persist=True (dropped chunks left out of the block cache) gives the same cells as
   persist=False (dropped chunks kept as placeholders); any history of resample() calls on one object gives, call by
   call, what a fresh object gives (the cache is a function of the geometry); ll2cr applied chunk by chunk
   (dask map_blocks, legacy resampler) is ll2cr of the whole swath; input chunks are scan aligned.
   All generic in the arithmetic: no property of + or < is used. *)
From Coq Require Import ZArith Lia List Bool.
From PR Require Import Base.Num Model.Grid Model.EWA.
Import ListNotations.
Open Scope Z_scope.

Section Generic.
  Context {T : Type} (OP : ops T).

  Lemma combine_opt_none_r mwm (a : option (T * T)) : combine_opt OP mwm a None = a.
  Proof. destruct a; reflexivity. Qed.

  (* placeholders are transparent for the reduction: leaving any of them out changes nothing *)
  Lemma fold_combine_select mwm c (mask : list bool) (chunks : list (bool * list (pixel T))) acc :
    length mask = length chunks ->
    (forall i, nth i mask true = false -> fst (nth i chunks (true, [])) = true) ->
    fold_left (combine_opt OP mwm) (map (fun ic => delayed_cell OP mwm ic c) (select mask chunks)) acc
    = fold_left (combine_opt OP mwm) (map (fun ic => delayed_cell OP mwm ic c) chunks) acc.
  Proof.
    revert chunks acc. induction mask as [|m mask IH]; intros [|ic chunks] acc Hl H; try discriminate; [reflexivity|].
    cbn [length] in Hl. injection Hl as Hl.
    assert (H' : forall i, nth i mask true = false -> fst (nth i chunks (true, [])) = true) by (intros i; apply (H (S i))).
    cbn [select]. destruct m.
    - cbn [map fold_left]. apply IH; assumption.
    - pose proof (H O eq_refl) as H0. cbn [nth] in H0. cbn [map fold_left].
      assert (E : delayed_cell OP mwm ic c = None) by (unfold delayed_cell; rewrite H0; reflexivity).
      rewrite E, combine_opt_none_r. apply IH; assumption.
  Qed.

  Lemma dask_cell_select mwm smin rounding c (mask : list bool) (chunks : list (bool * list (pixel T))) :
    length mask = length chunks ->
    (forall i, nth i mask true = false -> fst (nth i chunks (true, [])) = true) ->
    dask_cell OP mwm smin rounding (select mask chunks) c = dask_cell OP mwm smin rounding chunks c.
  Proof.
    intros Hl H. unfold dask_cell, average_cell_s, combine. rewrite fold_combine_select by assumption. reflexivity.
  Qed.

  Lemma select_all {A} (l : list A) : select (map (fun _ => true) l) l = l.
  Proof. induction l as [|x l IH]; cbn; [reflexivity | rewrite IH; reflexivity]. Qed.

  (* a cache is VALID for the geometry [dr] when it only leaves out chunks ll2cr dropped *)
  Definition valid_mask (dr mask : list bool) : Prop :=
    length mask = length dr /\ forall i, nth i mask true = false -> nth i dr false = true.
  (* the chunks of a call are CONSISTENT with the geometry: a chunk ll2cr dropped is a placeholder for every block *)
  Definition consistent (dr : list bool) (chunks : list (bool * list (pixel T))) : Prop :=
    length chunks = length dr /\ forall i, nth i dr false = true -> fst (nth i chunks (true, [])) = true.

  Lemma nth_map_true (l : list bool) i : nth i (map (fun _ : bool => true) l) true = true.
  Proof. revert i. induction l as [|x l IH]; intros [|i]; cbn; auto. Qed.

  Lemma precompute_valid dr persist cache :
    match cache with Some m => valid_mask dr m | None => True end ->
    match precompute dr persist cache with Some m => valid_mask dr m | None => False end.
  Proof.
    destruct cache as [m|]; [intros H; exact H|]. intros _. unfold precompute. destruct persist; split.
    - apply map_length.
    - intros i Hi. change (nth i (map negb dr) (negb false) = false) in Hi. rewrite (map_nth negb dr false i) in Hi.
      apply negb_false_iff in Hi. assumption.
    - apply map_length.
    - intros i Hi. rewrite nth_map_true in Hi. discriminate.
  Qed.

  Lemma resample_call_fresh dr mwm smin rounding c cache call :
    match cache with Some m => valid_mask dr m | None => True end ->
    consistent dr (snd call) ->
    snd (resample_call OP dr mwm smin rounding c cache call) = dask_cell OP mwm smin rounding (snd call) c /\
    match fst (resample_call OP dr mwm smin rounding c cache call) with Some m => valid_mask dr m | None => False end.
  Proof.
    intros Hv [Hc1 Hc2]. unfold resample_call. cbn [fst snd].
    pose proof (precompute_valid dr (fst call) cache Hv) as Hp. unfold in_chunk in *.
    destruct (precompute dr (fst call) cache) as [m|]; [|contradiction]. change (valid_mask dr m) in Hp. split; [|exact Hp].
    destruct Hp as [Hm1 Hm2]. apply dask_cell_select; [congruence|]. intros i Hi. apply Hc2. apply Hm2. assumption.
  Qed.

  (* any history of resample() calls on one object: every call returns what a fresh object returns *)
  Theorem history_is_stateless dr mwm smin rounding c calls cache :
    match cache with Some m => valid_mask dr m | None => True end ->
    Forall (fun call => consistent dr (snd call)) calls ->
    run_history OP dr mwm smin rounding c cache calls = map (fun call => dask_cell OP mwm smin rounding (snd call) c) calls.
  Proof.
    revert cache. induction calls as [|call calls IH]; intros cache Hv Hc; [reflexivity|].
    inversion Hc as [|? ? Hc1 Hc2]; subst. cbn [run_history map].
    destruct (resample_call_fresh dr mwm smin rounding c cache call Hv Hc1) as [E1 E2].
    destruct (resample_call OP dr mwm smin rounding c cache call) as [cache' out]. cbn [fst snd] in *. subst out.
    f_equal. apply IH; [|assumption]. destruct cache'; [assumption|contradiction].
  Qed.

  (* persist=True = persist=False, on a fresh object *)
  Corollary persist_is_transparent dr mwm smin rounding c chunks :
    consistent dr chunks ->
    snd (resample_call OP dr mwm smin rounding c None (true, chunks)) =
    snd (resample_call OP dr mwm smin rounding c None (false, chunks)).
  Proof.
    intros Hc.
    destruct (resample_call_fresh dr mwm smin rounding c None (true, chunks) I Hc) as [E1 _].
    destruct (resample_call_fresh dr mwm smin rounding c None (false, chunks) I Hc) as [E2 _].
    rewrite E1, E2. reflexivity.
  Qed.

  (* ---- ll2cr chunk by chunk (dask map_blocks over _call_ll2cr; LegacyDaskEWAResampler._call_ll2cr) *)
  Lemma count_true_app l1 l2 : count_true (l1 ++ l2) = count_true l1 + count_true l2.
  Proof.
    unfold count_true. rewrite fold_left_app.
    generalize (fold_left (fun (n : Z) (b : bool) => if b then n + 1 else n) l1 0). revert l2.
    assert (G : forall l n, fold_left (fun (n : Z) (b : bool) => if b then n + 1 else n) l n
                            = n + fold_left (fun (n : Z) (b : bool) => if b then n + 1 else n) l 0).
    { induction l as [|b l IH]; intros n; cbn [fold_left]; [lia|]. rewrite IH. rewrite (IH (if b then 0 + 1 else 0)).
      destruct b; lia. }
    intros l2 n. apply G.
  Qed.

  Theorem ll2cr_chunked (a : area T) fill (chunks : list (list (T * T))) :
    snd (ll2cr OP a fill (concat chunks)) = concat (map (fun ch => snd (ll2cr OP a fill ch)) chunks) /\
    fst (ll2cr OP a fill (concat chunks)) = fold_right Z.add 0 (map (fun ch => fst (ll2cr OP a fill ch)) chunks).
  Proof.
    unfold ll2cr, ll2cr_static. cbn [fst snd]. induction chunks as [|ch chunks [IH1 IH2]]; [split; reflexivity|].
    cbn [concat map fold_right]. split.
    - rewrite !map_app. rewrite IH1. reflexivity.
    - rewrite !map_app, count_true_app. rewrite IH2. reflexivity.
  Qed.
End Generic.

(* ---- scan alignment of the input chunks *)
Lemma scan_aligned_spec auto_rows rps :
  0 < rps -> exists k, 1 <= k /\ scan_aligned_rows auto_rows rps = k * rps.
Proof. intros H. exists (Z.max (auto_rows / rps) 1). split; [lia | reflexivity]. Qed.
