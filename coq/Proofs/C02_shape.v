(* C02, wave 3: the shape / dtype law of get_sample_from_neighbour_info('nn', ...) proved on the closed form that the
   TRANSLATED code computes (Proofs/C02_imp.v): for every accepted layout of the data argument -- (n,), (n, k),
   (rows, cols), (rows, cols, k) with rows * cols = n -- and 1-D or 2-D target shape, the call does not raise and returns
   an array of the target's shape (+ [k] for multi-channel data) with the input dtype; masked multi-channel data with
   k = 1 loses the channel axis (the known finding), stated as is. *)
From Coq Require Import ZArith Bool List Lia.
From PR Require Import Base.ListX Base.Imp Model.KDTree Model.NdArr Proofs.C02_lists.
Import ListNotations.
Open Scope Z_scope.

Section Shape.
  Context {V : Type} (veqb : V -> V -> bool) (vzero vone : V) (sentinel_of : Z -> V).
  Notation arr := (nda V).

  (* ---- shape[i] ---- *)
  Lemma dim0 {A} (a : nda A) x r : a_shape a = x :: r -> nd_dim_ok a 0 = true /\ nd_dim a 0 = x.
  Proof.
    intros H. unfold nd_dim_ok, nd_dim, idx_ok, idx, zlen. rewrite H. cbn [length]. split; [|reflexivity].
    apply andb_true_iff. split; [apply Z.leb_le|apply Z.ltb_lt]; lia.
  Qed.
  Lemma dim1 {A} (a : nda A) x y r : a_shape a = x :: y :: r -> nd_dim_ok a 1 = true /\ nd_dim a 1 = y.
  Proof.
    intros H. unfold nd_dim_ok, nd_dim, idx_ok, idx, zlen. rewrite H. cbn [length]. split; [|reflexivity].
    apply andb_true_iff. split; [apply Z.leb_le|apply Z.ltb_lt]; lia.
  Qed.
  Lemma dim2 {A} (a : nda A) x y z r : a_shape a = x :: y :: z :: r -> nd_dim_ok a 2 = true /\ nd_dim a 2 = z.
  Proof.
    intros H. unfold nd_dim_ok, nd_dim, idx_ok, idx, zlen. rewrite H. cbn [length]. split; [|reflexivity].
    apply andb_true_iff. split; [apply Z.leb_le|apply Z.ltb_lt]; lia.
  Qed.
  Lemma ndim_of {A} (a : nda A) s : a_shape a = s -> nd_ndim a = zlen s.
  Proof. intros <-. reflexivity. Qed.
  Lemma last_of (a : arr) s x : a_shape a = s ++ [x] -> nd_dim_ok a (-1) = true /\ nd_last a = x.
  Proof.
    intros H. unfold nd_dim_ok, nd_last, idx_ok, idx, zlen. rewrite H, app_length. cbn [length]. split.
    - apply andb_true_iff. split; [apply Z.leb_le|apply Z.ltb_lt]; lia.
    - replace (-1 <? 0) with true by reflexivity.
      replace (Z.to_nat (-1 + Z.of_nat (length s + 1))) with (length s) by lia.
      rewrite app_nth2, Nat.sub_diag by lia. reflexivity.
  Qed.

  Lemma zlen_map {A B} (f : A -> B) l : zlen (map f l) = zlen l.
  Proof. unfold zlen. now rewrite map_length. Qed.
  Lemma zlen_map2_same {A B C} (f : A -> B -> C) (g : B -> A) l : zlen (map2 f (map g l) l) = zlen l.
  Proof. unfold zlen. rewrite length_map2, map_length, Nat.min_id. reflexivity. Qed.

  (* the gather indices are in range: entries equal to n are redirected to 0, the others lie in [0, n) *)
  Lemma take_indices_ok (l : list Z) n : 0 < n -> (forall i, In i l -> 0 <= i <= n) ->
    forallb (fun i => (- n <=? i) && (i <? n)) (map2 (fun (b : bool) i => if b then 0 else i) (map (fun i => i =? n) l) l) = true.
  Proof.
    intros Hn. induction l as [|x l IH]; intros H; [reflexivity|].
    cbn [map map2 forallb]. rewrite IH by (intros i Hi; apply H; right; exact Hi).
    specialize (H x (or_introl eq_refl)). rewrite andb_true_r. destruct (Z.eqb_spec x n); apply andb_true_iff;
      split; first [apply Z.leb_le|apply Z.ltb_lt]; lia.
  Qed.

  (* ---- _prepare_result on a raw result of shape [osize] / [osize; W] ---- *)
  Lemma prepare_shape (full : arr) (raw final : list Z) (is_masked use_mf : bool) fillv dt (W : Z) (oshape : list Z) (wide : bool) :
    a_shape full = raw -> prodZ final = prodZ raw -> forallb (fun d => 0 <=? d) final = true ->
    final = (if wide then oshape ++ [W] else oshape) -> (is_masked = true -> wide = true) ->
    exists r, nd_prepare veqb vzero vone full final is_masked use_mf fillv (Some dt) = Some r /\ a_dtype r = dt /\
              a_shape r = if is_masked then (if W / 2 =? 1 then oshape else oshape ++ [W / 2]) else final.
  Proof.
    intros Hf Hp Hnn Hfin Hmw. unfold nd_prepare, nd_reshape_ok. rewrite Hf, Hp, Z.eqb_refl, Hnn. cbn [andb].
    destruct is_masked.
    - rewrite (Hmw eq_refl) in Hfin.
      assert (Hs1 : a_shape (nd_reshape full final) = oshape ++ [W]) by (rewrite Hfin; reflexivity).
      destruct (last_of _ _ _ Hs1) as [Hok Hlast]. rewrite Hok. cbn [negb andb].
      eexists. split; [reflexivity|]. split; [destruct use_mf; reflexivity|].
      assert (Hrm : a_shape (nd_remask veqb vzero vone (nd_reshape full final)) = if W / 2 =? 1 then oshape else oshape ++ [W / 2]).
      { unfold nd_remask. rewrite Hlast.
        set (r := nd_with_mask veqb vzero _ _).
        assert (Hr : a_shape r = oshape ++ [W / 2]).
        { unfold r, nd_with_mask, nd_last_to. cbn [a_shape]. rewrite Hs1, removelast_last. reflexivity. }
        destruct (last_of _ _ _ Hr) as [_ Hl2]. rewrite Hl2.
        destruct (W / 2 =? 1); [|exact Hr]. unfold nd_reshape. cbn [a_shape]. rewrite Hr, removelast_last. reflexivity. }
      destruct use_mf; cbn [a_shape nd_astype nd_masked_equal]; exact Hrm.
    - cbn [andb]. eexists. split; [reflexivity|]. split; [destruct use_mf; reflexivity|].
      destruct use_mf; reflexivity.
  Qed.

  (* ---- side conditions of the numpy operations, from the shapes ---- *)
  Lemma zl_eqb_refl (l : list Z) : list_eqb Z.eqb l l = true.
  Proof. induction l as [|x l IH]; [reflexivity|]. cbn. rewrite Z.eqb_refl, IH. reflexivity. Qed.
  Lemma ndim_ge1 {A} (a : nda A) x r : a_shape a = x :: r -> (1 <=? nd_ndim a) = true.
  Proof. intros H. unfold nd_ndim, zlen. rewrite H. cbn [length]. apply Z.leb_le. lia. Qed.
  Lemma take_ok (a : arr) il x r : a_shape a = x :: r -> forallb (fun i => (- x <=? i) && (i <? x)) il = true -> nd_take_ok a il = true.
  Proof. intros H Hf. unfold nd_take_ok. rewrite (ndim_ge1 _ _ _ H). destruct (dim0 _ _ _ H) as [_ ->]. exact Hf. Qed.
  Lemma fill_where_ok (a : arr) m x r : a_shape a = x :: r -> zlen m = x -> nd_fill_where_ok a m = true.
  Proof. intros H Hm. unfold nd_fill_where_ok. rewrite (ndim_ge1 _ _ _ H). destruct (dim0 _ _ _ H) as [_ ->]. rewrite Hm. apply Z.eqb_refl. Qed.
  Lemma put_where_ok (full res : arr) m x c r : a_shape full = x :: r -> a_shape res = c :: r -> zlen m = x ->
    Z.of_nat (count_true m) = c -> nd_put_where_ok full m res = true.
  Proof.
    intros Hf Hr Hm Hc. unfold nd_put_where_ok. rewrite (ndim_ge1 _ _ _ Hf).
    destruct (dim0 _ _ _ Hf) as [_ ->]. destruct (dim0 _ _ _ Hr) as [_ ->].
    rewrite Hm, Hc, !Z.eqb_refl, Hf, Hr. cbn [tl andb]. apply zl_eqb_refl.
  Qed.

  (* what the caller guarantees about the neighbour info and the target shape *)
  Record info_ok (vii voi : list bool) (index_array : nda Z) (oshape : list Z) : Prop := {
    io_shape : a_shape index_array = [Z.of_nat (count_true voi)];
    io_len : zlen (a_data index_array) = Z.of_nat (count_true voi);
    io_range : forall i, In i (a_data index_array) -> 0 <= i <= Z.of_nat (count_true vii);
    io_oshape : (exists o0, oshape = [o0] /\ o0 = zlen voi /\ 0 <= o0) \/
                (exists o0 o1, oshape = [o0; o1] /\ o0 * o1 = zlen voi /\ 0 <= o0 /\ 0 <= o1)
  }.

  (* ---- _extract_resample_result on new_data of shape [cnt] (wide = false) or [cnt; W] ---- *)
  Lemma extract_shape (nd' : arr) vii voi index_array fill oshape (wide : bool) (W : Z) (is_masked : bool) dt :
    info_ok vii voi index_array oshape -> 0 < Z.of_nat (count_true vii) ->
    a_shape nd' = Z.of_nat (count_true vii) :: (if wide then [W] else []) -> 0 <= W -> a_dtype nd' = dt ->
    (is_masked = true -> wide = true) ->
    exists r, nd_extract veqb vzero vone sentinel_of nd' index_array (Z.of_nat (count_true vii)) voi fill oshape is_masked (Some dt)
              = Some r /\ a_dtype r = dt /\
              a_shape r = if is_masked then (if W / 2 =? 1 then oshape else oshape ++ [W / 2])
                          else (if wide then oshape ++ [W] else oshape).
  Proof.
    intros [Hs Hl Hr Ho] Hcnt Hsh HW Hdt Hmw. unfold nd_extract.
    set (n := Z.of_nat (count_true vii)) in *.
    set (imask := map (fun i => i =? n) (a_data index_array)).
    set (il := map2 (fun (b : bool) i => if b then 0 else i) imask (a_data index_array)).
    assert (Hil : zlen il = Z.of_nat (count_true voi)) by (unfold il, imask; rewrite zlen_map2_same; exact Hl).
    assert (Him : zlen imask = Z.of_nat (count_true voi)) by (unfold imask; rewrite zlen_map; exact Hl).
    rewrite (take_ok nd' il _ _ Hsh) by (apply take_indices_ok; assumption). cbn [negb].
    set (res := nd_take nd' il).
    assert (Hres : a_shape res = Z.of_nat (count_true voi) :: (if wide then [W] else [])).
    { unfold res, nd_take, of_rows. cbn [a_shape]. rewrite Hsh, Hil. reflexivity. }
    rewrite (fill_where_ok res imask _ _ Hres Him). cbn [negb].
    set (fillv := match fill with Some f => f | None => sentinel_of (a_dtype nd') end).
    set (res2 := nd_fill_where res imask fillv).
    assert (Hres2 : a_shape res2 = Z.of_nat (count_true voi) :: (if wide then [W] else [])) by exact Hres.
    assert (Hdt2 : a_dtype res2 = dt) by exact Hdt.
    assert (Hnd : (1 <? nd_ndim nd') = wide) by (rewrite (ndim_of _ _ Hsh); destruct wide; reflexivity).
    rewrite Hnd.
    assert (Hd1 : wide = true -> nd_dim nd' 1 = W).
    { intros E. rewrite E in Hsh. destruct (dim1 _ _ _ _ Hsh) as [_ H1]. exact H1. }
    destruct Ho as [(o0 & -> & Ho0 & Hp0)|(o0 & o1 & -> & Ho01 & Hp0 & Hp1)].
    - (* 1-D target *)
      replace (1 <=? zlen [o0]) with true by reflexivity. cbn [negb].
      replace (1 <? zlen [o0]) with false by reflexivity.
      replace (idx 0 [o0] 0) with o0 by reflexivity.
      set (raw := if wide then [o0; nd_dim nd' 1] else [o0]).
      set (full := nd_full raw fillv (a_dtype res2)).
      assert (Hraw : raw = o0 :: (if wide then [W] else [])) by (unfold raw; destruct wide; [rewrite Hd1 by reflexivity|]; reflexivity).
      assert (Hput : nd_put_where_ok full voi res2 = true).
      { apply (put_where_ok full res2 voi o0 (Z.of_nat (count_true voi)) (if wide then [W] else []));
          [unfold full; exact Hraw|exact Hres2|symmetry; exact Ho0|reflexivity]. }
      rewrite Hput.
      cbn [negb].
      destruct (prepare_shape (nd_put_where full voi res2) raw (if wide then [o0] ++ [nd_dim nd' 1] else [o0]) is_masked
                              (match fill with None => true | Some _ => false end) fillv dt W [o0] wide) as (r & Hr1 & Hr2 & Hr3).
      + reflexivity.
      + rewrite Hraw. destruct wide; [rewrite Hd1 by reflexivity|]; reflexivity.
      + destruct wide; [rewrite Hd1 by reflexivity|]; cbn; rewrite ?(proj2 (Z.leb_le 0 o0)), ?(proj2 (Z.leb_le 0 W)) by lia; reflexivity.
      + destruct wide; [rewrite Hd1 by reflexivity|]; reflexivity.
      + exact Hmw.
      + exists r. split; [exact Hr1|]. split; [exact Hr2|]. rewrite Hr3.
        destruct is_masked; [reflexivity|]. destruct wide; [rewrite Hd1 by reflexivity|]; reflexivity.
    - (* 2-D target *)
      replace (1 <=? zlen [o0; o1]) with true by reflexivity. cbn [negb].
      replace (1 <? zlen [o0; o1]) with true by reflexivity.
      replace (idx 0 [o0; o1] 0) with o0 by reflexivity. replace (idx 0 [o0; o1] 1) with o1 by reflexivity.
      set (raw := if wide then [o0 * o1; nd_dim nd' 1] else [o0 * o1]).
      set (full := nd_full raw fillv (a_dtype res2)).
      assert (Hraw : raw = o0 * o1 :: (if wide then [W] else [])) by (unfold raw; destruct wide; [rewrite Hd1 by reflexivity|]; reflexivity).
      assert (Hput : nd_put_where_ok full voi res2 = true).
      { apply (put_where_ok full res2 voi (o0 * o1) (Z.of_nat (count_true voi)) (if wide then [W] else []));
          [unfold full; exact Hraw|exact Hres2|symmetry; exact Ho01|reflexivity]. }
      rewrite Hput.
      cbn [negb].
      destruct (prepare_shape (nd_put_where full voi res2) raw (if wide then [o0; o1] ++ [nd_dim nd' 1] else [o0; o1]) is_masked
                              (match fill with None => true | Some _ => false end) fillv dt W [o0; o1] wide) as (r & Hr1 & Hr2 & Hr3).
      + reflexivity.
      + rewrite Hraw. destruct wide; [rewrite Hd1 by reflexivity|]; cbn; ring.
      + destruct wide; [rewrite Hd1 by reflexivity|]; cbn;
          rewrite ?(proj2 (Z.leb_le 0 o0)), ?(proj2 (Z.leb_le 0 o1)), ?(proj2 (Z.leb_le 0 W)) by lia; reflexivity.
      + destruct wide; [rewrite Hd1 by reflexivity|]; reflexivity.
      + exact Hmw.
      + exists r. split; [exact Hr1|]. split; [exact Hr2|]. rewrite Hr3.
        destruct is_masked; [reflexivity|]. destruct wide; [rewrite Hd1 by reflexivity|]; reflexivity.
  Qed.

  Definition chan_of (multi masked : bool) (k : Z) : list Z :=
    if masked then (if (if multi then k else 1) =? 1 then [] else [k]) else if multi then [k] else [].

  (* ---- data already in the normal form (n,) or (n, k) ---- *)
  Lemma sample_shape_normal oshape (data : arr) vii voi index_array fill (multi : bool) (k : Z) :
    info_ok vii voi index_array oshape ->
    a_shape data = zlen vii :: (if multi then [k] else []) -> 0 <= k ->
    exists r, nd_sample_of veqb vzero vone sentinel_of oshape data vii voi index_array fill = Some r /\
              a_dtype r = a_dtype data /\ exists masked, a_shape r = oshape ++ chan_of multi masked k.
  Proof.
    intros Hinfo Hd Hk. pose proof Hinfo as [Hs Hl Hr Ho]. unfold nd_sample_of.
    destruct (dim0 _ _ _ Hd) as [Hok0 Hd0]. rewrite Hok0, Hd0, Z.eqb_refl. cbn [negb].
    assert (Hnd : (nd_ndim data >? 1) = multi) by (rewrite (ndim_of _ _ Hd); destruct multi; reflexivity).
    rewrite Hnd.
    destruct ((Z.of_nat (count_true vii) =? 0) || (Z.of_nat (count_true voi) =? 0)) eqn:Eempty.
    - unfold nd_empty.
      assert (Hm1 : multi = true -> nd_dim_ok data 1 = true /\ nd_dim data 1 = k).
      { intros E. rewrite E in Hd. exact (dim1 _ _ _ _ Hd). }
      destruct multi.
      + destruct (Hm1 eq_refl) as [-> ->]. cbn [negb andb].
        eexists. split; [reflexivity|]. split; [destruct fill; reflexivity|]. exists false. destruct fill; reflexivity.
      + cbn [andb]. eexists. split; [reflexivity|]. split; [destruct fill; reflexivity|]. exists false.
        unfold chan_of. rewrite app_nil_r. destruct fill; reflexivity.
    - apply orb_false_iff in Eempty. destruct Eempty as [Ecnt _]. apply Z.eqb_neq in Ecnt.
      assert (Hcnt : 0 < Z.of_nat (count_true vii)) by lia.
      rewrite (ndim_of _ _ Hs). replace (zlen [Z.of_nat (count_true voi)] =? 1) with true by reflexivity.
      assert (Hbs : nd_boolsel_ok data vii = true).
      { unfold nd_boolsel_ok. rewrite (ndim_ge1 _ _ _ Hd), Hd0. apply Z.eqb_refl. }
      rewrite Hbs.
      set (nd := nd_boolsel data vii).
      assert (Hnds : a_shape nd = Z.of_nat (count_true vii) :: (if multi then [k] else [])).
      { unfold nd, nd_boolsel, of_rows. cbn [a_shape]. rewrite Hd. reflexivity. }
      destruct (nd_is_masked nd) eqn:Em.
      + set (kk := if multi then k else 1).
        assert (Hst : a_shape (nd_stack_mask vzero vone nd) = Z.of_nat (count_true vii) :: (if true then [2 * kk] else [])).
        { unfold nd_stack_mask, of_rows. cbn [a_shape]. destruct (dim0 _ _ _ Hnds) as [_ ->].
          rewrite (ndim_of _ _ Hnds). unfold kk. destruct multi.
          - replace (zlen [Z.of_nat (count_true vii); k] =? 1) with false by reflexivity.
            destruct (dim1 _ _ _ _ Hnds) as [_ ->]. reflexivity.
          - reflexivity. }
        destruct (extract_shape (nd_stack_mask vzero vone nd) vii voi index_array fill oshape true (2 * kk) true (a_dtype nd))
          as (r & Hr1 & Hr2 & Hr3); auto; [unfold kk; destruct multi; lia|].
        exists r. split; [exact Hr1|]. split; [exact Hr2|]. exists true. rewrite Hr3.
        replace (2 * kk / 2) with kk by (rewrite Z.mul_comm, Z.div_mul; lia).
        unfold chan_of. fold kk. destruct (kk =? 1) eqn:E; [rewrite app_nil_r; reflexivity|].
        unfold kk in *. destruct multi; [reflexivity|discriminate].
      + destruct (extract_shape nd vii voi index_array fill oshape multi k false (a_dtype nd)) as (r & Hr1 & Hr2 & Hr3); auto; [discriminate|].
        exists r. split; [exact Hr1|]. split; [exact Hr2|]. exists false. rewrite Hr3. unfold chan_of.
        destruct multi; [reflexivity|rewrite app_nil_r; reflexivity].
  Qed.

  (* ---- the accepted layouts of the data argument (n = number of source locations = valid_input_index.size) ---- *)
  Inductive layout := L_flat | L_flat_k (k : Z) | L_geo (r c : Z) | L_geo_k (r c k : Z).
  Definition layout_shape (n : Z) (ly : layout) : list Z :=
    match ly with L_flat => [n] | L_flat_k k => [n; k] | L_geo r c => [r; c] | L_geo_k r c k => [r; c; k] end.
  Definition layout_ok (n : Z) (ly : layout) : Prop :=
    match ly with
    | L_flat => True
    | L_flat_k k => 0 <= k
    | L_geo r c => r * c = n /\ r <> n                 (* (rows, 1) is read as (n, 1): one channel *)
    | L_geo_k r c k => r * c = n /\ 0 <= k
    end.
  Definition layout_multi (ly : layout) : bool := match ly with L_flat | L_geo _ _ => false | _ => true end.
  Definition layout_k (ly : layout) : Z := match ly with L_flat_k k | L_geo_k _ _ k => k | _ => 0 end.

  Lemma normalise_layout (data : arr) vii ly : a_shape data = layout_shape (zlen vii) ly -> layout_ok (zlen vii) ly ->
    exists d, nd_normalise data vii = Some d /\ a_dtype d = a_dtype data /\
              a_shape d = zlen vii :: (if layout_multi ly then [layout_k ly] else []).
  Proof.
    intros Hsh Hok. unfold nd_normalise. assert (Hn : 0 <= zlen vii) by (unfold zlen; lia).
    destruct ly as [|k|r c|r c k]; cbn [layout_shape layout_ok layout_multi layout_k] in *.
    - rewrite (ndim_of _ _ Hsh). destruct (dim0 _ _ _ Hsh) as [-> ->]. cbn. rewrite Z.eqb_refl. cbn.
      exists data. auto.
    - rewrite (ndim_of _ _ Hsh). destruct (dim0 _ _ _ Hsh) as [-> ->]. cbn. rewrite Z.eqb_refl. cbn.
      exists data. auto.
    - destruct Hok as [Hrc Hne]. rewrite (ndim_of _ _ Hsh). destruct (dim0 _ _ _ Hsh) as [-> ->]. cbn.
      destruct (Z.eqb_spec r (zlen vii)) as [E|_]; [contradiction|]. cbn.
      eexists. split; [reflexivity|]. split; [reflexivity|]. unfold nd_ravel, nd_reshape. cbn [a_shape]. rewrite Hsh.
      cbn. f_equal. rewrite Z.mul_1_r. exact Hrc.
    - destruct Hok as [Hrc Hk]. rewrite (ndim_of _ _ Hsh).
      destruct (dim0 _ _ _ Hsh) as [-> ->]. destruct (dim1 _ _ _ _ Hsh) as [-> ->]. destruct (dim2 _ _ _ _ _ Hsh) as [-> ->].
      replace (zlen [r; c; k] >? 2) with true by reflexivity. cbn [implb andb]. rewrite Hrc, Z.eqb_refl.
      unfold nd_reshape_ok. rewrite Hsh.
      replace (prodZ [zlen vii; k] =? prodZ [r; c; k]) with true by (symmetry; apply Z.eqb_eq; cbn; rewrite <- Hrc; ring).
      cbn [forallb andb]. rewrite (proj2 (Z.leb_le 0 (zlen vii)) Hn), (proj2 (Z.leb_le 0 k) Hk). cbn [andb].
      eexists. split; [reflexivity|]. split; reflexivity.
  Qed.

  (* THE LAW: for every accepted layout of the data and a 1-D / 2-D target shape the call returns (does not raise) an array
     with the input dtype and shape = target shape + channels *)
  Theorem get_sample_shape_law oshape (data : arr) vii voi index_array fill ly :
    info_ok vii voi index_array oshape ->
    a_shape data = layout_shape (zlen vii) ly -> layout_ok (zlen vii) ly ->
    exists r, nd_get_sample veqb vzero vone sentinel_of oshape data vii voi index_array fill = Some r /\
              a_dtype r = a_dtype data /\
              exists masked, a_shape r = oshape ++ chan_of (layout_multi ly) masked (layout_k ly).
  Proof.
    intros Hinfo Hsh Hok. unfold nd_get_sample.
    destruct (normalise_layout data vii ly Hsh Hok) as (d & -> & Hdt & Hds).
    destruct (sample_shape_normal oshape d vii voi index_array fill (layout_multi ly) (layout_k ly) Hinfo Hds) as (r & Hr1 & Hr2 & Hr3).
    - destruct ly; cbn in *; lia.
    - exists r. split; [exact Hr1|]. split; [congruence|exact Hr3].
  Qed.

  (* ... and a data array whose size does not match the geometry is refused *)
  Lemma get_sample_size_mismatch oshape (data : arr) vii voi index_array fill m :
    a_shape data = [m] -> m <> zlen vii ->
    nd_get_sample veqb vzero vone sentinel_of oshape data vii voi index_array fill = None.
  Proof.
    intros Hsh Hne. unfold nd_get_sample, nd_normalise. rewrite (ndim_of _ _ Hsh).
    replace (zlen [m] >? 2) with false by reflexivity. cbn [implb andb].
    destruct (dim0 _ _ _ Hsh) as [-> ->].
    rewrite (proj2 (Z.eqb_neq m (zlen vii)) Hne). cbn [negb].
    assert (Hs2 : a_shape (nd_ravel data) = [m]) by (unfold nd_ravel, nd_reshape; cbn [a_shape]; rewrite Hsh; cbn; f_equal; lia).
    unfold nd_sample_of. destruct (dim0 _ _ _ Hs2) as [-> ->].
    rewrite (proj2 (Z.eqb_neq (zlen vii) m)) by congruence. reflexivity.
  Qed.
End Shape.
