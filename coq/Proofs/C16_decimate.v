(* C16 - AreaBoundary.decimate: the kept positions run strictly increasing from the first to the last vertex. *)
From Coq Require Import ZArith List Lia Bool Arith Sorted.
From PR Require Import Base.ListX Model.Boundary Proofs.C16_ring.
Import ListNotations.
Open Scope Z_scope.

Definition sinc (l : list Z) : Prop := StronglySorted Z.lt l.

Lemma sinc_app l1 l2 : sinc l1 -> sinc l2 -> (forall x y, In x l1 -> In y l2 -> x < y) -> sinc (l1 ++ l2).
Proof.
  unfold sinc. induction l1 as [|a l1 IH]; cbn; intros H1 H2 H; [exact H2|].
  inversion H1 as [|? ? Hs Hf]; subst. constructor.
  - apply IH; auto.
  - apply Forall_app. split; [exact Hf|]. apply Forall_forall. intros y Hy. apply H; auto.
Qed.

Lemma sinc_map_seq (f : nat -> Z) k : (forall i j, (i < j < k)%nat -> f i < f j) -> sinc (map f (seq 0 k)).
Proof.
  induction k as [|k IH]; intros H; [constructor|].
  rewrite seq_S, map_app. apply sinc_app.
  - apply IH. intros i j Hij. apply H. lia.
  - cbn. repeat constructor.
  - intros x y Hx Hy. apply in_map_iff in Hx. destruct Hx as [i [<- Hi]]. apply in_seq in Hi.
    cbn in Hy. destruct Hy as [<-|[]]. apply H. lia.
Qed.

Lemma sinc_in_lt a l x : sinc (a :: l) -> In x l -> a < x.
Proof. intros H Hx. inversion H as [|? ? _ Hf]; subst. rewrite Forall_forall in Hf. auto. Qed.

(* the arange part: non-empty, starts at [start], strictly increasing, below L *)
Lemma arange_spec start L ratio : 0 <= start < L -> 1 <= ratio ->
  exists rest, arange_step start L ratio = start :: rest /\ sinc (start :: rest) /\ forall x, In x (start :: rest) -> start <= x < L.
Proof.
  intros Hs Hr. unfold arange_step.
  set (N := Z.to_nat ((L - start + ratio - 1) / ratio)).
  assert (HN : 1 <= (L - start + ratio - 1) / ratio) by (apply Z.div_le_lower_bound; lia).
  assert (Hub : ((L - start + ratio - 1) / ratio - 1) * ratio < L - start).
  { pose proof (Z.div_mod (L - start + ratio - 1) ratio ltac:(lia)) as Hd.
    pose proof (Z.mod_pos_bound (L - start + ratio - 1) ratio ltac:(lia)). nia. }
  destruct N as [|N'] eqn:EN; [unfold N in EN; lia|].
  exists (map (fun k => start + Z.of_nat k * ratio) (seq 1 N')).
  split; [cbn [seq map]; f_equal; lia|].
  assert (E : start :: map (fun k => start + Z.of_nat k * ratio) (seq 1 N')
              = map (fun k => start + Z.of_nat k * ratio) (seq 0 (S N'))) by (cbn [seq map]; f_equal; lia).
  split.
  - rewrite E. apply sinc_map_seq. intros i j Hij. nia.
  - rewrite E. intros x Hx. apply in_map_iff in Hx. destruct Hx as [k [<- Hk]]. apply in_seq in Hk.
    assert (Z.of_nat k <= (L - start + ratio - 1) / ratio - 1) by (unfold N in EN; lia). nia.
Qed.

Theorem decimate_idx_spec L ratio : 2 <= L -> 1 <= ratio ->
  hd_error (decimate_idx L ratio) = Some 0 /\ last_opt (decimate_idx L ratio) = Some (L - 1) /\ sinc (decimate_idx L ratio).
Proof.
  intros HL Hr. unfold decimate_idx.
  set (start := (L mod ratio) / 2).
  assert (Hs : 0 <= start < L).
  { unfold start. pose proof (Z.mod_pos_bound L ratio ltac:(lia)) as Hm.
    split; [apply Z.div_pos; lia|]. apply Z.div_lt_upper_bound; [lia|].
    destruct (Z_lt_ge_dec L ratio); [rewrite Z.mod_small by lia; lia|lia]. }
  destruct (arange_spec start L ratio Hs Hr) as (rest & -> & Hsort & Hrange).
  (* split the arange part at its last element *)
  destruct (exists_last (l := start :: rest) ltac:(discriminate)) as (mid' & e & Emid).
  assert (He : start <= e < L) by (apply Hrange; rewrite Emid; apply in_or_app; right; left; reflexivity).
  assert (Hmid_lt : forall x, In x mid' -> x < e).
  { intros x Hx. rewrite Emid in Hsort. clear - Hsort Hx. induction mid' as [|a m IH]; [contradiction|].
    cbn in Hsort. destruct Hx as [->|Hx].
    - apply (sinc_in_lt _ _ _ Hsort). apply in_or_app. right. left. reflexivity.
    - apply IH; [|exact Hx]. inversion Hsort; assumption. }
  assert (Hge : forall x, In x (start :: rest) -> start <= x) by (intros x Hx; apply Hrange; exact Hx).
  destruct (Z.eq_dec start 0) as [Hs0|Hs0].
  - (* points[1] == 0: the leading 0 is dropped *)
    rewrite Hs0 in *. cbn [app tl].
    change (0 :: rest ++ [L - 1]) with ((0 :: rest) ++ [L - 1]). rewrite Emid, <- app_assoc. cbn [app].
    rewrite rev_app_distr. cbn [rev app].
    destruct (Z.eqb_spec e (L - 1)) as [EeL|EeL].
    + rewrite app_removelast_last with (l := mid' ++ [e; L - 1]) (d := 0) at 1 by (destruct mid'; discriminate).
      replace (mid' ++ [e; L - 1]) with ((mid' ++ [e]) ++ [L - 1]) by (rewrite <- app_assoc; reflexivity).
      rewrite removelast_last. rewrite <- Emid. repeat split; rewrite ?removelast_last.
      * reflexivity.
      * rewrite Emid, last_opt_app1. f_equal. exact EeL.
      * exact Hsort.
    + replace (mid' ++ [e; L - 1]) with ((0 :: rest) ++ [L - 1]) by (rewrite Emid, <- app_assoc; reflexivity).
      repeat split.
      * apply last_opt_app1.
      * apply sinc_app; [exact Hsort|repeat constructor|].
        intros x y Hx Hy. cbn in Hy. destruct Hy as [<-|[]].
        rewrite Emid in Hx. apply in_app_or in Hx. destruct Hx as [Hx|[<-|[]]]; [pose proof (Hmid_lt x Hx)|]; lia.
  - (* the leading 0 stays *)
    assert (Hp1 : match [0] ++ (start :: rest) ++ [L - 1] with _ :: 0 :: _ => tl ([0] ++ (start :: rest) ++ [L - 1]) | _ => [0] ++ (start :: rest) ++ [L - 1] end
                  = 0 :: (start :: rest) ++ [L - 1]).
    { cbn [app]. destruct start; try reflexivity. contradiction. }
    rewrite Hp1. rewrite Emid, <- app_assoc. cbn [app rev]. rewrite rev_app_distr. cbn [rev app].
    assert (Hpos : forall x, In x (mid' ++ [e]) -> 0 < x) by (intros x Hx; rewrite <- Emid in Hx; pose proof (Hge x Hx); lia).
    destruct (Z.eqb_spec e (L - 1)) as [EeL|EeL].
    + replace (0 :: mid' ++ [e; L - 1]) with ((0 :: mid' ++ [e]) ++ [L - 1]) by (cbn [app]; rewrite <- app_assoc; reflexivity).
      rewrite removelast_last. repeat split.
      * change (0 :: mid' ++ [e]) with ((0 :: mid') ++ [e]). rewrite last_opt_app1. f_equal. exact EeL.
      * change (0 :: mid' ++ [e]) with ([0] ++ (mid' ++ [e])). apply sinc_app; [repeat constructor|rewrite <- Emid; exact Hsort|].
        intros x y Hx Hy. cbn in Hx. destruct Hx as [<-|[]]. apply Hpos. exact Hy.
    + replace (0 :: mid' ++ [e; L - 1]) with ((0 :: mid' ++ [e]) ++ [L - 1]) by (cbn [app]; rewrite <- app_assoc; reflexivity).
      repeat split.
      * apply last_opt_app1.
      * apply sinc_app; [|repeat constructor|].
        -- change (0 :: mid' ++ [e]) with ([0] ++ (mid' ++ [e])). apply sinc_app; [repeat constructor|rewrite <- Emid; exact Hsort|].
           intros x y Hx Hy. cbn in Hx. destruct Hx as [<-|[]]. apply Hpos. exact Hy.
        -- intros x y Hx Hy. cbn in Hy. destruct Hy as [<-|[]]. cbn in Hx. destruct Hx as [<-|Hx]; [lia|].
           apply in_app_or in Hx. destruct Hx as [Hx|[<-|[]]]; [pose proof (Hmid_lt x Hx)|]; lia.
Qed.

(* ------------------------------------------------------------------ decimation keeps the corners, hence the ring closed *)
Lemma hd_error_nth {A} (d : A) (l : list A) : l <> [] -> hd_error l = Some (nth 0 l d).
Proof. destruct l; [congruence|reflexivity]. Qed.

Lemma last_opt_nth {A} (d : A) (l : list A) : l <> [] -> last_opt l = Some (nth (length l - 1) l d).
Proof.
  intros H. destruct (exists_last H) as (m & y & ->). rewrite last_opt_app1, app_length. cbn [length].
  replace (length m + 1 - 1)%nat with (length m) by lia. rewrite app_nth2, Nat.sub_diag by lia. reflexivity.
Qed.

Lemma select_ends {A} (d : A) (s : list A) (pos : list Z) :
  s <> [] -> hd_error pos = Some 0 -> last_opt pos = Some (Z.of_nat (length s) - 1) ->
  hd_error (select d s pos) = hd_error s /\ last_opt (select d s pos) = last_opt s /\ select d s pos <> [].
Proof.
  intros Hs Hh Hl. unfold select. rewrite hd_error_map, last_opt_map, Hh, Hl. cbn [option_map].
  rewrite (hd_error_nth d s Hs), (last_opt_nth d s Hs).
  replace (Z.to_nat (Z.of_nat (length s) - 1)) with (length s - 1)%nat by lia.
  repeat split. destruct pos; [discriminate|discriminate].
Qed.

Theorem decimate_keeps_closed {A} (d : A) (ratio : Z) (S : list (list A)) :
  1 <= ratio -> closed4 S -> Forall (fun s => (2 <= length s)%nat) S -> closed4 (decimate_sides d ratio S).
Proof.
  intros Hr. destruct S as [|a [|b [|c [|e [|f r]]]]]; cbn [closed4]; try tauto.
  intros (H1 & H2 & H3 & H4 & Ha & Hb & Hc & He) HF.
  inversion HF as [|? ? La HF1]; subst. inversion HF1 as [|? ? Lb HF2]; subst.
  inversion HF2 as [|? ? Lc HF3]; subst. inversion HF3 as [|? ? Le _]; subst.
  unfold decimate_sides. cbn [map closed4].
  assert (K : forall s : list A, (2 <= length s)%nat -> s <> [] ->
     hd_error (select d s (decimate_idx (Z.of_nat (length s)) ratio)) = hd_error s
     /\ last_opt (select d s (decimate_idx (Z.of_nat (length s)) ratio)) = last_opt s
     /\ select d s (decimate_idx (Z.of_nat (length s)) ratio) <> []).
  { intros s Ls Hs. destruct (decimate_idx_spec (Z.of_nat (length s)) ratio ltac:(lia) Hr) as (Hh & Hl & _).
    apply select_ends; assumption. }
  destruct (K a La Ha) as (A1 & A2 & A3). destruct (K b Lb Hb) as (B1 & B2 & B3).
  destruct (K c Lc Hc) as (C1 & C2 & C3). destruct (K e Le He) as (E1 & E2 & E3).
  rewrite A1, A2, B1, B2, C1, C2, E1, E2. repeat split; assumption.
Qed.

(* the kept positions are distinct and inside the side: the decimated side repeats no vertex of a side that had none *)
Lemma sinc_NoDup l : sinc l -> NoDup l.
Proof.
  unfold sinc. induction 1 as [|a l Hs IH Hf]; constructor; [|exact IH].
  intros Hin. rewrite Forall_forall in Hf. specialize (Hf a Hin). lia.
Qed.

Lemma sinc_bounds l lo hi : sinc l -> hd_error l = Some lo -> last_opt l = Some hi -> forall x, In x l -> lo <= x <= hi.
Proof.
  intros Hs Hh Hl x Hx. destruct l as [|a l]; [discriminate|]. cbn in Hh. inversion Hh; subst a.
  destruct (exists_last (l := lo :: l) ltac:(discriminate)) as (m & y & E).
  rewrite E, last_opt_app1 in Hl. inversion Hl; subst y.
  split.
  - destruct Hx as [<-|Hx]; [lia|]. pose proof (sinc_in_lt _ _ _ Hs Hx). lia.
  - rewrite E in Hx, Hs. apply in_app_or in Hx. destruct Hx as [Hx|[<-|[]]]; [|lia].
    clear - Hs Hx. induction m as [|a m IH]; [contradiction|]. cbn in Hs. destruct Hx as [->|Hx].
    + pose proof (sinc_in_lt _ _ hi Hs ltac:(apply in_or_app; right; left; reflexivity)). lia.
    + apply IH; [inversion Hs; assumption|exact Hx].
Qed.

Theorem decimate_side_no_repeat {A} (d : A) (ratio : Z) (s : list A) :
  1 <= ratio -> (2 <= length s)%nat -> NoDup s -> NoDup (select d s (decimate_idx (Z.of_nat (length s)) ratio))
  /\ incl (select d s (decimate_idx (Z.of_nat (length s)) ratio)) s.
Proof.
  intros Hr Ls Hn. destruct (decimate_idx_spec (Z.of_nat (length s)) ratio ltac:(lia) Hr) as (Hh & Hl & Hs).
  pose proof (sinc_bounds _ _ _ Hs Hh Hl) as Hb. pose proof (sinc_NoDup _ Hs) as Hnd.
  split.
  - unfold select. revert Hnd Hb. generalize (decimate_idx (Z.of_nat (length s)) ratio). intros pos Hnd Hb.
    induction pos as [|p pos IH]; [constructor|]. cbn [map]. inversion Hnd as [|? ? Hp Hnd']; subst. constructor.
    + intros Hin. apply in_map_iff in Hin. destruct Hin as [q [Hq Hqin]].
      assert (Z.to_nat q = Z.to_nat p).
      { apply (proj1 (NoDup_nth s d) Hn); [pose proof (Hb q ltac:(right; exact Hqin)); lia|pose proof (Hb p ltac:(left; reflexivity)); lia|exact Hq]. }
      pose proof (Hb q ltac:(right; exact Hqin)). pose proof (Hb p ltac:(left; reflexivity)).
      assert (q = p) by lia. subst. contradiction.
    + apply IH; [exact Hnd'|]. intros x Hx. apply Hb. right. exact Hx.
  - intros x Hx. unfold select in Hx. apply in_map_iff in Hx. destruct Hx as [q [<- Hq]].
    apply nth_In. pose proof (Hb q Hq). lia.
Qed.
