(* The kd-tree contract: the executable acceptance test is equivalent to it, and the brute-force
   reference [nearest] meets it (induction over the candidate list). *)
From Coq Require Import ZArith Bool List Lia Arith.
From PR Require Import Base.Num Model.KDTree Proofs.C02_lists.
Import ListNotations.
Open Scope nat_scope.

Lemma forallb_map' {A B} (f : B -> bool) (g : A -> B) l : forallb f (map g l) = forallb (fun x => f (g x)) l.
Proof. induction l as [|x l IH]; cbn; congruence. Qed.

Section Q.
  Variables (a b c r2 : Z) (d : nat -> Z) (cands : list nat).

  Lemma accept_iff i : accept a b c r2 d cands i = true <-> knn_spec_tol a b c r2 d cands i.
  Proof.
    unfold accept, knn_spec_tol. destruct (Nat.ltb_spec i (length cands)) as [Hlt|Hge].
    - rewrite andb_true_iff, forallb_forall, Z.leb_le. split.
      + intros [H1 H2]. split; [|intros; lia]. intros _. split; [|exact H2].
        intros s Hs. apply Z.leb_le. apply H1. exact Hs.
      + intros [H _]. destruct (H Hlt) as [H1 H2]. split; [|exact H2].
        intros s Hs. apply Z.leb_le. apply H1. exact Hs.
    - rewrite andb_true_iff, Nat.eqb_eq, forallb_forall. split.
      + intros [E H2]. split; [intros; lia|]. intros _. split; [exact E|].
        intros s Hs. apply Z.leb_le. apply H2. exact Hs.
      + intros [_ H]. destruct (H Hge) as [E H2]. split; [exact E|].
        intros s Hs. apply Z.leb_le. apply H2. exact Hs.
  Qed.

  Lemma accept_sound i : accept a b c r2 d cands i = true -> knn_spec_tol a b c r2 d cands i.
  Proof. apply accept_iff. Qed.

  Lemma accept_list_eq i : accept_list a b c r2 (map d cands) i = accept a b c r2 d cands i.
  Proof.
    unfold accept_list, accept. rewrite map_length.
    destruct (Nat.ltb_spec i (length cands)) as [Hlt|Hge].
    - rewrite (nth_indep (map d cands) 0%Z (d 0) ) by (rewrite map_length; exact Hlt).
      rewrite map_nth. rewrite forallb_map'. reflexivity.
    - rewrite forallb_map'. reflexivity.
  Qed.

  Lemma accept_list_sound i : accept_list a b c r2 (map d cands) i = true -> knn_spec_tol a b c r2 d cands i.
  Proof. rewrite accept_list_eq. apply accept_sound. Qed.
End Q.

(* ---- brute force ---- *)
Section BF.
  Variables (r2 : Z) (d : nat -> Z).
  Open Scope Z_scope.

  Definition best_inv (pre : list nat) (best : option (nat * Z)) : Prop :=
    match best with
    | None => pre = []
    | Some (p, dp) => (p < length pre)%nat /\ dp = d (nth p pre 0%nat) /\ (forall s, In s pre -> dp <= d s) /\
                      (forall j, (j < p)%nat -> dp < d (nth j pre 0%nat))
    end.

  Lemma argmin_inv l : forall pre best, best_inv pre best -> best_inv (pre ++ l) (argmin_from d l (length pre) best).
  Proof.
    induction l as [|s rest IH]; intros pre best Hb.
    - cbn. rewrite app_nil_r. exact Hb.
    - cbn [argmin_from].
      replace (S (length pre)) with (length (pre ++ [s])) by (rewrite app_length; cbn; lia).
      replace (pre ++ s :: rest) with ((pre ++ [s]) ++ rest) by (rewrite <- app_assoc; reflexivity).
      apply IH. destruct best as [[p dp]|].
      + destruct Hb as (Hp & Hd & Hall & Hfirst).
        destruct (Z.ltb_spec (d s) dp) as [Hlt|Hge].
        * unfold best_inv. rewrite app_length. cbn [length]. split; [lia|]. split.
          -- rewrite app_nth2 by lia. rewrite Nat.sub_diag. reflexivity.
          -- split.
             ++ intros s' Hs'. apply in_app_or in Hs'. destruct Hs' as [Hs'|[<-|[]]]; [|lia].
                specialize (Hall s' Hs'). lia.
             ++ intros j Hj. rewrite app_nth1 by lia.
                assert (In (nth j pre 0%nat) pre) by (apply nth_In; lia).
                specialize (Hall _ H). lia.
        * unfold best_inv. rewrite app_length. cbn [length]. split; [lia|]. split.
          -- rewrite app_nth1 by lia. exact Hd.
          -- split.
             ++ intros s' Hs'. apply in_app_or in Hs'. destruct Hs' as [Hs'|[<-|[]]]; [apply Hall; exact Hs'|lia].
             ++ intros j Hj. rewrite app_nth1 by lia. apply Hfirst. exact Hj.
      + cbn in Hb. subst pre. cbn. split; [lia|]. split; [reflexivity|]. split.
        * intros s' [<-|[]]. lia.
        * intros j Hj. lia.
  Qed.

  Variable cands : list nat.

  Lemma argmin_spec : best_inv cands (argmin_from d cands 0%nat None).
  Proof. apply (argmin_inv cands [] None). reflexivity. Qed.

  (* the brute-force reference meets the exact contract *)
  Lemma nearest_spec : knn_spec r2 d cands (nearest r2 d cands).
  Proof.
    unfold knn_spec, knn_spec_tol, nearest. pose proof argmin_spec as H.
    destruct (argmin_from d cands 0%nat None) as [[p dp]|].
    - destruct H as (Hp & Hd & Hall & _). destruct (Z.ltb_spec dp r2) as [Hlt|Hge].
      + split; [|intros; lia]. intros _. rewrite <- Hd. split; [|lia]. intros s Hs. specialize (Hall s Hs). lia.
      + split; [intros; lia|]. intros _. split; [reflexivity|]. intros s Hs. specialize (Hall s Hs). lia.
    - cbn in H. subst cands. cbn. split; [intros; lia|]. intros _. split; [reflexivity|]. intros s [].
  Qed.

  (* strict bound: a neighbour is reported exactly when some candidate is strictly inside the radius *)
  Lemma nearest_found_iff : (nearest r2 d cands < length cands)%nat <-> exists s, In s cands /\ d s < r2.
  Proof.
    unfold nearest. pose proof argmin_spec as H.
    destruct (argmin_from d cands 0%nat None) as [[p dp]|].
    - destruct H as (Hp & Hd & Hall & _). destruct (Z.ltb_spec dp r2) as [Hlt|Hge].
      + split; [|intros; exact Hp]. intros _. exists (nth p cands 0%nat). split; [apply nth_In; exact Hp|lia].
      + split; [intros; lia|]. intros (s & Hs & Hd2). specialize (Hall s Hs). lia.
    - cbn in H. subst cands. cbn. split; [lia|]. intros (s & [] & _).
  Qed.

  (* ties: the first (lowest-index) candidate of minimal distance *)
  Lemma nearest_first_min : (nearest r2 d cands < length cands)%nat ->
    forall j, (j < nearest r2 d cands)%nat -> d (nth (nearest r2 d cands) cands 0%nat) < d (nth j cands 0%nat).
  Proof.
    unfold nearest. pose proof argmin_spec as H.
    destruct (argmin_from d cands 0%nat None) as [[p dp]|]; [|cbn; lia].
    destruct H as (Hp & Hd & Hall & Hfirst). destruct (Z.ltb_spec dp r2) as [Hlt|Hge]; [|lia].
    intros _ j Hj. rewrite <- Hd. apply Hfirst. exact Hj.
  Qed.

  (* the exact contract implies every relaxed one *)
  Lemma knn_spec_weaken a b c i : 0 < b <= a -> 0 <= c -> 0 <= r2 -> (forall s, In s cands -> 0 <= d s) ->
    knn_spec r2 d cands i -> knn_spec_tol a b c r2 d cands i.
  Proof.
    intros Hab Hc Hr Hd [H1 H2]. split.
    - intros Hi. destruct (H1 Hi) as [Ha Hb]. split.
      + intros s Hs. specialize (Ha s Hs). specialize (Hd s Hs). nia.
      + nia.
    - intros Hi. destruct (H2 Hi) as [E Ha]. split; [exact E|]. intros s Hs. specialize (Ha s Hs). specialize (Hd s Hs). nia.
  Qed.
End BF.
