(* C15 composed with C19: a segmented query (kd_tree.get_neighbour_info(segments = k): one multi-process query per row
   segment of geometry._get_slice, results appended) equals the single-process query over all rows; and the result array
   for write lists of any granularity. *)
From Coq Require Import ZArith List Lia Bool Arith.
From PR Require Import Base.ZX Base.Slice Model.Partition Proofs.C19_partition
     Model.Sched Proofs.C15_inv Proofs.C15_array Proofs.C15_hist.
Import ListNotations.
Open Scope Z_scope.

Lemma zrange_app a b c : a <= b <= c -> zrange a b ++ zrange b c = zrange a c.
Proof.
  intros H. apply (nth_ext _ _ 0 0).
  - rewrite app_length, !zrange_length. lia.
  - intros k Hk. rewrite app_length, !zrange_length in Hk.
    destruct (Nat.lt_ge_cases k (Z.to_nat (b - a))) as [Hlt|Hge].
    + rewrite app_nth1 by (rewrite zrange_length; exact Hlt). rewrite !zrange_nth by lia. reflexivity.
    + rewrite app_nth2 by (rewrite zrange_length; exact Hge). rewrite zrange_length, !zrange_nth by lia. lia.
Qed.

Lemma zrange_shift {V} (g f : Z -> V) a b : (forall i, 0 <= i < b - a -> g i = f (a + i)) ->
  map g (zrange 0 (b - a)) = map f (zrange a b).
Proof.
  intros H. unfold zrange. rewrite !map_map. replace (b - a - 0) with (b - a) by lia.
  apply map_ext_in. intros k Hk. apply in_seq in Hk. rewrite H by lia. f_equal.
Qed.

(* rows of the segments of a tiling, each mapped on its own, concatenated = the map over all rows *)
Lemma concat_tiles {V} (f : Z -> V) l : forall from to, tiles from l to ->
  concat (map (fun s => map f (zrange (sstart s) (sstop s))) l) = map f (zrange from to).
Proof.
  induction l as [|s l IH]; cbn; intros from to H.
  - subst. unfold zrange. rewrite Z.sub_diag. reflexivity.
  - destruct H as (Hs & Hlt & Ht). rewrite (IH _ _ Ht), <- map_app. f_equal.
    destruct (tiles_bounds _ _ _ Ht) as [Hle _]. subst from. apply zrange_app. lia.
Qed.

(* one call per segment: the call has as many rows as the segment and its row function is the global one, shifted *)
Definition call_for_segment {V} (f : Z -> V) (k : call V) (s : pslice) : Prop :=
  let '(c, _, _, g) := k in n c = sstop s - sstart s /\ forall i, 0 <= i < n c -> g i = f (sstart s + i).

Lemma segmented_calls {V} (f : Z -> V) d segments size (calls : list (call V)) :
  0 <= size -> 1 <= segments -> Forall call_ok calls ->
  Forall2 (call_for_segment f) calls (get_slice segments size) ->
  concat (map (call_mp d) calls) = single_process f size.
Proof.
  intros Hsz Hseg Hok Hseg2. rewrite (fresh_per_call d calls Hok).
  destruct (get_slice_partition segments size Hsz Hseg) as [Ht _].
  unfold single_process. rewrite <- (concat_tiles f _ _ _ Ht). f_equal.
  clear Ht Hok. induction Hseg2 as [|k s ks ss Hks _ IH]; cbn; [reflexivity|]. rewrite IH. f_equal.
  destruct k as [[[c nw] sched] g]. cbn in *. destruct Hks as [Hn Hg]. unfold single_process.
  rewrite Hn. apply zrange_shift. intros i Hi. apply Hg. lia.
Qed.

(* ---------- layout independence: 2-D (row-major reshaped) inputs ---------- *)
(* Proj_MP / cKDTree_MP flatten their array arguments in C (row-major, logical index) order, schedule the flat rows and
   reshape the flat result in C order.  [flat_C cols a] is the flattened view of the logical array a. *)
Definition flat_C {V} (cols : Z) (a : Z -> Z -> V) (k : Z) : V := a (k / cols) (k mod cols).
(* flattening a column-major (Fortran) array in MEMORY order instead (ravel(order='K')) *)
Definition flat_F {V} (rows : Z) (a : Z -> Z -> V) (k : Z) : V := a (k mod rows) (k / rows).

Lemma single_process_nth {V} (f : Z -> V) d n k : 0 <= k < n -> nth (Z.to_nat k) (single_process f n) d = f k.
Proof.
  intros H. unfold single_process.
  rewrite (nth_indep _ d (f 0)) by (rewrite map_length, zrange_length; lia).
  rewrite map_nth, zrange_nth by lia. f_equal. lia.
Qed.

(* element (r, c0) of the reshaped multi-process result depends only on the VALUES of the inputs at (r, c0) *)
Lemma reshaped_result {V W} (g : V -> V -> W) (a1 a2 : Z -> Z -> V) d rows cols c nw sched :
  wf c -> (1 <= nw)%nat -> workers_below nw sched -> all_done nw (run c sched) ->
  0 < cols -> n c = rows * cols ->
  forall r c0, 0 <= r < rows -> 0 <= c0 < cols ->
  nth (Z.to_nat (r * cols + c0))
      (result_array (fun k => g (flat_C cols a1 k) (flat_C cols a2 k)) d (n c) (wdone (run c sched))) d
  = g (a1 r c0) (a2 r c0).
Proof.
  intros Hwf Hnw Hb Hd Hc Hn r c0 Hr Hc0.
  rewrite (mp_equals_sp _ d c nw sched Hwf Hnw Hb Hd).
  rewrite single_process_nth by nia. unfold flat_C.
  replace ((r * cols + c0) / cols) with r by (rewrite Z.div_add_l by lia; rewrite (Z.div_small c0 cols) by lia; lia).
  replace ((r * cols + c0) mod cols) with c0
    by (rewrite Z.add_comm, Z.mod_add by lia; rewrite Z.mod_small by lia; reflexivity).
  reflexivity.
Qed.
