(* C15 composed with C19: a segmented query (kd_tree.get_neighbour_info(segments = k): one multi-process query per row
   segment of geometry._get_slice, results appended) equals the single-process query over all rows; and the result array
   for write lists of any granularity. *)
From Coq Require Import ZArith List Lia Bool Arith.
From PR Require Import Base.ZX Base.Slice Model.Partition Proofs.C19_partition
     Model.Sched Proofs.C15_inv Proofs.C15_array Proofs.C15_hist.
Import ListNotations.
Open Scope Z_scope.

Lemma zrange_app a b c : a <= b <= c -> zrange a b ++ zrange b c = zrange a c.
Proof.
  intros H. apply (nth_ext _ _ 0 0).
  - rewrite app_length, !zrange_length. lia.
  - intros k Hk. rewrite app_length, !zrange_length in Hk.
    destruct (Nat.lt_ge_cases k (Z.to_nat (b - a))) as [Hlt|Hge].
    + rewrite app_nth1 by (rewrite zrange_length; exact Hlt). rewrite !zrange_nth by lia. reflexivity.
    + rewrite app_nth2 by (rewrite zrange_length; exact Hge). rewrite zrange_length, !zrange_nth by lia. lia.
Qed.

Lemma zrange_shift {V} (g f : Z -> V) a b : (forall i, 0 <= i < b - a -> g i = f (a + i)) ->
  map g (zrange 0 (b - a)) = map f (zrange a b).
Proof.
  intros H. unfold zrange. rewrite !map_map. replace (b - a - 0) with (b - a) by lia.
  apply map_ext_in. intros k Hk. apply in_seq in Hk. rewrite H by lia. f_equal.
Qed.

(* rows of the segments of a tiling, each mapped on its own, concatenated = the map over all rows *)
Lemma concat_tiles {V} (f : Z -> V) l : forall from to, tiles from l to ->
  concat (map (fun s => map f (zrange (sstart s) (sstop s))) l) = map f (zrange from to).
Proof.
  induction l as [|s l IH]; cbn; intros from to H.
  - subst. unfold zrange. rewrite Z.sub_diag. reflexivity.
  - destruct H as (Hs & Hlt & Ht). rewrite (IH _ _ Ht), <- map_app. f_equal.
    destruct (tiles_bounds _ _ _ Ht) as [Hle _]. subst from. apply zrange_app. lia.
Qed.

(* one call per segment: the call has as many rows as the segment and its row function is the global one, shifted *)
Definition call_for_segment {V} (f : Z -> V) (k : call V) (s : pslice) : Prop :=
  let '(c, _, _, g) := k in n c = sstop s - sstart s /\ forall i, 0 <= i < n c -> g i = f (sstart s + i).

Lemma segmented_calls {V} (f : Z -> V) d segments size (calls : list (call V)) :
  0 <= size -> 1 <= segments -> Forall call_ok calls ->
  Forall2 (call_for_segment f) calls (get_slice segments size) ->
  concat (map (call_mp d) calls) = single_process f size.
Proof.
  intros Hsz Hseg Hok Hseg2. rewrite (fresh_per_call d calls Hok).
  destruct (get_slice_partition segments size Hsz Hseg) as [Ht _].
  unfold single_process. rewrite <- (concat_tiles f _ _ _ Ht). f_equal.
  clear Ht Hok. induction Hseg2 as [|k s ks ss Hks _ IH]; cbn; [reflexivity|]. rewrite IH. f_equal.
  destruct k as [[[c nw] sched] g]. cbn in *. destruct Hks as [Hn Hg]. unfold single_process.
  rewrite Hn. apply zrange_shift. intros i Hi. apply Hg. lia.
Qed.
