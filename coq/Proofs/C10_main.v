(* C10 -- the statements of Properties/C10.v, proved from the lemmas of C10_list / C10_slice / C10_stack. *)
From Coq Require Import Reals ZArith List Lia Bool.
From PR Require Import Base.Num Base.RNum Base.ZX Base.Slice Base.Imp Model.Grid Model.SliceArea Model.Stack Gen.GenC10
     Model.LonlatPaths Model.StackDask Proofs.C10_list Proofs.C10_slice Proofs.C10_stack Proofs.C10_gen Proofs.C10_paths Proofs.C10_stackdask Model.ImpStack Gen.GenC10imp Model.C10_imp_run Proofs.C10_imp.
Import ListNotations.
Open Scope Z_scope.

Lemma main_getitem_translation : forall g key, gen_area_getitem RO g key = area_getitem RO g key.
Proof. exact gen_getitem_eq. Qed.

Lemma main_slice_coords_commute : forall (C : Type) (inv : R -> R -> C) g key, wf_g g -> sel_ok g key ->
  gvec_x RO (gen_area_getitem RO g key) = np_slice (snd key) (gvec_x RO g) /\
  gvec_y RO (gen_area_getitem RO g key) = np_slice (fst key) (gvec_y RO g) /\
  grid_of inv (gvec_x RO (gen_area_getitem RO g key)) (gvec_y RO (gen_area_getitem RO g key)) =
    np_slice2 key (grid_of inv (gvec_x RO g) (gvec_y RO g)).
Proof.
  intros C inv g key W S. rewrite gen_getitem_eq.
  destruct (getitem_vectors g key W S) as [Hx Hy]. repeat split; try assumption. apply getitem_coords; assumption.
Qed.

Lemma main_slice_coords_pointwise : forall g ys xs r c, wf_g g -> sel_ok g (ys, xs) ->
  proj_x RO (g_area (gen_area_getitem RO g (ys, xs))) c = proj_x RO (g_area g) (sstart (indices xs (gwidth g)) + c) /\
  proj_y RO (g_area (gen_area_getitem RO g (ys, xs))) r = proj_y RO (g_area g) (sstart (indices ys (gheight g)) + r).
Proof.
  intros g ys xs r c W [Sy Sx]. cbn [fst snd] in *. destruct W as [Hw Hh].
  rewrite gen_getitem_eq, getitem_area by (split; assumption).
  pose proof (win_of_indices ys (gheight g) ltac:(lia) Sy) as (_ & Hy & _).
  pose proof (win_of_indices xs (gwidth g) ltac:(lia) Sx) as (_ & Hx & _).
  split; [apply sl_proj_x; exact Hx|apply sl_proj_y; exact Hy].
Qed.

Lemma main_slice_shape : forall g key, wf_g g -> sel_ok g key ->
  gheight (gen_area_getitem RO g key) = slen (indices (fst key) (gheight g)) /\
  gwidth (gen_area_getitem RO g key) = slen (indices (snd key) (gwidth g)) /\
  forall (A : Type) (m : list (list A)), zlen m = gheight g -> rect m (gwidth g) ->
    zlen (np_slice2 key m) = gheight (gen_area_getitem RO g key) /\
    rect (np_slice2 key m) (gwidth (gen_area_getitem RO g key)).
Proof.
  intros g key W S. rewrite gen_getitem_eq. destruct (getitem_shape g key W S) as [H1 H2].
  repeat split; try assumption; destruct (shape_np_slice2 key m (gwidth g) H0) as [L Rc].
  - rewrite L, H, H1. reflexivity.
  - rewrite H2. exact Rc.
Qed.

Lemma main_crop_offset_acc : forall g ys xs,
  g_off (gen_area_getitem RO g (ys, xs)) =
  (fst (g_off g) + sstart (indices ys (gheight g)), snd (g_off g) + sstart (indices xs (gwidth g))).
Proof. intros. rewrite gen_getitem_eq. apply getitem_off. Qed.

Lemma main_slice_compose : forall keys g, wf_g g -> chain_ok (gheight g) (gwidth g) keys ->
  let ky := compose_all (gheight g) (map fst keys) in
  let kx := compose_all (gwidth g) (map snd keys) in
  fold_left (gen_area_getitem RO) keys g = gen_area_getitem RO g (okey ky, okey kx) /\
  g_off (fold_left (gen_area_getitem RO) keys g) = (fst (g_off g) + sstart ky, snd (g_off g) + sstart kx) /\
  1 <= slen ky /\ 1 <= slen kx /\
  forall (A : Type) (m : list (list A)), zlen m = gheight g -> rect m (gwidth g) ->
    fold_left (fun acc k => np_slice2 k acc) keys m = map (take_slice kx) (take_slice ky m).
Proof.
  intros keys g W C ky kx.
  assert (E : fold_left (gen_area_getitem RO) keys g = fold_left (area_getitem RO) keys g).
  { clear. revert g. induction keys as [|k r IH]; intros g; cbn; [reflexivity|]. rewrite gen_getitem_eq. apply IH. }
  rewrite E, gen_getitem_eq, (getitem_chain keys g W C). fold ky kx.
  pose proof W as [Hw Hh].
  destruct (chain_compose_sel keys (gheight g) (gwidth g) ltac:(lia) ltac:(lia) C Hh Hw) as [Sy Sx]. fold ky kx in Sy, Sx.
  split; [reflexivity|]. split.
  - rewrite getitem_off. rewrite !indices_okey by (apply compose_all_within; lia). reflexivity.
  - repeat split; try assumption. intros A m Hm Rm. unfold ky, kx. rewrite <- Hm. apply np_slice2_chain. exact Rm.
Qed.

Lemma main_split_concat_id : forall g k, wf_g g -> 1 <= k <= gheight g - 1 ->
  exists m, gen_concatenate_area_defs RO (gen_area_getitem RO g (rows_key 0 k))
                                         (gen_area_getitem RO g (rows_key k (gheight g))) 0 = Some m /\
            g_area m = g_area g /\ g_crs m = g_crs g.
Proof. intros g k W [H1 H2]. rewrite gen_concat_eq, !gen_getitem_eq. apply split_concat; assumption. Qed.

Lemma main_split_concat_id_rev_if : forall g k, wf_g g -> 1 <= k <= gheight g - 1 ->
  isclose RO (ymin (g_area (gen_area_getitem RO g (rows_key k (gheight g)))))
             (ymax (g_area (gen_area_getitem RO g (rows_key 0 k)))) = false ->
  exists m, gen_concatenate_area_defs RO (gen_area_getitem RO g (rows_key k (gheight g)))
                                         (gen_area_getitem RO g (rows_key 0 k)) 0 = Some m /\
            g_area m = g_area g /\ g_crs m = g_crs g.
Proof.
  intros g k W [H1 H2]. rewrite gen_concat_eq, !gen_getitem_eq. intros Hn. pose proof W as [Hw Hh].
  destruct (concat_windows_rev g 0 k (gheight g) _ _
              (rows_key_area g 0 k W ltac:(lia) ltac:(lia) ltac:(lia))
              (rows_key_area g k (gheight g) W ltac:(lia) ltac:(lia) ltac:(lia))
              ltac:(rewrite !rows_key_crs; reflexivity) Hn) as (m & E & Ea & Ec).
  exists m. split; [exact E|]. rewrite Ea, Ec, rows_key_crs, sl_area_full by exact W. split; reflexivity.
Qed.

Lemma main_stack_split_id : forall g cuts, wf_g g -> cuts_ok 0 cuts (gheight g) ->
  exists s m, stack_append_all RO stack_empty (parts RO g 0 cuts) = Some s /\ stack_squeeze s = Some m /\
              g_area m = g_area g /\ g_crs m = g_crs g /\ stack_height s = gheight g.
Proof.
  intros g cuts W C. destruct (stack_parts g cuts W C) as (m & E & Ea & Ec).
  eexists. exists m. split; [exact E|]. repeat split; try assumption.
  unfold stack_height, stack_defs, gheight; cbn. rewrite Ea. lia.
Qed.

Lemma main_stacked_lonlats_concat : forall (C : Type) (inv : R -> R -> C) (defs : list (garea R)) w,
  Forall (fun d => 1 <= gheight d /\ gwidth d = w) defs -> 0 <= w ->
  stacked_lonlats RO inv None defs = concat (map (member_grid inv) defs) /\
  forall rs cs, 0 <= sstart rs -> 0 <= sstop rs ->
    stacked_lonlats RO inv (Some (rs, cs)) defs = np_slice2 (okey rs, cs) (concat (map (member_grid inv) defs)).
Proof.
  intros C inv defs w F Hw. split; [apply (stacked_lonlats_all inv defs w F Hw)|].
  intros rs cs H1 H2. apply stacked_lonlats_data_slice; try assumption.
  revert F. apply Forall_impl. intros d [H _]. lia.
Qed.

Lemma main_stacked_rows_concat : forall (A : Type) (ms : list (list (list A))),
  (rect (concat ms) (first_width ms) -> stack_lonlats None ms = concat ms) /\
  forall rs cs, 0 <= sstart rs -> 0 <= sstop rs ->
    stack_lonlats (Some (rs, cs)) ms = np_slice2 (okey rs, cs) (concat ms).
Proof. intros A ms. split; [apply stack_lonlats_all|intros; apply stack_lonlats_data_slice; assumption]. Qed.

Lemma main_swath_slice_concat : forall (A : Type) (s : swath A) w,
  rect (fst s) w -> rect (snd s) w -> zlen (snd s) = zlen (fst s) ->
  (* shape and elements of a slice *)
  (forall key, zlen (fst (swath_getitem key s)) = slen (indices (fst key) (zlen (fst s))) /\
               rect (fst (swath_getitem key s)) (slen (indices (snd key) w)) /\
               forall (i j : nat) d, Z.of_nat i < slen (indices (fst key) (zlen (fst s))) ->
                                     Z.of_nat j < slen (indices (snd key) w) ->
                 nth j (nth i (fst (swath_getitem key s)) []) d =
                 nth (Z.to_nat (sstart (indices (snd key) w)) + j)
                     (nth (Z.to_nat (sstart (indices (fst key) (zlen (fst s)))) + i) (fst s) []) d) /\
  (* chains of slices compose *)
  (forall keys, fst (fold_left (fun acc k => swath_getitem k acc) keys s) =
                map (take_slice (compose_all w (map snd keys))) (take_slice (compose_all (zlen (fst s)) (map fst keys)) (fst s))) /\
  (* split at any row and concatenate: identity *)
  (forall k, 0 <= k <= zlen (fst s) ->
     swath_concat (swath_getitem (mk_oslice (Some 0) (Some k), mk_oslice None None) s)
                  (swath_getitem (mk_oslice (Some k) (Some (zlen (fst s))), mk_oslice None None) s) = s) /\
  (* slicing a concatenation = concatenating the members' local slices *)
  (forall (t : swath A) rs cs, 0 <= sstart rs -> 0 <= sstop rs ->
     fst (swath_getitem (okey rs, cs) (swath_concat s t)) = stack_rows rs cs 0 [fst s; fst t]).
Proof.
  intros A s w R1 R2 E. repeat split.
  - apply (shape_np_slice2 key (fst s) w R1).
  - apply (shape_np_slice2 key (fst s) w R1).
  - intros i j d Hi Hj. apply (nth_np_slice2 key (fst s) w i j d R1 Hi Hj).
  - intros keys.
    assert (G : forall (t : swath A), fst (fold_left (fun acc k => swath_getitem k acc) keys t) =
                fold_left (fun acc k => np_slice2 k acc) keys (fst t)).
    { induction keys as [|k r IH]; intros t; cbn; [reflexivity|]. rewrite IH. reflexivity. }
    rewrite G. apply np_slice2_chain. exact R1.
  - intros k Hk. apply (swath_split_concat s k w R1 R2 E Hk).
  - intros t rs cs H1 H2. apply swath_concat_slice; assumption.
Qed.

(* ---- wave 2: translated kernels, other code paths, histories *)
Lemma main_kernels_translation : forall (T : Type) (OP : ops T),
  (forall a1 a2 : garea T, gen_combine_area_extents_vertical OP a1 a2 = combine_area_extents_vertical OP (g_area a1) (g_area a2)) /\
  (forall g1 g2 : garea T, gen_concatenate_area_defs OP g1 g2 0 = concatenate_area_defs OP g1 g2) /\
  (forall rs off (d : garea T), okey (gen_local_row_slice rs off d) = local_row_slice rs off (gheight d)) /\
  (forall off (d : garea T), gen_stack_offset_step off d = off + gheight d).
Proof.
  intros T OP. split; [intros; apply gen_combine_eq|]. split; [intros; apply gen_concat_eq|]. split; intros; reflexivity.
Qed.

Lemma main_dask_chunks_independent : forall (T C : Type) (OP : ops T) (f : T -> T -> C) (a : area T) cy cx,
  Forall (fun x => 0 <= x) cy -> Forall (fun x => 0 <= x) cx -> sumZ cy = height a -> sumZ cx = width a ->
  dask_grid OP f a cy cx = grid_of f (proj_vector_x OP a) (proj_vector_y OP a) /\
  forall key, np_slice2 key (dask_grid OP f a cy cx) =
              grid_of f (np_slice (snd key) (proj_vector_x OP a)) (np_slice (fst key) (proj_vector_y OP a)).
Proof.
  intros T C OP f a cy cx Hy Hx Sy Sx. rewrite (dask_grid_eq OP f a cy cx Hy Hx Sy Sx). split; [reflexivity|].
  intros key. symmetry. apply grid_slice_commute.
Qed.

Lemma main_area_cache_history : forall (T C : Type) (OP : ops T) (inv : T -> T -> C) (g : garea T)
    (calls : list (option (oslice * oslice) * bool)),
  area_history OP inv g None calls = map (fun o => apply_ds (fst o) (area_lonlats OP inv g None)) calls.
Proof. intros. apply area_history_spec. left. reflexivity. Qed.

Lemma main_stack_cache_history : forall (T C : Type) (OP : ops T) (inv : T -> T -> C) (defs : list (garea T)) st os,
  state_ok OP inv defs st ->
  fst (shistory OP inv defs st os) = map (sop_spec OP inv defs) os /\
  forall ds flag, st_last (fst (sstep OP inv defs (snd (shistory OP inv defs st os)) (StackCall ds flag)))
                  = Some (stacked_lonlats OP inv ds defs).
Proof.
  intros T C OP inv defs st os H. destruct (shistory_spec OP inv defs os st H) as [E1 E2]. split; [exact E1|].
  intros ds flag. destruct (sstep_spec OP inv defs _ (StackCall ds flag) E2) as (_ & _ & E). exact E.
Qed.

Lemma main_swath_append_history : forall (A : Type) (s : swath A) (ts : list (swath A)),
  swath_append_all s ts = (fst s ++ concat (map fst ts), snd s ++ concat (map snd ts)).
Proof. intros. apply swath_append_all_spec. Qed.

Lemma main_stacked_dask_chunks_independent : forall (T C : Type) (OP : ops T) (inv : T -> T -> C) rs cs
    (defs : list (garea T)) (chs : list (list Z * list Z)),
  Forall2 tiling defs chs ->
  stacked_rows_dask OP inv rs cs 0 defs chs = stacked_rows OP inv rs cs 0 defs.
Proof. intros. apply stacked_rows_dask_eq. assumption. Qed.

Lemma main_split_concat_routes : forall g a b k, wf_g g -> 0 <= a -> a < k -> k < b -> b <= gheight g ->
  let win := gen_area_getitem RO g (rows_key a b) in
  (exists m, gen_concatenate_area_defs RO (gen_area_getitem RO g (rows_key a k))
                                          (gen_area_getitem RO win (rows_key (k - a) (b - a))) 0 = Some m /\
             g_area m = g_area win /\ g_crs m = g_crs g) /\
  (exists m, gen_concatenate_area_defs RO (gen_area_getitem RO win (rows_key 0 (k - a)))
                                          (gen_area_getitem RO g (rows_key k b)) 0 = Some m /\
             g_area m = g_area win /\ g_crs m = g_crs g).
Proof.
  intros g a b k W H1 H2 H3 H4 win. subst win. rewrite !gen_concat_eq, !gen_getitem_eq.
  apply (split_concat_routes g a b k W H1 H2 H3 H4).
Qed.

(* ---- wave 3: code is model for the stateful methods of StackedAreaDefinition (Gen/GenC10imp.v) *)
Lemma main_append_code_is_model : forall (T : Type) (OP : ops T) (p : pstack T) (d : garea T),
  match stack_append OP (to_stack p) d with
  | None => imp_stack_append OP p d = Raised
  | Some s' => exists st', state_of (imp_stack_append OP p d) = COk st' /\ to_stack (imp_stack_append_self st') = s' /\
                           (gheight d <> 0 -> memo_reset (imp_stack_append_self st')) /\
                           (gheight d = 0 -> imp_stack_append_self st' = p)
  end.
Proof. intros. apply imp_stack_append_model. Qed.
Lemma main_append_sequence_code_is_model : forall (T : Type) (OP : ops T) (ds : list (garea T)) (p : pstack T),
  match stack_append_all OP (to_stack p) ds with
  | None => imp_append_all OP p ds = CRaised
  | Some s' => exists p', imp_append_all OP p ds = COk p' /\ to_stack p' = s'
  end.
Proof. intros. apply imp_append_all_model. Qed.
Lemma main_stack_observers_code_is_model : forall (T : Type) (OP : ops T) (p : pstack T),
  value_of (imp_stack_squeeze OP p) = COk (match stack_squeeze (to_stack p) with Some d => inl d | None => inr p end) /\
  value_of (imp_stack_width OP p) = match ps_defs p with [] => CRaised | d :: _ => COk (gwidth d) end /\
  (ps_defs p <> [] -> value_of (imp_stack_width OP p) = COk (stack_width (to_stack p))) /\
  value_of (imp_stack_height p) = COk (stack_height (to_stack p)).
Proof.
  intros T OP p. split; [apply imp_stack_squeeze_model|]. destruct (imp_stack_width_model OP p) as [H1 H2].
  split; [exact H1|]. split; [exact H2|apply imp_stack_height_model].
Qed.
Lemma main_stack_split_id_code : forall g cuts, wf_g g -> cuts_ok 0 cuts (gheight g) ->
  exists p' m, imp_append_all RO pstack_empty (parts RO g 0 cuts) = COk p' /\ ps_defs p' = [m] /\
               value_of (imp_stack_squeeze RO p') = COk (inl m) /\ g_area m = g_area g /\ g_crs m = g_crs g /\
               value_of (imp_stack_height p') = COk (gheight g).
Proof.
  intros g cuts W C. destruct (main_stack_split_id g cuts W C) as (s & m & E & Esq & Ea & Ec & Eh).
  pose proof (imp_append_all_model RO (parts RO g 0 cuts) pstack_empty) as H.
  change (to_stack (@pstack_empty R)) with (@stack_empty R) in H. rewrite E in H. destruct H as (p' & Ep & Es).
  exists p', m. split; [exact Ep|].
  assert (Ed : ps_defs p' = [m]).
  { unfold stack_squeeze in Esq. rewrite <- Es in Esq. unfold to_stack in Esq. cbn [s_rdefs] in Esq.
    destruct (rev (ps_defs p')) as [|x [|y t]] eqn:Er; try discriminate. inversion Esq; subst.
    rewrite <- (rev_involutive (ps_defs p')), Er. reflexivity. }
  split; [exact Ed|]. split.
  - rewrite imp_stack_squeeze_model, Es, Esq. reflexivity.
  - repeat split; try assumption. rewrite imp_stack_height_model, Es, Eh. reflexivity.
Qed.
