(* C01 -- code-is-model for the stateful accessors REGENERATED from the source by the imperative front end
   (coq/Gen/GenC01imp.v): AreaDefinition.get_lonlats (numpy path: chunks=None, nprocs unset) and _get_proj_vectors.
   The numeric parts are the Section's abstract functions (see the spec's note for what is pattern-trusted). *)
From Coq Require Import ZArith List Bool.
From PR Require Import Base.Imp Model.C01_ImpObj Gen.GenC01imp.
Import ListNotations.
Open Scope Z_scope.

Section ImpProofs.
  Context {G SL : Type} (g0 : G) (sl0 : SL) (proj_coords : areaobj G -> option SL -> G * G)
          (invproj : areaobj G -> G * G -> G * G) (slice_arr : G -> SL -> G) (proj_vectors : areaobj G -> G * G).

  Definition c01_osl (g : G) (sl : option SL) : G := match sl with Some s => slice_arr g s | None => g end.
  Definition c01_with_cache (self : areaobj G) (lo la : G) : areaobj G :=
    mk_areaobj (Some lo) (Some la) (ao_nprocs self) (ao_dtype self) (ao_crs self).
  Definition c01_is_none {A} (o : option A) : bool := match o with None => true | _ => false end.

  (* the clean model of one call: (object afterwards, returned (lons, lats)); None = Python raises *)
  Definition c01_obj_get_lonlats (self : areaobj G) (sl : option SL) (cache : bool) : option (areaobj G * (G * G)) :=
    match ao_lons self, ao_lats self with
    | Some lo, Some la => Some (self, (c01_osl lo sl, c01_osl la sl))          (* served from the cache, sliced, as copies *)
    | Some _, None => None                                                      (* lons cached without lats: not a state the code produces *)
    | None, _ =>
        let pc := proj_coords self sl in
        let r := invproj self (fst pc, snd pc) in
        Some ((if cache && c01_is_none sl then mk_areaobj (Some (fst r)) (Some (snd r)) (ao_nprocs self) (ao_dtype self) (ao_crs self)
               else self), (fst r, snd r))
    end.

  Notation run_get_lonlats := (imp_get_lonlats g0 proj_coords invproj slice_arr).

  (* what a caller sees of one run: the returned value and the object afterwards *)
  Definition c01_lonlats_outcome (r : res (imp_get_lonlats_st (G:=G) (SL:=SL)) Empty_set (G * G)) : option (areaobj G * (G * G)) :=
    match r with Ret _ st v => Some (imp_get_lonlats_self st, v) | _ => None end.
  Definition c01_vectors_outcome (r : res (imp_get_proj_vectors_st (G:=G)) Empty_set (G * G)) : option (areaobj G * (G * G)) :=
    match r with Ret _ st v => Some (imp_get_proj_vectors_self st, v) | _ => None end.

  (* code is model: whatever nprocs / dtype / chunks tokens are passed on the specialised path; None = Python raises *)
  Lemma imp_get_lonlats_code_is_model self nprocs sl cache dtype chunks :
    c01_lonlats_outcome (run_get_lonlats self nprocs sl cache dtype chunks) = c01_obj_get_lonlats self sl cache.
  Proof.
    destruct self as [lo la np dt crs].
    destruct lo as [lo|]; [destruct la as [la|]|];
      destruct sl as [sl|]; destruct cache; destruct dtype as [d|]; vm_compute; reflexivity.
  Qed.

  (* _get_proj_vectors keeps no memo: the object is unchanged and the vectors are computed afresh on every call *)
  Lemma imp_get_proj_vectors_code_is_model self dtype chunks :
    c01_vectors_outcome (imp_get_proj_vectors g0 proj_vectors self dtype chunks) =
    Some (self, (fst (proj_vectors self), snd (proj_vectors self))).
  Proof. destruct dtype; vm_compute; reflexivity. Qed.

  (* ---- histories of calls on one object, run through the GENERATED get_lonlats ---- *)
  Fixpoint imp_lonlats_history (self : areaobj G) (calls : list (option SL * bool)) : list (option (G * G)) :=
    match calls with
    | [] => []
    | (sl, cache) :: rest =>
        match c01_lonlats_outcome (run_get_lonlats self None sl cache None None) with
        | Some (self', v) => Some v :: imp_lonlats_history self' rest
        | None => [None]
        end
    end.

  (* what a fresh object computes for a data_slice *)
  Definition c01_fresh_value (self : areaobj G) (sl : option SL) : G * G :=
    let pc := proj_coords self sl in let r := invproj self (fst pc, snd pc) in (fst r, snd r).
  (* H_slice at a selection: slicing the lon/lats of the whole grid is computing the lon/lats of the slice *)
  Definition c01_H_slice_at (self : areaobj G) (sl : SL) : Prop :=
    (slice_arr (fst (c01_fresh_value self None)) sl, slice_arr (snd (c01_fresh_value self None)) sl) = c01_fresh_value self (Some sl).

  Lemma c01_obj_fresh self sl cache : ao_lons self = None ->
    c01_obj_get_lonlats self sl cache =
    Some ((if cache && c01_is_none sl then c01_with_cache self (fst (c01_fresh_value self sl)) (snd (c01_fresh_value self sl)) else self),
          c01_fresh_value self sl).
  Proof. destruct self as [lo la np dt crs]; cbn. intros ->. reflexivity. Qed.

  Lemma imp_lonlats_history_stateless self0 : ao_lons self0 = None ->
    forall calls, (forall sl cache, In (Some sl, cache) calls -> c01_H_slice_at self0 sl) ->
    imp_lonlats_history self0 calls = map (fun c => Some (c01_fresh_value self0 (fst c))) calls.
  Proof.
    intros Hn calls.
    set (W := c01_fresh_value self0 None).
    assert (Inv : (forall sl cache, In (Some sl, cache) calls -> c01_H_slice_at self0 sl) ->
                  forall self, self = self0 \/ self = c01_with_cache self0 (fst W) (snd W) ->
                  imp_lonlats_history self calls = map (fun c => Some (c01_fresh_value self0 (fst c))) calls).
    { induction calls as [|[sl cache] rest IH]; intros Hs self Hself; [reflexivity|].
      assert (Hrest : forall sl0' cache0, In (Some sl0', cache0) rest -> c01_H_slice_at self0 sl0')
        by (intros ? ? Hin; eapply Hs; right; exact Hin).
      cbn [imp_lonlats_history map fst]. rewrite imp_get_lonlats_code_is_model.
      destruct Hself as [->| ->].
      - rewrite (c01_obj_fresh self0 sl cache Hn). f_equal. apply IH; [exact Hrest|].
        destruct cache; [|left; reflexivity]. destruct sl; cbn [andb c01_is_none]; [left; reflexivity|right; reflexivity].
      - unfold c01_obj_get_lonlats, c01_with_cache. cbn [ao_lons ao_lats].
        assert (E : (c01_osl (fst W) sl, c01_osl (snd W) sl) = c01_fresh_value self0 sl).
        { destruct sl as [sl|]; cbn [c01_osl]; [apply (Hs sl cache); left; reflexivity | unfold W; reflexivity]. }
        rewrite E. f_equal. apply IH; [exact Hrest | right; reflexivity]. }
    intros Hs. apply Inv; [exact Hs | left; reflexivity].
  Qed.

  (* the same for the projection vectors: every call of the generated _get_proj_vectors on one object returns the fresh vectors *)
  Fixpoint imp_vectors_history (self : areaobj G) (n : nat) : list (option (G * G)) :=
    match n with
    | O => []
    | S k => match c01_vectors_outcome (imp_get_proj_vectors g0 proj_vectors self None None) with
             | Some (self', v) => Some v :: imp_vectors_history self' k
             | None => [None]
             end
    end.
  Lemma imp_vectors_history_stateless self n :
    imp_vectors_history self n = repeat (Some (fst (proj_vectors self), snd (proj_vectors self))) n.
  Proof. induction n as [|k IH]; cbn [imp_vectors_history repeat]; [reflexivity|]. rewrite imp_get_proj_vectors_code_is_model. now rewrite IH. Qed.
End ImpProofs.

(* ---- the hypothesis H_slice holds for the concrete accessors of Model/C01_Area.v: lon and lat arrays of the canonical grid ---- *)
From PR Require Import Base.Num Model.Grid Model.C01_Area Model.C01_Cache Proofs.C01_grid Proofs.C01_cache.

Lemma c01_combine_fst_snd {A B} (l : list (A * B)) : combine (map fst l) (map snd l) = l.
Proof. induction l as [|[x y] l IH]; cbn; [reflexivity|now rewrite IH]. Qed.

Lemma c01_map_map2 {A B C} (f : A -> B) (g : B -> C) (l : list (list A)) :
  map (map g) (map (map f) l) = map (map (fun x => g (f x))) l.
Proof. rewrite map_map. apply map_ext. intros r. apply map_map. Qed.

Section ImpInstance.
  Context {T : Type} (OP : ops T) (invT : T * T -> T * T) (a : area T).
  Hypothesis Hw : 0 <= width a.
  Hypothesis Hh : 0 <= height a.

  Definition c01_zip2 (X Y : list (list T)) : list (list (T * T)) := map (fun p => combine (fst p) (snd p)) (combine X Y).
  Definition c01_unzip (g : list (list (T * T))) : list (list T) * list (list T) := (map (map fst) g, map (map snd) g).
  Lemma c01_zip2_unzip g : c01_zip2 (fst (c01_unzip g)) (snd (c01_unzip g)) = g.
  Proof.
    unfold c01_zip2, c01_unzip. cbn [fst snd]. induction g as [|row g IH]; cbn; [reflexivity|].
    rewrite c01_combine_fst_snd. f_equal. exact IH.
  Qed.

  (* get_proj_coords(data_slice) as two arrays; the inverse projection applied element-wise, giving lon and lat arrays *)
  Definition c01_pc_inst (_ : areaobj (list (list T))) (sl : option (list Z * list Z)) : list (list T) * list (list T) :=
    c01_unzip (c01_coords_numpy OP a (fst (c01_sel a sl)) (snd (c01_sel a sl))).
  Definition c01_inv_inst (_ : areaobj (list (list T))) (xy : list (list T) * list (list T)) : list (list T) * list (list T) :=
    c01_unzip (map (map invT) (c01_zip2 (fst xy) (snd xy))).
  Definition c01_slice_inst (g : list (list T)) (sl : list Z * list Z) : list (list T) :=
    c01_select [] (fst sl) (map (c01_select (nan OP) (snd sl)) g).

  Lemma c01_select_grid {B} (f : T * T -> B) (d : B) rows cols :
    c01_in_range (height a) rows -> c01_in_range (width a) cols ->
    c01_select [] rows (map (c01_select d cols) (map (map f) (c01_grid_fn OP a (c01_all_rows a) (c01_all_cols a)))) =
    map (map f) (c01_grid_fn OP a rows cols).
  Proof.
    intros Hr Hc. unfold c01_grid_fn, c01_all_rows, c01_all_cols, c01_range. rewrite !Z.sub_0_r. rewrite !map_map.
    rewrite c01_select_map_zrange by (apply c01_in_range_nat; assumption).
    apply map_ext. intros r. rewrite map_map.
    rewrite c01_select_map_zrange by (apply c01_in_range_nat; assumption).
    now rewrite map_map.
  Qed.

  Lemma c01_fresh_value_inst self sl : c01_sl_ok a sl ->
    c01_fresh_value c01_pc_inst c01_inv_inst self sl =
    c01_unzip (map (map invT) (c01_grid_fn OP a (fst (c01_sel a sl)) (snd (c01_sel a sl)))).
  Proof.
    intros Hs. destruct (c01_sel_ok invT invT a sl Hs) as [Hr Hc].
    unfold c01_fresh_value, c01_pc_inst, c01_inv_inst. cbn [fst snd].
    rewrite c01_zip2_unzip, <- surjective_pairing. now rewrite c01_coords_numpy_fn by assumption.
  Qed.

  (* H_slice for every in-range selection *)
  Lemma c01_H_slice_inst self rows cols : c01_in_range (height a) rows -> c01_in_range (width a) cols ->
    c01_H_slice_at c01_pc_inst c01_inv_inst c01_slice_inst self (rows, cols).
  Proof.
    intros Hr Hc. unfold c01_H_slice_at. rewrite (c01_fresh_value_inst self None I). rewrite (c01_fresh_value_inst self (Some (rows, cols))) by (split; assumption).
    unfold c01_unzip, c01_slice_inst. cbn [fst snd c01_sel]. rewrite !c01_map_map2.
    f_equal; apply c01_select_grid; assumption.
  Qed.
End ImpInstance.
