(* C17 — structural facts about Arc.get_next_intersection as modelled (real-number distances):
   the crossing it returns lies on the edge; without a known crossing it is the one nearest to the edge start;
   with a known crossing it is a different crossing that is not nearer than the known one. *)
From Coq Require Import Reals ZArith List Bool Lra Lia Sorting.Permutation.
From PR Require Import Base.Num Base.RNum Model.SphPoly.
Import ListNotations.
Open Scope R_scope.

Section NextR.
  Variable side : bool.
  Notation d := (@xd R side).

  Lemma insert_by_perm x l : Permutation (insert_by RO side x l) (x :: l).
  Proof.
    induction l as [|y r IH]; cbn; [reflexivity|].
    destruct (Rltb _ _); [reflexivity|].
    rewrite IH. apply perm_swap.
  Qed.
  Lemma sort_by_perm l : Permutation (sort_by RO side l) l.
  Proof. induction l as [|x l IH]; cbn; [reflexivity|]. unfold sort_by in *. cbn. rewrite insert_by_perm. now constructor. Qed.

  (* ascending in distance *)
  Fixpoint ascending (l : list (@xing R)) : Prop :=
    match l with
    | [] => True
    | x :: r => (forall y, In y r -> d x <= d y) /\ ascending r
    end.
  Lemma insert_by_ascending x l : ascending l -> ascending (insert_by RO side x l).
  Proof.
    induction l as [|y r IH]; intros H; cbn; [split; [intros ? []|exact I]|].
    destruct H as (Hy & Hr). cbn [ltb RO].
    destruct (Rltb (xd side x) (xd side y)) eqn:E.
    - apply Rltb_true in E. split; [|split; assumption].
      intros z [<-|Hz]; [lra|]. specialize (Hy z Hz). lra.
    - apply Rltb_false in E. split; [|apply IH; exact Hr].
      intros z Hz. apply (Permutation_in _ (insert_by_perm x r)) in Hz. destruct Hz as [<-|Hz]; [exact E|apply Hy, Hz].
  Qed.
  Lemma sort_by_ascending l : ascending (sort_by RO side l).
  Proof. induction l as [|x l IH]; [exact I|]. unfold sort_by in *. cbn. apply insert_by_ascending, IH. Qed.

  Lemma pick_in known tn l x : @pick R known tn l = Some x -> In x l.
  Proof.
    revert tn. induction l as [|y r IH]; intros tn H; cbn in H; [discriminate|].
    destruct known as [k|]; [|injection H as <-; now left].
    destruct (xid y =? k)%Z; [right; eapply IH; eauto|].
    destruct tn; [injection H as <-; now left|right; eapply IH; eauto].
  Qed.
  Lemma pick_not_known k tn l x : @pick R (Some k) tn l = Some x -> xid x <> k.
  Proof.
    revert tn. induction l as [|y r IH]; intros tn H; cbn in H; [discriminate|].
    destruct (Z.eqb_spec (xid y) k); [eapply IH; eauto|].
    destruct tn; [injection H as <-; assumption|eapply IH; eauto].
  Qed.
  (* with take_next = false, whatever is returned comes after an occurrence of the known crossing *)
  Lemma pick_after k l x : ascending l -> @pick R (Some k) false l = Some x ->
    exists y, In y l /\ xid y = k /\ d y <= d x.
  Proof.
    induction l as [|y r IH]; intros A H; cbn in H; [discriminate|].
    destruct A as (Hy & Hr).
    destruct (Z.eqb_spec (xid y) k) as [E|E].
    - exists y. split; [now left|split; [exact E|]]. apply Hy. eapply pick_in; eauto.
    - destruct (IH Hr H) as (z & Hz & Ez & Lz). exists z. repeat split; auto. now right.
  Qed.

  Variable Arr : @arrangement R.

  Lemma next_intersection_nearest e others x :
    get_next_intersection RO Arr side e others None = Some x ->
    In x (res_list Arr side e others) /\ forall y, In y (res_list Arr side e others) -> d x <= d y.
  Proof.
    unfold get_next_intersection. intros H.
    pose proof (sort_by_ascending (res_list Arr side e others)) as A.
    pose proof (sort_by_perm (res_list Arr side e others)) as P.
    destruct (sort_by RO side (res_list Arr side e others)) as [|z r] eqn:E; cbn in H; [discriminate|].
    injection H as <-. split.
    - apply (Permutation_in _ P). now left.
    - intros y Hy. apply (Permutation_in _ (Permutation_sym P)) in Hy. destruct Hy as [<-|Hy]; [lra|]. now apply (proj1 A).
  Qed.

  Lemma next_intersection_after e others k x :
    get_next_intersection RO Arr side e others (Some k) = Some x ->
    In x (res_list Arr side e others) /\ xid x <> k /\
    exists y, In y (res_list Arr side e others) /\ xid y = k /\ d y <= d x.
  Proof.
    unfold get_next_intersection. intros H.
    pose proof (sort_by_ascending (res_list Arr side e others)) as A.
    pose proof (sort_by_perm (res_list Arr side e others)) as P.
    split; [|split].
    - apply (Permutation_in _ P). eapply pick_in; eauto.
    - eapply pick_not_known; eauto.
    - destruct (pick_after _ _ _ A H) as (y & Hy & Ey & Ly). exists y. repeat split; auto. now apply (Permutation_in _ P).
  Qed.

  (* every entry of res lies on edge e and on one of the offered edges of the other polygon *)
  Lemma res_list_on_edge e others x : In x (res_list Arr side e others) ->
    xe side x = e /\ In (xe (negb side) x) others /\ In x (xs Arr).
  Proof.
    unfold res_list. rewrite in_flat_map. intros (eo & Ho & Hx). unfold find_xing in Hx.
    destruct (find _ (xs Arr)) as [z|] eqn:F; [|destruct Hx].
    destruct Hx as [<-|[]]. apply find_some in F. destruct F as (Hin & Hb).
    apply andb_true_iff in Hb. destruct Hb as (H1 & H2). apply Z.eqb_eq in H1, H2. subst. auto.
  Qed.
End NextR.
