(* C08: the dask path (per input chunk and output chunk accumulation, placeholders, tree reduction by
   _combine_fornav, _average_fornav) yields at every grid cell what one-shot fornav yields on the whole scan list,
   exactly over the reals: accumulation is a monoid fold and the combine step is its homomorphic image.
   For ALL splits of the scan list into groups of chunks, ALL output chunks containing the cell. *)
From Coq Require Import Reals ZArith Lra Lia List Bool Psatz.
From Flocq Require Import Zaux Raux.
From PR Require Import Base.Num Base.RNum Model.EWA Proofs.C08_acc.
Import ListNotations.
Open Scope R_scope.

Definition Mst (mwm : bool) (l : list (R * R)) : R * R := fold_cell RO mwm l (0, 0).
Definition pos_weights (l : list (R * R)) : Prop := forall v w, In (v, w) l -> 0 < w.

Lemma pos_app l1 l2 : pos_weights l1 -> pos_weights l2 -> pos_weights (l1 ++ l2).
Proof. intros H1 H2 v w Hin. apply in_app_or in Hin. destruct Hin; eauto. Qed.
Lemma pos_tail x l : pos_weights (x :: l) -> pos_weights l.
Proof. intros H v w Hin. eapply H; right; eauto. Qed.

Lemma combine2_avg (a b : R * R) : combine2 RO false a b = (fst a + fst b, snd a + snd b).
Proof. reflexivity. Qed.
Lemma combine2_max (a b : R * R) : combine2 RO true a b = if Rltb (fst a) (fst b) then b else a.
Proof. reflexivity. Qed.

Lemma Mst_cons_max v w l : 0 < w -> Mst true ((v, w) :: l) = fold_cell RO true l (w, v).
Proof.
  intros Hw. unfold Mst. rewrite fold_cell_cons. cbn [fst snd].
  change (step RO true v (0, 0) w) with (if Rltb (fst (0, 0)) w then (w, v) else (0, 0)).
  cbn [fst]. destruct (Rltb 0 w) eqn:E; [reflexivity | apply Rltb_false in E; lra].
Qed.

(* folding from a state = combining that state with the fold from the empty state *)
Lemma fold_from mwm l s :
  0 <= fst s -> pos_weights l -> fold_cell RO mwm l s = combine2 RO mwm s (Mst mwm l).
Proof.
  destruct mwm.
  - (* maximum weight *)
    revert s. induction l as [|[v w] l IH]; intros s Hs Hp.
    + unfold Mst. cbn [fold_cell fold_left]. rewrite combine2_max. cbn [fst].
      destruct (Rltb (fst s) 0) eqn:E; [apply Rltb_true in E; lra | reflexivity].
    + pose proof (Hp v w (or_introl eq_refl)) as Hw. pose proof (pos_tail _ _ Hp) as Hl.
      rewrite Mst_cons_max by assumption.
      rewrite (IH (w, v)) by (cbn [fst]; try lra; assumption).
      rewrite fold_cell_cons. cbn [fst snd].
      change (step RO true v s w) with (if Rltb (fst s) w then (w, v) else s).
      rewrite !combine2_max. cbn [fst].
      destruct (Rltb (fst s) w) eqn:E1.
      * apply Rltb_true in E1. rewrite (IH (w, v)) by (cbn [fst]; try lra; assumption).
        rewrite combine2_max. cbn [fst].
        destruct (Rltb w (fst (Mst true l))) eqn:E2.
        -- apply Rltb_true in E2. destruct (Rltb (fst s) (fst (Mst true l))) eqn:E3; [reflexivity|].
           apply Rltb_false in E3. lra.
        -- cbn [fst]. destruct (Rltb (fst s) w) eqn:E3; [reflexivity | apply Rltb_false in E3; lra].
      * apply Rltb_false in E1. rewrite (IH s) by assumption. rewrite combine2_max.
        destruct (Rltb w (fst (Mst true l))) eqn:E2; [reflexivity|].
        apply Rltb_false in E2. cbn [fst].
        destruct (Rltb (fst s) (fst (Mst true l))) eqn:E3; [apply Rltb_true in E3; lra|].
        destruct (Rltb (fst s) w) eqn:E4; [apply Rltb_true in E4; lra | reflexivity].
  - (* average *)
    intros _ _. destruct s as [W A]. unfold Mst. rewrite !fold_avg, combine2_avg. cbn [fst snd]. f_equal; lra.
Qed.

Lemma Mst_fst_nonneg mwm l : pos_weights l -> 0 <= fst (Mst mwm l).
Proof.
  intros Hp. destruct mwm.
  - unfold Mst. destruct (fold_max_inv l (0, 0)) as [[E _]|[H _]]; [rewrite E; cbn; lra | cbn [fst] in H; lra].
  - unfold Mst. rewrite fold_avg. cbn [fst]. pose proof (sumw_nonneg l Hp). lra.
Qed.

Lemma Mst_app mwm l1 l2 :
  pos_weights l1 -> pos_weights l2 -> Mst mwm (l1 ++ l2) = combine2 RO mwm (Mst mwm l1) (Mst mwm l2).
Proof.
  intros H1 H2. unfold Mst at 1. rewrite fold_cell_app. apply fold_from; [apply Mst_fst_nonneg|]; assumption.
Qed.

(* a non-empty list of positive weights puts the cell's weight at or above one of them *)
Lemma Mst_fst_ge mwm l : l <> [] -> pos_weights l -> exists v w, In (v, w) l /\ w <= fst (Mst mwm l).
Proof.
  intros Hne Hp. destruct mwm.
  - unfold Mst. destruct (fold_max_inv l (0, 0)) as [[_ H]|[_ [H1 H2]]].
    + destruct l as [|[v w] l]; [congruence|]. pose proof (H v w (or_introl eq_refl)).
      pose proof (Hp v w (or_introl eq_refl)). cbn [fst] in *. lra.
    + eexists _, _. split; [exact H1 | lra].
  - destruct l as [|[v w] l]; [congruence|]. exists v, w. split; [left; reflexivity|].
    unfold Mst. rewrite fold_avg. cbn [fst]. pose proof (sumw_ge _ v w Hp (or_introl eq_refl)). lra.
Qed.

(* ---- the combine step on per-chunk states *)
Definition ostate (mwm : bool) (e : bool) (l : list (R * R)) : option (R * R) :=
  if e then None else Some (Mst mwm l).
Definition unflagged (els : list (bool * list (R * R))) : list (R * R) :=
  concat (map snd (filter (fun el => negb (fst el)) els)).
Definition all_pos (els : list (bool * list (R * R))) : Prop := forall el, In el els -> pos_weights (snd el).

Lemma unflagged_pos els : all_pos els -> pos_weights (unflagged els).
Proof.
  unfold unflagged. induction els as [|[e l] els IH]; intros H; [intros ? ? []|].
  assert (H' : all_pos els) by (intros el Hin; apply H; right; assumption).
  cbn [filter fst negb]. destruct e; cbn [negb]; [apply IH; assumption|].
  cbn [map concat snd]. apply pos_app; [apply (H (false, l)); left; reflexivity | apply IH; assumption].
Qed.

Lemma combine_from_some mwm els l0 :
  pos_weights l0 -> all_pos els ->
  fold_left (combine_opt RO mwm) (map (fun el => ostate mwm (fst el) (snd el)) els) (Some (Mst mwm l0))
  = Some (Mst mwm (l0 ++ unflagged els)).
Proof.
  revert l0. induction els as [|[e l] els IH]; intros l0 H0 H.
  - cbn. unfold unflagged. cbn. rewrite app_nil_r. reflexivity.
  - assert (H' : all_pos els) by (intros el Hin; apply H; right; assumption).
    cbn [map fold_left fst snd]. destruct e.
    + change (ostate mwm true l) with (@None (R * R)). cbn [combine_opt]. exact (IH l0 H0 H').
    + change (ostate mwm false l) with (Some (Mst mwm l)). cbn [combine_opt].
      assert (Hl : pos_weights l) by (apply (H (false, l)); left; reflexivity).
      rewrite <- Mst_app by assumption.
      etransitivity; [apply (IH (l0 ++ l)); [apply pos_app|]; assumption|].
      unfold unflagged. cbn [filter fst negb map concat snd]. rewrite app_assoc. reflexivity.
Qed.

Lemma combine_ostates mwm els :
  all_pos els ->
  combine RO mwm (map (fun el => ostate mwm (fst el) (snd el)) els) = ostate mwm (forallb fst els) (unflagged els).
Proof.
  unfold combine. induction els as [|[e l] els IH]; intros H; [reflexivity|].
  assert (H' : all_pos els) by (intros el Hin; apply H; right; assumption).
  cbn [map fold_left fst snd forallb]. destruct e.
  - change (ostate mwm true l) with (@None (R * R)). cbn [combine_opt andb]. exact (IH H').
  - change (ostate mwm false l) with (Some (Mst mwm l)). cbn [combine_opt andb].
    assert (Hl : pos_weights l) by (apply (H (false, l)); left; reflexivity).
    exact (combine_from_some mwm els l Hl H').
Qed.

Lemma unflagged_all els :
  (forall el, In el els -> fst el = true -> snd el = []) -> unflagged els = concat (map snd els).
Proof.
  unfold unflagged. induction els as [|[e l] els IH]; intros H; [reflexivity|].
  cbn [filter fst negb map concat snd]. rewrite <- IH by (intros; apply H; [right|]; assumption).
  destruct e; cbn [negb]; [|reflexivity].
  pose proof (H (true, l) (or_introl eq_refl) eq_refl) as E. cbn [snd] in E. subst l. reflexivity.
Qed.

Lemma unflagged_none els : forallb fst els = true -> unflagged els = [].
Proof.
  unfold unflagged. induction els as [|[e l] els IH]; intros H; [reflexivity|].
  cbn [forallb fst] in H. apply andb_true_iff in H. destruct H as [-> H].
  cbn [filter fst negb]. apply IH. assumption.
Qed.

(* ---- one input chunk at one cell *)
Lemma delayed_cell_ostate mwm (ic : bool * list (pixel R)) c :
  delayed_cell RO mwm ic c = ostate mwm (fst ic) (contribs (snd ic) c).
Proof.
  unfold delayed_cell, ostate. destruct (fst ic); [reflexivity|].
  rewrite accumulate_cell. reflexivity.
Qed.

(* the tree reduction at one cell, in terms of the contribution lists *)
Definition chunk_el (c : cell) (ic : bool * list (pixel R)) : bool * list (R * R) := (fst ic, contribs (snd ic) c).
Definition group_el (c : cell) (g : list (bool * list (pixel R))) : bool * list (R * R) :=
  (forallb fst (map (chunk_el c) g), unflagged (map (chunk_el c) g)).

Lemma tree_state mwm groups c :
  (forall g ic, In g groups -> In ic g -> pos_weights (contribs (snd ic) c)) ->
  combine RO mwm (map (fun g => combine RO mwm (map (fun ic => delayed_cell RO mwm ic c) g)) groups)
  = ostate mwm (forallb fst (map (group_el c) groups)) (unflagged (map (group_el c) groups)).
Proof.
  intros Hp.
  assert (Hin : forall g, In g groups ->
            combine RO mwm (map (fun ic => delayed_cell RO mwm ic c) g)
            = ostate mwm (fst (group_el c g)) (snd (group_el c g))).
  { intros g Hg. unfold group_el. cbn [fst snd]. rewrite <- combine_ostates.
    - rewrite map_map. f_equal. apply map_ext. intros ic. apply delayed_cell_ostate.
    - intros el Hel. apply in_map_iff in Hel. destruct Hel as (ic & <- & Hic). cbn [chunk_el snd]. eauto. }
  transitivity (combine RO mwm (map (fun el => ostate mwm (fst el) (snd el)) (map (group_el c) groups))).
  { f_equal. rewrite map_map. apply map_ext_in. exact Hin. }
  apply combine_ostates.
  intros el Hel. apply in_map_iff in Hel. destruct Hel as (g & <- & Hg). unfold group_el. cbn [snd].
  apply unflagged_pos. intros el Hel. apply in_map_iff in Hel. destruct Hel as (ic & <- & Hic). cbn. eauto.
Qed.

(* under H_empty (a placeholder chunk contributes nothing to this cell) the reduced list is the whole list *)
Lemma tree_all groups c :
  (forall g ic, In g groups -> In ic g -> fst ic = true -> contribs (snd ic) c = []) ->
  unflagged (map (group_el c) groups) = contribs (concat (map (fun g => concat (map snd g)) groups)) c.
Proof.
  intros He. rewrite contribs_concat. rewrite map_map.
  rewrite unflagged_all.
  - rewrite map_map. f_equal. apply map_ext_in. intros g Hg. unfold group_el. cbn [snd].
    rewrite contribs_concat, map_map. rewrite unflagged_all.
    + rewrite map_map. reflexivity.
    + intros el Hel Hf. apply in_map_iff in Hel. destruct Hel as (ic & <- & Hic). cbn in *. eauto.
  - intros el Hel Hf. apply in_map_iff in Hel. destruct Hel as (g & <- & Hg). unfold group_el in *. cbn [fst snd] in *.
    apply unflagged_none. assumption.
Qed.

Lemma tree_all_flagged groups c :
  (forall g ic, In g groups -> In ic g -> fst ic = true -> contribs (snd ic) c = []) ->
  forallb fst (map (group_el c) groups) = true ->
  contribs (concat (map (fun g => concat (map snd g)) groups)) c = [].
Proof.
  intros He Hall. rewrite <- tree_all by assumption. apply unflagged_none. assumption.
Qed.

Lemma eps32_pos : 0 < eps32 RO.
Proof. unfold eps32. cbn [lit RO]. apply Rmult_lt_0_compat; [apply IZR_lt; lia | apply bpow_gt_0]. Qed.
Lemma sum_min_write_pos s : 0 < sum_min_write RO s.
Proof.
  unfold sum_min_write. cbn [leb RO ofZ]. destruct (Rleb s 0) eqn:E; [apply eps32_pos | apply Rleb_false in E; lra].
Qed.
Lemma sum_min_write_id s : 0 < s -> sum_min_write RO s = s.
Proof.
  intros H. unfold sum_min_write. cbn [leb RO ofZ]. destruct (Rleb s 0) eqn:E; [apply Rleb_true in E; lra | reflexivity].
Qed.

(* an explicit positive weight_sum_min is used as it is by both paths *)
Lemma thresholds_agree wsm wmin :
  0 < wsm -> sum_min_write RO (sum_min_fornav RO wsm wmin) = wsm /\ sum_min_write RO wsm = wsm.
Proof.
  intros H. split; [|apply sum_min_write_id; assumption].
  unfold sum_min_fornav. cbn [eqb RO ofZ]. destruct (Reqb wsm (IZR (-1))) eqn:E.
  - apply Reqb_true in E. lra.
  - apply sum_min_write_id; assumption.
Qed.
(* the defaults: one-shot fornav thresholds at weight_min, the dask path at EPSILON *)
Lemma thresholds_default wmin :
  0 < wmin -> sum_min_write RO (sum_min_fornav RO (-1) wmin) = wmin /\ sum_min_write RO (-1) = eps32 RO.
Proof.
  intros H. split.
  - unfold sum_min_fornav. cbn [eqb RO ofZ]. destruct (Reqb (-1) (IZR (-1))) eqn:E.
    + apply sum_min_write_id; assumption.
    + unfold Reqb in E. destruct (Req_EM_T (-1) (IZR (-1))); [discriminate | exfalso; apply n; reflexivity].
  - unfold sum_min_write. cbn [leb RO ofZ]. destruct (Rleb (-1) 0) eqn:E; [reflexivity | apply Rleb_false in E; lra].
Qed.

Lemma write_cell_zero mwm smin : 0 < smin -> write_cell RO mwm smin 0 (0, 0) = None.
Proof.
  intros H. rewrite write_cell_R. destruct (Rltb 0 smin) eqn:E; [reflexivity | apply Rltb_false in E; lra].
Qed.

(* dask tree = one shot, same effective threshold, at a cell of the (sub-)grid *)
Theorem dask_tree_is_oneshot mwm smin groups c :
  0 < smin ->
  (forall g ic, In g groups -> In ic g -> pos_weights (contribs (snd ic) c)) ->
  (forall g ic, In g groups -> In ic g -> fst ic = true -> contribs (snd ic) c = []) ->
  dask_cell_tree RO mwm smin 0 groups c
  = fornav_cell_s RO mwm smin 0 (concat (map (fun g => concat (map snd g)) groups)) c.
Proof.
  intros Hs Hp He. unfold dask_cell_tree, average_cell_s, fornav_cell_s.
  rewrite tree_state by assumption. rewrite accumulate_cell.
  change (zero_grid RO c) with ((0, 0) : R * R).
  unfold ostate. destruct (forallb fst (map (group_el c) groups)) eqn:E.
  - rewrite (tree_all_flagged groups c He E). cbn [fold_cell fold_left]. symmetry. apply write_cell_zero. assumption.
  - rewrite (tree_all groups c He). reflexivity.
Qed.

(* ---- restriction to an output chunk: H_cov is built into sub_pixel *)
Lemma contribs_px_sub y0 x0 nr nc (p : pixel R) c :
  in_sub y0 x0 nr nc c = true ->
  contribs_px (fst c - y0, snd c - x0)%Z (sub_pixel y0 x0 nr nc p) = contribs_px c p.
Proof.
  intros Hc. unfold contribs_px, sub_pixel. cbn [px_val px_fp]. destruct (px_val p) as [v|]; [|reflexivity].
  unfold restrict_shift.
  induction (px_fp p) as [|[c' w] fp IH]; [reflexivity|].
  cbn [filter fst snd].
  destruct (cell_eqb c' c) eqn:E.
  - apply cell_eqb_eq in E. subst c'. rewrite Hc. cbn [map filter fst snd].
    assert (E : cell_eqb (fst c - y0, snd c - x0)%Z (fst c - y0, snd c - x0)%Z = true) by (apply cell_eqb_eq; reflexivity).
    rewrite E. cbn [map snd]. f_equal. apply IH.
  - destruct (in_sub y0 x0 nr nc c') eqn:E2; [|apply IH].
    cbn [map filter fst snd].
    assert (E3 : cell_eqb (fst c' - y0, snd c' - x0)%Z (fst c - y0, snd c - x0)%Z = false).
    { destruct (cell_eqb (fst c' - y0, snd c' - x0)%Z (fst c - y0, snd c - x0)%Z) eqn:E3; [|reflexivity].
      apply cell_eqb_eq in E3. inversion E3.
      assert (c' = c) by (destruct c', c; cbn in *; f_equal; lia).
      subst. assert (cell_eqb c c = true) by (apply cell_eqb_eq; reflexivity). congruence. }
    rewrite E3. apply IH.
Qed.

Lemma contribs_sub y0 x0 nr nc (px : list (pixel R)) c :
  in_sub y0 x0 nr nc c = true ->
  contribs (map (sub_pixel y0 x0 nr nc) px) (fst c - y0, snd c - x0)%Z = contribs px c.
Proof.
  intros Hc. unfold contribs. induction px as [|p px IH]; [reflexivity|].
  cbn [map flat_map]. rewrite contribs_px_sub by assumption. rewrite IH. reflexivity.
Qed.

(* the same cell written with two positive thresholds that every table weight reaches *)
Lemma write_cell_thresh mwm s1 s2 l :
  0 < s1 -> 0 < s2 -> pos_weights l -> (forall v w, In (v, w) l -> s1 <= w /\ s2 <= w) ->
  write_cell RO mwm s1 0 (Mst mwm l) = write_cell RO mwm s2 0 (Mst mwm l).
Proof.
  intros H1 H2 Hp Hw. destruct l as [|x l].
  - unfold Mst. cbn [fold_cell fold_left]. rewrite !write_cell_zero by assumption. reflexivity.
  - destruct (Mst_fst_ge mwm (x :: l)) as (v & w & Hin & Hge); [discriminate | assumption|].
    destruct (Hw v w Hin) as [Ha Hb].
    destruct (Mst mwm (x :: l)) as [W A]. cbn [fst] in Hge. rewrite !write_cell_R.
    destruct (Rltb W s1) eqn:E1; [apply Rltb_true in E1; lra|].
    destruct (Rltb W s2) eqn:E2; [apply Rltb_true in E2; lra|]. reflexivity.
Qed.

(* ---- the statement of the property: the user-level parameters, any output chunk, any grouping of chunks *)
Theorem combine_is_oneshot mwm wsm wmin y0 x0 nr nc (groups : list (list (bool * list (pixel R)))) c :
  in_sub y0 x0 nr nc c = true ->
  (* H_pos: table weights are positive *)
  (forall g ic p c' w, In g groups -> In ic g -> In p (snd ic) -> In (c', w) (px_fp p) -> 0 < w) ->
  (* H_thresh: every table weight reaches both effective thresholds (one-shot: weight_min by default; dask: EPSILON) *)
  (sum_min_write RO (sum_min_fornav RO wsm wmin) = sum_min_write RO wsm \/
   forall g ic p c' w, In g groups -> In ic g -> In p (snd ic) -> In (c', w) (px_fp p) ->
     sum_min_write RO (sum_min_fornav RO wsm wmin) <= w /\ sum_min_write RO wsm <= w) ->
  (* H_empty: an input chunk replaced by a placeholder has no valid pixel whose footprint touches this output chunk *)
  (forall g ic p c' w, In g groups -> In ic g -> fst ic = true -> In p (snd ic) -> px_val p <> None ->
     In (c', w) (px_fp p) -> in_sub y0 x0 nr nc c' = false) ->
  dask_at RO mwm (sum_min_write RO wsm) 0 y0 x0 nr nc groups c
  = fornav_cell RO mwm wsm wmin 0 (concat (map (fun g => concat (map snd g)) groups)) c.
Proof.
  intros Hc Hpos Hth Hemp.
  set (allpx := concat (map (fun g => concat (map snd g)) groups)).
  assert (Hin_all : forall v w, In (v, w) (contribs allpx c) ->
            exists g ic p, In g groups /\ In ic g /\ In p (snd ic) /\ px_val p = Some v /\ In (c, w) (px_fp p)).
  { intros v w Hin. apply In_contribs in Hin. destruct Hin as (p & Hp & Hv & Hf).
    unfold allpx in Hp. apply in_concat in Hp. destruct Hp as (l & Hl & Hp).
    apply in_map_iff in Hl. destruct Hl as (g & <- & Hg).
    apply in_concat in Hp. destruct Hp as (l & Hl & Hp).
    apply in_map_iff in Hl. destruct Hl as (ic & <- & Hic). exists g, ic, p. auto. }
  unfold dask_at, fornav_cell.
  set (sg := map (map (fun ic : bool * list (pixel R) => (fst ic, map (sub_pixel y0 x0 nr nc) (snd ic)))) groups).
  (* contributions seen in the sub-grid = contributions in the full grid *)
  assert (Hsub : forall g' ic', In g' sg -> In ic' g' ->
            exists g ic, In g groups /\ In ic g /\ fst ic' = fst ic /\
                         contribs (snd ic') (fst c - y0, snd c - x0)%Z = contribs (snd ic) c).
  { intros g' ic' Hg' Hic'. unfold sg in Hg'. apply in_map_iff in Hg'. destruct Hg' as (g & <- & Hg).
    apply in_map_iff in Hic'. destruct Hic' as (ic & <- & Hic). exists g, ic. cbn [fst snd].
    repeat split; try assumption. apply contribs_sub. assumption. }
  rewrite dask_tree_is_oneshot.
  - (* the pixel list of the sub-grid run has the same contributions; then switch thresholds *)
    unfold fornav_cell_s. rewrite !accumulate_cell. change (zero_grid RO _) with ((0, 0) : R * R).
    assert (E : contribs (concat (map (fun g => concat (map snd g)) sg)) (fst c - y0, snd c - x0)%Z = contribs allpx c).
    { unfold sg, allpx. rewrite !contribs_concat, !map_map. f_equal. apply map_ext. intros g.
      rewrite !contribs_concat, !map_map. f_equal. apply map_ext. intros ic. cbn [snd]. apply contribs_sub. assumption. }
    rewrite E. destruct Hth as [Eth|Hth]; [rewrite Eth; reflexivity|].
    symmetry. apply (write_cell_thresh mwm _ _ (contribs allpx c)); try apply sum_min_write_pos.
    + intros v w Hin. destruct (Hin_all v w Hin) as (g & ic & p & Hg & Hic & Hp & _ & Hf). eapply Hpos; eauto.
    + intros v w Hin. destruct (Hin_all v w Hin) as (g & ic & p & Hg & Hic & Hp & _ & Hf). eapply Hth; eauto.
  - apply sum_min_write_pos.
  - intros g' ic' Hg' Hic'. destruct (Hsub g' ic' Hg' Hic') as (g & ic & Hg & Hic & _ & ->).
    intros v w Hin. apply In_contribs in Hin. destruct Hin as (p & Hp & _ & Hf). eapply Hpos; eauto.
  - intros g' ic' Hg' Hic' Hfl. destruct (Hsub g' ic' Hg' Hic') as (g & ic & Hg & Hic & Ef & ->).
    rewrite Ef in Hfl.
    destruct (contribs (snd ic) c) as [|[v w] l] eqn:El; [reflexivity|]. exfalso.
    assert (Hin : In (v, w) (contribs (snd ic) c)) by (rewrite El; left; reflexivity).
    apply In_contribs in Hin. destruct Hin as (p & Hp & Hv & Hf).
    assert (in_sub y0 x0 nr nc c = false) by (eapply (Hemp g ic p c w); eauto; congruence). congruence.
Qed.

(* flat reduction (one level) is the special case of singleton groups *)
Lemma dask_cell_as_tree mwm smin (chunks : list (bool * list (pixel R))) c :
  dask_cell RO mwm smin 0 chunks c = dask_cell_tree RO mwm smin 0 (map (fun ic => [ic]) chunks) c.
Proof.
  unfold dask_cell, dask_cell_tree. f_equal. rewrite map_map. apply map_ext. intros ic.
  unfold combine. cbn [map fold_left]. destruct (delayed_cell RO mwm ic c); reflexivity.
Qed.
