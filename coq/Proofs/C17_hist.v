(* C17 — histories of area()/inverse()/invert() on one object: by induction over the history the object is always the
   given polygon or its inverse (according to the parity of invert() calls), inverse() never changes it, and every
   polygon returned by inverse() satisfies the 4 pi law together with the object it was taken from. *)
From Coq Require Import Reals ZArith List Bool Lra Lia.
From PR Require Import Base.Num Base.RNum Model.SphPoly Proofs.C17_area.
Import ListNotations.
Open Scope R_scope.

Lemma inverse_involutive {V} (vs : list V) : inverse (inverse vs) = vs.
Proof. apply rev_involutive. Qed.

Fixpoint inverts (h : list pop) : nat :=
  match h with [] => 0 | PInvert :: r => S (inverts r) | _ :: r => inverts r end.

Lemma history_state {V} (vs : list V) h :
  fold_left pstep h vs = if Nat.even (inverts h) then vs else inverse vs.
Proof.
  assert (G : forall st : list V, fold_left pstep h st = if Nat.even (inverts h) then st else inverse st).
  { induction h as [|o r IH]; intros st; [reflexivity|]. cbn [fold_left]. rewrite IH.
    destruct o; cbn [pstep inverts]; try reflexivity.
    rewrite Nat.even_succ, <- Nat.negb_even. destruct (Nat.even (inverts r)); cbn; [reflexivity|apply inverse_involutive]. }
  apply G.
Qed.

Section Law.
  Variable V : Type.
  Variable az : V -> V -> R.
  Variable vs : list V.
  Variable r : R.
  Hypothesis ND : nondegenerate V az vs.

  Definition entry_ok (e : list V * option (list V)) : Prop :=
    (fst e = vs \/ fst e = inverse vs) /\
    forall q, snd e = Some q -> area RO V az PI (fst e) r + area RO V az PI q r = 4 * PI * r ^ 2.

  Lemma history_law_from st h : st = vs \/ st = inverse vs -> Forall entry_ok (ptrace st h).
  Proof.
    revert st. induction h as [|o rest IH]; intros st Hst; cbn [ptrace]; [constructor|].
    pose proof (area_inverse_4pi V az vs r ND) as L.
    assert (Hst' : pstep st o = vs \/ pstep st o = inverse vs).
    { destruct o; cbn [pstep]; auto. destruct Hst as [->| ->]; [now right|left; apply inverse_involutive]. }
    constructor; [|apply IH, Hst'].
    split; [exact Hst'|]. cbn [fst snd]. intros q Hq.
    destruct o; cbn [pret pstep] in *; try discriminate. injection Hq as <-.
    destruct Hst as [->| ->]; [exact L|]. rewrite inverse_involutive. lra.
  Qed.

  Lemma history_law h : Forall entry_ok (ptrace vs h).
  Proof. apply history_law_from. now left. Qed.
End Law.

(* inverse() and area() are pure: the object after the call is the object before the call *)
Lemma pure_calls {V} (st : list V) : pstep st PInverse = st /\ pstep st PArea = st.
Proof. split; reflexivity. Qed.
