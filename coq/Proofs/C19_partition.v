From Coq Require Import ZArith List Lia Bool Permutation.
From PR Require Import Base.ZX Base.ListX Base.Slice Model.Partition.
Import ListNotations.
Open Scope Z_scope.

(* ---------- geometry._get_slice ---------- *)
Lemma get_slice_loop_tiles fuel : forall start len size,
  0 < len -> 0 <= start <= size -> size - start <= Z.of_nat fuel * len ->
  tiles start (get_slice_loop fuel start (Z.min (start + len) size) len size) size /\
  (length (get_slice_loop fuel start (Z.min (start + len) size) len size) <= fuel)%nat.
Proof.
  induction fuel as [|f IH]; intros start len size Hlen Hst Hfuel.
  - cbn in *. split; [lia|lia].
  - cbn [get_slice_loop]. destruct (Z.ltb_spec start size) as [Hlt|Hge].
    + cbn [tiles sstart sstop length].
      assert (Hstop : start < Z.min (start + len) size) by lia.
      destruct (IH (Z.min (start + len) size) len size Hlen) as [Ht Hl]; [lia|nia|].
      split; [repeat split; [lia|exact Ht]|lia].
    + cbn. split; lia.
Qed.

Lemma cdiv_pos size seg : 1 <= seg -> 1 <= size -> 1 <= cdiv size seg <= size /\ size <= seg * cdiv size seg.
Proof.
  intros Hs Hn. unfold cdiv.
  pose proof (Z.div_mod (size + seg - 1) seg ltac:(lia)) as H.
  pose proof (Z.mod_pos_bound (size + seg - 1) seg ltac:(lia)) as Hm.
  split; [split|]; nia.
Qed.

Lemma get_slice_partition segments size : 0 <= size -> 1 <= segments ->
  tiles 0 (get_slice segments size) size /\ (Z.of_nat (length (get_slice segments size)) <= segments).
Proof.
  intros Hn Hs. unfold get_slice.
  destruct (Z.eq_dec size 0) as [->|Hnz].
  - replace (cdiv 0 segments) with 0 by (unfold cdiv; symmetry; apply Z.div_small; lia).
    destruct (Z.to_nat segments) as [|f] eqn:E; [lia|]. cbn. split; lia.
  - destruct (cdiv_pos size segments Hs ltac:(lia)) as [[H1 H2] H3].
    pose proof (get_slice_loop_tiles (Z.to_nat segments) 0 (cdiv size segments) size ltac:(lia) ltac:(lia)) as H.
    replace (Z.min (0 + cdiv size segments) size) with (cdiv size segments) in H by lia.
    destruct H as [Ht Hl]; [rewrite Z2Nat.id by lia; lia|]. split; [exact Ht|lia].
Qed.

(* every piece but the last has the same length ceil(size/segments) *)
Lemma tiles_bounds from l to : tiles from l to -> from <= to /\ Forall (fun s => from <= sstart s /\ sstop s <= to) l.
Proof.
  revert from; induction l as [|s l IH]; cbn; intros from H.
  - subst; split; [lia|constructor].
  - destruct H as (Hs & Hlt & Ht). destruct (IH _ Ht) as [Hle Hall]. split; [lia|].
    constructor; [lia|]. eapply Forall_impl; [|exact Hall]. cbn; intros; lia.
Qed.

(* ---------- slicer._enumerate_chunk_slices ---------- *)
Lemma offsets_wtiles c : forall pos off, Forall (fun x => 0 <= x) c ->
  wtiles off (map snd (offsets pos off c)) (off + sumZ c) /\ map fst (offsets pos off c) = seq pos (length c).
Proof.
  induction c as [|x c IH]; intros pos off Hc; cbn.
  - split; [lia|reflexivity].
  - inversion Hc as [|? ? Hx Hr]; subst. destruct (IH (S pos) (off + x) Hr) as [Ht Hp].
    split; [repeat split; [lia|]|f_equal; exact Hp].
    replace (off + (x + sumZ c)) with (off + x + sumZ c) by lia. exact Ht.
Qed.

Lemma offsets_tiles c : forall pos off, Forall (fun x => 0 < x) c ->
  tiles off (map snd (offsets pos off c)) (off + sumZ c).
Proof.
  induction c as [|x c IH]; intros pos off Hc; cbn.
  - lia.
  - inversion Hc as [|? ? Hx Hr]; subst. repeat split; [lia|].
    replace (off + (x + sumZ c)) with (off + x + sumZ c) by lia. apply IH; exact Hr.
Qed.

Lemma in_product {A} (ls : list (list A)) : forall x, In x (product ls) <-> Forall2 (fun a l => In a l) x ls.
Proof.
  induction ls as [|l r IH]; intros x; cbn.
  - split; [intros [<-|[]]; constructor|intros H; inversion H; auto].
  - rewrite in_flat_map. split.
    + intros (s & Hs & Hx). apply in_map_iff in Hx. destruct Hx as (y & <- & Hy).
      constructor; [exact Hs|apply IH; exact Hy].
    + intros H. inversion H as [|a ? y ? Ha Hy]; subst. exists a. split; [exact Ha|].
      apply in_map. apply IH. exact Hy.
Qed.

Lemma length_product {A} (ls : list (list A)) :
  length (product ls) = fold_right (fun l n => (length l * n)%nat) 1%nat ls.
Proof.
  induction ls as [|l r IH]; cbn; [reflexivity|]. rewrite <- IH. clear IH.
  induction l as [|a l IHl]; cbn; [reflexivity|]. rewrite app_length, map_length, IHl. reflexivity.
Qed.

Lemma NoDup_product {A} (ls : list (list A)) : Forall (@NoDup A) ls -> NoDup (product ls).
Proof.
  induction ls as [|l r IH]; intros H; cbn.
  - constructor; [intros []|constructor].
  - inversion H as [|? ? Hl Hr]; subst. specialize (IH Hr). clear H Hr.
    induction l as [|a l IHl]; cbn; [constructor|].
    inversion Hl as [|? ? Hna Hnl]; subst.
    apply NoDup_app_intro.
    + apply FinFun.Injective_map_NoDup; [intros u v Huv; congruence|exact IH].
    + apply IHl; exact Hnl.
    + intros x Hx1 Hx2. apply in_map_iff in Hx1. destruct Hx1 as (y & <- & _).
      apply in_flat_map in Hx2. destruct Hx2 as (s & Hs & Hx2). apply in_map_iff in Hx2.
      destruct Hx2 as (z & Hz & _). inversion Hz; subst. contradiction.
Qed.

Lemma chunk_slices_product chunks blk :
  In blk (enumerate_chunk_slices chunks) <-> Forall2 (fun a c => In a (offsets 0 0 c)) blk chunks.
Proof.
  unfold enumerate_chunk_slices. rewrite in_product.
  split; intros H.
  - remember (map (offsets 0 0) chunks) as ls eqn:E. revert chunks E.
    induction H as [|a l x ls Ha Hr IH]; intros [|c chunks] E; try discriminate; constructor;
      inversion E; subst; auto.
  - induction H as [|a c x cs Ha Hr IH]; constructor; auto.
Qed.

Lemma chunk_slices_count chunks :
  length (enumerate_chunk_slices chunks) = fold_right (fun c n => (length c * n)%nat) 1%nat chunks.
Proof.
  unfold enumerate_chunk_slices. rewrite length_product.
  induction chunks as [|c r IH]; cbn; [reflexivity|]. rewrite IH. f_equal.
  clear. generalize 0%nat, 0. induction c as [|x c IHc]; cbn; intros; [reflexivity|]. f_equal. apply IHc.
Qed.

Lemma offsets_fst_lt c : forall pos off e, In e (offsets pos off c) -> (pos <= fst e)%nat.
Proof.
  induction c as [|x c IH]; cbn; intros pos off e H; [contradiction|].
  destruct H as [<-|H]; [cbn; lia|]. apply IH in H. lia.
Qed.
Lemma offsets_nodup c : forall pos off, NoDup (offsets pos off c).
Proof.
  induction c as [|x c IH]; cbn; intros pos off; constructor; [|apply IH].
  intros H. apply offsets_fst_lt in H. cbn in H. lia.
Qed.
Lemma chunk_slices_nodup chunks : NoDup (enumerate_chunk_slices chunks).
Proof.
  unfold enumerate_chunk_slices. apply NoDup_product.
  induction chunks as [|c r IH]; cbn; constructor; [apply offsets_nodup|exact IH].
Qed.
