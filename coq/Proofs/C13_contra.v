(* C13: parameters that have to be combined and contradict each other are rejected; the tolerance is numpy.allclose's. *)
From Coq Require Import Reals ZArith Bool Lra Lia.
From Flocq Require Import Zaux Raux.
From PR Require Import Base.Num Base.RNum Model.AreaConfig Proofs.C13_base Proofs.C13_sets.
Open Scope R_scope.

(* "not within numpy.allclose of the value found" *)
Definition far (given found : R) : Prop := atol RO + rtol RO * Rabs found < Rabs (given - found).
Definition far2 (given found : R * R) : Prop := far (fst given) (fst found) \/ far (snd given) (snd found).

Lemma validate2_far v n : validate2 RO (Some v) n = Err <-> far2 v n.
Proof. apply validate2_raises. Qed.
Lemma validate2_near v n : ~ far2 v n -> validate2 RO (Some v) n = Ok n.
Proof.
  intros H. destruct (validate2 RO (Some v) n) eqn:E.
  - unfold validate2 in E. destruct (allclose2 RO v n); congruence.
  - apply validate2_far in E. contradiction.
Qed.
Lemma validate_shape_far s n : validate_shape RO (Some s) n = Err <->
  far2 (IZR (fst s), IZR (snd s)) (IZR (fst n), IZR (snd n)).
Proof.
  unfold validate_shape. change (zz2t RO s) with (IZR (fst s), IZR (snd s)). change (zz2t RO n) with (IZR (fst n), IZR (snd n)).
  rewrite <- validate2_far. unfold validate2. destruct (allclose2 RO _ _); split; congruence.
Qed.

(* integer shapes: any difference is a contradiction as long as the shape found is below 99999 *)
Lemma far_int (a b : Z) : a <> b -> (Z.abs b <= 99998)%Z -> far (IZR a) (IZR b).
Proof.
  intros Hn Hb. unfold far. rewrite <- minus_IZR, <- !abs_IZR.
  assert (1 <= Z.abs (a - b))%Z by lia. apply IZR_le in H. apply IZR_le in Hb.
  pose proof rtol_bounds. pose proof atol_bounds. pose proof (Rabs_pos (IZR b)). rewrite <- abs_IZR in H2. nra.
Qed.
(* ... and the tolerance does bite for very large shapes: 100000 given, 100001 found is accepted *)
Lemma shape_tolerance_witness : validate_shape RO (Some (100000, 7)%Z) (100001, 7)%Z = Ok (100001, 7)%Z.
Proof.
  destruct (validate_shape RO (Some (100000, 7)%Z) (100001, 7)%Z) eqn:E.
  - unfold validate_shape in E. destruct (allclose2 RO _ _); congruence.
  - apply validate_shape_far in E. exfalso. cbn [fst snd] in E. unfold far2, far in E. cbn [fst snd] in E.
    pose proof rtol_bounds. pose proof atol_bounds.
    assert (A1 : Rabs (100000 - 100001) = 1) by (unfold Rabs; destruct (Rcase_abs _); lra).
    assert (A2 : Rabs (7 - 7) = 0) by (unfold Rabs; destruct (Rcase_abs _); lra).
    rewrite A1, A2 in E. rewrite !Rabs_pos_eq in E by lra. lra.
Qed.

Section Contra.
  Variable pfwd pinv : R * R -> option (R * R).
  Variable fac : cu -> R * R.
  Variable geographic : bool.
  Variable crs_units : cu.
  Local Notation convert := (convert_units RO pfwd pinv fac geographic crs_units).
  Local Notation create := (create_area_def RO pfwd pinv fac geographic crs_units).
  Local Notation extrap := (extrapolate RO pfwd pinv fac geographic crs_units).

  Definition mid (e : R * R * R * R) : R * R := let '(e0, e1, e2, e3) := e in ((e2 + e0) / 2, (e3 + e1) / 2).
  Definition half (e : R * R * R * R) : R * R := let '(e0, e1, e2, e3) := e in ((e2 - e0) / 2, (e3 - e1) / 2).
  Definition ulc (e : R * R * R * R) : R * R := let '(e0, e1, e2, e3) := e in (e0, e3).

  Lemma validate2_none n : validate2 RO None n = Ok n.
  Proof. reflexivity. Qed.
  (* 1-A: area_extent against center, radius, upper_left_extent *)
  Lemma contra_extent_center e shape c radius res ul units :
    far2 c (mid e) -> extrap (Some e) shape (Some c) radius res ul units = Err.
  Proof.
    destruct e as [[[e0 e1] e2] e3]. intros H. apply validate2_far in H. unfold extrapolate. cbn [mid] in H.
    cbn [div add RO twoT ofZ]. now rewrite H.
  Qed.
  Lemma contra_extent_radius e shape radius r res ul units :
    convert radius Nradius units (Some (mid e)) = Ok (Some r) -> far2 r (half e) ->
    extrap (Some e) shape None radius res ul units = Err.
  Proof.
    destruct e as [[[e0 e1] e2] e3]. intros Hr H. apply validate2_far in H. unfold extrapolate. cbn [mid half] in *.
    cbn [div add sub RO twoT ofZ bind]. rewrite validate2_none. cbn [bind]. rewrite Hr. cbn [bind]. now rewrite H.
  Qed.
  Lemma contra_extent_ul e shape res ul units :
    far2 ul (ulc e) -> extrap (Some e) shape None None res (Some ul) units = Err.
  Proof.
    destruct e as [[[e0 e1] e2] e3]. intros H. apply validate2_far in H. unfold extrapolate. cbn [ulc] in *.
    cbn [div add sub RO twoT ofZ bind convert_units]. rewrite !validate2_none. cbn [bind]. now rewrite H.
  Qed.
  (* 1-B: upper_left_extent and center against radius *)
  Lemma contra_ul_center_radius shape c radius r res ul units :
    convert radius Nradius units (Some c) = Ok (Some r) -> far2 r (fst c - fst ul, snd ul - snd c) ->
    extrap None shape (Some c) radius res (Some ul) units = Err.
  Proof.
    intros Hr H. apply validate2_far in H. unfold extrapolate. rewrite Hr. cbn [bind sub RO]. now rewrite H.
  Qed.
  (* 2-A: radius and resolution against shape *)
  Lemma contra_radius_resolution_shape s c radius r res d units :
    convert radius Nradius units (Some c) = Ok (Some r) -> convert res Nresolution units (Some c) = Ok (Some d) ->
    fst d <> 0 -> snd d <> 0 ->
    far2 (IZR (fst s), IZR (snd s)) (IZR (round_dim RO (2 * snd r / snd d)), IZR (round_dim RO (2 * fst r / fst d))) ->
    extrap None (Some s) (Some c) radius res None units = Err.
  Proof.
    intros Hr Hd H0 H1 H. unfold extrapolate. rewrite Hr. cbn [bind]. rewrite Hd. cbn [bind].
    unfold round_shape_kw. cbn [eqb RO zeroT ofZ fst snd]. rewrite !Reqb_false by assumption. cbn [orb].
    rewrite round_shape_R. cbn [bind fst snd div mul twoT ofZ RO].
    apply (validate_shape_far s (round_dim RO (2 * snd r / snd d), round_dim RO (2 * fst r / fst d))) in H. now rewrite H.
  Qed.
  (* width / height against shape *)
  Lemma contra_width_height a h w s :
    a_height a = Some h -> a_width a = Some w -> a_shape a = Some s -> far2 s (h, w) -> create a = Raised.
  Proof.
    intros Hh Hw Hs H. apply validate2_far in H. unfold create_area_def. rewrite Hh, Hw, Hs, H. reflexivity.
  Qed.
  Definition has_one {A B} (a : option A) (b : option B) : bool :=
    match a, b with Some _, None | None, Some _ => true | _, _ => false end.
  Lemma one_of_width_height a : has_one (a_height a) (a_width a) = true -> create a = Raised.
  Proof. unfold create_area_def, has_one. destruct (a_height a), (a_width a); try discriminate; reflexivity. Qed.

  (* create_area_def level, projection units: a description that needs combining plus a contradicting parameter *)
  Hypothesis facts_wf : geographic = true <-> crs_units = Cdeg.
  Lemma default_unit_ok : unit_ok fac geographic crs_units (eff_units crs_units None None) crs_units 1.
  Proof.
    unfold unit_ok, eff_units. destruct crs_units eqn:E; cbn.
    - assert (geographic = true) by (apply facts_wf; reflexivity). split; [reflexivity|]. left; auto.
    - assert (geographic = false) as -> by (destruct geographic; [destruct facts_wf as [H _]; discriminate (H eq_refl)|reflexivity]).
      split; [reflexivity|]. right. repeat split; try discriminate; lra.
    - assert (geographic = false) as -> by (destruct geographic; [destruct facts_wf as [H _]; discriminate (H eq_refl)|reflexivity]).
      split; [reflexivity|]. right. repeat split; try discriminate; lra.
    - assert (geographic = false) as -> by (destruct geographic; [destruct facts_wf as [H _]; discriminate (H eq_refl)|reflexivity]).
      split; [reflexivity|]. right. repeat split; try discriminate; lra.
  Qed.

  Theorem extent_resolution_vs_center g c :
    wf_grid g -> round_poles RO pfwd pinv c (cu_eqb crs_units Cdeg) = Ok c -> far2 c (g_center g) ->
    create (mk_args None None (Some (g_ext g, None)) None None (Some (c, None)) (Some (g_res g, None)) None None) = Raised.
  Proof.
    intros (Hx & Hy & Hw & Hh) Hc Hf. pose proof default_unit_ok as Hu.
    unfold create_area_def, g_ext. cbn [a_width a_height a_extent a_shape a_ul a_center a_resolution a_radius a_units bind].
    destruct c as [cx cy].
    replace (Some (cx, cy, None)) with (Some ((cx / 1, cy / 1), @None utok)) by (repeat f_equal; field).
    rewrite (conv_center pfwd pinv fac geographic crs_units None None _ _ _ _ None Hu Hc).
    replace (gx0 g, gy0 g) with (gx0 g / 1, gy0 g / 1) by (f_equal; field).
    replace (gx1 g, gy1 g) with (gx1 g / 1, gy1 g / 1) by (f_equal; field).
    rewrite !(conv_point pfwd pinv fac geographic crs_units Nextent None None _ _ _ _ None Hu (or_intror eq_refl)).
    cbn [bind convert_units fst snd].
    rewrite contra_extent_center; [reflexivity|].
    unfold mid, g_center in *. cbn [fst snd] in *. replace (gx1 g + gx0 g) with (gx0 g + gx1 g) by ring.
    replace (gy1 g + gy0 g) with (gy0 g + gy1 g) by ring. exact Hf.
  Qed.
End Contra.
