(* C07: the weighted histogram = per-cell sum of the member weights; conservation; chunk invariance. *)
From Coq Require Import ZArith Bool List Lia.
From PR Require Import Base.Num Base.ZX Model.Grid Model.Bucket Proofs.C07_index.
Import ListNotations.
Open Scope Z_scope.

(* ------------------------------------------------------------------ generic over the monoid of weights *)
Section HistLemmas.
  Context {V : Type} (vadd : V -> V -> V) (vzero : V).
  Hypothesis vassoc : forall a b c, vadd (vadd a b) c = vadd a (vadd b c).
  Hypothesis vzl : forall a, vadd vzero a = a.
  Hypothesis vzr : forall a, vadd a vzero = a.

  Notation vsum := (bk_vsum vadd vzero).
  Notation hist := (bk_hist vadd vzero).

  Definition bk_sel (size k : Z) (p : Z * V) : bool :=
    match bk_bin size (fst p) with Some b => k =? b | None => false end.

  Lemma vsum_app l1 l2 : vsum (l1 ++ l2) = vadd (vsum l1) (vsum l2).
  Proof.
    unfold bk_vsum. induction l1 as [|x l1 IH]; cbn [app fold_right]; [symmetry; apply vzl|]. rewrite IH. symmetry. apply vassoc.
  Qed.

  Lemma fold_hist_at size l : forall f k,
    fold_left (bk_hist_step vadd size) l f k = vadd (f k) (vsum (map snd (filter (bk_sel size k) l))).
  Proof.
    induction l as [|p l IH]; intros f k; cbn [fold_left filter map].
    - cbn. symmetry. apply vzr.
    - rewrite IH. unfold bk_hist_step, bk_sel at 2.
      destruct (bk_bin size (fst p)) as [b|]; [|reflexivity].
      unfold bk_upd. destruct (k =? b); [|reflexivity].
      cbn [map bk_vsum fold_right]. apply vassoc.
  Qed.

  (* the histogram value of bin k is the sum of the weights selected for k, in input order *)
  Lemma hist_at size l k : hist size l k = vsum (map snd (filter (bk_sel size k) l)).
  Proof. unfold bk_hist. rewrite fold_hist_at. apply vzl. Qed.

  Lemma hist_app size l1 l2 k : hist size (l1 ++ l2) k = vadd (hist size l1 k) (hist size l2 k).
  Proof. rewrite !hist_at, filter_app, map_app. apply vsum_app. Qed.

  (* dask: per-chunk histograms summed = histogram of the concatenation, for every chunk list *)
  Lemma hist_chunk_invariant size (chunks : list (list (Z * V))) k :
    bk_hist_chunked vadd vzero size chunks k = hist size (concat chunks) k.
  Proof.
    unfold bk_hist_chunked. induction chunks as [|c cs IH]; cbn [fold_right concat].
    - reflexivity.
    - rewrite IH. symmetry. apply hist_app.
  Qed.

  Lemma sel_member size k (p : Z * V) : 0 <= k < size -> fst p < size -> bk_sel size k p = (fst p =? k).
  Proof.
    intros Hk Hp. unfold bk_sel, bk_bin.
    destruct (Z.leb_spec 0 (fst p)); destruct (Z.leb_spec (fst p) size); cbn [andb]; try lia.
    destruct (Z.eqb_spec (fst p) size); [lia|]. apply Z.eqb_sym.
  Qed.

  (* for raveled indices (all below size) the selected points are exactly the members of the cell *)
  Lemma hist_members size l k : 0 <= k < size -> Forall (fun p => fst p < size) l ->
    hist size l k = vsum (bk_members k l).
  Proof.
    intros Hk Hl. rewrite hist_at. unfold bk_members. f_equal. f_equal.
    induction Hl as [|p l Hp Hl IH]; [reflexivity|]. cbn [filter].
    rewrite (sel_member size k p Hk Hp), IH. reflexivity.
  Qed.
End HistLemmas.

(* ------------------------------------------------------------------ members, combine, map *)
Lemma members_combine_map {A B} (f : A -> B) k idxs (data : list A) :
  bk_members k (combine idxs (map f data)) = map f (bk_members k (combine idxs data)).
Proof.
  unfold bk_members. revert data. induction idxs as [|i idxs IH]; intros [|d data]; cbn [combine map filter]; try reflexivity.
  cbn [fst]. destruct (i =? k); cbn [map snd]; rewrite IH; reflexivity.
Qed.

Lemma combine_lt_size {A} size idxs (data : list A) :
  Forall (fun i => i < size) idxs -> Forall (fun p : Z * A => fst p < size) (combine idxs data).
Proof.
  intros H. revert data. induction H as [|i idxs Hi H IH]; intros [|d data]; cbn; constructor; auto.
Qed.

Lemma members_sub {A} k (l : list (Z * A)) x : In x (bk_members k l) -> In x (map snd l).
Proof.
  unfold bk_members. rewrite !in_map_iff. intros (p & E & Hp). apply filter_In in Hp. exists p. tauto.
Qed.

(* ------------------------------------------------------------------ integer weights *)
Lemma vsum_Z l : bk_vsum Z.add 0 l = sumZ l.
Proof. induction l as [|x l IH]; cbn; [reflexivity|]. rewrite <- IH. reflexivity. Qed.

Lemma histZ_members size l k : 0 <= k < size -> Forall (fun p => fst p < size) l ->
  bk_hist Z.add 0 size l k = sumZ (bk_members k l).
Proof.
  intros. rewrite <- vsum_Z. apply hist_members; auto; intros; lia.
Qed.

Lemma sumZ_map_const1 {A} (l : list A) : sumZ (map (fun _ => 1) l) = Z.of_nat (length l).
Proof. induction l as [|x l IH]; cbn [map sumZ length]; [reflexivity|]. rewrite IH. lia. Qed.

(* get_count: per cell the number of points carrying that raveled index *)
Lemma count_members size idxs k : 0 <= k < size -> Forall (fun i => i < size) idxs ->
  bk_count size idxs k = Z.of_nat (length (filter (fun i => i =? k) idxs)).
Proof.
  intros Hk Hl. unfold bk_count. rewrite histZ_members; auto.
  - unfold bk_members. clear Hl. induction idxs as [|i idxs IH]; [reflexivity|].
    cbn [map filter fst]. destruct (i =? k); cbn [map snd sumZ length]; rewrite IH; lia.
  - clear Hk. induction Hl; cbn; constructor; auto.
Qed.

(* sums over all cells *)
Lemma sumZ_zero {A} (l : list A) : sumZ (map (fun _ => 0) l) = 0.
Proof. induction l; cbn; lia. Qed.
Lemma sumZ_map_add {A} (f g : A -> Z) l : sumZ (map (fun k => f k + g k) l) = sumZ (map f l) + sumZ (map g l).
Proof. induction l as [|x l IH]; cbn [map sumZ]; [reflexivity|]. rewrite IH. lia. Qed.
Lemma sumZ_map_ext {A} (f g : A -> Z) l : (forall x, In x l -> f x = g x) -> sumZ (map f l) = sumZ (map g l).
Proof.
  induction l as [|x l IH]; intros H; cbn [map sumZ]; [reflexivity|].
  rewrite (H x (or_introl eq_refl)), IH; [reflexivity|]. intros; apply H; right; assumption.
Qed.
Lemma in_zrange k from n : In k (zrange from n) <-> from <= k < from + Z.of_nat n.
Proof.
  revert from. induction n as [|n IH]; intros from; cbn [zrange In]; [lia|]. rewrite IH. lia.
Qed.
Lemma sum_indicator b w n : forall from,
  sumZ (map (fun k => if k =? b then w else 0) (zrange from n)) =
  if (from <=? b) && (b <? from + Z.of_nat n) then w else 0.
Proof.
  induction n as [|n IH]; intros from; cbn [zrange map sumZ].
  - destruct (Z.leb_spec from b); destruct (Z.ltb_spec b (from + Z.of_nat 0)); cbn; lia.
  - rewrite IH.
    destruct (Z.eqb_spec from b); destruct (Z.leb_spec from b); destruct (Z.leb_spec (from + 1) b);
      destruct (Z.ltb_spec b (from + 1 + Z.of_nat n)); destruct (Z.ltb_spec b (from + Z.of_nat (S n))); cbn [andb]; lia.
Qed.

Definition bk_kept (size : Z) (i : Z) : bool := match bk_bin size i with Some _ => true | None => false end.

Lemma bin_bounds size i b : 1 <= size -> bk_bin size i = Some b -> 0 <= b < size.
Proof.
  unfold bk_bin. intros Hs. destruct (Z.leb_spec 0 i); destruct (Z.leb_spec i size); cbn [andb]; try discriminate.
  destruct (Z.eqb_spec i size); intros E; inversion E; lia.
Qed.

(* the histogram total is the total weight of the points np.histogram keeps *)
Lemma histZ_total size l : 1 <= size ->
  sumZ (bk_cells size (bk_hist Z.add 0 size l)) = sumZ (map snd (filter (fun p => bk_kept size (fst p)) l)).
Proof.
  intros Hs. unfold bk_cells.
  rewrite (sumZ_map_ext _ (fun k => sumZ (map snd (filter (bk_sel size k) l)))).
  2:{ intros k _. rewrite (hist_at Z.add 0) by (intros; lia). apply vsum_Z. }
  induction l as [|p l IH]; cbn [filter map sumZ].
  - apply sumZ_zero.
  - rewrite (sumZ_map_ext _ (fun k => (if bk_sel size k p then snd p else 0) + sumZ (map snd (filter (bk_sel size k) l)))).
    2:{ intros k _. destruct (bk_sel size k p); reflexivity. }
    rewrite sumZ_map_add, IH. unfold bk_sel, bk_kept.
    destruct (bk_bin size (fst p)) as [b|] eqn:E.
    + rewrite (sum_indicator b (snd p)). apply (bin_bounds size _ _ Hs) in E.
      destruct (Z.leb_spec 0 b); destruct (Z.ltb_spec b (0 + Z.of_nat (Z.to_nat size))); cbn [andb map sumZ]; lia.
    + rewrite sumZ_zero. reflexivity.
Qed.

Lemma kept_lt size i : i < size -> bk_kept size i = (0 <=? i) && (i <? size).
Proof.
  intros H. unfold bk_kept, bk_bin. destruct (Z.leb_spec 0 i); destruct (Z.leb_spec i size); destruct (Z.ltb_spec i size); cbn; lia || reflexivity.
Qed.

(* ------------------------------------------------------------------ NaN-carrying sums *)
Lemma oadd_assoc a b c : oadd (oadd a b) c = oadd a (oadd b c).
Proof. destruct a, b, c; cbn; try reflexivity. f_equal. lia. Qed.
Lemma oadd_0_l a : oadd (Some 0) a = a.
Proof. destruct a; reflexivity. Qed.
Lemma oadd_0_r a : oadd a (Some 0) = a.
Proof. destruct a; cbn; [f_equal; lia | reflexivity]. Qed.
Lemma oadd_comm a b : oadd a b = oadd b a.
Proof. destruct a, b; cbn; try reflexivity. f_equal. lia. Qed.

Lemma vsum_some l : bk_vsum oadd (Some 0) (map Some l) = Some (sumZ l).
Proof. induction l as [|x l IH]; cbn [map bk_vsum fold_right sumZ]; [reflexivity|]. fold (bk_vsum oadd (Some 0) (map Some l)). rewrite IH. reflexivity. Qed.

(* weight of a datum as get_sum sees it *)
Definition bk_wval (fill d : dat) : Z := if bk_invalid fill d then 0 else match d with Some v => v | None => 0 end.

Lemma weights_some fill ds : bk_data_ok fill ds ->
  map (fun d => if bk_invalid fill d then Some 0 else d) ds = map Some (map (bk_wval fill) ds).
Proof.
  induction 1 as [|d ds Hd _ IH]; [reflexivity|]. cbn [map]. rewrite IH. f_equal.
  unfold bk_wval. destruct (bk_invalid fill d); [reflexivity|]. destruct Hd as [Hd|Hd]; [discriminate|].
  destruct d; [reflexivity | congruence].
Qed.

Lemma sum_wval fill ds : sumZ (map (bk_wval fill) ds) = sumZ (bk_valid_vals fill ds).
Proof.
  induction ds as [|d ds IH]; [reflexivity|]. cbn [map sumZ bk_valid_vals flat_map]. fold (bk_valid_vals fill ds).
  rewrite sumZ_app, IH. unfold bk_wval. destruct (bk_invalid fill d); [reflexivity|]. destruct d; cbn; lia.
Qed.

Lemma data_ok_members fill k idxs data : bk_data_ok fill data -> bk_data_ok fill (bk_members k (combine idxs data)).
Proof.
  unfold bk_data_ok. rewrite !Forall_forall. intros H d Hd. apply H.
  apply members_sub in Hd. apply in_map_iff in Hd. destruct Hd as ((i & d') & E & Hin). cbn in E. subst.
  apply in_combine_r in Hin. assumption.
Qed.

(* the un-postprocessed per-cell sum of get_sum *)
Lemma sums_members size idxs data fill k : 0 <= k < size -> Forall (fun i => i < size) idxs -> bk_data_ok fill data ->
  bk_hist oadd (Some 0) size (combine idxs (bk_weights fill data)) k
  = Some (sumZ (bk_valid_vals fill (bk_members k (combine idxs data)))).
Proof.
  intros Hk Hi Hd. rewrite (hist_members oadd (Some 0) oadd_assoc oadd_0_l oadd_0_r size _ k Hk) by (apply combine_lt_size; assumption).
  unfold bk_weights. rewrite members_combine_map.
  rewrite weights_some by (apply data_ok_members; assumption).
  rewrite vsum_some, sum_wval. reflexivity.
Qed.

Lemma missing_members size idxs data fill k : 0 <= k < size -> Forall (fun i => i < size) idxs ->
  (0 <? bk_count size (bk_missing_idxs fill idxs data) k) = existsb (bk_invalid fill) (bk_members k (combine idxs data)).
Proof.
  intros Hk Hi. rewrite count_members; auto.
  - unfold bk_missing_idxs, bk_members. clear Hi. revert data.
    induction idxs as [|i idxs IH]; intros [|d data]; cbn [combine filter map existsb length]; try reflexivity.
    cbn [snd fst]. destruct (bk_invalid fill d) eqn:Ed; cbn [map filter fst].
    + destruct (i =? k) eqn:Ek; cbn [map snd existsb length].
      * rewrite Ed. cbn [orb]. apply Z.ltb_lt. lia.
      * apply IH.
    + destruct (i =? k) eqn:Ek; cbn [map snd existsb]; [rewrite Ed; cbn|]; apply IH.
  - unfold bk_missing_idxs. apply Forall_forall. intros i Hin. apply in_map_iff in Hin.
    destruct Hin as ((i' & d) & E & Hin). cbn in E. subst. apply filter_In in Hin. destruct Hin as [Hin _].
    apply in_combine_l in Hin. rewrite Forall_forall in Hi. auto.
Qed.

(* get_sum, every configuration *)
Definition bk_sum_spec (fill : dat) (skipna : bool) (ebv : dat) (ms : list dat) : dat :=
  let base := if skipna || negb (existsb (bk_invalid fill) ms) then Some (sumZ (bk_valid_vals fill ms)) else fill in
  if negb (dat_eqb ebv (Some 0)) && dat_eqb base (Some 0) then ebv else base.

Lemma get_sum_members size idxs data fill skipna ebv k :
  0 <= k < size -> Forall (fun i => i < size) idxs -> bk_data_ok fill data ->
  bk_get_sum size idxs data fill skipna ebv k = bk_sum_spec fill skipna ebv (bk_members k (combine idxs data)).
Proof.
  intros Hk Hi Hd. unfold bk_get_sum, bk_sum_spec.
  pose proof (sums_members size idxs data fill k Hk Hi Hd) as Es.
  pose proof (missing_members size idxs data fill k Hk Hi) as Em.
  set (ms := bk_members k (combine idxs data)) in *.
  destruct skipna; cbn [orb].
  - destruct (dat_eqb ebv (Some 0)); cbn [negb andb]; rewrite Es; reflexivity.
  - destruct (dat_eqb ebv (Some 0)); cbn [negb andb]; rewrite Em, Es; destruct (existsb (bk_invalid fill) ms); reflexivity.
Qed.

(* ------------------------------------------------------------------ from raveled indices to cells *)
Section Cells.
  Context {T : Type} (OP : ops T).

  Lemma idxs_lt_size (a : area T) pts : 1 <= width a -> 0 <= height a ->
    Forall (fun i => i < bk_size a) (bk_idxs OP a pts).
  Proof.
    intros Hw Hh. unfold bk_idxs. apply Forall_forall. intros i Hi. apply in_map_iff in Hi.
    destruct Hi as (p & <- & _). apply (bk_idx_range OP a p Hw Hh).
  Qed.

  Lemma in_cell_idx (a : area T) r c p : 1 <= width a -> 0 <= c < width a -> 0 <= r < height a ->
    (bk_idx OP a p =? r * width a + c) = bk_in_cell OP a r c p.
  Proof.
    intros Hw Hc Hr. pose proof (bk_idx_iff_cell OP a p r c Hw Hc Hr) as H. unfold bk_in_cell.
    destruct (Z.eqb_spec (bk_idx OP a p) (r * width a + c)) as [E|E].
    - apply H in E. rewrite E. rewrite !Z.eqb_refl. reflexivity.
    - destruct (bk_cell_of OP a p) as [[r' c']|] eqn:Ec; [|reflexivity].
      destruct (Z.eqb_spec r' r); destruct (Z.eqb_spec c' c); cbn; try reflexivity. subst. exfalso. apply E, H. reflexivity.
  Qed.

  (* the points carrying raveled index r*w+c are exactly the points assigned to cell (r, c) *)
  Lemma members_cell_data {D} (a : area T) r c pts (data : list D) :
    1 <= width a -> 0 <= c < width a -> 0 <= r < height a ->
    bk_members (r * width a + c) (combine (bk_idxs OP a pts) data) = bk_cell_data OP a r c pts data.
  Proof.
    intros Hw Hc Hr. unfold bk_members, bk_cell_data, bk_idxs. revert data.
    induction pts as [|p pts IH]; intros [|d data]; cbn [map combine filter]; try reflexivity.
    cbn [fst]. rewrite (in_cell_idx a r c p Hw Hc Hr). destruct (bk_in_cell OP a r c p); cbn [map snd]; rewrite IH; reflexivity.
  Qed.

  Lemma cell_index_range (a : area T) r c : 0 <= c < width a -> 0 <= r < height a ->
    0 <= r * width a + c < bk_size a.
  Proof.
    intros Hc Hr. unfold bk_size.
    assert (r * width a + width a <= height a * width a)
      by (replace (r * width a + width a) with ((r + 1) * width a) by ring; apply Z.mul_le_mono_nonneg_r; lia).
    assert (0 <= r * width a) by (apply Z.mul_nonneg_nonneg; lia). lia.
  Qed.

  Lemma kept_inside (a : area T) p : 1 <= width a -> 0 <= height a ->
    bk_kept (bk_size a) (bk_idx OP a p) = bk_inside OP a p.
  Proof.
    intros Hw Hh. destruct (bk_idx_range OP a p Hw Hh) as [H1 H2]. rewrite kept_lt by assumption.
    unfold bk_inside. destruct (bk_cell_of OP a p) eqn:E.
    - assert (0 <= bk_idx OP a p < bk_size a) by (apply H1; congruence).
      destruct (Z.leb_spec 0 (bk_idx OP a p)); destruct (Z.ltb_spec (bk_idx OP a p) (bk_size a)); cbn; lia || reflexivity.
    - destruct (Z.leb_spec 0 (bk_idx OP a p)); destruct (Z.ltb_spec (bk_idx OP a p) (bk_size a)); cbn; try reflexivity.
      exfalso. assert (None <> None :> option (Z * Z)) by (apply H1; lia). congruence.
  Qed.

  Lemma kept_inside_data {D} (a : area T) pts (data : list D) : 1 <= width a -> 0 <= height a ->
    map snd (filter (fun p => bk_kept (bk_size a) (fst p)) (combine (bk_idxs OP a pts) data)) = bk_inside_data OP a pts data.
  Proof.
    intros Hw Hh. unfold bk_inside_data, bk_idxs. revert data.
    induction pts as [|p pts IH]; intros [|d data]; cbn [map combine filter]; try reflexivity.
    cbn [fst]. rewrite (kept_inside a p Hw Hh). destruct (bk_inside OP a p); cbn [map snd]; rewrite IH; reflexivity.
  Qed.

  (* ---- count *)
  Lemma count_cell (a : area T) pts r c : 1 <= width a -> 0 <= c < width a -> 0 <= r < height a ->
    bk_count (bk_size a) (bk_idxs OP a pts) (r * width a + c)
    = Z.of_nat (length (filter (bk_in_cell OP a r c) pts)).
  Proof.
    intros Hw Hc Hr. rewrite count_members.
    - f_equal. unfold bk_idxs. induction pts as [|p pts IH]; [reflexivity|]. cbn [map filter].
      rewrite (in_cell_idx a r c p Hw Hc Hr). destruct (bk_in_cell OP a r c p); cbn [length]; rewrite IH; reflexivity.
    - apply cell_index_range; assumption.
    - apply idxs_lt_size; lia.
  Qed.

  Lemma count_total (a : area T) pts : 1 <= width a -> 1 <= height a ->
    sumZ (bk_cells (bk_size a) (bk_count (bk_size a) (bk_idxs OP a pts)))
    = Z.of_nat (length (filter (bk_inside OP a) pts)).
  Proof.
    intros Hw Hh. unfold bk_count. rewrite histZ_total by (unfold bk_size; nia).
    unfold bk_idxs. induction pts as [|p pts IH]; [reflexivity|]. cbn [map filter fst].
    rewrite (kept_inside a p) by lia. destruct (bk_inside OP a p); cbn [map snd sumZ length]; rewrite IH; lia.
  Qed.

  (* ---- sum *)
  Lemma sum_cell (a : area T) pts data fill skipna ebv r c :
    1 <= width a -> 0 <= c < width a -> 0 <= r < height a -> bk_data_ok fill data ->
    bk_get_sum (bk_size a) (bk_idxs OP a pts) data fill skipna ebv (r * width a + c)
    = bk_sum_spec fill skipna ebv (bk_cell_data OP a r c pts data).
  Proof.
    intros Hw Hc Hr Hd. rewrite get_sum_members; auto.
    - rewrite members_cell_data by assumption. reflexivity.
    - apply cell_index_range; assumption.
    - apply idxs_lt_size; lia.
  Qed.

  Lemma combine_map_snd {A B C} (f : B -> C) (l : list A) (d : list B) :
    combine l (map f d) = map (fun p => (fst p, f (snd p))) (combine l d).
  Proof. revert d. induction l as [|x l IH]; intros [|y d]; cbn; try reflexivity. rewrite IH. reflexivity. Qed.

  (* conservation: with the defaults (skipna, empty buckets 0) the cell sums add up to the total of the
     valid data of the points inside the area *)
  Lemma sum_total (a : area T) pts data fill : 1 <= width a -> 1 <= height a -> bk_data_ok fill data ->
    exists zs, bk_cells (bk_size a) (bk_get_sum (bk_size a) (bk_idxs OP a pts) data fill true (Some 0)) = map Some zs
               /\ sumZ zs = sumZ (bk_valid_vals fill (bk_inside_data OP a pts data)).
  Proof.
    intros Hw Hh Hd.
    exists (bk_cells (bk_size a) (bk_hist Z.add 0 (bk_size a) (combine (bk_idxs OP a pts) (map (bk_wval fill) data)))).
    assert (Hs : 1 <= bk_size a) by (unfold bk_size; nia).
    split.
    - unfold bk_cells. rewrite map_map. apply map_ext_in. intros k Hk. apply in_zrange in Hk.
      assert (Hk' : 0 <= k < bk_size a) by lia.
      unfold bk_get_sum. cbn [dat_eqb Z.eqb].
      rewrite sums_members by (auto; apply idxs_lt_size; lia).
      rewrite histZ_members by (auto; apply combine_lt_size, idxs_lt_size; lia).
      rewrite members_combine_map, sum_wval. reflexivity.
    - rewrite histZ_total by assumption. rewrite combine_map_snd.
      rewrite <- sum_wval.
      rewrite <- (kept_inside_data a pts data) by lia.
      set (l := combine (bk_idxs OP a pts) data). clearbody l. clear.
      induction l as [|p l IH]; [reflexivity|]. cbn [map filter fst snd].
      destruct (bk_kept (bk_size a) (fst p)); cbn [map snd sumZ]; rewrite IH; reflexivity.
  Qed.
End Cells.
