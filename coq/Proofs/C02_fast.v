(* Soundness of the fast acceptance test executed by the correspondence (Model/C02_run.v: accept_fast):
   it implies accept_list on the exact squared distances, hence the kd-tree contract. *)
From Coq Require Import ZArith Bool List Lia.
From PR Require Import Base.Num Base.F64 Model.KDTree Model.C02_run Proofs.C02_lists Proofs.C02_query.
Import ListNotations.
Open Scope Z_scope.

Lemma lb1_sound u x y : 0 < u -> u * u * lb1 (x / u) (y / u) <= (x - y) * (x - y).
Proof.
  intros Hu. unfold lb1.
  pose proof (Z.div_mod x u ltac:(lia)) as Hx. pose proof (Z.mod_pos_bound x u Hu) as Hrx.
  pose proof (Z.div_mod y u ltac:(lia)) as Hy. pose proof (Z.mod_pos_bound y u Hu) as Hry.
  set (xc := x / u) in *. set (yc := y / u) in *. set (rx := x mod u) in *. set (ry := y mod u) in *.
  destruct (Z.leb_spec (Z.abs (xc - yc) - 1) 0) as [Hle|Hgt].
  - rewrite Z.mul_0_r. apply Z.square_nonneg.
  - assert (Hd : 0 <= u * (Z.abs (xc - yc) - 1) <= Z.abs (x - y)).
    { split; [nia|]. rewrite Hx, Hy.
      destruct (Z.abs_spec (xc - yc)) as [[H1 H2]|[H1 H2]]; rewrite H2.
      - replace (u * (xc - yc - 1)) with (u * xc - u * yc - u) by ring. lia.
      - replace (u * (- (xc - yc) - 1)) with (u * yc - u * xc - u) by ring. lia. }
    replace (u * u * ((Z.abs (xc - yc) - 1) * (Z.abs (xc - yc) - 1)))
      with ((u * (Z.abs (xc - yc) - 1)) * (u * (Z.abs (xc - yc) - 1))) by ring.
    rewrite <- (Z.abs_square (x - y)). nia.
Qed.

Lemma lbd_sound u p q : 0 < u -> u * u * lbd (coarse u p) (coarse u q) <= sqd p q.
Proof.
  intros Hu. destruct p as [[x y] z], q as [[x' y'] z']. unfold lbd, coarse, sqd.
  pose proof (lb1_sound u x x' Hu). pose proof (lb1_sound u y y' Hu). pose proof (lb1_sound u z z' Hu). lia.
Qed.

Lemma cdivZ_ge num den : 0 < den -> num <= den * cdivZ num den.
Proof.
  intros Hd. unfold cdivZ. pose proof (Z.div_mod (num + den - 1) den ltac:(lia)) as H.
  pose proof (Z.mod_pos_bound (num + den - 1) den Hd). lia.
Qed.

Lemma far_enough_sound a c u bound tf p :
  0 < a -> 0 < u -> 0 <= c ->
  far_enough a c bound (cdivZ bound (a * (u * u))) tf (coarse u tf) (p, coarse u p) = true ->
  bound <= a * sqd tf p + c.
Proof.
  intros Ha Hu Hc0. unfold far_enough. cbn [fst snd].
  destruct (Z.leb_spec (cdivZ bound (a * (u * u))) (lbd (coarse u tf) (coarse u p))) as [Hle|Hgt].
  - intros _. pose proof (lbd_sound u tf p Hu) as Hl.
    pose proof (cdivZ_ge bound (a * (u * u)) ltac:(nia)) as Hc.
    assert (a * (u * u) * cdivZ bound (a * (u * u)) <= a * (u * u) * lbd (coarse u tf) (coarse u p)) by (apply Z.mul_le_mono_nonneg_l; [nia|exact Hle]).
    nia.
  - intros H. apply Z.leb_le. exact H.
Qed.

Lemma forallb_far_enough a c u bound tf srcs : 0 < a -> 0 < u -> 0 <= c ->
  forallb (far_enough a c bound (cdivZ bound (a * (u * u))) tf (coarse u tf)) (with_coarse u srcs) = true ->
  forallb (fun ds => bound <=? a * ds + c) (map (sqd tf) srcs) = true.
Proof.
  intros Ha Hu Hc0 H. rewrite forallb_forall in *. intros ds Hds. apply in_map_iff in Hds. destruct Hds as (p & <- & Hp).
  apply Z.leb_le. apply (far_enough_sound a c u bound tf p Ha Hu Hc0). apply H. unfold with_coarse. apply in_map_iff.
  exists p. split; [reflexivity|exact Hp].
Qed.

(* the fast test implies the reference test on the exact distance list *)
Lemma accept_fast_sound a b c r2 u tf srcs i :
  accept_fast a b c r2 u tf (with_coarse u srcs) i = true -> accept_list a b c r2 (map (sqd tf) srcs) i = true.
Proof.
  unfold accept_fast, accept_list. unfold with_coarse at 1 3. rewrite !map_length.
  intros H. apply andb_true_iff in H. destruct H as [H0 H]. apply andb_true_iff in H0. destruct H0 as [H0 Hc0].
  apply andb_true_iff in H0. destruct H0 as [Ha Hu].
  apply Z.ltb_lt in Ha. apply Z.ltb_lt in Hu. apply Z.leb_le in Hc0.
  destruct (Nat.ltb_spec i (length srcs)) as [Hlt|Hge].
  - apply andb_true_iff in H. destruct H as [H1 H2]. apply andb_true_iff. split; [|].
    + assert (E : nth i (map (sqd tf) srcs) 0 = sqd tf (fst (nth i (with_coarse u srcs) pt0))).
      { unfold with_coarse. rewrite (nth_indep _ pt0 ((fun q => (q, coarse u q)) (0, 0, 0))) by (rewrite map_length; exact Hlt).
        rewrite (map_nth (fun q => (q, coarse u q))). cbn [fst].
        rewrite (nth_indep _ 0 (sqd tf (0, 0, 0))) by (rewrite map_length; exact Hlt). rewrite (map_nth (sqd tf)). reflexivity. }
      rewrite E. apply (forallb_far_enough a c u _ tf srcs Ha Hu Hc0). exact H1.
    + assert (E : nth i (map (sqd tf) srcs) 0 = sqd tf (fst (nth i (with_coarse u srcs) pt0))).
      { unfold with_coarse. rewrite (nth_indep _ pt0 ((fun q => (q, coarse u q)) (0, 0, 0))) by (rewrite map_length; exact Hlt).
        rewrite (map_nth (fun q => (q, coarse u q))). cbn [fst].
        rewrite (nth_indep _ 0 (sqd tf (0, 0, 0))) by (rewrite map_length; exact Hlt). rewrite (map_nth (sqd tf)). reflexivity. }
      rewrite E. exact H2.
  - apply andb_true_iff in H. destruct H as [H1 H2]. apply andb_true_iff.
    split; [unfold with_coarse in H1; rewrite map_length in H1; exact H1|].
    apply (forallb_far_enough a c u _ tf srcs Ha Hu Hc0). exact H2.
Qed.

(* ... hence the contract, for the exact distances to the listed source coordinates *)
Lemma accept_fast_contract a b c r2 u tf srcs i :
  accept_fast a b c r2 u tf (with_coarse u srcs) i = true ->
  knn_spec_tol a b c r2 (fun s => sqd tf (nth s srcs (0, 0, 0))) (seq 0 (length srcs)) i.
Proof.
  intros H. apply accept_fast_sound in H. apply accept_list_sound.
  replace (map (fun s => sqd tf (nth s srcs (0, 0, 0))) (seq 0 (length srcs))) with (map (sqd tf) srcs); [exact H|].
  clear H. rewrite <- (map_map (fun s => nth s srcs (0, 0, 0)) (sqd tf)). f_equal.
  induction srcs as [|p srcs IH]; [reflexivity|]. cbn [length seq map nth]. f_equal.
  rewrite <- seq_shift, map_map. exact IH.
Qed.
