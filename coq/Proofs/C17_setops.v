(* C17 — set operations.  What is proved here is the part that does not need spherical geometry: IF the edge walk
   of _bool_oper returns the boundary of the cells lying in both (resp. in either) polygon, and the crossing /
   containment tests say what they are meant to say (record [geometry_ok], every field a named hypothesis), THEN the
   results of the model's [bool_oper] obey the laws of a finitely additive measure on the cells. *)
From Coq Require Import Reals ZArith List Bool Lra Lia.
From PR Require Import Base.Num Base.RNum Model.SphPoly Proofs.C17_area.
Import ListNotations.
Open Scope R_scope.

Section Measure.
  Variable cell : Type.
  Variable cells : list cell.            (* the faces of the arrangement of the two boundaries *)
  Variable mu : cell -> R.               (* their areas *)
  Hypothesis mu_nonneg : forall c, In c cells -> 0 <= mu c.

  Definition meas (S : region cell) : R := sumR (map (fun c => if S c then mu c else 0) cells).
  Definition req (S S' : region cell) : Prop := forall c, In c cells -> S c = S' c.
  Definition rsub (S S' : region cell) : Prop := forall c, In c cells -> S c = true -> S' c = true.
  Definition rdisj (S S' : region cell) : Prop := forall c, In c cells -> S c && S' c = false.
  Definition nonempty (S : region cell) : Prop := exists c, In c cells /\ S c = true.
  Definition rand (S S' : region cell) : region cell := fun c => S c && S' c.
  Definition ror (S S' : region cell) : region cell := fun c => S c || S' c.

  Lemma meas_gen (l : list cell) (S S' : region cell) : (forall c, In c l -> S c = S' c) ->
    sumR (map (fun c => if S c then mu c else 0) l) = sumR (map (fun c => if S' c then mu c else 0) l).
  Proof. induction l as [|c l IH]; intros H; cbn; [reflexivity|]. rewrite (H c) by now left. rewrite IH; [reflexivity|]. intros; apply H; now right. Qed.
  Lemma meas_req S S' : req S S' -> meas S = meas S'.
  Proof. apply meas_gen. Qed.

  Lemma meas_and_comm S S' : meas (rand S S') = meas (rand S' S).
  Proof. apply meas_req. intros c _. apply andb_comm. Qed.
  Lemma meas_or_comm S S' : meas (ror S S') = meas (ror S' S).
  Proof. apply meas_req. intros c _. apply orb_comm. Qed.

  Lemma meas_mono_gen (l : list cell) (S S' : region cell) : incl l cells -> (forall c, In c l -> S c = true -> S' c = true) ->
    sumR (map (fun c => if S c then mu c else 0) l) <= sumR (map (fun c => if S' c then mu c else 0) l).
  Proof.
    induction l as [|c l IH]; intros I H; cbn; [lra|].
    assert (IHl := IH (fun x Hx => I x (or_intror Hx)) (fun x Hx => H x (or_intror Hx))).
    pose proof (mu_nonneg c (I c (or_introl eq_refl))) as M. pose proof (H c (or_introl eq_refl)) as Hc.
    destruct (S c), (S' c); try lra; try discriminate (Hc eq_refl).
  Qed.
  Lemma meas_mono S S' : rsub S S' -> meas S <= meas S'.
  Proof. apply meas_mono_gen. apply incl_refl. Qed.
  Lemma meas_and_le_l S S' : meas (rand S S') <= meas S.
  Proof. apply meas_mono. intros c _ H. unfold rand in H. now apply andb_true_iff in H. Qed.
  Lemma meas_and_le_r S S' : meas (rand S S') <= meas S'.
  Proof. apply meas_mono. intros c _ H. unfold rand in H. now apply andb_true_iff in H. Qed.
  Lemma meas_and_le_min S S' : meas (rand S S') <= Rmin (meas S) (meas S').
  Proof. apply Rmin_glb; [apply meas_and_le_l | apply meas_and_le_r]. Qed.

  Lemma incl_excl S S' : meas (ror S S') = meas S + meas S' - meas (rand S S').
  Proof.
    unfold meas, ror, rand. generalize cells as l. induction l as [|c l IH]; cbn; [lra|].
    destruct (S c), (S' c); cbn; lra.
  Qed.
  Lemma meas_sub_and S S' : rsub S S' -> meas (rand S S') = meas S.
  Proof. intros H. apply meas_req. intros c Hc. unfold rand. specialize (H c Hc). destruct (S c); [now rewrite H|reflexivity]. Qed.
  Lemma meas_nonneg S : 0 <= meas S.
  Proof.
    unfold meas. assert (G : forall l, incl l cells -> 0 <= sumR (map (fun c => if S c then mu c else 0) l)).
    { induction l as [|c l IH]; intros I; cbn; [lra|].
      pose proof (mu_nonneg c (I c (or_introl eq_refl))). specialize (IH (fun x Hx => I x (or_intror Hx))).
      destruct (S c); lra. }
    apply G, incl_refl.
  Qed.

  (* ---------- the model's _bool_oper under the geometric hypotheses *)
  Context {T : Type} (OP : ops T).
  Variable enclosed : list node -> region cell.

  Definition no_crossing (Arr : arrangement) : Prop := first_inter OP Arr (rot_edges (n1 Arr) 0 false) = None.
  Definition proper_overlap (RA RB : region cell) : Prop := ~ (rsub RA RB \/ rsub RB RA \/ rdisj RA RB).

  Record geometry_ok (Arr : arrangement) (i12 i21 : bool) (RA RB : region cell) : Prop := {
    (* Arc.intersection finds a crossing of the boundaries exactly when neither polygon contains the other and they are not disjoint *)
    g_cross : no_crossing Arr <-> (rsub RA RB \/ rsub RB RA \/ rdisj RA RB);
    (* _is_inside decides containment when the boundaries do not cross *)
    g_in12 : no_crossing Arr -> (i12 = true <-> rsub RA RB);
    g_in21 : no_crossing Arr -> (i21 = true <-> rsub RB RA);
    (* the walk returns the boundary of the cells in both / in either polygon, and does not fail *)
    g_walk_inter : forall l, bool_oper OP Arr (-1) i12 i21 = RPoly l -> req (enclosed l) (rand RA RB);
    g_walk_union : forall l, bool_oper OP Arr 1 i12 i21 = RPoly l -> req (enclosed l) (ror RA RB);
    g_total_inter : forall l, bool_oper OP Arr (-1) i12 i21 <> RError l;
    g_total_union : forall l, bool_oper OP Arr 1 i12 i21 <> RError l
  }.

  Definition result (Arr : arrangement) (sign : Z) (i12 i21 : bool) (RA RB : region cell) : option (region cell) :=
    oper_region cell enclosed RA RB (bool_oper OP Arr sign i12 i21).

  Lemma crossing_gives_poly Arr s i12 i21 : (forall l, bool_oper OP Arr s i12 i21 <> RError l) -> ~ no_crossing Arr ->
    exists l, bool_oper OP Arr s i12 i21 = RPoly l.
  Proof.
    intros NE N.
    unfold no_crossing in N. unfold bool_oper in *.
    destruct (first_inter OP Arr (rot_edges (n1 Arr) 0 false)) as [[x e1]|]; [|congruence].
    destruct (walk OP Arr _ s false x e1 (xe2 x) []) as [l|l]; [now exists l|]. exfalso. now apply (NE l).
  Qed.

  Lemma overlap_laws Arr i12 i21 RA RB : geometry_ok Arr i12 i21 RA RB -> proper_overlap RA RB ->
    exists I U, result Arr (-1) i12 i21 RA RB = Some I /\ result Arr 1 i12 i21 RA RB = Some U /\
                req I (rand RA RB) /\ req U (ror RA RB) /\
                meas I <= Rmin (meas RA) (meas RB) /\
                meas U = meas RA + meas RB - meas I.
  Proof.
    intros G P. assert (N : ~ no_crossing Arr) by (intros N; apply P; now apply (g_cross _ _ _ _ _ G)).
    destruct (crossing_gives_poly Arr (-1) _ _ (g_total_inter _ _ _ _ _ G) N) as (li & Ei).
    destruct (crossing_gives_poly Arr 1 _ _ (g_total_union _ _ _ _ _ G) N) as (lu & Eu).
    exists (enclosed li), (enclosed lu). unfold result. rewrite Ei, Eu. cbn.
    pose proof (g_walk_inter _ _ _ _ _ G li Ei) as Hi. pose proof (g_walk_union _ _ _ _ _ G lu Eu) as Hu.
    repeat split; try assumption.
    - rewrite (meas_req _ _ Hi). apply meas_and_le_min.
    - rewrite (meas_req _ _ Hi), (meas_req _ _ Hu). apply incl_excl.
  Qed.

  Lemma overlap_commutes Arr Arr' i12 i21 i12' i21' RA RB I U I' U' :
    geometry_ok Arr i12 i21 RA RB -> geometry_ok Arr' i12' i21' RB RA -> proper_overlap RA RB ->
    result Arr (-1) i12 i21 RA RB = Some I -> result Arr 1 i12 i21 RA RB = Some U ->
    result Arr' (-1) i12' i21' RB RA = Some I' -> result Arr' 1 i12' i21' RB RA = Some U' ->
    meas I = meas I' /\ meas U = meas U'.
  Proof.
    intros G G' P EI EU EI' EU'.
    assert (P' : proper_overlap RB RA).
    { intros [H|[H|H]]; apply P; [right; left; exact H | left; exact H | right; right].
      intros c Hc. rewrite andb_comm. now apply H. }
    destruct (overlap_laws _ _ _ _ _ G P) as (J & W & E1 & E2 & HJ & HW & _).
    destruct (overlap_laws _ _ _ _ _ G' P') as (J' & W' & E1' & E2' & HJ' & HW' & _).
    rewrite EI in E1. rewrite EU in E2. rewrite EI' in E1'. rewrite EU' in E2'.
    injection E1 as <-. injection E2 as <-. injection E1' as <-. injection E2' as <-.
    rewrite (meas_req _ _ HJ), (meas_req _ _ HJ'), (meas_req _ _ HW), (meas_req _ _ HW').
    split; [apply meas_and_comm | apply meas_or_comm].
  Qed.

  Lemma disjoint_none Arr i12 i21 RA RB : geometry_ok Arr i12 i21 RA RB ->
    rdisj RA RB -> nonempty RA -> nonempty RB -> result Arr (-1) i12 i21 RA RB = None.
  Proof.
    intros G D (a & Ha & Ra) (b & Hb & Rb).
    assert (N : no_crossing Arr) by (apply (g_cross _ _ _ _ _ G); now right; right).
    assert (F12 : i12 = false).
    { destruct i12; [|reflexivity]. exfalso. pose proof (proj1 (g_in12 _ _ _ _ _ G N) eq_refl a Ha Ra) as X.
      specialize (D a Ha). rewrite Ra, X in D. discriminate. }
    assert (F21 : i21 = false).
    { destruct i21; [|reflexivity]. exfalso. pose proof (proj1 (g_in21 _ _ _ _ _ G N) eq_refl b Hb Rb) as X.
      specialize (D b Hb). rewrite Rb, X in D. discriminate. }
    unfold result, bool_oper. unfold no_crossing in N. rewrite N, F12, F21. reflexivity.
  Qed.

  Lemma contained_self Arr i12 i21 RA RB : geometry_ok Arr i12 i21 RA RB -> rsub RA RB ->
    result Arr (-1) i12 i21 RA RB = Some RA /\ result Arr 1 i12 i21 RA RB = Some RB.
  Proof.
    intros G S. assert (N : no_crossing Arr) by (apply (g_cross _ _ _ _ _ G); now left).
    pose proof (proj2 (g_in12 _ _ _ _ _ G N) S) as E. unfold result, bool_oper. unfold no_crossing in N.
    rewrite N, E. split; reflexivity.
  Qed.

  Lemma contains_other Arr i12 i21 RA RB : geometry_ok Arr i12 i21 RA RB -> rsub RB RA -> ~ rsub RA RB ->
    result Arr (-1) i12 i21 RA RB = Some RB /\ result Arr 1 i12 i21 RA RB = Some RA.
  Proof.
    intros G S NS. assert (N : no_crossing Arr) by (apply (g_cross _ _ _ _ _ G); now right; left).
    pose proof (proj2 (g_in21 _ _ _ _ _ G N) S) as E.
    assert (F : i12 = false) by (destruct i12; [exfalso; apply NS, (g_in12 _ _ _ _ _ G N); reflexivity | reflexivity]).
    unfold result, bool_oper. unfold no_crossing in N. rewrite N, E, F. split; reflexivity.
  Qed.
End Measure.

Lemma setops_laws :
  forall (cell : Type) (cells : list cell) (mu : cell -> R), (forall c, In c cells -> 0 <= mu c) ->
  forall (T : Type) (OP : ops T) (enclosed : list node -> region cell)
         (Arr Arr' : arrangement) (i12 i21 i12' i21' : bool) (RA RB : region cell),
  geometry_ok cell cells OP enclosed Arr i12 i21 RA RB ->
  geometry_ok cell cells OP enclosed Arr' i12' i21' RB RA ->
  let res := result cell OP enclosed in
  (proper_overlap cell cells RA RB ->
     exists I U I' U',
       res Arr (-1)%Z i12 i21 RA RB = Some I /\ res Arr 1%Z i12 i21 RA RB = Some U /\
       res Arr' (-1)%Z i12' i21' RB RA = Some I' /\ res Arr' 1%Z i12' i21' RB RA = Some U' /\
       meas cell cells mu I = meas cell cells mu I' /\ meas cell cells mu U = meas cell cells mu U' /\
       meas cell cells mu I <= Rmin (meas cell cells mu RA) (meas cell cells mu RB) /\
       meas cell cells mu U = meas cell cells mu RA + meas cell cells mu RB - meas cell cells mu I) /\
  (rdisj cell cells RA RB -> nonempty cell cells RA -> nonempty cell cells RB ->
     res Arr (-1)%Z i12 i21 RA RB = None) /\
  (rsub cell cells RA RB ->
     res Arr (-1)%Z i12 i21 RA RB = Some RA /\ res Arr 1%Z i12 i21 RA RB = Some RB).
Proof.
  intros cell cells mu Hmu T OP enclosed Arr Arr' i12 i21 i12' i21' RA RB G G' res. subst res.
  split; [|split].
  - intros P.
    assert (P' : proper_overlap cell cells RB RA).
    { intros [H|[H|H]]; apply P; [right; left; exact H | left; exact H | right; right].
      intros c Hc. rewrite andb_comm. now apply H. }
    destruct (overlap_laws cell cells mu Hmu OP enclosed _ _ _ _ _ G P) as (I & U & E1 & E2 & _ & _ & L1 & L2).
    destruct (overlap_laws cell cells mu Hmu OP enclosed _ _ _ _ _ G' P') as (I' & U' & E1' & E2' & _).
    exists I, U, I', U'.
    destruct (overlap_commutes cell cells mu Hmu OP enclosed _ _ _ _ _ _ _ _ _ _ _ _ G G' P E1 E2 E1' E2') as (C1 & C2).
    repeat split; assumption.
  - intros D NA NB. exact (disjoint_none cell cells OP enclosed _ _ _ _ _ G D NA NB).
  - intros S. exact (contained_self cell cells OP enclosed _ _ _ _ _ G S).
Qed.
