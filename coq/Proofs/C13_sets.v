(* C13: every sufficient description derived from a grid gives that grid back (real arithmetic). *)
From Coq Require Import Reals ZArith Bool Lra Lia.
From Flocq Require Import Zaux Raux.
From PR Require Import Base.Num Base.RNum Model.AreaConfig Proofs.C13_base.
Open Scope R_scope.

Record grid := mk_grid { gx0 : R; gy0 : R; gx1 : R; gy1 : R; gw : Z; gh : Z }.
Definition wf_grid (g : grid) : Prop := gx0 g < gx1 g /\ gy0 g < gy1 g /\ (1 <= gw g)%Z /\ (1 <= gh g)%Z.
Definition g_ext (g : grid) := (gx0 g, gy0 g, gx1 g, gy1 g).
Definition g_center (g : grid) := ((gx0 g + gx1 g) / 2, (gy0 g + gy1 g) / 2).
Definition g_radius (g : grid) := ((gx1 g - gx0 g) / 2, (gy1 g - gy0 g) / 2).
Definition g_res (g : grid) := ((gx1 g - gx0 g) / IZR (gw g), (gy1 g - gy0 g) / IZR (gh g)).
Definition g_ul (g : grid) := (gx0 g, gy1 g).

(* the seven descriptions of the property text *)
Inductive desc := Des | Dcrs | Dcds | Duds | Dcrd | Ded | Dewh.
(* values handed over in a unit that is 1/s projection units, optionally as DataArrays with a units attribute *)
Definition sc (s : R) (v : R * R) : R * R := (fst v / s, snd v / s).
Definition describe (d : desc) (g : grid) (s : R) (attr units : option utok) : args (T:=R) :=
  let P v := Some (sc s v, attr) in
  let E := Some ((gx0 g / s, gy0 g / s, gx1 g / s, gy1 g / s), attr) in
  let S := Some (IZR (gh g), IZR (gw g)) in
  match d with
  | Des => mk_args None None E S None None None None units
  | Dcrs => mk_args None None None S None (P (g_center g)) None (P (g_radius g)) units
  | Dcds => mk_args None None None S None (P (g_center g)) (P (g_res g)) None units
  | Duds => mk_args None None None S (P (g_ul g)) None (P (g_res g)) None units
  | Dcrd => mk_args None None None None None (P (g_center g)) (P (g_res g)) (P (g_radius g)) units
  | Ded => mk_args None None E None None None (P (g_res g)) None units
  | Dewh => mk_args (Some (IZR (gw g))) (Some (IZR (gh g))) E None None None None None units
  end.
Definition uses_center (d : desc) : bool := match d with Dcrs | Dcds | Dcrd => true | _ => false end.

Section Sets.
  Variable pfwd pinv : R * R -> option (R * R).
  Variable fac : cu -> R * R.
  Variable geographic : bool.
  Variable crs_units : cu.

  Local Notation convert := (convert_units RO pfwd pinv fac geographic crs_units).
  Local Notation create := (create_area_def RO pfwd pinv fac geographic crs_units).

  (* the unit token in force for a parameter, and what it means: c is its canonical unit, s the number of
     projection units per given unit.  Degrees are only covered on a geographic CRS (there they are the projection unit). *)
  Definition eff_units (attr units : option utok) : utok :=
    match attr with Some u => u | None => match units with Some u => u | None => default_units crs_units end end.
  Definition unit_ok (u : utok) (c : cu) (s : R) : Prop :=
    extract_units u geographic = Ok c /\
    ((c = Cdeg /\ geographic = true /\ s = 1) \/
     (c <> Cdeg /\ s = (if cu_eqb crs_units c then 1 else fst (fac c) * snd (fac c)) /\ s <> 0)).

  Lemma kw_units attr units :
    match attr with Some u => u | None => match units with Some u => u | None => default_units crs_units end end
    = eff_units attr units.
  Proof. reflexivity. Qed.

  Lemma conv_point name attr units c s x y center :
    unit_ok (eff_units attr units) c s -> (name = Nul \/ name = Nextent) ->
    convert (Some ((x / s, y / s), attr)) name (match units with Some u => u | None => default_units crs_units end) center
    = Ok (Some (x, y)).
  Proof.
    intros [Hu Hc] Hn. unfold convert_units. rewrite kw_units, Hu. cbn [bind].
    destruct Hc as [(-> & Hg & ->)|(Hd & -> & Hs)].
    - cbn [cu_eqb]. rewrite Hg. destruct Hn as [-> | ->]; cbn; repeat f_equal; field.
    - assert (cu_eqb c Cdeg = false) as -> by (destruct c; try reflexivity; congruence).
      unfold convert_metered. destruct (cu_eqb crs_units c); destruct Hn as [-> | ->]; cbn; repeat f_equal; try (field; lra);
        destruct (Rmult_neq_0_reg _ _ Hs) as [Hf1 Hf2]; field; auto.
  Qed.

  Lemma conv_center attr units c s x y center :
    unit_ok (eff_units attr units) c s ->
    round_poles RO pfwd pinv (x, y) (cu_eqb c Cdeg) = Ok (x, y) ->
    convert (Some ((x / s, y / s), attr)) Ncenter (match units with Some u => u | None => default_units crs_units end) center
    = Ok (Some (x, y)).
  Proof.
    intros [Hu Hc] Hr. unfold convert_units. rewrite kw_units, Hu. cbn [bind].
    destruct Hc as [(-> & Hg & ->)|(Hd & -> & Hs)].
    - cbn [cu_eqb] in *. replace (x / 1, y / 1) with (x, y) by (f_equal; field). rewrite Hr. cbn [bind is_dist]. now rewrite Hg.
    - assert (E : cu_eqb c Cdeg = false) by (destruct c; try reflexivity; congruence). rewrite E in *.
      unfold convert_metered. destruct (cu_eqb crs_units c); cbn [fst snd mul RO].
      + replace (x / 1, y / 1) with (x, y) by (f_equal; field). now rewrite Hr.
      + destruct (Rmult_neq_0_reg _ _ Hs) as [Hf1 Hf2].
        replace (x / (fst (fac c) * snd (fac c)) * fst (fac c) * snd (fac c), y / (fst (fac c) * snd (fac c)) * fst (fac c) * snd (fac c))
          with (x, y) by (f_equal; field; auto). now rewrite Hr.
  Qed.

  Lemma conv_dist name attr units c s x y center :
    unit_ok (eff_units attr units) c s -> (name = Nradius \/ name = Nresolution) -> 0 < x -> 0 < y ->
    convert (Some ((x / s, y / s), attr)) name (match units with Some u => u | None => default_units crs_units end) center
    = Ok (Some (x, y)).
  Proof.
    intros [Hu Hc] Hn Hx Hy. unfold convert_units. rewrite kw_units, Hu. cbn [bind].
    destruct Hc as [(-> & Hg & ->)|(Hd & -> & Hs)].
    - cbn [cu_eqb]. rewrite Hg. destruct Hn as [-> | ->]; cbn [bind is_dist fst snd absf RO];
        (replace (x / 1) with x by field; replace (y / 1) with y by field; now rewrite !Rabs_pos_eq by lra).
    - assert (cu_eqb c Cdeg = false) as -> by (destruct c; try reflexivity; congruence).
      unfold convert_metered. destruct (cu_eqb crs_units c); destruct Hn as [-> | ->]; cbn [bind is_dist fst snd absf mul RO].
      all: try (replace (x / 1) with x by field; replace (y / 1) with y by field; now rewrite !Rabs_pos_eq by lra).
      all: destruct (Rmult_neq_0_reg _ _ Hs) as [Hf1 Hf2];
        replace (x / (fst (fac c) * snd (fac c)) * fst (fac c) * snd (fac c)) with x by (field; auto);
        replace (y / (fst (fac c) * snd (fac c)) * fst (fac c) * snd (fac c)) with y by (field; auto);
        now rewrite !Rabs_pos_eq by lra.
  Qed.
End Sets.

Section SetsMain.
  Variable pfwd pinv : R * R -> option (R * R).
  Variable fac : cu -> R * R.
  Variable geographic : bool.
  Variable crs_units : cu.
  Local Notation create := (create_area_def RO pfwd pinv fac geographic crs_units).

  Lemma Reqb_false a b : a <> b -> Reqb a b = false.
  Proof. unfold Reqb. destruct (Req_EM_T a b); congruence. Qed.
  Lemma make_area_ok (h w : Z) (x0 y0 x1 y1 : R) : (1 <= h)%Z -> (1 <= w)%Z -> x0 < x1 -> y0 < y1 ->
    make_area RO (x0, y0, x1, y1) (h, w) = Area (x0, y0, x1, y1) (h, w).
  Proof.
    intros Hh Hw Hx Hy. unfold make_area. cbn [fst snd]. destruct (Z.eqb_spec h 0); [lia|]. destruct (Z.eqb_spec w 0); [lia|].
    cbn [orb eqb div sub ofZ RO zeroT].
    assert (0 < IZR w) by (apply (IZR_lt 0); lia). assert (0 < IZR h) by (apply (IZR_lt 0); lia).
    rewrite !Reqb_false; [reflexivity| |].
    - apply Rgt_not_eq. apply Rdiv_lt_0_compat; lra.
    - apply Rgt_not_eq. apply Rdiv_lt_0_compat; lra.
  Qed.
  Lemma fin_area (h w : Z) (e : R * R * R * R) (x0 y0 x1 y1 : R) : (1 <= h)%Z -> (1 <= w)%Z -> x0 < x1 -> y0 < y1 ->
    e = (x0, y0, x1, y1) -> make_area RO e (h, w) = Area (x0, y0, x1, y1) (h, w).
  Proof. intros ? ? ? ? ->. now apply make_area_ok. Qed.

  Ltac prep := unfold create_area_def, describe, g_center, g_radius, g_res, g_ul, sc in *; cbn [fst snd] in *;
    cbn [a_width a_height a_extent a_shape a_ul a_center a_resolution a_radius a_units bind].
  Ltac pts Hu := repeat rewrite (conv_point pfwd pinv fac geographic crs_units Nextent _ _ _ _ _ _ _ Hu (or_intror eq_refl));
                 repeat rewrite (conv_point pfwd pinv fac geographic crs_units Nul _ _ _ _ _ _ _ Hu (or_introl eq_refl)).
  Ltac dist Hu := repeat rewrite (conv_dist pfwd pinv fac geographic crs_units Nradius _ _ _ _ _ _ _ Hu (or_introl eq_refl)) by assumption;
                  repeat rewrite (conv_dist pfwd pinv fac geographic crs_units Nresolution _ _ _ _ _ _ _ Hu (or_intror eq_refl)) by assumption.
  Ltac user_shape := rewrite round_shape_R; cbn [fst snd]; rewrite !round_dim_exact.
  Lemma convert_none name u center : convert_units RO pfwd pinv fac geographic crs_units None name u center = Ok None.
  Proof. reflexivity. Qed.
  Ltac rdc := cbn [bind fst snd validate2 validate4 validate_shape sub add mul div ofZ eqb RO zeroT twoT strip].
  Ltac go Hu := repeat (progress (try rewrite !convert_none; try dist Hu; rdc)).
  Ltac fld := first [ field; lra | field; split; lra | lra ].
  Ltac nz g := unfold round_shape_kw; cbn [eqb RO zeroT ofZ fst snd]; repeat (rewrite Reqb_false by (cbn; lra)); cbn [orb].
  Ltac derived_shape g :=
    match goal with |- context[round_shape RO (?a, ?b)] =>
      replace a with (IZR (gh g)) by fld; replace b with (IZR (gw g)) by fld end;
    rewrite round_shape_R; cbn [fst snd]; rewrite !round_dim_exact.
  Ltac fin g := unfold g_ext; apply fin_area; [assumption|assumption|assumption|assumption|repeat f_equal; fld].

  Theorem param_sets_agree d g attr units c s :
    wf_grid g -> unit_ok fac geographic crs_units (eff_units crs_units attr units) c s ->
    (uses_center d = true -> round_poles RO pfwd pinv (g_center g) (cu_eqb c Cdeg) = Ok (g_center g)) ->
    create (describe d g s attr units) = Area (g_ext g) (gh g, gw g).
  Proof.
    intros (Hx & Hy & Hw & Hh) Hu Hc.
    assert (HW : 0 < IZR (gw g)) by (apply (IZR_lt 0); lia).
    assert (HH : 0 < IZR (gh g)) by (apply (IZR_lt 0); lia).
    assert (0 < (gx1 g - gx0 g) / 2) by lra. assert (0 < (gy1 g - gy0 g) / 2) by lra.
    assert (0 < (gx1 g - gx0 g) / IZR (gw g)) by (apply Rdiv_lt_0_compat; lra).
    assert (0 < (gy1 g - gy0 g) / IZR (gh g)) by (apply Rdiv_lt_0_compat; lra).
    destruct d; cbn [uses_center] in Hc; try specialize (Hc eq_refl).
    - (* extent + shape *)
      prep. pts Hu. user_shape. go Hu. fin g.
    - (* centre + radius + shape *)
      prep. rewrite (conv_center pfwd pinv fac geographic crs_units _ _ _ _ _ _ _ Hu Hc). user_shape. go Hu.
      unfold extrapolate. go Hu. fin g.
    - (* centre + resolution + shape *)
      prep. rewrite (conv_center pfwd pinv fac geographic crs_units _ _ _ _ _ _ _ Hu Hc). user_shape. go Hu.
      unfold extrapolate. go Hu. fin g.
    - (* upper-left + resolution + shape *)
      prep. pts Hu. user_shape. go Hu. unfold extrapolate. go Hu. fin g.
    - (* centre + radius + resolution *)
      prep. rewrite (conv_center pfwd pinv fac geographic crs_units _ _ _ _ _ _ _ Hu Hc). go Hu.
      unfold extrapolate. go Hu. nz g. derived_shape g. go Hu. fin g.
    - (* extent + resolution *)
      prep. pts Hu. go Hu. unfold extrapolate. go Hu. nz g. derived_shape g. go Hu.
      match goal with |- context[allclose4 RO ?e ?n] => replace n with e by (repeat f_equal; fld) end.
      rewrite allclose4_refl. go Hu. fin g.
    - (* extent + width / height *)
      prep. pts Hu. go Hu. user_shape. go Hu. fin g.
  Qed.
End SetsMain.
