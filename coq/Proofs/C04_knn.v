(* C04 — composition with the k-nearest-neighbour contract of the kd-tree query (an oracle: pykdtree).
   [knn_slots] states what _query_resample_kdtree is expected to deliver for one target location: the (at most k)
   nearest valid sources strictly inside the radius, each once, with their distances; index n marks a missing slot.
   Under it the model's result is the normalised weighted mean over exactly the sources in range (when fewer than k
   are in range), resp. over k sources none of which is farther than any source left out.  The oracle itself is
   checked on every run by exhaustive distances (harness/c04.py check_neighbours; property C02 for k = 1). *)
From Coq Require Import Reals ZArith Bool List Lra Lia Permutation FinFun.
From PR Require Import Base.Num Base.RNum Model.Weights Proofs.C04_weights.
Import ListNotations.
Open Scope R_scope.

Definition used (n : Z) (ix : list Z) : list Z := filter (fun i => negb (i =? n)%Z) ix.

Record knn_slots (D : Z -> R) (n : Z) (radius : R) (ix : list Z) (ds : list R) : Prop := {
  ks_len : length ix = length ds;
  ks_present : forall i d, In (i, d) (combine ix ds) -> i <> n -> (0 <= i < n)%Z /\ d = D i /\ D i < radius;
  ks_nodup : NoDup (used n ix);
  ks_complete : forall j, (0 <= j < n)%Z -> D j < radius -> ~ In j ix ->
                ~ In n ix /\ forall i, In i ix -> D i <= D j }.

(* all valid sources strictly inside the radius, in index order *)
Definition sources (n : Z) : list Z := map Z.of_nat (seq 0 (Z.to_nat n)).
Definition in_range (D : Z -> R) (n : Z) (radius : R) : list Z := filter (fun j => Rltb (D j) radius) (sources n).

Lemma in_sources n j : In j (sources n) <-> (0 <= j < n)%Z.
Proof.
  unfold sources. rewrite in_map_iff. split.
  - intros [k [<- Hk]]. apply in_seq in Hk. lia.
  - intros H. exists (Z.to_nat j). split; [lia|]. apply in_seq. lia.
Qed.

Lemma NoDup_sources n : NoDup (sources n).
Proof. unfold sources. apply Injective_map_NoDup; [intros a b H; lia|apply seq_NoDup]. Qed.

Lemma in_in_range D n r j : In j (in_range D n r) <-> (0 <= j < n)%Z /\ D j < r.
Proof. unfold in_range. rewrite filter_In, in_sources, Rltb_true. reflexivity. Qed.

Lemma in_used n ix i : In i (used n ix) <-> In i ix /\ i <> n.
Proof.
  unfold used. rewrite filter_In. split; intros [H1 H2]; split; try assumption.
  - intros ->. rewrite Z.eqb_refl in H2. discriminate.
  - destruct (Z.eqb_spec i n); [contradiction|reflexivity].
Qed.

Lemma nbrs_as_map D n r col ix : forall ds,
  length ix = length ds ->
  (forall i d, In (i, d) (combine ix ds) -> i <> n -> (0 <= i < n)%Z /\ d = D i /\ D i < r) ->
  nbrs n col ix ds = map (fun i => (D i, nth (Z.to_nat i) col 0)) (used n ix).
Proof.
  induction ix as [|i ix IH]; intros [|d ds] Hl H; cbn in *; try reflexivity; try discriminate.
  destruct (Z.eqb_spec i n) as [E|E]; cbn.
  - apply IH; [lia|]. intros k e Hk. apply H. right. assumption.
  - destruct (H i d (or_introl eq_refl) E) as [_ [-> _]]. f_equal.
    apply IH; [lia|]. intros k e Hk. apply H. right. assumption.
Qed.

Lemma in_combine_exists {A B} (l : list A) (l' : list B) x : length l = length l' -> In x l -> exists y, In (x, y) (combine l l').
Proof.
  revert l'. induction l as [|a l IH]; intros [|b l'] Hl Hin; cbn in *; try contradiction; try discriminate.
  destruct Hin as [->|Hin]; [exists b; left; reflexivity|].
  destruct (IH l' ltac:(lia) Hin) as [y Hy]. exists y. right. assumption.
Qed.

(* fewer than k sources in range (some slot is missing): the neighbours used are exactly the sources in range *)
Lemma used_perm_in_range D n r ix ds :
  knn_slots D n r ix ds -> In n ix -> Permutation (used n ix) (in_range D n r).
Proof.
  intros K Hmiss. apply NoDup_Permutation.
  - apply (ks_nodup _ _ _ _ _ K).
  - unfold in_range. apply NoDup_filter, NoDup_sources.
  - intros j. rewrite in_used, in_in_range. split.
    + intros [Hin Hne]. destruct (in_combine_exists ix ds j (ks_len _ _ _ _ _ K) Hin) as [d Hd].
      destruct (ks_present _ _ _ _ _ K j d Hd Hne) as [H1 [_ H3]]. split; assumption.
    + intros [Hj Hd]. split; [|lia].
      destruct (in_dec Z.eq_dec j ix) as [Hin|Hnin]; [assumption|].
      destruct (ks_complete _ _ _ _ _ K j Hj Hd Hnin) as [Hn _]. contradiction.
Qed.

Lemma sumR_perm (l l' : list R) : Permutation l l' -> sumR l = sumR l'.
Proof. induction 1; cbn; lra. Qed.

Section Composition.
  Variables (D : Z -> R) (wf : R -> R) (n : Z) (radius : R) (col : list R) (ix : list Z) (ds : list R) (f : R).
  Hypothesis K : knn_slots D n radius ix ds.

  Definition Nsum (S : list Z) : R := sumR (map (fun j => wf (D j)) S).
  Definition Ssum (S : list Z) : R := sumR (map (fun j => wf (D j) * nth (Z.to_nat j) col 0) S).

  Lemma sums_over_used :
    Wsum (weigh wf (nbrs n col ix ds)) = Nsum (used n ix) /\ WXsum (weigh wf (nbrs n col ix ds)) = Ssum (used n ix).
  Proof.
    rewrite (nbrs_as_map D n radius col ix ds (ks_len _ _ _ _ _ K) (ks_present _ _ _ _ _ K)).
    unfold Wsum, WXsum, weigh, Nsum, Ssum. rewrite !map_map. cbn. split; reflexivity.
  Qed.

  (* the result in terms of the indices used *)
  Lemma result_over_used :
    (0 < Nsum (used n ix) -> c_res (weighted_col RO wf n col ix ds f) = Ssum (used n ix) / Nsum (used n ix)) /\
    (Nsum (used n ix) <= 0 -> c_res (weighted_col RO wf n col ix ds f) = f).
  Proof. destruct sums_over_used as [<- <-]. apply weighted_mean_spec. Qed.

  (* fewer than k in range: the normalised weighted mean over ALL valid sources inside the radius *)
  Lemma result_over_in_range : In n ix ->
    (0 < Nsum (in_range D n radius) ->
       c_res (weighted_col RO wf n col ix ds f) = Ssum (in_range D n radius) / Nsum (in_range D n radius)) /\
    (Nsum (in_range D n radius) <= 0 -> c_res (weighted_col RO wf n col ix ds f) = f) /\
    c_cnt (weighted_col RO wf n col ix ds f) = Z.of_nat (length (in_range D n radius)).
  Proof.
    intros Hmiss. pose proof (used_perm_in_range D n radius ix ds K Hmiss) as P.
    assert (EN : Nsum (used n ix) = Nsum (in_range D n radius)) by (apply sumR_perm, Permutation_map, P).
    assert (ES : Ssum (used n ix) = Ssum (in_range D n radius)) by (apply sumR_perm, Permutation_map, P).
    rewrite <- EN, <- ES. destruct result_over_used as [H1 H2]. split; [assumption|]. split; [assumption|].
    rewrite count_spec, (nbrs_as_map D n radius col ix ds (ks_len _ _ _ _ _ K) (ks_present _ _ _ _ _ K)), map_length.
    rewrite (Permutation_length P). reflexivity.
  Qed.

  (* all k slots used: k distinct valid sources inside the radius, and no source left out is nearer than one used *)
  Lemma used_are_nearest :
    (forall i, In i (used n ix) -> (0 <= i < n)%Z /\ D i < radius) /\ NoDup (used n ix) /\
    (forall j, (0 <= j < n)%Z -> D j < radius -> ~ In j (used n ix) ->
       length (used n ix) = length ix /\ forall i, In i (used n ix) -> D i <= D j).
  Proof.
    split; [|split; [apply (ks_nodup _ _ _ _ _ K)|]].
    - intros i Hi. apply in_used in Hi. destruct Hi as [Hin Hne].
      destruct (in_combine_exists ix ds i (ks_len _ _ _ _ _ K) Hin) as [d Hd].
      destruct (ks_present _ _ _ _ _ K i d Hd Hne) as [H1 [_ H3]]. split; assumption.
    - intros j Hj Hd Hn.
      assert (Hnin : ~ In j ix) by (intros Hin; apply Hn, in_used; split; [assumption|lia]).
      destruct (ks_complete _ _ _ _ _ K j Hj Hd Hnin) as [Hfull Hle]. split.
      + unfold used. clear -Hfull. induction ix as [|a l IH]; cbn; [reflexivity|].
        destruct (Z.eqb_spec a n) as [->|E]; cbn; [exfalso; apply Hfull; left; reflexivity|].
        f_equal. apply IH. intros H. apply Hfull. right. assumption.
      + intros i Hi. apply Hle. apply in_used in Hi. apply Hi.
  Qed.
End Composition.
