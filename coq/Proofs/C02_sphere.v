(* C02: what the squared chord distance of Cartesian.transform_lonlats means over the reals (cos / sin the real
   functions): every location lies on the sphere of radius R, the squared chord between two locations is
   2 R^2 (1 - cos of the central angle), hence "nearest by chord" = "nearest by geocentric (central) angle".
   Reuses C03's spherical identities read-only. *)
From Coq Require Import Reals Lra.
From PR Require Import Base.Num Base.RNum Model.KDTree Proofs.C03_sphere.
Open Scope R_scope.

Definition xyzR (Re k lon lat : R) : R * R * R := transform_lonlat RO cos sin Re k lon lat.
Definition sqdist3 (p q : R * R * R) : R :=
  let '(x, y, z) := p in let '(u, v, w) := q in (x - u) * (x - u) + (y - v) * (y - v) + (z - w) * (z - w).

Lemma xyz_on_sphere Re k lon lat :
  let '(x, y, z) := xyzR Re k lon lat in x * x + y * y + z * z = Re * Re.
Proof.
  unfold xyzR, transform_lonlat. cbn [mul RO].
  pose proof (sc2 (lat * k)) as H1. pose proof (sc2 (lon * k)) as H2.
  set (a := sin (lat * k)) in *. set (b := cos (lat * k)) in *. set (c := sin (lon * k)) in *. set (d := cos (lon * k)) in *.
  replace (Re * b * d * (Re * b * d) + Re * b * c * (Re * b * c) + Re * a * (Re * a))
    with (Re * Re * (b * b * (c * c + d * d) + a * a)) by ring.
  rewrite H2. replace (b * b * 1 + a * a) with (a * a + b * b) by ring. rewrite H1. ring.
Qed.

Lemma sqdist_is_chord2 Re k lon1 lat1 lon2 lat2 :
  sqdist3 (xyzR Re k lon1 lat1) (xyzR Re k lon2 lat2) = chord2 Re (lon1 * k) (lat1 * k) (lon2 * k) (lat2 * k).
Proof. unfold sqdist3, xyzR, transform_lonlat, chord2. cbn [mul RO]. ring. Qed.

Lemma sqdist_central_angle Re k lon1 lat1 lon2 lat2 :
  sqdist3 (xyzR Re k lon1 lat1) (xyzR Re k lon2 lat2)
  = 2 * Re * Re * (1 - cosang (lon1 * k) (lat1 * k) (lon2 * k) (lat2 * k)).
Proof. rewrite sqdist_is_chord2. apply chord2_cosang. Qed.

(* nearer by chord <-> smaller central angle (larger cosine of it) *)
Lemma chord_order_is_angle_order Re k lont latt lon1 lat1 lon2 lat2 : 0 < Re ->
  (sqdist3 (xyzR Re k lont latt) (xyzR Re k lon1 lat1) <= sqdist3 (xyzR Re k lont latt) (xyzR Re k lon2 lat2)
   <-> cosang (lont * k) (latt * k) (lon2 * k) (lat2 * k) <= cosang (lont * k) (latt * k) (lon1 * k) (lat1 * k)).
Proof.
  intros HR. rewrite !sqdist_central_angle.
  set (c1 := cosang _ _ (lon1 * k) _). set (c2 := cosang _ _ (lon2 * k) _).
  assert (0 < Re * Re) by nra. split; intros H0; nra.
Qed.
