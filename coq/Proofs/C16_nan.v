(* C16 - _filter_sides_nans: a vertex survives iff NEITHER of its two coordinates is NaN; order is kept; the result is an
   error exactly when some side has no valid vertex. *)
From Coq Require Import ZArith List Bool.
From PR Require Import Base.Num Model.Boundary.
Import ListNotations.

Section NanFilter.
  Context {T : Type} (OP : ops T).

  Lemma filter_side_spec s r : filter_side OP s = Some r -> r = filter (valid_vertex OP) s /\ r <> [].
  Proof.
    unfold filter_side. destruct (filter (valid_vertex OP) s) eqn:E; [discriminate|].
    intros H. inversion H; subst. split; [reflexivity|discriminate].
  Qed.

  Lemma filter_side_none s : filter_side OP s = None <-> Forall (fun p => valid_vertex OP p = false) s.
  Proof.
    unfold filter_side. split.
    - destruct (filter (valid_vertex OP) s) eqn:E; [|discriminate]. intros _.
      apply Forall_forall. intros p Hp. destruct (valid_vertex OP p) eqn:V; [|reflexivity].
      assert (In p (filter (valid_vertex OP) s)) by (apply filter_In; auto). rewrite E in H. contradiction.
    - intros H. replace (filter (valid_vertex OP) s) with (@nil (T * T)); [reflexivity|].
      symmetry. induction H as [|p l Hp _ IH]; [reflexivity|]. cbn. rewrite Hp. exact IH.
  Qed.

  Theorem filter_sides_nans_spec sides r : filter_sides_nans OP sides = Some r ->
    r = map (filter (valid_vertex OP)) sides
    /\ Forall (fun s => s <> []) r
    /\ Forall (Forall (fun p => isnan OP (fst p) = false /\ isnan OP (snd p) = false)) r.
  Proof.
    revert r. induction sides as [|s rest IH]; intros r H.
    - cbn in H. inversion H; subst. repeat split; constructor.
    - cbn in H. destruct (filter_side OP s) as [s'|] eqn:Es; [|discriminate].
      destruct (filter_sides_nans OP rest) as [r'|] eqn:Er; [|discriminate].
      inversion H; subst. destruct (filter_side_spec _ _ Es) as [-> Hne]. destruct (IH r' eq_refl) as (-> & Hn & Hv).
      repeat split; [constructor; assumption|]. constructor; [|exact Hv].
      apply Forall_forall. intros p Hp. apply filter_In in Hp. destruct Hp as [_ Hp].
      unfold valid_vertex in Hp. apply negb_true_iff, orb_false_iff in Hp. exact Hp.
  Qed.

  Theorem filter_sides_nans_error sides :
    filter_sides_nans OP sides = None <-> Exists (Forall (fun p => valid_vertex OP p = false)) sides.
  Proof.
    induction sides as [|s rest IH]; cbn.
    - split; [discriminate|]. intros H. inversion H.
    - destruct (filter_side OP s) as [s'|] eqn:Es.
      + destruct (filter_sides_nans OP rest) as [r'|] eqn:Er.
        * split; [discriminate|]. intros H. inversion H as [? ? Hs|? ? Hr]; subst.
          -- apply filter_side_none in Hs. congruence.
          -- apply IH in Hr. discriminate.
        * split; [|reflexivity]. intros _. right. apply IH. reflexivity.
      + split; [|reflexivity]. intros _. left. apply filter_side_none. exact Es.
  Qed.

  (* in particular a vertex whose latitude alone (or longitude alone) is NaN never survives *)
  Corollary one_nan_coordinate_is_dropped sides r x y : filter_sides_nans OP sides = Some r ->
    (isnan OP x = true \/ isnan OP y = true) -> Forall (fun s => ~ In (x, y) s) r.
  Proof.
    intros H Hn. destruct (filter_sides_nans_spec _ _ H) as (_ & _ & Hv).
    apply Forall_forall. intros s Hs Hin. rewrite Forall_forall in Hv. specialize (Hv s Hs).
    rewrite Forall_forall in Hv. destruct (Hv _ Hin) as [H1 H2]. cbn in *. destruct Hn; congruence.
  Qed.
End NanFilter.
