(* C07: the sort-based first-of-bin pick of get_min / get_max / get_abs_max. *)
From Coq Require Import ZArith Bool List Lia Sorted Permutation.
From PR Require Import Base.Num Base.ZX Model.Grid Model.Bucket Proofs.C07_index Proofs.C07_hist.
Import ListNotations.
Open Scope Z_scope.

Definition ple (p q : Z * dat) : Prop := dat_leb (snd p) (snd q) = true.
Definition pge (p q : Z * dat) : Prop := ple q p.

Lemma dat_leb_refl a : dat_leb a a = true.
Proof. destruct a; cbn; [apply Z.leb_refl | reflexivity]. Qed.
Lemma dat_leb_total a b : dat_leb a b = false -> dat_leb b a = true.
Proof. destruct a, b; cbn; try congruence. rewrite Z.leb_gt, Z.leb_le. lia. Qed.
Lemma dat_leb_trans a b c : dat_leb a b = true -> dat_leb b c = true -> dat_leb a c = true.
Proof. destruct a, b, c; cbn; try congruence. rewrite !Z.leb_le. lia. Qed.

(* ---- insertion sort: a permutation, ascending with NaN last *)
Lemma insert_perm p l : Permutation (bk_insert p l) (p :: l).
Proof.
  induction l as [|q l IH]; cbn; [apply Permutation_refl|].
  destruct (dat_leb (snd p) (snd q)); [apply Permutation_refl|].
  apply perm_trans with (q :: p :: l); [apply perm_skip, IH | apply perm_swap].
Qed.
Lemma sort_perm l : Permutation (bk_sort l) l.
Proof.
  induction l as [|p l IH]; cbn; [constructor|].
  apply perm_trans with (p :: bk_sort l); [apply insert_perm | apply perm_skip, IH].
Qed.
Lemma insert_sorted p l : StronglySorted ple l -> StronglySorted ple (bk_insert p l).
Proof.
  induction 1 as [|q l Hs IH Hq]; cbn; [repeat constructor|].
  destruct (dat_leb (snd p) (snd q)) eqn:E.
  - constructor; [constructor; assumption|]. constructor; [exact E|].
    rewrite Forall_forall in *. intros x Hx. unfold ple in *. eapply dat_leb_trans; [exact E | apply Hq, Hx].
  - constructor; [exact IH|]. rewrite Forall_forall in *. intros x Hx.
    apply (Permutation_in _ (insert_perm p l)) in Hx. destruct Hx as [<-|Hx]; [apply dat_leb_total, E | apply Hq, Hx].
Qed.
Lemma sort_sorted l : StronglySorted ple (bk_sort l).
Proof. induction l as [|p l IH]; cbn; [constructor | apply insert_sorted, IH]. Qed.

Lemma ss_app {A} (R : A -> A -> Prop) l1 l2 :
  StronglySorted R l1 -> StronglySorted R l2 -> (forall x y, In x l1 -> In y l2 -> R x y) ->
  StronglySorted R (l1 ++ l2).
Proof.
  induction 1 as [|a l1 Hs IH Ha]; intros H2 Hc; cbn; [assumption|].
  constructor; [apply IH; auto; intros; apply Hc; cbn; auto|].
  apply Forall_app. split; [assumption|]. apply Forall_forall. intros y Hy. apply Hc; cbn; auto.
Qed.
Lemma ss_rev {A} (R : A -> A -> Prop) l : StronglySorted R l -> StronglySorted (fun a b => R b a) (rev l).
Proof.
  induction 1 as [|a l Hs IH Ha]; cbn; [constructor|].
  apply ss_app; [assumption | repeat constructor|].
  intros x y Hx [<-|[]]. rewrite Forall_forall in Ha. apply Ha. apply in_rev. assumption.
Qed.

(* ---- the pick is the first element of the bin in sorted order *)
Definition bk_find (s : list (Z * dat)) (k : Z) : dat :=
  match find (fun p => fst p =? k) s with Some p => snd p | None => None end.

Lemma pick_find_gen k s : forall pre : list dat,
  match bk_first_pos (map fst s) k (length pre) with
  | Some i => nth i (pre ++ map snd s ++ [None]) None
  | None => last (pre ++ map snd s ++ [None]) None
  end = bk_find s k.
Proof.
  unfold bk_find, dat. induction s as [|p s IH]; intros pre; cbn [map bk_first_pos find]; cbn beta.
  - cbn [app]. apply last_last.
  - destruct (fst p =? k).
    + cbn [app]. apply nth_middle.
    + specialize (IH (pre ++ [snd p])). rewrite app_length in IH. cbn [length] in IH.
      rewrite Nat.add_1_r, <- app_assoc in IH. exact IH.
Qed.
Lemma pick_find s k : bk_pick s k = bk_find s k.
Proof. exact (pick_find_gen k s []). Qed.

Lemma find_first_le {A} (R : A -> A -> Prop) (P : A -> bool) l x :
  (forall a, R a a) -> StronglySorted R l -> find P l = Some x -> forall y, In y l -> P y = true -> R x y.
Proof.
  intros Hrefl. induction 1 as [|a l Hs IH Ha]; cbn [find]; [discriminate|].
  destruct (P a) eqn:Pa.
  - intros E; inversion E; subst. intros y [<-|Hy] _; [apply Hrefl|]. rewrite Forall_forall in Ha. apply Ha, Hy.
  - intros E y [<-|Hy] Py; [congruence|]. apply IH; assumption.
Qed.

(* ---- specification: extreme value of the finite data of a cell; NaN for an empty cell *)
Definition bk_is_min (ds : list dat) (res : dat) : Prop :=
  match ds with
  | [] => res = None
  | _ => exists m, res = Some m /\ In (Some m) ds /\ forall v, In (Some v) ds -> m <= v
  end.
Definition bk_is_max (ds : list dat) (res : dat) : Prop :=
  match ds with
  | [] => res = None
  | _ => exists m, res = Some m /\ In (Some m) ds /\ forall v, In (Some v) ds -> v <= m
  end.
Definition bk_is_absmax (ds : list dat) (res : dat) : Prop :=
  match ds with
  | [] => res = None
  | _ => exists m, res = Some m /\ In (Some m) ds /\ (forall v, In (Some v) ds -> Z.abs v <= Z.abs m)
                   /\ (In (Some (- m)) ds -> 0 <= m)          (* of v and -v the non-negative one is reported *)
  end.

Lemma in_members k (pts : list (Z * dat)) d : In d (bk_members k pts) <-> In (k, d) pts.
Proof.
  unfold bk_members. rewrite in_map_iff. split.
  - intros ((i & d') & E & Hin). cbn in E. subst. apply filter_In in Hin. destruct Hin as [Hin Ek].
    cbn in Ek. apply Z.eqb_eq in Ek. subst. assumption.
  - intros Hin. exists (k, d). split; [reflexivity|]. apply filter_In. split; [assumption|]. cbn. apply Z.eqb_refl.
Qed.

Section AnySort.
  (* any arrangement of the points that is a permutation of the input and sorted by value:
     covers np.argsort's unstable quicksort as well as the stable model sort *)
  Variable pts s : list (Z * dat).
  Variable k : Z.
  Hypothesis Hperm : Permutation s pts.
  Hypothesis Hfin : bk_finite (map snd pts).

  Lemma find_none_empty : find (fun p => fst p =? k) s = None -> bk_members k pts = [].
  Proof.
    intros Hn. destruct (bk_members k pts) as [|d ms] eqn:E; [reflexivity|]. exfalso.
    assert (Hin : In (k, d) pts) by (apply in_members; rewrite E; left; reflexivity).
    apply (Permutation_in _ (Permutation_sym Hperm)) in Hin.
    apply (find_none _ _ Hn) in Hin. cbn in Hin. rewrite Z.eqb_refl in Hin. discriminate.
  Qed.

  Lemma find_some_member p : find (fun p => fst p =? k) s = Some p -> In (snd p) (bk_members k pts).
  Proof.
    intros Hf. apply find_some in Hf. destruct Hf as [Hin Ek]. apply Z.eqb_eq in Ek.
    apply in_members. apply (Permutation_in _ Hperm) in Hin. destruct p as [i d]. cbn in *. subst. assumption.
  Qed.

  Lemma finite_member d : In d (bk_members k pts) -> exists v, d = Some v.
  Proof.
    intros Hd. apply members_sub in Hd. unfold bk_finite in Hfin. rewrite Forall_forall in Hfin.
    specialize (Hfin d Hd). destruct d as [v|]; [exists v; reflexivity | congruence].
  Qed.

  Lemma pick_is_min : StronglySorted ple s -> bk_is_min (bk_members k pts) (bk_find s k).
  Proof.
    intros Hs. unfold bk_is_min, bk_find. destruct (find (fun p => fst p =? k) s) as [p|] eqn:Ef.
    - pose proof (find_some_member p Ef) as Hm. destruct (finite_member _ Hm) as [m Em].
      destruct (bk_members k pts) as [|d0 ms] eqn:E; [destruct Hm|]. rewrite <- E in *.
      exists m. split; [assumption|]. split; [rewrite <- Em; assumption|].
      intros v Hv. apply in_members in Hv. apply (Permutation_in _ (Permutation_sym Hperm)) in Hv.
      pose proof (find_first_le ple _ s p (fun a : Z * dat => dat_leb_refl (snd a)) Hs Ef (k, Some v) Hv) as H.
      cbn in H. rewrite Z.eqb_refl in H. specialize (H eq_refl). unfold ple in H. cbn in H. rewrite Em in H. cbn in H.
      apply Z.leb_le. assumption.
    - rewrite (find_none_empty Ef). reflexivity.
  Qed.

  Lemma pick_is_max : StronglySorted pge s -> bk_is_max (bk_members k pts) (bk_find s k).
  Proof.
    intros Hs. unfold bk_is_max, bk_find. destruct (find (fun p => fst p =? k) s) as [p|] eqn:Ef.
    - pose proof (find_some_member p Ef) as Hm. destruct (finite_member _ Hm) as [m Em].
      destruct (bk_members k pts) as [|d0 ms] eqn:E; [destruct Hm|]. rewrite <- E in *.
      exists m. split; [assumption|]. split; [rewrite <- Em; assumption|].
      intros v Hv. apply in_members in Hv. apply (Permutation_in _ (Permutation_sym Hperm)) in Hv.
      pose proof (find_first_le pge _ s p (fun a : Z * dat => dat_leb_refl (snd a)) Hs Ef (k, Some v) Hv) as H.
      cbn in H. rewrite Z.eqb_refl in H. specialize (H eq_refl). unfold pge, ple in H. cbn in H. rewrite Em in H. cbn in H.
      apply Z.leb_le. assumption.
    - rewrite (find_none_empty Ef). reflexivity.
  Qed.
End AnySort.

(* ---- the model's get_min / get_max *)
Lemma finite_combine (idxs : list Z) (data : list dat) : bk_finite data -> bk_finite (map snd (combine idxs data)).
Proof.
  unfold bk_finite. rewrite !Forall_forall. intros H d Hd. apply H.
  apply in_map_iff in Hd. destruct Hd as ((i & d') & E & Hin). cbn in E. subst. apply in_combine_r in Hin. assumption.
Qed.

Lemma get_min_members size idxs data k : 0 <= k < size -> bk_finite data ->
  bk_is_min (bk_members k (combine idxs data)) (bk_get_min size idxs data k).
Proof.
  intros Hk Hf. unfold bk_get_min, bk_get_stat, bk_sorted_for.
  destruct (Z.leb_spec 0 k); destruct (Z.ltb_spec k size); try lia. cbn [andb]. rewrite pick_find.
  apply pick_is_min; [apply sort_perm | apply finite_combine, Hf | apply sort_sorted].
Qed.

Lemma get_max_members size idxs data k : 0 <= k < size -> bk_finite data ->
  bk_is_max (bk_members k (combine idxs data)) (bk_get_max size idxs data k).
Proof.
  intros Hk Hf. unfold bk_get_max, bk_get_stat, bk_sorted_for.
  destruct (Z.leb_spec 0 k); destruct (Z.ltb_spec k size); try lia. cbn [andb]. rewrite pick_find.
  apply pick_is_max; [| apply finite_combine, Hf | apply (ss_rev ple), sort_sorted].
  apply perm_trans with (bk_sort (combine idxs data)); [apply Permutation_sym, Permutation_rev | apply sort_perm].
Qed.

(* get_abs_max from the two *)
Lemma absmax_of_spec ds mn mx : bk_is_min ds mn -> bk_is_max ds mx -> bk_is_absmax ds (bk_absmax_of mn mx).
Proof.
  unfold bk_is_min, bk_is_max, bk_is_absmax. destruct ds as [|d ds].
  - intros -> ->. reflexivity.
  - intros (a & -> & Ha & Hmin) (b & -> & Hb & Hmax). cbn [bk_absmax_of].
    destruct (Z.gtb_spec (- a) b) as [G|G].
    + exists a. split; [reflexivity|]. split; [assumption|]. split.
      * intros v Hv. specialize (Hmin v Hv). specialize (Hmax v Hv). lia.
      * intros Hn. specialize (Hmax _ Hn). lia.
    + exists b. split; [reflexivity|]. split; [assumption|]. split.
      * intros v Hv. specialize (Hmin v Hv). specialize (Hmax v Hv). lia.
      * intros Hn. pose proof (Hmin _ Hb). specialize (Hmin _ Hn). lia.
Qed.

Lemma get_abs_max_members size idxs data k : 0 <= k < size -> bk_finite data ->
  bk_is_absmax (bk_members k (combine idxs data)) (bk_get_abs_max size idxs data k).
Proof.
  intros Hk Hf. unfold bk_get_abs_max.
  apply absmax_of_spec; [apply get_min_members | apply get_max_members]; assumption.
Qed.

(* the three specifications determine the reported value *)
Lemma is_min_unique ds r1 r2 : bk_is_min ds r1 -> bk_is_min ds r2 -> r1 = r2.
Proof.
  unfold bk_is_min. destruct ds; [congruence|]. intros (a & -> & Ha & Hma) (b & -> & Hb & Hmb).
  f_equal. specialize (Hma _ Hb). specialize (Hmb _ Ha). lia.
Qed.
Lemma is_max_unique ds r1 r2 : bk_is_max ds r1 -> bk_is_max ds r2 -> r1 = r2.
Proof.
  unfold bk_is_max. destruct ds; [congruence|]. intros (a & -> & Ha & Hma) (b & -> & Hb & Hmb).
  f_equal. specialize (Hma _ Hb). specialize (Hmb _ Ha). lia.
Qed.

(* ---- cells *)
Section Cells.
  Context {T : Type} (OP : ops T).
  Lemma min_cell (a : area T) pts data r c : 1 <= width a -> 0 <= c < width a -> 0 <= r < height a -> bk_finite data ->
    bk_is_min (bk_cell_data OP a r c pts data) (bk_get_min (bk_size a) (bk_idxs OP a pts) data (r * width a + c)).
  Proof.
    intros Hw Hc Hr Hf. rewrite <- (members_cell_data OP a r c pts data Hw Hc Hr).
    apply get_min_members; [apply cell_index_range|]; assumption.
  Qed.
  Lemma max_cell (a : area T) pts data r c : 1 <= width a -> 0 <= c < width a -> 0 <= r < height a -> bk_finite data ->
    bk_is_max (bk_cell_data OP a r c pts data) (bk_get_max (bk_size a) (bk_idxs OP a pts) data (r * width a + c)).
  Proof.
    intros Hw Hc Hr Hf. rewrite <- (members_cell_data OP a r c pts data Hw Hc Hr).
    apply get_max_members; [apply cell_index_range|]; assumption.
  Qed.
  Lemma absmax_cell (a : area T) pts data r c : 1 <= width a -> 0 <= c < width a -> 0 <= r < height a -> bk_finite data ->
    bk_is_absmax (bk_cell_data OP a r c pts data) (bk_get_abs_max (bk_size a) (bk_idxs OP a pts) data (r * width a + c)).
  Proof.
    intros Hw Hc Hr Hf. rewrite <- (members_cell_data OP a r c pts data Hw Hc Hr).
    apply get_abs_max_members; [apply cell_index_range|]; assumption.
  Qed.
End Cells.
