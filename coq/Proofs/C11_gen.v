(* C11: the hand model of the AreaSlicer arithmetic IS the code: characterisation of the definitions regenerated from
   slicer.AreaSlicer._sanitize_polygon_bounds and _create_slices_from_bounds (Gen/GenC11.v), for every arithmetic. *)
From Coq Require Import ZArith Bool List.
From PR Require Import Base.Num Base.Slice Model.Grid Model.CropBase Model.Crop Gen.GenSubset.
From PR Require Import Gen.GenC11.
Section L.
  Context {T : Type} (OP : ops T).
  Lemma gen_create_char xb yb :
    gen_create_slices_from_bounds OP (xb, yb) = (gen_expand_slice (raw_slice OP xb), gen_expand_slice (raw_slice OP yb)).
  Proof. destruct xb, yb. reflexivity. Qed.
  Lemma gen_sanitize_char a b :
    gen_sanitize_polygon_bounds OP a b =
      (if all_outside OP a (fst (bounds_to_arr OP a b)) (snd (bounds_to_arr OP a b)) then None else Some (bounds_to_arr OP a b)).
  Proof.
    destruct b as [[[minx miny] maxx] maxy].
    (* portfolio: syntactic identity, else (e.g. the tests of the `or` chain reordered) case analysis on the comparisons *)
    first [ reflexivity
          | unfold gen_sanitize_polygon_bounds, all_outside, bounds_to_arr, acoords2, crop_area, ashape; cbn [fst snd];
            repeat match goal with
                   | |- context [ltb OP ?x ?y] => destruct (ltb OP x y)
                   | |- context [leb OP ?x ?y] => destruct (leb OP x y)
                   end; reflexivity ].
  Qed.
  Definition crop_gen (valid inter : bool) (a : area T) (b : T * T * T * T) : cres :=
    if negb valid then NoOverlap 1 else if negb inter then NoOverlap 2 else
    match gen_sanitize_polygon_bounds OP a b with
    | None => NoOverlap 3
    | Some (xb, yb) =>
        if isfinite OP (lo_of OP xb) && isfinite OP (amax OP xb) && isfinite OP (lo_of OP yb) && isfinite OP (amax OP yb)
        then let '(sx, sy) := gen_create_slices_from_bounds OP (xb, yb) in Slices sx sy else NoOverlap 4
    end.
  Lemma crop_slices_is_generated valid inter a b : crop_slices OP valid inter a b = crop_gen valid inter a b.
  Proof.
    unfold crop_slices, crop_gen. rewrite gen_sanitize_char.
    destruct valid, inter; cbn [negb]; try reflexivity.
    destruct (bounds_to_arr OP a b) as [xb yb]. cbn [fst snd].
    destruct (all_outside OP a xb yb); [reflexivity|].
    unfold create_slices. rewrite gen_create_char. reflexivity.
  Qed.
End L.
