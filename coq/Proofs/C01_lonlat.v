(* C01 -- lon/lat accessors: agreement and round trips, for ANY oracles standing for PROJ that satisfy the
   named hypotheses.  The code reaches PROJ by two routes: the Transformer without datum shift (invT: get_lonlats,
   get_lonlat, _invproj, Proj_MP) and Proj(self.crs) (invP / fwdP: colrow2lonlat and the get_*_from_* family). *)
From Coq Require Import Reals ZArith List Lia Lra Bool.
From PR Require Import Base.Num Base.RNum Model.Grid Model.C01_Area Proofs.Grid_real Proofs.C01_grid Proofs.C01_index.
Import ListNotations.
Open Scope R_scope.

Section LonLat.
  Variables invT invP fwdP : R * R -> R * R.
  Variable dom : R * R -> Prop.                    (* the part of the projection plane where the CRS is invertible *)
  Variable a : area R.

  Definition c01_H_roundtrip : Prop := forall p, dom p -> fwdP (invP p) = p.     (* proj o invproj = id on the domain *)
  Definition c01_H_same : Prop := forall p, dom p -> invT p = invP p.            (* both inverse routes agree *)
  Definition c01_H_dom : Prop := forall c r, (0 <= c < width a)%Z -> (0 <= r < height a)%Z -> dom (proj_x RO a c, proj_y RO a r).

  Lemma c01_proj_of_arr_int_x c : proj_of_arr_x RO a (IZR c) = proj_x RO a c. Proof. reflexivity. Qed.
  Lemma c01_proj_of_arr_int_y r : proj_of_arr_y RO a (IZR r) = proj_y RO a r. Proof. reflexivity. Qed.

  Lemma c01_lonlat_roundtrip : wf_area a -> c01_H_roundtrip -> c01_H_same -> c01_H_dom ->
    forall c r, (0 <= c < width a)%Z -> (0 <= r < height a)%Z ->
      let ll := c01_get_lonlat RO invT a r c in
      (* every single-pixel lon/lat accessor returns the same point *)
      c01_colrow2lonlat RO invP a c r = ll /\
      c01_lonlat_from_arr RO invP a (IZR c) (IZR r) = ll /\
      c01_lonlat_from_proj invP (proj_x RO a c) (proj_y RO a r) = ll /\
      (* ... which is entry (r, c) of the lon/lat arrays, whole, sliced or dask-chunked *)
      (forall rch cch rows cols i j,
         Forall (fun x => (0 <= x)%Z) rch -> Forall (fun x => (0 <= x)%Z) cch ->
         c01_sumZ rch = height a -> c01_sumZ cch = width a ->
         c01_in_range (height a) rows -> c01_in_range (width a) cols ->
         nth_error rows i = Some r -> nth_error cols j = Some c ->
         (exists row, nth_error (c01_lonlats RO invT a rows cols) i = Some row /\ nth_error row j = Some ll) /\
         (exists row, nth_error (c01_lonlats_dask RO invT a rch cch rows cols) i = Some row /\ nth_error row j = Some ll)) /\
      (* and going back gives the pixel: projection coordinates, fractional indices, integer indices *)
      c01_proj_from_lonlat fwdP (fst ll) (snd ll) = (proj_x RO a c, proj_y RO a r) /\
      c01_arr_from_lonlat RO fwdP a (fst ll) (snd ll) = (IZR c, IZR r) /\
      c01_index_from_lonlat_scalar RO fwdP a (fst ll) (snd ll) = Some (c, r) /\
      c01_index_from_lonlat_array RO fwdP a (fst ll) (snd ll) = (Some c, Some r).
  Proof.
    intros W Hrt Hsame Hdom c r Hc Hr ll.
    pose proof (Hdom c r Hc Hr) as D.
    assert (Ell : ll = invP (proj_x RO a c, proj_y RO a r)) by (unfold ll, c01_get_lonlat; apply Hsame; exact D).
    assert (Efwd : fwdP (fst ll, snd ll) = (proj_x RO a c, proj_y RO a r)).
    { rewrite <- surjective_pairing, Ell. apply Hrt. exact D. }
    assert (Ex : arr_of_proj_x RO a (proj_x RO a c) = IZR c).
    { rewrite <- c01_proj_of_arr_int_x. apply arr_proj_inverse_x; assumption. }
    assert (Ey : arr_of_proj_y RO a (proj_y RO a r) = IZR r).
    { rewrite <- c01_proj_of_arr_int_y. apply arr_proj_inverse_y; assumption. }
    split; [unfold c01_colrow2lonlat; now rewrite Ell|].
    split; [unfold c01_lonlat_from_arr; rewrite c01_proj_of_arr_int_x, c01_proj_of_arr_int_y; now rewrite Ell|].
    split; [unfold c01_lonlat_from_proj; now rewrite Ell|].
    split.
    { intros rch cch rows cols i j Hrc Hcc Sh Sw Hrows Hcols Hi Hj.
      assert (Hh0 : (0 <= height a)%Z) by lia. assert (Hw0 : (0 <= width a)%Z) by lia.
      unfold c01_lonlats, c01_lonlats_dask.
      rewrite c01_coords_dask_fn, c01_coords_numpy_fn by assumption.
      assert (G : exists row, nth_error (map (map invT) (c01_grid_fn RO a rows cols)) i = Some row /\ nth_error row j = Some ll).
      { unfold c01_grid_fn. rewrite map_map.
        exists (map invT (map (fun c0 => (proj_x RO a c0, proj_y RO a r)) cols)). split.
        - rewrite nth_error_map, Hi. reflexivity.
        - rewrite map_map, nth_error_map, Hj. reflexivity. }
      split; exact G. }
    split; [unfold c01_proj_from_lonlat; exact Efwd|].
    split; [unfold c01_arr_from_lonlat; rewrite Efwd, Ex, Ey; reflexivity|].
    split.
    - unfold c01_index_from_lonlat_scalar. rewrite Efwd. apply c01_index_of_centre; assumption.
    - unfold c01_index_from_lonlat_array. rewrite Efwd.
      pose proof (c01_index_of_centre a c r W Hc Hr) as S. unfold c01_index_scalar in S.
      destruct (c01_index_array RO a (proj_x RO a c) (proj_y RO a r)) as [[c'|] [r'|]]; try discriminate.
      injection S as -> ->. reflexivity.
  Qed.
End LonLat.

(* H_same is necessary: oracles with a datum-shift-like offset between the two inverse routes satisfy the round-trip
   hypothesis, yet get_lonlat and colrow2lonlat disagree (what happens on the real code for a Bound CRS). *)
Lemma c01_H_same_needed :
  exists invT invP fwdP a,
    wf_area a /\ c01_H_roundtrip invP fwdP (fun _ => True) /\
    c01_colrow2lonlat RO invP a 0 0 <> c01_get_lonlat RO invT a 0 0.
Proof.
  exists (fun p => (fst p + 1, snd p)), (fun p => p), (fun p => p), (mk_area 0 0 4 2 4%Z 2%Z).
  split; [|split].
  - unfold wf_area; cbn. repeat split; try lia; lra.
  - intros p _. reflexivity.
  - unfold c01_colrow2lonlat, c01_get_lonlat. cbn [fst snd]. intros E. injection E as E. lra.
Qed.
