(* C06 — the hand-written kernels ARE the definitions regenerated from /repo by tools/py2coq.py (Gen/GenC06.v),
   for every arithmetic (so in particular for binary64 and for the real instances the theorems use).
   The equalities are definitional: renaming locals or reordering independent statements in the source keeps them. *)
From Coq Require Import ZArith List Bool.
From PR Require Import Base.Num Model.Bilinear Gen.GenC06.

Section Ties.
Context {T : Type} (OP : ops T).

Lemma gen_find_outside_eq d lo hi : gen_find_outside OP d lo hi = outside OP d lo hi.
Proof. reflexivity. Qed.
Lemma gen_calc_abc_eq (p1 p2 p3 p4 : T * T) oy ox : gen_calc_abc OP (p1, p2, p3, p4) oy ox = calc_abc OP p1 p2 p3 p4 oy ox.
Proof. destruct p1, p2, p3, p4. reflexivity. Qed.
Lemma gen_solve_quadratic_eq a b c lo hi : gen_solve_quadratic OP a b c lo hi = solve_quadratic OP a b c lo hi.
Proof. reflexivity. Qed.
Lemma gen_solve_other_eq f y1 y2 y3 y4 oy : gen_solve_other OP f (y1, y2, y3, y4) oy = solve_other OP f y1 y2 y3 y4 oy.
Proof. reflexivity. Qed.
Lemma gen_frac_parallelogram_eq (p1 p2 p3 : T * T) oy ox :
  gen_frac_parallelogram OP (p1, p2, p3) oy ox = frac_parallelogram OP p1 p2 p3 oy ox.
Proof. destruct p1, p2, p3. reflexivity. Qed.
Lemma gen_resample_eq p1 p2 p3 p4 s t : gen_resample OP (p1, p2, p3, p4) (s, t) = resample OP p1 p2 p3 p4 s t.
Proof. reflexivity. Qed.
Lemma gen_invalid_to_nan_eq t s : gen_invalid_to_nan OP t s = invalid_to_nan OP (t, s).
Proof. reflexivity. Qed.
Lemma gen_frac_irregular_eq (p1 p2 p3 p4 : T * T) oy ox :
  gen_frac_irregular OP (p1, p2, p3, p4) oy ox = frac_irregular OP p1 p2 p3 p4 oy ox.
Proof. destruct p1, p2, p3, p4. reflexivity. Qed.
Lemma gen_frac_uprights_eq (p1 p2 p3 p4 : T * T) oy ox :
  gen_frac_uprights OP (p1, p2, p3, p4) oy ox = frac_uprights OP p1 p2 p3 p4 oy ox.
Proof. destruct p1, p2, p3, p4. reflexivity. Qed.
End Ties.
