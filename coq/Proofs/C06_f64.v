(* C06 — binary64 witnesses (vm_compute on the F64 instance of the same model): what the real-number theorems do
   NOT cover.  Each witness is replayed on the implementation by the harness (known findings). *)
From Coq Require Import ZArith List Bool PrimFloat.
From PR Require Import Base.Num Base.F64 Model.Bilinear.
Import ListNotations.

Definition bilerp64 (v1 v2 v3 v4 s t : float) : float := resample F64 v1 v2 v3 v4 s t.
Definition in01_64 (x : float) : bool := PrimFloat.leb 0 x && PrimFloat.leb x 1.

(* near-parallel sides (a laea 10 km grid resampled to the same projection): the corners surround the target,
   the code returns s = 0, t = 0.49999925 in [0,1], yet bilerp(corners; s, t) misses the target by more than 9000 m
   (true s is 0.9): cancellation in (-b + sqrt(D)) / (2a) with |a| ~ 1e-4, |b| ~ 1e8 *)
Definition wit_p1 := (0x1.d4c15ffffffefp+13, 0x1.4c080466666abp+16)%float.
Definition wit_p2 := (0x1.86a0d00000005p+14, 0x1.4c080466666b2p+16)%float.
Definition wit_p3 := (0x1.d4c15ffffffe9p+13, 0x1.24f8020000033p+16)%float.
Definition wit_p4 := (0x1.86a0cfffffffdp+14, 0x1.24f802000003ap+16)%float.
Definition wit_ox := 0x1.7701c6a7ef9e0p+14%float.
Definition wit_oy := 0x1.3880051eb851fp+16%float.

Lemma float_inverse_refuted :
  let '(t, s) := fractional_distances F64 wit_p1 wit_p2 wit_p3 wit_p4 wit_ox wit_oy in
  (* the corners surround the target *)
  (PrimFloat.ltb (fst wit_p1) wit_ox && PrimFloat.ltb wit_oy (snd wit_p1) && PrimFloat.ltb wit_ox (fst wit_p2) && PrimFloat.ltb wit_oy (snd wit_p2)
   && PrimFloat.ltb (fst wit_p3) wit_ox && PrimFloat.ltb (snd wit_p3) wit_oy && PrimFloat.ltb wit_ox (fst wit_p4) && PrimFloat.ltb (snd wit_p4) wit_oy
   (* (t, s) is accepted *)
   && in01_64 t && in01_64 s
   (* and does not solve the inverse: |bilerp_x - out_x| > 9000 *)
   && PrimFloat.ltb 9000 (PrimFloat.abs (PrimFloat.sub (bilerp64 (fst wit_p1) (fst wit_p2) (fst wit_p3) (fst wit_p4) s t) wit_ox)))%bool
  = true.
Proof. vm_compute. reflexivity. Qed.

(* the parallelogram case with slanted uprights, on exactly representable numbers: (t, s) = (0.5, 0.625) where the
   inverse is (0.5, 0.375) *)
Lemma parallelogram_slanted_f64 :
  frac_parallelogram F64 (0, 2)%float (4, 2)%float (1, 0)%float 1%float 2%float = (0.5, 0.625)%float.
Proof. vm_compute. reflexivity. Qed.

(* a missing corner does not stop a value: with no neighbour in the lower-right quadrant the general and the
   uprights-parallel case give NaN (corner 4 is NaN), but the parallelogram case only looks at three corners; the
   fourth weight (s t) then multiplies the datum of the FIRST neighbour (argmax of an all-False row is 0) *)
Definition miss_l : list (float * float * Z) := [((-1)%float, 1%float, 10%Z); (1%float, 1%float, 11%Z); ((-1)%float, (-1)%float, 12%Z)].
Definition miss_data (i : Z) : float := if Z.eqb i 10 then 100%float else if Z.eqb i 11 then 200%float else if Z.eqb i 12 then 300%float else PrimFloat.nan.
Lemma value_with_missing_corner_f64 :
  found_corners F64 0%float 0%float miss_l = None /\
  nb_i (corner F64 LR 0%float 0%float miss_l) = 10%Z /\
  fractional_distances F64 (-1, 1)%float (1, 1)%float (-1, -1)%float (PrimFloat.nan, PrimFloat.nan) 0%float 0%float = (0.5, 0.5)%float /\
  pixel F64 miss_data miss_l 0%float 0%float = 175%float.
Proof. vm_compute. repeat split; reflexivity. Qed.
