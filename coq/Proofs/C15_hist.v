(* C15: histories of calls on one cKDTree_MP / Proj_MP object. *)
From Coq Require Import ZArith List Lia Bool Arith.
From PR Require Import Model.Sched Proofs.C15_inv Proofs.C15_array.
Import ListNotations.
Open Scope Z_scope.

(* one call: configuration (n = number of rows of THIS call), number of workers, interleaving, row function *)
Definition call (V : Type) := (cfg * nat * list nat * (Z -> V))%type.
Definition call_ok {V} (k : call V) : Prop :=
  let '(c, nw, sched, _) := k in wf c /\ (1 <= nw)%nat /\ workers_below nw sched /\ all_done nw (run c sched).
Definition call_mp {V} (d : V) (k : call V) : list V :=
  let '(c, _, sched, f) := k in result_array f d (n c) (wdone (run c sched)).
Definition call_sp {V} (k : call V) : list V := let '(c, _, _, f) := k in single_process f (n c).

(* a fresh scheduler per call: every call of the history returns the single-process result *)
Lemma fresh_per_call {V} (d : V) (calls : list (call V)) :
  Forall call_ok calls -> map (call_mp d) calls = map call_sp calls.
Proof.
  induction 1 as [|[[[c nw] sched] f] r (Hwf & Hnw & Hb & Hd) _ IH]; cbn; [reflexivity|].
  rewrite IH. f_equal. exact (mp_equals_sp f d c nw sched Hwf Hnw Hb Hd).
Qed.

(* a scheduler whose counter is exhausted hands out nothing, under any interleaving *)
Definition Spent (s : state) : Prop :=
  ndata s = 0 /\ out s = [] /\ wdone s = [] /\
  forall w, match pcs s w with
            | PIdle | PLocked | PDone => True
            | PReadN nd => nd = 0
            | PReadS nd _ => nd = 0
            | _ => False
            end.

Lemma spent_step c s w : Spent s -> Spent (step c s w).
Proof.
  intros (Hn & Ho & Hw & Hp). pose proof (Hp w) as Hpw. unfold step, set_pc.
  destruct (pcs s w) eqn:Epc; try contradiction.
  - destruct (lock s); [repeat split; assumption|]. repeat split; cbn; try assumption.
    intros v. unfold upd. destruct (Nat.eqb v w); [exact I|apply Hp].
  - repeat split; cbn; try assumption.
    intros v. unfold upd. destruct (Nat.eqb v w); [exact Hn|apply Hp].
  - repeat split; cbn; try assumption.
    intros v. unfold upd. destruct (Nat.eqb v w); [exact Hpw|apply Hp].
  - subst nd. cbn. repeat split; cbn; try assumption.
    intros v. unfold upd. destruct (Nat.eqb v w); [exact I|apply Hp].
  - repeat split; assumption.
Qed.

Lemma spent_recycle s : ndata s = 0 -> Spent (recycle s).
Proof. intros H. unfold Spent, recycle; cbn. repeat split; try assumption. Qed.

Lemma reused_hands_out_nothing c s sched : ndata s = 0 ->
  slices (run_from c (recycle s) sched) = [] /\ wdone (run_from c (recycle s) sched) = [].
Proof.
  intros H. assert (Hs : Spent (run_from c (recycle s) sched)).
  { unfold run_from. generalize (spent_recycle s H). generalize (recycle s).
    induction sched as [|w sched IH]; cbn; intros t Ht; [exact Ht|]. apply IH. apply spent_step. exact Ht. }
  destruct Hs as (_ & Ho & Hw & _). unfold slices. rewrite Ho, Hw. split; reflexivity.
Qed.

(* ---------- results kept by the caller across later calls (aliasing) ---------- *)
(* copy semantics (`return _res.copy()`): call j hands out its own buffer j, written by call j only; what the caller reads
   from the handle of call j after the whole history: *)
Definition history_copy {V} (d : V) (calls : list (call V)) : list (list V) := map (call_mp d) calls.

Lemma kept_results_copy {V} (d : V) (calls : list (call V)) : Forall call_ok calls ->
  forall j k, nth_error calls j = Some k -> nth_error (history_copy d calls) j = Some (call_sp k).
Proof.
  intros Hok j k Hj. unfold history_copy. rewrite (fresh_per_call d calls Hok).
  rewrite nth_error_map, Hj. reflexivity.
Qed.

(* the alternative: result buffers cached on the object per number of rows and handed out as views; the handle of call j
   is the key n_j, every call with that key writes the same buffer *)
Definition buffers (V : Type) := Z -> option (list V).
Definition history_cached {V} (d : V) (calls : list (call V)) : buffers V :=
  fold_left (fun (st : buffers V) (k : call V) =>
               let '(c, _, _, _) := k in fun key => if key =? n c then Some (call_mp d k) else st key)
            calls (fun _ => None).
Definition handle {V} (k : call V) : Z := let '(c, _, _, _) := k in n c.
