(* C19: _merge_unions computes the connected components of the overlap graph, independently of
   the input order.  Statement in Proofs/C19_unions_spec.v, model in Model/Unions.v. *)
From Coq Require Import ZArith List Lia Bool Permutation Relations.
From PR Require Import Model.Unions Proofs.C19_unions_spec.
Import ListNotations.

(* ---------- generic list facts ---------- *)
Lemma NoDup_app_disj : forall (A : Type) (a b : list A) (i : A),
  NoDup (a ++ b) -> In i a -> In i b -> False.
Proof.
  induction a as [|h t IH]; intros b i Hnd Ha Hb; simpl in *.
  - contradiction.
  - inversion Hnd as [|? ? Hnin Hnd']; subst.
    destruct Ha as [->|Ha].
    + apply Hnin. apply in_or_app. right. exact Hb.
    + eapply IH; eauto.
Qed.

Lemma NoDup_app_r : forall (A : Type) (a b : list A), NoDup (a ++ b) -> NoDup b.
Proof.
  induction a as [|h t IH]; intros b Hnd; simpl in *.
  - exact Hnd.
  - inversion Hnd; subst. apply IH. assumption.
Qed.

(* ---------- keys ---------- *)
Lemma flat_nonempty : forall k, exists i, In i (flat k).
Proof.
  induction k as [i|a [i Hi] b _]; simpl.
  - exists i. left. reflexivity.
  - exists i. apply in_or_app. left. exact Hi.
Qed.

Lemma key_eqb_true : forall a b, key_eqb a b = true -> a = b.
Proof.
  induction a as [i|a1 IH1 a2 IH2]; destruct b as [j|b1 b2]; simpl; intro H; try discriminate.
  - apply Nat.eqb_eq in H. subst. reflexivity.
  - apply andb_true_iff in H. destruct H as [H1 H2]. f_equal; auto.
Qed.

Lemma key_eqb_refl : forall a, key_eqb a a = true.
Proof.
  induction a as [i|a1 IH1 a2 IH2]; simpl.
  - apply Nat.eqb_refl.
  - rewrite IH1, IH2. reflexivity.
Qed.

Section Proof.
  Context {G : Type} (overlaps : G -> G -> bool) (union : G -> G -> G).
  Notation entry := (@entry G).

  Lemma members_pair : forall (x y : entry) (g : G),
    members (KPair (fst x) (fst y), g) = members x ++ members y.
  Proof. reflexivity. Qed.

  Lemma in_members_concat : forall (l : list entry) e i,
    In e l -> In i (members e) -> In i (concat (map members l)).
  Proof.
    intros l e i He Hi. apply in_concat. exists (members e). split; [apply in_map; exact He|exact Hi].
  Qed.

  Lemma perm_concat_members : forall l l' : list entry,
    Permutation l l' -> Permutation (concat (map members l)) (concat (map members l')).
  Proof.
    induction 1 as [|a l l' HP IH|a b l|l l' l'' HP1 IH1 HP2 IH2]; simpl.
    - constructor.
    - apply Permutation_app_head. exact IH.
    - rewrite !app_assoc. apply Permutation_app_tail. apply Permutation_app_comm.
    - eapply perm_trans; eauto.
  Qed.

  (* with disjoint member lists an index determines its entry *)
  Lemma entry_unique : forall (l : list entry) e e' i,
    NoDup (concat (map members l)) -> In e l -> In e' l ->
    In i (members e) -> In i (members e') -> e = e'.
  Proof.
    induction l as [|a l IH]; intros e e' i Hnd He He' Hi Hi'; simpl in *.
    - contradiction.
    - destruct He as [<-|He]; destruct He' as [<-|He'].
      + reflexivity.
      + exfalso. eapply NoDup_app_disj; [exact Hnd|exact Hi|]. eapply in_members_concat; eauto.
      + exfalso. eapply NoDup_app_disj; [exact Hnd|exact Hi'|]. eapply in_members_concat; eauto.
      + eapply IH; eauto. eapply NoDup_app_r; eauto.
  Qed.

  (* ---------- remove_key ---------- *)
  Lemma remove_key_cons : forall k (a : entry) l,
    remove_key k (a :: l) = if key_eqb (fst a) k then remove_key k l else a :: remove_key k l.
  Proof. intros k a l. unfold remove_key. simpl. destruct (key_eqb (fst a) k); reflexivity. Qed.

  Lemma remove_key_In : forall k (l : list entry) e, In e (remove_key k l) -> In e l.
  Proof. intros k l e H. unfold remove_key in H. apply filter_In in H. tauto. Qed.

  Lemma remove_key_keep : forall k (l : list entry) e, In e l -> fst e <> k -> In e (remove_key k l).
  Proof.
    intros k l e H Hk. unfold remove_key. apply filter_In. split; [exact H|].
    destruct (key_eqb (fst e) k) eqn:E; [|reflexivity].
    apply key_eqb_true in E. contradiction.
  Qed.

  Lemma remove_key_notin : forall k (l : list entry),
    (forall e, In e l -> fst e <> k) -> remove_key k l = l.
  Proof.
    induction l as [|a l IH]; intros H.
    - reflexivity.
    - rewrite remove_key_cons. destruct (key_eqb (fst a) k) eqn:E.
      + apply key_eqb_true in E. exfalso. apply (H a); [left; reflexivity|exact E].
      + f_equal. apply IH. intros e He. apply H. right. exact He.
  Qed.

  (* keys are distinct when member lists are disjoint, so remove_key deletes exactly one entry *)
  Lemma remove_key_perm : forall (l : list entry) x,
    NoDup (concat (map members l)) -> In x l -> Permutation l (x :: remove_key (fst x) l).
  Proof.
    induction l as [|a l IH]; intros x Hnd Hx.
    - contradiction.
    - simpl in Hnd. rewrite remove_key_cons.
      destruct (key_eqb (fst a) (fst x)) eqn:E.
      + apply key_eqb_true in E.
        assert (Hax : a = x).
        { destruct Hx as [Hx|Hx]; [exact Hx|]. exfalso.
          destruct (flat_nonempty (fst a)) as [i Hi].
          eapply NoDup_app_disj; [exact Hnd|exact Hi|].
          eapply in_members_concat; [exact Hx|]. unfold members. rewrite <- E. exact Hi. }
        subst a. rewrite remove_key_notin; [apply Permutation_refl|].
        intros e He Hk. destruct (flat_nonempty (fst e)) as [i Hi].
        eapply NoDup_app_disj; [exact Hnd| |eapply in_members_concat; [exact He|exact Hi]].
        unfold members. rewrite <- Hk. exact Hi.
      + destruct Hx as [Hx|Hx].
        * subst a. rewrite key_eqb_refl in E. discriminate.
        * eapply perm_trans; [apply perm_skip; apply IH; [eapply NoDup_app_r; exact Hnd|exact Hx]|].
          apply perm_swap.
  Qed.

  (* ---------- find_pair ---------- *)
  Lemma find_with_some : forall (x : entry) l y,
    find_with overlaps x l = Some y -> In y l /\ overlaps (snd x) (snd y) = true.
  Proof.
    induction l as [|a l IH]; intros y H; simpl in H.
    - discriminate.
    - destruct (overlaps (snd x) (snd a)) eqn:E.
      + inversion H; subst. split; [left; reflexivity|exact E].
      + destruct (IH y H) as [H1 H2]. split; [right; exact H1|exact H2].
  Qed.

  Lemma find_with_none : forall (x : entry) l,
    find_with overlaps x l = None -> forall y, In y l -> overlaps (snd x) (snd y) = false.
  Proof.
    induction l as [|a l IH]; intros H y Hy; simpl in *.
    - contradiction.
    - destruct (overlaps (snd x) (snd a)) eqn:E; [discriminate|].
      destruct Hy as [<-|Hy]; [exact E|apply IH; assumption].
  Qed.

  Lemma find_pair_some : forall (l : list entry) x y,
    find_pair overlaps l = Some (x, y) ->
    exists l1 l2, l = l1 ++ x :: l2 /\ In y l2 /\ overlaps (snd x) (snd y) = true.
  Proof.
    induction l as [|a l IH]; intros x y H; simpl in H.
    - discriminate.
    - destruct (find_with overlaps a l) as [y'|] eqn:E.
      + inversion H; subst. apply find_with_some in E. destruct E as [E1 E2].
        exists [], l. split; [reflexivity|]. split; assumption.
      + destruct (IH x y H) as (l1 & l2 & Hl & Hy & Hov).
        exists (a :: l1), l2. split; [rewrite Hl; reflexivity|]. split; assumption.
  Qed.

  Lemma find_pair_none_eq :
    (forall a b, overlaps a b = overlaps b a) ->
    forall l : list entry, find_pair overlaps l = None ->
    forall e e', In e l -> In e' l -> overlaps (snd e) (snd e') = true -> e = e'.
  Proof.
    intros Hsym. induction l as [|a l IH]; intros Hfp e e' He He' Hov; simpl in *.
    - contradiction.
    - destruct (find_with overlaps a l) as [y'|] eqn:E; [discriminate|].
      pose proof (find_with_none _ _ E) as Hn.
      destruct He as [<-|He]; destruct He' as [<-|He'].
      + reflexivity.
      + rewrite (Hn _ He') in Hov. discriminate.
      + rewrite Hsym in Hov. rewrite (Hn _ He) in Hov. discriminate.
      + apply IH; assumption.
  Qed.

  Lemma find_pair_short : forall l : list entry, length l <= 1 -> find_pair overlaps l = None.
  Proof.
    intros [|a [|b l]] H; simpl in *; try reflexivity. lia.
  Qed.

  (* ---------- initial entries ---------- *)
  Lemma init_members_gen : forall (gs : list G) s,
    concat (map members (combine (map KInt (seq s (length gs))) gs)) = seq s (length gs).
  Proof.
    induction gs as [|g gs IH]; intros s; simpl.
    - reflexivity.
    - unfold members at 1. simpl. f_equal. apply IH.
  Qed.

  Lemma init_in_gen : forall (gs : list G) s (e : entry),
    In e (combine (map KInt (seq s (length gs))) gs) ->
    exists i, fst e = KInt (s + i) /\ nth_error gs i = Some (snd e).
  Proof.
    induction gs as [|g gs IH]; intros s e H; simpl in H.
    - contradiction.
    - destruct H as [<-|H].
      + exists 0. simpl. split; [f_equal; lia|reflexivity].
      + destruct (IH (S s) e H) as (i & H1 & H2).
        exists (S i). split; [rewrite H1; f_equal; lia|exact H2].
  Qed.

  (* ---------- the invariant ---------- *)
  Section Inv.
    Variable gs : list G.
    Hypothesis Hgeom : geom_ok overlaps union.

    Definition fo (c : G) (i : nat) : bool :=
      match nth_error gs i with Some g => overlaps g c | None => false end.

    Definition Inv (l : list entry) : Prop :=
      Permutation (concat (map members l)) (seq 0 (length gs)) /\
      (forall e c, In e l -> overlaps (snd e) c = existsb (fo c) (members e)) /\
      (forall e i j, In e l -> In i (members e) -> In j (members e) -> conn overlaps gs i j).

    Lemma Inv_NoDup : forall l, Inv l -> NoDup (concat (map members l)).
    Proof.
      intros l (I1 & _). eapply Permutation_NoDup; [apply Permutation_sym; exact I1|apply seq_NoDup].
    Qed.

    Lemma Inv_covered : forall l i, Inv l -> i < length gs -> exists e, In e l /\ In i (members e).
    Proof.
      intros l i (I1 & _) Hi.
      assert (H : In i (concat (map members l))).
      { eapply Permutation_in; [apply Permutation_sym; exact I1|]. apply in_seq. lia. }
      apply in_concat in H. destruct H as (m & Hm & Him).
      apply in_map_iff in Hm. destruct Hm as (e & <- & He). exists e. split; assumption.
    Qed.

    Lemma Inv_init : Inv (init_entries gs).
    Proof.
      unfold init_entries. split; [|split].
      - rewrite init_members_gen. apply Permutation_refl.
      - intros e c He. destruct (init_in_gen gs 0 e He) as (i & H1 & H2).
        unfold members. rewrite H1. simpl. unfold fo. rewrite H2. rewrite orb_false_r. reflexivity.
      - intros e i j He Hi Hj. destruct (init_in_gen gs 0 e He) as (k & H1 & H2).
        unfold members in Hi, Hj. rewrite H1 in Hi, Hj. simpl in Hi, Hj.
        destruct Hi as [<-|[]]. destruct Hj as [<-|[]]. apply rst_refl.
    Qed.

    (* two overlapping entries contain two overlapping inputs *)
    Lemma overlap_bridge : forall x y : entry,
      (forall c, overlaps (snd x) c = existsb (fo c) (members x)) ->
      (forall c, overlaps (snd y) c = existsb (fo c) (members y)) ->
      overlaps (snd x) (snd y) = true ->
      exists i j, In i (members x) /\ In j (members y) /\ ov overlaps gs i j.
    Proof.
      intros x y Hx Hy Hov. destruct Hgeom as [Hsym _].
      rewrite Hx in Hov. apply existsb_exists in Hov. destruct Hov as (i & Hi & Hf).
      unfold fo in Hf. destruct (nth_error gs i) as [a|] eqn:Ei; [|discriminate].
      rewrite Hsym in Hf. rewrite Hy in Hf. apply existsb_exists in Hf. destruct Hf as (j & Hj & Hf).
      unfold fo in Hf. destruct (nth_error gs j) as [b|] eqn:Ej; [|discriminate].
      exists i, j. split; [exact Hi|]. split; [exact Hj|].
      exists a, b. split; [exact Ei|]. split; [exact Ej|]. rewrite Hsym. exact Hf.
    Qed.

    Lemma merge_step_inv : forall l l',
      Inv l -> merge_step overlaps union l = Some l' -> Inv l' /\ S (length l') = length l.
    Proof.
      intros l l' HI Hstep. pose proof (Inv_NoDup l HI) as Hnd. destruct HI as (I1 & I2 & I3).
      unfold merge_step in Hstep.
      destruct (find_pair overlaps l) as [[x y]|] eqn:Hfp; [|discriminate].
      inversion Hstep as [Hl']; clear Hstep.
      destruct (find_pair_some _ _ _ Hfp) as (l1 & l2 & Hl & Hy & Hov).
      assert (Hx : In x l) by (rewrite Hl; apply in_or_app; right; left; reflexivity).
      assert (Hyl : In y l) by (rewrite Hl; apply in_or_app; right; right; exact Hy).
      assert (Hxy : fst y <> fst x).
      { intro E. destruct (flat_nonempty (fst x)) as [i Hi].
        rewrite Hl in Hnd. rewrite map_app, concat_app in Hnd. apply NoDup_app_r in Hnd. simpl in Hnd.
        eapply NoDup_app_disj; [exact Hnd|exact Hi|].
        eapply in_members_concat; [exact Hy|]. unfold members. rewrite E. exact Hi. }
      pose proof (remove_key_perm l x Hnd Hx) as P1.
      remember (remove_key (fst x) l) as R1 eqn:ER1.
      assert (Hnd1 : NoDup (concat (map members R1))).
      { assert (H : NoDup (concat (map members (x :: R1)))).
        { eapply Permutation_NoDup; [apply perm_concat_members; exact P1|exact Hnd]. }
        simpl in H. eapply NoDup_app_r; exact H. }
      assert (Hy1 : In y R1) by (rewrite ER1; apply remove_key_keep; assumption).
      pose proof (remove_key_perm R1 y Hnd1 Hy1) as P2.
      remember (remove_key (fst y) R1) as R2 eqn:ER2.
      assert (P : Permutation l (x :: y :: R2)).
      { eapply perm_trans; [exact P1|apply perm_skip; exact P2]. }
      assert (HR2 : forall e, In e R2 -> In e l).
      { intros e He. rewrite ER2 in He. apply remove_key_In in He.
        rewrite ER1 in He. apply remove_key_In in He. exact He. }
      assert (Hcross : forall a b, In a (members x) -> In b (members y) -> conn overlaps gs a b).
      { intros a b Ha Hb.
        destruct (overlap_bridge x y (fun c => I2 x c Hx) (fun c => I2 y c Hyl) Hov)
          as (i & j & Hi & Hj & Hij).
        apply rst_trans with i; [apply (I3 x); assumption|].
        apply rst_trans with j; [apply rst_step; exact Hij|apply (I3 y); assumption]. }
      split.
      - split; [|split].
        + rewrite map_app, concat_app. simpl. rewrite members_pair, app_nil_r.
          eapply perm_trans; [|exact I1].
          eapply perm_trans; [|apply Permutation_sym; apply perm_concat_members; exact P].
          simpl. rewrite (app_assoc (members x)). apply Permutation_app_comm.
        + intros e c He. apply in_app_or in He. destruct He as [He|He].
          * apply I2. apply HR2. exact He.
          * simpl in He. destruct He as [<-|[]].
            rewrite members_pair, existsb_app. cbn [snd].
            destruct Hgeom as [_ Hun]. rewrite Hun.
            rewrite (I2 x c Hx), (I2 y c Hyl). reflexivity.
        + intros e i j He Hi Hj. apply in_app_or in He. destruct He as [He|He].
          * apply (I3 e); [apply HR2; exact He|exact Hi|exact Hj].
          * simpl in He. destruct He as [<-|[]].
            rewrite members_pair in Hi, Hj.
            apply in_app_or in Hi. apply in_app_or in Hj.
            destruct Hi as [Hi|Hi]; destruct Hj as [Hj|Hj].
            -- apply (I3 x); assumption.
            -- apply Hcross; assumption.
            -- apply rst_sym. apply Hcross; assumption.
            -- apply (I3 y); assumption.
      - apply Permutation_length in P. rewrite app_length. simpl in *. lia.
    Qed.

    Lemma merge_loop_inv : forall fuel l, Inv l -> Inv (merge_loop overlaps union fuel l).
    Proof.
      induction fuel as [|f IH]; intros l HI; simpl.
      - exact HI.
      - destruct (merge_step overlaps union l) as [l'|] eqn:E; [|exact HI].
        apply IH. eapply merge_step_inv; eauto.
    Qed.

    Lemma merge_step_none : forall l : list entry,
      merge_step overlaps union l = None -> find_pair overlaps l = None.
    Proof.
      intros l H. unfold merge_step in H.
      destruct (find_pair overlaps l) as [[x y]|]; [discriminate|reflexivity].
    Qed.

    (* every round shortens the list by one: fuel [length gs] is enough to reach the fixpoint *)
    Lemma merge_loop_done : forall fuel l,
      Inv l -> length l <= S fuel -> find_pair overlaps (merge_loop overlaps union fuel l) = None.
    Proof.
      induction fuel as [|f IH]; intros l HI Hlen; simpl.
      - apply find_pair_short. exact Hlen.
      - destruct (merge_step overlaps union l) as [l'|] eqn:E.
        + destruct (merge_step_inv l l' HI E) as [HI' Hl']. apply IH; [exact HI'|lia].
        + apply merge_step_none. exact E.
    Qed.

    (* at the fixpoint, membership in an entry is invariant along overlap edges *)
    Lemma ov_members : forall l, Inv l -> find_pair overlaps l = None ->
      forall i j, ov overlaps gs i j -> forall e, In e l -> In i (members e) -> In j (members e).
    Proof.
      intros l HI Hfp i j (a & b & Ea & Eb & Hab) e He Hie.
      pose proof HI as (I1 & I2 & I3). destruct Hgeom as [Hsym _].
      assert (Hj : j < length gs) by (apply nth_error_Some; rewrite Eb; discriminate).
      destruct (Inv_covered l j HI Hj) as (ej & Hej & Hjej).
      assert (Hov : overlaps (snd e) (snd ej) = true).
      { rewrite (I2 e _ He). apply existsb_exists. exists i. split; [exact Hie|].
        unfold fo. rewrite Ea. rewrite Hsym. rewrite (I2 ej _ Hej).
        apply existsb_exists. exists j. split; [exact Hjej|].
        unfold fo. rewrite Eb. rewrite Hsym. exact Hab. }
      rewrite (find_pair_none_eq Hsym l Hfp e ej He Hej Hov). exact Hjej.
    Qed.

    Lemma ov_sym : forall i j, ov overlaps gs i j -> ov overlaps gs j i.
    Proof.
      intros i j (a & b & Ea & Eb & Hab). destruct Hgeom as [Hsym _].
      exists b, a. split; [exact Eb|]. split; [exact Ea|]. rewrite Hsym. exact Hab.
    Qed.

    Lemma conn_members : forall l, Inv l -> find_pair overlaps l = None ->
      forall i j, conn overlaps gs i j -> forall e, In e l -> (In i (members e) <-> In j (members e)).
    Proof.
      intros l HI Hfp i j Hc. unfold conn in Hc.
      induction Hc as [x y Hxy|x|x y Hxy IH|x y z Hxy IH1 Hyz IH2]; intros e He.
      - split; intro H.
        + eapply ov_members; eauto.
        + eapply ov_members; [exact HI|exact Hfp|apply ov_sym; exact Hxy|exact He|exact H].
      - tauto.
      - specialize (IH e He). tauto.
      - specialize (IH1 e He). specialize (IH2 e He). tauto.
    Qed.

    Lemma Inv_final : forall l, Inv l -> find_pair overlaps l = None -> merge_correct overlaps gs l.
    Proof.
      intros l HI Hfp. pose proof HI as (I1 & I2 & I3).
      split; [exact I1|]. split; [exact Hfp|]. split; [|exact I2].
      intros i j Hi Hj. split.
      - intros (e & He & Hie & Hje). apply (I3 e); assumption.
      - intros Hc. destruct (Inv_covered l i HI Hi) as (e & He & Hie).
        exists e. split; [exact He|]. split; [exact Hie|].
        apply (conn_members l HI Hfp i j Hc e He). exact Hie.
    Qed.

    Lemma merge_is_components_gs :
      merge_correct overlaps gs (merge_loop overlaps union (length gs) (init_entries gs)).
    Proof.
      apply Inv_final.
      - apply merge_loop_inv. apply Inv_init.
      - apply merge_loop_done; [apply Inv_init|].
        pose proof Inv_init as (I1 & _). apply Permutation_length in I1.
        rewrite seq_length in I1.
        assert (H : length (init_entries gs) = length gs).
        { unfold init_entries. etransitivity; [apply combine_length|]. rewrite map_length, seq_length. lia. }
        lia.
    Qed.
  End Inv.

  (* MAIN THEOREM: the merge loop (with the fuel used by [merge]) returns exactly the connected
     components of the overlap graph. *)
  Theorem merge_is_components : forall gs, geom_ok overlaps union ->
    merge_correct overlaps gs (merge_loop overlaps union (length gs) (init_entries gs)).
  Proof. intros gs Hg. apply merge_is_components_gs. exact Hg. Qed.

  (* ---------- order independence ---------- *)
  Lemma conn_range : forall (gs : list G) a b,
    conn overlaps gs a b -> (a < length gs <-> b < length gs).
  Proof.
    intros gs a b Hc. unfold conn in Hc.
    induction Hc as [x y Hxy|x|x y Hxy IH|x y z Hxy IH1 Hyz IH2]; try tauto.
    destruct Hxy as (u & v & Eu & Ev & _).
    assert (x < length gs) by (apply nth_error_Some; rewrite Eu; discriminate).
    assert (y < length gs) by (apply nth_error_Some; rewrite Ev; discriminate).
    tauto.
  Qed.

  Section Order.
    Variables (gs gs' : list G) (sigma : nat -> nat).
    Hypothesis Hlen : length gs' = length gs.
    Hypothesis Hnth : forall i, i < length gs -> nth_error gs' i = nth_error gs (sigma i).
    Hypothesis Hran : forall i, i < length gs -> sigma i < length gs.
    Hypothesis Hinj : forall i j, i < length gs -> j < length gs -> sigma i = sigma j -> i = j.
    Hypothesis Hsur : forall k, k < length gs -> exists i, i < length gs /\ sigma i = k.

    Lemma conn_transport_fwd : forall i j,
      conn overlaps gs' i j -> conn overlaps gs (sigma i) (sigma j).
    Proof.
      intros i j Hc. unfold conn in *.
      induction Hc as [x y Hxy|x|x y Hxy IH|x y z Hxy IH1 Hyz IH2].
      - destruct Hxy as (u & v & Eu & Ev & Huv).
        assert (Hx : x < length gs) by (rewrite <- Hlen; apply nth_error_Some; rewrite Eu; discriminate).
        assert (Hy : y < length gs) by (rewrite <- Hlen; apply nth_error_Some; rewrite Ev; discriminate).
        apply rst_step. exists u, v.
        split; [rewrite <- Hnth; assumption|]. split; [rewrite <- Hnth; assumption|exact Huv].
      - apply rst_refl.
      - apply rst_sym. exact IH.
      - eapply rst_trans; eauto.
    Qed.

    Lemma conn_transport_bwd : forall a b, conn overlaps gs a b ->
      forall i j, i < length gs -> j < length gs -> sigma i = a -> sigma j = b ->
      conn overlaps gs' i j.
    Proof.
      intros a b Hc. unfold conn in Hc.
      induction Hc as [x y Hxy|x|x y Hxy IH|x y z Hxy IH1 Hyz IH2]; intros i j Hi Hj Ei Ej.
      - destruct Hxy as (u & v & Eu & Ev & Huv). apply rst_step. exists u, v.
        split; [rewrite Hnth, Ei; assumption|]. split; [rewrite Hnth, Ej; assumption|exact Huv].
      - assert (i = j) by (apply Hinj; congruence). subst j. apply rst_refl.
      - apply rst_sym. apply IH; assumption.
      - assert (Hy : y < length gs).
        { apply (conn_range gs x y Hxy). rewrite <- Ei. apply Hran. exact Hi. }
        destruct (Hsur y Hy) as (k & Hk & Ek).
        apply rst_trans with k.
        + apply IH1; assumption.
        + apply IH2; assumption.
    Qed.

    (* the partition of the inputs into unions does not depend on the order of the inputs:
       if gs' lists the same geometries as gs, reindexed by the bijection sigma, then two
       inputs of gs' end up in the same union iff the corresponding inputs of gs do *)
    Corollary merge_order_independent : geom_ok overlaps union ->
      forall i j, i < length gs -> j < length gs ->
        (same_union (merge_loop overlaps union (length gs') (init_entries gs')) i j <->
         same_union (merge_loop overlaps union (length gs) (init_entries gs)) (sigma i) (sigma j)).
    Proof.
      intros Hg i j Hi Hj.
      destruct (merge_is_components gs Hg) as (_ & _ & Hs & _).
      destruct (merge_is_components gs' Hg) as (_ & _ & Hs' & _).
      eapply iff_trans; [apply Hs'; rewrite Hlen; assumption|].
      eapply iff_trans; [|apply iff_sym; apply Hs; apply Hran; assumption].
      split.
      - apply conn_transport_fwd.
      - intros Hc. eapply conn_transport_bwd; eauto.
    Qed.
  End Order.
End Proof.

(* ---------- a concrete instance: the hypothesis [geom_ok] is satisfiable ---------- *)
Definition lov (a b : list nat) : bool := existsb (fun x => existsb (Nat.eqb x) b) a.
Definition lun (a b : list nat) : list nat := a ++ b.

Lemma lov_true : forall a b, lov a b = true <-> exists x, In x a /\ In x b.
Proof.
  intros a b. unfold lov. rewrite existsb_exists. split.
  - intros (x & Hx & H). apply existsb_exists in H. destruct H as (y & Hy & E).
    apply Nat.eqb_eq in E. subst y. exists x. split; assumption.
  - intros (x & Hx & Hb). exists x. split; [exact Hx|].
    apply existsb_exists. exists x. split; [exact Hb|apply Nat.eqb_refl].
Qed.

Lemma geom_ok_lists : geom_ok lov lun.
Proof.
  split.
  - intros a b. apply eq_true_iff_eq. rewrite !lov_true.
    split; intros (x & H1 & H2); exists x; split; assumption.
  - intros a b c. unfold lov, lun. apply existsb_app.
Qed.

Example merge_example :
  merge lov lun [[1;2];[3];[2;3];[7]] = [([3], [7]); ([1;0;2], [3;1;2;2;3])].
Proof. vm_compute. reflexivity. Qed.

Corollary merge_lists_components : forall gs,
  merge_correct lov gs (merge_loop lov lun (length gs) (init_entries gs)).
Proof. intros gs. apply merge_is_components. apply geom_ok_lists. Qed.

Print Assumptions merge_is_components.
Print Assumptions merge_order_independent.
