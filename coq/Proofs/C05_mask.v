(* C05: with a source mask no masked (or invalid) source pixel is ever selected, and an unmasked valid pixel
   within the radius is still found -- for every chunking, given the kd-tree oracle meets its spec. *)
From Coq Require Import ZArith List Lia Bool Reals Lra.
From PR Require Import Base.ZX Base.ListX Base.Slice Model.Partition Model.Blockwise Model.BlockwiseSpec
     Proofs.C05_assemble Proofs.C05_pipeline.
Import ListNotations.
Open Scope Z_scope.

Lemma compress_length {A} (m : list bool) : forall (l : list A), length l = length m ->
  length (compress m l) = length (filter (fun b => b) m).
Proof.
  induction m as [|b m IH]; intros [|x l] H; cbn in *; try lia; try reflexivity.
  destruct b; cbn; [f_equal|]; apply IH; lia.
Qed.

Lemma positions_from_length m : forall off, length (positions_from off m) = length (filter (fun b => b) m).
Proof. induction m as [|b m IH]; intros off; cbn; [reflexivity|]. destruct b; cbn; [f_equal|]; apply IH. Qed.

(* the k-th compacted element is the element at the k-th True position *)
Lemma compress_nth_from {A} (m : list bool) : forall (l : list A) off k d, length l = length m ->
  (k < length (compress m l))%nat ->
  (off <= nth k (positions_from off m) 0%nat)%nat /\
  nth k (compress m l) d = nth (nth k (positions_from off m) 0%nat - off)%nat l d.
Proof.
  induction m as [|b m IH]; intros [|x l] off k d Hl Hk; cbn in *; try lia.
  destruct b.
  - destruct k as [|k]; cbn.
    + split; [lia|]. rewrite Nat.sub_diag. reflexivity.
    + cbn in Hk. destruct (IH l (S off) k d ltac:(lia) ltac:(lia)) as [Hle Heq]. split; [lia|].
      rewrite Heq. replace (nth k (positions_from (S off) m) 0%nat - off)%nat
        with (S (nth k (positions_from (S off) m) 0%nat - S off))%nat by lia. reflexivity.
  - destruct (IH l (S off) k d ltac:(lia) Hk) as [Hle Heq]. split; [lia|].
    rewrite Heq. replace (nth k (positions_from (S off) m) 0%nat - off)%nat
      with (S (nth k (positions_from (S off) m) 0%nat - S off))%nat by lia. reflexivity.
Qed.

Lemma compress_nth {A} (m : list bool) (l : list A) k d : length l = length m ->
  (k < length (compress m l))%nat -> nth k (compress m l) d = nth (nth k (positions m) 0%nat) l d.
Proof.
  intros Hl Hk. destruct (compress_nth_from m l 0%nat k d Hl Hk) as [_ H]. rewrite Nat.sub_0_r in H. exact H.
Qed.

Lemma compress_self_true m : Forall (fun b => b = true) (compress m m).
Proof. induction m as [|b m IH]; cbn; [constructor|]. destruct b; [constructor; [reflexivity|exact IH]|exact IH]. Qed.

Lemma positions_valid m k : (k < length (positions m))%nat -> nth (nth k (positions m) 0%nat) m false = true.
Proof.
  intros Hk. unfold positions in Hk. rewrite positions_from_length in Hk.
  assert (Hk' : (k < length (compress m m))%nat) by (rewrite compress_length by reflexivity; exact Hk).
  rewrite <- (compress_nth m m k false eq_refl Hk').
  pose proof (compress_self_true m) as HF. rewrite Forall_forall in HF. apply HF. apply nth_In. exact Hk'.
Qed.

Lemma positions_from_In m : forall off s, In s (positions_from off m) <->
  (off <= s < off + length m)%nat /\ nth (s - off) m false = true.
Proof.
  induction m as [|b m IH]; intros off s; cbn [positions_from length].
  - split; [intros []|]. intros [H _]. lia.
  - destruct b; cbn [In]; rewrite IH; split.
    + intros [<-|[H1 H2]]; [split; [lia|rewrite Nat.sub_diag; reflexivity]|].
      split; [lia|]. replace (s - off)%nat with (S (s - S off)) by lia. exact H2.
    + intros [H1 H2]. destruct (Nat.eq_dec off s) as [->|Hne]; [left; reflexivity|right].
      split; [lia|]. replace (s - off)%nat with (S (s - S off)) in H2 by lia. exact H2.
    + intros [H1 H2]. split; [lia|]. replace (s - off)%nat with (S (s - S off)) by lia. exact H2.
    + intros [H1 H2]. destruct (Nat.eq_dec off s) as [->|Hne]; [rewrite Nat.sub_diag in H2; discriminate|].
      split; [lia|]. replace (s - off)%nat with (S (s - S off)) in H2 by lia. exact H2.
Qed.

Section MaskTheorems.
  Variable vii mask : list bool.
  Variable dist : Z -> Z -> nat -> R.
  Variable r : R.
  Variable voi : Z -> Z -> bool.
  Variable q : Z -> Z -> Z.
  Hypothesis Hlen : length mask = length vii.
  Let n := nvalid vii.
  (* the oracle meets its spec on every valid target pixel *)
  Hypothesis Hknn : forall i j, voi i j = true -> knn_masked_spec vii mask dist r i j (q i j).

  Lemma candidate_sound k : candidate vii mask k ->
    nth (src_of vii k) vii false = true /\ nth (src_of vii k) mask true = false.
  Proof.
    intros [[Hk0 Hkn] Hm]. unfold nvalid, count_true in Hkn. unfold src_of.
    assert (Hk : (Z.to_nat k < length (positions vii))%nat)
      by (unfold positions; rewrite positions_from_length; lia).
    split; [apply positions_valid; exact Hk|].
    unfold cmask in Hm. rewrite compress_nth in Hm; [exact Hm|exact Hlen|].
    rewrite compress_length by exact Hlen. lia.
  Qed.

  Lemma selected k i j rows cols :
    Forall (fun x => 0 <= x) rows -> Forall (fun x => 0 <= x) cols ->
    0 <= i < sumZ rows -> 0 <= j < sumZ cols ->
    nth (Z.to_nat j) (nth (Z.to_nat i) (index_array_chunked n voi q rows cols) []) (-1) = k ->
    k = index_pointwise n voi q i j.
  Proof.
    intros Hr Hc Hi Hj <-. rewrite index_array_chunked_char by assumption. rewrite tab_nth by assumption.
    reflexivity.
  Qed.

  Theorem mask_never_selected rows cols i j :
    Forall (fun x => 0 <= x) rows -> Forall (fun x => 0 <= x) cols ->
    0 <= i < sumZ rows -> 0 <= j < sumZ cols ->
    let k := nth (Z.to_nat j) (nth (Z.to_nat i) (index_array_chunked n voi q rows cols) []) (-1) in
    k <> -1 ->
    0 <= k < n /\ nth (src_of vii k) vii false = true /\ nth (src_of vii k) mask true = false
    /\ (dist i j (src_of vii k) < r)%R.
  Proof.
    intros Hr Hc Hi Hj k Hk.
    assert (E : k = index_pointwise n voi q i j) by (apply (selected k i j rows cols); auto).
    unfold index_pointwise in E. destruct (voi i j) eqn:Ev; cbn [andb] in E; [|congruence].
    destruct (Z.ltb_spec (q i j) n) as [Hlt|Hge]; [|congruence].
    destruct (Hknn i j Ev) as [[Hq _]|(Hc1 & Hd & _)]; [fold n in Hq; lia|].
    rewrite E. destruct (candidate_sound _ Hc1) as [H1 H2]. destruct Hc1 as [Hb _].
    repeat split; try assumption; apply Hb.
  Qed.

  Theorem unmasked_still_found rows cols i j c :
    Forall (fun x => 0 <= x) rows -> Forall (fun x => 0 <= x) cols ->
    0 <= i < sumZ rows -> 0 <= j < sumZ cols ->
    voi i j = true -> candidate vii mask c -> (dist i j (src_of vii c) < r)%R ->
    let k := nth (Z.to_nat j) (nth (Z.to_nat i) (index_array_chunked n voi q rows cols) []) (-1) in
    k <> -1 /\ candidate vii mask k /\ (dist i j (src_of vii k) <= dist i j (src_of vii c))%R.
  Proof.
    intros Hr Hc Hi Hj Ev Hcand Hd k.
    assert (E : k = index_pointwise n voi q i j) by (apply (selected k i j rows cols); auto).
    unfold index_pointwise in E. rewrite Ev in E. cbn [andb] in E.
    destruct (Hknn i j Ev) as [[_ Hall]|(Hc1 & Hdq & Hmin)].
    - specialize (Hall c Hcand). lra.
    - assert (Hlt : q i j < n) by (destruct Hc1 as [[_ H] _]; exact H).
      destruct (Z.ltb_spec (q i j) n); [|lia]. rewrite E.
      split; [destruct Hc1 as [[H0 _] _]; lia|]. split; [exact Hc1|]. apply Hmin. exact Hcand.
  Qed.

  (* the same, stated for a flat source pixel s: valid, unmasked and strictly within the radius *)
  Lemma source_is_candidate s : (s < length vii)%nat -> nth s vii false = true -> nth s mask true = false ->
    exists c, candidate vii mask c /\ src_of vii c = s.
  Proof.
    intros Hs Hv Hm.
    assert (Hin : In s (positions vii)).
    { unfold positions. apply positions_from_In. rewrite Nat.sub_0_r. split; [lia|exact Hv]. }
    destruct (In_nth _ _ 0%nat Hin) as (k & Hk & Hnth).
    exists (Z.of_nat k). unfold src_of. rewrite Nat2Z.id. split; [|exact Hnth].
    assert (Hk' : (k < length (filter (fun b => b) vii))%nat)
      by (unfold positions in Hk; rewrite positions_from_length in Hk; exact Hk).
    split; [unfold nvalid, count_true; lia|]. rewrite Nat2Z.id.
    unfold cmask. rewrite compress_nth; [rewrite Hnth; exact Hm|exact Hlen|].
    rewrite compress_length by exact Hlen. exact Hk'.
  Qed.

  Theorem unmasked_source_still_found rows cols i j s :
    Forall (fun x => 0 <= x) rows -> Forall (fun x => 0 <= x) cols ->
    0 <= i < sumZ rows -> 0 <= j < sumZ cols ->
    voi i j = true ->
    (s < length vii)%nat -> nth s vii false = true -> nth s mask true = false -> (dist i j s < r)%R ->
    let k := nth (Z.to_nat j) (nth (Z.to_nat i) (index_array_chunked n voi q rows cols) []) (-1) in
    k <> -1 /\ (dist i j (src_of vii k) <= dist i j s)%R.
  Proof.
    intros Hr Hc Hi Hj Ev Hs Hv Hm Hd k.
    destruct (source_is_candidate s Hs Hv Hm) as (c & Hcand & Hsrc).
    destruct (unmasked_still_found rows cols i j c Hr Hc Hi Hj Ev Hcand) as (H1 & _ & H3);
      [rewrite Hsrc; exact Hd|]. rewrite Hsrc in H3. split; assumption.
  Qed.
End MaskTheorems.
