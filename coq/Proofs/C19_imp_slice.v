(* C19: the definition regenerated from geometry._get_slice (tools/py2coq_imp.py) is the hand model get_slice *)
From Coq Require Import ZArith List Lia Bool.
From PR Require Import Base.ZX Base.Slice Base.Imp Model.Partition Gen.GenC19 Proofs.C19_partition.
Import ListNotations.
Open Scope Z_scope.

Lemma ceil_neg_div size seg : 0 < seg -> - ((- size) / seg) = cdiv size seg.
Proof.
  intros Hs. unfold cdiv.
  pose proof (Z.div_mod (- size) seg ltac:(lia)) as H1. pose proof (Z.mod_pos_bound (- size) seg Hs) as H2.
  pose proof (Z.div_mod (size + seg - 1) seg ltac:(lia)) as H3. pose proof (Z.mod_pos_bound (size + seg - 1) seg Hs) as H4.
  nia.
Qed.

Ltac imp_step :=
  repeat first [ rewrite seq_assoc | rewrite andthen_assign | rewrite andthen_check | rewrite andthen_skip
               | rewrite andthen_ite | rewrite andthen_raise ]; cbv beta.

Ltac gs_proj := cbn [imp_get_slice_segments imp_get_slice_shape imp_get_slice_size imp_get_slice_slice_length
                      imp_get_slice_start_idx imp_get_slice_end_idx
                      imp_get_slice_set_size imp_get_slice_set_slice_length imp_get_slice_set_start_idx imp_get_slice_set_end_idx].

(* the loop of _get_slice as a pure iteration *)
Definition gs_c (s : imp_get_slice_st) : bool := imp_get_slice_start_idx s <? imp_get_slice_size s.
Definition gs_step (s : imp_get_slice_st) : imp_get_slice_st :=
  let s1 := imp_get_slice_set_start_idx (imp_get_slice_end_idx s) s in
  imp_get_slice_set_end_idx (Z.min (imp_get_slice_start_idx s1 + imp_get_slice_slice_length s1) (imp_get_slice_size s1)) s1.
Definition gs_wrap (s : imp_get_slice_st) (x : pslice) : pslice + pslice * oslice :=
  if zlen (imp_get_slice_shape s) =? 1 then inl x else inr (x, mk_oslice None None).
Definition gs_out (s : imp_get_slice_st) : list (pslice + pslice * oslice) :=
  [gs_wrap s (mk_slice (imp_get_slice_start_idx s) (imp_get_slice_end_idx s))].

Lemma gs_iter_model n : forall s,
  fst (iter_spec gs_c gs_step gs_out n s)
  = map (gs_wrap s) (get_slice_loop n (imp_get_slice_start_idx s) (imp_get_slice_end_idx s)
                                      (imp_get_slice_slice_length s) (imp_get_slice_size s)).
Proof.
  induction n as [|n IH]; intros s; [reflexivity|].
  cbn [iter_spec get_slice_loop]. unfold gs_c at 1.
  destruct (imp_get_slice_start_idx s <? imp_get_slice_size s); [|reflexivity].
  cbn [fst map]. rewrite IH. unfold gs_out. cbn [app]. f_equal.
Qed.

Lemma gs_iter_ends n : forall s,
  0 < imp_get_slice_slice_length s ->
  imp_get_slice_end_idx s = Z.min (imp_get_slice_start_idx s + imp_get_slice_slice_length s) (imp_get_slice_size s) ->
  imp_get_slice_size s - imp_get_slice_start_idx s <= Z.of_nat n * imp_get_slice_slice_length s ->
  gs_c (snd (iter_spec gs_c gs_step gs_out n s)) = false.
Proof.
  induction n as [|n IH]; intros s Hlen Hend Hrem.
  - cbn. unfold gs_c. apply Z.ltb_ge. lia.
  - cbn [iter_spec]. destruct (gs_c s) eqn:Hc; [|exact Hc].
    cbn [snd]. unfold gs_c in Hc. apply Z.ltb_lt in Hc.
    apply IH; unfold gs_step; gs_proj; nia.
Qed.

Lemma gs_body_step (body : M imp_get_slice_st (pslice + pslice * oslice) unit) :
  body = (andthen
           (ite (fun s : imp_get_slice_st => zlen (imp_get_slice_shape s) =? 1)
              (yield_ (fun s : imp_get_slice_st => inl (mk_slice (imp_get_slice_start_idx s) (imp_get_slice_end_idx s))))
              (yield_ (fun s : imp_get_slice_st => inr (mk_slice (imp_get_slice_start_idx s) (imp_get_slice_end_idx s), mk_oslice None None))))
           (andthen
              (assign (fun s : imp_get_slice_st => imp_get_slice_set_start_idx (imp_get_slice_end_idx s) s))
              (assign (fun s : imp_get_slice_st =>
                 imp_get_slice_set_end_idx (Z.min (imp_get_slice_start_idx s + imp_get_slice_slice_length s) (imp_get_slice_size s)) s)))) ->
  forall s, gs_c s = true -> body s = Fall (gs_out s) (gs_step s).
Proof.
  intros -> s _. unfold andthen, ite, yield_, assign, gs_out, gs_wrap, gs_step.
  destruct (zlen (imp_get_slice_shape s) =? 1); reflexivity.
Qed.

(* what the generated definition yields for a 1-D or 2-D shape *)
Lemma imp_get_slice_yields segments size rest fuel :
  1 <= segments -> 0 <= size -> (length rest <= 1)%nat -> (Z.to_nat segments < fuel)%nat ->
  yields_of (imp_get_slice fuel segments (size :: rest))
  = Some (map (fun x => match rest with [] => inl x | _ => inr (x, mk_oslice None None) end) (get_slice segments size)).
Proof.
  intros Hs Hn Hr Hf. unfold imp_get_slice.
  rewrite ite_eval. cbv beta. gs_proj.
  assert (Hlen : (1 <=? zlen (size :: rest)) && (zlen (size :: rest) <=? 2) = true).
  { unfold zlen. cbn [length]. destruct rest as [|r0 [|r1 rest]]; cbn in Hr; try lia; reflexivity. }
  rewrite Hlen. cbn [negb].
  imp_step. gs_proj.
  assert (Hidx : idx_ok (size :: rest) 0 = true).
  { unfold idx_ok, zlen. cbn [length]. apply andb_true_intro; split; [apply Z.leb_le|apply Z.ltb_lt]; lia. }
  rewrite Hidx. imp_step. gs_proj.
  destruct (Z.eqb_spec segments 0) as [->|_]; [lia|]. cbn [negb].
  imp_step. gs_proj.
  change (idx 0 (size :: rest) 0) with size.
  rewrite ceil_neg_div by lia.
  match goal with
  | |- yields_of (while_ fuel ?c ?b ?s) = _ =>
      pose proof (gs_body_step b eq_refl) as Hb; set (s0 := s); change c with gs_c
  end.
  destruct (Z.eq_dec size 0) as [->|Hnz].
  - (* nothing to split *)
    rewrite (while_iter gs_c gs_step gs_out _ Hb 0 fuel s0); [|lia|reflexivity].
    cbn [iter_spec fst yields_of]. unfold get_slice.
    replace (cdiv 0 segments) with 0 by (unfold cdiv; symmetry; apply Z.div_small; lia).
    destruct (Z.to_nat segments); reflexivity.
  - destruct (cdiv_pos size segments Hs ltac:(lia)) as [[H1 H2] H3].
    rewrite (while_iter gs_c gs_step gs_out _ Hb (Z.to_nat segments) fuel s0); [|exact Hf|].
    + cbn [yields_of]. rewrite gs_iter_model. unfold s0. gs_proj. unfold get_slice. f_equal.
      apply map_ext. intros x. unfold gs_wrap. gs_proj. unfold zlen. cbn [length].
      destruct rest as [|r0 [|r1 rest]]; cbn in Hr; try lia; reflexivity.
    + apply gs_iter_ends; unfold s0; gs_proj; [lia|lia|rewrite Z2Nat.id by lia; lia].
Qed.

(* outside the translated domain Python raises, and so does the definition *)
Lemma imp_get_slice_bad_shape segments shape fuel :
  (length shape = 0 \/ 2 < length shape)%nat -> imp_get_slice fuel segments shape = Raised.
Proof.
  intros H. unfold imp_get_slice. rewrite ite_eval. cbv beta. gs_proj.
  assert (E : (1 <=? zlen shape) && (zlen shape <=? 2) = false).
  { unfold zlen. apply andb_false_iff. destruct H as [H|H]; [left; apply Z.leb_gt|right; apply Z.leb_gt]; lia. }
  now rewrite E.
Qed.
Lemma imp_get_slice_zero_segments size rest fuel :
  (length rest <= 1)%nat -> imp_get_slice fuel 0 (size :: rest) = Raised.
Proof.
  intros Hr. unfold imp_get_slice. rewrite ite_eval. cbv beta. gs_proj.
  assert (Hlen : (1 <=? zlen (size :: rest)) && (zlen (size :: rest) <=? 2) = true).
  { unfold zlen. cbn [length]. destruct rest as [|r0 [|r1 rest]]; cbn in Hr; try lia; reflexivity. }
  rewrite Hlen. cbn [negb]. imp_step. gs_proj.
  assert (Hidx : idx_ok (size :: rest) 0 = true).
  { unfold idx_ok, zlen. cbn [length]. apply andb_true_intro; split; [apply Z.leb_le|apply Z.ltb_lt]; lia. }
  rewrite Hidx. imp_step. gs_proj. reflexivity.
Qed.
