(* C03 composed with C15 (the scheduler's slices tile [0,n) under every interleaving) and with C02 (the contract of
   the kd-tree query): the hypotheses "tiling" of nprocs_invariant and "the tree returns the nearest" are discharged
   from those developments' theorems. *)
From Coq Require Import ZArith List Bool Lia Arith Permutation.
From PR Require Import Base.ZX Base.ListX Base.Slice Model.Partition Model.Organise Model.Sched Model.KDTree
     Proofs.C03_org Proofs.C03_pipe Proofs.C15_inv Proofs.C15_array Proofs.C15_term.
Import ListNotations.
Local Close Scope Z_scope.
Local Open Scope nat_scope.

(* ---------- C15: Scheduler -> tiling ---------- *)
Definition to_pslice (s : Z * Z) : pslice := mk_slice (fst s) (snd s).

Lemma ztiles_tiles l : forall from to, ztiles from l to -> tiles from (map to_pslice l) to.
Proof.
  induction l as [|[a b] l IH]; cbn; intros from to H; [exact H|].
  destruct H as (-> & Hlt & Ht). repeat split; [exact Hlt|]. apply IH. exact Ht.
Qed.

(* every configuration of the Scheduler (guided / dynamic / static, any chunk, any number of workers), every interleaving
   of the workers' atomic actions after which all of them have returned: the shared output equals map f *)
Lemma nprocs_scheduler {A B} (f : A -> B) (xs : list A) (init : list B) c nw sched :
  wf c -> Sched.n c = Z.of_nat (length xs) -> 1 <= nw -> workers_below nw sched -> all_done nw (run c sched) ->
  length init = length xs ->
  run_workers f xs (map to_pslice (wdone (run c sched))) init = map f xs.
Proof.
  intros Hwf Hn Hnw Hb Hall Hl.
  destruct (cover_all_done c nw sched Hwf Hnw Hb Hall) as (_ & _ & Ht).
  apply (nprocs_invariant f xs _ (map to_pslice (slices (run c sched))) init).
  - rewrite <- Hn. apply ztiles_tiles. exact Ht.
  - apply Permutation_map, Permutation_sym, writes_exactly_once with (nw := nw); assumption.
  - exact Hl.
Qed.

Lemma nprocs_scheduler_fair {A B} (f : A -> B) (xs : list A) (init : list B) c nw sched :
  wf c -> Sched.n c = Z.of_nat (length xs) -> 1 <= nw -> workers_below nw sched ->
  fair_rounds nw (Z.to_nat (7 * Sched.n c + 5 * Z.of_nat nw)) sched ->
  length init = length xs ->
  run_workers f xs (map to_pslice (wdone (run c sched))) init = map f xs.
Proof.
  intros Hwf Hn Hnw Hb Hfair Hl. apply nprocs_scheduler with (nw := nw); try assumption.
  apply terminates_fair; assumption.
Qed.

(* ---------- C02: the model's query for the nearest neighbour meets the kd-tree contract ---------- *)
Definition head_min (l : list (nat * Z)) : Prop :=
  forall d0 e, In e l -> (snd (hd d0 l) <= snd e)%Z.

Lemma insert_head_min x l : head_min l -> head_min (Organise.insert Z.leb x l).
Proof.
  intros H d0 e. destruct l as [|y l]; cbn.
  - intros [<-|[]]. lia.
  - destruct (Z.leb_spec (snd x) (snd y)); cbn.
    + intros [<-|[<-|He]]; [lia|lia|]. specialize (H d0 e (or_intror He)). cbn in H. lia.
    + intros [<-|He]; [lia|]. apply in_insert in He. destruct He as [->|He]; [lia|].
      specialize (H d0 e (or_intror He)). cbn in H. lia.
Qed.
Lemma isort_head_min l : head_min (Organise.isort Z.leb l).
Proof. induction l as [|x l IH]; [intros d0 e []|]. apply insert_head_min. exact IH. Qed.

Lemma in_indexed_nth {A} (l : list A) (a0 : A) : forall s, s < length l -> In (s, nth s l a0) (indexed l).
Proof.
  unfold indexed, indexed_from. intros s Hs.
  assert (G : forall (l : list A) a s, s < length l -> In (a + s, nth s l a0) (combine (seq a (length l)) l)).
  { clear. induction l as [|x l IH]; intros a s Hs; [cbn in Hs; lia|]. destruct s; cbn.
    - left. f_equal. lia.
    - right. replace (a + S s) with (S a + s) by lia. apply IH. cbn in Hs. lia. }
  exact (G l 0 s Hs).
Qed.
Lemma indexed_inv {A} (l : list A) (a0 : A) c : In c (indexed l) -> fst c < length l /\ snd c = nth (fst c) l a0.
Proof.
  unfold indexed, indexed_from.
  assert (G : forall (l : list A) a c, In c (combine (seq a (length l)) l) -> a <= fst c < a + length l /\ snd c = nth (fst c - a) l a0).
  { clear. induction l as [|x l IH]; intros a c H; [destruct H|]. cbn in H. destruct H as [<-|H].
    - cbn. rewrite Nat.sub_diag. split; [lia|reflexivity].
    - apply IH in H. destruct H as [Hb He]. cbn [length]. split; [lia|].
      rewrite He. replace (fst c - a) with (S (fst c - S a)) by lia. reflexivity. }
  intros H. apply G in H. rewrite Nat.sub_0_r in H. destruct H; split; [lia|assumption].
Qed.

Section Contract.
  Context {src tgt : Type}.
  Variable dist : tgt -> src -> Z.          (* exact squared chord distance, as in Model/KDTree.v *)
  Variable r2 : Z.
  Variable s0 : src.

  (* index_array entry of the model for neighbours = 1: the first column of query_row *)
  Definition nn_index (pts : list src) (t : tgt) : nat :=
    match query_row dist (fun d => (d <? r2)%Z) Z.leb 0%Z 1 pts t with
    | (j, _) :: _ => j
    | [] => length pts
    end.

  (* ... satisfies the exact contract C02 places on tree.query(k=1, distance_upper_bound=r) *)
  Lemma nn_index_meets_contract (pts : list src) (t : tgt) :
    knn_spec r2 (fun j => dist t (nth j pts s0)) (seq 0 (length pts)) (nn_index pts t).
  Proof.
    unfold nn_index, query_row, Organise.knn.
    set (L := filter (fun c : nat * Z => (snd c <? r2)%Z) (map (fun c => (fst c, dist t (snd c))) (indexed pts))).
    pose proof (isort_head_min L) as Hmin.
    assert (HL : forall e, In e L -> fst e < length pts /\ snd e = dist t (nth (fst e) pts s0) /\ (snd e < r2)%Z).
    { intros e He. unfold L in He. apply filter_In in He as [He Hw]. apply in_map_iff in He as (c & <- & Hc).
      destruct (indexed_inv pts s0 c Hc) as [Hb Hs]. cbn. rewrite <- Hs. repeat split; [exact Hb|]. apply Z.ltb_lt. exact Hw. }
    assert (HinL : forall s, s < length pts -> (dist t (nth s pts s0) < r2)%Z -> In (s, dist t (nth s pts s0)) L).
    { intros s Hs Hd. unfold L. apply filter_In. split; [|cbn; apply Z.ltb_lt; exact Hd].
      apply in_map_iff. exists (s, nth s pts s0). split; [reflexivity|]. apply in_indexed_nth. exact Hs. }
    unfold knn_spec, knn_spec_tol. rewrite seq_length.
    destruct (Organise.isort Z.leb L) as [|[j dj] rest] eqn:E.
    - (* nothing within the radius *)
      cbn -[Z.mul Z.add]. split; [lia|]. intros _. split; [reflexivity|]. intros s Hs. apply in_seq in Hs.
      destruct (Z.lt_ge_cases (dist t (nth s pts s0)) r2) as [Hlt|Hge]; [|lia].
      exfalso. pose proof (HinL s ltac:(lia) Hlt) as Hin.
      assert (In (s, dist t (nth s pts s0)) (Organise.isort Z.leb L)) by (apply (in_isort_back (fun _ => true) Z.leb 0%Z); exact Hin).
      rewrite E in H. destruct H.
    - cbn -[Z.mul Z.add seq nth].
      assert (Hj : In (j, dj) L) by (apply (in_isort (fun _ => true) Z.leb 0%Z); rewrite E; left; reflexivity).
      destruct (HL _ Hj) as (Hjb & Hjd & Hjr). cbn in Hjb, Hjd, Hjr.
      split; [|intros; lia]. intros _. rewrite seq_nth by exact Hjb. cbn [plus]. rewrite <- Hjd. split; [|lia].
      intros s Hs. apply in_seq in Hs.
      destruct (Z.lt_ge_cases (dist t (nth s pts s0)) r2) as [Hlt|Hge]; [|lia].
      pose proof (HinL s ltac:(lia) Hlt) as Hin.
      assert (Hin' : In (s, dist t (nth s pts s0)) ((j, dj) :: rest)) by (rewrite <- E; apply (in_isort_back (fun _ => true) Z.leb 0%Z); exact Hin).
      specialize (Hmin (0, 0%Z) _ Hin'). cbn in Hmin. lia.
  Qed.
End Contract.
