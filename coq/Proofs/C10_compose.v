(* C10 -- composition with C01 (read-only): the element formula of the REGENERATED _generate_1d_proj_vectors
   (Gen.GenC01.gen01_proj_vector_elements, proved equal to Grid.proj_x / proj_y in Proofs/C01_gen.v), applied to the
   attributes of a sliced area, gives the parent's element at the shifted index. *)
From Coq Require Import Reals ZArith List Lia Bool.
From PR Require Import Base.Num Base.RNum Base.Slice Model.Grid Model.SliceArea Gen.GenC01 Gen.GenC10
     Proofs.C01_gen Proofs.C10_slice.
Open Scope Z_scope.

Definition vec_elem (a : area R) (c r : Z) : R * R :=
  gen01_proj_vector_elements RO (pixel_size_x RO a, pixel_size_y RO a) (upl_x RO a, upl_y RO a) c r.

Lemma slice_vec_elem g ys xs r c : wf_g g -> sel_ok g (ys, xs) ->
  vec_elem (g_area (gen_area_getitem RO g (ys, xs))) c r =
  vec_elem (g_area g) (sstart (indices xs (gwidth g)) + c) (sstart (indices ys (gheight g)) + r).
Proof.
  intros W [Sy Sx]. cbn [fst snd] in *. destruct W as [Hw Hh]. unfold vec_elem.
  rewrite !gen01_proj_vector_elements_char. rewrite gen_getitem_eq, getitem_area by (split; assumption).
  pose proof (win_of_indices ys (gheight g) ltac:(lia) Sy) as (_ & Hy & _).
  pose proof (win_of_indices xs (gwidth g) ltac:(lia) Sx) as (_ & Hx & _).
  rewrite sl_proj_x by exact Hx. rewrite sl_proj_y by exact Hy. reflexivity.
Qed.
