(* C03, Part B: the neighbour info mapped back to original source indices is a function of the candidates within
   the radius only; final arrays are a function of that canonical info and the uncompacted data. *)
From Coq Require Import ZArith List Bool Lia Arith.
From PR Require Import Base.ZX Base.ListX Base.Slice Model.Partition Model.Organise.
Import ListNotations.
Local Close Scope Z_scope.
Local Open Scope nat_scope.

(* ---------- list facts ---------- *)
Lemma map_nth_seq {A} (P : list A) d : map (fun i => nth i P d) (seq 0 (length P)) = P.
Proof.
  induction P as [|x P IH]; cbn [length seq map]; [reflexivity|]. cbn [nth]. f_equal.
  rewrite <- seq_shift, map_map. cbn [nth]. exact IH.
Qed.

Lemma combine_fst_snd {A B} (l : list (A * B)) : combine (map fst l) (map snd l) = l.
Proof. induction l as [|[a b] l IH]; cbn; [reflexivity|]. now rewrite IH. Qed.

Lemma map_combine_fst {A B C} (g : A -> C) (a : list A) : forall b : list B,
  map (fun c => (g (fst c), snd c)) (combine a b) = combine (map g a) b.
Proof. induction a as [|x a IH]; intros [|y b]; cbn; try reflexivity. now rewrite IH. Qed.

Lemma filter_all {A} (p : A -> bool) (l : list A) : (forall x, In x l -> p x = true) -> filter p l = l.
Proof.
  induction l as [|x l IH]; intros H; cbn; [reflexivity|].
  rewrite (H x (or_introl eq_refl)), IH; [reflexivity|]. intros; apply H; now right.
Qed.
Lemma filter_none {A} (p : A -> bool) (l : list A) : (forall x, In x l -> p x = false) -> filter p l = [].
Proof.
  induction l as [|x l IH]; intros H; cbn; [reflexivity|].
  rewrite (H x (or_introl eq_refl)). apply IH. intros; apply H; now right.
Qed.
Lemma in_firstn {A} n (l : list A) x : In x (firstn n l) -> In x l.
Proof. intros H. rewrite <- (firstn_skipn n l). apply in_or_app. now left. Qed.
Lemma map_const {A B} (b : B) (l : list A) : map (fun _ => b) l = repeat b (length l).
Proof. induction l; cbn; congruence. Qed.
Lemma map_repeat {A B} (f : A -> B) a n : map f (repeat a n) = repeat (f a) n.
Proof. induction n; cbn; congruence. Qed.
Lemma in_repeat {A} (a x : A) n : In x (repeat a n) -> x = a.
Proof. induction n; cbn; [tauto|]. intros [H|H]; auto. Qed.

(* ---------- indexed / positions / compact ---------- *)
Lemma indexed_from_cons {A} a (x : A) l : indexed_from a (x :: l) = (a, x) :: indexed_from (S a) l.
Proof. reflexivity. Qed.

Lemma snd_filter_indexed {A} (p : A -> bool) l : forall a,
  map snd (filter (fun c => p (snd c)) (indexed_from a l)) = filter p l.
Proof.
  induction l as [|x l IH]; intros a; [reflexivity|]. rewrite indexed_from_cons. cbn [filter snd].
  destruct (p x); cbn [map snd]; rewrite IH; reflexivity.
Qed.
Lemma fst_filter_indexed_map {A} (p : A -> bool) l : forall a,
  map fst (filter (fun c => snd c) (indexed_from a (map p l))) = map fst (filter (fun c => p (snd c)) (indexed_from a l)).
Proof.
  induction l as [|x l IH]; intros a; [reflexivity|]. cbn [map]. rewrite !indexed_from_cons. cbn [filter snd].
  destruct (p x); cbn [map fst]; rewrite IH; reflexivity.
Qed.
Lemma positions_map {A} (p : A -> bool) l :
  positions (map p l) = map fst (filter (fun c => p (snd c)) (indexed l)).
Proof. apply fst_filter_indexed_map. Qed.
Lemma positions_length {A} (p : A -> bool) l : length (positions (map p l)) = length (filter p l).
Proof. rewrite positions_map, <- (snd_filter_indexed p l 0), !map_length. reflexivity. Qed.

(* relabelling the compacted candidates by np.flatnonzero(mask) gives the kept candidates with their original labels *)
Lemma relabel_compacted {A} (p : A -> bool) (l : list A) :
  map (fun c => (nth (fst c) (positions (map p l)) 0, snd c)) (indexed (filter p l))
  = filter (fun c => p (snd c)) (indexed l).
Proof.
  unfold indexed at 1, indexed_from.
  rewrite (map_combine_fst (fun i => nth i (positions (map p l)) 0)).
  rewrite <- (positions_length p l), map_nth_seq.
  rewrite positions_map. rewrite <- (snd_filter_indexed p l 0) at 1.
  apply combine_fst_snd.
Qed.

Lemma positions_cons b m : positions (b :: m) = (if b then [0] else []) ++ map S (positions m).
Proof.
  unfold positions, indexed. rewrite indexed_from_cons. cbn [filter snd].
  assert (H : forall a, map fst (filter (fun c : nat * bool => snd c) (indexed_from (S a) m))
                        = map S (map fst (filter (fun c : nat * bool => snd c) (indexed_from a m)))).
  { induction m as [|x m IH]; intros a; [reflexivity|]. rewrite !indexed_from_cons. cbn [filter snd].
    destruct x; cbn [map fst]; rewrite IH; reflexivity. }
  destruct b; cbn [map fst app]; rewrite H; reflexivity.
Qed.

Lemma compact_cons {A} b m (x : A) l : compact (b :: m) (x :: l) = (if b then [x] else []) ++ compact m l.
Proof. unfold compact. cbn [combine filter fst]. destruct b; reflexivity. Qed.

Lemma compact_length {A} m : forall l : list A, length m = length l -> length (compact m l) = length (positions m).
Proof.
  induction m as [|b m IH]; intros [|x l] H; try discriminate; [reflexivity|].
  rewrite compact_cons, positions_cons, !app_length, map_length, (IH l) by (cbn in H; lia).
  destruct b; reflexivity.
Qed.

Lemma compact_nth {A} (d : A) m : forall (l : list A) j, length m = length l -> j < length (positions m) ->
  nth j (compact m l) d = nth (nth j (positions m) 0) l d.
Proof.
  induction m as [|b m IH]; intros [|x l] j H Hj; try discriminate; [cbn in Hj; lia|].
  rewrite compact_cons, positions_cons in *. rewrite app_length, map_length in Hj.
  destruct b; cbn [app length] in *.
  - destruct j; [reflexivity|]. cbn [nth].
    rewrite (nth_indep _ 0 (S 0)) by (rewrite map_length; lia). rewrite map_nth. cbn [nth].
    apply IH; [cbn in H; lia|lia].
  - rewrite (nth_indep _ 0 (S 0)) by (rewrite map_length; lia). rewrite map_nth. cbn [nth].
    apply IH; [cbn in H; lia|lia].
Qed.

Lemma compact_none {A} m (l : list A) : forallb negb m = true -> compact m l = [].
Proof.
  revert l. induction m as [|b m IH]; intros l H; [reflexivity|]. destruct l as [|x l]; [destruct b; reflexivity|].
  cbn in H. apply andb_prop in H as [Hb Hm]. rewrite compact_cons, (IH l Hm). destruct b; [discriminate|reflexivity].
Qed.

(* ---------- scatter ---------- *)
Lemma scatter_filter {A B} (p : A -> bool) (f : A -> B) d l :
  scatter (map p l) (map f (filter p l)) d = map (fun x => if p x then f x else d) l.
Proof. induction l as [|x l IH]; cbn; [reflexivity|]. destruct (p x); cbn; rewrite IH; reflexivity. Qed.
Lemma scatter_map {A B} (h : A -> B) d m : forall vals, map h (scatter m vals d) = scatter m (map h vals) (h d).
Proof.
  induction m as [|b m IH]; intros vals; [reflexivity|]. destruct b; cbn.
  - destruct vals as [|v vs]; cbn; rewrite IH; reflexivity.
  - rewrite IH. reflexivity.
Qed.
Lemma scatter_const {A} (d : A) m : forall vals, (forall v, In v vals -> v = d) -> scatter m vals d = repeat d (length m).
Proof.
  induction m as [|b m IH]; intros vals H; [reflexivity|]. destruct b; cbn.
  - destruct vals as [|v vs]; cbn.
    + rewrite IH; [reflexivity|intros ? []].
    + rewrite (H v (or_introl eq_refl)), IH; [reflexivity|]. intros; apply H; now right.
  - rewrite IH; auto.
Qed.
Lemma scatter_none {A} (d : A) m : forall vals, forallb negb m = true -> scatter m vals d = repeat d (length m).
Proof.
  induction m as [|b m IH]; intros vals H; [reflexivity|]. cbn in H. apply andb_prop in H as [Hb Hm].
  destruct b; [discriminate|]. cbn. rewrite IH; auto.
Qed.
Lemma forallb_negb_map {A} (p : A -> bool) l : forallb negb (map p l) = true <-> filter p l = [].
Proof.
  induction l as [|x l IH]; cbn; [tauto|]. destruct (p x); cbn; [split; discriminate|exact IH].
Qed.

Section Pipe.
  Context {src tgt D V : Type}.
  Variable dist : tgt -> src -> D.
  Variable within : D -> bool.
  Variable dle : D -> D -> bool.
  Variable dinf : D.
  Variables (svalid : src -> bool) (tvalid : tgt -> bool).
  Variable k : nat.
  Variable done : D.
  Variable fill : V.
  Variable weigh : list (D * V) -> V.

  Notation insert := (insert dle).
  Notation isort := (isort dle).
  Notation knn := (knn dist within dle k).

  (* ---------- sorting / selecting commute with relabelling ---------- *)
  Definition rl (g : nat -> nat) (e : nat * D) : nat * D := (g (fst e), snd e).
  Lemma insert_rl g x l : insert (rl g x) (map (rl g) l) = map (rl g) (insert x l).
  Proof. induction l as [|y l IH]; cbn; [reflexivity|]. destruct (dle (snd x) (snd y)); cbn; [reflexivity|]. now rewrite IH. Qed.
  Lemma isort_rl g l : isort (map (rl g) l) = map (rl g) (isort l).
  Proof.
    induction l as [|x l IH]; [reflexivity|].
    change (insert (rl g x) (isort (map (rl g) l)) = map (rl g) (insert x (isort l))).
    rewrite IH. apply insert_rl.
  Qed.
  Lemma knn_rl g (cands : list (nat * src)) t :
    map (rl g) (knn cands t) = knn (map (fun c => (g (fst c), snd c)) cands) t.
  Proof.
    unfold Organise.knn. rewrite <- firstn_map, <- isort_rl. do 2 f_equal. rewrite !map_map.
    induction cands as [|c cands IH]; cbn; [reflexivity|]. destruct (within (dist t (snd c))); cbn; rewrite IH; reflexivity.
  Qed.

  Lemma in_insert e x l : In e (insert x l) -> e = x \/ In e l.
  Proof.
    induction l as [|y l IH]; cbn; [intros [H|[]]; auto|]. destruct (dle (snd x) (snd y)); cbn.
    - intros [H|[H|H]]; auto.
    - intros [H|H]; [auto|]. destruct (IH H); auto.
  Qed.
  Lemma in_isort e l : In e (isort l) -> In e l.
  Proof. induction l as [|x l IH]; cbn; [tauto|]. intros H. destruct (in_insert _ _ _ H); auto. Qed.
  Lemma in_insert_back e x l : e = x \/ In e l -> In e (insert x l).
  Proof.
    induction l as [|y l IH]; cbn; [intros [->|[]]; auto|]. destruct (dle (snd x) (snd y)); cbn.
    - intros [->|[->|H]]; auto.
    - intros [->|[->|H]]; auto.
  Qed.
  Lemma in_isort_back e l : In e l -> In e (isort l).
  Proof. induction l as [|x l IH]; cbn; [tauto|]. intros [->|H]; apply in_insert_back; auto. Qed.
  Lemma knn_labels (cands : list (nat * src)) t e : In e (knn cands t) -> In (fst e) (map fst cands).
  Proof.
    unfold Organise.knn. intros H. apply in_firstn, in_isort, filter_In in H as [H _].
    apply in_map_iff in H as (c & <- & Hc). cbn. apply in_map. exact Hc.
  Qed.
  Lemma knn_local_bound (pts : list src) t e : In e (knn (indexed pts) t) -> fst e < length pts.
  Proof.
    intros H. apply knn_labels in H. unfold indexed, indexed_from in H.
    assert (Hin : In (fst e) (seq 0 (length pts))).
    { revert H. generalize (seq 0 (length pts)). intros a. revert pts.
      induction a as [|x a IH]; intros [|y pts]; cbn; try tauto. intros [H|H]; [auto|right; eapply IH; exact H]. }
    apply in_seq in Hin. lia.
  Qed.

  (* the candidate filter matters only on candidates within the radius *)
  Lemma knn_filter_irrelevant (k1 k2 : src -> bool) (cands : list (nat * src)) t :
    (forall c, In c cands -> within (dist t (snd c)) = true -> k1 (snd c) = k2 (snd c)) ->
    knn (filter (fun c => k1 (snd c)) cands) t = knn (filter (fun c => k2 (snd c)) cands) t.
  Proof.
    intros H. unfold Organise.knn. do 2 f_equal.
    induction cands as [|c cands IH]; [reflexivity|]. cbn [filter].
    assert (IH' := IH (fun c' Hc => H c' (or_intror Hc))).
    destruct (within (dist t (snd c))) eqn:W.
    - rewrite (H c (or_introl eq_refl) W). destruct (k2 (snd c)); cbn; rewrite ?W, IH'; reflexivity.
    - destruct (k1 (snd c)), (k2 (snd c)); cbn; rewrite ?W, IH'; reflexivity.
  Qed.
  Lemma knn_none (cands : list (nat * src)) t :
    (forall c, In c cands -> within (dist t (snd c)) = false) -> knn cands t = [].
  Proof.
    intros H. unfold Organise.knn. rewrite filter_none; [apply firstn_nil|].
    intros e He. apply in_map_iff in He as (c & <- & Hc). cbn. apply H, Hc.
  Qed.

  Lemma in_indexed {A} (l : list A) c : In c (indexed l) -> In (snd c) l.
  Proof. destruct c as [i x]. intros H. eapply in_combine_r. exact H. Qed.

  Section Red.
    Variables (red : src -> bool) (redT : tgt -> bool).
    Notation keepS := (keepS svalid red).
    Notation keepT := (keepT tvalid redT).
    Notation query_row := (query_row dist within dle dinf k).
    Notation general_info := (general_info dist within dle dinf svalid tvalid red redT k).
    Notation create_empty_info := (create_empty_info svalid red k done).
    Notation get_neighbour_info := (get_neighbour_info dist within dle dinf svalid tvalid red redT k done).
    Notation neighbours_of := (neighbours_of dist within dle k).

    Lemma filter_indexed_nil (srcs : list src) :
      filter keepS srcs = [] -> filter (fun c : nat * src => keepS (snd c)) (indexed srcs) = [].
    Proof.
      intros H. pose proof (snd_filter_indexed keepS srcs 0) as E. rewrite H in E.
      unfold indexed. destruct (filter _ (indexed_from 0 srcs)); [reflexivity|discriminate].
    Qed.

    (* one row, mapped back *)
    Lemma canon_row_query_row (srcs : list src) t :
      canon_row (map keepS srcs) (query_row (filter keepS srcs) t) = neighbours_of keepS srcs t.
    Proof.
      unfold canon_row, Organise.query_row, Organise.neighbours_of.
      set (pts := filter keepS srcs). set (found := knn (indexed pts) t).
      rewrite positions_length. fold pts. rewrite filter_app.
      rewrite (filter_all _ found), (filter_none _ (repeat _ _)), app_nil_r.
      - change (map (rl (fun i => nth i (positions (map keepS srcs)) 0)) found = knn (filter (fun c => keepS (snd c)) (indexed srcs)) t).
        unfold found. rewrite knn_rl. f_equal. apply relabel_compacted.
      - intros e He. apply in_repeat in He. subst e. cbn. apply Nat.ltb_irrefl.
      - intros e He. apply Nat.ltb_lt. eapply knn_local_bound. exact He.
    Qed.

    Lemma canon_empty_info (srcs : list src) (tgts : list tgt) :
      filter keepS srcs = [] -> canon (create_empty_info srcs tgts) = repeat [] (length tgts).
    Proof.
      intros H. unfold canon, Organise.create_empty_info. cbn [voi vii nrows].
      rewrite scatter_const; [rewrite repeat_length; reflexivity|]. intros v Hv. apply in_map_iff in Hv as (row & <- & _).
      unfold canon_row. rewrite positions_length, H. cbn [length]. rewrite filter_none; [reflexivity|]. reflexivity.
    Qed.

    Lemma canon_general_info (srcs : list src) (tgts : list tgt) :
      canon (general_info srcs tgts) = map (fun t => if keepT t then neighbours_of keepS srcs t else []) tgts.
    Proof.
      unfold canon, Organise.general_info. cbn [voi vii nrows]. rewrite map_map, scatter_filter.
      apply map_ext. intros t. destruct (keepT t); [|reflexivity]. apply canon_row_query_row.
    Qed.

    (* the neighbour info of any call, mapped back to original source indices *)
    Lemma canon_get_neighbour_info (srcs : list src) (tgts : list tgt) :
      canon (get_neighbour_info srcs tgts) = map (fun t => if keepT t then neighbours_of keepS srcs t else []) tgts.
    Proof.
      unfold Organise.get_neighbour_info. destruct (filter keepS srcs) eqn:E.
      - rewrite canon_empty_info by exact E. rewrite <- map_const. apply map_ext. intros t.
        unfold Organise.neighbours_of. rewrite (filter_indexed_nil srcs E).
        unfold Organise.knn. cbn. rewrite firstn_nil. destruct (keepT t); reflexivity.
      - apply canon_general_info.
    Qed.

    (* _create_empty_info agrees with the general path when no candidate is left *)
    Lemma empty_info_canon (srcs : list src) (tgts : list tgt) :
      filter keepS srcs = [] -> canon (create_empty_info srcs tgts) = canon (general_info srcs tgts).
    Proof.
      intros E. pose proof (canon_get_neighbour_info srcs tgts) as H.
      unfold Organise.get_neighbour_info in H. rewrite E in H. rewrite H, canon_general_info. reflexivity.
    Qed.

    (* ---------- samples read off the canonical info ---------- *)
    Definition row_agrees (rowf : list V -> list (nat * D) -> V) (pick : list V -> list (nat * D) -> V) : Prop :=
      forall (srcs : list src) (data : list V) t, length data = length srcs ->
        rowf (compact (map keepS srcs) data) (query_row (filter keepS srcs) t)
        = pick data (canon_row (map keepS srcs) (query_row (filter keepS srcs) t)).

    Lemma nn_row_agrees : row_agrees (nn_row fill) (pick_nn fill).
    Proof.
      intros srcs data t Hlen. rewrite canon_row_query_row.
      pose proof (canon_row_query_row srcs t) as Hc. unfold canon_row in Hc. rewrite <- Hc. clear Hc.
      unfold Organise.query_row. set (pts := filter keepS srcs). set (found := knn (indexed pts) t).
      assert (Hb : forall e, In e found -> fst e < length pts) by (intros e He; eapply knn_local_bound; exact He).
      assert (Hn : length (compact (map keepS srcs) data) = length pts).
      { rewrite compact_length by (rewrite map_length; lia). apply positions_length. }
      rewrite positions_length. fold pts. rewrite filter_app, (filter_none _ (repeat _ _)), app_nil_r
        by (intros e He; apply in_repeat in He; subst e; cbn; apply Nat.ltb_irrefl).
      rewrite (filter_all _ found) by (intros e He; apply Nat.ltb_lt, Hb, He).
      destruct found as [|[j d] f'] eqn:Ef; cbn [app length].
      - cbn [map pick_nn]. destruct (k - 0) eqn:Ek; cbn [repeat nn_row]; [reflexivity|].
        rewrite Hn, Nat.eqb_refl. reflexivity.
      - cbn [nn_row map pick_nn fst snd]. specialize (Hb (j, d) (or_introl eq_refl)). cbn in Hb.
        rewrite Hn. destruct (Nat.eqb_spec j (length pts)); [lia|].
        apply compact_nth; [rewrite map_length; lia|]. rewrite positions_length. exact Hb.
    Qed.

    Lemma w_row_agrees : row_agrees (w_row fill weigh) (pick_w fill weigh).
    Proof.
      intros srcs data t Hlen.
      unfold canon_row, Organise.query_row. set (pts := filter keepS srcs). set (found := knn (indexed pts) t).
      assert (Hb : forall e, In e found -> fst e < length pts) by (intros e He; eapply knn_local_bound; exact He).
      assert (Hn : length (compact (map keepS srcs) data) = length pts).
      { rewrite compact_length by (rewrite map_length; lia). apply positions_length. }
      rewrite positions_length. fold pts. unfold w_row. rewrite Hn, !filter_app.
      rewrite !(filter_none _ (repeat _ _)), !app_nil_r.
      2:{ intros e He; apply in_repeat in He; subst e; cbn; apply Nat.ltb_irrefl. }
      2:{ intros e He; apply in_repeat in He; subst e; cbn. rewrite Nat.eqb_refl. reflexivity. }
      rewrite !(filter_all _ found).
      2:{ intros e He; apply Nat.ltb_lt, Hb, He. }
      2:{ intros e He. specialize (Hb e He). destruct (Nat.eqb_spec (fst e) (length pts)); [lia|reflexivity]. }
      assert (Hmap : map (fun e => (snd e, nth (fst e) (compact (map keepS srcs) data) fill)) found
                     = map (fun e => (snd e, nth (fst e) data fill))
                           (map (fun e => (nth (fst e) (positions (map keepS srcs)) 0, snd e)) found)).
      { rewrite map_map. apply map_ext_in. intros e He. cbn [fst snd]. f_equal.
        apply compact_nth; [rewrite map_length; lia|]. rewrite positions_length. apply Hb, He. }
      destruct found as [|e0 f']; [reflexivity|].
      unfold pick_w. cbn [map] in *. f_equal. exact Hmap.
    Qed.

    Lemma sample_by_canon rowf pick (srcs : list src) (tgts : list tgt) (data : list V) :
      row_agrees rowf pick -> pick data [] = fill -> length data = length srcs ->
      sample fill rowf (get_neighbour_info srcs tgts) data = map (pick data) (canon (get_neighbour_info srcs tgts)).
    Proof.
      intros Hrow Hnil Hlen. unfold Organise.get_neighbour_info. destruct (filter keepS srcs) eqn:E.
      - rewrite canon_empty_info by exact E. unfold sample, Organise.create_empty_info. cbn [vii voi].
        rewrite (proj2 (forallb_negb_map keepS srcs) E). cbn [orb].
        rewrite repeat_length, map_repeat, Hnil. reflexivity.
      - unfold sample, Organise.general_info. cbn [vii voi nrows].
        destruct (forallb negb (map keepS srcs)) eqn:F1.
        { apply forallb_negb_map in F1. congruence. }
        cbn [orb]. destruct (forallb negb (map keepT tgts)) eqn:F2.
        + unfold canon. cbn [voi vii nrows]. rewrite scatter_none by exact F2.
          rewrite map_repeat, Hnil. reflexivity.
        + unfold sample_general, canon. cbn [voi vii nrows]. rewrite scatter_map, Hnil, !map_map. f_equal.
          apply map_ext. intros t. apply Hrow. exact Hlen.
    Qed.

    Lemma query_row_nil t : query_row [] t = repeat (0, dinf) k.
    Proof. unfold Organise.query_row, Organise.knn. cbn. rewrite firstn_nil. cbn. now rewrite Nat.sub_0_r. Qed.

    Lemma sample_general_empty rowf (srcs : list src) (tgts : list tgt) (data : list V) :
      rowf = nn_row fill \/ rowf = w_row fill weigh -> filter keepS srcs = [] ->
      sample_general fill rowf (general_info srcs tgts) data = repeat fill (length tgts).
    Proof.
      intros Hr E. unfold sample_general, Organise.general_info. cbn [vii voi nrows].
      rewrite E, (compact_none _ data) by (apply forallb_negb_map; exact E).
      rewrite scatter_const; [now rewrite map_length|].
      intros v Hv. apply in_map_iff in Hv as (row & <- & Hrow). apply in_map_iff in Hrow as (t & <- & _).
      rewrite query_row_nil. destruct Hr; subst rowf.
      - destruct k; reflexivity.
      - unfold w_row. rewrite filter_none; [reflexivity|]. intros e He. apply in_repeat in He. now subst e.
    Qed.

    Lemma sample_empty_info rowf (srcs : list src) (tgts : list tgt) (data : list V) :
      filter keepS srcs = [] -> sample fill rowf (create_empty_info srcs tgts) data = repeat fill (length tgts).
    Proof.
      intros E. unfold sample, Organise.create_empty_info. cbn [vii voi].
      rewrite (proj2 (forallb_negb_map keepS srcs) E). cbn [orb]. now rewrite repeat_length.
    Qed.

    Lemma sample_no_outputs rowf (srcs : list src) (tgts : list tgt) (data : list V) :
      filter keepT tgts = [] ->
      sample fill rowf (general_info srcs tgts) data = sample_general fill rowf (general_info srcs tgts) data.
    Proof.
      intros E. apply forallb_negb_map in E. unfold sample, sample_general, Organise.general_info. cbn [vii voi nrows].
      rewrite E, orb_true_r, scatter_none by exact E. reflexivity.
    Qed.
  End Red.

  (* ---------- reduction ---------- *)
  Definition all_s : src -> bool := fun _ => true.
  Definition all_t : tgt -> bool := fun _ => true.
  (* H_red: the source mask keeps every legal source within the radius of some legal target *)
  Definition H_red (red : src -> bool) (srcs : list src) (tgts : list tgt) : Prop :=
    forall s t, In s srcs -> In t tgts -> svalid s = true -> tvalid t = true -> within (dist t s) = true -> red s = true.
  (* the target mask (grid -> swath) keeps every legal target within the radius of some legal source *)
  Definition H_redT (redT : tgt -> bool) (srcs : list src) (tgts : list tgt) : Prop :=
    forall s t, In s srcs -> In t tgts -> svalid s = true -> tvalid t = true -> within (dist t s) = true -> redT t = true.

  Lemma reduce_canon red redT (srcs : list src) (tgts : list tgt) :
    H_red red srcs tgts -> H_redT redT srcs tgts ->
    canon (get_neighbour_info dist within dle dinf svalid tvalid red redT k done srcs tgts)
    = canon (get_neighbour_info dist within dle dinf svalid tvalid all_s all_t k done srcs tgts).
  Proof.
    intros HS HT. rewrite !canon_get_neighbour_info. apply map_ext_in. intros t Ht.
    unfold keepT, keepS, all_t, all_s, Organise.neighbours_of. destruct (tvalid t) eqn:Vt; cbn [andb]; [|reflexivity].
    destruct (redT t) eqn:Rt.
    - apply (knn_filter_irrelevant (fun s => svalid s && red s) (fun s => svalid s && true)).
      intros c Hc W. apply in_indexed in Hc. cbn beta.
      destruct (svalid (snd c)) eqn:Vs; cbn [andb]; [|reflexivity]. apply (HS _ _ Hc Ht Vs Vt W).
    - symmetry. apply knn_none. intros c Hc. apply filter_In in Hc as [Hc Hk]. apply in_indexed in Hc.
      apply andb_prop in Hk as [Vs _]. destruct (within (dist t (snd c))) eqn:W; [|reflexivity].
      rewrite (HT _ _ Hc Ht Vs Vt W) in Rt. discriminate.
  Qed.

  Lemma reduce_sample rowf pick red redT (srcs : list src) (tgts : list tgt) (data : list V) :
    (forall r, row_agrees r rowf pick) -> pick data [] = fill -> length data = length srcs ->
    H_red red srcs tgts -> H_redT redT srcs tgts ->
    resample dist within dle dinf svalid tvalid red redT k done fill rowf srcs tgts data
    = resample dist within dle dinf svalid tvalid all_s all_t k done fill rowf srcs tgts data.
  Proof.
    intros Hrow Hnil Hlen HS HT. unfold resample.
    rewrite !(sample_by_canon _ _ rowf pick) by auto. f_equal. apply reduce_canon; assumption.
  Qed.
End Pipe.
