(* C05: histories of calls on ONE resampler object give each call the neighbour info of its own arguments. *)
From Coq Require Import ZArith List Lia Bool.
From PR Require Import Model.BlockwiseValid.
Import ListNotations.
Open Scope Z_scope.

Section CacheProofs.
  Context {Arg Key Info : Type}.
  Variable key : Arg -> Key.
  Variable key_eqb : Key -> Key -> bool.
  Variable compute : Arg -> Info.
  Hypothesis key_eqb_spec : forall k k', key_eqb k k' = true <-> k = k'.
  (* the cache key separates calls that need different neighbour info (dask names are content tokens) *)
  Hypothesis key_separates : forall a a', key a = key a' -> compute a = compute a'.

  Definition cache_ok (c : cache) : Prop :=
    forall k v, lookup key_eqb c k = Some v -> exists a, key a = k /\ compute a = v.

  Lemma precompute_ok c a : cache_ok c -> cache_ok (precompute key key_eqb compute c a).
  Proof.
    intros H. unfold precompute. destruct (lookup key_eqb c (key a)) eqn:E; [exact H|].
    intros k v Hl. cbn in Hl. destruct (key_eqb k (key a)) eqn:Ek.
    - inversion Hl; subst. apply key_eqb_spec in Ek. exists a. split; [symmetry; exact Ek|reflexivity].
    - apply H. exact Hl.
  Qed.

  Lemma resample_info_correct c a : cache_ok c ->
    snd (resample_info key key_eqb compute c a) = Some (compute a).
  Proof.
    intros H. unfold resample_info, precompute. cbn [snd]. destruct (lookup key_eqb c (key a)) eqn:E.
    - rewrite E. destruct (H _ _ E) as (a' & Hk & Hv). rewrite <- Hv. f_equal. apply key_separates. exact Hk.
    - cbn. assert (Hr : key_eqb (key a) (key a) = true) by (apply key_eqb_spec; reflexivity). rewrite Hr. reflexivity.
  Qed.

  Theorem cache_history h : forall c, cache_ok c ->
    run key key_eqb compute c h = map (fun a => Some (compute a)) h.
  Proof.
    induction h as [|a h IH]; intros c Hc; cbn [run map]; [reflexivity|].
    pose proof (resample_info_correct c a Hc) as Hr. unfold resample_info in *. cbn [snd] in Hr. rewrite Hr.
    f_equal. apply IH. apply precompute_ok. exact Hc.
  Qed.

  Lemma empty_cache_ok : cache_ok [].
  Proof. intros k v H. discriminate. Qed.

  (* legacy object: a Sample right after GetInfo a uses a's info whatever happened before *)
  Theorem legacy_history h : forall st a,
    last (run_legacy compute st (h ++ [GetInfo a; Sample])) None = Some (compute a).
  Proof.
    induction h as [|c h IH]; intros st a; [reflexivity|]. cbn [app]. destruct c as [b|]; cbn [run_legacy].
    - apply IH.
    - specialize (IH st a). destruct (run_legacy compute st (h ++ [GetInfo a; Sample])) eqn:E; [discriminate|]. exact IH.
  Qed.
End CacheProofs.
