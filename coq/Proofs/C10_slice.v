(* C10 -- AreaDefinition.__getitem__ over the reals: the sliced area's coordinates are the slice of the
   parent's, shape, crop_offset, and composition of chains of slices (induction over the chain). *)
From Coq Require Import Reals ZArith List Lra Lia Bool.
From Flocq Require Import Raux.
From PR Require Import Base.Num Base.RNum Base.Slice Model.Grid Proofs.Grid_real Model.SliceArea Gen.GenC10
     Proofs.C10_list.
Import ListNotations.
Open Scope R_scope.

(* ---- the regenerated __getitem__ is the hand model (over the reals) *)
Lemma trunc_div1 (n : Z) : Ztrunc (IZR n / IZR 1) = n.
Proof. replace (IZR n / IZR 1) with (IZR n) by field. apply Ztrunc_IZR. Qed.

Lemma gen_getitem_eq g key : gen_area_getitem RO g key = area_getitem RO g key.
Proof.
  destruct key as [ys xs]. unfold gen_area_getitem, area_getitem, slice3, slice_extent, slice_extent_centre, half, gpul, garea_extent, area_extent.
  cbn -[indices IZR Ztrunc Z.modulo Rdiv].
  rewrite !trunc_div1, !Z.mod_1_r, !Z.sub_0_r.
  reflexivity.
Qed.

(* ---- well-formedness and windows *)
Definition wf_g (g : garea R) : Prop := (1 <= gwidth g)%Z /\ (1 <= gheight g)%Z.
(* a normalised window with at least one element inside [0, n] *)
Definition win (s : pslice) (n : Z) : Prop := (0 <= sstart s)%Z /\ (sstart s < sstop s)%Z /\ (sstop s <= n)%Z.

Lemma win_of_indices s n : (0 <= n)%Z -> (1 <= slen (indices s n))%Z -> win (indices s n) n.
Proof. intros Hn H. destruct (indices_bounds s n Hn). unfold win, slen in *. lia. Qed.
Lemma win_within s n : win s n -> within s n.
Proof. unfold win, within. lia. Qed.
Lemma win_slen s n : win s n -> slen s = (sstop s - sstart s)%Z.
Proof. unfold win, slen. lia. Qed.

Lemma indices_okey s n : within s n -> indices (okey s) n = s.
Proof.
  destruct s as [a b]. unfold within, indices, okey, adj; cbn. intros (H1 & H2 & H3 & H4).
  destruct (Z.ltb_spec a 0); [lia|]. destruct (Z.ltb_spec b 0); [lia|].
  f_equal; lia.
Qed.
Lemma indices_none n : indices (mk_oslice None None) n = mk_slice 0 n.
Proof. reflexivity. Qed.

Lemma tuple4_eq {A} (a b c d a' b' c' d' : A) : a = a' -> b = b' -> c = c' -> d = d' -> (a, b, c, d) = (a', b', c', d').
Proof. intros; subst; reflexivity. Qed.

(* ---- the extent of a slice in canonical form: corners move by whole pixels *)
Lemma slice_extent_canonical g yi xi : wf_g g ->
  slice_extent RO g yi xi =
  (xmin (g_area g) + IZR (sstart xi) * dxR (g_area g),
   ymax (g_area g) - IZR (sstop yi) * dyR (g_area g),
   xmin (g_area g) + IZR (sstop xi) * dxR (g_area g),
   ymax (g_area g) - IZR (sstart yi) * dyR (g_area g)).
Proof.
  intros [Hw Hh]. unfold slice_extent, slice_extent_centre, half, gpsx, gpsy, upl_x, upl_y. rewrite psx_eq, psy_eq. cbn.
  unfold gwidth, gheight, dxR, dyR in *.
  assert (IZR (width (g_area g)) <> 0) by (apply IZR_pos_of in Hw; lra).
  assert (IZR (height (g_area g)) <> 0) by (apply IZR_pos_of in Hh; lra).
  apply tuple4_eq.
  - destruct (Z.eqb_spec (sstart xi) 0) as [->|_]; field; assumption.
  - destruct (Z.eqb_spec (sstop yi) (height (g_area g))) as [->|_]; field; assumption.
  - destruct (Z.eqb_spec (sstop xi) (width (g_area g))) as [->|_]; field; assumption.
  - destruct (Z.eqb_spec (sstart yi) 0) as [->|_]; field; assumption.
Qed.

(* the sliced area (extent + shape) *)
Definition sl_area (g : garea R) (yi xi : pslice) : area R :=
  mk_area (xmin (g_area g) + IZR (sstart xi) * dxR (g_area g))
          (ymax (g_area g) - IZR (sstop yi) * dyR (g_area g))
          (xmin (g_area g) + IZR (sstop xi) * dxR (g_area g))
          (ymax (g_area g) - IZR (sstart yi) * dyR (g_area g))
          (sstop xi - sstart xi) (sstop yi - sstart yi).

Lemma getitem_area g ys xs : wf_g g ->
  g_area (area_getitem RO g (ys, xs)) = sl_area g (indices ys (gheight g)) (indices xs (gwidth g)).
Proof.
  intros W. unfold area_getitem. cbn [set_crop_offset g_area]. rewrite slice_extent_canonical by exact W. reflexivity.
Qed.
Lemma getitem_meta g key :
  g_id (area_getitem RO g key) = g_id g /\ g_desc (area_getitem RO g key) = g_desc g /\
  g_pid (area_getitem RO g key) = g_pid g /\ g_crs (area_getitem RO g key) = g_crs g.
Proof. destruct key. unfold area_getitem, new_area. destruct (slice_extent _ _ _ _) as [[[? ?] ?] ?]. cbn. auto. Qed.
Lemma getitem_off g ys xs :
  g_off (area_getitem RO g (ys, xs)) =
  ((fst (g_off g) + sstart (indices ys (gheight g)))%Z, (snd (g_off g) + sstart (indices xs (gwidth g)))%Z).
Proof. reflexivity. Qed.

Lemma sl_dx g yi xi : (sstart xi < sstop xi)%Z -> dxR (sl_area g yi xi) = dxR (g_area g).
Proof.
  intros H. unfold sl_area, dxR at 1; cbn. rewrite minus_IZR.
  assert (IZR (sstop xi) - IZR (sstart xi) <> 0) by (apply IZR_lt in H; lra).
  field. assumption.
Qed.
Lemma sl_dy g yi xi : (sstart yi < sstop yi)%Z -> dyR (sl_area g yi xi) = dyR (g_area g).
Proof.
  intros H. unfold sl_area, dyR at 1; cbn. rewrite minus_IZR.
  assert (IZR (sstop yi) - IZR (sstart yi) <> 0) by (apply IZR_lt in H; lra).
  field. assumption.
Qed.

(* coordinates of pixel j of the slice = coordinates of pixel start+j of the parent *)
Lemma sl_proj_x g yi xi j : (sstart xi < sstop xi)%Z ->
  proj_x RO (sl_area g yi xi) j = proj_x RO (g_area g) (sstart xi + j).
Proof.
  intros H. rewrite !proj_x_canonical, sl_dx by exact H. cbn [sl_area xmin]. rewrite plus_IZR. lra.
Qed.
Lemma sl_proj_y g yi xi r : (sstart yi < sstop yi)%Z ->
  proj_y RO (sl_area g yi xi) r = proj_y RO (g_area g) (sstart yi + r).
Proof.
  intros H. rewrite !proj_y_canonical, sl_dy by exact H. cbn [sl_area ymax]. rewrite plus_IZR. lra.
Qed.

(* ---- vectors *)
Lemma nth_error_zrange s n i : nth_error (zrange s n) i = if (i <? n)%nat then Some (s + Z.of_nat i)%Z else None.
Proof.
  revert s i. induction n as [|n IH]; intros s i.
  - destruct i; reflexivity.
  - destruct i as [|i]; cbn -[Nat.ltb Z.of_nat].
    + change (0 <? S n)%nat with true. cbv iota. f_equal. lia.
    + rewrite IH. change (S i <? S n)%nat with (i <? n)%nat. destruct (i <? n)%nat; [f_equal; lia|reflexivity].
Qed.
Lemma length_zrange s n : length (zrange s n) = n.
Proof. revert s. induction n as [|n IH]; intros s; cbn; [reflexivity|]. rewrite IH. reflexivity. Qed.
Lemma take_slice_zrange (a b n : Z) : (0 <= a)%Z -> (a <= b)%Z -> (b <= n)%Z ->
  take_slice (mk_slice a b) (zrange 0 (Z.to_nat n)) = zrange a (Z.to_nat (b - a)).
Proof.
  intros Ha Hab Hbn. apply nth_error_ext'. intros i.
  rewrite nth_error_take_slice, !nth_error_zrange. cbn [sstart sstop].
  destruct (Nat.ltb_spec i (Z.to_nat (b - a))); [|reflexivity].
  destruct (Nat.ltb_spec (Z.to_nat a + i) (Z.to_nat n)); [|lia]. f_equal. lia.
Qed.
Lemma map_zrange_shift {B} (f : Z -> B) (a s : Z) n :
  map (fun j => f (a + j)%Z) (zrange s n) = map f (zrange (a + s) n).
Proof.
  revert s. induction n as [|n IH]; intros s; cbn; [reflexivity|].
  f_equal. rewrite IH. f_equal. f_equal. lia.
Qed.

Lemma zlen_gvec_x g : (0 <= gwidth g)%Z -> zlen (gvec_x RO g) = gwidth g.
Proof. intros H. unfold zlen, gvec_x, proj_vector_x, gwidth in *. rewrite map_length, length_zrange. lia. Qed.
Lemma zlen_gvec_y g : (0 <= gheight g)%Z -> zlen (gvec_y RO g) = gheight g.
Proof. intros H. unfold zlen, gvec_y, proj_vector_y, gheight in *. rewrite map_length, length_zrange. lia. Qed.

Lemma vec_x_slice g yi xi : win xi (gwidth g) ->
  proj_vector_x RO (sl_area g yi xi) = take_slice xi (gvec_x RO g).
Proof.
  intros (H0 & H1 & H2). unfold gvec_x, proj_vector_x. rewrite <- map_take_slice.
  destruct xi as [a b]; cbn [sstart sstop] in *.
  rewrite take_slice_zrange by (unfold gwidth in H2; lia).
  cbn [sl_area width]. cbn [sstart sstop].
  transitivity (map (fun j => proj_x RO (g_area g) (a + j)) (zrange 0 (Z.to_nat (b - a)))).
  - apply map_ext. intros j. apply (sl_proj_x g yi (mk_slice a b) j). exact H1.
  - rewrite map_zrange_shift, Z.add_0_r. reflexivity.
Qed.
Lemma vec_y_slice g yi xi : win yi (gheight g) ->
  proj_vector_y RO (sl_area g yi xi) = take_slice yi (gvec_y RO g).
Proof.
  intros (H0 & H1 & H2). unfold gvec_y, proj_vector_y. rewrite <- map_take_slice.
  destruct yi as [a b]; cbn [sstart sstop] in *.
  rewrite take_slice_zrange by (unfold gheight in H2; lia).
  cbn [sl_area height]. cbn [sstart sstop].
  transitivity (map (fun j => proj_y RO (g_area g) (a + j)) (zrange 0 (Z.to_nat (b - a)))).
  - apply map_ext. intros j. apply (sl_proj_y g (mk_slice a b) xi j). exact H1.
  - rewrite map_zrange_shift, Z.add_0_r. reflexivity.
Qed.

(* ---- the main law: coords (area[key]) = coords(area)[key] *)
Definition sel_ok (g : garea R) (key : oslice * oslice) : Prop :=
  (1 <= slen (indices (fst key) (gheight g)))%Z /\ (1 <= slen (indices (snd key) (gwidth g)))%Z.

Lemma getitem_vectors g key : wf_g g -> sel_ok g key ->
  gvec_x RO (area_getitem RO g key) = np_slice (snd key) (gvec_x RO g) /\
  gvec_y RO (area_getitem RO g key) = np_slice (fst key) (gvec_y RO g).
Proof.
  intros [Hw Hh] [Sy Sx]. destruct key as [ys xs]; cbn [fst snd] in *.
  unfold np_slice. rewrite zlen_gvec_x, zlen_gvec_y by lia.
  unfold gvec_x at 1, gvec_y at 1. rewrite getitem_area by (split; assumption). split.
  - apply vec_x_slice. apply win_of_indices; lia.
  - apply vec_y_slice. apply win_of_indices; lia.
Qed.

(* 2-D coordinate arrays through any pointwise map of (x, y) -- e.g. PROJ's inverse -> (lon, lat) *)
Lemma getitem_coords {C} (inv : R -> R -> C) g key : wf_g g -> sel_ok g key ->
  grid_of inv (gvec_x RO (area_getitem RO g key)) (gvec_y RO (area_getitem RO g key)) =
  np_slice2 key (grid_of inv (gvec_x RO g) (gvec_y RO g)).
Proof.
  intros W S. destruct (getitem_vectors g key W S) as [-> ->]. apply grid_slice_commute.
Qed.

Lemma getitem_shape g key : wf_g g -> sel_ok g key ->
  gheight (area_getitem RO g key) = slen (indices (fst key) (gheight g)) /\
  gwidth (area_getitem RO g key) = slen (indices (snd key) (gwidth g)).
Proof.
  intros [Hw Hh] [Sy Sx]. destruct key as [ys xs]; cbn [fst snd] in *.
  unfold gheight at 1, gwidth at 1. rewrite getitem_area by (split; assumption). cbn [sl_area height width].
  pose proof (win_of_indices ys (gheight g) ltac:(lia) Sy) as Wy.
  pose proof (win_of_indices xs (gwidth g) ltac:(lia) Sx) as Wx.
  rewrite (win_slen _ _ Wy), (win_slen _ _ Wx). split; reflexivity.
Qed.
Lemma getitem_wf g key : wf_g g -> sel_ok g key -> wf_g (area_getitem RO g key).
Proof. intros W S. destruct (getitem_shape g key W S) as [H1 H2]. destruct S. unfold wf_g. rewrite H1, H2. lia. Qed.

(* ---- composition *)
Lemma garea_eq (g1 g2 : garea R) :
  g_area g1 = g_area g2 -> g_off g1 = g_off g2 -> g_id g1 = g_id g2 -> g_desc g1 = g_desc g2 ->
  g_pid g1 = g_pid g2 -> g_crs g1 = g_crs g2 -> g1 = g2.
Proof. destruct g1, g2; cbn; intros; subst; reflexivity. Qed.

Lemma sl_area_sl_area g yi xi sy sx : (sstart yi < sstop yi)%Z -> (sstart xi < sstop xi)%Z ->
  forall g', g_area g' = sl_area g yi xi ->
  sl_area g' sy sx = sl_area g (shift (sstart yi) sy) (shift (sstart xi) sx).
Proof.
  intros Hy Hx g' E. unfold sl_area at 1. rewrite E, sl_dx, sl_dy by assumption.
  unfold sl_area, shift; cbn [xmin ymax sstart sstop]. rewrite !plus_IZR.
  f_equal; try lra; lia.
Qed.

(* a slice of a slice is the slice with the composed (shifted) windows -- as a full record equality *)
Lemma getitem_getitem g key sy sx : wf_g g -> sel_ok g key ->
  within sy (slen (indices (fst key) (gheight g))) -> within sx (slen (indices (snd key) (gwidth g))) ->
  area_getitem RO (area_getitem RO g key) (okey sy, okey sx) =
  area_getitem RO g (okey (shift (sstart (indices (fst key) (gheight g))) sy),
                     okey (shift (sstart (indices (snd key) (gwidth g))) sx)).
Proof.
  intros W S Wy Wx. pose proof W as [Hw Hh]. pose proof S as [Sy Sx].
  destruct key as [ys xs]; cbn [fst snd] in *.
  pose proof (win_of_indices ys (gheight g) ltac:(lia) Sy) as Wiy.
  pose proof (win_of_indices xs (gwidth g) ltac:(lia) Sx) as Wix.
  destruct (getitem_shape g (ys, xs) W S) as [Eh Ew]; cbn [fst snd] in *.
  set (yi := indices ys (gheight g)) in *. set (xi := indices xs (gwidth g)) in *.
  assert (Wsy : within (shift (sstart yi) sy) (gheight g)).
  { unfold within, shift, win, slen in *; cbn [sstart sstop]. lia. }
  assert (Wsx : within (shift (sstart xi) sx) (gwidth g)).
  { unfold within, shift, win, slen in *; cbn [sstart sstop]. lia. }
  apply garea_eq.
  - rewrite (getitem_area (area_getitem RO g (ys, xs))) by (apply getitem_wf; [exact W|split; assumption]).
    rewrite (getitem_area g) by exact W. rewrite Eh, Ew. rewrite !indices_okey by assumption.
    apply sl_area_sl_area; [unfold win in Wiy; lia|unfold win in Wix; lia|].
    apply getitem_area. exact W.
  - rewrite !getitem_off. rewrite Eh, Ew. rewrite !indices_okey by assumption.
    cbn [fst snd shift sstart]. fold yi xi. f_equal; lia.
  - destruct (getitem_meta (area_getitem RO g (ys, xs)) (okey sy, okey sx)) as (-> & _).
    destruct (getitem_meta g (ys, xs)) as (-> & _).
    destruct (getitem_meta g (okey (shift (sstart yi) sy), okey (shift (sstart xi) sx))) as (-> & _). reflexivity.
  - destruct (getitem_meta (area_getitem RO g (ys, xs)) (okey sy, okey sx)) as (_ & -> & _).
    destruct (getitem_meta g (ys, xs)) as (_ & -> & _).
    destruct (getitem_meta g (okey (shift (sstart yi) sy), okey (shift (sstart xi) sx))) as (_ & -> & _). reflexivity.
  - destruct (getitem_meta (area_getitem RO g (ys, xs)) (okey sy, okey sx)) as (_ & _ & -> & _).
    destruct (getitem_meta g (ys, xs)) as (_ & _ & -> & _).
    destruct (getitem_meta g (okey (shift (sstart yi) sy), okey (shift (sstart xi) sx))) as (_ & _ & -> & _). reflexivity.
  - destruct (getitem_meta (area_getitem RO g (ys, xs)) (okey sy, okey sx)) as (_ & _ & _ & ->).
    destruct (getitem_meta g (ys, xs)) as (_ & _ & _ & ->).
    destruct (getitem_meta g (okey (shift (sstart yi) sy), okey (shift (sstart xi) sx))) as (_ & _ & _ & ->). reflexivity.
Qed.

(* the full window is the identity (over the reals) *)
Lemma getitem_full g : wf_g g ->
  area_getitem RO g (okey (mk_slice 0 (gheight g)), okey (mk_slice 0 (gwidth g))) = g.
Proof.
  intros [Hw Hh].
  assert (W1 : within (mk_slice 0 (gheight g)) (gheight g)) by (unfold within; cbn; lia).
  assert (W2 : within (mk_slice 0 (gwidth g)) (gwidth g)) by (unfold within; cbn; lia).
  apply garea_eq; try (destruct g; reflexivity).
  - rewrite getitem_area by (split; assumption). rewrite !indices_okey by assumption. unfold sl_area; cbn [sstart sstop].
    destruct g as [[x0 y0 x1 y1 w h] off i d p c]; unfold gwidth, gheight, dxR, dyR in *; cbn in *.
    assert (IZR w <> 0) by (apply IZR_pos_of in Hw; lra).
    assert (IZR h <> 0) by (apply IZR_pos_of in Hh; lra).
    f_equal; try lia; field; assumption.
  - rewrite getitem_off, !indices_okey by assumption. cbn [sstart]. destruct (g_off g). cbn. f_equal; lia.
Qed.

Lemma chain_ok_sel g ys xs r : chain_ok (gheight g) (gwidth g) ((ys, xs) :: r) ->
  sel_ok g (ys, xs) /\ chain_ok (slen (indices ys (gheight g))) (slen (indices xs (gwidth g))) r.
Proof. cbn. unfold sel_ok; cbn. tauto. Qed.

(* chains: induction over the list of successive keys *)
Lemma getitem_chain keys : forall g, wf_g g -> chain_ok (gheight g) (gwidth g) keys ->
  fold_left (area_getitem RO) keys g =
  area_getitem RO g (okey (compose_all (gheight g) (map fst keys)), okey (compose_all (gwidth g) (map snd keys))).
Proof.
  induction keys as [|[ys xs] r IH]; intros g W C; cbn [fold_left map compose_all fst snd].
  - symmetry. apply getitem_full. exact W.
  - destruct (chain_ok_sel g ys xs r C) as [S C'].
    destruct (getitem_shape g (ys, xs) W S) as [Eh Ew]; cbn [fst snd] in *.
    rewrite IH; [|apply getitem_wf; assumption|rewrite Eh, Ew; exact C'].
    rewrite Eh, Ew. destruct W as [Hw Hh]. destruct S as [Sy Sx]; cbn [fst snd] in *.
    apply (getitem_getitem g (ys, xs)); try (split; assumption).
    + apply compose_all_within. cbn [fst]. lia.
    + apply compose_all_within. cbn [snd]. lia.
Qed.

(* the composed windows select at least one row / column when every step does *)
Lemma slen_shift a s : slen (shift a s) = slen s.
Proof. unfold slen, shift; cbn. f_equal. lia. Qed.

Lemma chain_compose_sel keys : forall h w, (0 <= h)%Z -> (0 <= w)%Z -> chain_ok h w keys -> (1 <= h)%Z -> (1 <= w)%Z ->
  (1 <= slen (compose_all h (map fst keys)))%Z /\ (1 <= slen (compose_all w (map snd keys)))%Z.
Proof.
  induction keys as [|[ys xs] r IH]; intros h w Hh Hw C H1 H2; cbn [map compose_all fst snd].
  - unfold slen; cbn. lia.
  - destruct C as (Sy & Sx & C').
    specialize (IH (slen (indices ys h)) (slen (indices xs w)) ltac:(lia) ltac:(lia) C' Sy Sx).
    rewrite !slen_shift. exact IH.
Qed.
