(* C11: AreaDefinition.get_area_slices on different CRSs, the arithmetic AFTER the spherical intersection (oracle):
   slice(min(idx), max(idx) + 1) over the array indices of the intersection vertices, then (optionally)
   _make_slice_divisible (property C19).  *)
From Coq Require Import ZArith List Lia Bool.
From PR Require Import Base.ZX Base.Slice Model.Partition Gen.GenSubset Proofs.C19_divisible.
Import ListNotations.
Open Scope Z_scope.

Definition idx_min (x0 : Z) (xs : list Z) : Z := fold_right Z.min x0 xs.
Definition idx_max (x0 : Z) (xs : list Z) : Z := fold_right Z.max x0 xs.
(* x_slice = slice(np.ma.min(x), np.ma.max(x) + 1) *)
Definition vertex_slice (x0 : Z) (xs : list Z) : pslice := mk_slice (idx_min x0 xs) (idx_max x0 xs + 1).

Lemma idx_min_spec x0 xs : (forall i, In i (x0 :: xs) -> idx_min x0 xs <= i) /\ In (idx_min x0 xs) (x0 :: xs).
Proof.
  induction xs as [|x xs [IH1 IH2]].
  - cbn. split; [intros i H; destruct H as [E|E]; [subst; lia|contradiction]|left; reflexivity].
  - unfold idx_min in *. cbn [fold_right]. split.
    + intros i H. destruct H as [E|[E|H]].
      * subst i. specialize (IH1 x0 (or_introl eq_refl)). lia.
      * subst i. lia.
      * specialize (IH1 i (or_intror H)). lia.
    + destruct (Z.min_spec x (fold_right Z.min x0 xs)) as [[_ ->]|[_ ->]].
      * right; left; reflexivity.
      * destruct IH2 as [E|H]; [left; exact E|right; right; exact H].
Qed.
Lemma idx_max_spec x0 xs : (forall i, In i (x0 :: xs) -> i <= idx_max x0 xs) /\ In (idx_max x0 xs) (x0 :: xs).
Proof.
  induction xs as [|x xs [IH1 IH2]].
  - cbn. split; [intros i H; destruct H as [E|E]; [subst; lia|contradiction]|left; reflexivity].
  - unfold idx_max in *. cbn [fold_right]. split.
    + intros i H. destruct H as [E|[E|H]].
      * subst i. specialize (IH1 x0 (or_introl eq_refl)). lia.
      * subst i. lia.
      * specialize (IH1 i (or_intror H)). lia.
    + destruct (Z.max_spec x (fold_right Z.max x0 xs)) as [[_ ->]|[_ ->]].
      * destruct IH2 as [E|H]; [left; exact E|right; right; exact H].
      * right; left; reflexivity.
Qed.

(* the slice holds the index of every vertex of the intersection and is the tight hull of them *)
Lemma vertex_slice_hull x0 xs :
  (forall i, In i (x0 :: xs) -> sstart (vertex_slice x0 xs) <= i < sstop (vertex_slice x0 xs)) /\
  In (sstart (vertex_slice x0 xs)) (x0 :: xs) /\ In (sstop (vertex_slice x0 xs) - 1) (x0 :: xs).
Proof.
  destruct (idx_min_spec x0 xs) as [A1 A2]. destruct (idx_max_spec x0 xs) as [B1 B2].
  unfold vertex_slice; cbn [sstart sstop]. split; [|split].
  - intros i H. specialize (A1 i H). specialize (B1 i H). lia.
  - exact A2.
  - replace (idx_max x0 xs + 1 - 1) with (idx_max x0 xs) by lia. exact B2.
Qed.

(* composition with C19: with shape_divisible_by the adjusted slice is a proper slice of the axis, has a divisible
   length when the axis allows it, and still holds every vertex index whenever the rounded-up length fits *)
Lemma vertex_slice_divisible x0 xs size factor :
  (forall i, In i (x0 :: xs) -> 0 <= i < size) -> 0 < factor ->
  let s := vertex_slice x0 xs in
  let r := gen_make_slice_divisible s size factor in
  divisible_good s r size factor /\
  (cdiv (sstop s - sstart s) factor * factor <= size -> forall i, In i (x0 :: xs) -> sstart r <= i < sstop r).
Proof.
  intros Hin Hf s r.
  destruct (vertex_slice_hull x0 xs) as (H1 & H2 & H3). fold s in H1, H2, H3.
  pose proof (Hin _ H2) as L. pose proof (Hin _ H3) as U.
  assert (S0 : sstart s < sstop s) by (specialize (H1 _ H2); lia).
  assert (G : divisible_good s r size factor) by (apply make_divisible_spec; lia).
  split; [exact G|].
  intros Room i Hi. destruct G as (_ & _ & _ & _ & C). specialize (C Room). specialize (H1 i Hi). lia.
Qed.

Example vertex_slice_ex : vertex_slice 7 [3; 9; 5] = mk_slice 3 10
  /\ gen_make_slice_divisible (vertex_slice 7 [3; 9; 5]) 12 4 = mk_slice 3 11.
Proof. split; reflexivity. Qed.

(* both axes of the different-CRS branch: the x slice is adjusted within the source WIDTH, the y slice within its HEIGHT *)
Definition adjust (s : pslice) (size : Z) (factor : option Z) : pslice :=
  match factor with None => s | Some f => gen_make_slice_divisible s size f end.
Definition gas_diff_slices (x0 : Z) (xs : list Z) (y0 : Z) (ys : list Z) (width height : Z) (factor : option Z) : pslice * pslice :=
  (adjust (vertex_slice x0 xs) width factor, adjust (vertex_slice y0 ys) height factor).

Lemma gas_diff_slices_keep x0 xs y0 ys width height factor :
  (forall i, In i (x0 :: xs) -> 0 <= i < width) -> (forall j, In j (y0 :: ys) -> 0 <= j < height) ->
  match factor with Some f => 0 < f | None => True end ->
  let '(sx, sy) := gas_diff_slices x0 xs y0 ys width height factor in
  let fits (s : pslice) (size : Z) := match factor with
                                      | Some f => cdiv (sstop s - sstart s) f * f <= size | None => True end in
  0 <= sstart sx < sstop sx /\ sstop sx <= width /\ 0 <= sstart sy < sstop sy /\ sstop sy <= height /\
  (fits (vertex_slice x0 xs) width -> forall i, In i (x0 :: xs) -> sstart sx <= i < sstop sx) /\
  (fits (vertex_slice y0 ys) height -> forall j, In j (y0 :: ys) -> sstart sy <= j < sstop sy).
Proof.
  intros Hx Hy Hf. unfold gas_diff_slices, adjust.
  destruct (vertex_slice_hull x0 xs) as (X1 & X2 & X3). destruct (vertex_slice_hull y0 ys) as (Y1 & Y2 & Y3).
  pose proof (Hx _ X2). pose proof (Hx _ X3). pose proof (Hy _ Y2). pose proof (Hy _ Y3).
  pose proof (X1 _ X2). pose proof (Y1 _ Y2).
  destruct factor as [f|].
  - destruct (vertex_slice_divisible x0 xs width f Hx Hf) as [(A1 & A2 & A3 & _) A].
    destruct (vertex_slice_divisible y0 ys height f Hy Hf) as [(B1 & B2 & B3 & _) B].
    cbv zeta in A1, A2, A3, B1, B2, B3, A, B.
    split; [lia|]. split; [lia|]. split; [lia|]. split; [lia|]. split; [exact A | exact B].
  - split; [lia|]. split; [lia|]. split; [lia|]. split; [lia|].
    split; intros _ k Hk; [apply X1 | apply Y1]; exact Hk.
Qed.

Example gas_diff_ex : gas_diff_slices 0 [252] 3 [40] 400 100 (Some 2) = (mk_slice 0 254, mk_slice 3 41).
Proof. reflexivity. Qed.
