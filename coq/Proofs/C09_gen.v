(* C09: the kernels regenerated from _gradient_search.pyx on every run ARE the model's kernels (for every arithmetic). *)
From Coq Require Import ZArith Bool List Lia.
From PR Require Import Base.Num Base.Slice Model.Blockwise Model.Gradient Gen.GenC09.
Open Scope Z_scope.

Ltac zb := repeat match goal with
  | |- context [?x >? ?y] => rewrite (Z.gtb_ltb x y)
  | |- context [?x >=? ?y] => rewrite (Z.geb_leb x y)
  end.
Ltac split_ifs := repeat match goal with
  | |- context [if ?c then _ else _] => destruct c eqn:?; cbn [andb] in *
  end.

Section GenTie.
  Context {T : Type} (OP : ops T).

  Lemma gen_nn_axis l0 dl lmax :
    (if andb (ltb OP dl (neg OP (lit OP 1 (-1)))) (l0 >? 0) then l0 - 1
     else if andb (ltb OP (lit OP 1 (-1)) dl) (l0 <? lmax) then l0 + 1 else l0) = nn_axis OP l0 dl lmax.
  Proof. unfold nn_axis, half. zb. reflexivity. Qed.

  Theorem gen_nn_eq data l0 p0 dl dp lmax pmax :
    gen_nn OP data l0 p0 dl dp lmax pmax = nn_kern OP data lmax pmax l0 p0 dl dp.
  Proof.
    unfold gen_nn, nn_kern. cbv zeta. rewrite <- !gen_nn_axis.
    first [ reflexivity | f_equal; zb; split_ifs; try reflexivity; lia ].
  Qed.

  Theorem gen_bil_eq data l0 p0 dl dp lmax pmax :
    gen_bil OP data l0 p0 dl dp lmax pmax = bil_kern OP data lmax pmax l0 p0 dl dp.
  Proof.
    unfold gen_bil, bil_kern, bil_axis, bil_sum, zeroT, oneT. cbv zeta.
    destruct (ltb OP dl (ofZ OP 0)); destruct (ltb OP dp (ofZ OP 0)); reflexivity.
  Qed.

  Theorem gen_indices_xy_eq data l0 p0 dl dp lmax pmax :
    gen_indices_xy OP data l0 p0 dl dp lmax pmax = idx_kern OP l0 p0 dl dp.
  Proof. reflexivity. Qed.
End GenTie.
