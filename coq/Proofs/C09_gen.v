(* C09: the kernels regenerated from _gradient_search.pyx on every run ARE the model's kernels (for every arithmetic). *)
From Coq Require Import ZArith Bool List Lia.
From PR Require Import Base.Num Base.Slice Model.Blockwise Model.Gradient Gen.GenC09.
Open Scope Z_scope.

Ltac zb := repeat match goal with
  | |- context [?x >? ?y] => rewrite (Z.gtb_ltb x y)
  | |- context [?x >=? ?y] => rewrite (Z.geb_leb x y)
  end.
Ltac split_ifs := repeat match goal with
  | |- context [if ?c then _ else _] => destruct c eqn:?; cbn [andb] in *
  end.

Section GenTie.
  Context {T : Type} (OP : ops T).

  Lemma gen_nn_axis l0 dl lmax :
    (if andb (ltb OP dl (neg OP (lit OP 1 (-1)))) (l0 >? 0) then l0 - 1
     else if andb (ltb OP (lit OP 1 (-1)) dl) (l0 <? lmax) then l0 + 1 else l0) = nn_axis OP l0 dl lmax.
  Proof. unfold nn_axis, half. zb. reflexivity. Qed.

  Theorem gen_nn_eq data l0 p0 dl dp lmax pmax :
    gen_nn OP data l0 p0 dl dp lmax pmax = nn_kern OP data lmax pmax l0 p0 dl dp.
  Proof.
    unfold gen_nn, nn_kern. cbv zeta. rewrite <- !gen_nn_axis.
    first [ reflexivity | f_equal; zb; split_ifs; try reflexivity; lia ].
  Qed.

  Theorem gen_bil_eq data l0 p0 dl dp lmax pmax :
    gen_bil OP data l0 p0 dl dp lmax pmax = bil_kern OP data lmax pmax l0 p0 dl dp.
  Proof.
    unfold gen_bil, bil_kern, bil_axis, bil_sum, zeroT, oneT. cbv zeta.
    destruct (ltb OP dl (ofZ OP 0)); destruct (ltb OP dp (ofZ OP 0)); reflexivity.
  Qed.

  (* the tail of gradient_resampler_indices: += crop offsets *)
  Theorem gen_indices_offset_eq ys xs xy : gen_indices_offset OP (ys, xs) xy = add_offset OP ys xs xy.
  Proof. destruct xy as [x y]. reflexivity. Qed.

  Theorem gen_indices_xy_eq data l0 p0 dl dp lmax pmax :
    gen_indices_xy OP data l0 p0 dl dp lmax pmax = idx_kern OP l0 p0 dl dp.
  Proof. reflexivity. Qed.
End GenTie.

(* ---------------- the element-wise cores of gradient/__init__.py, regenerated from the source ---------------- *)
From Coq Require Import Reals Lra.
From Flocq Require Import Zaux Raux Generic_fmt Round_NE.
From PR Require Import Base.RNum.

Section GenBlocks.
  Open Scope R_scope.
  Lemma fmax_IZR z m : fmax RO (IZR z) (IZR m) = IZR (Z.max z m).
  Proof.
    unfold fmax. cbn [ltb RO]. destruct (Rltb (IZR z) (IZR m)) eqn:E.
    - apply Rltb_true in E. apply lt_IZR in E. f_equal. lia.
    - apply Rltb_false in E. apply le_IZR in E. f_equal. lia.
  Qed.
  Lemma fmin_IZR z m : fmin RO (IZR z) (IZR m) = IZR (Z.min z m).
  Proof.
    unfold fmin. cbn [ltb RO]. destruct (Rltb (IZR m) (IZR z)) eqn:E.
    - apply Rltb_true in E. apply lt_IZR in E. f_equal. lia.
    - apply Rltb_false in E. apply le_IZR in E. f_equal. lia.
  Qed.
  Lemma trunc_clip_rint x m : truncZ RO (clipF RO (rintT RO x) (ofZ RO 0) (ofZ RO m)) = clipZ (rintZ RO x) 0 m.
  Proof. unfold clipF, rintT, clipZ. cbn [ofZ rintZ truncZ RO]. rewrite fmax_IZR, fmin_IZR. apply Ztrunc_IZR. Qed.

  (* _get_mask_and_adjusted_indices on a valued pixel (the reals have no NaN: "no value" is [None] in the model) *)
  Theorem gen_mask_adjust_RO x y ys xs :
    gen_mask_adjust RO (x, y) (ys, xs) = mask_adjust RO ys xs (Some (x, y)).
  Proof. reflexivity. Qed.

  Theorem gen_block_nn_RO Dc ny nx x y fill ys xs :
    gen_block_nn RO (mk_arr2 (ny, nx) Dc) (x, y) fill (ys, xs)
    = block_nn RO Dc ny nx (x - IZR (sstart xs)) (y - IZR (sstart ys)).
  Proof.
    unfold gen_block_nn, gen_mask_adjust, block_nn, whereT, nan_to_num. cbn [isnan sub ofZ RO arr_shape arr_get].
    rewrite !trunc_clip_rint. reflexivity.
  Qed.

  Theorem gen_block_bil_RO Dc ny nx x y fill ys xs :
    gen_block_bil RO (mk_arr2 (ny, nx) Dc) (x, y) fill (ys, xs)
    = block_bil RO Dc ny nx (x - IZR (sstart xs)) (y - IZR (sstart ys)).
  Proof.
    unfold gen_block_bil, gen_mask_adjust, block_bil, block_bil_axis, clipT, modfT, whereT, nan_to_num, bil_sum, zeroT, oneT.
    cbn [isnan sub add mul ofZ truncZ RO arr_shape arr_get]. rewrite !Ztrunc_IZR. reflexivity.
  Qed.
End GenBlocks.
