(* C06 — plain real-number facts: convexity of the weights, the quadratic of _calc_abc IS the collinearity
   condition, roots of a quadratic whose end values have opposite signs, the bilinear inverse. *)
From Coq Require Import Reals ZArith Bool Lra Lia Psatz.
From PR Require Import Base.Num Base.RNum Model.Bilinear Model.BilinearRN.
Open Scope R_scope.

(* ---------- weights *)
Lemma weights_convex s t : in01 s -> in01 t ->
  in01 ((1 - s) * (1 - t)) /\ in01 (s * (1 - t)) /\ in01 ((1 - s) * t) /\ in01 (s * t) /\
  (1 - s) * (1 - t) + s * (1 - t) + (1 - s) * t + s * t = 1.
Proof. unfold in01. intros [Hs0 Hs1] [Ht0 Ht1]. repeat split; nra. Qed.

Lemma resample_RO_bilerp p1 p2 p3 p4 s t : resample RO p1 p2 p3 p4 s t = bilerp p1 p2 p3 p4 s t.
Proof. reflexivity. Qed.

Lemma bilerp_weights p1 p2 p3 p4 s t :
  bilerp p1 p2 p3 p4 s t = (1 - s) * (1 - t) * p1 + s * (1 - t) * p2 + (1 - s) * t * p3 + s * t * p4.
Proof. unfold bilerp. ring. Qed.

Lemma bilerp_bounded p1 p2 p3 p4 s t lo hi : in01 s -> in01 t ->
  lo <= p1 <= hi -> lo <= p2 <= hi -> lo <= p3 <= hi -> lo <= p4 <= hi ->
  lo <= bilerp p1 p2 p3 p4 s t <= hi.
Proof.
  intros Hs Ht H1 H2 H3 H4. destruct (weights_convex s t Hs Ht) as (W1 & W2 & W3 & W4 & S).
  rewrite bilerp_weights. unfold in01 in *.
  set (w1 := (1 - s) * (1 - t)) in *. set (w2 := s * (1 - t)) in *. set (w3 := (1 - s) * t) in *. set (w4 := s * t) in *.
  split; nra.
Qed.

Lemma bilerp_constant c s t : bilerp c c c c s t = c.
Proof. unfold bilerp. ring. Qed.

(* an affine function commutes with the bilinear combination *)
Lemma bilerp_affine c0 cx cy x1 x2 x3 x4 y1 y2 y3 y4 s t :
  bilerp (c0 + cx * x1 + cy * y1) (c0 + cx * x2 + cy * y2) (c0 + cx * x3 + cy * y3) (c0 + cx * x4 + cy * y4) s t
  = c0 + cx * bilerp x1 x2 x3 x4 s t + cy * bilerp y1 y2 y3 y4 s t.
Proof. unfold bilerp. ring. Qed.

(* ---------- the quadratic of _calc_abc *)
Lemma calc_abc_RO_collinear p1 p2 p3 p4 oy ox t :
  let '(a, b, c) := calc_abc RO p1 p2 p3 p4 oy ox in
  let ax := fst p1 + t * (fst p3 - fst p1) in let ay := snd p1 + t * (snd p3 - snd p1) in
  let bx := fst p2 + t * (fst p4 - fst p2) in let by_ := snd p2 + t * (snd p4 - snd p2) in
  a * t * t + b * t + c = (bx - ax) * (oy - ay) - (by_ - ay) * (ox - ax).
Proof. destruct p1, p2, p3, p4. cbn. ring. Qed.

(* end values of the quadratic when the corners surround the target: c = q(0) < 0 < q(1) = a + b + c *)
Lemma calc_abc_RO_ends p1 p2 p3 p4 ox oy : surrounds p1 p2 p3 p4 ox oy ->
  let '(a, b, c) := calc_abc RO p1 p2 p3 p4 oy ox in c < 0 /\ 0 < a + b + c.
Proof.
  destruct p1 as [x1 y1], p2 as [x2 y2], p3 as [x3 y3], p4 as [x4 y4]. unfold surrounds. cbn.
  intros (H1 & H2 & H3 & H4 & H5 & H6 & H7 & H8). split; nra.
Qed.
(* with pt_2 and pt_3 exchanged (the quadratic for s): q(0) > 0 > q(1) *)
Lemma calc_abc_RO_ends_swapped p1 p2 p3 p4 ox oy : surrounds p1 p2 p3 p4 ox oy ->
  let '(a, b, c) := calc_abc RO p1 p3 p2 p4 oy ox in 0 < c /\ a + b + c < 0.
Proof.
  destruct p1 as [x1 y1], p2 as [x2 y2], p3 as [x3 y3], p4 as [x4 y4]. unfold surrounds. cbn.
  intros (H1 & H2 & H3 & H4 & H5 & H6 & H7 & H8). split; nra.
Qed.

(* ---------- a quadratic with q(0) q(1) < 0 *)
Lemma disc_pos a b c : c * (a + b + c) < 0 -> 0 < b * b - 4 * a * c.
Proof. intros H. replace (b * b - 4 * a * c) with ((b + 2 * c) * (b + 2 * c) - 4 * (c * (a + b + c))) by ring.
  pose proof (Rle_0_sqr (b + 2 * c)) as Hs. unfold Rsqr in Hs. lra. Qed.

Lemma quad_root_plus a b c : a <> 0 -> 0 <= b * b - 4 * a * c ->
  let r := (- b + sqrt (b * b - 4 * a * c)) / (2 * a) in a * r * r + b * r + c = 0.
Proof.
  intros Ha HD. cbv zeta. set (d := sqrt (b * b - 4 * a * c)).
  assert (Hd : d * d = b * b - 4 * a * c) by (apply sqrt_sqrt; exact HD).
  assert (E : a * ((- b + d) / (2 * a)) * ((- b + d) / (2 * a)) + b * ((- b + d) / (2 * a)) + c
              = (d * d - (b * b - 4 * a * c)) / (4 * a)) by (field; exact Ha).
  rewrite E, Hd. field. exact Ha.
Qed.
Lemma quad_root_minus a b c : a <> 0 -> 0 <= b * b - 4 * a * c ->
  let r := (- b - sqrt (b * b - 4 * a * c)) / (2 * a) in a * r * r + b * r + c = 0.
Proof.
  intros Ha HD. cbv zeta. set (d := sqrt (b * b - 4 * a * c)).
  assert (Hd : d * d = b * b - 4 * a * c) by (apply sqrt_sqrt; exact HD).
  assert (E : a * ((- b - d) / (2 * a)) * ((- b - d) / (2 * a)) + b * ((- b - d) / (2 * a)) + c
              = (d * d - (b * b - 4 * a * c)) / (4 * a)) by (field; exact Ha).
  rewrite E, Hd. field. exact Ha.
Qed.

(* if the first root is not in [0,1] the second one is (strictly) *)
Lemma quad_other_root_inside a b c : a <> 0 -> c * (a + b + c) < 0 ->
  let r1 := (- b + sqrt (b * b - 4 * a * c)) / (2 * a) in
  let r2 := (- b - sqrt (b * b - 4 * a * c)) / (2 * a) in
  ~ in01 r1 -> 0 < r2 < 1.
Proof.
  intros Ha H. cbv zeta. pose proof (disc_pos a b c H) as HD.
  set (d := sqrt (b * b - 4 * a * c)).
  assert (Hd : d * d = b * b - 4 * a * c) by (apply sqrt_sqrt; lra).
  set (r1 := (- b + d) / (2 * a)). set (r2 := (- b - d) / (2 * a)).
  assert (Hsum : a * (r1 + r2) = - b) by (unfold r1, r2; field; exact Ha).
  assert (Hprod : a * (r1 * r2) = c).
  { unfold r1, r2. replace ((- b + d) / (2 * a) * ((- b - d) / (2 * a))) with ((b * b - d * d) / (4 * a * a)) by (field; exact Ha).
    rewrite Hd. field. exact Ha. }
  assert (Hq1 : a + b + c = a * ((1 - r1) * (1 - r2))) by (rewrite <- Hprod; replace b with (- (a * (r1 + r2))) by lra; ring).
  assert (Ha2 : 0 < a * a) by nra.
  assert (HPQ : (r1 * (1 - r1)) * (r2 * (1 - r2)) < 0).
  { assert (E : c * (a + b + c) = (a * a) * ((r1 * (1 - r1)) * (r2 * (1 - r2)))) by (rewrite Hq1, <- Hprod; ring).
    rewrite E in H. nra. }
  unfold in01. intros Hout.
  assert (HP : r1 * (1 - r1) < 0) by (destruct (Rlt_dec r1 0); [nra | assert (1 < r1) by lra; nra]).
  assert (HQ : 0 < r2 * (1 - r2)) by nra.
  split; nra.
Qed.

(* the linear case a = 0 *)
Lemma linear_root_inside b c : c * (b + c) < 0 -> b <> 0 /\ 0 < - c / b < 1.
Proof.
  intros H. assert (Hb : b <> 0) by (intros ->; nra). split; [exact Hb|].
  assert (Hb2 : 0 < b * b) by nra.
  assert (E : (- c / b) * (1 - - c / b) = - (c * (b + c)) / (b * b)) by (field; exact Hb).
  assert (0 < (- c / b) * (1 - - c / b)).
  { rewrite E. apply Rdiv_lt_0_compat; lra. }
  split; nra.
Qed.

(* ---------- the bilinear inverse: a root t of the quadratic and s = (oy - A_y) / (B_y - A_y) give out = bilerp *)
Lemma inverse_from_root x1 y1 x2 y2 x3 y3 x4 y4 ox oy t s :
  let ax := x1 + t * (x3 - x1) in let ay := y1 + t * (y3 - y1) in
  let bx := x2 + t * (x4 - x2) in let by_ := y2 + t * (y4 - y2) in
  (bx - ax) * (oy - ay) - (by_ - ay) * (ox - ax) = 0 ->
  by_ - ay <> 0 -> s * (by_ - ay) = oy - ay ->
  ox = bilerp x1 x2 x3 x4 s t /\ oy = bilerp y1 y2 y3 y4 s t.
Proof.
  cbv zeta. intros Hc Hden Hs. unfold bilerp.
  set (ax := x1 + t * (x3 - x1)) in *. set (ay := y1 + t * (y3 - y1)) in *.
  set (bx := x2 + t * (x4 - x2)) in *. set (by_ := y2 + t * (y4 - y2)) in *.
  assert (Ey : oy = ay + s * (by_ - ay)) by lra.
  assert (Ex : ox - ax = s * (bx - ax)).
  { apply (Rmult_eq_reg_l (by_ - ay)); [|exact Hden].
    replace ((by_ - ay) * (s * (bx - ax))) with ((bx - ax) * (s * (by_ - ay))) by ring. rewrite Hs. lra. }
  split.
  - replace (x1 * (1 - s) * (1 - t) + x2 * s * (1 - t) + x3 * (1 - s) * t + x4 * s * t) with (ax + s * (bx - ax)) by (unfold ax, bx; ring). lra.
  - replace (y1 * (1 - s) * (1 - t) + y2 * s * (1 - t) + y3 * (1 - s) * t + y4 * s * t) with (ay + s * (by_ - ay)) by (unfold ay, by_; ring). lra.
Qed.
