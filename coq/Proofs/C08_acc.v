(* C08: what fornav writes to a grid cell.  The grid state after the scan equals, cell by cell, a fold over the
   contributions that cell receives (generic in the arithmetic); over the reals the average mode yields the fill or
   a weighted mean of valid inputs (hence within their range, constants preserved) and the maximum weight mode yields
   the fill or the value of a valid contributing input with maximal weight. *)
From Coq Require Import Reals ZArith Lra Lia List Bool Psatz.
From Flocq Require Import Zaux Raux.
From PR Require Import Base.Num Base.RNum Model.EWA.
Import ListNotations.

Lemma cell_eqb_eq (a b : cell) : cell_eqb a b = true <-> a = b.
Proof.
  destruct a as [a1 a2], b as [b1 b2]. unfold cell_eqb. cbn. rewrite andb_true_iff, !Z.eqb_eq.
  split; [intros [-> ->]; reflexivity | intros E; inversion E; auto].
Qed.

Section Generic.
  Context {T : Type} (OP : ops T).

  Lemma acc_fp_cell mwm v (fp : list (cell * T)) (g : cell -> T * T) c :
    fold_left (fun g cw => upd g (fst cw) (step OP mwm v (g (fst cw)) (snd cw))) fp g c
    = fold_cell OP mwm (map (fun cw => (v, snd cw)) (filter (fun cw => cell_eqb (fst cw) c) fp)) (g c).
  Proof.
    revert g. induction fp as [|[c1 w] fp IH]; intros g; [reflexivity|].
    cbn [fold_left filter fst snd]. rewrite IH. unfold upd at 1.
    destruct (cell_eqb c1 c) eqn:E.
    - apply cell_eqb_eq in E. subst c1. cbn [map]. unfold fold_cell. cbn [fold_left fst snd]. reflexivity.
    - reflexivity.
  Qed.

  Lemma acc_pixel_cell mwm (g : cell -> T * T) p c :
    acc_pixel OP mwm g p c = fold_cell OP mwm (contribs_px c p) (g c).
  Proof.
    unfold acc_pixel, contribs_px. destruct (px_val p) as [v|]; [apply acc_fp_cell | reflexivity].
  Qed.

  Lemma fold_cell_app mwm l1 l2 s :
    fold_cell OP mwm (l1 ++ l2) s = fold_cell OP mwm l2 (fold_cell OP mwm l1 s).
  Proof. unfold fold_cell. apply fold_left_app. Qed.

  (* the grid after the scan, at one cell, is the fold of that cell's contributions *)
  Lemma accumulate_cell mwm pixels (g : cell -> T * T) c :
    accumulate OP mwm pixels g c = fold_cell OP mwm (contribs pixels c) (g c).
  Proof.
    revert g. induction pixels as [|p ps IH]; intros g; [reflexivity|].
    unfold accumulate in *. cbn [fold_left]. rewrite IH. unfold contribs. cbn [flat_map].
    rewrite fold_cell_app. rewrite acc_pixel_cell. reflexivity.
  Qed.

  Lemma contribs_app (l1 l2 : list (pixel T)) c : contribs (l1 ++ l2) c = contribs l1 c ++ contribs l2 c.
  Proof. unfold contribs. apply flat_map_app. Qed.

  Lemma contribs_concat (ls : list (list (pixel T))) c :
    contribs (concat ls) c = concat (map (fun l => contribs l c) ls).
  Proof.
    induction ls as [|l ls IH]; [reflexivity|]. cbn [concat map]. rewrite contribs_app, IH. reflexivity.
  Qed.

  (* a contribution comes from a valid pixel whose footprint contains the cell *)
  Lemma In_contribs (pixels : list (pixel T)) (c : cell) (v w : T) :
    In (v, w) (contribs pixels c) <->
    exists p, In p pixels /\ px_val p = Some v /\ In (c, w) (px_fp p).
  Proof.
    unfold contribs. rewrite in_flat_map. split.
    - intros (p & Hp & Hin). exists p. split; [assumption|]. unfold contribs_px in Hin.
      destruct (px_val p) as [v'|]; [|contradiction].
      apply in_map_iff in Hin. destruct Hin as ([c' w'] & E & Hf). cbn in E. inversion E; subst.
      apply filter_In in Hf. destruct Hf as [Hf1 Hf2]. cbn in Hf2. apply cell_eqb_eq in Hf2. subst. auto.
    - intros (p & Hp & Hv & Hin). exists p. split; [assumption|]. unfold contribs_px. rewrite Hv.
      apply in_map_iff. exists (c, w). split; [reflexivity|]. apply filter_In. split; [assumption|].
      cbn. apply cell_eqb_eq. reflexivity.
  Qed.

  (* NaN / fill pixels never contribute *)
  Lemma contribs_invalid (fp : list (cell * T)) c : contribs_px c (mk_pixel (@None T) fp) = [].
  Proof. reflexivity. Qed.

  Lemma invalid_pixel_ignored mwm (l1 l2 : list (pixel T)) p (g : cell -> T * T) c :
    px_val p = None ->
    accumulate OP mwm (l1 ++ p :: l2) g c = accumulate OP mwm (l1 ++ l2) g c.
  Proof.
    intros Hv. rewrite !accumulate_cell. f_equal.
    rewrite !contribs_app. f_equal. unfold contribs. cbn [flat_map]. unfold contribs_px at 1. rewrite Hv. reflexivity.
  Qed.
End Generic.

(* ------------------------------------------------------------------ reals *)
Open Scope R_scope.

Definition sumw (l : list (R * R)) : R := fold_right (fun vw s => snd vw + s) 0 l.
Definition sumvw (l : list (R * R)) : R := fold_right (fun vw s => fst vw * snd vw + s) 0 l.

Lemma fold_cell_cons {T} (OP : ops T) mwm (x : T * T) l s :
  fold_cell OP mwm (x :: l) s = fold_cell OP mwm l (step OP mwm (fst x) s (snd x)).
Proof. reflexivity. Qed.

Lemma fold_avg l W A : fold_cell RO false l (W, A) = (W + sumw l, A + sumvw l).
Proof.
  revert W A. induction l as [|[v w] l IH]; intros W A.
  - cbn. f_equal; lra.
  - rewrite fold_cell_cons. cbn [fst snd].
    change (step RO false v (W, A) w) with (W + w, A + v * w).
    rewrite IH. unfold sumw, sumvw. cbn [fold_right fst snd]. f_equal; lra.
Qed.

Lemma sums_bounded l lo hi :
  (forall v w, In (v, w) l -> 0 < w /\ lo <= v <= hi) ->
  0 <= sumw l /\ lo * sumw l <= sumvw l <= hi * sumw l.
Proof.
  induction l as [|[v w] l IH]; intros H.
  - cbn. lra.
  - destruct (H v w (or_introl eq_refl)) as [Hw Hv].
    destruct IH as [I1 I2]; [intros; apply H; right; assumption|].
    unfold sumw, sumvw in *. cbn [fold_right fst snd].
    split; [lra|]. nra.
Qed.

Lemma sumw_nonneg l : (forall v w, In (v, w) l -> 0 < w) -> 0 <= sumw l.
Proof.
  induction l as [|[v w] l IH]; intros H; [cbn; lra|].
  pose proof (H v w (or_introl eq_refl)).
  assert (0 <= sumw l) by (apply IH; intros; eapply H; right; eauto).
  unfold sumw in *. cbn [fold_right snd]. lra.
Qed.

Lemma sumw_ge l v w : (forall v w, In (v, w) l -> 0 < w) -> In (v, w) l -> w <= sumw l.
Proof.
  induction l as [|[v' w'] l IH]; intros H Hin; [contradiction|].
  assert (Hl : forall v w, In (v, w) l -> 0 < w) by (intros; eapply H; right; eauto).
  pose proof (sumw_nonneg l Hl). pose proof (H v' w' (or_introl eq_refl)).
  destruct Hin as [E|Hin].
  - inversion E; subst. unfold sumw in *. cbn [fold_right snd]. lra.
  - pose proof (IH Hl Hin). unfold sumw in *. cbn [fold_right snd]. lra.
Qed.

Lemma sumw_pos l : l <> [] -> (forall v w, In (v, w) l -> 0 < w) -> 0 < sumw l.
Proof.
  destruct l as [|[v w] l]; [congruence|]. intros _ H.
  pose proof (H v w (or_introl eq_refl)).
  pose proof (sumw_ge ((v, w) :: l) v w H (or_introl eq_refl)). lra.
Qed.

(* write_grid_image over the reals (no NaN): threshold, then the stored value / the quotient *)
Lemma write_cell_R mwm smin W A :
  write_cell RO mwm smin 0 (W, A) =
  if Rltb W smin then None else Some (if mwm then A else A / W).
Proof.
  unfold write_cell. cbn [ltb leb isnan RO orb add sub div ofZ].
  destruct (Rltb W smin); [reflexivity|]. cbn [orb].
  destruct mwm; [reflexivity|]. destruct (Rleb 0 A); f_equal; lra.
Qed.

(* ---- average mode *)
Theorem fornav_avg_mean pixels c smin :
  fornav_cell_s RO false smin 0 pixels c =
  let l := contribs pixels c in
  if Rltb (sumw l) smin then None else Some (sumvw l / sumw l).
Proof.
  unfold fornav_cell_s. rewrite accumulate_cell. unfold zero_grid. cbn [ofZ RO].
  rewrite fold_avg. rewrite write_cell_R. cbn zeta. rewrite !Rplus_0_l. reflexivity.
Qed.

Theorem fornav_bounded pixels c smin lo hi :
  0 < smin ->
  (forall p v w, In p pixels -> px_val p = Some v -> In (c, w) (px_fp p) -> 0 < w /\ lo <= v <= hi) ->
  match fornav_cell_s RO false smin 0 pixels c with
  | None => True
  | Some r => lo <= r <= hi
  end.
Proof.
  intros Hs H. rewrite fornav_avg_mean. cbn zeta.
  destruct (Rltb (sumw (contribs pixels c)) smin) eqn:E; [exact I|].
  apply Rltb_false in E.
  destruct (sums_bounded (contribs pixels c) lo hi) as [H0 [H1 H2]].
  { intros v w Hin. apply In_contribs in Hin. destruct Hin as (p & Hp & Hv & Hc). eauto. }
  assert (HW : 0 < sumw (contribs pixels c)) by lra.
  split.
  - apply Rmult_le_reg_r with (sumw (contribs pixels c)); [assumption|].
    unfold Rdiv. rewrite Rmult_assoc, Rinv_l by lra. lra.
  - apply Rmult_le_reg_r with (sumw (contribs pixels c)); [assumption|].
    unfold Rdiv. rewrite Rmult_assoc, Rinv_l by lra. lra.
Qed.

(* a value is written as soon as the contributions reach the threshold: the statement above is not vacuous *)
Theorem fornav_written pixels c smin :
  smin <= sumw (contribs pixels c) -> fornav_cell_s RO false smin 0 pixels c <> None.
Proof.
  intros H. rewrite fornav_avg_mean. cbn zeta.
  destruct (Rltb (sumw (contribs pixels c)) smin) eqn:E; [apply Rltb_true in E; lra | discriminate].
Qed.

Theorem fornav_constant pixels c smin k :
  0 < smin ->
  (forall p v w, In p pixels -> px_val p = Some v -> In (c, w) (px_fp p) -> 0 < w /\ v = k) ->
  fornav_cell_s RO false smin 0 pixels c = None \/ fornav_cell_s RO false smin 0 pixels c = Some k.
Proof.
  intros Hs H.
  pose proof (fornav_bounded pixels c smin k k Hs) as B.
  destruct (fornav_cell_s RO false smin 0 pixels c) as [r|]; [right | left; reflexivity].
  f_equal. assert (k <= r <= k); [|lra].
  apply B. intros p v w Hp Hv Hc. destruct (H p v w Hp Hv Hc) as [? ->]. lra.
Qed.

(* ---- maximum weight mode *)
Definition maxw_spec (l : list (R * R)) (s : R * R) : Prop :=
  In (snd s, fst s) l /\ forall v w, In (v, w) l -> w <= fst s.

Lemma fold_max_inv l s :
  (fold_cell RO true l s = s /\ forall v w, In (v, w) l -> w <= fst s) \/
  (fst s < fst (fold_cell RO true l s) /\ maxw_spec l (fold_cell RO true l s)).
Proof.
  revert s. induction l as [|[v w] l IH]; intros s.
  - left. split; [reflexivity | intros ? ? []].
  - rewrite fold_cell_cons. cbn [fst snd].
    change (step RO true v s w) with (if Rltb (fst s) w then (w, v) else s).
    destruct (Rltb (fst s) w) eqn:E.
    + apply Rltb_true in E. right.
      destruct (IH (w, v)) as [[E1 H1]|[H1 [H2 H3]]].
      * rewrite E1. cbn [fst snd]. split; [assumption|]. split; [left; reflexivity|].
        intros v' w' [Eq|Hin]; [inversion Eq; subst; cbn [fst]; lra | eapply H1; eauto].
      * cbn [fst] in H1. split; [lra|]. split; [right; assumption|].
        intros v' w' [Eq|Hin]; [inversion Eq; subst; lra | eapply H3; eauto].
    + apply Rltb_false in E.
      destruct (IH s) as [[E1 H1]|[H1 [H2 H3]]].
      * left. split; [assumption|]. intros v' w' [Eq|Hin]; [inversion Eq; subst; lra | eapply H1; eauto].
      * right. split; [assumption|]. split; [right; assumption|].
        intros v' w' [Eq|Hin]; [inversion Eq; subst; lra | eapply H3; eauto].
Qed.

Theorem fornav_maxweight pixels c smin :
  0 < smin ->
  match fornav_cell_s RO true smin 0 pixels c with
  | None => True
  | Some r => exists p w, In p pixels /\ px_val p = Some r /\ In (c, w) (px_fp p) /\
                          (forall p' v' w', In p' pixels -> px_val p' = Some v' -> In (c, w') (px_fp p') -> w' <= w)
  end.
Proof.
  intros Hs. unfold fornav_cell_s. rewrite accumulate_cell. unfold zero_grid. cbn [ofZ RO].
  destruct (fold_cell RO true (contribs pixels c) (0, 0)) as [W A] eqn:Ef.
  rewrite write_cell_R.
  destruct (Rltb W smin) eqn:E; [exact I|]. apply Rltb_false in E.
  destruct (fold_max_inv (contribs pixels c) (0, 0)) as [[E1 _]|[_ [H2 H3]]].
  - rewrite Ef in E1. inversion E1; subst. lra.
  - rewrite Ef in H2, H3. cbn [fst snd] in *.
    apply In_contribs in H2. destruct H2 as (p & Hp & Hv & Hc).
    exists p, W. repeat split; try assumption.
    intros p' v' w' Hp' Hv' Hc'. apply (H3 v' w'). apply In_contribs. eauto.
Qed.
