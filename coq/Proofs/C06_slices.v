(* C06 — the row/column look-up tables address the compacted ("valid") source pixel the kd-tree index refers to. *)
From Coq Require Import ZArith List Bool Lia.
From PR Require Import Model.Bilinear.
Import ListNotations.
Open Scope Z_scope.

(* valid_positions p valid = the flat positions (offset p) of the True entries, in increasing order *)
Lemma valid_positions_spec valid : forall p f,
  In f (valid_positions p valid) <-> (p <= f < p + Z.of_nat (length valid) /\ nth (Z.to_nat (f - p)) valid false = true).
Proof.
  induction valid as [|b r IH]; intros p f; cbn [valid_positions length].
  - split; [intros []|]. lia.
  - assert (Hr : In f (valid_positions (p + 1) r) <-> (p + 1 <= f < p + 1 + Z.of_nat (length r) /\ nth (Z.to_nat (f - (p + 1))) r false = true)) by apply IH.
    assert (Hn : forall x, p + 1 <= f -> nth (Z.to_nat (f - p)) (x :: r) false = nth (Z.to_nat (f - (p + 1))) r false).
    { intros x Hf. replace (Z.to_nat (f - p)) with (S (Z.to_nat (f - (p + 1)))) by lia. reflexivity. }
    destruct b.
    + cbn [In]. rewrite Hr. split.
      * intros [<-|[H1 H2]]; [split; [lia|]; replace (p - p) with 0 by lia; reflexivity|].
        split; [lia|]. rewrite Hn by lia. exact H2.
      * intros [H1 H2]. destruct (Z.eq_dec p f) as [E|E]; [left; exact E|right]. split; [lia|]. rewrite <- (Hn true) by lia. exact H2.
    + rewrite Hr. split.
      * intros [H1 H2]. split; [lia|]. rewrite Hn by lia. exact H2.
      * intros [H1 H2]. destruct (Z.eq_dec p f) as [E|E].
        -- subst f. replace (p - p) with 0 in H2 by lia. cbn in H2. discriminate.
        -- split; [lia|]. rewrite <- (Hn false) by lia. exact H2.
Qed.

(* (line, column) of a compacted index recombine to the flat position of that valid pixel *)
Lemma line_col_flat ncols valid idx : 0 < ncols ->
  let '(line, col) := line_col ncols valid idx in
  line * ncols + col = znth 0 (valid_positions 0 valid) idx /\ 0 <= col < ncols.
Proof.
  intros H. unfold line_col. set (f := znth 0 (valid_positions 0 valid) idx).
  pose proof (Z.div_mod f ncols ltac:(lia)). pose proof (Z.mod_pos_bound f ncols H). lia.
Qed.

(* every table entry built from an in-range compacted index points at a pixel whose valid flag is True *)
Lemma line_col_valid ncols valid idx : 0 < ncols -> 0 <= idx < Z.of_nat (length (valid_positions 0 valid)) ->
  let '(line, col) := line_col ncols valid idx in
  nth (Z.to_nat (line * ncols + col)) valid false = true.
Proof.
  intros H Hi. pose proof (line_col_flat ncols valid idx H) as Hf. destruct (line_col ncols valid idx) as [line col].
  destruct Hf as [Hf _]. rewrite Hf. unfold znth. destruct (idx <? 0) eqn:E; [lia|].
  assert (Hin : In (nth (Z.to_nat idx) (valid_positions 0 valid) 0) (valid_positions 0 valid)) by (apply nth_In; lia).
  apply valid_positions_spec in Hin. destruct Hin as [_ Hv]. rewrite Z.sub_0_r in Hv. exact Hv.
Qed.
