(* C09 over the reals: on an affine source coordinate field with non-zero determinant the Newton step is exact. *)
From Coq Require Import Reals ZArith Lra Lia Bool List Psatz.
From Flocq Require Import Zaux Raux.
From PR Require Import Base.Num Base.RNum Base.Slice Model.Blockwise Model.Gradient.
Import ListNotations.
Open Scope R_scope.

Lemma Reqb_false a b : Reqb a b = false <-> a <> b.
Proof. unfold Reqb; destruct (Req_EM_T a b); split; intros; try easy. Qed.

(* the C cast on the range the search stays in *)
Lemma c_int_range (x : R) (hi : Z) : 0 <= x <= IZR hi -> (hi < 2 ^ 31)%Z ->
  c_int RO x = Zfloor x /\ (0 <= Zfloor x <= hi)%Z.
Proof.
  intros [H0 H1] Hhi.
  assert (Hf0 : (0 <= Zfloor x)%Z) by (apply Zfloor_lub; exact H0).
  assert (Hf1 : (Zfloor x <= hi)%Z).
  { apply le_IZR. apply Rle_trans with x; [apply Zfloor_lb | exact H1]. }
  split; [| lia]. unfold c_int. cbn [isfinite RO truncZ].
  rewrite Ztrunc_floor by exact H0. unfold int_min.
  destruct (Z.leb_spec (- 2 ^ 31) (Zfloor x)); [| lia].
  destruct (Z.ltb_spec (Zfloor x) (2 ^ 31)); [reflexivity | lia].
Qed.

Section Affine.
  Variables x0 y0 a b c e : R.
  Hypothesis Hdet : c * b - e * a <> 0.

  (* sx(l,p) = x0 + a l + b p, sy(l,p) = y0 + c l + e p, and their (constant) gradients *)
  Definition affF : fields R :=
    mk_fields (fun l p => x0 + a * IZR l + b * IZR p) (fun l p => y0 + c * IZR l + e * IZR p)
              (fun _ _ => a) (fun _ _ => b) (fun _ _ => c) (fun _ _ => e).
  (* the exact fractional source line / pixel of a point (tx, ty): the inverse of the affine map *)
  Definition exactL (tx ty : R) : R := (b * (ty - y0) - e * (tx - x0)) / (c * b - e * a).
  Definition exactP (tx ty : R) : R := (c * (tx - x0) - a * (ty - y0)) / (c * b - e * a).

  Lemma exact_is_inverse tx ty :
    x0 + a * exactL tx ty + b * exactP tx ty = tx /\ y0 + c * exactL tx ty + e * exactP tx ty = ty.
  Proof. unfold exactL, exactP. split; field; exact Hdet. Qed.
  Lemma exact_of_affine L P :
    exactL (x0 + a * L + b * P) (y0 + c * L + e * P) = L /\ exactP (x0 + a * L + b * P) (y0 + c * L + e * P) = P.
  Proof. unfold exactL, exactP. split; field; exact Hdet. Qed.

  Variables lmax pmax : Z.
  Variables tx ty : R.
  Let L := exactL tx ty.
  Let P := exactP tx ty.

  (* one body execution from an in-image position *)
  Lemma newton_unfold k l0 p0 : in_image lmax pmax l0 p0 = true ->
    newton RO affF lmax pmax tx ty (S k) l0 p0 =
      if Rltb (Rabs (P - IZR p0)) 1 && Rltb (Rabs (L - IZR l0)) 1 then Conv l0 p0 (L - IZR l0) (P - IZR p0)
      else newton RO affF lmax pmax tx ty k (c_int RO (IZR l0 + (L - IZR l0))) (c_int RO (IZR p0 + (P - IZR p0))).
  Proof.
    intros Hin. cbn [newton]. rewrite Hin. cbn [affF f_sx f_sy f_xl f_xp f_yl f_yp sub mul div add eqb ltb absf RO ofZ].
    unfold zeroT, oneT. cbn [ofZ RO].
    assert (E : Reqb (c * b - e * a) 0 = false) by (apply Reqb_false; exact Hdet). rewrite E.
    assert (EL : (b * (ty - (y0 + c * IZR l0 + e * IZR p0)) - e * (tx - (x0 + a * IZR l0 + b * IZR p0))) / (c * b - e * a)
                 = L - IZR l0) by (unfold L, exactL; field; exact Hdet).
    assert (EP : (c * (tx - (x0 + a * IZR l0 + b * IZR p0)) - a * (ty - (y0 + c * IZR l0 + e * IZR p0))) / (c * b - e * a)
                 = P - IZR p0) by (unfold P, exactP; field; exact Hdet).
    rewrite EL, EP. reflexivity.
  Qed.

  Lemma in_image_spec l0 p0 : in_image lmax pmax l0 p0 = true <-> (0 <= l0 <= lmax /\ 0 <= p0 <= pmax)%Z.
  Proof.
    unfold in_image. rewrite !andb_true_iff, !Z.leb_le. lia.
  Qed.
  Lemma clamp_in_image l0 p0 : (0 <= lmax)%Z -> (0 <= pmax)%Z ->
    in_image lmax pmax (clampZ lmax l0) (clampZ pmax p0) = true.
  Proof. intros. apply in_image_spec. unfold clampZ. lia. Qed.

  (* whenever the loop accepts, the accepted position is the exact one *)
  Lemma newton_conv_exact : forall fuel l0 p0 l1 p1 dl dp,
    newton RO affF lmax pmax tx ty fuel l0 p0 = Conv l1 p1 dl dp ->
    IZR l1 + dl = L /\ IZR p1 + dp = P /\ in_image lmax pmax l1 p1 = true /\ Rabs dl < 1 /\ Rabs dp < 1.
  Proof.
    induction fuel as [|k IH]; intros l0 p0 l1 p1 dl dp H; [discriminate|].
    destruct (in_image lmax pmax l0 p0) eqn:Hin.
    - rewrite newton_unfold in H by exact Hin.
      destruct (Rltb (Rabs (P - IZR p0)) 1 && Rltb (Rabs (L - IZR l0)) 1) eqn:Hacc.
      + inversion H; subst. apply andb_true_iff in Hacc. destruct Hacc as [Hp1 Hl1].
        apply Rltb_true in Hp1. apply Rltb_true in Hl1.
        repeat split; try lra; try assumption.
      + eapply IH; exact H.
    - cbn [newton] in H. rewrite Hin in H. eapply IH; exact H.
  Qed.

  Hypothesis Hl : (0 <= lmax < 2 ^ 31)%Z.
  Hypothesis Hp : (0 <= pmax < 2 ^ 31)%Z.

  (* inside the hull of the pixel centres: accepted within two body executions, from any in-image start *)
  Lemma newton_converges k l0 p0 : in_image lmax pmax l0 p0 = true ->
    0 <= L <= IZR lmax -> 0 <= P <= IZR pmax ->
    exists l1 p1 dl dp, newton RO affF lmax pmax tx ty (S (S k)) l0 p0 = Conv l1 p1 dl dp.
  Proof.
    intros Hin HL HP. rewrite newton_unfold by exact Hin.
    destruct (Rltb (Rabs (P - IZR p0)) 1 && Rltb (Rabs (L - IZR l0)) 1); [do 4 eexists; reflexivity|].
    replace (IZR l0 + (L - IZR l0)) with L by ring. replace (IZR p0 + (P - IZR p0)) with P by ring.
    destruct (c_int_range L lmax HL ltac:(lia)) as [El Bl]. destruct (c_int_range P pmax HP ltac:(lia)) as [Ep Bp].
    rewrite El, Ep. rewrite newton_unfold by (apply in_image_spec; lia).
    assert (A1 : Rltb (Rabs (P - IZR (Zfloor P))) 1 = true).
    { apply Rltb_true. pose proof (Zfloor_lb P). pose proof (Zfloor_ub P). apply Rabs_def1; lra. }
    assert (A2 : Rltb (Rabs (L - IZR (Zfloor L))) 1 = true).
    { apply Rltb_true. pose proof (Zfloor_lb L). pose proof (Zfloor_ub L). apply Rabs_def1; lra. }
    rewrite A1, A2. cbn. do 4 eexists; reflexivity.
  Qed.
End Affine.
